(* C10, liveness clause ("every join eventually returns").

   The sleep/wake handshake between the job queue and the sleeping workers AS IT WAS before
   fixes/C10/01-03 ([c_fixed = false]) has a reachable state in which a client is blocked in join(),
   its job is queued and every thread is blocked for ever: the witness below (found by the explicit
   state search of ocaml/future_driver.ml, 1 client, pool 0..3, queue 4) is replayed by vm_compute.
   For the code as it is now ([c_fixed = true]) the same search space (bounded windows, up to 15 million states) has no
   such state; that is a search result, not a theorem (see the check's level_note).  What is proved
   for all schedules here: a state in which every thread is blocked can never change again. *)
From Coq Require Import ZArith List Bool Lia Arith.
From Common Require Import ListAux.
From Future Require Import FutureModel FutureRingProofs FutureProofs FutureStep.
Import ListNotations.
Local Open Scope Z_scope.

Definition dl_scripts : list (list (nat * cop)) := [[(0%nat, CStart 0%nat 1 0%nat); (1%nat, CStart 1%nat 2 0%nat); (2%nat, CStart 2%nat 3 0%nat); (3%nat, CJoin 0%nat); (4%nat, CJoin 1%nat); (5%nat, CJoin 2%nat); (6%nat, CStart 0%nat 4 0%nat); (7%nat, CJoin 0%nat); (8%nat, CStart 1%nat 5 0%nat); (9%nat, CJoin 1%nat); (10%nat, CJoin 0%nat); (11%nat, CJoin 1%nat); (12%nat, CJoin 2%nat)]].

Definition dl_cfg (fixed : bool) : config :=
  mkConfig 4 0 3 false 3 dl_scripts (fun a => 7 * a + 3) fixed true false.

Definition dl_sched : list move := [(0%nat, false); (0%nat, false); (0%nat, false); (0%nat, false); (0%nat, false); (0%nat, false); (0%nat, false); (0%nat, false); (0%nat, false); (0%nat, false); (0%nat, false); (0%nat, false); (0%nat, false); (0%nat, false); (0%nat, false); (0%nat, false); (0%nat, false); (0%nat, false); (0%nat, false); (0%nat, false); (0%nat, false); (0%nat, false); (0%nat, false); (0%nat, false); (0%nat, false); (0%nat, false); (0%nat, false); (0%nat, false); (0%nat, false); (0%nat, false); (0%nat, false); (0%nat, false); (0%nat, false); (0%nat, false); (0%nat, false); (0%nat, false); (0%nat, false); (0%nat, false); (0%nat, false); (0%nat, false); (0%nat, false); (0%nat, false); (0%nat, false); (0%nat, false); (0%nat, false); (0%nat, false); (0%nat, false); (1%nat, false); (1%nat, false); (1%nat, false); (1%nat, false); (1%nat, false); (1%nat, false); (1%nat, false); (1%nat, false); (1%nat, false); (1%nat, false); (1%nat, false); (1%nat, false); (0%nat, false); (0%nat, false); (0%nat, false); (1%nat, false); (1%nat, false); (1%nat, false); (1%nat, false); (1%nat, false); (1%nat, false); (1%nat, false); (1%nat, false); (1%nat, false); (1%nat, false); (1%nat, false); (1%nat, false); (0%nat, false); (0%nat, false); (0%nat, false); (1%nat, false); (1%nat, false); (1%nat, false); (1%nat, false); (1%nat, false); (1%nat, false); (1%nat, false); (1%nat, false); (1%nat, false); (1%nat, false); (1%nat, false); (1%nat, false); (0%nat, false); (0%nat, false); (1%nat, false); (1%nat, false); (1%nat, false); (1%nat, false); (1%nat, false); (1%nat, false); (1%nat, false); (1%nat, false); (2%nat, false); (2%nat, false); (2%nat, false); (2%nat, false); (2%nat, false); (2%nat, false); (3%nat, false); (3%nat, false); (3%nat, false); (3%nat, false); (3%nat, false); (3%nat, false); (0%nat, false); (0%nat, false); (0%nat, false); (0%nat, false); (0%nat, false); (0%nat, false); (0%nat, false); (0%nat, false); (0%nat, false); (0%nat, false); (0%nat, false); (0%nat, true); (0%nat, false); (0%nat, false); (0%nat, false); (0%nat, false); (0%nat, false); (0%nat, false); (1%nat, false); (1%nat, false); (1%nat, false); (1%nat, false); (1%nat, false); (1%nat, false); (1%nat, false); (1%nat, false); (1%nat, false); (1%nat, false); (1%nat, false); (1%nat, false); (1%nat, false); (1%nat, false); (1%nat, false); (0%nat, false); (0%nat, false); (0%nat, false); (0%nat, false); (0%nat, false); (0%nat, false); (0%nat, false); (0%nat, false); (0%nat, false); (0%nat, false); (0%nat, false); (0%nat, false); (0%nat, false); (0%nat, false); (0%nat, false); (0%nat, false); (0%nat, false); (0%nat, false); (1%nat, false); (1%nat, false); (1%nat, false); (1%nat, false); (1%nat, false); (1%nat, false); (1%nat, false); (1%nat, false)].

Lemma dl_wf fixed : wf_cfg (dl_cfg fixed) (fun _ => 0%nat).
Proof.
  split; [reflexivity|]. split; [|reflexivity]. intros c f (i & op & Hin & Hop).
  destruct c as [|c].
  - cbn in Hin |- *.
    repeat (destruct Hin as [E|Hin]; [inversion E; subst; cbn in Hop; inversion Hop; split; [lia|reflexivity]|]).
    contradiction.
  - cbn in Hin. destruct c; contradiction.
Qed.

Definition deadlocked (cfg : config) (s : state) : bool := client_unfinished cfg s && all_blocked s.

Lemma dl_deadlock : deadlocked (dl_cfg false) (fst (exec (dl_cfg false) dl_sched)) = true.
Proof. vm_compute. reflexivity. Qed.

(* the same schedule on the code as it is now does not end in a deadlock *)
Lemma dl_fixed_alive : deadlocked (dl_cfg true) (fst (exec (dl_cfg true) dl_sched)) = false.
Proof. vm_compute. reflexivity. Qed.

(* ---------------------------------------------------------------------------------------- *)
(* a state in which every thread is blocked never changes                                    *)
(* ---------------------------------------------------------------------------------------- *)
Lemma upd_nth_same {A} (l : list A) n d : (n < length l)%nat -> upd n (nth n l d) l = l.
Proof. revert n. induction l as [|h t IH]; intros [|n] H; cbn in *; try lia; auto. f_equal. apply IH. lia. Qed.

Lemma goto_same s t : (t < length (st_threads s))%nat -> goto s t (t_pc (get_thread s t)) = s.
Proof.
  intro H. unfold goto, get_thread, set_threads. destruct s; cbn in *. f_equal.
  destruct (nth t st_threads dthread) as [p sc cu] eqn:E. cbn. rewrite <- E. now apply upd_nth_same.
Qed.

Lemma set_fs_same s w : set_fs s w (get_fs s w) = s.
Proof. destruct s, w; reflexivity. Qed.

Lemma blocked_stutter cfg s t clk : blocked s t = true -> step cfg s t clk = (s, []).
Proof.
  unfold blocked, step. destruct (t <? length (st_threads s))%nat eqn:Elt; cbn [negb]; [|reflexivity].
  apply Nat.ltb_lt in Elt.
  destruct (t_pc (get_thread s t)) eqn:Epc; try discriminate; try reflexivity.
  - (* PFs *) destruct o; try discriminate. intro Hb. apply negb_true_iff in Hb.
    cbn [fs_step]. rewrite Hb. destruct (get_fs s w) as [st fl] eqn:Eg. cbn [fs_state].
    replace (mkFs st fl) with (get_fs s w). rewrite set_fs_same. rewrite <- Epc. now rewrite goto_same.
  - intro Hb. now rewrite Hb.
  - intro Hb. apply negb_true_iff in Hb. now rewrite Hb.
  - intro Hb. now rewrite Hb.
  - intro Hb. now rewrite Hb.
  - intro Hb. now rewrite Hb.
Qed.

Lemma all_blocked_stutter cfg s t clk : all_blocked s = true -> step cfg s t clk = (s, []).
Proof.
  intro H. destruct (Nat.lt_ge_cases t (length (st_threads s))) as [L|L].
  - apply blocked_stutter. unfold all_blocked in H. rewrite forallb_forall in H. apply H. apply in_seq. lia.
  - unfold step. destruct (Nat.ltb_spec t (length (st_threads s))); [lia|reflexivity].
Qed.

Theorem deadlock_is_permanent cfg s tr sched : all_blocked s = true -> exec_from cfg s tr sched = (s, tr).
Proof.
  intro H. induction sched as [|[t clk] rest IH]; [reflexivity|].
  cbn [exec_from]. rewrite all_blocked_stutter by exact H. exact IH.
Qed.

(* the liveness clause fails for the handshake as it was: some schedule leads to a state in which
   a client still has work, and no continuation whatsoever changes the state *)
Theorem join_liveness_refuted_original_lemma :
  exists cfg own sched,
    wf_cfg cfg own /\ c_fixed cfg = false /\
    let s := fst (exec cfg sched) in
    client_unfinished cfg s = true /\ all_blocked s = true /\
    forall more tr, exec_from cfg s tr more = (s, tr).
Proof.
  exists (dl_cfg false), (fun _ => 0%nat), dl_sched. split; [apply dl_wf|]. split; [reflexivity|].
  pose proof dl_deadlock as H. unfold deadlocked in H. apply andb_true_iff in H as [H1 H2].
  cbv zeta. split; [exact H1|]. split; [exact H2|]. intros more tr. now apply deadlock_is_permanent.
Qed.
