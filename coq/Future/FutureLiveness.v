(* C10, liveness clause ("every join eventually returns").

   The sleep/wake handshake between the job queue and the sleeping workers AS IT WAS before
   fixes/C10/01-03 ([c_fixed = false]) has a reachable state in which a client is blocked in join(),
   its job is queued and every thread is blocked for ever: the witness below (found by the explicit
   state search of ocaml/future_driver.ml, 1 client, pool 0..3, queue 4) is replayed by vm_compute.
   For the code as it is now ([c_fixed = true]) the same search space (bounded windows, up to 15 million states) has no
   such state; that is a search result, not a theorem (see the check's level_note).  What is proved
   for all schedules here: a state in which every thread is blocked can never change again. *)
From Coq Require Import ZArith List Bool Lia Arith.
From Common Require Import ListAux.
From Future Require Import FutureModel FutureRingProofs FutureProofs FutureStep.
Import ListNotations.
Local Open Scope Z_scope.

Definition dl_scripts : list (list (nat * cop)) := [[(0%nat, CStart 0%nat 1 0%nat); (1%nat, CStart 1%nat 2 0%nat); (2%nat, CStart 2%nat 3 0%nat); (3%nat, CJoin 0%nat); (4%nat, CJoin 1%nat); (5%nat, CJoin 2%nat); (6%nat, CStart 0%nat 4 0%nat); (7%nat, CJoin 0%nat); (8%nat, CStart 1%nat 5 0%nat); (9%nat, CJoin 1%nat); (10%nat, CJoin 0%nat); (11%nat, CJoin 1%nat); (12%nat, CJoin 2%nat)]].

Definition dl_cfg (fixed : bool) : config :=
  mkConfig 4 0 3 false 3 dl_scripts (fun a => 7 * a + 3) fixed true false.

Definition dl_sched : list move := [(0%nat, false); (0%nat, false); (0%nat, false); (0%nat, false); (0%nat, false); (0%nat, false); (0%nat, false); (0%nat, false); (0%nat, false); (0%nat, false); (0%nat, false); (0%nat, false); (0%nat, false); (0%nat, false); (0%nat, false); (0%nat, false); (0%nat, false); (0%nat, false); (0%nat, false); (0%nat, false); (0%nat, false); (0%nat, false); (0%nat, false); (0%nat, false); (0%nat, false); (0%nat, false); (0%nat, false); (0%nat, false); (0%nat, false); (0%nat, false); (0%nat, false); (0%nat, false); (0%nat, false); (0%nat, false); (0%nat, false); (0%nat, false); (0%nat, false); (0%nat, false); (0%nat, false); (0%nat, false); (0%nat, false); (0%nat, false); (0%nat, false); (0%nat, false); (0%nat, false); (0%nat, false); (0%nat, false); (1%nat, false); (1%nat, false); (1%nat, false); (1%nat, false); (1%nat, false); (1%nat, false); (1%nat, false); (1%nat, false); (1%nat, false); (1%nat, false); (1%nat, false); (1%nat, false); (0%nat, false); (0%nat, false); (0%nat, false); (1%nat, false); (1%nat, false); (1%nat, false); (1%nat, false); (1%nat, false); (1%nat, false); (1%nat, false); (1%nat, false); (1%nat, false); (1%nat, false); (1%nat, false); (1%nat, false); (0%nat, false); (0%nat, false); (0%nat, false); (1%nat, false); (1%nat, false); (1%nat, false); (1%nat, false); (1%nat, false); (1%nat, false); (1%nat, false); (1%nat, false); (1%nat, false); (1%nat, false); (1%nat, false); (1%nat, false); (0%nat, false); (0%nat, false); (1%nat, false); (1%nat, false); (1%nat, false); (1%nat, false); (1%nat, false); (1%nat, false); (1%nat, false); (1%nat, false); (2%nat, false); (2%nat, false); (2%nat, false); (2%nat, false); (2%nat, false); (2%nat, false); (3%nat, false); (3%nat, false); (3%nat, false); (3%nat, false); (3%nat, false); (3%nat, false); (0%nat, false); (0%nat, false); (0%nat, false); (0%nat, false); (0%nat, false); (0%nat, false); (0%nat, false); (0%nat, false); (0%nat, false); (0%nat, false); (0%nat, false); (0%nat, true); (0%nat, false); (0%nat, false); (0%nat, false); (0%nat, false); (0%nat, false); (0%nat, false); (1%nat, false); (1%nat, false); (1%nat, false); (1%nat, false); (1%nat, false); (1%nat, false); (1%nat, false); (1%nat, false); (1%nat, false); (1%nat, false); (1%nat, false); (1%nat, false); (1%nat, false); (1%nat, false); (1%nat, false); (0%nat, false); (0%nat, false); (0%nat, false); (0%nat, false); (0%nat, false); (0%nat, false); (0%nat, false); (0%nat, false); (0%nat, false); (0%nat, false); (0%nat, false); (0%nat, false); (0%nat, false); (0%nat, false); (0%nat, false); (0%nat, false); (0%nat, false); (0%nat, false); (1%nat, false); (1%nat, false); (1%nat, false); (1%nat, false); (1%nat, false); (1%nat, false); (1%nat, false); (1%nat, false)].

Lemma dl_wf fixed : wf_cfg (dl_cfg fixed) (fun _ => 0%nat).
Proof.
  split; [reflexivity|]. split; [|reflexivity]. intros c f (i & op & Hin & Hop).
  destruct c as [|c].
  - cbn in Hin |- *.
    repeat (destruct Hin as [E|Hin]; [inversion E; subst; cbn in Hop; inversion Hop; split; [lia|reflexivity]|]).
    contradiction.
  - cbn in Hin. destruct c; contradiction.
Qed.

Definition deadlocked (cfg : config) (s : state) : bool := client_unfinished cfg s && all_blocked s.

Lemma dl_deadlock : deadlocked (dl_cfg false) (fst (exec (dl_cfg false) dl_sched)) = true.
Proof. vm_compute. reflexivity. Qed.

(* the same schedule on the code as it is now does not end in a deadlock *)
Lemma dl_fixed_alive : deadlocked (dl_cfg true) (fst (exec (dl_cfg true) dl_sched)) = false.
Proof. vm_compute. reflexivity. Qed.

(* ---------------------------------------------------------------------------------------- *)
(* a state in which every thread is blocked never changes                                    *)
(* ---------------------------------------------------------------------------------------- *)
Lemma upd_nth_same {A} (l : list A) n d : (n < length l)%nat -> upd n (nth n l d) l = l.
Proof. revert n. induction l as [|h t IH]; intros [|n] H; cbn in *; try lia; auto. f_equal. apply IH. lia. Qed.

Lemma goto_same s t : (t < length (st_threads s))%nat -> goto s t (t_pc (get_thread s t)) = s.
Proof.
  intro H. unfold goto, get_thread, set_threads. destruct s; cbn in *. f_equal.
  destruct (nth t st_threads dthread) as [p sc cu] eqn:E. cbn. rewrite <- E. now apply upd_nth_same.
Qed.

Lemma set_fs_same s w : set_fs s w (get_fs s w) = s.
Proof. destruct s, w; reflexivity. Qed.

Lemma blocked_stutter cfg s t clk : blocked s t = true -> step cfg s t clk = (s, []).
Proof.
  unfold blocked, step. destruct (t <? length (st_threads s))%nat eqn:Elt; cbn [negb]; [|reflexivity].
  apply Nat.ltb_lt in Elt.
  destruct (t_pc (get_thread s t)) eqn:Epc; try discriminate; try reflexivity.
  - (* PFs *) destruct o; try discriminate. intro Hb. apply negb_true_iff in Hb.
    cbn [fs_step]. rewrite Hb. destruct (get_fs s w) as [st fl] eqn:Eg. cbn [fs_state].
    replace (mkFs st fl) with (get_fs s w). rewrite set_fs_same. rewrite <- Epc. now rewrite goto_same.
  - intro Hb. now rewrite Hb.
  - intro Hb. apply negb_true_iff in Hb. now rewrite Hb.
  - intro Hb. now rewrite Hb.
  - intro Hb. now rewrite Hb.
  - intro Hb. now rewrite Hb.
Qed.

Lemma all_blocked_stutter cfg s t clk : all_blocked s = true -> step cfg s t clk = (s, []).
Proof.
  intro H. destruct (Nat.lt_ge_cases t (length (st_threads s))) as [L|L].
  - apply blocked_stutter. unfold all_blocked in H. rewrite forallb_forall in H. apply H. apply in_seq. lia.
  - unfold step. destruct (Nat.ltb_spec t (length (st_threads s))); [lia|reflexivity].
Qed.

Theorem deadlock_is_permanent cfg s tr sched : all_blocked s = true -> exec_from cfg s tr sched = (s, tr).
Proof.
  intro H. induction sched as [|[t clk] rest IH]; [reflexivity|].
  cbn [exec_from]. rewrite all_blocked_stutter by exact H. exact IH.
Qed.

(* the liveness clause fails for the handshake as it was: some schedule leads to a state in which
   a client still has work, and no continuation whatsoever changes the state *)
Theorem join_liveness_refuted_original_lemma :
  exists cfg own sched,
    wf_cfg cfg own /\ c_fixed cfg = false /\
    let s := fst (exec cfg sched) in
    client_unfinished cfg s = true /\ all_blocked s = true /\
    forall more tr, exec_from cfg s tr more = (s, tr).
Proof.
  exists (dl_cfg false), (fun _ => 0%nat), dl_sched. split; [apply dl_wf|]. split; [reflexivity|].
  pose proof dl_deadlock as H. unfold deadlocked in H. apply andb_true_iff in H as [H1 H2].
  cbv zeta. split; [exact H1|]. split; [exact H2|]. intros more tr. now apply deadlock_is_permanent.
Qed.

(* ---------------------------------------------------------------------------------------- *)
(* [blocked] is exact: a thread that is not blocked changes the state                        *)
(* ---------------------------------------------------------------------------------------- *)
Lemma goto_neq s s1 t p' : (t < nthreads s1)%nat -> p' <> pc_of s t -> goto s1 t p' <> s.
Proof. intros L N E. apply N. rewrite <- E. now rewrite pc_goto_same. Qed.

Lemma script_neq s s1 t : script_of s1 t <> script_of s t -> s1 <> s.
Proof. intros N E. apply N. now rewrite E. Qed.

Lemma cons_neq {A} (x : A) l : l <> x :: l.
Proof. intro E. apply (f_equal (@length A)) in E. cbn in E. lia. Qed.

Lemma join_or_moves cfg s s1 t f a :
  (t < nthreads s1)%nat -> pc_of s t <> CJoinWait f a -> pc_of s t <> PIdle \/ script_of s1 t <> script_of s t ->
  (forall arg work, pc_of s t <> CStartSet f arg work) ->
  fst (join_or cfg s1 t f a) <> s.
Proof.
  intros L N1 N2 N3. unfold join_or. destruct (f_joinable (get_fut s1 f)); cbn [fst].
  - apply goto_neq; auto.
  - unfold finish_join. destruct a; cbn [fst].
    + apply goto_neq; auto.
    + destruct N2 as [N2|N2]; [apply goto_neq; auto|].
      apply (script_neq s _ t). rewrite (script_goto s1 t _ t L). exact N2.
    + destruct N2 as [N2|N2]; [apply goto_neq; auto|].
      apply (script_neq s _ t). rewrite (script_goto s1 t _ t L). exact N2.
    + destruct N2 as [N2|N2]; [apply goto_neq; auto|].
      apply (script_neq s _ t). rewrite (script_goto s1 t _ t L). exact N2.
Qed.

Lemma ghost_ring_threads t s e : st_threads (ghost_ring t s e) = st_threads s.
Proof.
  destruct e as [tk v|tk|tk v]; cbn [ghost_ring]; try reflexivity.
  - destruct v; reflexivity.
  - destruct (nth _ _ _); reflexivity.
Qed.

Lemma nthreads_ghost t revs : forall s0, nthreads (fold_left (ghost_ring t) revs s0) = nthreads s0.
Proof.
  induction revs as [|e l IH]; intro s0; [reflexivity|]. cbn [fold_left]. rewrite IH.
  unfold nthreads. now rewrite ghost_ring_threads.
Qed.

Lemma unblocked_moves cfg s t clk :
  (t < nthreads s)%nat -> blocked s t = false -> fst (step cfg s t clk) <> s.
Proof.
  intros Lt Hb. unfold blocked in Hb. unfold step.
  destruct (Nat.ltb_spec t (length (st_threads s))) as [_|Hge]; [|unfold nthreads in Lt; lia]. cbn [negb] in *.
  change (t_pc (get_thread s t)) with (pc_of s t) in *.
  destruct (pc_of s t) eqn:Epc; try discriminate;
    try (cbn [fst]; apply goto_neq; [exact Lt|rewrite Epc; discriminate]).
  - (* PIdle *)
    change (t_script (get_thread s t)) with (script_of s t).
    destruct (script_of s t) as [|[i op] rest] eqn:Esc.
    { cbn [fst]. apply goto_neq; [exact Lt|rewrite Epc; discriminate]. }
    set (s1 := set_threads s (upd t (mkThread PIdle rest i) (st_threads s))).
    assert (L1 : (t < nthreads s1)%nat) by (unfold nthreads, s1; cbn; now rewrite upd_length).
    assert (Sc : script_of s1 t <> script_of s t).
    { unfold script_of at 1. unfold s1. rewrite get_thread_upd by exact Lt. rewrite Nat.eqb_refl. cbn. rewrite Esc. apply cons_neq. }
    assert (J : forall f a, fst (join_or cfg s1 t f a) <> s).
    { intros f a. apply join_or_moves; auto; rewrite Epc; try discriminate; intros; discriminate. }
    destruct op; try apply J.
    + destruct (st_pool s1); [apply J|]. cbn [fst]. apply goto_neq; [exact L1|rewrite Epc; discriminate].
    + cbn [fst]. apply (script_neq s _ t). unfold script_of, put_fut, get_thread in *. cbn [st_threads set_futs]. exact Sc.
    + cbn [fst]. apply (script_neq s _ t). exact Sc.
    + cbn [fst]. apply (script_neq s _ t). exact Sc.
    + destruct (c_nested cfg); cbn [fst]; [apply goto_neq; [exact L1|rewrite Epc; discriminate]|apply (script_neq s _ t); exact Sc].
  - (* PRing *)
    destruct (ring_step (st_ring s) r) as [[r' rp'] revs] eqn:Er. cbn [fst].
    apply goto_neq.
    + rewrite nthreads_ghost. exact Lt.
    + rewrite Epc. destruct r; cbn [ring_step] in Er;
        repeat match type of Er with context [if ?c then _ else _] => destruct c end;
        inversion Er; subst; try discriminate;
        try (destruct k; cbn; try discriminate; repeat match goal with |- context [if ?c then _ else _] => destruct c end; discriminate);
        try (destruct b; destruct k; cbn; discriminate);
        try (destruct r0; destruct k; cbn; try discriminate; destruct (c_fixed cfg); discriminate).
      destruct r as [j|]; destruct k; cbn; try discriminate; destruct (c_fixed cfg); discriminate.
  - (* PFs *)
    destruct (fs_step (c_fixed cfg) (get_fs s w) o) as [g' o'] eqn:Efs.
    assert (L1 : (t < nthreads (set_fs s w g'))%nat) by (destruct w; exact Lt).
    destruct o' as [o2|]; cbn [fst]; apply goto_neq; try exact L1; rewrite Epc.
    + destruct o; cbn [fs_step] in Efs;
        repeat match type of Efs with context [if ?c then _ else _] => destruct c eqn:? end;
        inversion Efs; subst; try discriminate.
      (* FWait2 -> FWait2 only when the flag is clear: blocked, excluded by Hb *)
    + destruct k; cbn; try discriminate. destruct j; discriminate.
  - (* CSpin *) rewrite Hb. cbn [fst]. apply goto_neq; [exact Lt|rewrite Epc; discriminate].
  - (* CRecheck *) destruct (st_pool s); cbn [fst]; apply goto_neq; try exact Lt; rewrite Epc; discriminate.
  - (* CUnlockPool *)
    apply join_or_moves; auto; rewrite Epc; try discriminate; try (left; discriminate); intros; discriminate.
  - (* CJoinWait *)
    apply negb_false_iff in Hb. rewrite Hb. cbn [fst]. apply goto_neq; [exact Lt|rewrite Epc; discriminate].
  - (* CJoinReset *)
    destruct (finish_join cfg _ t f a (Some _)) as [s2 evs] eqn:Ef. cbn [fst].
    unfold finish_join in Ef. destruct a; inversion Ef; subst; apply goto_neq; try exact Lt; rewrite Epc; discriminate.
  - (* CRdTc *)
    cbn [fst]. apply goto_neq; [exact Lt|]. rewrite Epc.
    repeat match goal with |- context [if ?c then _ else _] => destruct c end; discriminate.
  - (* CGrowLock *) rewrite Hb. cbn [fst]. apply goto_neq; [exact Lt|rewrite Epc; discriminate].
  - (* CGrowInc *) destruct (_ <? _); cbn [fst]; apply goto_neq; try exact Lt; rewrite Epc; discriminate.
  - (* CGrowUnlock *) cbn [fst]. apply goto_neq; [exact Lt|rewrite Epc; destruct ctx; discriminate].
  - (* CSpawn *)
    cbn [fst]. apply goto_neq; [|rewrite Epc; discriminate].
    unfold nthreads in *. cbn. rewrite app_length. lia.
  - (* CShrinkLock *) rewrite Hb. cbn [fst]. apply goto_neq; [exact Lt|rewrite Epc; discriminate].
  - (* CShrinkChk *) destruct (_ <? _); cbn [fst]; apply goto_neq; try exact Lt; rewrite Epc; discriminate.
  - (* CShrinkDec *) cbn [fst]. apply goto_neq; [exact Lt|rewrite Epc; destruct (c_fixed cfg); discriminate].
  - (* WCall *)
    rewrite Hb. destruct (c_nested cfg && (4 <=? work)%nat); cbn [fst].
    + intro E. apply (f_equal (fun s => pc_of s t)) in E. rewrite Epc in E.
      unfold pc_of in E. rewrite get_thread_upd in E by (unfold nthreads, put_fut in *; cbn; exact Lt).
      rewrite Nat.eqb_refl in E. discriminate.
    + apply goto_neq; [exact Lt|rewrite Epc; discriminate].
  - (* WSigSet *) cbn [fst]. apply goto_neq; [exact Lt|rewrite Epc; destruct (c_sigfix cfg); discriminate].
Qed.

(* The state can change no more exactly when every thread is blocked; such a state is permanent. *)
Theorem stuck_iff_all_blocked cfg s :
  (forall t clk, fst (step cfg s t clk) = s) <-> all_blocked s = true.
Proof.
  split.
  - intro H. unfold all_blocked. apply forallb_forall. intros t Ht. apply in_seq in Ht.
    destruct (blocked s t) eqn:Eb; [reflexivity|]. exfalso.
    apply (unblocked_moves cfg s t false); [unfold nthreads; lia|exact Eb|apply H].
  - intros H t clk. now rewrite all_blocked_stutter.
Qed.

Theorem join_liveness_partial_lemma cfg s :
  ((forall t clk, fst (step cfg s t clk) = s) <-> all_blocked s = true) /\
  (all_blocked s = true -> forall sched tr, exec_from cfg s tr sched = (s, tr)).
Proof. split; [apply stuck_iff_all_blocked|]. intros H sched tr. now apply deadlock_is_permanent. Qed.
