(* C10, liveness clause, part (A): no reachable state of the repaired code is a deadlock.

   This file: the wake-up / worker-count bookkeeping invariant LInv (definitions only + the generic
   lemmas about weighted sums over the program counters).  Every clause is arithmetic over
   [wsum w s] = the number of threads whose program counter is in a class w. *)
From Coq Require Import ZArith List Bool Lia Arith.
From Coq Require Import ZifyBool ZifyNat.
From Common Require Import ListAux.
From Future Require Import FutureModel FutureRingProofs FutureProofs FutureStep FutureLiveness FutureNested.
Import ListNotations.
Local Open Scope Z_scope.

(* ---------------------------------------------------------------------------------------- *)
(* weighted sums over the program counters                                                   *)
(* ---------------------------------------------------------------------------------------- *)
Definition pcs (s : state) : list pc := map t_pc (st_threads s).

Fixpoint zsum (l : list Z) : Z := match l with [] => 0 | x :: r => x + zsum r end.

Definition wsum (w : pc -> Z) (s : state) : Z := zsum (map w (pcs s)).

Lemma zsum_app a b : zsum (a ++ b) = zsum a + zsum b.
Proof. induction a as [|x a IH]; cbn [app zsum]; lia. Qed.

Lemma map_upd {A B} (f : A -> B) n x l : map f (upd n x l) = upd n (f x) (map f l).
Proof. revert n; induction l as [|h t IH]; intros [|n]; cbn; auto. now rewrite IH. Qed.

Lemma zsum_upd n x l d : (n < length l)%nat -> zsum (upd n x l) = zsum l - nth n l d + x.
Proof.
  revert n; induction l as [|h t IH]; intros [|n] H; cbn in *; try lia.
  rewrite IH by lia. lia.
Qed.

Lemma pcs_length s : length (pcs s) = nthreads s.
Proof. unfold pcs, nthreads. apply map_length. Qed.

Lemma nth_pcs s x : nth x (pcs s) PDone = pc_of s x.
Proof. unfold pcs, pc_of, get_thread. change PDone with (t_pc dthread). apply map_nth. Qed.

Lemma nth_map_pcs0 (w : pc -> Z) s x : nth x (map w (pcs s)) (w PDone) = w (pc_of s x).
Proof. rewrite <- nth_pcs. apply (map_nth w). Qed.

Lemma wsum_pcs w s l : pcs s = l -> wsum w s = zsum (map w l).
Proof. intros <-. reflexivity. Qed.

Lemma wsum_upd w s s' t p :
  (t < nthreads s)%nat -> pcs s' = upd t p (pcs s) -> wsum w s' = wsum w s - w (pc_of s t) + w p.
Proof.
  intros Ht E. unfold wsum. rewrite E, map_upd.
  rewrite (zsum_upd t (w p) (map w (pcs s)) (w PDone)) by (rewrite map_length, pcs_length; exact Ht).
  rewrite nth_map_pcs0. reflexivity.
Qed.

Lemma wsum_upd_app w s s' t p q :
  (t < nthreads s)%nat -> pcs s' = upd t p (pcs s) ++ [q] -> wsum w s' = wsum w s - w (pc_of s t) + w p + w q.
Proof.
  intros Ht E. unfold wsum. rewrite E, map_app, zsum_app, map_upd.
  rewrite (zsum_upd t (w p) (map w (pcs s)) (w PDone)) by (rewrite map_length, pcs_length; exact Ht).
  rewrite nth_map_pcs0. cbn [map zsum]. lia.
Qed.

Lemma zsum_nonneg l : (forall x, In x l -> 0 <= x) -> 0 <= zsum l.
Proof. induction l as [|h t IH]; cbn [zsum]; intro H; [lia|]. pose proof (H h (or_introl eq_refl)). assert (0 <= zsum t) by (apply IH; intros; apply H; now right). lia. Qed.

Lemma wsum_nonneg w s : (forall p, 0 <= w p) -> 0 <= wsum w s.
Proof. intro H. unfold wsum. apply zsum_nonneg. intros x Hx. apply in_map_iff in Hx as (p & <- & _). apply H. Qed.

(* a member's weight is at most the sum *)
Lemma zsum_member l n d : (forall x, In x l -> 0 <= x) -> (n < length l)%nat -> nth n l d <= zsum l.
Proof.
  revert n; induction l as [|h t IH]; intros [|n] Hp Hn; cbn in *; try lia.
  - assert (0 <= zsum t) by (apply zsum_nonneg; intros; apply Hp; now right). lia.
  - assert (nth n t d <= zsum t) by (apply IH; [intros; apply Hp; now right|lia]).
    pose proof (Hp h (or_introl eq_refl)). lia.
Qed.

Lemma nth_map_pcs (w : pc -> Z) s x : nth x (map w (pcs s)) (w PDone) = w (pc_of s x).
Proof. rewrite <- nth_pcs. apply (map_nth w). Qed.

Lemma wsum_member w s x : (forall p, 0 <= w p) -> (x < nthreads s)%nat -> w (pc_of s x) <= wsum w s.
Proof.
  intros Hp Hx. unfold wsum. rewrite <- nth_map_pcs.
  apply zsum_member; [|rewrite map_length, pcs_length; exact Hx].
  intros y Hy. apply in_map_iff in Hy as (p & <- & _). apply Hp.
Qed.

(* two distinct members *)
Lemma zsum_member2 l a b d : (forall x, In x l -> 0 <= x) -> (a < length l)%nat -> (b < length l)%nat -> a <> b ->
  nth a l d + nth b l d <= zsum l.
Proof.
  revert a b; induction l as [|h t IH]; intros [|a] [|b] Hp Ha Hb Hab; cbn in *; try lia.
  - assert (nth b t d <= zsum t) by (apply zsum_member; [intros; apply Hp; now right|lia]). lia.
  - assert (nth a t d <= zsum t) by (apply zsum_member; [intros; apply Hp; now right|lia]). lia.
  - assert (nth a t d + nth b t d <= zsum t) by (apply IH; [intros; apply Hp; now right|lia|lia|lia]).
    pose proof (Hp h (or_introl eq_refl)). lia.
Qed.

Lemma wsum_member2 w s x y : (forall p, 0 <= w p) -> (x < nthreads s)%nat -> (y < nthreads s)%nat -> x <> y ->
  w (pc_of s x) + w (pc_of s y) <= wsum w s.
Proof.
  intros Hp Hx Hy Hxy. unfold wsum. rewrite <- (nth_map_pcs w s x), <- (nth_map_pcs w s y).
  apply zsum_member2; try (rewrite map_length, pcs_length; assumption); auto.
  intros z Hz. apply in_map_iff in Hz as (p & <- & _). apply Hp.
Qed.

(* a positive sum of 0/1-weights has a member of weight >= 1 *)
Lemma zsum_pos_ex l : 1 <= zsum l -> exists n, (n < length l)%nat /\ 1 <= nth n l 0.
Proof.
  induction l as [|h t IH]; cbn [zsum]; intro H; [lia|].
  destruct (Z_le_gt_dec 1 h) as [L|L].
  - exists 0%nat. cbn. split; [lia|exact L].
  - destruct (Z_le_gt_dec 1 (zsum t)) as [L2|L2].
    + destruct (IH L2) as (n & Hn & Hv). exists (S n). cbn. split; [lia|exact Hv].
    + lia.
Qed.

Lemma wsum_pos_ex w s : w PDone = 0 -> 1 <= wsum w s -> exists x, (x < nthreads s)%nat /\ 1 <= w (pc_of s x).
Proof.
  intros H0 H. unfold wsum in H. destruct (zsum_pos_ex _ H) as (n & Hn & Hv).
  rewrite map_length, pcs_length in Hn. exists n. split; [exact Hn|].
  rewrite <- H0 in Hv. rewrite nth_map_pcs in Hv. exact Hv.
Qed.

Lemma zsum_le l1 l2 : Forall2 Z.le l1 l2 -> zsum l1 <= zsum l2.
Proof. induction 1; cbn [zsum]; lia. Qed.

Lemma wsum_le w1 w2 s : (forall x, (x < nthreads s)%nat -> w1 (pc_of s x) <= w2 (pc_of s x)) -> wsum w1 s <= wsum w2 s.
Proof.
  intro H. unfold wsum. apply zsum_le.
  assert (G : forall l, (forall p, In p l -> w1 p <= w2 p) -> Forall2 Z.le (map w1 l) (map w2 l)).
  { induction l as [|h t IH]; intro Hl; cbn; constructor; [apply Hl; now left|apply IH; intros; apply Hl; now right]. }
  apply G. intros p Hp. apply (In_nth _ _ PDone) in Hp as (n & Hn & <-). rewrite pcs_length in Hn.
  rewrite nth_pcs. now apply H.
Qed.

Lemma wsum_ext w1 w2 s : (forall x, (x < nthreads s)%nat -> w1 (pc_of s x) = w2 (pc_of s x)) -> wsum w1 s = wsum w2 s.
Proof.
  intro H. assert (wsum w1 s <= wsum w2 s) by (apply wsum_le; intros; rewrite H by assumption; lia).
  assert (wsum w2 s <= wsum w1 s) by (apply wsum_le; intros; rewrite H by assumption; lia). lia.
Qed.

(* ---------------------------------------------------------------------------------------- *)
(* null jobs among the tickets [a, b) of the log                                             *)
(* ---------------------------------------------------------------------------------------- *)
Definition is_null (j : job) : bool := match j with JNull => true | JCall _ _ _ _ => false end.

Fixpoint cnt_from (lg : list job) (a n : nat) : Z :=
  match n with
  | O => 0
  | S k => (if is_null (nth a lg JNull) then 1 else 0) + cnt_from lg (S a) k
  end.

Definition nulls (lg : list job) (a b : Z) : Z := cnt_from lg (Z.to_nat a) (Z.to_nat (b - a)).

Lemma cnt_from_nonneg lg a n : 0 <= cnt_from lg a n.
Proof. revert a; induction n as [|n IH]; intro a; cbn [cnt_from]; [lia|]. specialize (IH (S a)). destruct (is_null _); lia. Qed.

Lemma cnt_from_le lg a n : cnt_from lg a n <= Z.of_nat n.
Proof. revert a; induction n as [|n IH]; intro a; cbn [cnt_from]; [lia|]. specialize (IH (S a)). destruct (is_null _); lia. Qed.

Lemma cnt_from_last lg a n :
  cnt_from lg a (S n) = cnt_from lg a n + (if is_null (nth (a + n) lg JNull) then 1 else 0).
Proof.
  revert a; induction n as [|n IH]; intro a.
  - cbn [cnt_from]. rewrite Nat.add_0_r. lia.
  - change (cnt_from lg a (S (S n))) with ((if is_null (nth a lg JNull) then 1 else 0) + cnt_from lg (S a) (S n)).
    rewrite IH. cbn [cnt_from]. replace (S a + n)%nat with (a + S n)%nat by lia. lia.
Qed.

Lemma cnt_from_app lg v a n : (a + n <= length lg)%nat -> cnt_from (lg ++ [v]) a n = cnt_from lg a n.
Proof.
  revert a; induction n as [|n IH]; intros a H; cbn [cnt_from]; [reflexivity|].
  rewrite IH by lia. rewrite app_nth1 by lia. reflexivity.
Qed.

Lemma cnt_from_mono lg a n m : (n <= m)%nat -> cnt_from lg a n <= cnt_from lg a m.
Proof.
  intro H. induction H as [|m H IH]; [lia|]. rewrite cnt_from_last. destruct (is_null _); lia.
Qed.

Lemma nulls_nonneg lg a b : 0 <= nulls lg a b.
Proof. apply cnt_from_nonneg. Qed.

Lemma nulls_empty lg a : nulls lg a a = 0.
Proof. unfold nulls. rewrite Z.sub_diag. reflexivity. Qed.

Lemma nulls_pop lg a b : 0 <= a < b ->
  nulls lg (a + 1) b = nulls lg a b - (if is_null (nth (Z.to_nat a) lg JNull) then 1 else 0).
Proof.
  intro H. unfold nulls. replace (Z.to_nat (b - a)) with (S (Z.to_nat (b - (a + 1)))) by lia.
  cbn [cnt_from]. replace (Z.to_nat (a + 1)) with (S (Z.to_nat a)) by lia. lia.
Qed.

Lemma nulls_push lg v a b : 0 <= a <= b -> b = Z.of_nat (length lg) ->
  nulls (lg ++ [v]) a (b + 1) = nulls lg a b + (if is_null v then 1 else 0).
Proof.
  intros H E. unfold nulls. replace (Z.to_nat (b + 1 - a)) with (S (Z.to_nat (b - a))) by lia.
  rewrite cnt_from_last. rewrite cnt_from_app by lia.
  replace (Z.to_nat a + Z.to_nat (b - a))%nat with (length lg) by lia.
  rewrite app_nth2 by lia. rewrite Nat.sub_diag. reflexivity.
Qed.

Lemma nulls_app lg v a b : 0 <= a <= b -> b <= Z.of_nat (length lg) -> nulls (lg ++ [v]) a b = nulls lg a b.
Proof. intros H E. unfold nulls. apply cnt_from_app. lia. Qed.

Lemma nulls_mono lg a b c : 0 <= a -> b <= c -> nulls lg a b <= nulls lg a c.
Proof. intros Ha H. unfold nulls. apply cnt_from_mono. lia. Qed.

Lemma nulls_le lg a b : a <= b -> nulls lg a b <= b - a.
Proof. intro H. unfold nulls. pose proof (cnt_from_le lg (Z.to_nat a) (Z.to_nat (b - a))). lia. Qed.

(* ---------------------------------------------------------------------------------------- *)
(* classes of program counters                                                               *)
(* ---------------------------------------------------------------------------------------- *)
Definition is_worker_pc (p : pc) : bool :=
  match p with
  | PRing KWPop1 _ | PRing KWPop2 _ => true
  | PFs KWReset _ _ | PFs KWWait _ _ | PFs (KWRearm _) _ _ | PFs (KWSet _) _ _ => true
  | WCall _ _ _ _ | WStore _ _ _ | WRdAbort _ _ | WSwap _ _ _ | WSigSet _ _ | WIncProc | WBcast _ _ => true
  | _ => false
  end.

Definition nullz (j : job) : Z := if is_null j then 1 else 0.
Definition callz (j : job) : Z := if is_null j then 0 else 1.

(* a live worker that has not taken a null job *)
Definition w_lnd (lg : list job) (p : pc) : Z :=
  match p with
  | PRing KWPop1 r | PRing KWPop2 r =>
      match r with
      | PopRead h => callz (nth (Z.to_nat h) lg JNull)
      | PopRelease _ j => callz j
      | _ => 1
      end
  | PFs (KWRearm j) _ _ | PFs (KWSet j) _ _ => callz j
  | PFs KWReset _ _ | PFs KWWait _ _ => 1
  | WCall _ _ _ _ | WStore _ _ _ | WRdAbort _ _ | WSwap _ _ _ | WSigSet _ _ | WIncProc | WBcast _ _ => 1
  | _ => 0
  end.

(* a worker that holds a call which is not yet counted in _processedJobs *)
Definition w_hold (lg : list job) (p : pc) : Z :=
  match p with
  | PRing KWPop1 r | PRing KWPop2 r =>
      match r with
      | PopRead h => callz (nth (Z.to_nat h) lg JNull)
      | PopRelease _ j => callz j
      | _ => 0
      end
  | PFs (KWRearm j) _ _ | PFs (KWSet j) _ _ => callz j
  | WCall _ _ _ _ | WStore _ _ _ | WRdAbort _ _ | WSwap _ _ _ | WSigSet _ _ | WIncProc | WBcast _ _ => 1
  | _ => 0
  end.

Definition w_spawn (p : pc) : Z := match p with CGrowUnlock true | CSpawn => 1 | _ => 0 end.

Definition w_dec (p : pc) : Z :=      (* null job claimed, _threadCount not yet decremented *)
  match p with PRing KShrinkPush (PushWrite _ _) | PRing KShrinkPush (PushPublish _ _) | CShrinkDec => 1 | _ => 0 end.

Definition w_shpre (p : pc) : Z :=
  match p with PRing KShrinkPush (PushRdTail _) | PRing KShrinkPush (PushRdSlot _ _) | PRing KShrinkPush (PushCas _ _) => 1 | _ => 0 end.

Definition w_inc (p : pc) : Z :=      (* call claimed, _pushedJobs not yet incremented *)
  match p with
  | PRing (KRunPush1 _) (PushWrite _ _) | PRing (KRunPush1 _) (PushPublish _ _)
  | PRing (KRunPush2 _) (PushWrite _ _) | PRing (KRunPush2 _) (PushPublish _ _) => 1
  | PFs KRunSet _ _ | CInc => 1
  | _ => 0
  end.

Definition w_g1 (pushed : Z) (p : pc) : Z := match p with CRdProc p0 => if pushed <=? p0 then 1 else 0 | _ => 0 end.
Definition w_g2 (p : pc) : Z := match p with CRdTc p0 q0 => if 1 <=? p0 - q0 then 1 else 0 | _ => 0 end.
Definition w_gr (p : pc) : Z := match p with CGrowLock | CGrowInc => 1 | _ => 0 end.

Definition w_mh (p : pc) : Z :=       (* holds ThreadPool::_mutex *)
  match p with
  | CGrowInc | CGrowUnlock _ | CShrinkChk | PRing KShrinkPush _ | CShrinkDec | PFs KShrinkSet _ _ | CShrinkUnlock => 1
  | _ => 0
  end.
Definition w_ph (p : pc) : Z := match p with CRecheck _ _ _ | CSwapPool _ _ _ | CUnlockPool _ _ _ => 1 | _ => 0 end.

Definition which_eqb (a b : which) : bool := match a, b with Enq, Enq | Deq, Deq => true | _, _ => false end.

(* inside FastSignal::set / reset past the _state access: will (re)write the inner flag *)
Definition w_fsp (w : which) (p : pc) : Z :=
  match p with
  | PFs _ w' FSet2 | PFs _ w' FReset2 | PFs _ w' FReset3 => if which_eqb w' w then 1 else 0
  | _ => 0
  end.

(* will set the enqueued signal, or is a worker that re-examines the queue, before it can block *)
Definition w_e (r : ring) (p : pc) : Z :=
  match p with
  | PRing _ (PushWrite _ _) | PRing _ (PushPublish _ _) => 1
  | PFs KRunSet Enq FSet1 | CShrinkDec | PFs KShrinkSet Enq FSet1 => 1
  | PRing KWPop2 (PopRead _) | PRing KWPop2 (PopRelease _ _) | PFs (KWRearm _) Enq FSet1 => 1
  | PFs KWReset Enq _ => 1
  | PRing KWPop2 PopRdHead | PRing KWPop2 (PopCas _) => 1
  | PRing KWPop2 (PopRdSlot h) => if (h =? r_head r) || (s_head (get_slot r h) =? h) then 1 else 0
  | _ => 0
  end.

(* will set the dequeued signal, or is a producer that re-examines the queue, before it can block *)
Definition w_d (r : ring) (p : pc) : Z :=
  match p with
  | PRing _ (PopRead _) | PRing _ (PopRelease _ _) => 1
  | PFs (KWRearm _) _ _ | PFs (KWSet _) Deq FSet1 => 1
  | PFs (KRunReset _) Deq _ => 1
  | PRing (KRunPush2 _) (PushRdTail _) | PRing (KRunPush2 _) (PushCas _ _) => 1
  | PRing (KRunPush2 _) (PushRdSlot _ t) => if (t =? r_tail r) || (s_tail (get_slot r t) =? t) then 1 else 0
  | _ => 0
  end.

Definition w_wait (p : pc) : Z :=     (* a producer that found the queue full and has not claimed a ticket since *)
  match p with
  | PRing (KRunPush2 _) (PushRdTail _) | PRing (KRunPush2 _) (PushRdSlot _ _) | PRing (KRunPush2 _) (PushCas _ _) => 1
  | PFs (KRunWait _) _ _ => 1
  | _ => 0
  end.

Definition w_pushing (tk : Z) (p : pc) : Z :=
  match p with PRing _ (PushWrite _ t) | PRing _ (PushPublish _ t) => if t =? tk then 1 else 0 | _ => 0 end.
Definition w_popping (tk : Z) (p : pc) : Z :=
  match p with PRing _ (PopRead h) | PRing _ (PopRelease h _) => if h =? tk then 1 else 0 | _ => 0 end.

(* ---------------------------------------------------------------------------------------- *)
(* per-thread typing: which continuation goes with which operation                           *)
(* ---------------------------------------------------------------------------------------- *)
Definition job_fine (j : job) : Prop := match j with JCall _ _ _ wk => wk <> 3%nat | JNull => True end.
Definition is_call (j : job) : Prop := match j with JCall _ _ _ _ => True | JNull => False end.

Definition push_job (r : rpc) : option job :=
  match r with
  | PushRdTail v | PushRdSlot v _ | PushCas v _ | PushWrite v _ | PushPublish v _ => Some v
  | _ => None
  end.

Definition after_fine (a : after) : Prop := match a with AStart _ wk => wk <> 3%nat | _ => True end.

Definition pc_ok (p : pc) : Prop :=
  match p with
  | PRing (KRunPush1 j) r | PRing (KRunPush2 j) r => push_job r = Some j /\ is_call j /\ job_fine j
  | PRing KShrinkPush r => push_job r = Some JNull
  | PRing KWPop1 r | PRing KWPop2 r =>
      match r with
      | PopRdHead | PopRdSlot _ | PopCas _ | PopRead _ => True
      | PopRelease _ j => job_fine j
      | _ => False
      end
  | PRing _ _ => False
  | PFs (KRunReset j) Deq o => (o = FReset1 \/ o = FReset2 \/ o = FReset3 \/ o = FSet2) /\ is_call j /\ job_fine j
  | PFs (KRunWait j) Deq o => (o = FWait1 \/ o = FWait2) /\ is_call j /\ job_fine j
  | PFs KRunSet Enq o | PFs KShrinkSet Enq o => o = FSet1 \/ o = FSet2
  | PFs (KWRearm j) Enq o => (o = FSet1 \/ o = FSet2) /\ job_fine j
  | PFs (KWSet j) Deq o => (o = FSet1 \/ o = FSet2) /\ job_fine j
  | PFs KWReset Enq o => o = FReset1 \/ o = FReset2 \/ o = FReset3 \/ o = FSet2
  | PFs KWWait Enq o => o = FWait1 \/ o = FWait2
  | PFs _ _ _ => False
  | CSpin _ _ wk | CRecheck _ _ wk | CSwapPool _ _ wk | CUnlockPool _ _ wk | CStartSet _ _ wk => wk <> 3%nat
  | CJoinWait _ a | CJoinReset _ a => after_fine a
  | WCall _ _ _ wk => wk <> 3%nat
  | _ => True
  end.

Definition script_fine (sc : list (nat * cop)) : Prop :=
  forall i f a wk, In (i, CStart f a wk) sc -> wk <> 3%nat.

(* ---------------------------------------------------------------------------------------- *)
(* where the call of a future is, by its ghost phase                                         *)
(* ---------------------------------------------------------------------------------------- *)
Definition jobf (j : job) (f : nat) : Prop := match j with JCall f' _ _ _ => f' = f | JNull => False end.

Definition prepush_of (f : nat) (p : pc) : Prop :=
  match p with
  | PRing (KRunPush1 j) (PushRdTail _) | PRing (KRunPush1 j) (PushRdSlot _ _) | PRing (KRunPush1 j) (PushCas _ _)
  | PRing (KRunPush2 j) (PushRdTail _) | PRing (KRunPush2 j) (PushRdSlot _ _) | PRing (KRunPush2 j) (PushCas _ _) => jobf j f
  | PFs (KRunReset j) _ _ | PFs (KRunWait j) _ _ => jobf j f
  | _ => False
  end.

Definition taken_of (lg : list job) (f : nat) (p : pc) : Prop :=
  match p with
  | PRing _ (PopRead h) => jobf (nth (Z.to_nat h) lg JNull) f
  | PRing _ (PopRelease _ j) => jobf j f
  | PFs (KWRearm j) _ _ | PFs (KWSet j) _ _ => jobf j f
  | WCall f' _ _ _ => f' = f
  | _ => False
  end.

Definition ran_of (f : nat) (p : pc) : Prop :=
  match p with WStore f' _ _ | WRdAbort f' _ | WSwap f' _ _ => f' = f | _ => False end.

Definition phase_ok (s : state) (f : nat) : Prop :=
  match f_phase (get_fut s f) with
  | PhIdle | PhSignalled => True
  | PhStarted => exists y, (y < nthreads s)%nat /\ prepush_of f (pc_of s y)
  | PhQueued tk => r_head (st_ring s) <= tk < r_tail (st_ring s) /\ jobf (logv (st_ring s) tk) f
  | PhTaken w => taken_of (r_log (st_ring s)) f (pc_of s w)
  | PhRan w => ran_of f (pc_of s w)
  | PhCompleted w => match pc_of s w with WSigSet f' _ => f' = f | _ => False end
  end.

Definition b2z (b : bool) : Z := if b then 1 else 0.

(* ---------------------------------------------------------------------------------------- *)
(* the invariant                                                                             *)
(* ---------------------------------------------------------------------------------------- *)
Definition cl_ncl (cfg : config) (s : state) : Prop := (length (c_scripts cfg) <= nthreads s)%nat.
Definition cl_role (cfg : config) (s : state) : Prop :=
  forall x, (x < length (c_scripts cfg))%nat -> is_worker_pc (pc_of s x) = false.
Definition cl_pc (s : state) : Prop := forall x, pc_ok (pc_of s x).
Definition cl_script (s : state) : Prop := forall x, script_fine (script_of s x).
Definition cl_log (s : state) : Prop := forall j, In j (r_log (st_ring s)) -> job_fine j.
(* locks *)
Definition cl_mtx (s : state) : Prop := wsum w_mh s = b2z (st_mtx s).
Definition cl_plock (s : state) : Prop := wsum w_ph s = b2z (st_plock s).
(* effective workers: live workers that have not taken a null job + contexts about to be started
   - queued null jobs *)
Definition eff (s : state) : Z :=
  wsum (w_lnd (r_log (st_ring s))) s + wsum w_spawn s
  - nulls (r_log (st_ring s)) (r_head (st_ring s)) (r_tail (st_ring s)).
(* _threadCount = effective workers + null jobs whose decrement is pending *)
Definition cl_tc (s : state) : Prop := st_tcount s = eff s + wsum w_dec s.
Definition cl_tcpos (s : state) : Prop := 0 <= eff s.
Definition cl_shpre (s : state) : Prop := 1 <= wsum w_shpre s -> 1 <= st_tcount s.
(* _pushedJobs + claimed-but-not-counted = _processedJobs + calls queued or held *)
Definition cl_pq (s : state) : Prop :=
  st_pushed s + wsum w_inc s =
  st_processed s + (r_tail (st_ring s) - r_head (st_ring s)
                    - nulls (r_log (st_ring s)) (r_head (st_ring s)) (r_tail (st_ring s)))
  + wsum (w_hold (r_log (st_ring s))) s.
(* every queued call has a worker left for it after the null jobs ahead of it, or somebody is
   bound to start one *)
Definition growers (s : state) : Z :=
  wsum w_inc s + wsum (w_g1 (st_pushed s)) s + wsum w_g2 s + wsum w_gr s.
Definition cl_psi (s : state) : Prop :=
  forall tj, r_head (st_ring s) <= tj < r_tail (st_ring s) -> is_null (logv (st_ring s) tj) = false ->
    1 <= wsum (w_lnd (r_log (st_ring s))) s + wsum w_spawn s - nulls (r_log (st_ring s)) (r_head (st_ring s)) tj
    \/ 1 <= growers s.
(* FastSignal: _state set means the inner flag is set or about to be *)
Definition cl_fs (w : which) (s : state) : Prop :=
  fs_state (get_fs s w) = true -> fs_flag (get_fs s w) = true \/ 1 <= wsum (w_fsp w) s.
(* wake-ups *)
Definition cl_wke (s : state) : Prop :=
  r_head (st_ring s) < r_tail (st_ring s) -> fs_state (st_enq s) = true \/ 1 <= wsum (w_e (st_ring s)) s.
Definition cl_wkd (s : state) : Prop :=
  1 <= wsum w_wait s ->
  r_head (st_ring s) < r_tail (st_ring s) \/ fs_state (st_deq s) = true \/ 1 <= wsum (w_d (st_ring s)) s.
(* ring: a claimed ticket is published or being written; the slot of a future ticket is free,
   or its previous lap is still queued or being read *)
Definition cl_rxe (s : state) : Prop :=
  forall tk, r_head (st_ring s) <= tk < r_tail (st_ring s) ->
    s_head (get_slot (st_ring s) tk) = tk \/ 1 <= wsum (w_pushing tk) s.
Definition cl_rxd (s : state) : Prop :=
  forall u, r_tail (st_ring s) <= u < r_tail (st_ring s) + r_cap (st_ring s) ->
    s_tail (get_slot (st_ring s) u) = u \/ r_head (st_ring s) <= u - r_cap (st_ring s)
    \/ 1 <= wsum (w_popping (u - r_cap (st_ring s))) s.
(* futures *)
Definition cl_phase (s : state) : Prop := forall f, phase_ok s f.
Definition cl_jw (s : state) : Prop := forall x f a, pc_of s x = CJoinWait f a -> f_joinable (get_fut s f) = true.

Record LInv (cfg : config) (s : state) : Prop := mkLInv {
  l_ncl : cl_ncl cfg s;
  l_role : cl_role cfg s;
  l_pc : cl_pc s;
  l_script : cl_script s;
  l_log : cl_log s;
  l_mtx : cl_mtx s;
  l_plock : cl_plock s;
  l_tc : cl_tc s;
  l_tcpos : cl_tcpos s;
  l_shpre : cl_shpre s;
  l_pq : cl_pq s;
  l_psi : cl_psi s;
  l_fse : cl_fs Enq s;
  l_fsd : cl_fs Deq s;
  l_wke : cl_wke s;
  l_wkd : cl_wkd s;
  l_rxe : cl_rxe s;
  l_rxd : cl_rxd s;
  l_phase : cl_phase s;
  l_jw : cl_jw s
}.

Lemma zsum_map_sub {A} (a b : A -> Z) l : zsum (map (fun p => a p - b p) l) = zsum (map a l) - zsum (map b l).
Proof. induction l as [|h t IH]; cbn [map zsum]; lia. Qed.

Lemma wsum_sub a b s : wsum (fun p => a p - b p) s = wsum a s - wsum b s.
Proof. unfold wsum. apply zsum_map_sub. Qed.

(* if thread x has weight 1 in [a] and 0 in [b], b <= a pointwise and the a-sum is at most 1, the b-sum is 0 *)
Lemma wsum_excl a b s x :
  (forall p, 0 <= b p <= a p) -> (x < nthreads s)%nat -> wsum a s <= 1 -> a (pc_of s x) = 1 -> b (pc_of s x) = 0 ->
  wsum b s = 0.
Proof.
  intros Hp Hx Ha H1 H0.
  assert (Hn : 0 <= wsum b s) by (apply wsum_nonneg; intro p; apply Hp).
  pose proof (wsum_member (fun p => a p - b p) s x (fun p => ltac:(specialize (Hp p); lia)) Hx) as Hm.
  rewrite wsum_sub in Hm. cbv beta in Hm. lia.
Qed.
