(* C10, liveness (A): FastSignal and wake-up clauses of LInv. *)
From Coq Require Import ZArith List Bool Lia Arith.
From Coq Require Import ZifyBool ZifyNat.
From Common Require Import ListAux.
From Future Require Import FutureModel FutureRingProofs FutureProofs FutureStep FutureLiveness FutureNested FutureLiveDefs FutureLiveStep FutureLiveCnt.
Import ListNotations.
Local Open Scope Z_scope.

Lemma w_e_nonneg r p : 0 <= w_e r p.
Proof.
  destruct p; cbn [w_e]; try lia; repeat match goal with |- context [match ?x with _ => _ end] => is_var x; destruct x end; try lia.
  destruct (_ || _); lia.
Qed.

Lemma get_slot_same_idx r h t0 : idx r h = idx r t0 -> get_slot r h = get_slot r t0.
Proof. intro E. unfold get_slot. now rewrite E. Qed.

Lemma s_head_set_slot r t0 sl' h :
  0 < r_cap r -> length (r_slots r) = Z.to_nat (r_cap r) -> s_head sl' = s_head (get_slot r t0) ->
  s_head (get_slot (set_slot r t0 sl') h) = s_head (get_slot r h).
Proof.
  intros Hc Hl E. rewrite get_set_slot by assumption. destruct (Nat.eqb_spec (idx r h) (idx r t0)) as [Ei|Ei]; [|reflexivity].
  rewrite E. now rewrite (get_slot_same_idx r h t0 Ei).
Qed.

Lemma s_tail_set_slot r t0 sl' h :
  0 < r_cap r -> length (r_slots r) = Z.to_nat (r_cap r) -> s_tail sl' = s_tail (get_slot r t0) ->
  s_tail (get_slot (set_slot r t0 sl') h) = s_tail (get_slot r h).
Proof.
  intros Hc Hl E. rewrite get_set_slot by assumption. destruct (Nat.eqb_spec (idx r h) (idx r t0)) as [Ei|Ei]; [|reflexivity].
  rewrite E. now rewrite (get_slot_same_idx r h t0 Ei).
Qed.

Ltac case_w := repeat match goal with |- context [match ?x with _ => _ end] => is_var x; destruct x end.

Lemma wsum_w_e_same s r r' :
  r_head r' = r_head r -> (forall h, s_head (get_slot r' h) = s_head (get_slot r h)) -> wsum (w_e r') s = wsum (w_e r) s.
Proof.
  intros Hh Hs. apply wsum_ext. intros x _. destruct (pc_of s x); cbn [w_e]; try reflexivity; case_w; try reflexivity.
  now rewrite Hh, Hs.
Qed.

(* a pop claim makes nobody's re-examination of the queue worthless: the claimed ticket was published *)
Lemma wsum_w_e_pop s r r' :
  r_head r' = r_head r + 1 -> (forall h, get_slot r' h = get_slot r h) -> s_head (get_slot r (r_head r)) = r_head r ->
  wsum (w_e r) s <= wsum (w_e r') s.
Proof.
  intros Hh Hs Hp. apply wsum_le. intros x _. destruct (pc_of s x); cbn [w_e]; try lia; case_w; try lia.
  rewrite Hh, Hs.
  destruct (Z.eqb_spec h (r_head r)) as [->|E]; cbn [orb].
  - rewrite Hp, Z.eqb_refl, orb_true_r. lia.
  - destruct (h =? r_head r + 1); cbn [orb]; [destruct (_ =? _); lia|lia].
Qed.

Lemma w_pushing_le_e tk r p : 0 <= w_pushing tk p <= w_e r p.
Proof.
  destruct p; cbn [w_pushing w_e]; try lia; case_w; try lia; try (destruct (_ =? _); lia); destruct (_ || _); lia.
Qed.

Section Wake.
  Variable cfg : config.
  Variable own : nat -> nat.
  Hypothesis Hfix : c_fixed cfg = true.
  Hypothesis Hsig : c_sigfix cfg = true.
  Hypothesis Hnest : c_nested cfg = false.

  Lemma step_wke s tr t clk s' evs :
    (t < nthreads s)%nat -> GInv cfg own s tr -> LInv cfg s -> step cfg s t clk = (s', evs) -> cl_wke s'.
  Proof.
    intros Hlt G L Hs. pose proof (l_pc _ _ L t) as Hok.
    pose proof (l_wke _ _ L) as Hw. unfold cl_wke in Hw.
    pose proof (wsum_member (w_e (st_ring s)) s t (w_e_nonneg _) Hlt) as M1.
    pose proof (g_ring _ _ _ _ G) as RI. pose proof (ri_head _ _ RI) as Hhd.
    split_step cfg s t Hs Hlt Hok Hfix Hsig Hnest; ring_pre constr:(s) constr:(t) Hs G; fin Hs; try (stutter (l_wke _ _ L)).
    all: leaf_pcs constr:(s) constr:(t) Hlt Epc; unfold cl_wke; norm_rw_ns constr:(s) constr:(t) Hlt Epc; cbn [w_e worker_entry t_pc] in *;
         rewrite ?Z.eqb_refl; cbn [orb].
    all: rewrite ?Z.sub_0_r, ?Z.add_0_r; try assumption.
    all: try lia.
    (* the ring changed: the moving thread is itself a witness (member of the new sum) *)
    all: try (match goal with |- context [wsum (w_e ?R) _] =>
                lazymatch R with st_ring _ => fail | _ => idtac end;
                pose proof (wsum_nonneg (w_e R) s (w_e_nonneg R)) as N0;
                pose proof (wsum_member (w_e R) s t (w_e_nonneg R) Hlt) as M0;
                rewrite Epc in M0; cbn [w_e] in M0; rewrite ?Z.eqb_refl in M0; cbn [orb] in M0; lia end).
    - (* pop2 finds the head slot unpublished: its producer is still on the way to set() *)
      rewrite Eg in *. rewrite orb_false_r in *. intro Hne.
      destruct (Z.eqb_spec h (r_head (st_ring s))) as [->|Eh]; [|specialize (Hw Hne); lia].
      destruct (l_rxe _ _ L (r_head (st_ring s)) ltac:(lia)) as [Hp|Hp]; [apply Z.eqb_neq in Eg; contradiction|].
      pose proof (wsum_member (fun p => w_e (st_ring s) p - w_pushing (r_head (st_ring s)) p) s t
                    (fun p => ltac:(pose proof (w_pushing_le_e (r_head (st_ring s)) (st_ring s) p); lia)) Hlt) as Hm.
      rewrite wsum_sub in Hm. cbv beta in Hm. rewrite Epc in Hm. cbn [w_e w_pushing] in Hm.
      rewrite Z.eqb_refl in Hm. cbn [orb] in Hm. lia.
    - (* pop1 claims a null job *)
      destruct Hring as (Hr1 & Hr2 & (_ & _ & Hr3 & _)). intro Hne. specialize (Hw ltac:(lia)).
      match goal with |- context [wsum (w_e ?R) s] =>
        pose proof (wsum_w_e_pop s (st_ring s) R eq_refl (fun h => eq_refl) Hr3) as Hm end. lia.
    - destruct Hring as (Hr1 & Hr2 & (_ & _ & Hr3 & _)). intro Hne. specialize (Hw ltac:(lia)).
      match goal with |- context [wsum (w_e ?R) s] =>
        pose proof (wsum_w_e_pop s (st_ring s) R eq_refl (fun h => eq_refl) Hr3) as Hm end. lia.
    - (* pop1 releases its slot: nobody's view of the published tickets changes *)
      rewrite (wsum_w_e_same s (st_ring s) (set_slot _ _ _)); [lia|reflexivity|].
      intro h0. apply s_head_set_slot; [apply (ri_cap _ _ RI)|apply (ri_len _ _ RI)|reflexivity].
  Qed.
End Wake.
