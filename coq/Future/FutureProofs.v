(* C10: safety of Future / the shared worker pool for ALL schedules of the interleaving model.

   GInv is an inductive invariant of [step]; it contains the ring invariant of
   FutureRingProofs.v (composition), "who holds which call" clauses keyed by the ghost phase of
   every future, and a property of the event trace.  The theorems of Properties_C10.v are read
   off it. *)
From Coq Require Import ZArith List Bool Lia Arith.
From Common Require Import ListAux.
From Future Require Import FutureModel FutureRingProofs.
Import ListNotations.
Local Open Scope Z_scope.

(* ---------------------------------------------------------------------------------------- *)
(* threads, futures: access lemmas                                                           *)
(* ---------------------------------------------------------------------------------------- *)
Definition pc_of (s : state) (x : nat) : pc := t_pc (get_thread s x).
Definition script_of (s : state) (x : nat) : list (nat * cop) := t_script (get_thread s x).
Definition nthreads (s : state) : nat := length (st_threads s).

Lemma get_thread_upd s t th x :
  (t < nthreads s)%nat ->
  get_thread (set_threads s (upd t th (st_threads s))) x = if Nat.eqb x t then th else get_thread s x.
Proof.
  intro Ht. unfold get_thread. cbn [st_threads set_threads].
  destruct (Nat.eqb_spec x t) as [->|E].
  - now apply nth_upd_same.
  - apply nth_upd_other. congruence.
Qed.

Lemma pc_goto s t p x : (t < nthreads s)%nat -> pc_of (goto s t p) x = if Nat.eqb x t then p else pc_of s x.
Proof.
  intro Ht. unfold pc_of, goto. rewrite get_thread_upd by exact Ht.
  destruct (Nat.eqb x t); reflexivity.
Qed.

Lemma script_goto s t p x : (t < nthreads s)%nat -> script_of (goto s t p) x = script_of s x.
Proof.
  intro Ht. unfold script_of, goto. rewrite get_thread_upd by exact Ht.
  destruct (Nat.eqb_spec x t) as [->|]; reflexivity.
Qed.

Lemma nthreads_goto s t p : nthreads (goto s t p) = nthreads s.
Proof. unfold nthreads, goto. cbn. apply upd_length. Qed.

Lemma get_fut_put s f x g : (f < length (st_futs s))%nat ->
  get_fut (put_fut s f x) g = if Nat.eqb g f then x else get_fut s g.
Proof.
  intro Hf. unfold get_fut, put_fut. cbn [st_futs set_futs].
  destruct (Nat.eqb_spec g f) as [->|E].
  - now apply nth_upd_same.
  - apply nth_upd_other. congruence.
Qed.

Lemma get_fut_put_oob s f x g : ~ (f < length (st_futs s))%nat -> get_fut (put_fut s f x) g = get_fut s g.
Proof.
  intro Hf. unfold get_fut, put_fut. cbn [st_futs set_futs].
  assert (E : upd f x (st_futs s) = st_futs s).
  { revert Hf. generalize (st_futs s). induction f as [|f IH]; intros [|h l] H; cbn in *; try reflexivity; try lia.
    f_equal. apply IH. lia. }
  now rewrite E.
Qed.

Lemma nfuts_put s f x : length (st_futs (put_fut s f x)) = length (st_futs s).
Proof. unfold put_fut. cbn. apply upd_length. Qed.

(* ---------------------------------------------------------------------------------------- *)
(* trace functions                                                                           *)
(* ---------------------------------------------------------------------------------------- *)
Definition is_run (f n : nat) (e : event) : bool :=
  match e with EvRun _ f' n' _ => Nat.eqb f' f && Nat.eqb n' n | _ => false end.
Definition runs (tr : list event) (f n : nat) : nat := length (filter (is_run f n) tr).

Definition started (tr : list event) (f n : nat) (a : Z) (wk : nat) : Prop :=
  exists c, In (EvStart c f n a wk) tr.

Definition joined_ok (cfg : config) (older : list event) (f n : nat) : Prop :=
  runs older f n = 1%nat /\
  exists ab a wk w, In (EvComplete f n ab) older /\ started older f n a wk /\ In (EvRun w f n a) older /\
                    In (EvStore f n (c_fn cfg a)) older.

Definition ev_ok (cfg : config) (e : event) (older : list event) : Prop :=
  match e with
  | EvJoinRet c f n => joined_ok cfg older f n
  | EvObs c i (OGet f (Some n) v) => exists a wk, started older f n a wk /\ v = Some (c_fn cfg a)
  | EvRun w f n a => exists wk, started older f n a wk
  | EvStart c f n a wk => (f < c_nfut cfg)%nat
  | _ => True
  end.

Fixpoint trace_ok (cfg : config) (tr : list event) : Prop :=
  match tr with
  | [] => True
  | e :: older => ev_ok cfg e older /\ trace_ok cfg older
  end.

Definition neutral (e : event) : bool :=
  match e with EvRun _ _ _ _ | EvStart _ _ _ _ _ | EvJoinRet _ _ _ | EvObs _ _ (OGet _ (Some _) _) => false | _ => true end.

Lemma runs_cons_neutral e tr f n : neutral e = true -> runs (e :: tr) f n = runs tr f n.
Proof. intro H. unfold runs. cbn [filter]. destruct e; cbn in *; try reflexivity; discriminate. Qed.

Lemma runs_app_neutral evs tr f n : forallb neutral evs = true -> runs (evs ++ tr) f n = runs tr f n.
Proof.
  induction evs as [|e evs IH]; cbn [forallb app]; intro H; [reflexivity|].
  apply andb_true_iff in H as [H1 H2]. rewrite runs_cons_neutral by exact H1. auto.
Qed.

Lemma started_mono tr tr' f n a wk : incl tr tr' -> started tr f n a wk -> started tr' f n a wk.
Proof. intros Hi [c Hc]. exists c. auto. Qed.

Lemma trace_ok_app_neutral cfg evs tr : forallb neutral evs = true -> trace_ok cfg tr -> trace_ok cfg (evs ++ tr).
Proof.
  induction evs as [|e evs IH]; cbn [forallb app]; intros H Ht; [exact Ht|].
  apply andb_true_iff in H as [H1 H2]. cbn [trace_ok]. split; [|auto].
  destruct e; cbn in *; try exact I; try discriminate.
  destruct o; try exact I. destruct n; [discriminate|exact I].
Qed.

(* ---------------------------------------------------------------------------------------- *)
(* the invariant                                                                             *)
(* ---------------------------------------------------------------------------------------- *)
Definition inflight (s : state) (x : nat) : option rpc :=
  match pc_of s x with PRing _ r => Some r | _ => None end.

Definition job_fut (j : job) : option nat := match j with JCall f _ _ _ => Some f | JNull => None end.

(* the future a client-side pc is working on *)
Definition client_fut (p : pc) : option nat :=
  match p with
  | CSpin f _ _ | CRecheck f _ _ | CSwapPool f _ _ | CUnlockPool f _ _
  | CJoinWait f _ | CJoinReset f _ | CStartSet f _ _ => Some f
  | PRing (KRunPush1 j) _ | PRing (KRunPush2 j) _ => job_fut j
  | PFs (KRunReset j) _ _ | PFs (KRunWait j) _ _ => job_fut j
  | _ => None
  end.

Definition is_idle (ph : phase) : bool := match ph with PhIdle => true | _ => false end.
Definition is_signalled (ph : phase) : bool := match ph with PhSignalled => true | _ => false end.
Definition ran_b (ph : phase) : bool :=
  match ph with PhStarted | PhQueued _ | PhTaken _ => false | _ => true end.
Definition done_b (ph : phase) (n : nat) : bool :=
  match ph with PhCompleted _ | PhSignalled => true | PhIdle => negb (Nat.eqb n 0) | _ => false end.

(* a call (f,n) with its arguments, required to be in phase ph *)
Definition job_ok (ph : phase) (s : state) (tr : list event) (j : job) : Prop :=
  match j with
  | JNull => True
  | JCall f n a wk =>
      (f < length (st_futs s))%nat /\ f_phase (get_fut s f) = ph /\ f_serial (get_fut s f) = n /\ started tr f n a wk
  end.

(* the call (f,n) is being executed by worker w *)
Definition exec_ok (cfg : config) (ph : phase) (s : state) (tr : list event) (f n : nat)
           (val : option Z) (stored : bool) (ab : option bool) : Prop :=
  (f < length (st_futs s))%nat /\ f_phase (get_fut s f) = ph /\ f_serial (get_fut s f) = n /\
  exists a wk w, started tr f n a wk /\ In (EvRun w f n a) tr /\
    (forall v, val = Some v -> v = c_fn cfg a) /\
    (stored = true -> f_result (get_fut s f) = Some (c_fn cfg a) /\ In (EvStore f n (c_fn cfg a)) tr) /\
    (ab = Some true -> exists c, In (EvAbort c f n) tr).

Definition thread_ok (cfg : config) (s : state) (tr : list event) (w : nat) (p : pc) : Prop :=
  match p with
  | PRing k r =>
      match r with
      | PushRdTail v | PushRdSlot v _ | PushCas v _ =>
          job_ok PhStarted s tr v /\
          match k with KRunPush1 j | KRunPush2 j => j = v | KShrinkPush => v = JNull | _ => v = JNull end
      | PopRead h => job_ok (PhTaken w) s tr (logv (st_ring s) h)
      | PopRelease h v => job_ok (PhTaken w) s tr v
      | PushRet _ | PopRet _ => False          (* a thread leaves PRing in the step that returns *)
      | _ => True
      end
  | PFs (KRunReset j) _ _ | PFs (KRunWait j) _ _ => job_ok PhStarted s tr j
  | PFs (KWSet j) _ _ | PFs (KWRearm j) _ _ => job_ok (PhTaken w) s tr j
  | WCall f n a wk => job_ok (PhTaken w) s tr (JCall f n a wk)
  | WStore f n v => exec_ok cfg (PhRan w) s tr f n (Some v) false None
  | WRdAbort f n => exec_ok cfg (PhRan w) s tr f n None true None
  | WSwap f n ab => exec_ok cfg (PhRan w) s tr f n None true (Some ab)
  | WSigSet f n => exec_ok cfg (PhCompleted w) s tr f n None true None
  | CStartSet f _ _ => f_joinable (get_fut s f) = false
  | CJoinReset f _ => f_sig (get_fut s f) = true
  | WBcast _ _ => c_sigfix cfg = false       (* the late broadcast exists only in the code as it was *)
  | _ => True
  end.

Definition fut_ok (cfg : config) (tr : list event) (f : nat) (x : fut) : Prop :=
  let n := f_serial x in
  f_joinable x = negb (is_idle (f_phase x)) /\
  f_sig x = is_signalled (f_phase x) /\
  (forall m, (1 <= m)%nat ->
     runs tr f m = if (m <? n)%nat then 1%nat else if (m =? n)%nat then (if ran_b (f_phase x) then 1%nat else 0%nat) else 0%nat) /\
  (done_b (f_phase x) n = true ->
     exists ab a wk w, In (EvComplete f n ab) tr /\ f_state x = (if ab then StAborted else StFinished) /\
                       (ab = true -> exists c, In (EvAbort c f n) tr) /\
                       started tr f n a wk /\ f_result x = Some (c_fn cfg a) /\ In (EvRun w f n a) tr /\
                       In (EvStore f n (c_fn cfg a)) tr) /\
  (f_aborting x = true -> exists c, In (EvAbort c f n) tr) /\
  (forall c m a wk, In (EvStart c f m a wk) tr -> (1 <= m <= n)%nat).

Definition op_fut (op : cop) : option nat :=
  match op with
  | CStart f _ _ | CAbort f | CJoin f | CGet f | CCheck f | CDestroy f => Some f
  | CPause | CResume _ _ _ => None
  end.

Definition mentions (sc : list (nat * cop)) (f : nat) : Prop :=
  exists i op, In (i, op) sc /\ op_fut op = Some f.

(* every future is used by one client thread only, and exists; the queue has room for one job;
   the started functions do not start futures themselves *)
Definition wf_cfg (cfg : config) (own : nat -> nat) : Prop :=
  0 < c_cap cfg /\
  (forall c f, mentions (nth c (c_scripts cfg) []) f -> (f < c_nfut cfg)%nat /\ own f = c) /\
  c_nested cfg = false.

Definition own_ok (cfg : config) (own : nat -> nat) (s : state) : Prop :=
  forall x f, client_fut (pc_of s x) = Some f \/ mentions (script_of s x) f -> (f < c_nfut cfg)%nat /\ own f = x.

Definition starts_fun (tr : list event) : Prop :=
  forall c c' f m a a' wk wk', In (EvStart c f m a wk) tr -> In (EvStart c' f m a' wk') tr -> a = a' /\ wk = wk'.

Record GInv (cfg : config) (own : nat -> nat) (s : state) (tr : list event) : Prop := mkGInv {
  g_ring : RInv (st_ring s) (inflight s);
  g_nfut : length (st_futs s) = c_nfut cfg;
  g_own : own_ok cfg own s;
  g_thr : forall x, thread_ok cfg s tr x (pc_of s x);
  g_fut : forall f, (f < length (st_futs s))%nat -> fut_ok cfg tr f (get_fut s f);
  g_tick : forall t, r_head (st_ring s) <= t < r_tail (st_ring s) -> job_ok (PhQueued t) s tr (logv (st_ring s) t);
  g_trace : trace_ok cfg tr;
  g_starts : starts_fun tr
}.

(* ---------------------------------------------------------------------------------------- *)
(* frame lemmas                                                                              *)
(* ---------------------------------------------------------------------------------------- *)
Lemma incl_app_r {A} (l1 l2 : list A) : incl l2 (l1 ++ l2).
Proof. intros x H. apply in_or_app. now right. Qed.

Lemma job_ok_frame ph s tr s' tr' j :
  st_futs s' = st_futs s -> incl tr tr' -> job_ok ph s tr j -> job_ok ph s' tr' j.
Proof.
  intros Hf Hi. destruct j as [|f n a wk]; cbn [job_ok]; [auto|].
  unfold get_fut. rewrite Hf. intros (A & B & C & D). repeat split; auto. eapply started_mono; eauto.
Qed.

Lemma exec_ok_frame cfg ph s tr s' tr' f n val st ab :
  st_futs s' = st_futs s -> incl tr tr' ->
  exec_ok cfg ph s tr f n val st ab -> exec_ok cfg ph s' tr' f n val st ab.
Proof.
  intros Hf Hi. unfold exec_ok, get_fut. rewrite Hf.
  intros (A & B & C & a & wk & w & D1 & D2 & D3 & D4 & D5). repeat split; auto.
  exists a, wk, w. repeat split; auto.
  - eapply started_mono; eauto.
  - apply D4; auto.
  - apply Hi. apply D4; auto.
  - intro E. destruct (D5 E) as [c Hc]. exists c. auto.
Qed.

Definition logv_compat (s s' : state) (p : pc) : Prop :=
  forall k h, p = PRing k (PopRead h) -> logv (st_ring s') h = logv (st_ring s) h.

Lemma logv_compat_log s s' p : r_log (st_ring s') = r_log (st_ring s) -> logv_compat s s' p.
Proof. intros H k h _. unfold logv. now rewrite H. Qed.

Lemma thread_ok_frame_w cfg s tr s' tr' x p :
  st_futs s' = st_futs s -> logv_compat s s' p -> incl tr tr' ->
  thread_ok cfg s tr x p -> thread_ok cfg s' tr' x p.
Proof.
  intros Hf Hl Hi H.
  assert (J : forall ph j, job_ok ph s tr j -> job_ok ph s' tr' j) by (intros; eapply job_ok_frame; eauto).
  assert (E : forall ph f n v st ab, exec_ok cfg ph s tr f n v st ab -> exec_ok cfg ph s' tr' f n v st ab)
    by (intros; eapply exec_ok_frame; eauto).
  destruct p; cbn [thread_ok] in *; auto.
  - destruct r; auto.
    + destruct H; split; auto.
    + destruct H; split; auto.
    + destruct H; split; auto.
    + rewrite (Hl k h eq_refl). auto.
  - destruct k; auto.
  - unfold get_fut in *. now rewrite Hf.
  - unfold get_fut in *. now rewrite Hf.
Qed.

Lemma thread_ok_frame cfg s tr s' tr' x p :
  st_futs s' = st_futs s -> r_log (st_ring s') = r_log (st_ring s) -> incl tr tr' ->
  thread_ok cfg s tr x p -> thread_ok cfg s' tr' x p.
Proof. intros Hf Hl. apply thread_ok_frame_w; auto. now apply logv_compat_log. Qed.

Lemma fut_ok_frame cfg tr evs f x :
  forallb neutral evs = true -> fut_ok cfg tr f x -> fut_ok cfg (evs ++ tr) f x.
Proof.
  intros Hn (A & B & C & D & E & F). unfold fut_ok.
  assert (Hi : incl tr (evs ++ tr)) by apply incl_app_r.
  split; [exact A|]. split; [exact B|]. split.
  { intros m Hm. rewrite runs_app_neutral by exact Hn. auto. }
  split.
  { intro Hd. destruct (D Hd) as (ab & a & wk & w & D1 & D2 & D3 & D4 & D5 & D6 & D7).
    exists ab, a, wk, w. repeat split; auto.
    - intro Eab. destruct (D3 Eab) as [c Hc]. exists c; auto.
    - eapply started_mono; eauto. }
  split.
  { intro Ha. destruct (E Ha) as [c Hc]. exists c; auto. }
  intros c m a wk Hin. apply in_app_or in Hin as [Hin|Hin]; [|eauto].
  exfalso. clear - Hn Hin. induction evs as [|e evs IH]; [contradiction|].
  cbn in Hn. apply andb_true_iff in Hn as [H1 H2]. destruct Hin as [->|Hin]; [discriminate|auto].
Qed.

Lemma starts_fun_app_neutral evs tr : forallb neutral evs = true -> starts_fun tr -> starts_fun (evs ++ tr).
Proof.
  intros Hn Hs c c' f m a a' wk wk' H1 H2.
  assert (N : forall c f m a wk, In (EvStart c f m a wk) (evs ++ tr) -> In (EvStart c f m a wk) tr).
  { intros c0 f0 m0 a0 wk0 Hin. apply in_app_or in Hin as [Hin|Hin]; [|exact Hin].
    exfalso. clear - Hn Hin. induction evs as [|e evs IH]; [contradiction|].
    cbn in Hn. apply andb_true_iff in Hn as [Ha Hb]. destruct Hin as [->|Hin]; [discriminate|auto]. }
  eapply Hs; eauto.
Qed.

Definition mention_sub (s s' : state) (x : nat) : Prop :=
  forall f, client_fut (pc_of s' x) = Some f \/ mentions (script_of s' x) f ->
            client_fut (pc_of s x) = Some f \/ mentions (script_of s x) f.

(* a step of thread t that leaves the futures and the ring's tickets alone *)
Lemma ginv_frame cfg own s tr s' evs t :
  GInv cfg own s tr ->
  st_futs s' = st_futs s ->
  r_log (st_ring s') = r_log (st_ring s) -> r_head (st_ring s') = r_head (st_ring s) ->
  r_tail (st_ring s') = r_tail (st_ring s) ->
  RInv (st_ring s') (inflight s') ->
  (forall x, x <> t -> (pc_of s' x = pc_of s x /\ script_of s' x = script_of s x) \/
                       (pc_of s' x = worker_entry /\ script_of s' x = [])) ->
  mention_sub s s' t ->
  thread_ok cfg s' (evs ++ tr) t (pc_of s' t) ->
  forallb neutral evs = true ->
  GInv cfg own s' (evs ++ tr).
Proof.
  intros G Hf Hl Hh Ht HR Hx Hm Hme Hn.
  assert (Hi : incl tr (evs ++ tr)) by apply incl_app_r.
  constructor.
  - exact HR.
  - rewrite Hf. apply (g_nfut _ _ _ _ G).
  - intros x f Hxf. destruct (Nat.eq_dec x t) as [->|Ext].
    + apply (g_own _ _ _ _ G). apply Hm. exact Hxf.
    + destruct (Hx x Ext) as [[E1 E2]|[E1 E2]].
      * apply (g_own _ _ _ _ G). rewrite <- E1, <- E2. exact Hxf.
      * rewrite E1, E2 in Hxf. destruct Hxf as [H|(i & op & [] & _)]. discriminate.
  - intros x. destruct (Nat.eq_dec x t) as [->|Ext]; [exact Hme|].
    destruct (Hx x Ext) as [[E1 E2]|[E1 E2]].
    + rewrite E1. eapply thread_ok_frame; eauto. apply (g_thr _ _ _ _ G).
    + rewrite E1. exact I.
  - intros f Hlt. unfold get_fut. rewrite Hf in *. apply fut_ok_frame; auto. apply (g_fut _ _ _ _ G f Hlt).
  - intros tk Htk. rewrite Hh, Ht in Htk. unfold logv. rewrite Hl.
    eapply job_ok_frame; eauto. apply (g_tick _ _ _ _ G tk Htk).
  - apply trace_ok_app_neutral; auto. apply (g_trace _ _ _ _ G).
  - apply starts_fun_app_neutral; auto. apply (g_starts _ _ _ _ G).
Qed.

(* ---------------------------------------------------------------------------------------- *)
(* lifting the ring invariant                                                                *)
(* ---------------------------------------------------------------------------------------- *)
Definition entry_rpc (p : rpc) : Prop := p = PopRdHead \/ exists v, p = PushRdTail v.

Lemma rinv_pointwise r fl fl' :
  RInv r fl ->
  (forall x, fl' x = fl x \/ fl' x = None \/ exists p0, fl' x = Some p0 /\ entry_rpc p0) ->
  RInv r fl'.
Proof.
  intros I H.
  assert (K : forall x p tk, fl' x = Some p -> push_tk p = Some tk \/ pop_tk p = Some tk -> fl x = Some p).
  { intros x p tk Hx Htk. destruct (H x) as [E|[E|(p0 & E & [->|[v ->]])]]; try congruence.
    - rewrite E in Hx. inversion Hx; subst. destruct Htk; discriminate.
    - rewrite E in Hx. inversion Hx; subst. destruct Htk; discriminate. }
  constructor; try apply I.
  - intros x p Hx. destruct (H x) as [E|[E|(p0 & E & [->|[v ->]])]]; try congruence.
    + rewrite E in Hx. eapply ri_thr; eauto.
    + rewrite E in Hx. inversion Hx; subst. exact Logic.I.
    + rewrite E in Hx. inversion Hx; subst. exact Logic.I.
  - intros a b pa pb tk Hab Ha Hb Ta Tb. eapply (ri_upush _ _ I a b pa pb tk); eauto.
  - intros a b pa pb tk Hab Ha Hb Ta Tb. eapply (ri_upop _ _ I a b pa pb tk); eauto.
Qed.

Definition non_ring (p : pc) : Prop := match p with PRing _ _ => False | _ => True end.
Definition entry_pc (p : pc) : Prop := match p with PRing _ r => entry_rpc r | _ => True end.

Lemma inflight_non_ring s x : non_ring (pc_of s x) -> inflight s x = None.
Proof. unfold inflight. destruct (pc_of s x); cbn; tauto. Qed.

(* a step of thread t whose pc is outside push/pop: everything tracked is unchanged except t's pc / script *)
Lemma ginv_nonring cfg own s tr s' evs t :
  GInv cfg own s tr ->
  st_futs s' = st_futs s -> st_ring s' = st_ring s ->
  (forall x, x <> t -> get_thread s' x = get_thread s x) ->
  non_ring (pc_of s t) -> entry_pc (pc_of s' t) ->
  mention_sub s s' t ->
  thread_ok cfg s (evs ++ tr) t (pc_of s' t) ->
  forallb neutral evs = true ->
  GInv cfg own s' (evs ++ tr).
Proof.
  intros G Hf Hr Hx Hnr Hen Hm Hme Hn.
  apply (ginv_frame cfg own s tr s' evs t G Hf); try (now rewrite Hr); auto.
  - rewrite Hr. apply (rinv_pointwise _ (inflight s)); [apply (g_ring _ _ _ _ G)|].
    intro x. destruct (Nat.eq_dec x t) as [->|E].
    + rewrite (inflight_non_ring s t Hnr). unfold inflight. unfold entry_pc in Hen.
      destruct (pc_of s' t); auto. right. right. eauto.
    + left. unfold inflight, pc_of. now rewrite Hx.
  - intros x E. left. unfold pc_of, script_of. now rewrite Hx.
  - eapply thread_ok_frame; eauto; [now rewrite Hr|apply incl_refl].
Qed.

Lemma option_eq_dec_nat (a b : option nat) : {a = b} + {a <> b}.
Proof. decide equality. apply Nat.eq_dec. Qed.

(* ---------------------------------------------------------------------------------------- *)
(* steps that rewrite one future: what the other threads' clauses say about it               *)
(* ---------------------------------------------------------------------------------------- *)
Definition clause_fut (r : ring) (p : pc) : option nat :=
  match p with
  | PRing k rp =>
      match rp with
      | PushRdTail v | PushRdSlot v _ | PushCas v _ => job_fut v
      | PopRead h => job_fut (logv r h)
      | PopRelease h v => job_fut v
      | _ => None
      end
  | PFs (KRunReset j) _ _ | PFs (KRunWait j) _ _ | PFs (KWSet j) _ _ | PFs (KWRearm j) _ _ => job_fut j
  | WCall f _ _ _ | WStore f _ _ | WRdAbort f _ | WSwap f _ _ | WSigSet f _ => Some f
  | CStartSet f _ _ | CJoinReset f _ => Some f
  | _ => None
  end.

Definition clause_phase (x : nat) (p : pc) : phase :=
  match p with
  | PRing k rp =>
      match rp with
      | PopRead _ | PopRelease _ _ => PhTaken x
      | _ => PhStarted
      end
  | PFs (KWSet _) _ _ | PFs (KWRearm _) _ _ => PhTaken x
  | WCall _ _ _ _ => PhTaken x
  | WStore _ _ _ | WRdAbort _ _ | WSwap _ _ _ => PhRan x
  | WSigSet _ _ => PhCompleted x
  | CStartSet _ _ _ => PhIdle
  | CJoinReset _ _ => PhSignalled
  | _ => PhStarted
  end.

Lemma job_ok_fut ph s tr j f : job_fut j = Some f -> job_ok ph s tr j -> f_phase (get_fut s f) = ph.
Proof.
  destruct j as [|f0 n a wk]; cbn [job_fut job_ok]; intros E H; [discriminate|].
  destruct H as (A & B & C & D). injection E as <-. exact B.
Qed.

Lemma thread_ok_clause cfg s tr x p f :
  thread_ok cfg s tr x p -> clause_fut (st_ring s) p = Some f ->
  fut_ok cfg tr f (get_fut s f) -> f_phase (get_fut s f) = clause_phase x p.
Proof.
  intros H Hc Hf. destruct Hf as (F1 & F2 & _).
  destruct p; cbn [thread_ok clause_fut clause_phase] in *; try discriminate.
  - destruct r; try discriminate; try (destruct H as [H _]); eapply job_ok_fut; eauto.
  - destruct k; try discriminate; eapply job_ok_fut; eauto.
  - inversion Hc; subst. rewrite H in F2. destruct (f_phase (get_fut s f)); cbn in F2; congruence.
  - inversion Hc; subst. rewrite H in F1. destruct (f_phase (get_fut s f)); cbn in F1; congruence.
  - inversion Hc; subst. destruct H as (_ & B & _). exact B.
  - inversion Hc; subst. destruct H as (_ & B & _). exact B.
  - inversion Hc; subst. destruct H as (_ & B & _). exact B.
  - inversion Hc; subst. destruct H as (_ & B & _). exact B.
  - inversion Hc; subst. destruct H as (_ & B & _). exact B.
Qed.

Definition ph_excl (ph0 : phase) (t : nat) (p : pc) (f : nat) : Prop :=
  match ph0 with
  | PhTaken w | PhRan w | PhCompleted w => w = t
  | PhIdle | PhSignalled | PhStarted => client_fut p = Some f -> False
  | PhQueued _ => True
  end.

Lemma clause_excl cfg s tr x p f t :
  thread_ok cfg s tr x p -> clause_fut (st_ring s) p = Some f -> x <> t ->
  ph_excl (clause_phase x p) t p f -> False.
Proof.
  intros H Hc Hx He.
  destruct p; cbn [thread_ok clause_fut clause_phase ph_excl client_fut] in *; try discriminate; try congruence.
  - destruct r; try discriminate; try congruence;
      destruct H as [_ H]; destruct k; subst; try discriminate; auto.
  - destruct k; try discriminate; try congruence; auto.
Qed.

Lemma job_ok_put ph s tr s' tr' j f :
  length (st_futs s') = length (st_futs s) ->
  (forall g, g <> f -> get_fut s' g = get_fut s g) -> incl tr tr' ->
  job_fut j <> Some f -> job_ok ph s tr j -> job_ok ph s' tr' j.
Proof.
  intros Hl Hg Hi Hj. destruct j as [|f0 n a wk]; cbn [job_ok job_fut] in *; [auto|].
  assert (f0 <> f) by congruence. rewrite Hl, Hg by auto.
  intros (A & B & C & D). repeat split; auto. eapply started_mono; eauto.
Qed.

Lemma exec_ok_put cfg ph s tr s' tr' f0 n val st ab f :
  length (st_futs s') = length (st_futs s) ->
  (forall g, g <> f -> get_fut s' g = get_fut s g) -> incl tr tr' -> f0 <> f ->
  exec_ok cfg ph s tr f0 n val st ab -> exec_ok cfg ph s' tr' f0 n val st ab.
Proof.
  intros Hl Hg Hi Hne. unfold exec_ok. rewrite Hl, Hg by auto.
  intros (A & B & C & a & wk & w & D1 & D2 & D3 & D4 & D5). repeat split; auto.
  exists a, wk, w. repeat split; auto.
  - eapply started_mono; eauto.
  - apply D4; auto.
  - apply Hi. apply D4; auto.
  - intro E. destruct (D5 E) as [c Hc]. exists c. auto.
Qed.

Lemma thread_ok_unrelated cfg s tr s' tr' x p f :
  length (st_futs s') = length (st_futs s) ->
  (forall g, g <> f -> get_fut s' g = get_fut s g) ->
  logv_compat s s' p -> incl tr tr' ->
  clause_fut (st_ring s) p <> Some f ->
  thread_ok cfg s tr x p -> thread_ok cfg s' tr' x p.
Proof.
  intros Hl Hg Hlog Hi Hc H.
  assert (J : forall ph j, job_fut j <> Some f -> job_ok ph s tr j -> job_ok ph s' tr' j)
    by (intros; eapply job_ok_put; eauto).
  assert (E : forall ph f0 n v st ab, f0 <> f -> exec_ok cfg ph s tr f0 n v st ab -> exec_ok cfg ph s' tr' f0 n v st ab)
    by (intros; eapply exec_ok_put; eauto).
  destruct p; cbn [thread_ok clause_fut] in *; auto.
  - destruct r; auto.
    + destruct H; split; auto.
    + destruct H; split; auto.
    + destruct H; split; auto.
    + rewrite (Hlog k h eq_refl). auto.
  - destruct k; auto.
  - rewrite Hg; [exact H|congruence].
  - rewrite Hg; [exact H|congruence].
Qed.

(* the clause of another thread survives a step that rewrites future f, whose phase before the
   step excludes every clause about f that is not the stepping thread's own *)
Lemma thread_ok_other cfg s tr s' tr' x p f t :
  length (st_futs s') = length (st_futs s) ->
  (forall g, g <> f -> get_fut s' g = get_fut s g) ->
  logv_compat s s' p -> incl tr tr' ->
  fut_ok cfg tr f (get_fut s f) ->
  x <> t -> ph_excl (f_phase (get_fut s f)) t p f ->
  thread_ok cfg s tr x p -> thread_ok cfg s' tr' x p.
Proof.
  intros Hl Hg Hlog Hi Hf Hx He H.
  destruct (option_eq_dec_nat (clause_fut (st_ring s) p) (Some f)) as [E|E].
  - exfalso. eapply clause_excl; eauto. rewrite <- (thread_ok_clause cfg s tr x p f H E Hf). exact He.
  - eapply thread_ok_unrelated; eauto.
Qed.

Lemma get_thread_goto_other' s t p x : x <> t -> get_thread (goto s t p) x = get_thread s x.
Proof. intro H. unfold goto, get_thread. cbn [st_threads set_threads]. apply nth_upd_other. congruence. Qed.

(* events that concern no future other than f *)
Definition neutral_but (f : nat) (e : event) : bool :=
  match e with EvRun _ f' _ _ | EvStart _ f' _ _ _ => Nat.eqb f' f | _ => true end.

Lemma runs_app_other evs tr f g n : g <> f -> forallb (neutral_but f) evs = true -> runs (evs ++ tr) g n = runs tr g n.
Proof.
  intros Hg. induction evs as [|e evs IH]; cbn [forallb app]; intro H; [reflexivity|].
  apply andb_true_iff in H as [H1 H2]. unfold runs in *. cbn [filter].
  destruct e; cbn [is_run neutral_but] in *; auto.
  apply Nat.eqb_eq in H1. subst f0.
  destruct (Nat.eqb_spec f g); [congruence|]. cbn. auto.
Qed.

Lemma fut_ok_frame_other cfg tr evs f g x :
  g <> f -> forallb (neutral_but f) evs = true -> fut_ok cfg tr g x -> fut_ok cfg (evs ++ tr) g x.
Proof.
  intros Hg Hn (A & B & C & D & E & F). unfold fut_ok.
  assert (Hi : incl tr (evs ++ tr)) by apply incl_app_r.
  split; [exact A|]. split; [exact B|]. split.
  { intros m Hm. rewrite (runs_app_other evs tr f g m Hg Hn). auto. }
  split.
  { intro Hd. destruct (D Hd) as (ab & a & wk & w & D1 & D2 & D3 & D4 & D5 & D6 & D7).
    exists ab, a, wk, w. repeat split; auto.
    - intro Eab. destruct (D3 Eab) as [c Hc]. exists c; auto.
    - eapply started_mono; eauto. }
  split.
  { intro Ha. destruct (E Ha) as [c Hc]. exists c; auto. }
  intros c m a wk Hin. apply in_app_or in Hin as [Hin|Hin]; [|eauto].
  exfalso. clear - Hn Hin Hg. induction evs as [|e evs IH]; [contradiction|].
  cbn in Hn. apply andb_true_iff in Hn as [H1 H2]. destruct Hin as [->|Hin]; [|auto].
  cbn in H1. apply Nat.eqb_eq in H1. congruence.
Qed.

