(* C10: the theorems read off the invariant, for ALL schedules and ALL well-formed configurations. *)
From Coq Require Import ZArith List Bool Lia Arith.
From Common Require Import ListAux.
From Future Require Import FutureModel FutureRingProofs FutureProofs FutureStep.
Import ListNotations.
Local Open Scope Z_scope.

(* ---------------------------------------------------------------------------------------- *)
(* the invariant holds initially and along every schedule                                    *)
(* ---------------------------------------------------------------------------------------- *)
Lemma get_thread_init cfg x :
  get_thread (init cfg) x = match nth_error (c_scripts cfg) x with Some sc => mkThread PIdle sc 0%nat | None => dthread end.
Proof.
  unfold get_thread, init. cbn [st_threads].
  destruct (nth_error (c_scripts cfg) x) as [sc|] eqn:E.
  - rewrite (nth_indep _ dthread (mkThread PIdle [] 0%nat)).
    + change (mkThread PIdle [] 0%nat) with ((fun sc => mkThread PIdle sc 0%nat) []). rewrite map_nth.
      f_equal. now apply nth_error_nth.
    + rewrite map_length. apply nth_error_Some. congruence.
  - apply nth_overflow. rewrite map_length. now apply nth_error_None.
Qed.

Lemma init_inv cfg own : wf_cfg cfg own -> GInv cfg own (init cfg) [].
Proof.
  intros [Hcap Hown].
  assert (Hpc : forall x, pc_of (init cfg) x = PIdle \/ pc_of (init cfg) x = PDone).
  { intro x. unfold pc_of. rewrite get_thread_init. destruct (nth_error _ x); auto. }
  constructor.
  - apply (rinv_ext _ (fun _ => None)); [apply rinv_init; exact Hcap|].
    intro x. unfold inflight. destruct (Hpc x) as [-> | ->]; reflexivity.
  - cbn. apply repeat_length.
  - intros x f [H|H].
    + destruct (Hpc x) as [E|E]; rewrite E in H; discriminate.
    + apply Hown. unfold script_of in H. rewrite get_thread_init in H.
      destruct (nth_error (c_scripts cfg) x) as [sc|] eqn:E.
      * cbn in H. now rewrite (nth_error_nth _ _ _ E).
      * destruct H as (i & op & [] & _).
  - intro x. destruct (Hpc x) as [-> | ->]; exact I.
  - intros f Hf. cbn [init st_futs] in Hf. rewrite repeat_length in Hf.
    assert (E : get_fut (init cfg) f = fut_init).
    { unfold get_fut, init. cbn [st_futs]. apply nth_repeat. }
    rewrite E. unfold fut_ok. cbn. repeat split; auto; try discriminate.
    + intros m Hm. destruct m; [lia|reflexivity].
    + contradiction.
    + contradiction.
  - intros tk Htk. cbn in Htk. lia.
  - exact I.
  - intros c c' f m a a' wk wk' [].
Qed.

Lemma exec_from_inv cfg own sched : forall s tr,
  wf_cfg cfg own -> GInv cfg own s tr ->
  GInv cfg own (fst (exec_from cfg s tr sched)) (snd (exec_from cfg s tr sched)).
Proof.
  induction sched as [|[t clk] rest IH]; intros s tr W G; [exact G|].
  cbn [exec_from]. destruct (step cfg s t clk) as [s' evs] eqn:E.
  apply IH; [exact W|]. eapply step_inv; eauto.
Qed.

Theorem exec_inv cfg own sched :
  wf_cfg cfg own -> GInv cfg own (fst (exec cfg sched)) (snd (exec cfg sched)).
Proof. intro W. unfold exec. apply exec_from_inv; [exact W|]. now apply init_inv. Qed.

(* ---------------------------------------------------------------------------------------- *)
(* trace facts                                                                               *)
(* ---------------------------------------------------------------------------------------- *)
Lemma trace_ok_split cfg newer e older : trace_ok cfg (newer ++ e :: older) -> ev_ok cfg e older /\ trace_ok cfg older.
Proof. induction newer as [|x l IH]; cbn [app trace_ok]; intros H; [exact H|apply IH; tauto]. Qed.

Lemma runs_pos_in tr f n : (1 <= runs tr f n)%nat -> exists newer w a older, tr = newer ++ EvRun w f n a :: older.
Proof.
  induction tr as [|e tr IH]; [cbn; lia|]. rewrite runs_cons.
  destruct (is_run f n e) eqn:E.
  - intros _. destruct e; try discriminate. cbn in E. apply andb_true_iff in E as [E1 E2].
    apply Nat.eqb_eq in E1, E2. subst. exists [], w, arg, tr. reflexivity.
  - cbn [Nat.add]. intro H. destruct (IH H) as (nw & w & a & ol & ->). exists (e :: nw), w, a, ol. reflexivity.
Qed.

Lemma runs_app tr1 tr2 f n : runs (tr1 ++ tr2) f n = (runs tr1 f n + runs tr2 f n)%nat.
Proof. unfold runs. rewrite filter_app, app_length. reflexivity. Qed.

(* ---------------------------------------------------------------------------------------- *)
(* the property's clauses                                                                    *)
(* ---------------------------------------------------------------------------------------- *)
Section Clauses.
  Variable cfg : config.
  Variable own : nat -> nat.
  Hypothesis W : wf_cfg cfg own.

  (* each started call is executed at most once *)
  Theorem at_most_once sched f n : (runs (snd (exec cfg sched)) f n <= 1)%nat.
  Proof.
    pose proof (exec_inv cfg own sched W) as G. set (s := fst (exec cfg sched)) in *. set (tr := snd (exec cfg sched)) in *.
    destruct (Nat.le_gt_cases (runs tr f n) 0) as [H|H]; [lia|].
    destruct (runs_pos_in tr f n H) as (nw & w & a & ol & E).
    pose proof (g_trace _ _ _ _ G) as T. rewrite E in T. apply trace_ok_split in T as [[wk [c Hc]] T].
    assert (Hin : In (EvStart c f n a wk) tr) by (rewrite E; apply in_or_app; right; right; exact Hc).
    apply in_split in Hc as (l1 & l2 & ->). apply trace_ok_split in T as [Hf _]. cbn in Hf.
    rewrite <- (g_nfut _ _ _ _ G) in Hf.
    destruct (g_fut _ _ _ _ G f Hf) as (_ & _ & F3 & _ & _ & F6).
    specialize (F6 _ _ _ _ Hin). rewrite F3 by lia.
    destruct (n <? _)%nat; [lia|]. destruct (n =? _)%nat; [|lia]. destruct (ran_b _); lia.
  Qed.

  (* join() / ~Future / the result conversion return only after the call has been executed, exactly
     once, with the arguments given, and has completed *)
  Theorem join_after_exactly_one_run sched newer c f n older :
    snd (exec cfg sched) = newer ++ EvJoinRet c f n :: older ->
    runs older f n = 1%nat /\ runs (snd (exec cfg sched)) f n = 1%nat /\
    exists ab a wk w, In (EvComplete f n ab) older /\ started older f n a wk /\ In (EvRun w f n a) older /\
                      In (EvStore f n (c_fn cfg a)) older.
  Proof.
    intro E. pose proof (exec_inv cfg own sched W) as G.
    pose proof (g_trace _ _ _ _ G) as T. rewrite E in T. apply trace_ok_split in T as [[J1 J2] _].
    split; [exact J1|]. split; [|exact J2].
    pose proof (at_most_once sched f n) as H. rewrite E in *. rewrite runs_app, runs_cons in *. cbn [is_run Nat.add] in *. lia.
  Qed.

  (* the converted result is the function's return value on the argument given *)
  Theorem result_is_return_value sched newer c i f n v older :
    snd (exec cfg sched) = newer ++ EvObs c i (OGet f (Some n) v) :: older ->
    exists a wk, started older f n a wk /\ v = Some (c_fn cfg a).
  Proof.
    intro E. pose proof (exec_inv cfg own sched W) as G.
    pose proof (g_trace _ _ _ _ G) as T. rewrite E in T. apply trace_ok_split in T as [J _]. exact J.
  Qed.

  (* every execution uses the arguments of the start it belongs to; a start is identified by (f, n) *)
  Theorem run_uses_given_arguments sched newer w f n a older :
    snd (exec cfg sched) = newer ++ EvRun w f n a :: older -> exists wk, started older f n a wk.
  Proof.
    intro E. pose proof (exec_inv cfg own sched W) as G.
    pose proof (g_trace _ _ _ _ G) as T. rewrite E in T. apply trace_ok_split in T as [J _]. exact J.
  Qed.

  Theorem starts_unique sched c c' f n a a' wk wk' :
    In (EvStart c f n a wk) (snd (exec cfg sched)) -> In (EvStart c' f n a' wk') (snd (exec cfg sched)) ->
    a = a' /\ wk = wk'.
  Proof. pose proof (exec_inv cfg own sched W) as G. apply (g_starts _ _ _ _ G). Qed.

  (* after join: aborted only if abort() was requested since the start, finished otherwise *)
  Theorem aborted_only_if_requested sched f :
    let s := fst (exec cfg sched) in let tr := snd (exec cfg sched) in
    (f < c_nfut cfg)%nat -> f_joinable (get_fut s f) = false -> (1 <= f_serial (get_fut s f))%nat ->
    (f_state (get_fut s f) = StAborted -> exists c, In (EvAbort c f (f_serial (get_fut s f))) tr) /\
    (f_state (get_fut s f) <> StAborted -> f_state (get_fut s f) = StFinished).
  Proof.
    intros s tr Hf Hj Hn. pose proof (exec_inv cfg own sched W) as G. fold s tr in G.
    rewrite <- (g_nfut _ _ _ _ G) in Hf.
    destruct (g_fut _ _ _ _ G f Hf) as (F1 & _ & _ & F4 & _).
    rewrite Hj in F1. apply phase_of_idle in F1. rewrite F1 in F4. cbn [done_b] in F4.
    destruct (f_serial (get_fut s f)) as [|k] eqn:Ek; [lia|].
    destruct (F4 eq_refl) as (ab & a & wk & w & _ & D2 & D3 & _).
    rewrite D2. destruct ab; split; auto; try discriminate; congruence.
  Qed.

  (* ring: the invariant of FutureRingProofs holds in every reachable state *)
  Theorem ring_invariant sched :
    let s := fst (exec cfg sched) in RInv (st_ring s) (inflight s).
  Proof. apply (g_ring _ _ _ _ (exec_inv cfg own sched W)). Qed.

  (* ... in particular: a slot (ticket) is never handed to two consumers, *)
  Theorem ring_no_two_consumers sched a b ka kb pa pb tk :
    let s := fst (exec cfg sched) in
    a <> b -> pc_of s a = PRing ka pa -> pc_of s b = PRing kb pb -> pop_tk pa = Some tk -> pop_tk pb = Some tk -> False.
  Proof.
    intros s Hab Ha Hb Ta Tb. pose proof (ring_invariant sched) as RI. fold s in RI.
    eapply (ri_upop _ _ RI a b pa pb tk); eauto; unfold inflight; [now rewrite Ha|now rewrite Hb].
  Qed.

  (* ... nor to two producers, *)
  Theorem ring_no_two_producers sched a b ka kb pa pb tk :
    let s := fst (exec cfg sched) in
    a <> b -> pc_of s a = PRing ka pa -> pc_of s b = PRing kb pb -> push_tk pa = Some tk -> push_tk pb = Some tk -> False.
  Proof.
    intros s Hab Ha Hb Ta Tb. pose proof (ring_invariant sched) as RI. fold s in RI.
    eapply (ri_upush _ _ RI a b pa pb tk); eauto; unfold inflight; [now rewrite Ha|now rewrite Hb].
  Qed.

  (* ... a consumer that has claimed ticket h reads exactly the job that was pushed under ticket h, *)
  Theorem ring_pop_reads_pushed sched x k h :
    let s := fst (exec cfg sched) in
    pc_of s x = PRing k (PopRead h) ->
    0 <= h < r_head (st_ring s) /\ s_data (get_slot (st_ring s) h) = Some (nth (Z.to_nat h) (r_log (st_ring s)) JNull).
  Proof.
    intros s E. pose proof (ring_invariant sched) as RI. fold s in RI.
    assert (Hfl : inflight s x = Some (PopRead h)) by (unfold inflight; now rewrite E).
    pose proof (ri_thr _ _ RI x _ Hfl) as H. cbn in H. destruct H as [Hb (_ & _ & _ & Hd)]. split; [exact Hb|exact Hd].
  Qed.

  (* ... and no job is lost: every ticket between head and tail carries a call that is still to run *)
  Theorem ring_pending_jobs sched tk :
    let s := fst (exec cfg sched) in let tr := snd (exec cfg sched) in
    r_head (st_ring s) <= tk < r_tail (st_ring s) ->
    0 <= r_head (st_ring s) /\ r_tail (st_ring s) = Z.of_nat (length (r_log (st_ring s))) /\
    match nth (Z.to_nat tk) (r_log (st_ring s)) JNull with
    | JNull => True
    | JCall f n a wk => f_phase (get_fut s f) = PhQueued tk /\ f_serial (get_fut s f) = n /\
                        started tr f n a wk /\ runs tr f n = 0%nat
    end.
  Proof.
    intros s tr Htk. pose proof (exec_inv cfg own sched W) as G. fold s tr in G.
    pose proof (g_ring _ _ _ _ G) as RI. split; [apply (ri_head _ _ RI)|]. split; [apply (ri_log _ _ RI)|].
    pose proof (g_tick _ _ _ _ G tk Htk) as J. unfold logv in J.
    destruct (nth (Z.to_nat tk) (r_log (st_ring s)) JNull) as [|f n a wk]; [exact I|].
    cbn [job_ok] in J. destruct J as (Hf & Hp & Hs & Hst). repeat split; auto.
    destruct (g_fut _ _ _ _ G f Hf) as (_ & _ & F3 & _ & _ & F6).
    destruct Hst as [c Hc]. specialize (F6 _ _ _ _ Hc). rewrite F3 by lia. rewrite Hs, Hp.
    rewrite Nat.ltb_irrefl, Nat.eqb_refl. reflexivity.
  Qed.
End Clauses.
