(* C10, liveness (A): the clauses of LInv about futures (join waits on a joinable future; where the call
   of a future is, by its ghost phase). *)
From Coq Require Import ZArith List Bool Lia Arith.
From Coq Require Import ZifyBool ZifyNat.
From Common Require Import ListAux.
From Future Require Import FutureModel FutureRingProofs FutureProofs FutureStep FutureLiveness FutureNested FutureLiveDefs FutureLiveStep FutureLiveThr.
Import ListNotations.
Local Open Scope Z_scope.

Lemma nth_upd_eq {A} (l : list A) n x m d : nth m (upd n x l) d = if (Nat.eqb m n && (n <? length l)%nat)%bool then x else nth m l d.
Proof.
  destruct (Nat.ltb_spec n (length l)) as [Hn|Hn].
  - rewrite andb_true_r. destruct (Nat.eqb_spec m n) as [->|Hm].
    + now apply nth_upd_same.
    + apply nth_upd_other. congruence.
  - rewrite andb_false_r. f_equal. revert n Hn. induction l as [|h t IH]; intros [|n] Hn; cbn in *; try reflexivity; try lia.
    f_equal. apply IH. lia.
Qed.

Lemma joinable_upd l f y g :
  f_joinable y = f_joinable (nth f l fut_init) -> f_joinable (nth g (upd f y l) fut_init) = f_joinable (nth g l fut_init).
Proof.
  intro E. rewrite nth_upd_eq. destruct (Nat.eqb_spec g f) as [->|]; cbn [andb]; [|reflexivity].
  destruct (f <? length l)%nat; [exact E|reflexivity].
Qed.

Definition sig_of (f : nat) (p : pc) : Prop := match p with WSigSet f' _ => f' = f | _ => False end.

Lemma pc_of_oob s x : ~ (x < nthreads s)%nat -> pc_of s x = PDone.
Proof. intro H. unfold pc_of, get_thread. rewrite nth_overflow by (unfold nthreads in H; lia). reflexivity. Qed.

(* the clause for future g survives a step of thread t that leaves g's phase alone, provided t's new
   program counter still holds what its old one held of g *)
Lemma phase_keep s s' t g :
  phase_ok s g ->
  f_phase (get_fut s' g) = f_phase (get_fut s g) ->
  (t < nthreads s)%nat -> (nthreads s <= nthreads s')%nat ->
  (forall x, x <> t -> (x < nthreads s)%nat -> pc_of s' x = pc_of s x) ->
  r_tail (st_ring s) <= r_tail (st_ring s') ->
  (r_head (st_ring s') = r_head (st_ring s) \/
   (r_head (st_ring s') = r_head (st_ring s) + 1 /\ ~ jobf (logv (st_ring s) (r_head (st_ring s))) g)) ->
  (forall k, (k < length (r_log (st_ring s)))%nat -> nth k (r_log (st_ring s')) JNull = nth k (r_log (st_ring s)) JNull) ->
  r_tail (st_ring s) = Z.of_nat (length (r_log (st_ring s))) -> 0 <= r_head (st_ring s) ->
  (forall x k h, pc_of s x = PRing k (PopRead h) -> (Z.to_nat h < length (r_log (st_ring s)))%nat) ->
  (prepush_of g (pc_of s t) -> prepush_of g (pc_of s' t)) ->
  (taken_of (r_log (st_ring s)) g (pc_of s t) -> taken_of (r_log (st_ring s')) g (pc_of s' t)) ->
  (ran_of g (pc_of s t) -> ran_of g (pc_of s' t)) ->
  (sig_of g (pc_of s t) -> sig_of g (pc_of s' t)) ->
  phase_ok s' g.
Proof.
  intros H Eph Ht Hn Hoth Htl Hhd Hlog Hlen Hh0 Hpr T1 T2 T3 T4.
  unfold phase_ok in *. rewrite Eph. destruct (f_phase (get_fut s g)) as [| |tk|w|w|w|]; auto.
  - destruct H as (y & Hy & Hp). exists y. split; [lia|].
    destruct (Nat.eq_dec y t) as [->|Hyt]; [auto|]. now rewrite Hoth.
  - destruct H as (Hr & Hj). unfold logv in *. split.
    + destruct Hhd as [->|[-> Hnj]]; [lia|]. destruct (Z.eq_dec tk (r_head (st_ring s))) as [->|]; [contradiction|lia].
    + rewrite Hlog by lia. exact Hj.
  - destruct (Nat.eq_dec w t) as [->|Hwt]; [auto|].
    destruct (Nat.lt_ge_cases w (nthreads s)) as [Hw|Hw]; [|rewrite pc_of_oob in H by lia; destruct H].
    rewrite Hoth by assumption. destruct (pc_of s w) eqn:E; cbn [taken_of] in *; auto.
    destruct r; auto. rewrite Hlog; [exact H|]. eapply Hpr; eauto.
  - destruct (Nat.eq_dec w t) as [->|Hwt]; [auto|].
    destruct (Nat.lt_ge_cases w (nthreads s)) as [Hw|Hw]; [|rewrite pc_of_oob in H by lia; destruct H].
    now rewrite Hoth.
  - change (sig_of g (pc_of s' w)). change (sig_of g (pc_of s w)) in H.
    destruct (Nat.eq_dec w t) as [->|Hwt]; [auto|].
    destruct (Nat.lt_ge_cases w (nthreads s)) as [Hw|Hw]; [|rewrite pc_of_oob in H by lia; destruct H].
    now rewrite Hoth.
Qed.

Lemma pcs_facts s s' t P :
  pcs s' = upd t P (pcs s) -> (t < nthreads s)%nat ->
  (nthreads s <= nthreads s')%nat /\ pc_of s' t = P /\ (forall x, x <> t -> (x < nthreads s)%nat -> pc_of s' x = pc_of s x).
Proof.
  intros E Ht. split; [|split].
  - rewrite (nthreads_of_pcs s' _ E), upd_length, pcs_length. lia.
  - rewrite (pc_of_upd _ _ _ _ E Ht). now rewrite Nat.eqb_refl.
  - intros x Hx _. rewrite (pc_of_upd _ _ _ _ E Ht). destruct (Nat.eqb_spec x t); [contradiction|reflexivity].
Qed.

Lemma pcs_facts_app s s' t P Q :
  pcs s' = upd t P (pcs s) ++ [Q] -> (t < nthreads s)%nat ->
  (nthreads s <= nthreads s')%nat /\ pc_of s' t = P /\ (forall x, x <> t -> (x < nthreads s)%nat -> pc_of s' x = pc_of s x).
Proof.
  intros E Ht. split; [|split].
  - rewrite (nthreads_of_pcs s' _ E), app_length, upd_length, pcs_length. lia.
  - rewrite (pc_of_upd_app _ _ _ _ _ E Ht). now rewrite Nat.eqb_refl.
  - intros x Hx Hl. rewrite (pc_of_upd_app _ _ _ _ _ E Ht). destruct (Nat.eqb_spec x t); [contradiction|].
    destruct (Nat.ltb_spec x (nthreads s)); [reflexivity|lia].
Qed.

Ltac get_pcs_facts s t Hlt :=
  match goal with
  | HP : pcs _ = upd t _ (pcs s) ++ _ |- _ => destruct (pcs_facts_app _ _ _ _ _ HP Hlt) as (Fn & Fpt & Foth)
  | HP : pcs _ = upd t _ (pcs s) |- _ => destruct (pcs_facts _ _ _ _ HP Hlt) as (Fn & Fpt & Foth)
  end.

Ltac rw_pc_in s t Hlt x H :=
  match goal with
  | HP : pcs _ = upd t _ (pcs s) ++ _ |- _ => rewrite (pc_of_upd_app _ _ _ _ _ HP Hlt x) in H
  | HP : pcs _ = upd t _ (pcs s) |- _ => rewrite (pc_of_upd _ _ _ _ HP Hlt x) in H
  end.

Section Fut.
  Variable cfg : config.
  Variable own : nat -> nat.
  Hypothesis Hfix : c_fixed cfg = true.
  Hypothesis Hsig : c_sigfix cfg = true.
  Hypothesis Hnest : c_nested cfg = false.

  Lemma jw_other s tr t x f a a0 :
    GInv cfg own s tr -> pc_of s t = CJoinReset f a -> x <> t -> pc_of s x = CJoinWait f a0 -> False.
  Proof.
    intros G Et Hxt Hx. apply (own_excl cfg own s tr t f G ltac:(rewrite Et; reflexivity) x Hxt). rewrite Hx. reflexivity.
  Qed.

  Lemma step_jw s tr t clk s' evs :
    (t < nthreads s)%nat -> GInv cfg own s tr -> LInv cfg s -> step cfg s t clk = (s', evs) -> cl_jw s'.
  Proof.
    intros Hlt G L Hs. pose proof (l_pc _ _ L t) as Hok. pose proof (l_jw _ _ L) as Hall. unfold cl_jw in Hall.
    split_step cfg s t Hs Hlt Hok Hfix Hsig Hnest; ring_pre constr:(s) constr:(t) Hs G; fin Hs; try (stutter (l_jw _ _ L)).
    all: leaf_pcs constr:(s) constr:(t) Hlt Epc; unfold cl_jw; intros x f0 a0 Hx; rw_pc_in constr:(s) constr:(t) Hlt x Hx;
         unfold get_fut in *; norm_proj.
    all: destruct (Nat.eqb_spec x t) as [->|Hxt];
         [ try discriminate Hx; try (rewrite Epc in Hx; discriminate Hx); try (inversion Hx; subst; clear Hx)
         | try (destruct (x <? nthreads s)%nat; [|destruct (Nat.eqb x (nthreads s)); discriminate Hx]); pose proof (Hall x f0 a0 Hx) as Hj ].
    all: try assumption.
    all: try (rewrite joinable_upd by reflexivity; assumption).
    all: rewrite nth_upd_eq;
         match goal with |- context [Nat.eqb ?a ?b] => destruct (Nat.eqb_spec a b) as [->|Hf] end; cbn [andb]; try assumption;
         match goal with |- context [(?a <? ?b)%nat] => destruct (a <? b)%nat end; try assumption; try reflexivity; cbn [f_joinable];
         exfalso; eapply jw_other; eauto.
  Qed.

  Lemma step_phase s tr t clk s' evs :
    (t < nthreads s)%nat -> GInv cfg own s tr -> LInv cfg s -> step cfg s t clk = (s', evs) -> cl_phase s'.
  Proof.
    intros Hlt G L Hs. pose proof (l_pc _ _ L t) as Hok. pose proof (l_phase _ _ L) as Hall. unfold cl_phase in Hall.
    pose proof (g_ring _ _ _ _ G) as RI. pose proof (ri_head _ _ RI) as Hhd. pose proof (ri_log _ _ RI) as Hlen.
    assert (Hpr : forall x k h, pc_of s x = PRing k (PopRead h) -> (Z.to_nat h < length (r_log (st_ring s)))%nat)
      by (intros x k h E; eapply popread_in_log; eauto).
    split_step cfg s t Hs Hlt Hok Hfix Hsig Hnest; ring_pre constr:(s) constr:(t) Hs G; fin Hs; try (stutter (l_phase _ _ L)).
    all: leaf_pcs constr:(s) constr:(t) Hlt Epc; get_pcs_facts constr:(s) constr:(t) Hlt; unfold cl_phase; intro g.
    all: try ((apply (phase_keep s _ t g (Hall g));
      [ reflexivity | exact Hlt | exact Fn | exact Foth
      | norm_proj; lia | left; reflexivity | intros k Hk; reflexivity | exact Hlen | lia | exact Hpr
      | rewrite Fpt, Epc; cbn [prepush_of taken_of ran_of sig_of]; tauto
      | rewrite Fpt, Epc; cbn [prepush_of taken_of ran_of sig_of]; tauto
      | rewrite Fpt, Epc; cbn [prepush_of taken_of ran_of sig_of]; tauto
      | rewrite Fpt, Epc; cbn [prepush_of taken_of ran_of sig_of]; tauto ])).
    (* abort() / the result store rewrite a future but not its phase; claims of a null job touch no future *)
    all: try (lazymatch goal with
              | |- phase_ok (put_fut _ _ (fut_aborting _ _)) _ => idtac
              | |- phase_ok (goto (put_fut _ _ (fut_result _ _)) _ _) _ => idtac
              | |- phase_ok (goto (set_ring _ _) _ _) _ => idtac end;
      apply (phase_keep s _ t g (Hall g));
        [ unfold get_fut; norm_proj;
          first [ reflexivity
                | rewrite nth_upd_eq;
                  match goal with |- context [Nat.eqb ?a ?b] => destruct (Nat.eqb_spec a b) as [->|] end; cbn [andb]; [|reflexivity];
                  match goal with |- context [(?a <? ?b)%nat] => destruct (a <? b)%nat end; reflexivity ]
        | exact Hlt | exact Fn | exact Foth | norm_proj; lia
        | norm_proj; first [ left; reflexivity | right; split; [reflexivity|unfold logv; rewrite Ej; cbn [jobf]; tauto] ]
        | norm_proj; intros k Hk; first [ reflexivity | apply app_nth1; exact Hk ]
        | exact Hlen | lia | exact Hpr
        | rewrite Fpt, ?Epc; cbn [prepush_of taken_of ran_of sig_of jobf]; intros; try tauto; try congruence
        | rewrite Fpt, ?Epc; cbn [prepush_of taken_of ran_of sig_of jobf]; intros; try tauto; try congruence
        | rewrite Fpt, ?Epc; cbn [prepush_of taken_of ran_of sig_of jobf]; intros; try tauto; try congruence
        | rewrite Fpt, ?Epc; cbn [prepush_of taken_of ran_of sig_of jobf]; intros; try tauto; try congruence ]).
    (* the remaining leaves rewrite one future, or claim a ticket *)
    all: try (lazymatch goal with |- phase_ok (put_fut _ _ _) _ => idtac | |- phase_ok (goto (put_fut _ _ _) _ _) _ => idtac end;
      match goal with
      | |- phase_ok (goto (put_fut _ ?f0 _) _ _) _ => destruct (Nat.eq_dec g f0) as [->|Hg]
      | |- phase_ok (put_fut _ ?f0 _) _ => destruct (Nat.eq_dec g f0) as [->|Hg]
      end;
      [ match goal with |- phase_ok _ ?f0 =>
          destruct (Nat.lt_ge_cases f0 (length (st_futs s))) as [Hin|Hout];
          [ unfold phase_ok, get_fut; norm_proj; rewrite nth_upd_same by exact Hin;
            cbn [f_phase fut_phase fut_state fut_sig fut_result fut_aborting];
            fold (get_fut s f0); pose proof (Hall f0) as Hme; unfold phase_ok in Hme
          | unfold phase_ok, get_fut; norm_proj; rewrite nth_overflow by (rewrite upd_length; lia); exact I ]
        end
      | apply (phase_keep s _ t g (Hall g));
        [ unfold get_fut; norm_proj; rewrite nth_upd_other by congruence; reflexivity
        | exact Hlt | exact Fn | exact Foth | norm_proj; lia
        | norm_proj; first [ left; reflexivity | right; split; [reflexivity|unfold logv; rewrite Ej; cbn [jobf]; congruence] ]
        | norm_proj; intros k Hk; first [ reflexivity | apply app_nth1; exact Hk ]
        | exact Hlen | lia | exact Hpr
        | rewrite Fpt, Epc; cbn [prepush_of taken_of ran_of sig_of jobf]; intros; try tauto; try congruence
        | rewrite Fpt, Epc; cbn [prepush_of taken_of ran_of sig_of jobf]; intros; try tauto; try congruence
        | rewrite Fpt, Epc; cbn [prepush_of taken_of ran_of sig_of jobf]; intros; try tauto; try congruence
        | rewrite Fpt, Epc; cbn [prepush_of taken_of ran_of sig_of jobf]; intros; try tauto; try congruence ] ]).
    all: try exact I.
    all: try (first [rewrite Fpt | rewrite pc_goto_same by exact Hlt]; cbn [taken_of ran_of]; rewrite ?Ej; cbn [jobf]; reflexivity).
    all: try (exists t; split; [lia|rewrite Fpt; cbn [prepush_of jobf]; reflexivity]).
    all: try (split; [lia|]; unfold logv; cbn [r_log]; rewrite Hlen, Nat2Z.id, app_nth2 by lia; rewrite Nat.sub_diag; reflexivity).
  Qed.
End Fut.