(* C10, liveness (A): the job counters and the clause "every queued call has a worker left or a grower". *)
From Coq Require Import ZArith List Bool Lia Arith.
From Coq Require Import ZifyBool ZifyNat.
From Common Require Import ListAux.
From Future Require Import FutureModel FutureRingProofs FutureProofs FutureStep FutureLiveness FutureNested FutureLiveDefs FutureLiveStep FutureLiveCnt.
Import ListNotations.
Local Open Scope Z_scope.

  Lemma w_inc_nonneg p : 0 <= w_inc p.
  Proof. destruct p; cbn; try lia; destruct k; try lia; destruct r; lia. Qed.
  Lemma w_g1_nonneg P p : 0 <= w_g1 P p.
  Proof. destruct p; cbn; try lia. destruct (_ <=? _); lia. Qed.
  Lemma w_g2_nonneg p : 0 <= w_g2 p.
  Proof. destruct p; cbn; try lia. destruct (_ <=? _); lia. Qed.
  Lemma w_gr_nonneg p : 0 <= w_gr p.
  Proof. destruct p; cbn; lia. Qed.
  Lemma w_hold_nonneg lg p : 0 <= w_hold lg p.
  Proof. destruct p; cbn; try lia; destruct k; try lia; try (destruct r; unfold callz; try lia; destruct (is_null _); lia); destruct j; cbn; lia. Qed.

  (* a call among the queued tickets: the null jobs do not fill the queue *)
  Lemma nulls_lt_of_call lg a b tj :
    0 <= a -> a <= tj < b -> is_null (nth (Z.to_nat tj) lg JNull) = false -> nulls lg a b <= b - a - 1.
  Proof.
    intros Ha Htj Hn.
    assert (E : nulls lg a b = nulls lg a tj + nulls lg tj b).
    { unfold nulls. replace (Z.to_nat (b - a)) with (Z.to_nat (tj - a) + Z.to_nat (b - tj))%nat by lia.
      generalize (Z.to_nat (b - tj)) as m. replace (Z.to_nat tj) with (Z.to_nat a + Z.to_nat (tj - a))%nat by lia.
      generalize (Z.to_nat a) as a0. induction (Z.to_nat (tj - a)) as [|n IH]; intros a0 m.
      - cbn [cnt_from Nat.add]. rewrite Nat.add_0_r. lia.
      - cbn [cnt_from Nat.add]. rewrite IH. replace (S a0 + n)%nat with (a0 + S n)%nat by lia. lia. }
    assert (E2 : nulls lg tj b = nulls lg (tj + 1) b) by (rewrite nulls_pop by lia; rewrite Hn; lia).
    pose proof (nulls_le lg a tj). pose proof (nulls_le lg (tj + 1) b). lia.
  Qed.

Section Psi.
  Variable cfg : config.
  Variable own : nat -> nat.
  Hypothesis Hfix : c_fixed cfg = true.
  Hypothesis Hsig : c_sigfix cfg = true.
  Hypothesis Hnest : c_nested cfg = false.

  Lemma step_pq s tr t clk s' evs :
    (t < nthreads s)%nat -> GInv cfg own s tr -> LInv cfg s -> step cfg s t clk = (s', evs) -> cl_pq s'.
  Proof.
    intros Hlt G L Hs. pose proof (l_pc _ _ L t) as Hok.
    pose proof (l_pq _ _ L) as H0. unfold cl_pq in H0.
    split_step cfg s t Hs Hlt Hok Hfix Hsig Hnest; ring_pre constr:(s) constr:(t) Hs G; fin Hs; try (stutter (l_pq _ _ L)).
    all: norm_leaf constr:(s) constr:(t) Hlt Epc; all_weights; rewrite ?Z.sub_0_r, ?Z.add_0_r; try assumption.
    all: nulls_norm G; rewrite ?Ej; all_weights; lia.
  Qed.


  Hypothesis Hmin : 0 <= c_min cfg.
  Hypothesis Hmax : 2 <= c_max cfg.

  Lemma step_psi s tr t clk s' evs :
    (t < nthreads s)%nat -> GInv cfg own s tr -> LInv cfg s -> step cfg s t clk = (s', evs) -> cl_psi s'.
  Proof.
    intros Hlt G L Hs. pose proof (l_pc _ _ L t) as Hok.
    pose proof (l_psi _ _ L) as Hpsi. unfold cl_psi, growers, logv in Hpsi.
    pose proof (l_pq _ _ L) as Hpq. unfold cl_pq in Hpq.
    pose proof (l_tc _ _ L) as Htc. pose proof (l_tcpos _ _ L) as Htp. unfold cl_tc, cl_tcpos, eff in Htc, Htp.
    pose proof (wsum_nonneg w_inc s w_inc_nonneg) as N1.
    pose proof (wsum_nonneg (w_g1 (st_pushed s)) s (w_g1_nonneg _)) as N2.
    pose proof (wsum_nonneg (w_g1 (st_pushed s + 1)) s (w_g1_nonneg _)) as N2'.
    pose proof (wsum_nonneg w_g2 s w_g2_nonneg) as N3.
    pose proof (wsum_nonneg w_gr s w_gr_nonneg) as N4.
    pose proof (wsum_nonneg (w_hold (r_log (st_ring s))) s (w_hold_nonneg _)) as N5.
    pose proof (wsum_excl w_mh w_dec s t w_dec_le_mh Hlt (mh_le1 cfg s L)) as Hex.
    pose proof (wsum_member w_inc s t w_inc_nonneg Hlt) as M1.
    pose proof (wsum_member (w_g1 (st_pushed s)) s t (w_g1_nonneg _) Hlt) as M2.
    pose proof (wsum_member w_g2 s t w_g2_nonneg Hlt) as M3.
    pose proof (wsum_member w_gr s t w_gr_nonneg Hlt) as M4.
    assert (Hd1 : wsum w_dec s <= 1).
    { pose proof (mh_le1 cfg s L). pose proof (wsum_le w_dec w_mh s (fun x _ => proj2 (w_dec_le_mh (pc_of s x)))). lia. }
    pose proof (g_ring _ _ _ _ G) as RI. pose proof (ri_head _ _ RI) as Hhd. pose proof (ri_log _ _ RI) as Hlg.
    split_step cfg s t Hs Hlt Hok Hfix Hsig Hnest; ring_pre constr:(s) constr:(t) Hs G; fin Hs; try (stutter (l_psi _ _ L)).
    all: leaf_pcs constr:(s) constr:(t) Hlt Epc; unfold cl_psi, growers, logv; intros tj Htj Hnl.
    all: norm_rw constr:(s) constr:(t) Hlt Epc; all_weights.
    all: try (lazymatch goal with
      | Epc : pc_of _ _ = PRing _ (PushCas JNull _) |- _ =>
          (* push claim of a null job *)
          destruct Hring as (Hr1 & Hr2 & Hr3);
          destruct (Z.eq_dec tj (r_tail (st_ring s))) as [->|Hne];
          [ rewrite app_nth2 in Hnl by lia;
            replace (Z.to_nat (r_tail (st_ring s)) - length (r_log (st_ring s)))%nat with 0%nat in Hnl by lia;
            discriminate Hnl
          | rewrite app_nth1 in Hnl by lia; pose proof (Hpsi tj ltac:(lia) Hnl) as Hold;
            rewrite (w_lnd_app _ _ _ _ _ G); rewrite nulls_app by lia; lia ]
      | Epc : pc_of _ _ = PRing _ (PushCas (JCall _ _ _ _) _) |- _ =>
          (* push claim of a call: the pusher is bound to increment _pushedJobs and to look at the worker count *)
          right; lia
      | Epc : pc_of _ _ = PRing _ (PopCas _) |- _ =>
          destruct Hring as (Hr1 & Hr2 & Hr3);
          pose proof (Hpsi tj ltac:(lia) Hnl) as Hold; rewrite nulls_pop by lia; rewrite Ej; all_weights; lia
      end).
    all: first [ pose proof (Hpsi tj Htj Hnl) as Hold; rewrite ?Z.sub_0_r, ?Z.add_0_r; exact Hold | pose proof (Hpsi tj Htj Hnl) as Hold; lia | idtac ].
    all: (
      pose proof (Hpsi tj ltac:(lia) Hnl) as Hold;
      pose proof (nulls_mono (r_log (st_ring s)) (r_head (st_ring s)) tj (r_tail (st_ring s)) ltac:(lia) ltac:(lia)) as Hmono;
      pose proof (nulls_lt_of_call (r_log (st_ring s)) (r_head (st_ring s)) (r_tail (st_ring s)) tj ltac:(lia) ltac:(lia) Hnl) as Hcl;
      repeat match goal with |- context [if ?c then 1 else 0] => destruct c eqn:? end;
      repeat match goal with H : context [if ?c then 1 else 0] |- _ => destruct c eqn:? end;
      lia).
  Qed.
End Psi.
