(* C10, liveness (A): FastSignal and wake-up clauses of LInv. *)
From Coq Require Import ZArith List Bool Lia Arith.
From Coq Require Import ZifyBool ZifyNat.
From Common Require Import ListAux.
From Future Require Import FutureModel FutureRingProofs FutureProofs FutureStep FutureLiveness FutureNested FutureLiveDefs FutureLiveStep FutureLiveCnt.
Import ListNotations.
Local Open Scope Z_scope.

Lemma w_fsp_nonneg w p : 0 <= w_fsp w p.
Proof. destruct p; cbn; try lia. destruct o; try lia; destruct (which_eqb _ _); lia. Qed.

Section Fs.
  Variable cfg : config.
  Variable own : nat -> nat.
  Hypothesis Hfix : c_fixed cfg = true.
  Hypothesis Hsig : c_sigfix cfg = true.
  Hypothesis Hnest : c_nested cfg = false.

  Lemma step_fs w s tr t clk s' evs :
    (t < nthreads s)%nat -> GInv cfg own s tr -> LInv cfg s -> step cfg s t clk = (s', evs) -> cl_fs w s'.
  Proof.
    intros Hlt G L Hs. pose proof (l_pc _ _ L t) as Hok.
    assert (H0 : cl_fs w s) by (destruct w; [apply (l_fse _ _ L)|apply (l_fsd _ _ L)]).
    pose proof H0 as H0'. unfold cl_fs in H0.
    pose proof (wsum_member (w_fsp w) s t (w_fsp_nonneg w) Hlt) as M1.
    destruct w.
    all: split_step cfg s t Hs Hlt Hok Hfix Hsig Hnest; ring_pre constr:(s) constr:(t) Hs G; fin Hs; try (stutter H0').
    all: leaf_pcs constr:(s) constr:(t) Hlt Epc; unfold cl_fs; norm_rw constr:(s) constr:(t) Hlt Epc; all_weights.
    all: rewrite ?Z.sub_0_r, ?Z.add_0_r; try exact H0.
    all: first [ intro HH; destruct (H0 HH) as [HF|HF]; [left; exact HF | right; lia] | lia ].
  Qed.

End Fs.
