(* Property C10 — "Every Future call runs exactly once and join waits for its result".

   All theorems are about the interleaving model FutureModel.v (threads = program counters over
   the atomic steps of src/Future.cpp + Future.hpp, sequential consistency) and hold for EVERY
   schedule (list of moves) and EVERY configuration (queue capacity, pool bounds, lazy pool
   creation, number of client threads and futures, client scripts, started function) that is
   well formed: [wf_cfg cfg own] = the queue has room for one job, every future named in a script
   exists and is used by one client thread only ([own] names its owner).

   clause of the statement                                   theorem
   ------------------------------------------------------    -------------------------------------
   each started call is executed at most once                each_call_runs_at_most_once
   ... exactly once, with the arguments given, and            joined_call_ran_exactly_once,
     join()/~Future/conversion return only after that            run_uses_given_arguments, starts_unique
     execution has completed (EvComplete before EvJoinRet)
   the converted result is the function's return value       result_is_return_value (conversion that joins),
                                                                result_after_join (conversion of a future that
                                                                is not joinable, `f.join(); x = f;`: the return
                                                                value of the LATEST start)
   the DESTRUCTOR returns only after the worker is done      destructor_waits_for_worker (code after
     with the Future (its Signal is freed with it): no          fixes/C10/04, c_sigfix = true);
     worker holds the call record or stands inside the          destructor_waits_refuted_original: FALSE for
     completion handshake when ~Future returns                  Signal::set() as it was (unlock, then broadcast)
   the RESULT SLOT (member `result` of Future<A>, destroyed  result_slot_outlives_execution (no hypothesis on
     by ~Future<A> after its join()) is destroyed only          c_sigfix): at EvDestroy the latest started call
     after the execution has completed: the worker never        has run, once, and its EvStore lies before
     assigns into a destroyed result object
   after join: isAborted only if abort() was requested        aborted_only_if_requested
     since the start, isFinished otherwise
   MPMC ring: ticket/sequence invariant; no slot handed      ring_ticket_invariant, ring_no_two_consumers,
     to two consumers / producers; a pop returns the job        ring_no_two_producers, ring_pop_reads_pushed,
     pushed under its ticket; queued jobs are not lost          ring_no_job_lost
   the inductive invariant all of the above are read off     model_invariant_all_schedules
   "every join eventually returns":
     The clause as a statement about the model:

       (A) no reachable state is a deadlock:
           forall cfg own sched, wf_cfg cfg own -> c_fixed cfg = true -> c_sigfix cfg = true ->
             terminating_scripts cfg = true -> 0 <= c_min cfg -> 2 <= c_max cfg ->
             deadlocked cfg (fst (exec cfg sched)) = false                       PROVED: no_reachable_deadlock
       (B) under a fair scheduler (every thread that is not blocked moves eventually) a measure decreases:
           no livelock of the retry loops, every join returns after finitely many moves      NOT PROVED

     where deadlocked = some client has not finished and all_blocked; wf_cfg includes c_nested = false;
     0 <= c_min and 2 <= c_max hold for every pool the code can build (usize; the constructor raises
     _maxThreads to 3).  (A) is proved for ALL schedules and ALL such configurations (any number of client
     threads, futures, script operations, workers, any queue capacity >= 1) from a second inductive
     invariant LInv (wakeup_invariant_all_schedules, FutureLiveDefs.v), the wake-up and worker-count
     bookkeeping the repairs fixes/C10/01-03 establish:
       - the enqueued signal: queue non-empty => _state set, or some thread is bound to set it (a producer
         past its claim, the shrink push, a worker that popped in its second attempt: fixes 01 and 03), or a
         worker is re-examining the queue after its reset and cannot miss the job; symmetrically for the
         dequeued signal and the producers that found the queue full;
       - FastSignal: _state set => the inner flag is set or somebody is inside set()/reset() past the
         _state access and will set it (fix 02);
       - _threadCount = live workers that have not taken a null job + contexts about to be started
         - queued null jobs + pending decrements >= 0; _pushedJobs/_processedJobs count the claimed and the
         completed calls; every queued call has a worker left for it after the null jobs AHEAD of it in the
         queue, or some client is bound to start one (it stands between its push and the worker-count
         decision with values that force the decision);
       - the call of a started, unfinished future is in the push loop of its owner, queued, or held by a
         worker that is not blocked.
     Consequences proved: all_blocked_means_clients_done (a state with both invariants in which every thread
     is blocked has no unfinished client), some_thread_can_move (while a client is unfinished some thread can
     take a step that changes the state).  Supporting: join_liveness_partial (the state can change no more
     EXACTLY when every thread is blocked), deadlock_is_permanent.
     (B) is NOT proved.  Proved towards it (fairness half): fair_window_has_effective_move and
     fair_progress_partial - while a client is unfinished every window of moves that schedules each existing
     thread at least once contains a state-changing move, so n fair windows contain at least n of them.
     The missing half is NOT "the number of state-changing moves is bounded": state_changing_moves_unbounded
     exhibits a reachable state of the repaired code (set() of a producer interleaved with reset() of a worker
     leaves _state == 0 with the inner Signal set) from which a worker on an empty queue goes pop - reset - pop -
     wait round and round, 7 state-changing moves back to the SAME state (the busy spin of an idle worker; no
     join waits for it).  What remains is a ranking with helpful threads (under fairness some thread whose
     moves matter is scheduled; the moves of spinning workers must leave the rank alone): not formalised.
     - for the sleep/wake handshake as it was before           join_liveness_refuted_original (witness schedule,
       fixes/C10/01-03 the clause is FALSE                        replayed by vm_compute)
     - "started from any threads": when started functions      join_liveness_refuted_nested_start (witness
       start futures themselves (c_nested = true) the clause      schedule on the code AS IT IS NOW; open finding)
       is FALSE although they terminate and wait on no future
     - without a worker the clause is false: c_max = 0 (not      Example deadlock_without_workers
       constructible with the code) deadlocks at the first join
   worker-pool sizing (grow/idle/shrink), lazy pool creation, full-queue back-pressure: part of the
   model, i.e. covered by the quantifier "every schedule" of the theorems above. *)
From Coq Require Import ZArith List Bool Lia Arith.
From Future Require Import FutureModel FutureRingProofs FutureProofs FutureStep FutureTheorems FutureDestroy FutureLiveness FutureNested FutureExamples
  FutureLiveDefs FutureLiveMain FutureLiveFair.
Import ListNotations.
Local Open Scope Z_scope.

Theorem model_invariant_all_schedules : forall cfg own sched,
  wf_cfg cfg own -> GInv cfg own (fst (exec cfg sched)) (snd (exec cfg sched)).
Proof. exact exec_inv. Qed.
Print Assumptions model_invariant_all_schedules.

Theorem each_call_runs_at_most_once : forall cfg own, wf_cfg cfg own ->
  forall sched f n, (runs (snd (exec cfg sched)) f n <= 1)%nat.
Proof. exact at_most_once. Qed.
Print Assumptions each_call_runs_at_most_once.

Theorem joined_call_ran_exactly_once : forall cfg own, wf_cfg cfg own ->
  forall sched newer c f n older,
    snd (exec cfg sched) = newer ++ EvJoinRet c f n :: older ->
    runs older f n = 1%nat /\ runs (snd (exec cfg sched)) f n = 1%nat /\
    exists ab a wk w, In (EvComplete f n ab) older /\ started older f n a wk /\ In (EvRun w f n a) older /\
                      In (EvStore f n (c_fn cfg a)) older.
Proof. exact join_after_exactly_one_run. Qed.
Print Assumptions joined_call_ran_exactly_once.

Theorem run_uses_given_arguments : forall cfg own, wf_cfg cfg own ->
  forall sched newer w f n a older,
    snd (exec cfg sched) = newer ++ EvRun w f n a :: older -> exists wk, started older f n a wk.
Proof. exact FutureTheorems.run_uses_given_arguments. Qed.
Print Assumptions run_uses_given_arguments.

Theorem starts_unique : forall cfg own, wf_cfg cfg own ->
  forall sched c c' f n a a' wk wk',
    In (EvStart c f n a wk) (snd (exec cfg sched)) -> In (EvStart c' f n a' wk') (snd (exec cfg sched)) ->
    a = a' /\ wk = wk'.
Proof. exact FutureTheorems.starts_unique. Qed.
Print Assumptions starts_unique.

Theorem result_is_return_value : forall cfg own, wf_cfg cfg own ->
  forall sched newer c i f n v older,
    snd (exec cfg sched) = newer ++ EvObs c i (OGet f (Some n) v) :: older ->
    exists a wk, started older f n a wk /\ v = Some (c_fn cfg a).
Proof. exact FutureTheorems.result_is_return_value. Qed.
Print Assumptions result_is_return_value.

Theorem result_after_join : forall cfg own sched, wf_cfg cfg own ->
  forall newer c i f v older,
    snd (exec cfg sched) = newer ++ EvObs c i (OGet f None v) :: older ->
    forall n a, latest_start older f n a -> v = Some (c_fn cfg a).
Proof. exact result_after_join_lemma. Qed.
Print Assumptions result_after_join.

Theorem destructor_waits_for_worker : forall cfg own sched, wf_cfg cfg own -> c_sigfix cfg = true ->
  forall c f clean, In (EvDestroy c f clean) (snd (exec cfg sched)) -> clean = true.
Proof. exact destructor_waits_for_worker_lemma. Qed.
Print Assumptions destructor_waits_for_worker.

Theorem result_slot_outlives_execution : forall cfg own sched, wf_cfg cfg own ->
  forall newer c f clean older,
    snd (exec cfg sched) = newer ++ EvDestroy c f clean :: older ->
    forall n a, latest_start older f n a ->
      runs older f n = 1%nat /\ In (EvStore f n (c_fn cfg a)) older.
Proof. exact result_slot_outlives_execution_lemma. Qed.
Print Assumptions result_slot_outlives_execution.

Example ex_result_slot_outlives_execution :
  exists newer c clean older,
    snd (exec (ds_cfg true) ds_sched) = newer ++ EvDestroy c 0 clean :: older /\
    latest_start older 0 1 5 /\ runs older 0 1 = 1%nat /\ In (EvStore 0 1 38) older.
Proof. exact ex_result_slot_lemma. Qed.

Theorem destructor_waits_refuted_original :
  exists cfg own sched,
    wf_cfg cfg own /\ c_fixed cfg = true /\ c_sigfix cfg = false /\
    exists c f, In (EvDestroy c f false) (snd (exec cfg sched)).
Proof. exact destructor_waits_refuted_original_lemma. Qed.
Print Assumptions destructor_waits_refuted_original.

Theorem aborted_only_if_requested : forall cfg own, wf_cfg cfg own ->
  forall sched f,
    let s := fst (exec cfg sched) in let tr := snd (exec cfg sched) in
    (f < c_nfut cfg)%nat -> f_joinable (get_fut s f) = false -> (1 <= f_serial (get_fut s f))%nat ->
    (f_state (get_fut s f) = StAborted -> exists c, In (EvAbort c f (f_serial (get_fut s f))) tr) /\
    (f_state (get_fut s f) <> StAborted -> f_state (get_fut s f) = StFinished).
Proof. exact FutureTheorems.aborted_only_if_requested. Qed.
Print Assumptions aborted_only_if_requested.

Theorem ring_ticket_invariant : forall cfg own, wf_cfg cfg own ->
  forall sched, let s := fst (exec cfg sched) in RInv (st_ring s) (inflight s).
Proof. exact ring_invariant. Qed.
Print Assumptions ring_ticket_invariant.

Theorem ring_no_two_consumers : forall cfg own, wf_cfg cfg own ->
  forall sched a b ka kb pa pb tk,
    let s := fst (exec cfg sched) in
    a <> b -> pc_of s a = PRing ka pa -> pc_of s b = PRing kb pb -> pop_tk pa = Some tk -> pop_tk pb = Some tk -> False.
Proof. exact FutureTheorems.ring_no_two_consumers. Qed.
Print Assumptions ring_no_two_consumers.

Theorem ring_no_two_producers : forall cfg own, wf_cfg cfg own ->
  forall sched a b ka kb pa pb tk,
    let s := fst (exec cfg sched) in
    a <> b -> pc_of s a = PRing ka pa -> pc_of s b = PRing kb pb -> push_tk pa = Some tk -> push_tk pb = Some tk -> False.
Proof. exact FutureTheorems.ring_no_two_producers. Qed.
Print Assumptions ring_no_two_producers.

Theorem ring_pop_reads_pushed : forall cfg own, wf_cfg cfg own ->
  forall sched x k h,
    let s := fst (exec cfg sched) in
    pc_of s x = PRing k (PopRead h) ->
    0 <= h < r_head (st_ring s) /\ s_data (get_slot (st_ring s) h) = Some (nth (Z.to_nat h) (r_log (st_ring s)) JNull).
Proof. exact FutureTheorems.ring_pop_reads_pushed. Qed.
Print Assumptions ring_pop_reads_pushed.

Theorem ring_no_job_lost : forall cfg own, wf_cfg cfg own ->
  forall sched tk,
    let s := fst (exec cfg sched) in let tr := snd (exec cfg sched) in
    r_head (st_ring s) <= tk < r_tail (st_ring s) ->
    0 <= r_head (st_ring s) /\ r_tail (st_ring s) = Z.of_nat (length (r_log (st_ring s))) /\
    match nth (Z.to_nat tk) (r_log (st_ring s)) JNull with
    | JNull => True
    | JCall f n a wk => f_phase (get_fut s f) = PhQueued tk /\ f_serial (get_fut s f) = n /\
                        started tr f n a wk /\ runs tr f n = 0%nat
    end.
Proof. exact ring_pending_jobs. Qed.
Print Assumptions ring_no_job_lost.

Theorem join_liveness_refuted_original :
  exists cfg own sched,
    wf_cfg cfg own /\ c_fixed cfg = false /\
    let s := fst (exec cfg sched) in
    client_unfinished cfg s = true /\ all_blocked s = true /\
    forall more tr, exec_from cfg s tr more = (s, tr).
Proof. exact join_liveness_refuted_original_lemma. Qed.
Print Assumptions join_liveness_refuted_original.

Theorem join_liveness_refuted_nested_start :
  exists cfg sched,
    c_fixed cfg = true /\ c_sigfix cfg = true /\ c_nested cfg = true /\ 0 < c_cap cfg /\
    terminating_scripts cfg = true /\
    let s := fst (exec cfg sched) in
    client_unfinished cfg s = true /\ all_blocked s = true /\
    forall more tr, exec_from cfg s tr more = (s, tr).
Proof. exact join_liveness_refuted_nested_start_lemma. Qed.
Print Assumptions join_liveness_refuted_nested_start.

Theorem join_liveness_partial : forall cfg s,
  ((forall t clk, fst (step cfg s t clk) = s) <-> all_blocked s = true) /\
  (all_blocked s = true -> forall sched tr, exec_from cfg s tr sched = (s, tr)).
Proof. exact join_liveness_partial_lemma. Qed.
Print Assumptions join_liveness_partial.

Theorem deadlock_is_permanent : forall cfg s tr sched,
  all_blocked s = true -> exec_from cfg s tr sched = (s, tr).
Proof. exact FutureLiveness.deadlock_is_permanent. Qed.
Print Assumptions deadlock_is_permanent.

Theorem wakeup_invariant_all_schedules : forall cfg own sched,
  wf_cfg cfg own -> c_fixed cfg = true -> c_sigfix cfg = true -> terminating_scripts cfg = true ->
  0 <= c_min cfg -> 2 <= c_max cfg ->
  LInv cfg (fst (exec cfg sched)).
Proof. exact wakeup_invariant_lemma. Qed.
Print Assumptions wakeup_invariant_all_schedules.

Theorem all_blocked_means_clients_done : forall cfg own s tr,
  GInv cfg own s tr -> LInv cfg s -> all_blocked s = true -> client_unfinished cfg s = false.
Proof. exact blocked_means_finished. Qed.
Print Assumptions all_blocked_means_clients_done.

Theorem no_reachable_deadlock : forall cfg own sched,
  wf_cfg cfg own -> c_fixed cfg = true -> c_sigfix cfg = true -> terminating_scripts cfg = true ->
  0 <= c_min cfg -> 2 <= c_max cfg ->
  deadlocked cfg (fst (exec cfg sched)) = false.
Proof. exact no_reachable_deadlock_lemma. Qed.
Print Assumptions no_reachable_deadlock.

Theorem some_thread_can_move : forall cfg own sched,
  wf_cfg cfg own -> c_fixed cfg = true -> c_sigfix cfg = true -> terminating_scripts cfg = true ->
  0 <= c_min cfg -> 2 <= c_max cfg ->
  let s := fst (exec cfg sched) in
  client_unfinished cfg s = true ->
  exists t, (t < nthreads s)%nat /\ blocked s t = false /\ forall clk, fst (step cfg s t clk) <> s.
Proof. exact some_thread_moves_lemma. Qed.
Print Assumptions some_thread_can_move.

(* (B), the fairness half: [effective_moves] counts the moves of a schedule that change the state (= the moves of
   threads that are not blocked); a window that schedules every existing thread contains one while a client is unfinished *)
Theorem fair_window_has_effective_move : forall cfg own sched w,
  wf_cfg cfg own -> c_fixed cfg = true -> c_sigfix cfg = true -> terminating_scripts cfg = true ->
  0 <= c_min cfg -> 2 <= c_max cfg ->
  let s := fst (exec cfg sched) in
  client_unfinished cfg s = true ->
  (forall t, (t < nthreads s)%nat -> In t (map fst w)) ->
  (1 <= effective_moves cfg s w)%nat.
Proof. exact fair_window_lemma. Qed.
Print Assumptions fair_window_has_effective_move.

Theorem fair_progress_partial : forall cfg own sched ws,
  wf_cfg cfg own -> c_fixed cfg = true -> c_sigfix cfg = true -> terminating_scripts cfg = true ->
  0 <= c_min cfg -> 2 <= c_max cfg ->
  let s := fst (exec cfg sched) in
  fair_windows cfg s ws ->
  client_unfinished cfg (fst (exec_from cfg s [] (concat ws))) = true ->
  (length ws <= effective_moves cfg s (concat ws))%nat.
Proof. exact fair_progress_stmt. Qed.
Print Assumptions fair_progress_partial.

Theorem effective_move_changes_the_state : forall cfg s t clk,
  effective_moves cfg s [(t, clk)] = 1%nat -> fst (step cfg s t clk) <> s.
Proof. exact effective_move_changes_state. Qed.
Print Assumptions effective_move_changes_the_state.

(* ... and why the other half is not "the number of state-changing moves is bounded": a worker can spin *)
Theorem state_changing_moves_unbounded :
  exists cfg own sched t n,
    wf_cfg cfg own /\ c_fixed cfg = true /\ c_sigfix cfg = true /\ terminating_scripts cfg = true /\
    0 <= c_min cfg /\ 2 <= c_max cfg /\
    let s := fst (exec cfg sched) in
    (0 < n)%nat /\ effective_moves cfg s (repeat (t, false) n) = n /\
    fst (exec_from cfg s [] (repeat (t, false) n)) = s.
Proof. exact spin_cycle_lemma. Qed.
Print Assumptions state_changing_moves_unbounded.

(* ---------------------------------------------------------------------------------------- *)
(* non-vacuity: a concrete configuration (code as it is now), a complete fair schedule        *)
(* ---------------------------------------------------------------------------------------- *)
(* the run finishes (the client's script is done), three calls were joined, two results converted *)
Example ex_run_completes :
  client_unfinished ex_cfg (fst (exec ex_cfg ex_sched)) = false /\
  length (filter (fun e => match e with EvJoinRet _ _ _ => true | _ => false end) (snd (exec ex_cfg ex_sched))) = 3%nat /\
  has_event (fun e => match e with EvObs _ _ (OGet 0%nat (Some 1%nat) (Some 38)) => true | _ => false end)
            (snd (exec ex_cfg ex_sched)) = true /\
  has_event (fun e => match e with EvObs _ _ (OGet 1%nat (Some 1%nat) (Some 45)) => true | _ => false end)
            (snd (exec ex_cfg ex_sched)) = true /\
  has_event (fun e => match e with EvObs _ _ (OCheck 1%nat 1%nat StAborted _) => true | _ => false end)
            (snd (exec ex_cfg ex_sched)) = true /\
  runs (snd (exec ex_cfg ex_sched)) 0 1 = 1%nat /\ runs (snd (exec ex_cfg ex_sched)) 0 2 = 1%nat /\
  runs (snd (exec ex_cfg ex_sched)) 1 1 = 1%nat.
Proof. vm_compute. repeat split; reflexivity. Qed.

(* some reachable state has a consumer between its claim and its read, and a non-empty queue *)
Example ex_ring_states :
  existsb (fun n => let s := fst (exec ex_cfg (firstn n ex_sched)) in
                    existsb (fun x => match pc_of s x with PRing _ (PopRead _) => true | _ => false end)
                            (seq 0 (length (st_threads s))))
          (seq 0 (length ex_sched)) = true /\
  existsb (fun n => let s := fst (exec ex_cfg (firstn n ex_sched)) in r_head (st_ring s) <? r_tail (st_ring s))
          (seq 0 (length ex_sched)) = true.
Proof. vm_compute. split; reflexivity. Qed.

(* `f.join(); x = f;` twice on a re-used Future: the second conversion yields the second call's value *)
Example ex_result_after_join :
  existsb (fun e => match e with EvObs _ 2%nat (OGet 0%nat None (Some 38)) => true | _ => false end) (snd (exec rj_cfg rj_sched)) = true /\
  existsb (fun e => match e with EvObs _ 5%nat (OGet 0%nat None (Some 45)) => true | _ => false end) (snd (exec rj_cfg rj_sched)) = true.
Proof. exact rj_example. Qed.

(* the schedule that shows the late broadcast of the old Signal::set() ends, on the repaired code, with a clean destroy *)
Example ex_destroy_clean :
  existsb is_dirty_destroy (snd (exec (ds_cfg true) ds_sched)) = false /\
  existsb (fun e => match e with EvDestroy _ _ true => true | _ => false end) (snd (exec (ds_cfg true) ds_sched)) = true.
Proof. exact ds_fixed_clean. Qed.

(* the deadlock witness of the old handshake is a real deadlock there, and is none on the code as it is now *)
Example witness_deadlocks_original : deadlocked (dl_cfg false) (fst (exec (dl_cfg false) dl_sched)) = true.
Proof. exact dl_deadlock. Qed.
(* join_liveness_partial is about something: a reachable state in which some thread is not blocked, and one (of the
   old handshake) in which every thread is *)
Example ex_not_all_blocked : all_blocked (fst (exec ex_cfg (firstn 20 ex_sched))) = false.
Proof. vm_compute. reflexivity. Qed.

(* the open finding: three workers in the back-pressure loop of ThreadPool::run (inside start()), the client in join() *)
Example witness_nested_start : deadlocked ns_cfg (fst (exec ns_cfg ns_sched)) = true.
Proof. exact ns_deadlock. Qed.
Example witness_survives_fix : deadlocked (dl_cfg true) (fst (exec (dl_cfg true) dl_sched)) = false.
Proof. exact dl_fixed_alive. Qed.

(* the hypotheses of no_reachable_deadlock hold for the configuration of the old handshake's witness, as the code is now *)
Example ex_liveness_hypotheses :
  wf_cfg (dl_cfg true) (fun _ => 0%nat) /\ c_fixed (dl_cfg true) = true /\ c_sigfix (dl_cfg true) = true /\
  terminating_scripts (dl_cfg true) = true /\ 0 <= c_min (dl_cfg true) /\ 2 <= c_max (dl_cfg true).
Proof. split; [apply dl_wf|]. repeat split; try reflexivity; cbn; lia. Qed.

(* the wake-up clauses are about something: along that schedule there is a state with a queued job while the
   enqueued signal's _state is clear (a worker between its reset and its second pop covers it), a state with
   a worker asleep on the enqueued signal, and a state with a queued null job *)
Example ex_wakeup_states :
  existsb (fun n => let s := fst (exec (dl_cfg true) (firstn n dl_sched)) in
                    (r_head (st_ring s) <? r_tail (st_ring s)) && negb (fs_state (st_enq s)))
          (seq 0 (length dl_sched)) = true /\
  existsb (fun n => let s := fst (exec (dl_cfg true) (firstn n dl_sched)) in
                    existsb (fun x => match pc_of s x with PFs KWWait Enq FWait2 => negb (fs_flag (st_enq s)) | _ => false end)
                            (seq 0 (length (st_threads s))))
          (seq 0 (length dl_sched)) = true /\
  existsb (fun n => let s := fst (exec (dl_cfg true) (firstn n dl_sched)) in
                    existsb (fun k => match nth k (r_log (st_ring s)) (JCall 0 0 0 0) with JNull => (Z.of_nat k <? r_tail (st_ring s)) && (r_head (st_ring s) <=? Z.of_nat k) | _ => false end)
                            (seq 0 (length (r_log (st_ring s)))))
          (seq 0 (length dl_sched)) = true.
Proof. vm_compute. repeat split; reflexivity. Qed.

(* a pool that may not start a worker (c_max = 0; the code raises _maxThreads to 3) deadlocks at the first join:
   the hypothesis 2 <= c_max of no_reachable_deadlock cannot be dropped *)
Example deadlock_without_workers :
  deadlocked nw_cfg (fst (exec nw_cfg (auto_sched nw_cfg (init nw_cfg) 200))) = true.
Proof. vm_compute. reflexivity. Qed.

(* fair_window_has_effective_move is about something: the 60-move prefix of the witness schedule (code as it is now) leaves the client
   unfinished, and a window made of one move of every thread contains a state-changing move *)
Example ex_fair_window :
  let s := fst (exec (dl_cfg true) (firstn 60 dl_sched)) in
  client_unfinished (dl_cfg true) s = true /\
  (1 <= effective_moves (dl_cfg true) s (map (fun t => (t, false)) (seq 0 (length (st_threads s)))))%nat.
Proof. vm_compute. split; [reflexivity|lia]. Qed.
