From Coq Require Import ZArith List Bool.
From Future Require Import FutureModel FutureSpec.
Import ListNotations.
Theorem exec_nil : forall cfg, exec cfg [] = (init cfg, []).
Proof. exact (fun cfg => eq_refl). Qed.
Print Assumptions exec_nil.
