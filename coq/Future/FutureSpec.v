(* Reference object for property C10: what the property text promises about a set of client
   scripts, independent of any schedule and without looking at the code.

   Each future belongs to one client thread (the first that names it).  For every operation of
   every script the spec gives the observation the client must make; [None] = not determined by
   the property text (printed as `?`).

   The state a client sees (isFinished()/isAborted()): the text says "after join, isAborted() is true
   only if abort() was requested since the start, and isFinished() is true otherwise".  So after a
   join of a call during which abort() was NOT requested the state is finished ([SsIs StFinished]);
   after a join of a call during which abort() WAS requested it is finished or aborted, the text does
   not say which ([SsDone], printed `FA`: exactly one of isFinished(), isAborted() holds) - also for a
   function that returned BECAUSE it saw isAborting(): that the code then reports "aborted" is a fact
   of the code (model), not a clause of the text.  While a call is in flight nothing is promised
   ([SsAny], `?`). *)
From Coq Require Import ZArith List Bool Lia.
From Common Require Import ListAux.
From Future Require Import FutureModel.
Import ListNotations.
Local Open Scope Z_scope.

Inductive sstate := SsIs (s : fstate) | SsDone | SsAny.

Record sfut := mkSfut {
  sp_serial : nat;             (* number of starts so far *)
  sp_active : bool;            (* started and not yet joined *)
  sp_arg : Z; sp_work : nat;   (* of the current call *)
  sp_ab : bool;                (* abort() requested since the last start *)
  sp_state : sstate;           (* state visible after the last join; SsDone = either finished or aborted *)
  sp_res : option Z;           (* value of the result slot; None = unspecified *)
  sp_owner : option nat
}.
Definition sfut_init : sfut := mkSfut 0 false 0 0 false (SsIs StIdle) None None.

Inductive sobs :=
| SoStart (c f n : nat) (arg : Z)                       (* the call runs exactly once, with arg *)
| SoAbort (c f n : nat)
| SoJoin (c f : nat) (n : option nat)                   (* Some n: returns after completion of call n *)
| SoGet (c f : nat) (n : option nat) (v : option Z)
| SoCheck (c f n : nat) (st : sstate) (ab : bool)
| SoPause (c : nat)
| SoDestroy (c f : nat) (n : option nat).               (* ~Future: returns after completion of call n *)

(* what join() makes visible *)
Definition sp_join (fn : Z -> Z) (x : sfut) : sfut :=
  if sp_active x then
    mkSfut (sp_serial x) false (sp_arg x) (sp_work x) (sp_ab x)
           (if sp_ab x then SsDone else SsIs StFinished)
           (Some (fn (sp_arg x))) (sp_owner x)
  else x.

Definition spec_step (fn : Z -> Z) (fs : list sfut) (c : nat) (op : cop) : list sfut * sobs :=
  match op with
  | CStart f arg work =>
      let x := sp_join fn (nth f fs sfut_init) in
      let n := S (sp_serial x) in
      (upd f (mkSfut n true arg work false (sp_state x) (sp_res x) (sp_owner x)) fs, SoStart c f n arg)
  | CAbort f =>
      let x := nth f fs sfut_init in
      (upd f (mkSfut (sp_serial x) (sp_active x) (sp_arg x) (sp_work x) true (sp_state x) (sp_res x) (sp_owner x)) fs,
       SoAbort c f (sp_serial x))
  | CJoin f =>
      let x := nth f fs sfut_init in
      (upd f (sp_join fn x) fs, SoJoin c f (if sp_active x then Some (sp_serial x) else None))
  | CGet f =>
      let x := nth f fs sfut_init in
      let y := sp_join fn x in
      (upd f y fs, SoGet c f (if sp_active x then Some (sp_serial x) else None) (sp_res y))
  | CCheck f =>
      let x := nth f fs sfut_init in
      (fs, SoCheck c f (sp_serial x) (if sp_active x then SsAny else sp_state x) (sp_ab x))
  | CPause => (fs, SoPause c)
  | CDestroy f =>
      let x := nth f fs sfut_init in
      (upd f (sp_join fn x) fs, SoDestroy c f (if sp_active x then Some (sp_serial x) else None))
  | CResume _ _ _ => (fs, SoPause c)
  end.

Fixpoint spec_run (fn : Z -> Z) (fs : list sfut) (ops : list (nat * cop)) : list sobs :=
  match ops with
  | [] => []
  | (c, op) :: rest => let '(fs', o) := spec_step fn fs c op in o :: spec_run fn fs' rest
  end.

(* A script set is admissible when every future is used by one client only, every client exists,
   and the premise of the liveness clause holds FOR EVERY POOL SIZE >= 1 AND EVERY QUEUE CAPACITY >= 1
   (the text quantifies over all of them): "the started functions terminate and do not wait on other
   futures".  A function that polls isAborting() (work 3) terminates only when its owner reaches
   abort().  The owner reaches it for certain only if nothing it does in between can wait for the
   pool: join(), the conversion, the destructor and a further start() of the same future wait for a
   call; start() of ANY future waits in the back-pressure loop when the queue is full, and a full queue
   drains only when a worker is free - which the polling function itself may be occupying (one worker),
   or two of them (two workers: the reading "at most two pending because the pool has three workers"
   used a fact of the code, not of the text).  So: between the start of a polling call and the abort()
   of that future its owner performs only abort(), the state queries and pauses; then every polling
   function terminates whatever the pool looks like (abort() sets a flag of the Future, it reaches a
   queued call as well as a running one), and the premise holds.  Any client may start such calls. *)
Definition cop_fut (op : cop) : option nat :=
  match op with
  | CStart f _ _ | CAbort f | CJoin f | CGet f | CCheck f | CDestroy f => Some f
  | CPause | CResume _ _ _ => None
  end.

Definition pending_of (c : nat) (st : list (option nat * bool)) : bool :=
  existsb (fun x => match fst x with Some o => (o =? c)%nat && snd x | None => false end) st.

Fixpoint valid_from (ncl : nat) (st : list (option nat * bool)) (ops : list (nat * cop)) : bool :=
  match ops with
  | [] => forallb (fun x => negb (snd x)) st
  | (c, op) :: rest =>
      (c <? ncl)%nat &&
      match cop_fut op with
      | None => valid_from ncl st rest
      | Some f =>
          let '(own, w3) := nth f st (None, false) in
          (f <? length st)%nat &&
          match own with Some o => (o =? c)%nat | None => true end &&
          match op with
          | CStart _ _ work =>
              negb w3 && negb (pending_of c st) &&
              valid_from ncl (upd f (Some c, (work =? 3)%nat) st) rest
          | CAbort _ => valid_from ncl (upd f (Some c, false) st) rest
          | CJoin _ | CGet _ | CDestroy _ => negb w3 && negb (pending_of c st) && valid_from ncl (upd f (Some c, w3) st) rest
          | _ => valid_from ncl (upd f (Some c, w3) st) rest
          end
      end
  end.
Definition valid_script (ncl nfut : nat) (ops : list (nat * cop)) : bool :=
  valid_from ncl (repeat (None, false) nfut) ops.
