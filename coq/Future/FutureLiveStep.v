(* C10, liveness (A): shape of one step; the case analysis shared by the preservation lemmas. *)
From Coq Require Import ZArith List Bool Lia Arith.
From Coq Require Import ZifyBool ZifyNat.
From Common Require Import ListAux.
From Future Require Import FutureModel FutureRingProofs FutureProofs FutureStep FutureLiveness FutureNested FutureLiveDefs.
Import ListNotations.
Local Open Scope Z_scope.

(* the ghost bookkeeping touches the futures only *)
Lemma ghost_ring_proj t s e :
  st_threads (ghost_ring t s e) = st_threads s /\ st_ring (ghost_ring t s e) = st_ring s /\
  st_enq (ghost_ring t s e) = st_enq s /\ st_deq (ghost_ring t s e) = st_deq s /\
  st_pushed (ghost_ring t s e) = st_pushed s /\ st_processed (ghost_ring t s e) = st_processed s /\
  st_tcount (ghost_ring t s e) = st_tcount s /\ st_mtx (ghost_ring t s e) = st_mtx s /\
  st_pool (ghost_ring t s e) = st_pool s /\ st_plock (ghost_ring t s e) = st_plock s.
Proof.
  destruct e as [tk v|tk|tk v]; cbn [ghost_ring]; try (repeat split; reflexivity).
  - destruct v; repeat split; reflexivity.
  - destruct (nth _ _ _); repeat split; reflexivity.
Qed.

Lemma ghost_fold_proj t revs : forall s,
  let s' := fold_left (ghost_ring t) revs s in
  st_threads s' = st_threads s /\ st_ring s' = st_ring s /\
  st_enq s' = st_enq s /\ st_deq s' = st_deq s /\
  st_pushed s' = st_pushed s /\ st_processed s' = st_processed s /\
  st_tcount s' = st_tcount s /\ st_mtx s' = st_mtx s /\
  st_pool s' = st_pool s /\ st_plock s' = st_plock s.
Proof.
  induction revs as [|e l IH]; intro s; cbn [fold_left]; [repeat split; reflexivity|].
  specialize (IH (ghost_ring t s e)). cbv zeta in *.
  destruct IH as (A1 & A2 & A3 & A4 & A5 & A6 & A7 & A8 & A9 & A10).
  destruct (ghost_ring_proj t s e) as (B1 & B2 & B3 & B4 & B5 & B6 & B7 & B8 & B9 & B10).
  repeat split; congruence.
Qed.

(* the state a step produces, seen through its projections *)
Record same_shared (s s' : state) : Prop := mkSame {
  ss_ring : st_ring s' = st_ring s; ss_enq : st_enq s' = st_enq s; ss_deq : st_deq s' = st_deq s;
  ss_pushed : st_pushed s' = st_pushed s; ss_processed : st_processed s' = st_processed s;
  ss_tcount : st_tcount s' = st_tcount s; ss_mtx : st_mtx s' = st_mtx s; ss_plock : st_plock s' = st_plock s
}.

Lemma pcs_goto s t p : pcs (goto s t p) = upd t p (pcs s).
Proof. unfold pcs, goto. cbn [st_threads set_threads]. now rewrite map_upd. Qed.

Lemma upd_same_nth {A} (l : list A) n d : upd n (nth n l d) l = l.
Proof.
  revert n; induction l as [|h t IH]; intros [|n]; cbn; auto. now rewrite IH.
Qed.

Lemma upd_upd {A} (l : list A) n x y : upd n y (upd n x l) = upd n y l.
Proof. revert n; induction l as [|h t IH]; intros [|n]; cbn; auto. now rewrite IH. Qed.

Lemma pcs_pop s t th : t_pc th = pc_of s t -> pcs (set_threads s (upd t th (st_threads s))) = pcs s.
Proof.
  intro E. unfold pcs. cbn [st_threads set_threads]. rewrite map_upd, E.
  unfold pc_of, get_thread. change (t_pc (nth t (st_threads s) dthread)) with ((fun x => t_pc x) (nth t (st_threads s) dthread)).
  rewrite <- map_nth. apply upd_same_nth.
Qed.

Lemma pcs_ghost t revs s : pcs (fold_left (ghost_ring t) revs s) = pcs s.
Proof. unfold pcs. now rewrite (proj1 (ghost_fold_proj t revs s)). Qed.

Lemma nthreads_pop s t th : nthreads (set_threads s (upd t th (st_threads s))) = nthreads s.
Proof. unfold nthreads. cbn. apply upd_length. Qed.

Lemma pc_of_pop s t th : (t < nthreads s)%nat -> pc_of (set_threads s (upd t th (st_threads s))) t = t_pc th.
Proof. intro H. unfold pc_of. rewrite get_thread_upd by exact H. now rewrite Nat.eqb_refl. Qed.

Lemma upd_app_l {A} (a b : list A) n x : (n < length a)%nat -> upd n x (a ++ b) = upd n x a ++ b.
Proof. revert n; induction a as [|h t IH]; intros [|n] H; cbn in *; try lia; auto. now rewrite IH by lia. Qed.

Lemma pcs_spawn s th : pcs (set_threads s (st_threads s ++ [th])) = pcs s ++ [t_pc th].
Proof. unfold pcs. cbn [st_threads set_threads]. now rewrite map_app. Qed.

Lemma pcs_same_upd s t : pcs s = upd t (pc_of s t) (pcs s).
Proof. rewrite <- nth_pcs. symmetry. apply upd_same_nth. Qed.

(* --- the case analysis ------------------------------------------------------------------ *)
(* Context expected: Hfix : c_fixed cfg = true, Hsig : c_sigfix cfg = true, Hnest : c_nested cfg = false,
   Hlt : (t < nthreads s)%nat, Hok : pc_ok (pc_of s t), Hs : step cfg s t clk = (s', evs).
   Leaves: Epc : pc_of s t = <constructor>, guards as hypotheses Eg*, Hs still an equation between pairs
   (use [fin Hs] to substitute s'). *)
Ltac kill_ifs Hs :=
  repeat match type of Hs with
         | context [if ?c then _ else _] => let E := fresh "Eg" in destruct c eqn:E
         end.

Ltac fin Hs :=
  match type of Hs with (_, _) = (?s', ?evs) =>
    let E1 := fresh "Es" in let E2 := fresh "Ee" in injection Hs as E1 E2; subst s' evs end.

Ltac clean_ok Hok :=
  try discriminate Hok;
  try match type of Hok with None = Some _ /\ _ => exfalso; destruct Hok as [Hok _]; discriminate Hok end;
  try match type of Hok with
      | Some ?v = Some ?j /\ _ /\ _ =>
          let E := fresh "Ev" in let Hc := fresh "Hcall" in let Hf := fresh "Hfine" in
          destruct Hok as (E & Hc & Hf); inversion E; subst; clear E;
          match type of Hc with is_call ?j0 => destruct j0 as [|? ? ? ?]; [contradiction|] end
      | Some ?v = Some JNull => inversion Hok; subst
      end.

Ltac split_step cfg s t Hs Hlt Hok Hfix Hsig Hnest :=
  unfold step in Hs;
  let L := fresh "L" in
  assert (L : (t <? length (st_threads s))%nat = true) by (apply Nat.ltb_lt; exact Hlt);
  rewrite L in Hs; clear L; cbn [negb] in Hs;
  change (t_pc (get_thread s t)) with (pc_of s t) in Hs;
  change (t_script (get_thread s t)) with (script_of s t) in Hs;
  rewrite ?Hfix, ?Hsig, ?Hnest in Hs; cbn [andb] in Hs;
  let Epc := fresh "Epc" in
  destruct (pc_of s t) eqn:Epc;
  [ (* PIdle *)
    let Esc := fresh "Esc" in
    destruct (script_of s t) as [|[? []] ?] eqn:Esc; unfold join_or, finish_join in Hs;
    rewrite ?Hnest in Hs; kill_ifs Hs;
    repeat match type of Hs with context [match ?a with AStart _ _ => _ | _ => _ end] => destruct a end
  | (* PDone *) idtac
  | (* PRing *)
    match goal with Epc : pc_of s t = PRing ?k ?r |- _ =>
      destruct r; destruct k; cbn [pc_ok push_job] in Hok; try contradiction; clean_ok Hok; try contradiction;
      cbn [ring_step] in Hs; kill_ifs Hs;
      cbn [after_push after_pop fold_left ghost_ring] in Hs; rewrite ?Hfix in Hs
    end
  | (* PFs *)
    match goal with Epc : pc_of s t = PFs ?k ?w ?o |- _ =>
      destruct o; cbn [fs_step] in Hs; kill_ifs Hs;
      destruct k; destruct w; cbn [pc_ok] in Hok; try contradiction; try (exfalso; intuition discriminate);
      cbn [after_fs] in Hs
    end
  | .. ];
  unfold join_or, finish_join in Hs; kill_ifs Hs;
  repeat match type of Hs with context [match ?a with AStart _ _ => _ | _ => _ end] => destruct a end;
  repeat match type of Hs with context [match ?j with JNull => _ | JCall _ _ _ _ => _ end] => let E := fresh "Ej" in destruct j eqn:E end.

(* a step that does not change the state *)
Ltac stutter H := lazymatch goal with |- _ ?X => is_var X; exact H end.

(* pcs of the term a leaf produces *)
Ltac pcs_base s t Epc :=
  first [ reflexivity
        | apply pcs_pop; cbn [t_pc]; symmetry; exact Epc
        | (etransitivity; [|apply pcs_pop; cbn [t_pc]; symmetry; exact Epc]); reflexivity ].

(* [leaf_pcs]: for a goal  C (term), adds  Hpcs : pcs term = upd t P (pcs s) [++ [worker_entry]]  *)
Ltac leaf_pcs s t Hlt Epc :=
  lazymatch goal with
  | |- _ (goto (set_threads s (st_threads s ++ [?th])) t ?P) =>
      assert (Hpcs : pcs (goto (set_threads s (st_threads s ++ [th])) t P) = upd t P (pcs s) ++ [t_pc th])
        by (rewrite pcs_goto, pcs_spawn; apply upd_app_l; rewrite pcs_length; exact Hlt)
  | |- _ (goto ?X t ?P) =>
      assert (Hpcs : pcs (goto X t P) = upd t P (pcs s)) by (rewrite pcs_goto; f_equal; pcs_base s t Epc)
  | |- _ ?X =>
      assert (Hpcs : pcs X = upd t (pc_of s t) (pcs s)) by (rewrite <- pcs_same_upd; pcs_base s t Epc)
  end.

(* rewrite every weighted sum over the new state into the old one + the moved thread, and compute
   the projections of the new state *)
Ltac norm_proj :=
  cbn [st_ring st_enq st_deq st_pushed st_processed st_tcount st_mtx st_pool st_plock st_futs
       goto set_threads set_mtx set_fs get_fs set_ring set_pushed set_processed set_tcount set_pool set_plock set_futs put_fut
       r_cap r_tail r_head r_log set_slot fs_state fs_flag] in *.

(* variant that keeps [set_slot] folded (for the clauses that look into the slots) *)
Lemma r_log_set_slot r t sl : r_log (set_slot r t sl) = r_log r. Proof. reflexivity. Qed.
Lemma r_head_set_slot r t sl : r_head (set_slot r t sl) = r_head r. Proof. reflexivity. Qed.
Lemma r_tail_set_slot r t sl : r_tail (set_slot r t sl) = r_tail r. Proof. reflexivity. Qed.
Lemma r_cap_set_slot r t sl : r_cap (set_slot r t sl) = r_cap r. Proof. reflexivity. Qed.

Ltac norm_proj_ns :=
  cbn [st_ring st_enq st_deq st_pushed st_processed st_tcount st_mtx st_pool st_plock st_futs
       goto set_threads set_mtx set_fs get_fs set_ring set_pushed set_processed set_tcount set_pool set_plock set_futs put_fut
       r_cap r_tail r_head r_log fs_state fs_flag] in *;
  rewrite ?r_log_set_slot, ?r_head_set_slot, ?r_tail_set_slot, ?r_cap_set_slot in *.

Ltac norm_rw_ns s t Hlt Epc :=
  match goal with
  | HP : pcs _ = upd t _ (pcs s) ++ _ |- _ => repeat rewrite (wsum_upd_app _ _ _ _ _ _ Hlt HP)
  | HP : pcs _ = upd t _ (pcs s) |- _ => repeat rewrite (wsum_upd _ _ _ _ _ Hlt HP)
  end;
  rewrite ?Epc; norm_proj_ns.

Ltac norm_rw s t Hlt Epc :=
  match goal with
  | HP : pcs _ = upd t _ (pcs s) ++ _ |- _ => repeat rewrite (wsum_upd_app _ _ _ _ _ _ Hlt HP)
  | HP : pcs _ = upd t _ (pcs s) |- _ => repeat rewrite (wsum_upd _ _ _ _ _ Hlt HP)
  end;
  rewrite ?Epc; norm_proj.

Ltac norm_leaf s t Hlt Epc :=
  leaf_pcs s t Hlt Epc;
  unfold cl_mtx, cl_plock, cl_tc, cl_tcpos, cl_shpre, cl_pq, cl_psi, cl_fs, cl_wke, cl_wkd, cl_rxe, cl_rxd, eff, growers;
  match goal with
  | HP : pcs _ = upd t _ (pcs s) ++ _ |- _ => repeat rewrite (wsum_upd_app _ _ _ _ _ _ Hlt HP)
  | HP : pcs _ = upd t _ (pcs s) |- _ => repeat rewrite (wsum_upd _ _ _ _ _ Hlt HP)
  end;
  rewrite ?Epc; norm_proj.

(* weights that look at the log do not notice an append: a reader's ticket is below the tail *)
Lemma popread_in_log cfg own s tr x k h :
  GInv cfg own s tr -> pc_of s x = PRing k (PopRead h) -> (Z.to_nat h < length (r_log (st_ring s)))%nat.
Proof.
  intros G E. pose proof (g_ring _ _ _ _ G) as RI. pose proof (popread_lt s x k h RI E) as H.
  pose proof (ri_log _ _ RI). lia.
Qed.

Lemma w_lnd_app cfg own s tr v :
  GInv cfg own s tr -> wsum (w_lnd (r_log (st_ring s) ++ [v])) s = wsum (w_lnd (r_log (st_ring s))) s.
Proof.
  intro G. apply wsum_ext. intros x Hx. destruct (pc_of s x) eqn:E; try reflexivity.
  destruct r; try reflexivity. pose proof (popread_in_log _ _ _ _ _ _ _ G E) as Hh.
  destruct k; cbn [w_lnd]; try reflexivity; now rewrite app_nth1.
Qed.

Lemma w_hold_app cfg own s tr v :
  GInv cfg own s tr -> wsum (w_hold (r_log (st_ring s) ++ [v])) s = wsum (w_hold (r_log (st_ring s))) s.
Proof.
  intro G. apply wsum_ext. intros x Hx. destruct (pc_of s x) eqn:E; try reflexivity.
  destruct r; try reflexivity. pose proof (popread_in_log _ _ _ _ _ _ _ G E) as Hh.
  destruct k; cbn [w_hold]; try reflexivity; now rewrite app_nth1.
Qed.

(* --- what the ring invariant says at the claim / read steps ------------------------------ *)
Lemma inflight_of s t k r : pc_of s t = PRing k r -> inflight s t = Some r.
Proof. intro E. unfold inflight. now rewrite E. Qed.

Lemma popread_data cfg own s tr t k h :
  GInv cfg own s tr -> pc_of s t = PRing k (PopRead h) ->
  s_data (get_slot (st_ring s) h) = Some (nth (Z.to_nat h) (r_log (st_ring s)) JNull).
Proof.
  intros G E. pose proof (ri_thr _ _ (g_ring _ _ _ _ G) t _ (inflight_of _ _ _ _ E)) as H.
  cbn [rpc_ok] in H. destruct H as (_ & _ & _ & _ & Hd). exact Hd.
Qed.

Lemma pushcas_facts cfg own s tr t k v t0 :
  GInv cfg own s tr -> pc_of s t = PRing k (PushCas v t0) -> (r_tail (st_ring s) =? t0) = true ->
  t0 = r_tail (st_ring s) /\ 0 <= r_head (st_ring s) <= r_tail (st_ring s) /\
  r_tail (st_ring s) = Z.of_nat (length (r_log (st_ring s))) /\ s_tail (get_slot (st_ring s) t0) = t0.
Proof.
  intros G E Eg. pose proof (g_ring _ _ _ _ G) as RI.
  pose proof (ri_thr _ _ RI t _ (inflight_of _ _ _ _ E)) as H. cbn [rpc_ok] in H.
  apply Z.eqb_eq in Eg. subst t0. destruct H as [_ H].
  split; [reflexivity|]. split; [apply (ri_head _ _ RI)|]. split; [apply (ri_log _ _ RI)|auto].
Qed.

Lemma popcas_facts cfg own s tr t k h :
  GInv cfg own s tr -> pc_of s t = PRing k (PopCas h) -> (r_head (st_ring s) =? h) = true ->
  h = r_head (st_ring s) /\ 0 <= r_head (st_ring s) < r_tail (st_ring s) /\
  r_tail (st_ring s) = Z.of_nat (length (r_log (st_ring s))) /\ published (st_ring s) h.
Proof.
  intros G E Eg. pose proof (g_ring _ _ _ _ G) as RI.
  pose proof (ri_thr _ _ RI t _ (inflight_of _ _ _ _ E)) as H. cbn [rpc_ok] in H.
  apply Z.eqb_eq in Eg. subst h. destruct H as [_ H]. specialize (H eq_refl).
  split; [reflexivity|]. pose proof (ri_head _ _ RI). destruct H as (Hlt & Hrest).
  split; [lia|]. split; [apply (ri_log _ _ RI)|]. split; [exact Hlt|exact Hrest].
Qed.

(* run between [split_step] and [fin]: brings the ring facts of the claim leaves into the context *)
Ltac ring_pre s t Hs G :=
  try match goal with
      | Epc : pc_of s t = PRing ?k (PopRead ?h) |- _ =>
          rewrite (popread_data _ _ _ _ _ _ _ G Epc) in Hs
      | Epc : pc_of s t = PRing ?k (PushCas ?v ?t0), Eg : (r_tail (st_ring s) =? ?t0) = true |- _ =>
          let F := fresh "Hring" in
          pose proof (pushcas_facts _ _ _ _ _ _ _ _ G Epc Eg) as F;
          let E := fresh "Et0" in destruct F as (E & F); subst t0
      | Epc : pc_of s t = PRing ?k (PopCas ?h), Eg : (r_head (st_ring s) =? ?h) = true |- _ =>
          let F := fresh "Hring" in
          pose proof (popcas_facts _ _ _ _ _ _ _ G Epc Eg) as F;
          let E := fresh "Eh0" in destruct F as (E & F); subst h
      end;
  repeat match goal with Ej : nth _ (r_log (st_ring (set_ring _ _))) JNull = _ |- _ => cbn [st_ring set_ring r_log] in Ej end.
