(* C10, liveness (A): the wake-up clause for producers waiting on a full queue. *)
From Coq Require Import ZArith List Bool Lia Arith.
From Coq Require Import ZifyBool ZifyNat.
From Common Require Import ListAux.
From Future Require Import FutureModel FutureRingProofs FutureProofs FutureStep FutureLiveness FutureNested FutureLiveDefs FutureLiveStep FutureLiveCnt FutureLiveWke.
Import ListNotations.
Local Open Scope Z_scope.

Lemma w_d_nonneg r p : 0 <= w_d r p.
Proof. destruct p; cbn [w_d]; try lia; case_w; try lia. destruct (_ || _); lia. Qed.

Lemma w_wait_nonneg p : 0 <= w_wait p.
Proof. destruct p; cbn [w_wait]; try lia; case_w; lia. Qed.

Lemma wsum_w_d_same s r r' :
  r_tail r' = r_tail r -> (forall h, s_tail (get_slot r' h) = s_tail (get_slot r h)) -> wsum (w_d r') s = wsum (w_d r) s.
Proof.
  intros Hh Hs. apply wsum_ext. intros x _. destruct (pc_of s x); cbn [w_d]; try reflexivity; case_w; try reflexivity.
  now rewrite Hh, Hs.
Qed.

Lemma w_popping_le_d tk r p : 0 <= w_popping tk p <= w_d r p.
Proof. destruct p; cbn [w_popping w_d]; try lia; case_w; try lia; try (destruct (_ =? _); lia); destruct (_ || _); lia. Qed.

Section Wkd.
  Variable cfg : config.
  Variable own : nat -> nat.
  Hypothesis Hfix : c_fixed cfg = true.
  Hypothesis Hsig : c_sigfix cfg = true.
  Hypothesis Hnest : c_nested cfg = false.

  Lemma step_wkd s tr t clk s' evs :
    (t < nthreads s)%nat -> GInv cfg own s tr -> LInv cfg s -> step cfg s t clk = (s', evs) -> cl_wkd s'.
  Proof.
    intros Hlt G L Hs. pose proof (l_pc _ _ L t) as Hok.
    pose proof (l_wkd _ _ L) as Hw. unfold cl_wkd in Hw.
    pose proof (wsum_member (w_d (st_ring s)) s t (w_d_nonneg _) Hlt) as M1.
    pose proof (wsum_member w_wait s t w_wait_nonneg Hlt) as M2.
    pose proof (wsum_nonneg w_wait s w_wait_nonneg) as N2.
    pose proof (g_ring _ _ _ _ G) as RI. pose proof (ri_head _ _ RI) as Hhd.
    split_step cfg s t Hs Hlt Hok Hfix Hsig Hnest; ring_pre constr:(s) constr:(t) Hs G; fin Hs; try (stutter (l_wkd _ _ L)).
    all: leaf_pcs constr:(s) constr:(t) Hlt Epc; unfold cl_wkd; norm_rw_ns constr:(s) constr:(t) Hlt Epc; cbn [w_d w_wait worker_entry t_pc] in *;
         rewrite ?Z.eqb_refl; cbn [orb].
    all: rewrite ?Z.sub_0_r, ?Z.add_0_r; try assumption.
    all: try lia.
    all: try (match goal with |- context [wsum (w_d ?R) _] =>
                lazymatch R with st_ring _ => fail | _ => idtac end;
                pose proof (wsum_nonneg (w_d R) s (w_d_nonneg R)) as N0;
                pose proof (wsum_member (w_d R) s t (w_d_nonneg R) Hlt) as M0;
                rewrite Epc in M0; cbn [w_d] in M0; rewrite ?Z.eqb_refl in M0; cbn [orb] in M0; lia end).
    1: { (* push2 finds the tail slot not released: its previous lap is still queued, or its reader is on the way to set() *)
      rewrite Eg in *. rewrite orb_false_r in *. intro Hne.
      destruct (Z.eqb_spec t0 (r_tail (st_ring s))) as [->|Eh]; [|specialize (Hw ltac:(lia)); lia].
      pose proof (ri_cap _ _ RI) as Hcap.
      destruct (l_rxd _ _ L (r_tail (st_ring s)) ltac:(lia)) as [Hp|[Hp|Hp]]; [apply Z.eqb_neq in Eg; contradiction|lia|].
      pose proof (wsum_member (fun p => w_d (st_ring s) p - w_popping (r_tail (st_ring s) - r_cap (st_ring s)) p) s t
                    (fun p => ltac:(pose proof (w_popping_le_d (r_tail (st_ring s) - r_cap (st_ring s)) (st_ring s) p); lia)) Hlt) as Hm.
      rewrite wsum_sub in Hm. cbv beta in Hm. rewrite Epc in Hm. cbn [w_d w_popping] in Hm.
      rewrite Z.eqb_refl in Hm. cbn [orb] in Hm. lia. }
    (* a producer writes / publishes its slot: nobody's view of the released slots changes *)
    all: rewrite (wsum_w_d_same s (st_ring s) (set_slot _ _ _));
      [ lia | reflexivity
      | intro h0; apply s_tail_set_slot; [apply (ri_cap _ _ RI)|apply (ri_len _ _ RI)|reflexivity] ].
  Qed.
End Wkd.
