(* C10, liveness (B), the fairness half: while a client is unfinished, every window of moves in which
   each existing thread is scheduled at least once contains a move that changes the state.  What is
   NOT proved here is the other half, a bound on the number of state-changing moves (the measure). *)
From Coq Require Import ZArith List Bool Lia Arith.
From Common Require Import ListAux.
From Future Require Import FutureModel FutureRingProofs FutureProofs FutureStep FutureTheorems FutureLiveness FutureNested
  FutureLiveDefs FutureLiveStep FutureLiveThr FutureLiveFut FutureLiveMain.
Import ListNotations.
Local Open Scope Z_scope.

(* number of moves of a schedule that change the state *)
Fixpoint effective_moves (cfg : config) (s : state) (sched : list move) : nat :=
  match sched with
  | [] => O
  | (t, clk) :: rest =>
      let s' := fst (step cfg s t clk) in
      ((if blocked s t then 0 else 1) + effective_moves cfg s' rest)%nat
  end.

Lemma exec_from_fst_step cfg s tr t clk rest :
  fst (exec_from cfg s tr ((t, clk) :: rest)) = fst (exec_from cfg (fst (step cfg s t clk)) [] rest).
Proof.
  cbn [exec_from]. destruct (step cfg s t clk) as [s' evs]. cbn [fst].
  generalize (rev evs ++ tr). generalize (@nil event). revert s'.
  induction rest as [|[t2 c2] r IH]; intros s' a b; [reflexivity|].
  cbn [exec_from]. destruct (step cfg s' t2 c2) as [s2 e2]. apply IH.
Qed.

(* a window that schedules a thread that is not blocked contains a state-changing move *)
Lemma window_has_effective_move cfg s t w :
  (t < nthreads s)%nat -> blocked s t = false -> In t (map fst w) -> (1 <= effective_moves cfg s w)%nat.
Proof.
  revert s. induction w as [|[x clk] rest IH]; intros s Ht Hb Hin; [destruct Hin|].
  cbn [effective_moves]. destruct (blocked s x) eqn:Ex; [|lia].
  rewrite (blocked_stutter cfg s x clk Ex). cbn [fst Nat.add].
  apply IH; auto. destruct Hin as [E|Hin]; [|exact Hin]. cbn in E. subst x. congruence.
Qed.

Lemma exec_from_state_indep cfg l : forall s tr tr', fst (exec_from cfg s tr l) = fst (exec_from cfg s tr' l).
Proof.
  induction l as [|[t c] r IH]; intros s tr tr'; [reflexivity|].
  cbn [exec_from]. destruct (step cfg s t c) as [s' evs]. apply IH.
Qed.

Lemma exec_from_app cfg a : forall b s tr,
  fst (exec_from cfg s tr (a ++ b)) = fst (exec_from cfg (fst (exec_from cfg s tr a)) [] b).
Proof.
  induction a as [|[t c] r IH]; intros b s tr; cbn [app exec_from]; [cbn [fst]; apply exec_from_state_indep|].
  destruct (step cfg s t c) as [s' evs]. apply IH.
Qed.

Lemma effective_moves_app cfg a : forall b s,
  effective_moves cfg s (a ++ b) = (effective_moves cfg s a + effective_moves cfg (fst (exec_from cfg s [] a)) b)%nat.
Proof.
  induction a as [|[t c] r IH]; intros b s; [reflexivity|].
  cbn [app effective_moves]. rewrite IH. rewrite Nat.add_assoc. f_equal. f_equal. symmetry. apply exec_from_fst_step.
Qed.

(* a fair sequence of windows: every window schedules every thread that exists when the window begins *)
Fixpoint fair_windows (cfg : config) (s : state) (ws : list (list move)) : Prop :=
  match ws with
  | [] => True
  | w :: rest =>
      (forall t, (t < nthreads s)%nat -> In t (map fst w)) /\ fair_windows cfg (fst (exec_from cfg s [] w)) rest
  end.

(* a step leaves the program counters of the other threads alone *)
Definition others_same (s : state) (t : nat) (s' : state) : Prop :=
  forall x, x <> t -> (x < nthreads s)%nat -> pc_of s' x = pc_of s x.

Section Frame.
  Variable cfg : config.
  Hypothesis Hfix : c_fixed cfg = true.
  Hypothesis Hsig : c_sigfix cfg = true.
  Hypothesis Hnest : c_nested cfg = false.

  Lemma step_others_same s t clk s' evs :
    (t < nthreads s)%nat -> pc_ok (pc_of s t) -> step cfg s t clk = (s', evs) -> others_same s t s'.
  Proof.
    intros Hlt Hok Hs.
    split_step cfg s t Hs Hlt Hok Hfix Hsig Hnest; fin Hs; try (intros x _ _; reflexivity).
    all: leaf_pcs constr:(s) constr:(t) Hlt Epc; get_pcs_facts constr:(s) constr:(t) Hlt; exact Foth.
  Qed.
End Frame.

(* a finished client stays finished *)
Lemma unfinished_before cfg s t clk :
  c_fixed cfg = true -> c_sigfix cfg = true -> c_nested cfg = false -> LInv cfg s ->
  client_unfinished cfg (fst (step cfg s t clk)) = true -> client_unfinished cfg s = true.
Proof.
  intros Hfix Hsig Hnest L H.
  destruct (client_unfinished_spec _ _ H) as (x & Hx & Hnd).
  unfold client_unfinished. apply existsb_exists. exists x. split; [apply in_seq; lia|].
  change (t_pc (get_thread s x)) with (pc_of s x).
  destruct (pc_of s x) eqn:Ex; try reflexivity. exfalso. apply Hnd.
  destruct (Nat.lt_ge_cases t (nthreads s)) as [Hlt|Hge].
  2:{ unfold step. destruct (Nat.ltb_spec t (length (st_threads s))); [unfold nthreads in Hge; lia|exact Ex]. }
  destruct (Nat.eq_dec x t) as [->|Hne].
  - unfold step. destruct (Nat.ltb_spec t (length (st_threads s))) as [_|H0]; [|exact Ex]. cbn [negb].
    change (t_pc (get_thread s t)) with (pc_of s t). rewrite Ex. exact Ex.
  - destruct (step cfg s t clk) as [s' evs] eqn:Es. cbn [fst] in *.
    pose proof (l_ncl _ _ L) as Hn. unfold cl_ncl in Hn.
    rewrite (step_others_same cfg Hfix Hsig Hnest s t clk s' evs Hlt (l_pc _ _ L t) Es x Hne ltac:(lia)). exact Ex.
Qed.

Lemma unfinished_before_sched cfg l : forall s,
  c_fixed cfg = true -> c_sigfix cfg = true -> c_nested cfg = false ->
  forall own tr, wf_cfg cfg own -> 0 <= c_min cfg -> 2 <= c_max cfg ->
  GInv cfg own s tr -> LInv cfg s ->
  client_unfinished cfg (fst (exec_from cfg s [] l)) = true -> client_unfinished cfg s = true.
Proof.
  induction l as [|[t c] r IH]; intros s Hfix Hsig Hnest own tr W Hmin Hmax G L H; [exact H|].
  rewrite exec_from_fst_step in H.
  destruct (step cfg s t c) as [s' evs] eqn:Es. cbn [fst] in H.
  assert (G' : GInv cfg own s' (rev evs ++ tr)) by exact (step_inv cfg own s tr t c s' evs W G Es).
  assert (L' : LInv cfg s') by exact (step_linv cfg own Hfix Hsig Hnest Hmin Hmax s tr t c s' evs G L Es).
  specialize (IH s' Hfix Hsig Hnest own _ W Hmin Hmax G' L' H).
  apply (unfinished_before cfg s t c Hfix Hsig Hnest L). rewrite Es. exact IH.
Qed.

Section Fair.
  Variable cfg : config.
  Variable own : nat -> nat.
  Hypothesis W : wf_cfg cfg own.
  Hypothesis Hfix : c_fixed cfg = true.
  Hypothesis Hsig : c_sigfix cfg = true.
  Hypothesis Hterm : terminating_scripts cfg = true.
  Hypothesis Hmin : 0 <= c_min cfg.
  Hypothesis Hmax : 2 <= c_max cfg.

  (* while a client is unfinished, every fair window contains a move that changes the state *)
  Theorem fair_window_moves sched w :
    let s := fst (exec cfg sched) in
    client_unfinished cfg s = true ->
    (forall t, (t < nthreads s)%nat -> In t (map fst w)) ->
    (1 <= effective_moves cfg s w)%nat.
  Proof.
    intros s Hcu Hfair.
    destruct (some_thread_moves_lemma cfg own sched W Hfix Hsig Hterm Hmin Hmax Hcu) as (t & Ht & Hb & _).
    exact (window_has_effective_move cfg s t w Ht Hb (Hfair t Ht)).
  Qed.

  (* n fair windows after a reachable state, with a client still unfinished at the end: at least n
     state-changing moves *)
  Theorem fair_progress_lemma ws : forall sched,
    let s := fst (exec cfg sched) in
    fair_windows cfg s ws ->
    client_unfinished cfg (fst (exec_from cfg s [] (concat ws))) = true ->
    (length ws <= effective_moves cfg s (concat ws))%nat.
  Proof.
    destruct W as (Wc & Wo & Wn).
    induction ws as [|w rest IH]; intros sched s Hfair Hcu; [cbn; lia|].
    cbn [concat length] in *. destruct Hfair as [Hw Hrest].
    rewrite effective_moves_app. rewrite exec_from_app in Hcu.
    assert (Es : fst (exec_from cfg s [] w) = fst (exec cfg (sched ++ w))).
    { unfold exec. rewrite exec_from_app. reflexivity. }
    rewrite Es in *.
    specialize (IH (sched ++ w) Hrest Hcu).
    assert (Hcu0 : client_unfinished cfg s = true).
    { pose proof (exec_inv cfg own sched W) as G. pose proof (exec_linv cfg own W Hfix Hsig Hterm Hmin Hmax sched) as L.
      assert (Hcu1 : client_unfinished cfg (fst (exec cfg (sched ++ w))) = true).
      { pose proof (exec_inv cfg own (sched ++ w) W) as G1.
        pose proof (exec_linv cfg own W Hfix Hsig Hterm Hmin Hmax (sched ++ w)) as L1.
        eapply (unfinished_before_sched cfg (concat rest)); eauto. }
      rewrite <- Es in Hcu1.
      eapply (unfinished_before_sched cfg w); eauto. }
    pose proof (fair_window_moves sched w Hcu0 Hw). fold s in H. lia.
  Qed.
End Fair.

(* ---------------------------------------------------------------------------------------- *)
(* why the measure cannot simply count state-changing moves: a worker that spins            *)
(* ---------------------------------------------------------------------------------------- *)
(* FastSignal::set() of the client (testAndSet(_state), then _signal.set()) interleaved with the
   reset() of a worker (swap(_state,0), _signal.reset(), re-check) can leave _state == 0 with the inner
   Signal set.  A worker that finds the queue empty then runs pop - reset (nothing to do, _state is 0) -
   pop - wait (returns at once, the inner Signal is set) round and round: each of these moves changes the
   state (its program counter), and after 7 of them the state is the same again.  No join waits for it,
   but no function of the state can decrease at every state-changing move. *)
Definition sp_cfg : config :=
  mkConfig 4 0 3 false 2
    [[(0, CStart 0 1 0); (1, CStart 1 2 0); (2, CJoin 0); (3, CJoin 1); (4, CJoin 0); (5, CJoin 1)]%nat]
    (fun a => 7 * a + 3) true true false.
Definition sp_sched : list move := repeat (0%nat, false) 31 ++ repeat (1%nat, false) 28.

Lemma sp_wf : wf_cfg sp_cfg (fun _ => 0%nat).
Proof.
  split; [reflexivity|]. split; [|reflexivity]. intros c f (i & op & Hin & Hop). destruct c as [|c].
  - cbn in Hin |- *.
    repeat (destruct Hin as [E|Hin]; [inversion E; subst; cbn in Hop; inversion Hop; split; [lia|reflexivity]|]).
    contradiction.
  - cbn in Hin. destruct c; contradiction.
Qed.

Theorem spin_cycle_lemma :
  exists cfg own sched t n,
    wf_cfg cfg own /\ c_fixed cfg = true /\ c_sigfix cfg = true /\ terminating_scripts cfg = true /\
    0 <= c_min cfg /\ 2 <= c_max cfg /\
    let s := fst (exec cfg sched) in
    (0 < n)%nat /\ effective_moves cfg s (repeat (t, false) n) = n /\
    fst (exec_from cfg s [] (repeat (t, false) n)) = s.
Proof.
  exists sp_cfg, (fun _ => 0%nat), sp_sched, 2%nat, 7%nat.
  split; [apply sp_wf|]. split; [reflexivity|]. split; [reflexivity|]. split; [reflexivity|].
  split; [cbn; lia|]. split; [cbn; lia|]. cbv zeta. split; [lia|]. split; vm_compute; reflexivity.
Qed.

(* statements in the order used by Properties_C10.v *)
Lemma fair_window_lemma cfg own sched w :
  wf_cfg cfg own -> c_fixed cfg = true -> c_sigfix cfg = true -> terminating_scripts cfg = true ->
  0 <= c_min cfg -> 2 <= c_max cfg ->
  let s := fst (exec cfg sched) in
  client_unfinished cfg s = true ->
  (forall t, (t < nthreads s)%nat -> In t (map fst w)) ->
  (1 <= effective_moves cfg s w)%nat.
Proof. intros. now apply (fair_window_moves cfg own). Qed.

Lemma fair_progress_stmt cfg own sched ws :
  wf_cfg cfg own -> c_fixed cfg = true -> c_sigfix cfg = true -> terminating_scripts cfg = true ->
  0 <= c_min cfg -> 2 <= c_max cfg ->
  let s := fst (exec cfg sched) in
  fair_windows cfg s ws ->
  client_unfinished cfg (fst (exec_from cfg s [] (concat ws))) = true ->
  (length ws <= effective_moves cfg s (concat ws))%nat.
Proof. intros. now apply (fair_progress_lemma cfg own). Qed.

Lemma effective_move_changes_state cfg s t clk :
  effective_moves cfg s [(t, clk)] = 1%nat -> fst (step cfg s t clk) <> s.
Proof.
  cbn [effective_moves]. destruct (blocked s t) eqn:E; [cbn; lia|]. intros _.
  destruct (Nat.lt_ge_cases t (nthreads s)) as [H|H]; [now apply unblocked_moves|].
  unfold blocked in E. destruct (Nat.ltb_spec t (length (st_threads s))); [unfold nthreads in H; lia|discriminate].
Qed.
