From Coq Require Extraction ExtrOcamlBasic.
From Common Require Import Words.
From Future Require Import FutureModel FutureSpec.
Extraction Language OCaml.
Extraction "model.ml" anchor init step blocked exec all_blocked client_unfinished hooked eff_cap eff_max
  spec_run valid_script sfut_init.
