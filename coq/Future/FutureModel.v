(* Executable interleaving model of src/Future.cpp + Future.hpp (C10).  No proofs in this file.

   A schedule is a list of moves (thread id, clock bit).  Every thread is a program counter over
   the ATOMIC STEPS of the code in the code's order: one shared-memory access (plain volatile
   read/write, __sync builtin, or one Signal/Mutex call) per step.  Sequential consistency.

   Abstractions (all named in the check's level_note):
   - Signal (pthread mutex + condition variable + flag) is a boolean flag with atomic set / reset and
     a wait that passes iff the flag is set (a wait step on a cleared flag is a stutter: this covers
     blocking and spurious wake-ups).  Its own correctness is property C11.
   - Time::ticks() is not modelled: the test `(ticks>>10) - _idleResetTime > 1` is the clock bit
     of the move (chosen by the environment), `_idleResetTime` writes are dropped.
   - The worker list `_threads` / `_terminated` (bookkeeping for Thread objects) is not modelled.
   - counters are unbounded integers (no wrap at 2^64).
   - `delete` of a Future = its destructor (join) followed by EvDestroy; the object is not used
     again (the check's driver gives the object created afterwards a fresh future index).
     ~Future<A>() { join(); } is followed by the destruction of the members in reverse order: first
     `result` (the slot WStore writes), then the inner Future<void>, whose own destructor calls join()
     again and finds _joinable false.  EvDestroy stands for the end of all of that: everything after the
     one join that waits.  (A ~Future<A> WITHOUT its join() would destroy `result` before the inner
     join waits - not this model; the harness drives a Future<String> for it.)
   Fields marked GHOST are history variables: no decision of the model reads them. *)
From Coq Require Import ZArith List Bool Lia.
From Common Require Import ListAux.
Import ListNotations.
Local Open Scope Z_scope.

(* ------------------------------------------------------------------------------------------ *)
(* jobs, ring                                                                                  *)
(* ------------------------------------------------------------------------------------------ *)

Inductive job :=
| JNull                                                 (* {0,0}: retire one worker *)
| JCall (f : nat) (n : nat) (arg : Z) (work : nat).     (* n-th start of future f *)

Record slot := mkSlot { s_tail : Z; s_head : Z; s_data : option job }.

Record ring := mkRing {
  r_cap : Z;               (* _capacity (power of two in the code; any positive number here) *)
  r_tail : Z;              (* _tail *)
  r_head : Z;              (* _head *)
  r_slots : list slot;     (* _queue[0.._capacity) *)
  r_log : list job         (* GHOST: value pushed under ticket 0,1,2,... (appended at the _tail CAS) *)
}.

Definition dslot : slot := mkSlot 0 0 None.
Definition idx (r : ring) (t : Z) : nat := Z.to_nat (t mod r_cap r).
Definition get_slot (r : ring) (t : Z) : slot := nth (idx r t) (r_slots r) dslot.
Definition set_slot (r : ring) (t : Z) (s : slot) : ring :=
  mkRing (r_cap r) (r_tail r) (r_head r) (upd (idx r t) s (r_slots r)) (r_log r).

Definition ring_init (cap : Z) : ring :=
  mkRing cap 0 0 (map (fun i => mkSlot (Z.of_nat i) (-1) None) (seq 0 (Z.to_nat cap))) [].

(* program counter inside LockFreeQueue::push / pop *)
Inductive rpc :=
| PushRdTail (v : job)                 (* tail = _tail *)
| PushRdSlot (v : job) (t : Z)         (* node->tail != tail ? *)
| PushCas (v : job) (t : Z)            (* compareAndSwap(_tail, tail, tail+1) *)
| PushWrite (v : job) (t : Z)          (* new (&node->data) T(data) *)
| PushPublish (v : job) (t : Z)        (* swap(node->head, tail) *)
| PopRdHead
| PopRdSlot (h : Z)
| PopCas (h : Z)
| PopRead (h : Z)                      (* result = node->data *)
| PopRelease (h : Z) (v : job)         (* swap(node->tail, head + _capacity) *)
| PushRet (b : bool)
| PopRet (r : option job).

Inductive revt := RPushClaim (t : Z) (v : job) | RPopClaim (t : Z) | RPopRead (t : Z) (v : job).

Definition ring_step (r : ring) (p : rpc) : ring * rpc * list revt :=
  match p with
  | PushRdTail v => (r, PushRdSlot v (r_tail r), [])
  | PushRdSlot v t =>
      if s_tail (get_slot r t) =? t then (r, PushCas v t, []) else (r, PushRet false, [])
  | PushCas v t =>
      if r_tail r =? t
      then (mkRing (r_cap r) (t + 1) (r_head r) (r_slots r) (r_log r ++ [v]), PushWrite v t, [RPushClaim t v])
      else (r, PushRdSlot v (r_tail r), [])
  | PushWrite v t =>
      let sl := get_slot r t in
      (set_slot r t (mkSlot (s_tail sl) (s_head sl) (Some v)), PushPublish v t, [])
  | PushPublish v t =>
      let sl := get_slot r t in
      (set_slot r t (mkSlot (s_tail sl) t (s_data sl)), PushRet true, [])
  | PopRdHead => (r, PopRdSlot (r_head r), [])
  | PopRdSlot h =>
      if s_head (get_slot r h) =? h then (r, PopCas h, []) else (r, PopRet None, [])
  | PopCas h =>
      if r_head r =? h
      then (mkRing (r_cap r) (r_tail r) (h + 1) (r_slots r) (r_log r), PopRead h, [RPopClaim h])
      else (r, PopRdSlot (r_head r), [])
  | PopRead h =>
      let v := match s_data (get_slot r h) with Some v => v | None => JNull end in
      (r, PopRelease h v, [RPopRead h v])
  | PopRelease h v =>
      let sl := get_slot r h in
      (set_slot r h (mkSlot (h + r_cap r) (s_head sl) (s_data sl)), PopRet (Some v), [])
  | PushRet _ => (r, p, [])
  | PopRet _ => (r, p, [])
  end.

(* ------------------------------------------------------------------------------------------ *)
(* FastSignal                                                                                  *)
(* ------------------------------------------------------------------------------------------ *)

Record fsig := mkFs { fs_state : bool;      (* _state (0/1) *)
                      fs_flag : bool }.     (* _signal.signaled *)
Inductive which := Enq | Deq.
Inductive fsop := FSet1 | FSet2 | FReset1 | FReset2 | FReset3 | FWait1 | FWait2.

(* one step of a FastSignal operation: new signal, Some next micro-op / None = returned.
   [fx] = the code after fixes/C10/02 (reset() re-checks _state after the inner reset);
   [fx = false] is the code as it was, kept for the refutation theorem only. *)
Definition fs_step (fx : bool) (g : fsig) (o : fsop) : fsig * option fsop :=
  match o with
  | FSet1 => (mkFs true (fs_flag g), if fs_state g then None else Some FSet2)     (* testAndSet(_state) == 0 ? *)
  | FSet2 => (mkFs (fs_state g) true, None)                                       (* _signal.set() *)
  | FReset1 => (mkFs false (fs_flag g), if fs_state g then Some FReset2 else None) (* swap(_state,0) == 1 ? *)
  | FReset2 => (mkFs (fs_state g) false, if fx then Some FReset3 else None)      (* _signal.reset() *)
  | FReset3 => (g, if fs_state g then Some FSet2 else None)                       (* if (load(_state)) _signal.set() *)
  | FWait1 => (g, if fs_state g then None else Some FWait2)                       (* load(_state) ? *)
  | FWait2 => (g, if fs_flag g then None else Some FWait2)                        (* _signal.wait() *)
  end.

(* ------------------------------------------------------------------------------------------ *)
(* futures, client scripts, threads                                                            *)
(* ------------------------------------------------------------------------------------------ *)

Inductive fstate := StIdle | StRunning | StFinished | StAborted.

Inductive phase :=            (* GHOST: where the current call of a future is *)
| PhIdle                      (* not joinable *)
| PhStarted                   (* _joinable set, job not yet in the ring *)
| PhQueued (t : Z)            (* pushed under ticket t *)
| PhTaken (w : nat)           (* ticket claimed by worker w *)
| PhRan (w : nat)             (* the function has been called *)
| PhCompleted (w : nat)       (* _state swapped *)
| PhSignalled.                (* _sig set *)

Record fut := mkFut {
  f_sig : bool;               (* _sig.signaled *)
  f_aborting : bool;          (* _aborting *)
  f_state : fstate;           (* _state *)
  f_joinable : bool;          (* _joinable (owner only) *)
  f_result : option Z;        (* Future<A>::result; None = never written *)
  f_serial : nat;             (* GHOST: number of starts *)
  f_phase : phase             (* GHOST *)
}.
Definition fut_init : fut := mkFut false false StIdle false None 0 PhIdle.

Inductive cop :=
| CStart (f : nat) (arg : Z) (work : nat)   (* work 3 = the function polls isAborting() until set *)
| CAbort (f : nat)
| CJoin (f : nat)
| CGet (f : nat)                            (* operator const A&: join, then read result *)
| CCheck (f : nat)
| CPause
| CDestroy (f : nat)                        (* ~Future: join(); the object is gone afterwards (delete) *)
| CResume (f n : nat) (v : Z).              (* not a script operation: return address of a started function
                                               that itself started a future (c_nested only), see WCall *)

Inductive after := AStart (arg : Z) (work : nat) | AJoin | AGet | ADestroy.

Inductive kont :=
| KRunPush1 (j : job) | KRunPush2 (j : job) | KRunReset (j : job) | KRunWait (j : job) | KRunSet
| KShrinkPush | KShrinkSet
| KWPop1 | KWPop2 | KWReset | KWWait | KWRearm (j : job) | KWSet (j : job).

Inductive pc :=
| PIdle                                  (* client between two script operations *)
| PDone                                  (* thread has ended *)
| PRing (k : kont) (r : rpc)             (* inside push/pop *)
| PFs (k : kont) (w : which) (o : fsop)  (* inside FastSignal set/reset/wait *)
(* Future<void>::startProc *)
| CSpin (f : nat) (arg : Z) (work : nat)       (* while(testAndSet(_threadPoolLock) != 0); *)
| CRecheck (f : nat) (arg : Z) (work : nat)    (* threadPool = _threadPool *)
| CSwapPool (f : nat) (arg : Z) (work : nat)   (* swap(_threadPool, new ThreadPool) *)
| CUnlockPool (f : nat) (arg : Z) (work : nat) (* _threadPoolLock = 0 *)
| CJoinWait (f : nat) (a : after)              (* _sig.wait() *)
| CJoinReset (f : nat) (a : after)             (* _sig.reset(); _joinable = false *)
| CStartSet (f : nat) (arg : Z) (work : nat)   (* _joinable = true; _aborting = false *)
(* ThreadPool::run after the push *)
| CInc                                   (* increment(_pushedJobs) *)
| CRdProc (pushed : Z)                   (* read _processedJobs *)
| CRdTc (pushed processed : Z)           (* read _threadCount (+ clock) *)
| CGrowLock | CGrowInc | CGrowUnlock (ctx : bool) | CSpawn
| CShrinkLock | CShrinkChk | CShrinkDec | CShrinkUnlock
(* ThreadContext::proc after the pop + Future<A>::proc *)
| WCall (f n : nat) (arg : Z) (work : nat)     (* b->call() *)
| WStore (f n : nat) (v : Z)                   (* result = ... *)
| WRdAbort (f n : nat)                         (* read _aborting *)
| WSwap (f n : nat) (ab : bool)                (* swap(_state, ...) *)
| WSigSet (f n : nat)                          (* _sig.set(): lock; signaled = true; [broadcast;] unlock *)
| WIncProc                                     (* increment(_processedJobs) *)
| WBcast (f n : nat).                          (* Signal::set() as it was before fixes/C10/04: the
                                                  pthread_cond_broadcast on the Future's condition
                                                  variable AFTER the mutex has been released *)

Record thread := mkThread { t_pc : pc; t_script : list (nat * cop); t_cur : nat }.

Inductive obs :=
| OStart (f n : nat)
| OAbort (f n : nat)
| OJoin (f : nat) (n : option nat)
| OGet (f : nat) (n : option nat) (v : option Z)
| OCheck (f n : nat) (st : fstate) (ab : bool)
| OPause
| ODestroy (f : nat) (n : option nat).

Inductive event :=
| EvStart (c f n : nat) (arg : Z) (work : nat)
| EvAbort (c f n : nat)
| EvPushClaim (t : nat) (ticket : Z) (j : job)
| EvPopClaim (t : nat) (ticket : Z)
| EvPopRead (t : nat) (ticket : Z) (j : job)
| EvRun (w f n : nat) (arg : Z)
| EvStore (f n : nat) (v : Z)
| EvComplete (f n : nat) (aborted : bool)
| EvSigSet (f n : nat)
| EvJoinRet (c f n : nat)
| EvObs (c : nat) (op : nat) (o : obs)
| EvSpawn (c w : nat)
| EvShrink (c : nat)
| EvExit (w : nat)
| EvBcast (w f n : nat)                 (* late broadcast (only with c_sigfix = false) *)
| EvDestroy (c f : nat) (clean : bool). (* ~Future has returned; clean = no worker still holds or uses
                                           the call record / the Future (GHOST, see fut_unused) *)

Record config := mkConfig {
  c_cap : Z;                               (* effective queue capacity (after rounding) *)
  c_min : Z; c_max : Z;                    (* _minThreads, _maxThreads (after the >= 3 adjustment) *)
  c_lazy : bool;                           (* pool created lazily by the first start *)
  c_nfut : nat;
  c_scripts : list (list (nat * cop));     (* one script per client thread; ops carry their index *)
  c_fn : Z -> Z;                           (* the started function (argument -> return value) *)
  c_fixed : bool;                          (* true: the code after fixes/C10/01-03 (what the tree is
                                              now); false: the sleep/wake handshake as it was (only
                                              used by the refutation theorems) *)
  c_sigfix : bool;                         (* true: Signal::set() broadcasts while it holds the mutex
                                              (fixes/C10/04); false: it unlocked first, as it was (only
                                              used by the refutation theorem) *)
  c_nested : bool                          (* true: a started function with work >= 4 starts future
                                              (work - 4) itself ("started from any threads"); the safety
                                              theorems are stated for c_nested = false *)
}.

Record state := mkState {
  st_ring : ring;
  st_enq : fsig;               (* _enqueuedSignal *)
  st_deq : fsig;               (* _dequeuedSignal *)
  st_pushed : Z; st_processed : Z; st_tcount : Z;
  st_mtx : bool;               (* ThreadPool::_mutex held *)
  st_pool : bool;              (* _threadPool != 0 *)
  st_plock : bool;             (* _threadPoolLock *)
  st_futs : list fut;
  st_threads : list thread
}.

(* least power of two >= q (LockFreeQueue constructor), for 1 <= q <= 2^31 *)
Fixpoint pow2_ge (fuel : nat) (p q : Z) : Z :=
  match fuel with O => p | S k => if q <=? p then p else pow2_ge k (2 * p) q end.
Definition eff_cap (q : Z) : Z := pow2_ge 32 1 q.
Definition eff_max (m : Z) : Z := if m <? 3 then 3 else m.

Definition init (cfg : config) : state :=
  mkState (ring_init (c_cap cfg)) (mkFs false false) (mkFs false false) 0 0 0 false (negb (c_lazy cfg)) false
          (repeat fut_init (c_nfut cfg))
          (map (fun sc => mkThread PIdle sc 0%nat) (c_scripts cfg)).

(* ---- setters ---- *)
Definition set_ring (s : state) (r : ring) : state :=
  mkState r (st_enq s) (st_deq s) (st_pushed s) (st_processed s) (st_tcount s) (st_mtx s) (st_pool s) (st_plock s) (st_futs s) (st_threads s).
Definition set_fs (s : state) (w : which) (g : fsig) : state :=
  match w with
  | Enq => mkState (st_ring s) g (st_deq s) (st_pushed s) (st_processed s) (st_tcount s) (st_mtx s) (st_pool s) (st_plock s) (st_futs s) (st_threads s)
  | Deq => mkState (st_ring s) (st_enq s) g (st_pushed s) (st_processed s) (st_tcount s) (st_mtx s) (st_pool s) (st_plock s) (st_futs s) (st_threads s)
  end.
Definition get_fs (s : state) (w : which) : fsig := match w with Enq => st_enq s | Deq => st_deq s end.
Definition set_pushed (s : state) (v : Z) : state :=
  mkState (st_ring s) (st_enq s) (st_deq s) v (st_processed s) (st_tcount s) (st_mtx s) (st_pool s) (st_plock s) (st_futs s) (st_threads s).
Definition set_processed (s : state) (v : Z) : state :=
  mkState (st_ring s) (st_enq s) (st_deq s) (st_pushed s) v (st_tcount s) (st_mtx s) (st_pool s) (st_plock s) (st_futs s) (st_threads s).
Definition set_tcount (s : state) (v : Z) : state :=
  mkState (st_ring s) (st_enq s) (st_deq s) (st_pushed s) (st_processed s) v (st_mtx s) (st_pool s) (st_plock s) (st_futs s) (st_threads s).
Definition set_mtx (s : state) (v : bool) : state :=
  mkState (st_ring s) (st_enq s) (st_deq s) (st_pushed s) (st_processed s) (st_tcount s) v (st_pool s) (st_plock s) (st_futs s) (st_threads s).
Definition set_pool (s : state) (v : bool) : state :=
  mkState (st_ring s) (st_enq s) (st_deq s) (st_pushed s) (st_processed s) (st_tcount s) (st_mtx s) v (st_plock s) (st_futs s) (st_threads s).
Definition set_plock (s : state) (v : bool) : state :=
  mkState (st_ring s) (st_enq s) (st_deq s) (st_pushed s) (st_processed s) (st_tcount s) (st_mtx s) (st_pool s) v (st_futs s) (st_threads s).
Definition set_futs (s : state) (v : list fut) : state :=
  mkState (st_ring s) (st_enq s) (st_deq s) (st_pushed s) (st_processed s) (st_tcount s) (st_mtx s) (st_pool s) (st_plock s) v (st_threads s).
Definition set_threads (s : state) (v : list thread) : state :=
  mkState (st_ring s) (st_enq s) (st_deq s) (st_pushed s) (st_processed s) (st_tcount s) (st_mtx s) (st_pool s) (st_plock s) (st_futs s) v.

Definition dthread : thread := mkThread PDone [] 0%nat.
Definition get_thread (s : state) (t : nat) : thread := nth t (st_threads s) dthread.
Definition goto (s : state) (t : nat) (p : pc) : state :=
  let th := get_thread s t in
  set_threads s (upd t (mkThread p (t_script th) (t_cur th)) (st_threads s)).
Definition get_fut (s : state) (f : nat) : fut := nth f (st_futs s) fut_init.
Definition put_fut (s : state) (f : nat) (x : fut) : state := set_futs s (upd f x (st_futs s)).

Definition fut_sig (x : fut) (b : bool) := mkFut b (f_aborting x) (f_state x) (f_joinable x) (f_result x) (f_serial x) (f_phase x).
Definition fut_aborting (x : fut) (b : bool) := mkFut (f_sig x) b (f_state x) (f_joinable x) (f_result x) (f_serial x) (f_phase x).
Definition fut_state (x : fut) (v : fstate) := mkFut (f_sig x) (f_aborting x) v (f_joinable x) (f_result x) (f_serial x) (f_phase x).
Definition fut_result (x : fut) (v : option Z) := mkFut (f_sig x) (f_aborting x) (f_state x) (f_joinable x) v (f_serial x) (f_phase x).
Definition fut_phase (x : fut) (p : phase) := mkFut (f_sig x) (f_aborting x) (f_state x) (f_joinable x) (f_result x) (f_serial x) p.

(* ---- continuations ---- *)
Definition worker_entry : pc := PRing KWPop1 PopRdHead.

Definition after_push (k : kont) (b : bool) : pc :=
  match k with
  | KRunPush1 j => if b then PFs KRunSet Enq FSet1 else PFs (KRunReset j) Deq FReset1
  | KRunPush2 j => if b then PFs KRunSet Enq FSet1 else PFs (KRunWait j) Deq FWait1
  | KShrinkPush => if b then CShrinkDec else CShrinkUnlock
  | _ => PDone
  end.

Definition after_pop (fx : bool) (k : kont) (r : option job) : pc :=
  match k with
  | KWPop1 => match r with Some j => PFs (KWSet j) Deq FSet1 | None => PFs KWReset Enq FReset1 end
  | KWPop2 => match r with
              | Some j => if fx then PFs (KWRearm j) Enq FSet1     (* fixes/C10/01: enqueuedSignal.set() again *)
                          else PFs (KWSet j) Deq FSet1
              | None => PFs KWWait Enq FWait1
              end
  | _ => PDone
  end.

Definition after_fs (k : kont) : pc :=
  match k with
  | KRunReset j => PRing (KRunPush2 j) (PushRdTail j)
  | KRunWait j => PRing (KRunPush1 j) (PushRdTail j)
  | KRunSet => CInc
  | KShrinkSet => CShrinkUnlock
  | KWReset => PRing KWPop2 PopRdHead
  | KWWait => worker_entry
  | KWRearm j => PFs (KWSet j) Deq FSet1
  | KWSet JNull => PDone                      (* job.proc == 0: break; _terminated = true *)
  | KWSet (JCall f n a w) => WCall f n a w
  | _ => PDone
  end.

(* GHOST bookkeeping for the ring events of one step *)
Definition ghost_ring (t : nat) (s : state) (e : revt) : state :=
  match e with
  | RPushClaim tk (JCall f _ _ _) => put_fut s f (fut_phase (get_fut s f) (PhQueued tk))
  | RPopClaim tk =>
      match nth (Z.to_nat tk) (r_log (st_ring s)) JNull with
      | JCall f _ _ _ => put_fut s f (fut_phase (get_fut s f) (PhTaken t))
      | JNull => s
      end
  | _ => s
  end.

Definition ring_event (t : nat) (e : revt) : event :=
  match e with
  | RPushClaim tk v => EvPushClaim t tk v
  | RPopClaim tk => EvPopClaim t tk
  | RPopRead tk v => EvPopRead t tk v
  end.

(* GHOST: does a worker at this pc still hold the call record of future f (it will read or write the
   Future object later)?  Used only to label EvDestroy. *)
Definition job_is (j : job) (f : nat) : bool :=
  match j with JCall f' _ _ _ => Nat.eqb f' f | JNull => false end.
Definition worker_uses (r : ring) (p : pc) (f : nat) : bool :=
  match p with
  | PRing _ (PopRead h) => job_is (nth (Z.to_nat h) (r_log r) JNull) f
  | PRing _ (PopRelease _ j) => job_is j f
  | PFs (KWSet j) _ _ | PFs (KWRearm j) _ _ => job_is j f
  | WCall f' _ _ _ | WStore f' _ _ | WRdAbort f' _ | WSwap f' _ _ | WSigSet f' _ | WBcast f' _ => Nat.eqb f' f
  | _ => false
  end.
Definition fut_unused (s : state) (f : nat) : bool :=
  forallb (fun th => negb (worker_uses (st_ring s) (t_pc th) f)) (st_threads s).

(* after join(): continue with the operation that asked for it *)
Definition finish_join (cfg : config) (s : state) (t : nat) (f : nat) (a : after) (joined : option nat) : state * list event :=
  let th := get_thread s t in
  match a with
  | AStart arg work => (goto s t (CStartSet f arg work), [])
  | AJoin => (goto s t PIdle, [EvObs t (t_cur th) (OJoin f joined)])
  | AGet => (goto s t PIdle, [EvObs t (t_cur th) (OGet f joined (f_result (get_fut s f)))])
  | ADestroy => (goto s t PIdle, [EvObs t (t_cur th) (ODestroy f joined); EvDestroy t f (fut_unused s f)])
  end.

Definition join_or (cfg : config) (s : state) (t : nat) (f : nat) (a : after) : state * list event :=
  if f_joinable (get_fut s f) then (goto s t (CJoinWait f a), []) else finish_join cfg s t f a None.

(* ------------------------------------------------------------------------------------------ *)
(* one atomic step of thread t; clk = outcome of the idle-time test if this step performs it  *)
(* ------------------------------------------------------------------------------------------ *)
Definition step (cfg : config) (s : state) (t : nat) (clk : bool) : state * list event :=
  if negb (t <? length (st_threads s))%nat then (s, []) else
  let th := get_thread s t in
  match t_pc th with
  | PDone => (s, [])
  | PIdle =>
      match t_script th with
      | [] => (goto s t PDone, [])
      | (i, op) :: rest =>
          let s := set_threads s (upd t (mkThread PIdle rest i) (st_threads s)) in
          match op with
          | CStart f arg work =>
              if st_pool s then join_or cfg s t f (AStart arg work) else (goto s t (CSpin f arg work), [])
          | CAbort f =>
              let x := get_fut s f in
              (put_fut s f (fut_aborting x true), [EvAbort t f (f_serial x); EvObs t i (OAbort f (f_serial x))])
          | CJoin f => join_or cfg s t f AJoin
          | CGet f => join_or cfg s t f AGet
          | CCheck f =>
              let x := get_fut s f in
              (s, [EvObs t i (OCheck f (f_serial x) (f_state x) (f_aborting x))])
          | CPause => (s, [EvObs t i OPause])
          | CDestroy f => join_or cfg s t f ADestroy
          | CResume f n v =>
              if c_nested cfg then (goto s t (WStore f n v), []) else (s, [EvObs t i OPause])
          end
      end
  | CSpin f arg work =>
      if st_plock s then (s, []) else (goto (set_plock s true) t (CRecheck f arg work), [])
  | CRecheck f arg work =>
      if st_pool s then (goto s t (CUnlockPool f arg work), []) else (goto s t (CSwapPool f arg work), [])
  | CSwapPool f arg work => (goto (set_pool s true) t (CUnlockPool f arg work), [])
  | CUnlockPool f arg work => join_or cfg (set_plock s false) t f (AStart arg work)
  | CJoinWait f a =>
      if f_sig (get_fut s f) then (goto s t (CJoinReset f a), []) else (s, [])
  | CJoinReset f a =>
      let x := get_fut s f in
      let s1 := put_fut s f (mkFut false (f_aborting x) (f_state x) false (f_result x) (f_serial x) PhIdle) in
      let '(s2, evs) := finish_join cfg s1 t f a (Some (f_serial x)) in
      (s2, EvJoinRet t f (f_serial x) :: evs)
  | CStartSet f arg work =>
      let x := get_fut s f in
      let n := S (f_serial x) in
      let j := JCall f n arg work in
      let s1 := put_fut s f (mkFut (f_sig x) false (f_state x) true (f_result x) n PhStarted) in
      (goto s1 t (PRing (KRunPush1 j) (PushRdTail j)), [EvStart t f n arg work; EvObs t (t_cur th) (OStart f n)])
  | PRing k rp =>
      let '(r', rp', revs) := ring_step (st_ring s) rp in
      let s1 := fold_left (ghost_ring t) revs (set_ring s r') in
      let p' := match rp' with
                | PushRet b => after_push k b
                | PopRet r => after_pop (c_fixed cfg) k r
                | _ => PRing k rp'
                end in
      (goto s1 t p', map (ring_event t) revs)
  | PFs k w o =>
      let '(g', o') := fs_step (c_fixed cfg) (get_fs s w) o in
      let s1 := set_fs s w g' in
      match o' with
      | Some o2 => (goto s1 t (PFs k w o2), [])
      | None => (goto s1 t (after_fs k), match k with KWSet JNull => [EvExit t] | _ => [] end)
      end
  | CInc => let p := st_pushed s + 1 in (goto (set_pushed s p) t (CRdProc p), [])
  | CRdProc p => (goto s t (CRdTc p (st_processed s)), [])
  | CRdTc p q =>
      let tc := st_tcount s in
      let idle := tc - (p - q) in
      let nxt := if idle =? 1 then PIdle
                 else if idle <=? 0 then (if tc <? c_max cfg then CGrowLock else PIdle)
                 else if (c_min cfg <? tc) && clk then CShrinkLock else PIdle in
      (goto s t nxt, [])
  | CGrowLock => if st_mtx s then (s, []) else (goto (set_mtx s true) t CGrowInc, [])
  | CGrowInc =>
      if st_tcount s <? c_max cfg then (goto (set_tcount s (st_tcount s + 1)) t (CGrowUnlock true), [])
      else (goto s t (CGrowUnlock false), [])
  | CGrowUnlock ctx => (goto (set_mtx s false) t (if ctx then CSpawn else PIdle), [])
  | CSpawn =>
      let w := length (st_threads s) in
      (goto (set_threads s (st_threads s ++ [mkThread worker_entry [] 0%nat])) t PIdle, [EvSpawn t w])
  | CShrinkLock => if st_mtx s then (s, []) else (goto (set_mtx s true) t CShrinkChk, [])
  | CShrinkChk =>
      if c_min cfg <? st_tcount s then (goto s t (PRing KShrinkPush (PushRdTail JNull)), [])
      else (goto s t CShrinkUnlock, [])
  | CShrinkDec =>
      (* --_threadCount; fixes/C10/03: _enqueuedSignal.set() so that a sleeping worker takes the null job *)
      (goto (set_tcount s (st_tcount s - 1)) t (if c_fixed cfg then PFs KShrinkSet Enq FSet1 else CShrinkUnlock),
       [EvShrink t])
  | CShrinkUnlock => (goto (set_mtx s false) t PIdle, [])
  | WCall f n arg work =>
      let x := get_fut s f in
      if (work =? 3)%nat && negb (f_aborting x) then (s, [])
      else if c_nested cfg && (4 <=? work)%nat then
        (* the started function starts future (work - 4) with argument arg + 1 (function 0) and then
           returns: this thread runs Future::start like a client and comes back through CResume *)
        let i := t_cur th in
        let s1 := put_fut s f (fut_phase x (PhRan t)) in
        (set_threads s1 (upd t (mkThread PIdle [(i, CStart (work - 4) (arg + 1) 0%nat); (i, CResume f n (c_fn cfg arg))] i)
                             (st_threads s1)), [EvRun t f n arg])
      else (goto (put_fut s f (fut_phase x (PhRan t))) t (WStore f n (c_fn cfg arg)), [EvRun t f n arg])
  | WStore f n v =>
      (goto (put_fut s f (fut_result (get_fut s f) (Some v))) t (WRdAbort f n), [EvStore f n v])
  | WRdAbort f n => (goto s t (WSwap f n (f_aborting (get_fut s f))), [])
  | WSwap f n ab =>
      let x := get_fut s f in
      (goto (put_fut s f (fut_phase (fut_state x (if ab then StAborted else StFinished)) (PhCompleted t))) t (WSigSet f n),
       [EvComplete f n ab])
  | WSigSet f n =>
      let x := get_fut s f in
      (goto (put_fut s f (fut_phase (fut_sig x true) PhSignalled)) t (if c_sigfix cfg then WIncProc else WBcast f n),
       [EvSigSet f n])
  | WIncProc => (goto (set_processed s (st_processed s + 1)) t worker_entry, [])
  | WBcast f n => (goto s t WIncProc, [EvBcast t f n])
  end.

(* a thread that cannot change the state (waiting, spinning, ended, not existing) *)
Definition blocked (s : state) (t : nat) : bool :=
  if negb (t <? length (st_threads s))%nat then true else
  match t_pc (get_thread s t) with
  | PDone => true
  | PFs _ w FWait2 => negb (fs_flag (get_fs s w))
  | CJoinWait f _ => negb (f_sig (get_fut s f))
  | CSpin _ _ _ => st_plock s
  | CGrowLock | CShrinkLock => st_mtx s
  | WCall f _ _ work => (work =? 3)%nat && negb (f_aborting (get_fut s f))
  | _ => false
  end.

Definition move := (nat * bool)%type.

(* run a schedule; the trace is newest-first *)
Fixpoint exec_from (cfg : config) (s : state) (tr : list event) (sched : list move) : state * list event :=
  match sched with
  | [] => (s, tr)
  | (t, clk) :: rest =>
      let '(s', evs) := step cfg s t clk in
      exec_from cfg s' (rev evs ++ tr) rest
  end.
Definition exec (cfg : config) (sched : list move) : state * list event := exec_from cfg (init cfg) [] sched.

Definition client_unfinished (cfg : config) (s : state) : bool :=
  existsb (fun t => match t_pc (get_thread s t) with PDone => false | _ => true end) (seq 0 (length (c_scripts cfg))).

Definition all_blocked (s : state) : bool :=
  forallb (blocked s) (seq 0 (length (st_threads s))).

(* ---- for the replay on the real code (detsched): is the NEXT step of this pc an instrumented
   scheduling point (atomic builtin / wrapped pthread call), or a plain access that the real
   code executes without giving up the processor? ---- *)
Definition hooked_rpc (r : rpc) : bool :=
  match r with
  | PushCas _ _ | PushPublish _ _ | PopCas _ | PopRelease _ _ => true
  | _ => false
  end.
Definition hooked (p : pc) : bool :=
  match p with
  | PRing _ r => hooked_rpc r
  | PFs _ _ _ => true
  | CSpin _ _ _ | CSwapPool _ _ _ => true
  | CJoinWait _ _ | CJoinReset _ _ => true
  | CInc | CGrowLock | CShrinkLock | CSpawn => true
  | WSwap _ _ _ | WSigSet _ _ | WIncProc | WBcast _ _ => true
  | _ => false
  end.
