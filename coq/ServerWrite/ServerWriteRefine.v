(* REFINEMENT: on every history the model's observation of an operation equals the reference
   object's (ServerWriteSpec.v) wherever the reference object makes a claim.  The reference object
   is what the implementation is judged against by checks/C13.py. *)
From Coq Require Import ZArith List Bool Lia.
From ServerWrite Require Import ServerWriteSpec ServerWriteModel ServerWriteProofs ServerWriteTheorems.
Import ListNotations.
Local Open Scope Z_scope.
Local Open Scope bool_scope.

Arguments ztake : simpl never.
Arguments zdrop : simpl never.
Arguments zlen : simpl never.
Arguments send_count : simpl never.
Arguments Z.eqb : simpl never.
Arguments Z.geb : simpl never.
Arguments Z.leb : simpl never.

(* live part of the relation: the connection is served *)
Record rel_live (s : st) (t : sst) : Prop := mkrl {
  rl_q : q t = sendbuf s;
  rl_susp : s_susp t = suspended s;
  rl_reg : registered s = true
}.

(* part that holds as long as the spec makes claims *)
Record rel_claim (s : st) (t : sst) : Prop := mkrc {
  rc_closing : s_closing t = closing s;
  rc_wire : s_wire t = wire s;
  rc_inbound : s_inbound t = inbound s;
  rc_peer : s_peer_closed t = peer_closed s;
  rc_live : s_gone t = false -> rel_live s t;
  rc_gone : s_gone t = true -> registered s = false      (* a connection given up is no longer polled *)
}.

Record rel (s : st) (t : sst) : Prop := mkrel {
  r_dead : s_dead t = removed s;
  r_claim : s_dead t = false -> s_void t = false -> rel_claim s t
}.

Lemma rel_init : rel init spec_init.
Proof. split; [reflexivity|]. intros _ _. split; try reflexivity; [intros _; split; reflexivity | simpl; discriminate]. Qed.

Lemma ret_code_eq n o : ret_code n o = fst (send_ret n o).
Proof. destruct o; reflexivity. Qed.

Lemma recv_count_nonneg i p m k : recv_count i p m = Some k -> 0 <= k.
Proof.
  unfold recv_count. destruct (is_nil i); [destruct p|]; intros H; inversion H; subst; try lia.
  apply zlen_nonneg.
Qed.

(* non-Remove steps of a live client keep it live *)
Lemma step_keeps_alive s x s' r :
  inv s -> removed s = false -> x <> Remove -> step s x = (s', r) -> removed s' = false.
Proof.
  intros Hinv Hrm Hx H. unfold step in H. rewrite Hrm in H.
  assert (Hdisp : forall n o, dispatch s n o = (s', r) -> removed s' = false).
  { intros n o Hd. apply event_cases in Hd; auto.
    destruct Hd as [_ -> _ | _ _ _ -> _ | _ _ _ _ -> _ | sent _ _ _ _ _ -> _ | _ _ _ _ -> _]; simpl; auto. }
  destruct x; try congruence.
  - apply do_write_cases in H.
    destruct H as [Hne -> _ | He _ -> _ | He _ -> _ | sent He Hs _ -> _]; simpl; auto.
  - eapply Hdisp; eauto.
  - eapply Hdisp; eauto.
  - destruct (closing s); inv_pair H; simpl; auto.
  - inv_pair H. unfold do_suspend. destruct (suspended s); [|destruct (buf_isEmpty _)]; simpl; auto.
  - inv_pair H. unfold do_resume. destruct (negb (suspended s)); [|destruct (buf_isEmpty _)]; simpl; auto.
  - unfold do_read in H. destruct (recv_count (inbound s) (peer_closed s) max) as [k|];
      [destruct (k =? 0)|]; inv_pair H; simpl; auto.
  - inv_pair H. destruct (peer_closed s); simpl; auto.
  - destruct (peer_closed s); inv_pair H; simpl; auto.
  - destruct (peer_closed s); inv_pair H; simpl; auto.
Qed.

(* one poll event: model against spec_deliver *)
Lemma deliver_refines s t n o s' r t' c :
  inv s -> removed s = false -> rel_claim s t -> s_gone t = false ->
  dispatch s n o = (s', r) -> spec_deliver t n o = (t', c) ->
  c = r /\ rel_claim s' t' /\ s_dead t' = s_dead t /\ s_void t' = s_void t /\ removed s' = false.
Proof.
  intros Hinv Hrm [Hc Hw Hi Hp Hl Hgn] Hg Hd Hs. destruct (Hl Hg) as [Hq Hsu Hr].
  destruct (Hinv) as [Hint _ _]. destruct (Hint Hr) as [Hir Hiw].
  assert (Edr : (nin n || nhup n || nrdhup n) && negb (s_susp t) = ev_read s n).
  { unfold ev_read. rewrite Hir, Hsu. reflexivity. }
  assert (Edw : (nout n || negb (ev_read s n) && (nhup n || nrdhup n)) && negb (is_nil (q t)) = ev_write s n).
  { unfold ev_write. rewrite Hiw, Hq. reflexivity. }
  unfold spec_deliver in Hs. rewrite Edr, Edw in Hs. unfold spec_deliver_flags in Hs.
  pose proof (send_ret_result (zlen (sendbuf s)) o (zlen_nonneg _)) as Hsr.
  apply event_cases in Hd; auto.
  destruct Hd as [[Hx|[He Hew]] -> -> | _ He Hew -> -> | _ Hew Hne Hf -> -> | sent _ Hew Hne Hsent Hwh -> -> | _ Hew Hne Hle -> ->].
  - congruence.
  - rewrite He, Hew in Hs. inv_pair Hs. repeat split; auto.
  - rewrite He, Hew in Hs. inv_pair Hs. repeat split; auto.
  - rewrite Hew in Hs. unfold hand_over in Hs. rewrite Hq in Hs.
    destruct (send_result (zlen (sendbuf s)) o) as [| |k] eqn:Er.
    + exfalso. rewrite Hsr in Hf. simpl in Hf. destruct Hf as [Hf|Hf]; [lia | discriminate].
    + inv_pair Hs. rewrite ret_code_eq. repeat split; simpl; auto.
    + exfalso. destruct Hsr as [A B]. destruct Hf as [Hf|Hf]; [lia | rewrite Hf in A; simpl in A; lia].
  - rewrite Hew in Hs. unfold hand_over in Hs. rewrite Hq in Hs.
    destruct (send_result (zlen (sendbuf s)) o) as [| |k] eqn:Er.
    + inv_pair Hs. rewrite ret_code_eq.
      destruct Hwh as [[H0 Hb] | [H1 He]]; [| rewrite Hsr in He; simpl in He; lia]. subst sent.
      rewrite ztake_0, zdrop_0. split; [reflexivity|].
      repeat split; simpl; auto; try (rewrite app_nil_r; auto).
    + exfalso. destruct Hwh as [[H0 Hb] | [H1 He]].
      * rewrite Hb in Hsr. simpl in Hsr. destruct Hsr as [[_ X]|X]; [discriminate | lia].
      * destruct Hsr as [[X _]|X]; lia.
    + destruct Hsr as [A B].
      destruct Hwh as [[H0 Hb] | [H1 He]]; [rewrite Hb in A; simpl in A; lia |].
      assert (Hk : k = sent) by lia. rewrite Hk in Hs.
      rewrite nonnil_is_nil in Hs by (apply zdrop_nonnil; lia). injection Hs as <- <-.
      rewrite <- He. split; [reflexivity|]. repeat split; simpl; auto; try congruence.
  - rewrite Hew in Hs. unfold hand_over in Hs. rewrite Hq in Hs.
    destruct (send_result (zlen (sendbuf s)) o) as [| |k] eqn:Er.
    + exfalso. rewrite Hsr in Hle. simpl in Hle. pose proof (zlen_nonneg (sendbuf s)). lia.
    + exfalso. assert (0 < zlen (sendbuf s)).
      { pose proof (zlen_nonneg (sendbuf s)). pose proof (zlen_nil_iff (sendbuf s)).
        destruct (Z.eq_dec (zlen (sendbuf s)) 0); [tauto | lia]. }
      destruct Hsr as [[X _]|X]; lia.
    + destruct Hsr as [A B]. assert (Hk : k = zlen (sendbuf s)) by lia. rewrite Hk in Hs, A.
      rewrite ztake_all, zdrop_all in Hs by lia. simpl in Hs. injection Hs as <- <-. rewrite A.
      split; [reflexivity|]. repeat split; simpl; auto; try congruence.
Qed.

Lemma rel_intro s t : s_dead t = removed s -> rel_claim s t -> rel s t.
Proof. intros A B. split; auto. Qed.

Lemma rel_void s t : s_dead t = removed s -> (s_dead t = true \/ s_void t = true) -> rel s t.
Proof. intros A [B|B]; split; auto; intros; congruence. Qed.

Ltac live_of Hl :=
  let Hg := fresh "Hg" in
  intros Hg; simpl in Hg; try discriminate;
  first [ destruct (Hl Hg) as [? ? ?] | destruct (Hl eq_refl) as [? ? ?] ]; split; simpl; auto; try congruence.

Ltac mk_rel Hl :=
  apply rel_intro; [simpl; congruence | split; simpl; auto; try congruence; try (live_of Hl)].

Lemma step_refines s t x s' r t' c :
  inv s -> rel s t -> step s x = (s', r) -> spec_step t x = (t', c) ->
  claim_met c r /\ rel s' t'.
Proof.
  intros Hinv [Hdead Hcl] Hst Hsp. unfold spec_step in Hsp.
  destruct (s_dead t) eqn:Ed.
  { (* removed *)
    rewrite step_removed in Hst by congruence. inv_pair Hst. inv_pair Hsp. simpl. split; auto.
    apply rel_void; auto. congruence. }
  assert (Hrm : removed s = false) by congruence.
  destruct (s_void t) eqn:Ev.
  { (* no claims any more *)
    destruct x; try (inv_pair Hsp; simpl; split; auto;
      (apply rel_void; [rewrite Ed; symmetry; eapply step_keeps_alive; eauto; congruence | auto])).
    inv_pair Hsp. unfold step in Hst. rewrite Hrm in Hst. inv_pair Hst. simpl. split; auto.
    apply rel_void; simpl; auto. }
  specialize (Hcl eq_refl eq_refl). pose proof Hcl as [Hc Hw Hi Hp Hl Hgn].
  pose proof Hst as Hst'. unfold step in Hst. rewrite Hrm in Hst.
  (* operations answered in every served-or-given-up state *)
  assert (Hcommon : forall y, spec_common t x = Some y -> y = (t', c) -> claim_met c r /\ rel s' t').
  { intros y Hy ->. destruct x; simpl in Hy; try discriminate.
    - (* CloseSweep *) rewrite Hc in Hy. destruct (closing s); inv_pair Hy; inv_pair Hst; simpl; (split; [auto|]).
      + mk_rel Hl.
      + apply rel_intro; [congruence | assumption].
    - (* PeerWrite *) inv_pair Hy. inv_pair Hst. simpl. split; auto. rewrite Hp, Hi.
      destruct (peer_closed s) eqn:Epc; mk_rel Hl.
    - (* PeerRead *) rewrite Hp in Hy. destruct (peer_closed s) eqn:Epc; inv_pair Hy; inv_pair Hst; simpl.
      + split; auto. apply rel_intro; [congruence | assumption].
      + rewrite Hw. split; auto. mk_rel Hl.
    - (* PeerClose *) rewrite Hp in Hy. destruct (peer_closed s) eqn:Epc; inv_pair Hy; inv_pair Hst; simpl.
      + split; auto. apply rel_intro; [congruence | assumption].
      + rewrite Hw. split; auto. mk_rel Hl.
    - (* Remove *) inv_pair Hy. inv_pair Hst. simpl. split; auto. apply rel_void; simpl; auto. }
  destruct (spec_common t x) as [y|] eqn:Ecom. { eapply Hcommon; eauto. }
  clear Hcommon.
  assert (Hxr : x <> Remove) by (intros ->; simpl in Ecom; discriminate).
  destruct (s_gone t) eqn:Eg.
  { (* the application goes on using a connection that was given up: the spec stops claiming *)
    inv_pair Hsp. simpl. split; auto. apply rel_void; simpl; auto.
    symmetry. eapply step_keeps_alive; eauto. }
  destruct (Hl eq_refl) as [Hq Hsu Hr].
  destruct x; simpl in Ecom; try discriminate.
  - (* Write *)
    rewrite Hq in Hsp.
    pose proof (send_ret_result (zlen d) o (zlen_nonneg _)) as Hsr.
    apply do_write_cases in Hst.
    destruct Hst as [Hne -> -> | He Hf -> -> | He Hwh -> -> | sent He Hs Hwh -> ->].
    + rewrite nonnil_is_nil in Hsp by assumption. injection Hsp as <- <-. simpl. split; auto.
      mk_rel Hl.
    + rewrite He in Hsp. simpl in Hsp. unfold hand_over in Hsp.
      destruct (send_result (zlen d) o) as [| |k] eqn:Er.
      * exfalso. rewrite Hsr in Hf. simpl in Hf. destruct Hf as [Hf|Hf]; [lia | discriminate].
      * injection Hsp as <- <-. simpl. rewrite ret_code_eq. split; auto. mk_rel Hl.
      * exfalso. destruct Hsr as [A B]. destruct Hf as [Hf|Hf]; [lia | rewrite Hf in A; simpl in A; lia].
    + rewrite He in Hsp. simpl in Hsp. unfold hand_over in Hsp.
      destruct (send_result (zlen d) o) as [| |k] eqn:Er.
      * destruct Hwh as [[Hd0 Hb] | [H1 Hle]]; [| rewrite Hsr in H1; simpl in H1; lia]. rewrite Hd0 in *.
        injection Hsp as <- <-. simpl. rewrite ret_code_eq. split; [reflexivity|]. mk_rel Hl; rewrite ?app_nil_r; auto.
      * exfalso. destruct Hwh as [[Hd0 Hb] | [H1 Hle]].
        -- rewrite Hb in Hsr. simpl in Hsr. destruct Hsr as [[_ X]|X]; [discriminate | lia].
        -- destruct Hsr as [[X _]|X]; lia.
      * destruct Hsr as [A B].
        destruct Hwh as [[Hd0 Hb] | [H1 Hle]]; [rewrite Hb in A; simpl in A; lia |].
        assert (Hk : k = zlen d) by lia. rewrite Hk in Hsp. rewrite ztake_all, zdrop_all in Hsp by lia.
        injection Hsp as <- <-. simpl. rewrite ret_code_eq. split; auto. mk_rel Hl.
    + rewrite He in Hsp. simpl in Hsp. unfold hand_over in Hsp.
      destruct (send_result (zlen d) o) as [| |k] eqn:Er.
      * destruct Hwh as [[H0 Hb] | [H1 Heq]]; [| rewrite Hsr in Heq; simpl in Heq; lia]. rewrite H0 in *.
        injection Hsp as <- <-. simpl. rewrite ret_code_eq, ztake_0, zdrop_0. split; auto.
        mk_rel Hl; rewrite ?app_nil_r; auto.
      * exfalso. destruct Hwh as [[H0 Hb] | [H1 Heq]].
        -- rewrite Hb in Hsr. simpl in Hsr. destruct Hsr as [[_ X]|X]; [discriminate | lia].
        -- destruct Hsr as [[X _]|X]; lia.
      * destruct Hsr as [A B].
        destruct Hwh as [[H0 Hb] | [H1 Heq]]; [rewrite Hb in A; simpl in A; lia |].
        assert (Hk : k = sent) by lia. rewrite Hk in Hsp.
        injection Hsp as <- <-. simpl. rewrite ret_code_eq, <- Heq. split; auto. mk_rel Hl.
  - (* Dispatch *)
    destruct (spec_deliver t n o) as [t1 r1] eqn:Esd. injection Hsp as <- <-.
    destruct (deliver_refines _ _ _ _ _ _ _ _ Hinv Hrm Hcl Eg Hst Esd) as [-> [Hrc [Hd' [Hv' Hrm']]]].
    simpl. split; auto. apply rel_intro; [congruence | assumption].
  - (* PollReal *)
    rewrite Hi, Hp in Hsp.
    destruct (spec_deliver t (real_native (inbound s) (peer_closed s)) o) as [t1 r1] eqn:Esd. injection Hsp as <- <-.
    destruct (deliver_refines _ _ _ _ _ _ _ _ Hinv Hrm Hcl Eg Hst Esd) as [-> [Hrc [Hd' [Hv' Hrm']]]].
    simpl. split; auto. apply rel_intro; [congruence | assumption].
  - (* Suspend *)
    injection Hsp as <- <-. injection Hst as <- <-. simpl. split; auto. unfold do_suspend.
    destruct (suspended s) eqn:Es; [|destruct (buf_isEmpty (sendbuf (set_susp s true)))]; mk_rel Hl.
  - (* Resume *)
    injection Hsp as <- <-. injection Hst as <- <-. simpl. split; auto. unfold do_resume.
    destruct (suspended s) eqn:Es; cbn [negb]; [destruct (buf_isEmpty (sendbuf (set_susp s false)))|]; mk_rel Hl.
  - (* Read *)
    rewrite Hi, Hp in Hsp. unfold do_read in Hst.
    destruct (recv_count (inbound s) (peer_closed s) max) as [k|] eqn:Erc.
    + pose proof (recv_count_nonneg _ _ _ _ Erc) as Hk.
      destruct (k =? 0) eqn:E0.
      * assert (E1 : (k <=? 0) = true) by lia. rewrite E1 in Hsp. injection Hsp as <- <-. injection Hst as <- <-.
        simpl. split; auto. mk_rel Hl.
      * assert (E1 : (k <=? 0) = false) by lia. rewrite E1 in Hsp. injection Hsp as <- <-. injection Hst as <- <-.
        simpl. split; auto. mk_rel Hl.
    + injection Hsp as <- <-. injection Hst as <- <-. simpl. split; auto. apply rel_intro; [congruence | assumption].
Qed.

Lemma exec_refines l : forall s t,
  inv s -> rel s t -> Forall2 claim_met (snd (spec_exec t l)) (snd (exec s l)).
Proof.
  induction l as [|x l IH]; intros s t Hinv Hrel; simpl.
  - constructor.
  - destruct (step s x) as [s1 r] eqn:Es. destruct (spec_step t x) as [t1 c] eqn:Et.
    destruct (step_refines _ _ _ _ _ _ _ Hinv Hrel Es Et) as [Hc Hr1].
    specialize (IH s1 t1 (inv_step _ _ _ _ Hinv Es) Hr1).
    destruct (exec s1 l) as [s2 rs]. destruct (spec_exec t1 l) as [t2 cs]. simpl in *.
    constructor; assumption.
Qed.

Lemma refinement_lemma ops :
  Forall2 claim_met (snd (spec_exec spec_init ops)) (snd (exec init ops)).
Proof. apply exec_refines; [apply inv_init | apply rel_init]. Qed.
