(* SPEC for property C13 (Server clients deliver written bytes completely and in order).

   The reference object is what the property text describes and nothing else: per client a FIFO
   byte queue [q] between the application and the operating system ("accepted bytes not yet
   handed to the operating system"), a suspended flag, and an adversarial operating system
   whose answer to every individual send operation is an INPUT of the step ([outcome]).
   It does not know about Buffer, Poll registrations, epoll masks or errno.

   This file also fixes the vocabulary shared with the model: operations, outcomes, readiness
   sets, callbacks and the observation record. *)
From Coq Require Import ZArith List Bool Lia.
Import ListNotations.
Local Open Scope Z_scope.
Local Open Scope bool_scope.

(* What the operating system does with ONE send operation of n bytes. *)
Inductive outcome :=
| WouldBlock            (* refuses: EAGAIN / EWOULDBLOCK *)
| Sent (k : Z)          (* takes a prefix; k is clamped into 1..n *)
| Full                  (* takes all n bytes *)
| Zero                  (* returns 0 *)
| Error.                (* fails with a real error (ECONNRESET, EPIPE, ...) *)

(* classification used by the spec *)
Inductive sres := RBlock | RFail | RSent (r : Z).

Definition send_count (n k : Z) : Z := Z.min (Z.max k 1) n.

Definition send_result (n : Z) (o : outcome) : sres :=
  match o with
  | WouldBlock => RBlock
  | Error => RFail
  | Zero => RFail
  | Full => if n <=? 0 then RFail else RSent n
  | Sent k => if send_count n k <=? 0 then RFail else RSent (send_count n k)
  end.

(* readiness reported by the kernel for the client's descriptor *)
(* nin/nout/nhup/nrdhup/nerr = EPOLLIN / EPOLLOUT / EPOLLHUP / EPOLLRDHUP / EPOLLERR *)
Record native := mknative { nin : bool; nout : bool; nhup : bool; nrdhup : bool; nerr : bool }.

Inductive cb := OnRead | OnWrite | OnClosed.

Inductive op :=
| Write (d : list Z) (o : outcome)     (* Client::write(d) ; o answers the send it may issue *)
| Dispatch (n : native) (o : outcome)  (* the kernel reports readiness n for the client; one poll event *)
| PollReal (o : outcome)               (* same, with the readiness a real stream socket has in this state *)
| CloseSweep                           (* the "closing clients" pass of one run() iteration *)
| Suspend
| Resume
| Read (max : Z)                       (* Client::read(max) *)
| PeerWrite (d : list Z)               (* the peer sends bytes to the client *)
| PeerRead                             (* the peer reads everything delivered to it so far *)
| PeerClose                            (* the peer reads what was delivered, then closes *)
| Remove.                              (* Server::remove(client) *)

(* what one operation lets the outside see *)
Record out := mkout {
  o_ret   : option bool;     (* return value of write / read *)
  o_num   : Z;               (* write: postponed ; read: size *)
  o_cbs   : list cb;         (* callbacks delivered, in order *)
  o_tx    : list Z;          (* bytes handed to the operating system *)
  o_sends : list (Z * Z);    (* intercepted send calls: (requested, returned) *)
  o_data  : list Z;          (* read: bytes obtained ; peer read/close: bytes the peer got *)
  o_drop  : bool;            (* a send of backlog failed: the connection was given up *)
  o_dead  : bool             (* operation on a client that was removed (nothing happens) *)
}.

Definition out_none : out := mkout None 0 [] [] [] [] false false.
Definition out_dead : out := mkout None 0 [] [] [] [] false true.
Definition out_cb (c : cb) : out := mkout None 0 [c] [] [] [] false false.

Definition zlen (l : list Z) : Z := Z.of_nat (length l).
Definition ztake (k : Z) (l : list Z) : list Z := firstn (Z.to_nat k) l.
Definition zdrop (k : Z) (l : list Z) : list Z := skipn (Z.to_nat k) l.
Definition is_nil (l : list Z) : bool := match l with [] => true | _ => false end.

(* readiness of a connected stream socket whose send queue is never full *)
Definition real_native (inbound : list Z) (peer_closed : bool) : native :=
  mknative (negb (is_nil inbound) || peer_closed) true peer_closed peer_closed false.

(* what recv(max) returns: Some r (r >= 0 ; 0 = end of stream) or None = would block *)
Definition recv_count (inbound : list Z) (peer_closed : bool) (max : Z) : option Z :=
  if is_nil inbound then (if peer_closed then Some 0 else None)
  else Some (zlen (ztake max inbound)).

(* ---------------------------------------------------------------------------------------- *)

Record sst := mksst {
  q : list Z;              (* accepted, not yet handed to the operating system *)
  s_susp : bool;
  s_closing : bool;        (* an onClosed is owed *)
  s_gone : bool;           (* given up after a failed backlog send (or removed) *)
  s_void : bool;           (* the application went on using a connection that was given up: no further claims *)
  s_dead : bool;           (* removed *)
  s_wire : list Z;         (* handed to the OS, not yet read by the peer *)
  s_inbound : list Z;      (* sent by the peer, not yet read by the client *)
  s_peer_closed : bool
}.

Definition spec_init : sst := mksst [] false false false false false [] [] false.

(* the send step of the queue: give [l] to the OS under outcome [o] *)
Definition hand_over (l : list Z) (o : outcome) : sres * list Z * list Z :=
  match send_result (zlen l) o with
  | RSent r => (RSent r, ztake r l, zdrop r l)
  | x => (x, [], l)
  end.


(* the value a failing send returns is not part of the property; the log shows what the
   interposed send returned, which the spec reproduces from the outcome *)
Definition ret_code (n : Z) (o : outcome) : Z :=
  match o with
  | WouldBlock => -1 | Error => -1 | Zero => 0 | Full => n | Sent k => send_count n k
  end.

(* One poll event for the client.  A connection with a backlog that the kernel reports writable gets
   its backlog offered to the operating system in that event - whether or not it is readable as
   well.  The read notification of the same event is delivered afterwards unless the event already
   delivered onWrite / onClosed (level-triggered readiness: it is reported again). *)
Definition spec_deliver_flags (t : sst) (dr dw : bool) (o : outcome) : sst * out :=
  let rd := if dr then [OnRead] else [] in
  if dw then
    match hand_over (q t) o with
    | (RBlock, _, _) => (t, mkout None 0 rd [] [(zlen (q t), ret_code (zlen (q t)) o)] [] false false)
    | (RFail, _, _) =>
        (mksst [] (s_susp t) (s_closing t) true (s_void t) (s_dead t) (s_wire t) (s_inbound t) (s_peer_closed t),
         mkout None 0 [OnClosed] [] [(zlen (q t), ret_code (zlen (q t)) o)] [] true false)
    | (RSent r, tx, rest) =>
        (mksst rest (s_susp t) (s_closing t) (s_gone t) (s_void t) (s_dead t) (s_wire t ++ tx) (s_inbound t) (s_peer_closed t),
         mkout None 0 (if is_nil rest then [OnWrite] else rd) tx [(zlen (q t), r)] [] false false)
    end
  else if dr then (t, out_cb OnRead)
  else (t, out_none).

Definition spec_deliver (t : sst) (n : native) (o : outcome) : sst * out :=
  let want_r := negb (s_susp t) in
  let want_w := negb (is_nil (q t)) in
  let dr := (nin n || nhup n || nrdhup n) && want_r in      (* a read notification only when wanted; (half-)hang-up counts as readable *)
  let dw := (nout n || negb dr && (nhup n || nrdhup n)) && want_w in   (* hang-up counts as write-ready when no read is delivered *)
  spec_deliver_flags t dr dw o.

(* the operations whose effect does not depend on the connection still being served *)
Definition spec_common (t : sst) (x : op) : option (sst * option out) :=
  match x with
  | CloseSweep =>
      Some (if s_closing t then
        (mksst (q t) (s_susp t) false (s_gone t) (s_void t) (s_dead t) (s_wire t) (s_inbound t) (s_peer_closed t), Some (out_cb OnClosed))
      else (t, Some out_none))
  | PeerWrite d =>
      Some (mksst (q t) (s_susp t) (s_closing t) (s_gone t) (s_void t) (s_dead t) (s_wire t)
             (if s_peer_closed t then s_inbound t else s_inbound t ++ d) (s_peer_closed t), Some out_none)
  | PeerRead =>
      Some (if s_peer_closed t then (t, Some out_none)
      else (mksst (q t) (s_susp t) (s_closing t) (s_gone t) (s_void t) (s_dead t) [] (s_inbound t) (s_peer_closed t),
            Some (mkout None 0 [] [] [] (s_wire t) false false)))
  | PeerClose =>
      Some (if s_peer_closed t then (t, Some out_none)
      else (mksst (q t) (s_susp t) (s_closing t) (s_gone t) (s_void t) (s_dead t) [] (s_inbound t) true,
            Some (mkout None 0 [] [] [] (s_wire t) false false)))
  | Remove =>
      Some (mksst [] (s_susp t) false true (s_void t) true (s_wire t) (s_inbound t) (s_peer_closed t), Some out_none)
  | _ => None
  end.

(* None = the property makes no claim about this operation *)
Definition spec_step (t : sst) (x : op) : sst * option out :=
  if s_dead t then (t, Some out_dead)
  else if s_void t then
    match x with
    | Remove => (mksst [] (s_susp t) false true true true (s_wire t) (s_inbound t) (s_peer_closed t), Some out_none)
    | _ => (t, None)
    end
  else
  match spec_common t x with
  | Some r => r
  | None =>
  if s_gone t then
    (mksst (q t) (s_susp t) (s_closing t) true true (s_dead t) (s_wire t) (s_inbound t) (s_peer_closed t), None)
  else
  match x with
  | Write d o =>
      if is_nil (q t) then
        match hand_over d o with
        | (RFail, _, _) =>
            (mksst [] (s_susp t) true (s_gone t) (s_void t) (s_dead t) (s_wire t) (s_inbound t) (s_peer_closed t),
             Some (mkout (Some false) 0 [] [] [(zlen d, ret_code (zlen d) o)] [] false false))
        | (_, tx, rest) =>
            (mksst rest (s_susp t) (s_closing t) (s_gone t) (s_void t) (s_dead t) (s_wire t ++ tx) (s_inbound t) (s_peer_closed t),
             Some (mkout (Some true) (zlen rest) [] tx [(zlen d, ret_code (zlen d) o)] [] false false))
        end
      else
        (mksst (q t ++ d) (s_susp t) (s_closing t) (s_gone t) (s_void t) (s_dead t) (s_wire t) (s_inbound t) (s_peer_closed t),
         Some (mkout (Some true) (zlen (q t ++ d)) [] [] [] [] false false))
  | Dispatch n o => let '(t', r) := spec_deliver t n o in (t', Some r)
  | PollReal o => let '(t', r) := spec_deliver t (real_native (s_inbound t) (s_peer_closed t)) o in (t', Some r)
  | Suspend => (mksst (q t) true (s_closing t) (s_gone t) (s_void t) (s_dead t) (s_wire t) (s_inbound t) (s_peer_closed t), Some out_none)
  | Resume => (mksst (q t) false (s_closing t) (s_gone t) (s_void t) (s_dead t) (s_wire t) (s_inbound t) (s_peer_closed t), Some out_none)
  | Read max =>
      match recv_count (s_inbound t) (s_peer_closed t) max with
      | None => (t, Some (mkout (Some false) 0 [] [] [] [] false false))
      | Some r =>
          if r <=? 0 then
            (mksst (q t) (s_susp t) true (s_gone t) (s_void t) (s_dead t) (s_wire t) (s_inbound t) (s_peer_closed t),
             Some (mkout (Some false) 0 [] [] [] [] false false))
          else
            (mksst (q t) (s_susp t) (s_closing t) (s_gone t) (s_void t) (s_dead t) (s_wire t) (zdrop r (s_inbound t)) (s_peer_closed t),
             Some (mkout (Some true) r [] [] [] (ztake r (s_inbound t)) false false))
      end
  | _ => (t, Some out_none)      (* handled by spec_common *)
  end
  end.

(* a history on the reference object; None = no claim about that operation *)
Fixpoint spec_exec (t : sst) (l : list op) : sst * list (option out) :=
  match l with
  | [] => (t, [])
  | x :: l' => let '(t1, c) := spec_step t x in let '(t2, cs) := spec_exec t1 l' in (t2, c :: cs)
  end.

(* the model's observation meets the spec's claim *)
Definition claim_met (c : option out) (r : out) : Prop :=
  match c with Some r' => r' = r | None => True end.
