(* MODEL of n clients (a list, indexed by the client number; the files keep their historical "2"
   names) of ONE Server sharing its Socket::Poll (linux/epoll variant of
   src/Socket/Socket.cpp) and its closing-clients set:

     Socket::Poll::Private::poll    when selectedSockets is empty: epoll_wait, every reported
                                    descriptor is appended to selectedSockets with
                                    unmapEvents(native, registered events) - also when that is 0;
                                    then ONE entry (the oldest) is removed and returned
     Socket::Poll::Private::set     on a change of the registered events of a socket:
                                    removedEvents = old & ~new ; selected &= ~removedEvents ;
                                    the entry is dropped when nothing is left
     Socket::Poll::Private::remove  drops the entry
     Server::Private::run           dispatches the returned event to its client (the client part of
                                    the dispatch is ServerWriteModel.dispatch_flags); an event
                                    without flags is handled like a timeout
     _closingClients                HashSet in order of insertion; the closing pass takes the front

   Each client is a ServerWriteModel.st; every operation of the one-client model is available for
   any client (On c x); a client beyond the list is in its initial state.  The cache of collected events [sel] is what one poll round leaves for
   the following poll() calls, so what a callback of one client does to another one takes effect
   between the collection and the delivery of the other one's event.  Every one-client operation
   calls Poll::set / Poll::remove at most once, so its effect on the cache is computed from the
   registration before and after the operation ([resel]).  No proofs in this file. *)
From Coq Require Import ZArith List Bool.
From ServerWrite Require Import ServerWriteSpec ServerWriteModel ServerWrite2Spec.
Import ListNotations.
Local Open Scope Z_scope.
Local Open Scope bool_scope.

Record st2 := mkst2 {
  cls : list st;            (* the clients: client c is the c-th element (init beyond the list) *)
  sel : list entry;         (* Poll::Private::selectedSockets, oldest first *)
  closq : list cid          (* Private::_closingClients, oldest first *)
}.

Definition init2 : st2 := mkst2 [] [] [].

Definition get2 (m : st2) (c : cid) : st := getc init (cls m) c.

(* Poll::set / Poll::remove as seen by the cache: client c went from s to s' *)
Definition resel (c : cid) (s s' : st) (l : list entry) : list entry :=
  if registered s' then
    (if registered s then revoke c (int_r s) (int_w s) (int_r s') (int_w s') l     (* set, socket known *)
     else l)                                                                       (* set, socket added *)
  else (if registered s then forget c l else l).                                   (* remove *)

Definition put2 (m : st2) (c : cid) (s s' : st) (l : list entry) : st2 :=
  mkst2 (setc init (cls m) c s') (resel c s s' l)
        (clq_update c (closing s) (closing s') (closq m)).

(* one epoll_event of the round: selectedSockets.append(socket, unmapEvents(native, events)) *)
Definition collect_one (s : st) (c : cid) (n : native) : list entry :=
  if negb (registered s) then []                       (* descriptor not in the epoll set *)
  else
    let n' := kernel_filter s n in
    if negb (reported n') then []                      (* epoll_wait reports nothing for it *)
    else let '(r, w) := unmap_events s n' in [mkentry c r w].

Definition collect (m : st2) (evs : list (cid * native)) : st2 :=
  mkst2 (cls m) (flat_map (fun cn => collect_one (get2 m (fst cn)) (fst cn) (snd cn)) evs) (closq m).

(* poll() returns the oldest cached event; run() dispatches it *)
Definition deliver (m : st2) (o : outcome) : st2 * out2 :=
  match sel m with
  | [] => (m, out2_idle)
  | e :: l =>
      let c := e_c e in
      let s := get2 m c in
      let '(s', r) := dispatch_flags s (e_r e) (e_w e) o in
      (put2 m c s s' l, mkout2 (Some c) r (negb (e_r e || e_w e)))
  end.

Definition step2 (m : st2) (x : op2) : st2 * out2 :=
  match x with
  | On c y =>
      let s := get2 m c in
      let single (n : native) (o : outcome) :=        (* a poll round in which only this descriptor is reported *)
        match sel m with
        | [] => if removed s then (m, mkout2 (Some c) out_dead false) else deliver (collect m [(c, n)]) o
        | _ => (m, out2_idle)                        (* poll() does not ask the kernel while events are cached *)
        end in
      match y with
      | Dispatch n o => single n o
      | PollReal o => single (real_native (inbound s) (peer_closed s)) o
      | _ => let '(s', r) := step s y in (put2 m c s s' (sel m), mkout2 (Some c) r false)
      end
  | Collect evs =>
      match sel m with
      | [] => (collect m evs, out2_none)
      | _ => (m, out2_none)
      end
  | Deliver o => deliver m o
  | Sweep =>
      match closq m with
      | [] => (m, out2_idle)
      | c :: _ =>
          let s := get2 m c in
          let '(s', r) := step s CloseSweep in (put2 m c s s' (sel m), mkout2 (Some c) r false)
      end
  end.

Fixpoint exec2 (m : st2) (l : list op2) : st2 * list out2 :=
  match l with
  | [] => (m, [])
  | x :: l' => let '(m1, r) := step2 m x in let '(m2, rs) := exec2 m1 l' in (m2, r :: rs)
  end.
