(* REFINEMENT for the n-client machine (clients numbered, kept in a list; historical "2" names): on every history the model's observation of an operation
   (ServerWrite2Model.step2) equals the reference object's (ServerWrite2Spec.spec_step2) wherever the
   reference object makes a claim - including which notifications collected in a poll round are
   still delivered after callbacks of other clients changed what a client wants. *)
From Coq Require Import ZArith List Bool Lia PeanoNat.
From ServerWrite Require Import ServerWriteSpec ServerWriteModel ServerWriteProofs ServerWriteTheorems ServerWriteRefine
  ServerWrite2Spec ServerWrite2Model ServerWrite2Proofs.
Import ListNotations.
Local Open Scope Z_scope.
Local Open Scope bool_scope.

Arguments ztake : simpl never.
Arguments zdrop : simpl never.
Arguments zlen : simpl never.
Arguments send_count : simpl never.
Arguments Z.eqb : simpl never.
Arguments Z.geb : simpl never.
Arguments Z.leb : simpl never.

(* ---- facts about the one-client reference object ---------------------------------------------- *)

(* a removed client is owed no onClosed *)
Definition sinv (t : sst) : Prop := s_dead t = true -> s_closing t = false.

Lemma sinv_init : sinv spec_init.
Proof. intros H. discriminate. Qed.

Lemma spec_deliver_flags_dead t r w o t' c :
  spec_deliver_flags t r w o = (t', c) -> s_dead t' = s_dead t /\ s_void t' = s_void t /\ s_closing t' = s_closing t.
Proof.
  unfold spec_deliver_flags. destruct w.
  - destruct (hand_over (q t) o) as [[k tx] rest]. destruct k; intros H; inv_pair H; simpl; auto.
  - destruct r; intros H; inv_pair H; auto.
Qed.

Lemma sinv_step t x t' c : sinv t -> spec_step t x = (t', c) -> sinv t'.
Proof.
  intros Hs H. unfold spec_step in H. destruct (s_dead t) eqn:Ed. { inv_pair H. assumption. }
  assert (Hkeep : s_dead t' = false \/ s_closing t' = false -> sinv t').
  { intros [A|A] B; congruence. }
  destruct (s_void t).
  { destruct x; inv_pair H; apply Hkeep; simpl; auto. }
  destruct (spec_common t x) as [y|] eqn:Ec.
  { subst y. destruct x; simpl in Ec; try discriminate.
    - destruct (s_closing t); inv_pair Ec; apply Hkeep; simpl; auto.
    - inv_pair Ec. apply Hkeep; simpl; auto.
    - destruct (s_peer_closed t); inv_pair Ec; apply Hkeep; simpl; auto.
    - destruct (s_peer_closed t); inv_pair Ec; apply Hkeep; simpl; auto.
    - inv_pair Ec. apply Hkeep; simpl; auto. }
  destruct (s_gone t). { inv_pair H. apply Hkeep; simpl; auto. }
  destruct x; simpl in Ec; try discriminate.
  - destruct (is_nil (q t)).
    + destruct (hand_over d o) as [[k tx] rest]. destruct k; inv_pair H; apply Hkeep; simpl; auto.
    + inv_pair H. apply Hkeep; simpl; auto.
  - destruct (spec_deliver t n o) as [t1 r1] eqn:E. inv_pair H. unfold spec_deliver in E.
    apply spec_deliver_flags_dead in E. apply Hkeep. left. destruct E as [-> _]. assumption.
  - destruct (spec_deliver t _ o) as [t1 r1] eqn:E. inv_pair H. unfold spec_deliver in E.
    apply spec_deliver_flags_dead in E. apply Hkeep. left. destruct E as [-> _]. assumption.
  - inv_pair H. apply Hkeep; simpl; auto.
  - inv_pair H. apply Hkeep; simpl; auto.
  - destruct (recv_count (s_inbound t) (s_peer_closed t) max) as [k|]; [destruct (k <=? 0)|];
      inv_pair H; apply Hkeep; simpl; auto.
Qed.

(* what the n-client bookkeeping reads of a client: the same in model and reference object *)
Lemma view_eq s t :
  inv s -> rel s t -> sinv t -> s_void t = false ->
  registered s = served t /\ closing s = s_closing t /\
  (served t = true -> int_r s = want_r t /\ int_w s = want_w t).
Proof.
  intros [Hint Hun Hrem] [Hd Hc] Hs Hv. unfold served, want_r, want_w.
  destruct (s_dead t) eqn:Ed.
  - destruct (Hrem (eq_sym Hd)) as [_ [A B]]. rewrite (Hs Ed). simpl. repeat split; auto; discriminate.
  - destruct (Hc eq_refl Hv) as [Hcl _ _ _ Hl Hg]. destruct (s_gone t) eqn:Eg; simpl.
    + repeat split; auto; discriminate.
    + destruct (Hl eq_refl) as [Hq Hsu Hr]. destruct (Hint Hr) as [A B].
      repeat split; auto; congruence.
Qed.

(* ---- the relation ---------------------------------------------------------------------------------- *)

Record R2 (m : st2) (u : sst2) : Prop := mkR2 {
  r2_inv : inv2 m;
  r2_cl : forall c, rel (get2 m c) (sget u c);
  r2_s : forall c, sinv (sget u c);
  r2_sel : sel m = pend u;
  r2_clq : closq m = s_clq u
}.

(* no relation is claimed once the reference object has stopped making claims *)
Definition rel2 (m : st2) (u : sst2) : Prop := any_void u = true \/ R2 m u.

Lemma sget_init2 c : sget spec_init2 c = spec_init.
Proof. apply getc_nil. Qed.

Lemma sget_sput_same u c t t' l : sget (sput u c t t' l) c = t'.
Proof. apply getc_setc_same. Qed.

Lemma sget_sput_other u c d t t' l : d <> c -> sget (sput u c t t' l) d = sget u d.
Proof. apply getc_setc_other. Qed.

Lemma R2_init : R2 init2 spec_init2.
Proof.
  split; try reflexivity.
  - apply inv2_init.
  - intros c. rewrite get2_init2, sget_init2. apply rel_init.
  - intros c. rewrite sget_init2. apply sinv_init.
Qed.

Lemma R2_get m u c : R2 m u -> rel (get2 m c) (sget u c) /\ sinv (sget u c) /\ inv (get2 m c).
Proof. intros [Hi Ha Hs _ _]. split; [apply Ha | split; [apply Hs | apply Hi]]. Qed.

Lemma any_void_false u c : any_void u = false -> s_void (sget u c) = false.
Proof. unfold any_void, sget. intros H. apply existsb_getc_false; [reflexivity | assumption]. Qed.

Lemma any_void_sput u c t t' l :
  any_void u = false -> s_void t' = false -> any_void (sput u c t t' l) = false.
Proof.
  unfold any_void. intros H Hv. cbn [sput ts]. apply existsb_setc_false; [reflexivity | assumption | assumption].
Qed.

Lemma any_void_sput_true u c t t' l : s_void t' = true -> any_void (sput u c t t' l) = true.
Proof. unfold any_void. intros Hv. cbn [sput ts]. apply existsb_setc_true. assumption. Qed.

(* client c moves from (s, t) to (s', t') in both machines *)
Lemma put_refines m u c s' t' l :
  R2 m u -> any_void u = false ->
  rel s' t' -> inv s' -> sinv t' -> s_void t' = false -> sel_ok m l ->
  R2 (put2 m c (get2 m c) s' l) (sput u c (sget u c) t' l).
Proof.
  intros HR Hv Hrel Hinv Hsinv Hv' Hok.
  destruct (R2_get m u c HR) as [Hrc [Hsc Hic]].
  destruct (view_eq _ _ Hic Hrc Hsc (any_void_false u c Hv)) as [V1 [V2 V3]].
  destruct (view_eq _ _ Hinv Hrel Hsinv Hv') as [W1 [W2 W3]].
  assert (Esel : resel c (get2 m c) s' l = spec_resel c (sget u c) t' l).
  { unfold resel, spec_resel. rewrite V1, W1.
    destruct (served t') eqn:E1; destruct (served (sget u c)) eqn:E2; auto.
    destruct (V3 eq_refl) as [-> ->]. destruct (W3 eq_refl) as [-> ->]. reflexivity. }
  assert (Eclq : clq_update c (closing (get2 m c)) (closing s') (closq m) =
                 clq_update c (s_closing (sget u c)) (s_closing t') (s_clq u)).
  { rewrite V2, W2, (r2_clq m u HR). reflexivity. }
  pose proof (put2_inv2 m c (get2 m c) s' l (r2_inv m u HR) eq_refl Hinv Hok) as Hi2.
  destruct HR as [Hi Ha Hs Hsel Hclq].
  split.
  - exact Hi2.
  - intros d. destruct (Nat.eq_dec d c) as [->|Hne].
    + rewrite get2_put2_same, sget_sput_same. exact Hrel.
    + rewrite get2_put2_other, sget_sput_other by assumption. apply Ha.
  - intros d. destruct (Nat.eq_dec d c) as [->|Hne].
    + rewrite sget_sput_same. exact Hsinv.
    + rewrite sget_sput_other by assumption. apply Hs.
  - rewrite sel_put2. exact Esel.
  - exact Eclq.
Qed.

(* ---- a notification with given parts: model against the reference object ---------------------- *)

Lemma deliver_flags_refines s t r w o s' x t' c :
  inv s -> removed s = false -> rel_claim s t -> s_gone t = false ->
  (r = true -> int_r s = true) -> (w = true -> int_w s = true) ->
  dispatch_flags s r w o = (s', x) -> spec_deliver_flags t r w o = (t', c) ->
  c = x /\ rel_claim s' t' /\ s_dead t' = s_dead t /\ s_void t' = s_void t /\ removed s' = false.
Proof.
  intros Hinv Hrm Hcl Hg Hr Hw Hd Hs.
  pose proof Hcl as [_ _ _ _ Hl _]. destruct (Hl Hg) as [Hq Hsu Hreg].
  destruct (Hinv) as [Hint _ _]. destruct (Hint Hreg) as [Hir Hiw].
  set (n := mknative r w false false false).
  assert (Er : ev_read s n = r).
  { unfold ev_read, n. simpl. destruct r; simpl; [apply Hr; reflexivity | reflexivity]. }
  assert (Ew : ev_write s n = w).
  { unfold ev_write. rewrite Er. unfold n. simpl. rewrite andb_false_r, orb_false_r.
    destruct w; simpl; [apply Hw; reflexivity | reflexivity]. }
  apply (deliver_refines s t n o s' x t' c Hinv Hrm Hcl Hg).
  - rewrite dispatch_flags_eq by assumption. rewrite Er, Ew. exact Hd.
  - unfold spec_deliver. rewrite <- Hs. f_equal.
    + unfold n. simpl. rewrite Hsu, <- Hir. destruct r; simpl; [first [apply Hr | symmetry; apply Hr]; reflexivity | reflexivity].
    + unfold n. simpl. rewrite Hq, <- Hiw. rewrite !andb_false_r, orb_false_r.
      destruct w; simpl; [first [apply Hw | symmetry; apply Hw]; reflexivity | reflexivity].
Qed.

(* ---- collection ------------------------------------------------------------------------------------ *)

Lemma collect_one_refines s t c n :
  inv s -> rel s t -> sinv t -> s_void t = false -> collect_one s c n = spec_entry t c n.
Proof.
  intros Hinv Hrel Hs Hv. destruct (view_eq _ _ Hinv Hrel Hs Hv) as [V1 [_ V3]].
  unfold collect_one, spec_entry. rewrite V1. destruct (served t); simpl; auto.
  destruct (V3 eq_refl) as [A B]. unfold kernel_filter, reported, unmap_events. simpl. rewrite A, B.
  destruct (nin n), (nout n), (nhup n), (nrdhup n), (nerr n), (want_r t), (want_w t); reflexivity.
Qed.

Lemma collect_refines m u evs :
  R2 m u -> any_void u = false -> R2 (collect m evs) (spec_collect u evs).
Proof.
  intros HR Hv. pose proof (collect_inv2 m evs (r2_inv m u HR)) as Hi.
  assert (E : sel (collect m evs) = pend (spec_collect u evs)).
  { unfold collect, spec_collect. simpl. apply flat_map_ext. intros [c n]. simpl.
    destruct (R2_get m u c HR) as [Hrc [Hsc Hic]].
    apply collect_one_refines; auto. apply any_void_false; assumption. }
  destruct HR as [_ Ha Hs _ Hclq]. split; auto.
Qed.

Lemma any_void_collect u evs : any_void (spec_collect u evs) = any_void u.
Proof. reflexivity. Qed.

(* ---- delivery --------------------------------------------------------------------------------------- *)

Lemma deliver_refines2 m u o m' r u' c :
  R2 m u -> any_void u = false ->
  deliver m o = (m', r) -> spec_deliver2 u o = (u', c) ->
  claim_met2 c r /\ rel2 m' u'.
Proof.
  intros HR Hv Hd Hs. unfold deliver in Hd. unfold spec_deliver2 in Hs.
  rewrite (r2_sel m u HR) in Hd. destruct (pend u) as [|e l] eqn:El.
  { inv_pair Hd. inv_pair Hs. simpl. split; auto. right. assumption. }
  destruct (dispatch_flags (get2 m (e_c e)) (e_r e) (e_w e) o) as [s' x] eqn:Ed.
  destruct (spec_deliver_flags (sget u (e_c e)) (e_r e) (e_w e) o) as [t' y] eqn:Es.
  inv_pair Hd. inv_pair Hs.
  destruct (R2_get m u (e_c e) HR) as [Hrc [Hsc Hic]].
  pose proof (i2_sel m (r2_inv m u HR)) as Hok. rewrite (r2_sel m u HR), El in Hok.
  inversion Hok as [|? ? He Hl]; subst.
  pose proof (any_void_false u (e_c e) Hv) as Hvc.
  destruct (view_eq _ _ Hic Hrc Hsc Hvc) as [V1 _].
  destruct He as [Hreg [Hfr Hfw]]. rewrite Hreg in V1. symmetry in V1.
  unfold served in V1. apply andb_true_iff in V1. destruct V1 as [Vd Vg].
  apply negb_true_iff in Vd, Vg.
  pose proof (entry_removed _ _ Hic (conj Hreg (conj Hfr Hfw))) as Hrm.
  destruct Hrc as [Hdead Hclaim]. specialize (Hclaim Vd Hvc).
  destruct (deliver_flags_refines _ _ _ _ _ _ _ _ _ Hic Hrm Hclaim Vg Hfr Hfw Ed Es)
    as [-> [Hrc' [Hd' [Hv' Hrm']]]].
  simpl. split; [reflexivity|]. right.
  apply put_refines; auto.
  - apply rel_intro; [congruence | assumption].
  - eapply dispatch_flags_inv; eauto.
  - intros H. congruence.
  - congruence.
Qed.

(* ---- an operation of the one-client vocabulary on client c -------------------------------------- *)

Lemma void_is_final t x t' c : s_void t = true -> spec_step t x = (t', c) -> s_void t' = true.
Proof.
  intros Hv H. unfold spec_step in H. destruct (s_dead t). { inv_pair H. assumption. }
  rewrite Hv in H. destruct x; inv_pair H; auto.
Qed.

Lemma plain_refines m u c y s' r t' k :
  R2 m u -> any_void u = false ->
  step (get2 m c) y = (s', r) -> spec_step (sget u c) y = (t', k) ->
  claim_met2 (option_map (fun r => mkout2 (Some c) r false) k) (mkout2 (Some c) r false) /\
  rel2 (put2 m c (get2 m c) s' (sel m)) (sput u c (sget u c) t' (pend u)).
Proof.
  intros HR Hv Hst Hsp.
  destruct (R2_get m u c HR) as [Hrc [Hsc Hic]].
  destruct (step_refines _ _ _ _ _ _ _ Hic Hrc Hst Hsp) as [Hcm Hrel'].
  split.
  - destruct k as [r0|]; simpl in *; [congruence | exact I].
  - destruct (s_void t') eqn:Ev'.
    + left. apply any_void_sput_true. assumption.
    + right. rewrite <- (r2_sel m u HR). apply put_refines; auto.
      * eapply inv_step; eauto.
      * eapply sinv_step; eauto.
      * apply (i2_sel m (r2_inv m u HR)).
Qed.

Lemma step2_refines m u x m' r u' c :
  rel2 m u -> step2 m x = (m', r) -> spec_step2 u x = (u', c) -> claim_met2 c r /\ rel2 m' u'.
Proof.
  intros Hrel Hst Hsp. unfold spec_step2 in Hsp. destruct (any_void u) eqn:Hv.
  { inv_pair Hsp. split; [exact I | left; assumption]. }
  destruct Hrel as [Hrel|HR]; [congruence|].
  unfold step2 in Hst. destruct x as [d y | evs | o |].
  - assert (Hsingle : forall n o,
      match sel m with
      | [] => if removed (get2 m d) then (m, mkout2 (Some d) out_dead false) else deliver (collect m [(d, n)]) o
      | _ :: _ => (m, out2_idle)
      end = (m', r) ->
      match pend u with
      | [] => if s_dead (sget u d) then (u, Some (mkout2 (Some d) out_dead false))
              else spec_deliver2 (spec_collect u [(d, n)]) o
      | _ :: _ => (u, Some out2_idle)
      end = (u', c) -> claim_met2 c r /\ rel2 m' u').
    { intros n o H1 H2. rewrite (r2_sel m u HR) in H1. destruct (pend u) eqn:Ep.
      - destruct (R2_get m u d HR) as [[Hdead _] _]. rewrite <- Hdead in H1.
        destruct (s_dead (sget u d)).
        + inv_pair H1. inv_pair H2. simpl. split; auto. right. assumption.
        + eapply deliver_refines2; [apply collect_refines; eassumption | | exact H1 | exact H2].
          rewrite any_void_collect. assumption.
      - inv_pair H1. inv_pair H2. simpl. split; auto. right. assumption. }
    destruct (R2_get m u d HR) as [Hrd _].
    assert (Hin : inbound (get2 m d) = s_inbound (sget u d) /\ peer_closed (get2 m d) = s_peer_closed (sget u d)
                  \/ s_dead (sget u d) = true).
    { destruct Hrd as [Hdead Hcl]. destruct (s_dead (sget u d)) eqn:Ed; [right; reflexivity | left].
      destruct (Hcl eq_refl (any_void_false u d Hv)) as [_ _ Hi Hp _ _]. split; congruence. }
    destruct y;
      try (eapply Hsingle; [exact Hst | exact Hsp]);
      try (match type of Hst with context [step ?s ?y] => destruct (step s y) as [s' r'] eqn:Es end;
           match type of Hsp with context [spec_step ?t ?y] => destruct (spec_step t y) as [t' k] eqn:Et end;
           inv_pair Hst; inv_pair Hsp; eapply plain_refines; eassumption).
    (* PollReal: the real readiness is read off the same kernel state *)
    destruct Hin as [[Hi Hp]|Hd].
    + rewrite Hi, Hp in Hst. eapply Hsingle; [exact Hst | exact Hsp].
    + rewrite (r2_sel m u HR) in Hst. destruct (pend u) eqn:Ep.
      * destruct Hrd as [Hdead _]. rewrite <- Hdead, Hd in Hst. rewrite Hd in Hsp.
        inv_pair Hst. inv_pair Hsp. simpl. split; auto. right. assumption.
      * inv_pair Hst. inv_pair Hsp. simpl. split; auto. right. assumption.
  - rewrite (r2_sel m u HR) in Hst. destruct (pend u) eqn:Ep; inv_pair Hst; inv_pair Hsp; simpl; (split; [reflexivity|]); right.
    + apply collect_refines; assumption.
    + assumption.
  - eapply deliver_refines2; eauto.
  - rewrite (r2_clq m u HR) in Hst. destruct (s_clq u) as [|d k0] eqn:Eq.
    + inv_pair Hst. inv_pair Hsp. simpl. split; auto. right. assumption.
    + destruct (step (get2 m d) CloseSweep) as [s' r'] eqn:Es.
      destruct (spec_step (sget u d) CloseSweep) as [t' k] eqn:Et.
      inv_pair Hst. inv_pair Hsp. eapply plain_refines; eassumption.
Qed.

Lemma exec2_refines l : forall m u,
  rel2 m u -> Forall2 claim_met2 (snd (spec_exec2 u l)) (snd (exec2 m l)).
Proof.
  induction l as [|x l IH]; intros m u Hrel; simpl.
  - constructor.
  - destruct (step2 m x) as [m1 r] eqn:Es. destruct (spec_step2 u x) as [u1 c] eqn:Et.
    destruct (step2_refines _ _ _ _ _ _ _ Hrel Es Et) as [Hc Hr1].
    specialize (IH m1 u1 Hr1).
    destruct (exec2 m1 l) as [m2 rs]. destruct (spec_exec2 u1 l) as [u2 cs]. simpl in *.
    constructor; assumption.
Qed.

Lemma refinement2_lemma ops :
  Forall2 claim_met2 (snd (spec_exec2 spec_init2 ops)) (snd (exec2 init2 ops)).
Proof. apply exec2_refines. right. apply R2_init. Qed.
