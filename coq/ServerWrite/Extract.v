From Coq Require Extraction ExtrOcamlBasic.
From Common Require Import Words.
From ServerWrite Require Import ServerWriteSpec ServerWriteModel ServerWrite2Spec ServerWrite2Model ServerWriteMonitor.
Extraction Language OCaml.
Extraction "model.ml" anchor init step spec_init spec_step getSendBufferSize isSuspended
  init2 step2 spec_init2 spec_step2 get2 sget any_void
  mon_init mon_step.
