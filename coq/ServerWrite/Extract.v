From Coq Require Extraction ExtrOcamlBasic.
From Common Require Import Words.
From ServerWrite Require Import ServerWriteSpec ServerWriteModel.
Extraction Language OCaml.
Extraction "model.ml" anchor init step spec_init spec_step getSendBufferSize isSuspended.
