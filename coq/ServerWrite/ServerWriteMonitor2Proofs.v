(* The deadline clauses of the property monitor (progress, the onWrite deadline, resumed) for the n-client machine.

   ServerWriteMonitorProofs.trace2 leaves the kernel-asked events out.  Here they are part of the trace ([trace2a]:
   an effective Collect shows client c what the kernel finds for its socket), and the histories are those in which a
   run() of the server ends only where Server::Private::run can return after the kernel reported the interrupt:
     - when no collected notification is left (poll() asks the kernel only then; the kernel reports the interrupt), or
     - directly after the poll round that collected the notifications (the interrupt was part of the same epoll
       batch: Poll::poll keeps the batch and returns without flags) - [fresh]: no run() has ended since that round;
   and one poll round reports a client at most once ([runs_ok]).  Every such history is accepted, per client.

   Proof: the monitor with its two deadlines reset ([z]) is coupled to the client as in ServerWriteMonitorProofs (MI);
   the deadlines themselves are coupled to the cache of collected notifications: an open write-side (read-side)
   deadline of client c implies that c's notification is still cached and carries the write (read) part ([K]). *)
From Coq Require Import ZArith List Bool Lia.
From ServerWrite Require Import ServerWriteSpec ServerWriteMonitor ServerWriteModel ServerWriteProofs ServerWriteTheorems
  ServerWrite2Spec ServerWrite2Model ServerWrite2Proofs ServerWriteMonitorProofs.
Import ListNotations.
Local Open Scope Z_scope.
Local Open Scope bool_scope.

Arguments ztake : simpl never.
Arguments zdrop : simpl never.
Arguments zlen : simpl never.
Arguments send_count : simpl never.
Arguments Z.eqb : simpl never.
Arguments Z.ltb : simpl never.
Arguments Z.geb : simpl never.
Arguments Z.leb : simpl never.

(* ---- the trace with the kernel-asked events, and the histories it is about -------------------------- *)

(* what the kernel finds for client c when a poll round asks it *)
Definition asked2 (c : nat) (evs : list (nat * native)) : list pev :=
  flat_map (fun cn => if Nat.eqb (fst cn) c then ask_events (nout (snd cn)) (nin (snd cn)) else []) evs.

Definition events2a (c : nat) (m : st2) (x : op2) (r : out2) : list pev :=
  match x with
  | Collect evs => match sel m with [] => asked2 c evs | _ => [] end
  | _ => events2 c x r
  end.

Fixpoint trace2a (c : nat) (m : st2) (l : list hop2) : list pev :=
  match l with
  | [] => []
  | H2Op x :: l' => let '(m', r) := step2 m x in events2a c m x r ++ trace2a c m' l'
  | H2Size d :: l' => (if Nat.eqb d c then size_probe (get2 m c) else []) ++ trace2a c m l'
  | H2RunEnd :: l' => ERunEnd :: trace2a c m l'
  end.

(* [fresh]: a poll round has collected notifications and no run() has ended since *)
Fixpoint runs_ok (fresh : bool) (m : st2) (l : list hop2) : Prop :=
  match l with
  | [] => True
  | H2Op x :: l' =>
      match x with Collect evs => NoDup (map fst evs) | _ => True end /\
      runs_ok (match x with Collect _ => match sel m with [] => true | _ => fresh end | _ => fresh end) (fst (step2 m x)) l'
  | H2Size _ :: l' => runs_ok fresh m l'
  | H2RunEnd :: l' => (sel m = [] \/ fresh = true) /\ runs_ok false m l'
  end.

(* ---- the monitor with its deadlines reset simulates the monitor ------------------------------------ *)

Definition z (m : mon) : mon := mkmon (m_pend m) (m_wire m) (m_susp m) (m_owed m) (m_may m) O O (m_void m).

Definition quiet (e : pev) : bool := match e with EWritable | EReadable | ERunEnd => false | _ => true end.
Definition kills_due (e : pev) : bool :=
  match e with EHand _ | EBlock | EFault | ECb OnWrite => true | _ => false end.
Definition kills_rdue (e : pev) : bool :=
  match e with EHand _ | EFault | ECb OnRead | ECb OnWrite | ESusp true => true | _ => false end.

Record simfacts (m m2 : mon) : Prop := mksim {
  sf_due : m_due m2 = m_due m \/ m_due m2 = O;
  sf_rdue : m_rdue m2 = m_rdue m \/ m_rdue m2 = O;
  sf_void : m_void m = true -> m_void m2 = true
}.

Lemma z_id m : m_due m = O -> m_rdue m = O -> z m = m.
Proof. destruct m; simpl; intros; subst; reflexivity. Qed.

Lemma step_sim m e m1 :
  quiet e = true -> mon_step (z m) e = Go m1 ->
  exists m2, mon_step m e = Go m2 /\ z m2 = m1 /\ simfacts m m2 /\
             (m_void m2 = false -> kills_due e = true -> m_due m2 = O) /\
             (m_void m2 = false -> kills_rdue e = true -> m_rdue m2 = O).
Proof.
  intros Hq H.
  destruct m as [pend wire0 susp owed may due rdue void].
  destruct e as [d ret post tx | tx | | | c | b | n | d | | | ]; try discriminate Hq; unfold z in *; simpl in *.
  - (* EWrite *)
    destruct void; [inv_pair H; eexists; split; [reflexivity|]; repeat split; simpl; auto; discriminate|].
    destruct (strip tx (if ret then pend ++ d else pend)) as [rest|]; [|discriminate].
    destruct (match post with Some n => negb (n =? zlen rest) | None => false end); [discriminate|].
    inv_pair H. eexists; split; [reflexivity|]. destruct (is_nil tx); repeat split; simpl; auto; discriminate.
  - (* EHand *)
    destruct void; [inv_pair H; eexists; split; [reflexivity|]; repeat split; simpl; auto; discriminate|].
    destruct (strip tx pend) as [rest|]; [|discriminate].
    inv_pair H. eexists; split; [reflexivity|]. repeat split; simpl; auto.
  - (* EBlock *)
    destruct void; inv_pair H; eexists; (split; [reflexivity|]); repeat split; simpl; auto; discriminate.
  - (* EFault *)
    destruct void; inv_pair H; eexists; (split; [reflexivity|]); repeat split; simpl; auto; discriminate.
  - (* ECb *)
    destruct c.
    + destruct susp; [discriminate|]. inv_pair H. eexists; split; [reflexivity|]. repeat split; simpl; auto; discriminate.
    + destruct void; [inv_pair H; eexists; split; [reflexivity|]; repeat split; simpl; auto; discriminate|].
      destruct (is_nil pend && (owed || may)); [|discriminate].
      inv_pair H. eexists; split; [reflexivity|]. repeat split; simpl; auto.
    + destruct void; inv_pair H; eexists; (split; [reflexivity|]); repeat split; simpl; auto; discriminate.
  - (* ESusp *)
    inv_pair H. eexists; split; [reflexivity|]. destruct b; repeat split; simpl; auto; discriminate.
  - (* ESize *)
    destruct void; [inv_pair H; eexists; split; [reflexivity|]; repeat split; simpl; auto; discriminate|].
    destruct (n =? zlen pend); [|discriminate].
    inv_pair H. eexists; split; [reflexivity|]. repeat split; simpl; auto; discriminate.
  - (* EPeer *)
    destruct void; [inv_pair H; eexists; split; [reflexivity|]; repeat split; simpl; auto; discriminate|].
    destruct (list_eqb d wire0); [|discriminate].
    inv_pair H. eexists; split; [reflexivity|]. repeat split; simpl; auto; discriminate.
Qed.

Lemma mon_step_void m e m' : mon_step m e = Go m' -> m_void m = true -> m_void m' = true.
Proof.
  intros H Hv. destruct m as [pend wire0 susp owed may due rdue void]. simpl in Hv. subst void.
  destruct e as [d ret post tx | tx | | | c | b | n | d | | | ]; simpl in H; try (inv_pair H; reflexivity).
  destruct c; simpl in H; try (inv_pair H; reflexivity). destruct susp; [discriminate|]. inv_pair H. reflexivity.
Qed.

Lemma run_sim l : forall m m1,
  forallb quiet l = true -> mon_run (z m) l = Go m1 ->
  exists m2, mon_run m l = Go m2 /\ z m2 = m1 /\ simfacts m m2 /\
             (m_void m2 = false -> existsb kills_due l = true -> m_due m2 = O) /\
             (m_void m2 = false -> existsb kills_rdue l = true -> m_rdue m2 = O).
Proof.
  induction l as [|e l IH]; intros m m1 Hq H; simpl in *.
  - inv_pair H. exists m. repeat split; auto; discriminate.
  - apply andb_true_iff in Hq. destruct Hq as [Hqe Hql].
    destruct (mon_step (z m) e) as [ma|] eqn:E; [|discriminate].
    destruct (step_sim m e ma Hqe E) as [mb [Hb [Hz [[Sd Sr Sv] [Kd Kr]]]]].
    rewrite <- Hz in H. destruct (IH mb m1 Hql H) as [m2 [H2 [Hz2 [[Td Tr Tv] [Ld Lr]]]]].
    exists m2. rewrite Hb. split; [exact H2|]. split; [exact Hz2|].
    assert (Hvb : m_void m2 = false -> m_void mb = false).
    { intros E2. destruct (m_void mb) eqn:Eb; auto. rewrite (Tv eq_refl) in E2. discriminate. }
    split; [split|split].
    + destruct Td as [->| ->]; auto.
    + destruct Tr as [->| ->]; auto.
    + intros Hv. auto.
    + intros E2 Hk. apply orb_true_iff in Hk. destruct Hk as [Hk|Hk]; [|auto].
      destruct Td as [->| ->]; auto.
    + intros E2 Hk. apply orb_true_iff in Hk. destruct Hk as [Hk|Hk]; [|auto].
      destruct Tr as [->| ->]; auto.
Qed.

(* ---- the cache of collected notifications --------------------------------------------------------- *)

Definition has_w (c : nat) (l : list entry) : Prop := exists e, In e l /\ e_c e = c /\ e_w e = true.
Definition has_r (c : nat) (l : list entry) : Prop := exists e, In e l /\ e_c e = c /\ e_r e = true.

(* a list obtained by dropping / changing entries without changing their clients *)
Lemma flat_map_clients (f : entry -> list entry) l :
  (forall e, f e = [] \/ exists e', f e = [e'] /\ e_c e' = e_c e) ->
  (forall x, In x (map e_c (flat_map f l)) -> In x (map e_c l)) /\
  (NoDup (map e_c l) -> NoDup (map e_c (flat_map f l))).
Proof.
  intros Hf. induction l as [|e l [IH1 IH2]]; simpl. { split; auto. }
  destruct (Hf e) as [E | [e' [E Ec]]]; rewrite E; simpl.
  - split; [intros x Hx; right; auto|]. intros Hnd. inversion Hnd; subst. auto.
  - split.
    + intros x [Hx|Hx]; [left; congruence | right; auto].
    + intros Hnd. inversion Hnd as [|? ? Hn Hnd']; subst. constructor; [|auto].
      rewrite Ec. intros Hin. apply Hn. auto.
Qed.

Lemma revoke_shape c or ow nr nw e :
  (fun e => if Nat.eqb (e_c e) c then
              let r := e_r e && negb (or && negb nr) in
              let w := e_w e && negb (ow && negb nw) in
              if r || w then [mkentry c r w] else []
            else [e]) e = [] \/
  exists e', (fun e => if Nat.eqb (e_c e) c then
              let r := e_r e && negb (or && negb nr) in
              let w := e_w e && negb (ow && negb nw) in
              if r || w then [mkentry c r w] else []
            else [e]) e = [e'] /\ e_c e' = e_c e.
Proof.
  cbv beta. destruct (Nat.eqb (e_c e) c) eqn:Ec.
  - apply eqb_true_eq in Ec. cbv zeta. destruct (_ || _); [right | left; reflexivity].
    eexists; split; [reflexivity|]. simpl. congruence.
  - right. eexists; split; reflexivity.
Qed.

Lemma filter_flat_map (f : entry -> bool) l : filter f l = flat_map (fun e => if f e then [e] else []) l.
Proof. induction l as [|e l IH]; simpl; auto. destruct (f e); simpl; congruence. Qed.

Lemma resel_clients c s s' l :
  (forall x, In x (map e_c (resel c s s' l)) -> In x (map e_c l)) /\
  (NoDup (map e_c l) -> NoDup (map e_c (resel c s s' l))).
Proof.
  unfold resel. destruct (registered s'), (registered s); try (split; auto; fail).
  - unfold revoke. destruct (eqb _ _ && eqb _ _); [split; auto|].
    apply flat_map_clients. intros e. apply revoke_shape.
  - unfold forget. rewrite filter_flat_map. apply flat_map_clients. intros e.
    destruct (negb _); [right; eexists; split; reflexivity | left; reflexivity].
Qed.

(* entries of other clients are not touched *)
Lemma resel_other c s s' l e : In e l -> e_c e <> c -> In e (resel c s s' l).
Proof.
  intros Hin Hne. unfold resel. destruct (registered s'), (registered s); auto.
  - unfold revoke. destruct (eqb _ _ && eqb _ _); auto.
    apply in_flat_map. exists e. split; auto.
    destruct (Nat.eqb (e_c e) c) eqn:Ec; [apply eqb_true_eq in Ec; contradiction | left; reflexivity].
  - unfold forget. apply filter_In. split; auto. apply negb_true_iff. apply Nat.eqb_neq. exact Hne.
Qed.

(* a part the client still wants stays *)
Lemma resel_keeps_w c s s' l :
  registered s = true -> registered s' = true -> int_w s' = true -> has_w c l -> has_w c (resel c s s' l).
Proof.
  intros Hr Hr' Hw [e [Hin [Hc He]]]. unfold resel. rewrite Hr, Hr'. unfold revoke.
  destruct (eqb _ _ && eqb _ _). { exists e. auto. }
  exists (mkentry c (e_r e && negb (int_r s && negb (int_r s'))) (e_w e && negb (int_w s && negb (int_w s')))).
  split; [|simpl; split; [reflexivity|rewrite He, Hw; simpl; rewrite andb_false_r; reflexivity]].
  apply in_flat_map. exists e. split; auto. rewrite Hc, Nat.eqb_refl. cbv zeta.
  rewrite He, Hw. simpl. rewrite andb_false_r. simpl. rewrite orb_true_r. left. reflexivity.
Qed.

Lemma resel_keeps_r c s s' l :
  registered s = true -> registered s' = true -> int_r s' = true -> has_r c l -> has_r c (resel c s s' l).
Proof.
  intros Hr Hr' Hw [e [Hin [Hc He]]]. unfold resel. rewrite Hr, Hr'. unfold revoke.
  destruct (eqb _ _ && eqb _ _). { exists e. auto. }
  exists (mkentry c (e_r e && negb (int_r s && negb (int_r s'))) (e_w e && negb (int_w s && negb (int_w s')))).
  split; [|simpl; split; [reflexivity|rewrite He, Hw; simpl; rewrite andb_false_r; reflexivity]].
  apply in_flat_map. exists e. split; auto. rewrite Hc, Nat.eqb_refl. cbv zeta.
  rewrite He, Hw. simpl. rewrite andb_false_r. simpl. left. reflexivity.
Qed.

Lemma has_w_other c c' s s' l : c <> c' -> has_w c l -> has_w c (resel c' s s' l).
Proof. intros Hne [e [Hin [Hc He]]]. exists e. split; [apply resel_other; congruence | auto]. Qed.

Lemma has_r_other c c' s s' l : c <> c' -> has_r c l -> has_r c (resel c' s s' l).
Proof. intros Hne [e [Hin [Hc He]]]. exists e. split; [apply resel_other; congruence | auto]. Qed.

Lemma has_w_clients c l : has_w c l -> In c (map e_c l).
Proof. intros [e [Hin [Hc _]]]. rewrite <- Hc. apply in_map. exact Hin. Qed.

Lemma has_r_clients c l : has_r c l -> In c (map e_c l).
Proof. intros [e [Hin [Hc _]]]. rewrite <- Hc. apply in_map. exact Hin. Qed.

(* one poll round that reports every client at most once *)
Lemma collect_clients (g : nat -> st) evs :
  (forall x, In x (map e_c (flat_map (fun cn => collect_one (g (fst cn)) (fst cn) (snd cn)) evs)) -> In x (map fst evs)) /\
  (NoDup (map fst evs) -> NoDup (map e_c (flat_map (fun cn => collect_one (g (fst cn)) (fst cn) (snd cn)) evs))).
Proof.
  induction evs as [|[c n] evs [IH1 IH2]]; simpl. { split; auto. }
  assert (Hone : collect_one (g c) c n = [] \/ exists e, collect_one (g c) c n = [e] /\ e_c e = c).
  { unfold collect_one. destruct (negb (registered (g c))); [left; reflexivity|].
    destruct (negb (reported _)); [left; reflexivity|]. destruct (unmap_events _ _) as [r w].
    right. eexists; split; reflexivity. }
  destruct Hone as [E | [e [E Ec]]]; rewrite E; simpl.
  - split; [intros x Hx; right; auto|]. intros Hnd. inversion Hnd; subst. auto.
  - split.
    + intros x [Hx|Hx]; [left; congruence | right; auto].
    + intros Hnd. inversion Hnd as [|? ? Hn Hnd']. constructor; [|auto].
      rewrite Ec. intros Hin. apply Hn. auto.
Qed.

Lemma asked2_cases c evs :
  NoDup (map fst evs) ->
  (~ In c (map fst evs) /\ asked2 c evs = []) \/
  (exists n, In (c, n) evs /\ asked2 c evs = ask_events (nout n) (nin n)).
Proof.
  induction evs as [|[c' n] evs IH]; intros Hnd; simpl. { left. split; auto. }
  inversion Hnd as [|? ? Hn Hnd']; subst. unfold asked2. simpl. fold (asked2 c evs).
  destruct (Nat.eqb c' c) eqn:Ec.
  - apply eqb_true_eq in Ec. subst c'. right. exists n. split; [left; reflexivity|].
    destruct (IH Hnd') as [[_ ->] | [n' [Hin _]]]; [apply app_nil_r|].
    exfalso. apply Hn. change c with (fst (c, n')). apply in_map. exact Hin.
  - apply eqb_false_neq in Ec. destruct (IH Hnd') as [[Hni ->] | [n' [Hin ->]]].
    + left. split; [intros [E|E]; [congruence | contradiction] | reflexivity].
    + right. exists n'. split; [right; exact Hin | reflexivity].
Qed.

(* ---- what the steps show: no kernel-asked events, and the events that discharge a deadline ---------- *)

Lemma quiet_send_events r : forallb quiet (send_events r) = true.
Proof.
  unfold send_events. destruct (o_drop r); [reflexivity|]. destruct (o_sends r) as [|[a b] t]; [reflexivity|].
  destruct (0 <? b); reflexivity.
Qed.

Lemma quiet_cbs l : forallb quiet (map ECb l) = true.
Proof. induction l as [|c l IH]; simpl; auto. Qed.

Lemma quiet_dispatch r : forallb quiet (dispatch_events false false r) = true.
Proof. unfold dispatch_events, ask_events. simpl. rewrite forallb_app, quiet_send_events, quiet_cbs. reflexivity. Qed.

Lemma quiet_events_of rn y r : forallb quiet (events_of false rn y r) = true.
Proof.
  unfold events_of. destruct (o_dead r); [reflexivity|].
  destruct y; simpl; try reflexivity; try apply quiet_dispatch; try apply quiet_cbs.
  destruct (write_fault d r); reflexivity.
Qed.

Lemma quiet_events2 c x r : forallb quiet (events2 c x r) = true.
Proof.
  unfold events2. destruct (o2_c r) as [c'|]; [|reflexivity]. destruct (Nat.eqb c' c); [|reflexivity].
  destruct x; try reflexivity; [apply quiet_events_of | apply quiet_dispatch | apply quiet_cbs].
Qed.

Lemma quiet_probe s : forallb quiet (size_probe s) = true.
Proof. unfold size_probe. destruct (removed s); reflexivity. Qed.

(* a notification with the write part offers the backlog (or the connection is given up) *)
Lemma flags_kill_due s rf o s' x :
  dispatch_flags s rf true o = (s', x) -> sendbuf s <> [] ->
  existsb kills_due (send_events x ++ map ECb (o_cbs x)) = true.
Proof.
  intros H Hne. unfold dispatch_flags in H.
  destruct (write_ready s o) as [[s1 r1] fin] eqn:Ew. apply write_ready_cases in Ew.
  assert (Hx : send_events x = send_events r1).
  { destruct fin; [inv_pair H; reflexivity|]. destruct (negb rf); inv_pair H; reflexivity. }
  rewrite existsb_app, Hx. apply orb_true_iff. left.
  destruct Ew as [He _ _ _ | _ _ _ -> _ | sent _ _ _ _ -> _ | _ Hle _ -> _]; [congruence | reflexivity | |].
  - unfold send_events. simpl. destruct (0 <? _); reflexivity.
  - unfold send_events. simpl. destruct (0 <? _); reflexivity.
Qed.

(* a notification with the read part delivers onRead, or served the write side, or the connection is given up *)
Lemma flags_kill_rdue s wf o s' x :
  dispatch_flags s true wf o = (s', x) ->
  existsb kills_rdue (send_events x ++ map ECb (o_cbs x)) = true.
Proof.
  intros H. unfold dispatch_flags in H. rewrite existsb_app. apply orb_true_iff.
  destruct wf; [|inv_pair H; right; reflexivity].
  destruct (write_ready s o) as [[s1 r1] fin] eqn:Ew. apply write_ready_cases in Ew.
  destruct Ew as [_ _ -> -> | _ _ _ -> -> | sent _ _ _ _ -> -> | _ _ _ -> ->]; simpl in H; inv_pair H;
    try (right; reflexivity); left; reflexivity.
Qed.

Definition plain (y : op) : Prop := match y with Dispatch _ _ | PollReal _ => False | _ => True end.

Lemma plain_keeps_backlog s y s' r :
  plain y -> step s y = (s', r) -> removed s' = false -> sendbuf s <> [] -> sendbuf s' <> [].
Proof.
  intros Hp H Hrm Hne. unfold step in H. destruct (removed s) eqn:Er. { inv_pair H. assumption. }
  destruct y; try contradiction.
  - apply do_write_cases in H. destruct H as [_ -> _ | He _ _ _ | He _ _ _ | sent He _ _ _ _]; try congruence.
    simpl. destruct (sendbuf s); simpl; congruence.
  - destruct (closing s); inv_pair H; assumption.
  - inv_pair H. unfold do_suspend. destruct (suspended s); [assumption|]. destruct (buf_isEmpty _); simpl; assumption.
  - inv_pair H. unfold do_resume. destruct (negb (suspended s)); [assumption|]. destruct (buf_isEmpty _); simpl; assumption.
  - unfold do_read in H. destruct (recv_count _ _ _) as [k|]; [destruct (k =? 0)|]; inv_pair H; assumption.
  - inv_pair H. destruct (peer_closed s); assumption.
  - destruct (peer_closed s); inv_pair H; assumption.
  - destruct (peer_closed s); inv_pair H; assumption.
  - inv_pair H. simpl in Hrm. discriminate.
Qed.

Lemma suspend_kills rn r : o_dead r = false -> existsb kills_rdue (events_of false rn Suspend r) = true.
Proof. intros H. unfold events_of. rewrite H. reflexivity. Qed.

(* ---- the coupling --------------------------------------------------------------------------------- *)

Record K (c : nat) (fresh : bool) (mn : mon) (m : st2) : Prop := mkK {
  k_mi : MI (z mn) (get2 m c);
  k_nd : NoDup (map e_c (sel m));
  k_w : m_void mn = false -> m_due mn <> O -> has_w c (sel m);
  k_r : m_void mn = false -> m_rdue mn <> O -> has_r c (sel m);
  k_f : m_void mn = false -> (m_due mn = 1%nat \/ m_rdue mn = 1%nat) -> fresh = false
}.

Lemma K_build c fresh mn mn2 m m' :
  K c fresh mn m -> MI (z mn2) (get2 m' c) -> simfacts mn mn2 -> NoDup (map e_c (sel m')) ->
  (m_void mn2 = false -> m_due mn2 <> O -> has_w c (sel m) -> has_w c (sel m')) ->
  (m_void mn2 = false -> m_rdue mn2 <> O -> has_r c (sel m) -> has_r c (sel m')) ->
  K c fresh mn2 m'.
Proof.
  intros [Kmi Knd Kw Kr Kf] HMI [Sd Sr Sv] Hnd Hw Hr.
  assert (Hv : m_void mn2 = false -> m_void mn = false).
  { intros E. destruct (m_void mn) eqn:Em; auto. rewrite (Sv eq_refl) in E. discriminate. }
  split; auto.
  - intros E Hd. apply Hw; auto. apply Kw; auto. destruct Sd as [X|X]; congruence.
  - intros E Hd. apply Hr; auto. apply Kr; auto. destruct Sr as [X|X]; congruence.
  - intros E [Hd|Hd]; apply Kf; auto.
    + left. destruct Sd as [X|X]; [congruence | rewrite X in Hd; discriminate].
    + right. destruct Sr as [X|X]; [congruence | rewrite X in Hd; discriminate].
Qed.

Lemma MId_z d rd m s : MId d rd m s -> MI (z m) s.
Proof.
  intros [A B C]. split; simpl; auto. intros E. destruct (C E) as (R & P & Q & W & O' & _ & _). repeat split; auto.
Qed.

Lemma MI_not_removed m s : MI m s -> m_void m = false -> removed s = false.
Proof. intros [_ B _] E. destruct (removed s) eqn:Er; auto. rewrite (B eq_refl) in E. discriminate. Qed.

Lemma void_asks m w rdb : m_void m = true -> mon_run m (ask_events w rdb) = Go m.
Proof. intros E. unfold ask_events. destruct w, rdb; simpl; rewrite ?E; reflexivity. Qed.

Lemma collect_has_w m c n evs :
  inv (get2 m c) -> registered (get2 m c) = true -> In (c, n) evs -> nout n = true -> sendbuf (get2 m c) <> [] ->
  has_w c (sel (collect m evs)).
Proof.
  intros [Hi _ _] Hreg Hin Ho Hne. destruct (Hi Hreg) as [_ Hw].
  assert (Hiw : int_w (get2 m c) = true) by (rewrite Hw; apply negb_true_iff; apply nonnil_is_nil; exact Hne).
  exists (mkentry c (fst (unmap_events (get2 m c) (kernel_filter (get2 m c) n))) true). split; [|simpl; auto].
  unfold collect. simpl. apply in_flat_map. exists (c, n). split; [exact Hin|]. simpl.
  unfold collect_one. rewrite Hreg. simpl.
  assert (Hrep : reported (kernel_filter (get2 m c) n) = true).
  { unfold reported, kernel_filter. simpl. rewrite Ho, Hiw. simpl. rewrite orb_true_r. reflexivity. }
  rewrite Hrep. simpl. unfold unmap_events, kernel_filter. simpl. rewrite Ho, Hiw. simpl. left. reflexivity.
Qed.

Lemma collect_has_r m c n evs :
  inv (get2 m c) -> registered (get2 m c) = true -> In (c, n) evs -> nin n = true -> suspended (get2 m c) = false ->
  has_r c (sel (collect m evs)).
Proof.
  intros [Hi _ _] Hreg Hin Ho Hsu. destruct (Hi Hreg) as [Hr _].
  assert (Hir : int_r (get2 m c) = true) by (rewrite Hr, Hsu; reflexivity).
  exists (mkentry c true (snd (unmap_events (get2 m c) (kernel_filter (get2 m c) n)))). split; [|simpl; auto].
  unfold collect. simpl. apply in_flat_map. exists (c, n). split; [exact Hin|]. simpl.
  unfold collect_one. rewrite Hreg. simpl.
  assert (Hrep : reported (kernel_filter (get2 m c) n) = true).
  { unfold reported, kernel_filter. simpl. rewrite Ho, Hir. reflexivity. }
  rewrite Hrep. simpl. unfold unmap_events, kernel_filter. simpl. rewrite Ho, Hir. simpl. left. reflexivity.
Qed.

(* a poll round *)
Lemma K_collect c fresh mn m evs :
  inv2 m -> K c fresh mn m -> sel m = [] -> NoDup (map fst evs) ->
  exists mn', mon_run mn (asked2 c evs) = Go mn' /\ K c true mn' (collect m evs).
Proof.
  intros Hinv HK Hsel Hnd. pose proof HK as [Kmi Knd Kw Kr Kf].
  assert (Hnd' : NoDup (map e_c (sel (collect m evs)))).
  { unfold collect. simpl. apply (proj2 (collect_clients (get2 m) evs)). exact Hnd. }
  destruct (m_void mn) eqn:Ev.
  - exists mn. split.
    + destruct (asked2_cases c evs Hnd) as [[_ ->] | [n [_ ->]]]; [reflexivity | apply void_asks; exact Ev].
    + split; auto; intros E; congruence.
  - assert (Hd0 : m_due mn = O).
    { destruct (m_due mn) eqn:E; auto. destruct (Kw eq_refl) as [e [Hin _]]; [discriminate|]. rewrite Hsel in Hin. destruct Hin. }
    assert (Hr0 : m_rdue mn = O).
    { destruct (m_rdue mn) eqn:E; auto. destruct (Kr eq_refl) as [e [Hin _]]; [discriminate|]. rewrite Hsel in Hin. destruct Hin. }
    rewrite (z_id mn Hd0 Hr0) in Kmi.
    destruct (asked2_cases c evs Hnd) as [[_ ->] | [n [Hin ->]]].
    + exists mn. split; [reflexivity|]. split; auto.
      * rewrite (z_id mn Hd0 Hr0). exact Kmi.
      * intros _ E. congruence.
      * intros _ E. congruence.
      * intros _ [E|E]; congruence.
    + pose proof (MI_not_removed _ _ Kmi Ev) as Hrm.
      destruct (ask_accepted mn (get2 m c) (nout n) (nin n) Hrm Kmi) as [m1 [Hrun [HM1 Hv1]]].
      exists m1. split; [exact Hrun|].
      rewrite Ev in Hv1. destruct HM1 as [A B C]. destruct (C Hv1) as (Hreg & Hpc & Hp & Hw & Ho & Hdue & Hrdue).
      split; auto.
      * apply (MId_z (if nout n && negb (is_nil (sendbuf (get2 m c))) then 2%nat else O)
                     (if nin n && negb (suspended (get2 m c)) then 2%nat else O) m1 (get2 m c)). split; auto.
      * intros _ Hd. rewrite Hdue in Hd.
        destruct (nout n) eqn:En; [|simpl in Hd; congruence].
        destruct (is_nil (sendbuf (get2 m c))) eqn:Eb; [simpl in Hd; congruence|].
        apply (collect_has_w m c n evs); auto. apply inv_get2; assumption. apply is_nil_false; exact Eb.
      * intros _ Hd. rewrite Hrdue in Hd.
        destruct (nin n) eqn:En; [|simpl in Hd; congruence].
        destruct (suspended (get2 m c)) eqn:Eb; [simpl in Hd; congruence|].
        apply (collect_has_r m c n evs); auto. apply inv_get2; assumption.
      * intros _ [E|E]; [rewrite Hdue in E | rewrite Hrdue in E];
          repeat match type of E with context [if ?b then _ else _] => destruct b end; discriminate.
Qed.

(* the monitor follows a step that does not ask the kernel *)
Lemma K_follow c mn m x m' r :
  inv2 m -> MI (z mn) (get2 m c) -> step2 m x = (m', r) ->
  exists mn2, mon_run mn (events2 c x r) = Go mn2 /\ MI (z mn2) (get2 m' c) /\ simfacts mn mn2 /\
              (m_void mn2 = false -> existsb kills_due (events2 c x r) = true -> m_due mn2 = O) /\
              (m_void mn2 = false -> existsb kills_rdue (events2 c x r) = true -> m_rdue mn2 = O).
Proof.
  intros Hinv HMI H.
  destruct (step2_accepted c (z mn) m x m' r Hinv HMI H) as [m1 [Hrun HM1]].
  destruct (run_sim _ mn m1 (quiet_events2 c x r) Hrun) as [mn2 [H2 [Hz [SF [Kd Kr]]]]].
  exists mn2. rewrite Hz. auto.
Qed.

(* client c' goes from s to s' by an operation that is not a poll event *)
Lemma K_plain c fresh mn mn2 m c' y s' r' :
  inv2 m -> inv2 (put2 m c' (get2 m c') s' (sel m)) -> K c fresh mn m ->
  plain y -> step (get2 m c') y = (s', r') ->
  MI (z mn2) (get2 (put2 m c' (get2 m c') s' (sel m)) c) -> simfacts mn mn2 ->
  (c' = c -> y = Suspend -> m_void mn2 = false -> m_rdue mn2 = O) ->
  K c fresh mn2 (put2 m c' (get2 m c') s' (sel m)).
Proof.
  intros Hinv Hinv' HK Hp Hst HMI SF Hsusp.
  apply (K_build c fresh mn mn2 m _ HK HMI SF).
  - rewrite sel_put2. apply (proj2 (resel_clients c' (get2 m c') s' (sel m))). apply (k_nd _ _ _ _ HK).
  - intros Ev Hd Hw. rewrite sel_put2.
    destruct (Nat.eq_dec c c') as [<-|Hne]; [|apply has_w_other; assumption].
    rewrite get2_put2_same in HMI.
    destruct Hw as [e [Hin [Hc He]]].
    pose proof (i2_sel m Hinv) as Hok. unfold sel_ok in Hok. rewrite Forall_forall in Hok.
    specialize (Hok e Hin). rewrite Hc in Hok. destruct Hok as [Hreg [_ Hiw]]. specialize (Hiw He).
    destruct (interest_facts _ (inv_get2 m c Hinv) Hreg) as [_ Fw]. specialize (Fw Hiw).
    assert (Hv2 : m_void (z mn2) = false) by exact Ev.
    pose proof (MI_not_removed _ _ HMI Hv2) as Hrm'.
    destruct HMI as [_ _ Hl]. destruct (Hl Hv2) as (Hreg' & _).
    pose proof (plain_keeps_backlog _ _ _ _ Hp Hst Hrm' Fw) as Hne'.
    pose proof (inv_get2 _ c Hinv') as Hi'. rewrite get2_put2_same in Hi'.
    destruct Hi' as [Hint _ _]. destruct (Hint Hreg') as [_ Hw'].
    apply resel_keeps_w; auto.
    + rewrite Hw'. apply negb_true_iff. apply nonnil_is_nil. exact Hne'.
    + exists e. auto.
  - intros Ev Hd Hr. rewrite sel_put2.
    destruct (Nat.eq_dec c c') as [<-|Hne]; [|apply has_r_other; assumption].
    rewrite get2_put2_same in HMI.
    destruct Hr as [e [Hin [Hc He]]].
    pose proof (i2_sel m Hinv) as Hok. unfold sel_ok in Hok. rewrite Forall_forall in Hok.
    specialize (Hok e Hin). rewrite Hc in Hok. destruct Hok as [Hreg [Hir _]]. specialize (Hir He).
    destruct (interest_facts _ (inv_get2 m c Hinv) Hreg) as [Fr _]. specialize (Fr Hir).
    assert (Hv2 : m_void (z mn2) = false) by exact Ev.
    pose proof (MI_not_removed _ _ HMI Hv2) as Hrm'.
    destruct HMI as [_ _ Hl]. destruct (Hl Hv2) as (Hreg' & _).
    assert (Hny : y <> Suspend).
    { intros ->. apply Hd. apply Hsusp; auto. }
    pose proof (step_suspended _ _ _ _ (inv_get2 m c Hinv) Hst Hrm') as Hsu'.
    assert (Hsf : suspended s' = false).
    { rewrite Hsu', Fr. destruct y; try reflexivity. congruence. }
    pose proof (inv_get2 _ c Hinv') as Hi'. rewrite get2_put2_same in Hi'.
    destruct Hi' as [Hint _ _]. destruct (Hint Hreg') as [Hr' _].
    apply resel_keeps_r; auto.
    + rewrite Hr', Hsf. reflexivity.
    + exists e. auto.
Qed.

Lemma single_sel_nil m c' n o m' r :
  sel m = [] ->
  (if removed (get2 m c') then (m, mkout2 (Some c') out_dead false) else deliver (collect m [(c', n)]) o) = (m', r) ->
  sel m' = [].
Proof.
  intros Hs H. destruct (removed (get2 m c')); [inv_pair H; assumption|].
  unfold deliver in H. destruct (sel (collect m [(c', n)])) as [|e l] eqn:El; [inv_pair H; assumption|].
  destruct (dispatch_flags _ _ _ o) as [s' x]. inv_pair H. rewrite sel_put2.
  assert (l = []).
  { unfold collect in El. simpl in El. rewrite app_nil_r in El. unfold collect_one in El.
    destruct (negb (registered _)); [discriminate|]. destruct (negb (reported _)); [discriminate|].
    destruct (unmap_events _ _). inv_pair El. reflexivity. }
  subst l. apply resel_nil.
Qed.

Lemma K_step c fresh mn m x m' r :
  inv2 m -> K c fresh mn m -> step2 m x = (m', r) ->
  match x with Collect evs => NoDup (map fst evs) | _ => True end ->
  exists mn', mon_run mn (events2a c m x r) = Go mn' /\
              K c (match x with Collect _ => match sel m with [] => true | _ => fresh end | _ => fresh end) mn' m'.
Proof.
  intros Hinv HK H Hx.
  pose proof (inv2_step _ _ _ _ Hinv H) as Hinv'.
  destruct x as [c' y | evs | o |].
  - (* an operation on client c' *)
    unfold events2a.
    destruct (K_follow c mn m (On c' y) m' r Hinv (k_mi _ _ _ _ HK) H) as [mn2 [Hrun [HMI [SF [Kd Kr]]]]].
    exists mn2. split; [exact Hrun|].
    assert (Hplain : plain y -> K c fresh mn2 m').
    { intros Hp. unfold step2 in H.
      assert (Hform : exists s' r', step (get2 m c') y = (s', r') /\ m' = put2 m c' (get2 m c') s' (sel m) /\
                                    r = mkout2 (Some c') r' false).
      { destruct (step (get2 m c') y) as [s' r'] eqn:Es. exists s', r'.
        destruct y; try contradiction; inv_pair H; auto. }
      destruct Hform as [s' [r' [Es [-> ->]]]].
      apply (K_plain c fresh mn mn2 m c' y s' r'); auto.
      intros -> -> Ev. apply Kr; auto. unfold events2. cbn [o2_c o2_out]. rewrite Nat.eqb_refl.
      apply suspend_kills. unfold step in Es. destruct (removed (get2 m c)) eqn:Erm.
      - (* a removed client: the monitor is void *)
        exfalso. destruct (k_mi _ _ _ _ HK) as [_ Hdead _]. specialize (Hdead Erm). simpl in Hdead.
        destruct SF as [_ _ Sv]. rewrite (Sv Hdead) in Ev. discriminate.
      - inv_pair Es. reflexivity. }
    assert (Hsingle : forall n o,
      match sel m with
      | [] => if removed (get2 m c') then (m, mkout2 (Some c') out_dead false) else deliver (collect m [(c', n)]) o
      | _ :: _ => (m, out2_idle)
      end = (m', r) -> K c fresh mn2 m').
    { intros n o Hs. destruct (sel m) as [|e0 l0] eqn:Esel.
      - pose proof (single_sel_nil m c' n o m' r Esel Hs) as Hnil.
        apply (K_build c fresh mn mn2 m m' HK HMI SF).
        + rewrite Hnil. constructor.
        + intros _ _ [e [Hin _]]. rewrite Esel in Hin. destruct Hin.
        + intros _ _ [e [Hin _]]. rewrite Esel in Hin. destruct Hin.
      - inv_pair Hs. apply (K_build c fresh mn mn2 m' m' HK HMI SF); auto. apply (k_nd _ _ _ _ HK). }
    unfold step2 in H.
    destruct y; try (apply Hplain; exact I); eapply Hsingle; exact H.
  - (* a poll round *)
    unfold events2a. unfold step2 in H. destruct (sel m) as [|e0 l0] eqn:Esel.
    + inv_pair H. exact (K_collect c fresh mn m evs Hinv HK Esel Hx).
    + inv_pair H. exists mn. split; [reflexivity | exact HK].
  - (* the next collected notification is dispatched *)
    unfold events2a.
    destruct (K_follow c mn m (Deliver o) m' r Hinv (k_mi _ _ _ _ HK) H) as [mn2 [Hrun [HMI [SF [Kd Kr]]]]].
    exists mn2. split; [exact Hrun|].
    unfold step2, deliver in H. destruct (sel m) as [|e l] eqn:Esel.
    { inv_pair H. apply (K_build c fresh mn mn2 m' m' HK HMI SF); auto. apply (k_nd _ _ _ _ HK). }
    destruct (dispatch_flags (get2 m (e_c e)) (e_r e) (e_w e) o) as [s' x] eqn:Ed. inv_pair H.
    pose proof (k_nd _ _ _ _ HK) as Hnd. rewrite Esel in Hnd. simpl in Hnd.
    inversion Hnd as [|? ? Hnotin Hnd']; subst.
    pose proof (i2_sel m Hinv) as Hok. rewrite Esel in Hok. inversion Hok as [|? ? He Hl]; subst.
    apply (K_build c fresh mn mn2 m _ HK HMI SF).
    + rewrite sel_put2. apply (proj2 (resel_clients _ _ _ l)). exact Hnd'.
    + intros Ev Hd [e0 [Hin [Hc He0]]]. rewrite sel_put2. rewrite Esel in Hin.
      destruct (Nat.eq_dec (e_c e) c) as [Ec|Ec].
      * (* the notification of client c itself: it carried the write part, the backlog was offered *)
        exfalso. apply Hd. apply Kd; auto.
        assert (e0 = e).
        { destruct Hin as [E|Hin]; [auto|]. exfalso. apply Hnotin. rewrite Ec, <- Hc. apply in_map. exact Hin. }
        subst e0. unfold events2. cbn [o2_c o2_out]. rewrite Ec, Nat.eqb_refl.
        destruct He as [Hreg [_ Hiw]]. specialize (Hiw He0).
        destruct (interest_facts _ (inv_get2 m (e_c e) Hinv) Hreg) as [_ Fw].
        rewrite He0 in Ed. apply (flags_kill_due _ _ _ _ _ Ed (Fw Hiw)).
      * destruct Hin as [E|Hin]; [subst e0; contradiction|].
        apply has_w_other; [congruence|]. exists e0. auto.
    + intros Ev Hd [e0 [Hin [Hc He0]]]. rewrite sel_put2. rewrite Esel in Hin.
      destruct (Nat.eq_dec (e_c e) c) as [Ec|Ec].
      * exfalso. apply Hd. apply Kr; auto.
        assert (e0 = e).
        { destruct Hin as [E|Hin]; [auto|]. exfalso. apply Hnotin. rewrite Ec, <- Hc. apply in_map. exact Hin. }
        subst e0. unfold events2. cbn [o2_c o2_out]. rewrite Ec, Nat.eqb_refl.
        rewrite He0 in Ed. apply (flags_kill_rdue _ _ _ _ _ Ed).
      * destruct Hin as [E|Hin]; [subst e0; contradiction|].
        apply has_r_other; [congruence|]. exists e0. auto.
  - (* onClosed for the client that has been owed it longest *)
    unfold events2a.
    destruct (K_follow c mn m Sweep m' r Hinv (k_mi _ _ _ _ HK) H) as [mn2 [Hrun [HMI [SF [Kd Kr]]]]].
    exists mn2. split; [exact Hrun|].
    unfold step2 in H. destruct (closq m) as [|c' k].
    { inv_pair H. apply (K_build c fresh mn mn2 m' m' HK HMI SF); auto. apply (k_nd _ _ _ _ HK). }
    destruct (step (get2 m c') CloseSweep) as [s' r'] eqn:Es. inv_pair H.
    apply (K_plain c fresh mn mn2 m c' CloseSweep s' r'); auto; try exact I. intros _ E. discriminate.
Qed.

(* ---- histories ------------------------------------------------------------------------------------ *)

Lemma K_runend c fresh mn m :
  K c fresh mn m -> (sel m = [] \/ fresh = true) ->
  exists mn', mon_step mn ERunEnd = Go mn' /\ K c false mn' m.
Proof.
  intros [Kmi Knd Kw Kr Kf] Hok.
  destruct mn as [pend wire0 susp owed may due rdue void]. simpl in *.
  destruct void. { eexists; split; [reflexivity|]. split; auto; simpl; intros E; discriminate. }
  assert (Hd : due <> 1%nat).
  { intros ->. destruct Hok as [Hs|Hf].
    - destruct (Kw eq_refl) as [e [Hin _]]; [discriminate|]. rewrite Hs in Hin. destruct Hin.
    - rewrite (Kf eq_refl (or_introl eq_refl)) in Hf. discriminate. }
  assert (Hr : rdue <> 1%nat).
  { intros ->. destruct Hok as [Hs|Hf].
    - destruct (Kr eq_refl) as [e [Hin _]]; [discriminate|]. rewrite Hs in Hin. destruct Hin.
    - rewrite (Kf eq_refl (or_intror eq_refl)) in Hf. discriminate. }
  assert (Ht : forall k, k <> 1%nat -> exists k', tick k = Some k' /\ (k' <> O -> k <> O)).
  { intros k Hk. destruct k as [|[|k]]; [exists O | congruence | exists (S k)]; simpl; split; auto; congruence. }
  destruct (Ht due Hd) as [d' [Ed Hd']]. destruct (Ht rdue Hr) as [r' [Er Hr']].
  rewrite Ed, Er. eexists; split; [reflexivity|]. split; simpl; auto.
Qed.

Lemma K_probe c fresh mn m d :
  K c fresh mn m ->
  exists mn', mon_run mn (if Nat.eqb d c then size_probe (get2 m c) else []) = Go mn' /\ K c fresh mn' m.
Proof.
  intros HK. destruct (Nat.eqb d c); [|exists mn; split; [reflexivity | exact HK]].
  destruct (probe_accepted (z mn) (get2 m c) (k_mi _ _ _ _ HK)) as [m1 [Hrun HM1]].
  destruct (run_sim _ mn m1 (quiet_probe (get2 m c)) Hrun) as [mn2 [H2 [Hz [SF _]]]].
  exists mn2. split; [exact H2|]. apply (K_build c fresh mn mn2 m m HK); auto. rewrite Hz. exact HM1.
  apply (k_nd _ _ _ _ HK).
Qed.

Lemma trace2a_accepted c l : forall fresh mn m,
  inv2 m -> K c fresh mn m -> runs_ok fresh m l -> exists m', mon_run mn (trace2a c m l) = Go m'.
Proof.
  induction l as [|h l IH]; intros fresh mn m Hinv HK Hok; simpl. { eexists; reflexivity. }
  destruct h as [x | d | ]; simpl in Hok.
  - destruct Hok as [Hx Hok]. destruct (step2 m x) as [m1 r] eqn:E. simpl in Hok.
    destruct (K_step c fresh mn m x m1 r Hinv HK E Hx) as [mn1 [Hrun HK1]].
    rewrite mon_run_app, Hrun. eapply IH; [eapply inv2_step; eauto | exact HK1 | exact Hok].
  - destruct (K_probe c fresh mn m d HK) as [mn1 [Hrun HK1]].
    rewrite mon_run_app, Hrun. eapply IH; eauto.
  - destruct Hok as [Hend Hok]. destruct (K_runend c fresh mn m HK Hend) as [mn1 [Hrun HK1]].
    change (mon_run mn (ERunEnd :: trace2a c m l)) with
      (match mon_step mn ERunEnd with Go m' => mon_run m' (trace2a c m l) | Stop k => Stop k end).
    rewrite Hrun. eapply IH; eauto.
Qed.

Lemma K_init c : K c false mon_init init2.
Proof.
  split; simpl.
  - rewrite get2_init2. apply MI_init.
  - constructor.
  - intros _ E. congruence.
  - intros _ E. congruence.
  - intros _ [E|E]; discriminate.
Qed.

Lemma n_client_deadlines_lemma h c : runs_ok false init2 h -> accepted_trace (trace2a c init2 h).
Proof. intros Hok. apply (trace2a_accepted c h false mon_init init2); [apply inv2_init | apply K_init | exact Hok]. Qed.
