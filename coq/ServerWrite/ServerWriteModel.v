(* MODEL of the client write path of src/Socket/Server.cpp (POSIX build), decision by decision, as the
   code is after the repair fixes/C13/01 (commit "fix: Server: a client that is readable and writable
   gets its send backlog flushed"):
     Server::Private::ClientImpl::write / read / suspend / resume
     the client part of the dispatch of Private::run: write part first (send backlog, drop the sent
       prefix, on drain restore interest + onWrite + continue; failure: free, remove, onClosed,
       continue; EWOULDBLOCK: sent = 0), then onRead when the event also carries readFlag
     the closing-clients pass of Private::run
     Private::remove(ClientImpl&) / deleteClient
     Socket::send's mapping of EAGAIN to "error 0"                      (Socket.cpp Socket::send)
     Socket::Poll::Private::{mapEvents,unmapEvents,set,remove} (linux)  (Socket.cpp, epoll variant)
   One client.  The operating system is an input: every send call is answered by the [outcome]
   carried by the operation, every poll event by the [native] readiness carried by the
   operation.  [dispatch_unrepaired] is the dispatch rule before the repair (only used to state the
   defect as a theorem).  No proofs in this file. *)
From Coq Require Import ZArith List Bool.
From ServerWrite Require Import ServerWriteSpec.
Import ListNotations.
Local Open Scope Z_scope.
Local Open Scope bool_scope.

(* ---- the Buffer operations the Server uses (C08 owns the full Buffer model) ---------------- *)
Definition buf := list Z.
Definition buf_isEmpty (b : buf) : bool := is_nil b.
Definition buf_size (b : buf) : Z := zlen b.
Definition buf_append (b : buf) (d : list Z) : buf := b ++ d.
Definition buf_removeFront (b : buf) (k : Z) : buf := zdrop k b.
Definition buf_free (b : buf) : buf := [].

(* ---- Socket::send : (return value, getLastError() == 0) ----------------------------------- *)
Definition send_ret (n : Z) (o : outcome) : Z * bool :=
  match o with
  | WouldBlock => (-1, true)        (* ::send = -1, errno EAGAIN -> SET_ERRNO(0), return -1 *)
  | Error => (-1, false)
  | Zero => (0, false)
  | Full => (n, false)
  | Sent k => (send_count n k, false)
  end.

Record st := mkst {
  sendbuf : buf;            (* ClientImpl::_sendBuffer *)
  suspended : bool;         (* ClientImpl::_suspended *)
  registered : bool;        (* the socket has an entry in Poll::Private::sockets *)
  int_r : bool;             (* SocketInfo::events & readFlag *)
  int_w : bool;             (* SocketInfo::events & writeFlag *)
  closing : bool;           (* member of Private::_closingClients *)
  removed : bool;           (* deleteClient ran: the object is gone *)
  wire : list Z;            (* kernel: bytes accepted by send, not yet read by the peer *)
  inbound : list Z;         (* kernel: bytes sent by the peer, not yet received *)
  peer_closed : bool
}.

(* Server::pair: _sockets.set(client, readFlag) *)
Definition init : st := mkst [] false true true false false false [] [] false.

Definition set_buf (s : st) (b : buf) : st :=
  mkst b (suspended s) (registered s) (int_r s) (int_w s) (closing s) (removed s) (wire s) (inbound s) (peer_closed s).
Definition set_susp (s : st) (v : bool) : st :=
  mkst (sendbuf s) v (registered s) (int_r s) (int_w s) (closing s) (removed s) (wire s) (inbound s) (peer_closed s).
Definition set_closing (s : st) (v : bool) : st :=
  mkst (sendbuf s) (suspended s) (registered s) (int_r s) (int_w s) v (removed s) (wire s) (inbound s) (peer_closed s).
Definition set_wire (s : st) (w : list Z) : st :=
  mkst (sendbuf s) (suspended s) (registered s) (int_r s) (int_w s) (closing s) (removed s) w (inbound s) (peer_closed s).
Definition set_inbound (s : st) (w : list Z) : st :=
  mkst (sendbuf s) (suspended s) (registered s) (int_r s) (int_w s) (closing s) (removed s) (wire s) w (peer_closed s).
Definition set_peer_closed (s : st) : st :=
  mkst (sendbuf s) (suspended s) (registered s) (int_r s) (int_w s) (closing s) (removed s) (wire s) (inbound s) true.

(* Poll::set(socket, flags): adds the socket when it has no entry, else changes the events *)
Definition poll_set (s : st) (r w : bool) : st :=
  mkst (sendbuf s) (suspended s) true r w (closing s) (removed s) (wire s) (inbound s) (peer_closed s).
(* Poll::remove(socket) *)
Definition poll_remove (s : st) : st :=
  mkst (sendbuf s) (suspended s) false false false (closing s) (removed s) (wire s) (inbound s) (peer_closed s).

(* the kernel takes [tx] *)
Definition os_take (s : st) (tx : list Z) : st := set_wire s (wire s ++ tx).

(* ---- ClientImpl::write ------------------------------------------------------------------------ *)
Definition do_write (s : st) (d : list Z) (o : outcome) : st * out :=
  let size := zlen d in
  if buf_isEmpty (sendbuf s) then
    let '(sent0, e0) := send_ret size o in                       (* ssize sent = send(data, size) *)
    let log := [(size, sent0)] in
    let fail := (set_closing s true, mkout (Some false) 0 [] [] log [] false false) in
                                                                 (* *postponed = 0; _closingClients.append(this); return false *)
    let go (sent : Z) :=
      let tx := ztake sent d in
      let s1 := os_take s tx in
      if sent >=? size then                                      (* if ((usize)sent >= size) *)
        (s1, mkout (Some true) 0 [] tx log [] false false)
      else
        let s2 := set_buf s1 (buf_append (sendbuf s1) (zdrop sent d)) in       (* _sendBuffer.append(data + sent, size - sent) *)
        let s3 := if suspended s2 then poll_set s2 false true else poll_set s2 true true in
        (s3, mkout (Some true) (buf_size (sendbuf s3)) [] tx log [] false false) in
    if sent0 =? -1 then                                          (* case -1: *)
      if e0 then go 0                                            (*   EWOULDBLOCK: sent = 0; break *)
      else fail                                                  (*   no break *)
    else if sent0 =? 0 then fail                                 (* case 0: *)
    else go sent0                                                (* default: break *)
  else
    let s1 := set_buf s (buf_append (sendbuf s) d) in            (* _sendBuffer.append(data, size) *)
    (s1, mkout (Some true) (buf_size (sendbuf s1)) [] [] [] [] false false).

(* ---- the write-readiness part of the client dispatch in run() ---------------------------------
   The third component says whether the part ended in a `continue` (a callback was delivered:
   the event is finished, whatever other flags it carried). *)
Definition drained (s : st) (tx : list Z) (log : list (Z * Z)) : st * out * bool :=
  if buf_isEmpty (sendbuf s) then                                (* if (client._sendBuffer.isEmpty()) *)
    let s1 := set_buf s (buf_free (sendbuf s)) in
    let s2 := if suspended s1 then poll_set s1 false false else poll_set s1 true false in
    (s2, mkout None 0 [OnWrite] tx log [] false false, true)     (* onWrite(); continue *)
  else (s, mkout None 0 [] tx log [] false false, false).

Definition write_ready (s : st) (o : outcome) : st * out * bool :=
  if negb (buf_isEmpty (sendbuf s)) then
    let size := buf_size (sendbuf s) in
    let '(sent0, e0) := send_ret size o in                       (* client.send(_sendBuffer, _sendBuffer.size()) *)
    let log := [(size, sent0)] in
    let fail :=
      let s1 := set_buf s (buf_free (sendbuf s)) in              (* _sendBuffer.free() *)
      let s2 := poll_remove s1 in                                (* _sockets.remove(client) *)
      (s2, mkout None 0 [OnClosed] [] log [] true false, true) in (* _callback->onClosed(); continue *)
    let go (sent : Z) :=
      let tx := ztake sent (sendbuf s) in
      let s1 := os_take s tx in
      let s2 := set_buf s1 (buf_removeFront (sendbuf s1) sent) in  (* _sendBuffer.removeFront(sent) *)
      drained s2 tx log in
    if sent0 =? -1 then
      if e0 then go 0                                            (* EWOULDBLOCK: sent = 0; break *)
      else fail
    else if sent0 =? 0 then fail
    else go sent0
  else drained s [] [].

(* ---- Poll (linux): what the kernel reports, unmapEvents, and the dispatch rule of run() ----- *)
(* mapEvents: EPOLLIN iff readFlag, EPOLLOUT iff writeFlag, EPOLLRDHUP (and EPOLLHUP) iff either;
   the kernel reports EPOLLHUP and EPOLLERR whether asked for or not *)
Definition kernel_filter (s : st) (n : native) : native :=
  mknative (nin n && int_r s) (nout n && int_w s) (nhup n) (nrdhup n && (int_r s || int_w s)) (nerr n).

(* epoll_wait has something to report for the descriptor *)
Definition reported (n : native) : bool := nin n || nout n || nhup n || nrdhup n || nerr n.

Definition unmap_events (s : st) (n : native) : bool * bool :=
  let r := (nin n || nrdhup n || nhup n) && int_r s in           (* if (native & (IN|RDHUP|HUP)) result = events & readFlag *)
  let w := (nout n || (negb r && (nrdhup n || nhup n))) && int_w s in   (* if (native & OUT || result == 0 && native & (RDHUP|HUP)) result |= events & writeFlag *)
  (r, w).

Definition add_cb (r : out) (c : cb) : out :=
  mkout (o_ret r) (o_num r) (o_cbs r ++ [c]) (o_tx r) (o_sends r) (o_data r) (o_drop r) (o_dead r).

(* the client part of the dispatch: the write part first, then - unless the write part already
   delivered a callback - the read notification of the same event *)
Definition dispatch_flags (s : st) (r w : bool) (o : outcome) : st * out :=
  if w then                                                      (* if (flags & writeFlag) { *)
    let '(s1, r1, fin) := write_ready s o in
    if fin then (s1, r1)                                         (*   ... continue; *)
    else if negb r then (s1, r1)                                 (*   if (!(flags & readFlag)) continue; } *)
    else (s1, add_cb r1 OnRead)                                  (* if (flags & readFlag) onRead() *)
  else if r then (s, out_cb OnRead)
  else (s, out_none).                                            (* flags == 0: handled like a timeout *)

Definition dispatch (s : st) (n : native) (o : outcome) : st * out :=
  if negb (registered s) then (s, out_none)                      (* descriptor not in the epoll set *)
  else
    let n' := kernel_filter s n in
    if negb (reported n') then (s, out_none)    (* epoll_wait reports nothing *)
    else
      let '(r, w) := unmap_events s n' in
      dispatch_flags s r w o.

(* The dispatch rule of the code BEFORE the repair fixes/C13/01 (`if (read) onRead(); else if
   (write) {...}` with `continue` on EWOULDBLOCK): kept only to state the defect as a theorem
   (Properties_C13.unrepaired_dispatch_starves_backlog); not part of [step]. *)
Definition dispatch_unrepaired (s : st) (n : native) (o : outcome) : st * out :=
  if negb (registered s) then (s, out_none)
  else
    let n' := kernel_filter s n in
    if negb (reported n') then (s, out_none)
    else
      let '(r, w) := unmap_events s n' in
      if r then (s, out_cb OnRead)
      else if w then let '(s1, r1, _) := write_ready s o in (s1, r1)
      else (s, out_none).

(* ---- ClientImpl::read --------------------------------------------------------------------------- *)
Definition do_read (s : st) (max : Z) : st * out :=
  match recv_count (inbound s) (peer_closed s) max with
  | None => (s, mkout (Some false) 0 [] [] [] [] false false)                   (* -1, EWOULDBLOCK *)
  | Some r =>
      if r =? 0 then (set_closing s true, mkout (Some false) 0 [] [] [] [] false false)
      else (set_inbound s (zdrop r (inbound s)), mkout (Some true) r [] [] [] (ztake r (inbound s)) false false)
  end.

(* ---- suspend / resume ---------------------------------------------------------------------------- *)
Definition do_suspend (s : st) : st :=
  if suspended s then s
  else let s1 := set_susp s true in
       if buf_isEmpty (sendbuf s1) then poll_set s1 false false else poll_set s1 false true.

Definition do_resume (s : st) : st :=
  if negb (suspended s) then s
  else let s1 := set_susp s false in
       if buf_isEmpty (sendbuf s1) then poll_set s1 true false else poll_set s1 true true.

(* ---- remove(client) (callback set) = deleteClient: _closingClients.remove, _sockets.remove,
        _clients.remove (destructor closes the socket and releases the buffer) ------------------- *)
Definition do_remove (s : st) : st :=
  mkst [] (suspended s) false false false false true (wire s) (inbound s) (peer_closed s).

Definition step (s : st) (x : op) : st * out :=
  if removed s then (s, out_dead)
  else
  match x with
  | Write d o => do_write s d o
  | Dispatch n o => dispatch s n o
  | PollReal o => dispatch s (real_native (inbound s) (peer_closed s)) o
  | CloseSweep =>
      if closing s then (set_closing s false, out_cb OnClosed)   (* removeFront; _callback->onClosed() *)
      else (s, out_none)
  | Suspend => (do_suspend s, out_none)
  | Resume => (do_resume s, out_none)
  | Read max => do_read s max
  | PeerWrite d => ((if peer_closed s then s else set_inbound s (inbound s ++ d)), out_none)
  | PeerRead =>
      if peer_closed s then (s, out_none)
      else (set_wire s [], mkout None 0 [] [] [] (wire s) false false)
  | PeerClose =>
      if peer_closed s then (s, out_none)
      else (set_peer_closed (set_wire s []), mkout None 0 [] [] [] (wire s) false false)
  | Remove => (do_remove s, out_none)
  end.

Fixpoint exec (s : st) (l : list op) : st * list out :=
  match l with
  | [] => (s, [])
  | x :: l' => let '(s1, r) := step s x in let '(s2, rs) := exec s1 l' in (s2, r :: rs)
  end.

(* public accessors *)
Definition getSendBufferSize (s : st) : Z := buf_size (sendbuf s).
Definition isSuspended (s : st) : bool := suspended s.
