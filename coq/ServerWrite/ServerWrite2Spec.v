(* SPEC for the part of property C13 that needs more than one client:
     "a suspended client gets no read notifications until it is resumed"
   also when the notification was already collected: one poll round of the Server gathers the
   readiness of SEVERAL clients and hands the notifications out one by one; what a callback of one
   client does to another client (suspend it, write to it, remove it) happens between the collection
   and the delivery of the other client's notification.

   Reference object: one per-client reference object (ServerWriteSpec.sst) for each of ANY NUMBER of
   clients (a list indexed by the client number; a client beyond the list is in its initial state) +
   the notifications
   collected in the current round and not yet delivered [pend] + the order in which onClosed is owed
   [s_clq].  A pending notification is REVOKED as far as the client stops wanting it (suspend revokes
   the read part, a drained/discarded queue the write part; a connection given up or removed loses
   the whole notification).  What the client starts wanting after the collection is not added to a
   pending notification (the readiness is reported again by the next round: level-triggered).

   This file also fixes the vocabulary shared with the model (ServerWrite2Model.v): the operations of
   the n-client machine (the files keep their historical "2" names), its observation record, and the
   bookkeeping of pending notifications.  No proofs in this file. *)
From Coq Require Import ZArith List Bool.
From ServerWrite Require Import ServerWriteSpec.
Import ListNotations.
Local Open Scope Z_scope.
Local Open Scope bool_scope.

(* clients are numbered: 0 = A, 1 = B, 2 = C, ... *)
Notation cid := nat (only parsing).

(* a collected notification: client, read part, write part *)
Record entry := mkentry { e_c : cid; e_r : bool; e_w : bool }.

Inductive op2 :=
| On (c : cid) (x : op)                        (* an operation of the one-client vocabulary on client c *)
| Collect (evs : list (cid * native))          (* ONE poll round in which the kernel reports these clients, in this
                                                  order, with this readiness; asked only when nothing is pending *)
| Deliver (o : outcome)                        (* the next pending notification is dispatched; o answers the send it may issue *)
| Sweep.                                       (* onClosed for the client that has been owed it longest *)

Record out2 := mkout2 {
  o2_c : option cid;        (* the client the observation belongs to *)
  o2_out : out;
  o2_idle : bool            (* nothing was pending / owed, or the notification had lost all its parts *)
}.
Definition out2_idle : out2 := mkout2 None out_none true.
Definition out2_none : out2 := mkout2 None out_none false.

(* the interest of client c changes from (or, ow) to (nr, nw): parts no longer wanted are revoked;
   a notification left without parts disappears *)
Definition revoke (c : cid) (or ow nr nw : bool) (l : list entry) : list entry :=
  if eqb or nr && eqb ow nw then l
  else flat_map (fun e =>
         if Nat.eqb (e_c e) c then
           let r := e_r e && negb (or && negb nr) in
           let w := e_w e && negb (ow && negb nw) in
           if r || w then [mkentry c r w] else []
         else [e]) l.

Definition forget (c : cid) (l : list entry) : list entry := filter (fun e => negb (Nat.eqb (e_c e) c)) l.

(* the queue of clients owed an onClosed: a set kept in order of entry *)
Definition clq_update (c : cid) (was now : bool) (l : list cid) : list cid :=
  if now then (if was then l else l ++ [c])
  else (if was then filter (fun d => negb (Nat.eqb d c)) l else l).

(* a total map from client numbers, kept as a list with a default for the clients beyond it *)
Definition getc {A} (d : A) (l : list A) (c : cid) : A := nth c l d.

Fixpoint setc {A} (d : A) (l : list A) (c : cid) (x : A) : list A :=
  match c, l with
  | O, [] => [x]
  | O, _ :: t => x :: t
  | S c', [] => d :: setc d [] c' x
  | S c', h :: t => h :: setc d t c' x
  end.

(* ---------------------------------------------------------------------------------------- *)

Record sst2 := mksst2 { ts : list sst; pend : list entry; s_clq : list cid }.

(* every client starts as spec_init *)
Definition spec_init2 : sst2 := mksst2 [] [] [].

Definition sget (u : sst2) (c : cid) : sst := getc spec_init (ts u) c.

(* the server still serves the connection *)
Definition served (t : sst) : bool := negb (s_dead t) && negb (s_gone t).
Definition want_r (t : sst) : bool := negb (s_susp t).
Definition want_w (t : sst) : bool := negb (is_nil (q t)).

Definition spec_resel (c : cid) (t t' : sst) (l : list entry) : list entry :=
  if served t' then (if served t then revoke c (want_r t) (want_w t) (want_r t') (want_w t') l else l)
  else (if served t then forget c l else l).

(* client c went from t to t' *)
Definition sput (u : sst2) (c : cid) (t t' : sst) (l : list entry) : sst2 :=
  mksst2 (setc spec_init (ts u) c t') (spec_resel c t t' l)
         (clq_update c (s_closing t) (s_closing t') (s_clq u)).

(* the notification a readiness report n gives rise to, for a client that wants (wr, ww):
   the kernel reports input only when reading is wanted, output only when writing is wanted, a half
   hang-up only when anything is wanted, hang-up and error conditions always *)
Definition spec_entry (t : sst) (c : cid) (n : native) : list entry :=
  if negb (served t) then []
  else
    let wr := want_r t in
    let ww := want_w t in
    let i := nin n && wr in
    let o := nout n && ww in
    let d := nrdhup n && (wr || ww) in
    if negb (i || o || nhup n || d || nerr n) then []
    else
      let dr := (i || nhup n || d) && wr in
      let dw := (o || negb dr && (nhup n || d)) && ww in
      [mkentry c dr dw].

Definition any_void (u : sst2) : bool := existsb s_void (ts u).

Definition spec_collect (u : sst2) (evs : list (cid * native)) : sst2 :=
  mksst2 (ts u) (flat_map (fun cn => spec_entry (sget u (fst cn)) (fst cn) (snd cn)) evs) (s_clq u).

Definition spec_deliver2 (u : sst2) (o : outcome) : sst2 * option out2 :=
  match pend u with
  | [] => (u, Some out2_idle)
  | e :: l =>
      let c := e_c e in
      let t := sget u c in
      let '(t', r) := spec_deliver_flags t (e_r e) (e_w e) o in
      (sput u c t t' l, Some (mkout2 (Some c) r (negb (e_r e || e_w e))))
  end.

(* None = no claim.  Once the application has gone on using a connection that was given up
   (ServerWriteSpec: s_void) the reference object makes no further claims about any client. *)
Definition spec_step2 (u : sst2) (x : op2) : sst2 * option out2 :=
  if any_void u then (u, None)
  else
  match x with
  | On c y =>
      let t := sget u c in
      let single (n : native) (o : outcome) :=      (* a poll round that reports this client only *)
        match pend u with
        | [] => if s_dead t then (u, Some (mkout2 (Some c) out_dead false))
                else spec_deliver2 (spec_collect u [(c, n)]) o
        | _ => (u, Some out2_idle)
        end in
      match y with
      | Dispatch n o => single n o
      | PollReal o => single (real_native (s_inbound t) (s_peer_closed t)) o
      | _ =>
          let '(t', r) := spec_step t y in
          (sput u c t t' (pend u), option_map (fun r => mkout2 (Some c) r false) r)
      end
  | Collect evs =>
      match pend u with
      | [] => (spec_collect u evs, Some out2_none)
      | _ => (u, Some out2_none)
      end
  | Deliver o => spec_deliver2 u o
  | Sweep =>
      match s_clq u with
      | [] => (u, Some out2_idle)
      | c :: _ =>
          let t := sget u c in
          let '(t', r) := spec_step t CloseSweep in
          (sput u c t t' (pend u), option_map (fun r => mkout2 (Some c) r false) r)
      end
  end.

Fixpoint spec_exec2 (u : sst2) (l : list op2) : sst2 * list (option out2) :=
  match l with
  | [] => (u, [])
  | x :: l' => let '(u1, c) := spec_step2 u x in let '(u2, cs) := spec_exec2 u1 l' in (u2, c :: cs)
  end.

Definition claim_met2 (c : option out2) (r : out2) : Prop :=
  match c with Some r' => r' = r | None => True end.
