(* Property C13 - "Server clients deliver written bytes completely and in order".

   Objects.  [step : st -> op -> st * out] is the model of one client of Server (ServerWriteModel.v,
   mirroring src/Socket/Server.cpp after the repair fixes/C13/01); [exec init ops] runs a history.
   A history is any list of operations: Write d o (any data, the kernel's answer o to the send it may
   issue), Dispatch n o (one poll event: any readiness n the kernel reports, answer o to the send
   of backlog), PollReal o, CloseSweep, Suspend, Resume, Read, PeerWrite, PeerRead, PeerClose,
   Remove.  The kernel's behaviour (o : WouldBlock | Sent k | Full | Zero | Error, and n) is part of
   the history, so "forall ops" quantifies over all sequences of send outcomes interleaved with all
   write sizes, suspend/resume calls and peer reads.
     os_bytes outs      bytes handed to the operating system so far, in order
     accepted ops outs  concatenation, in call order, of the data of the writes that returned true
     backlog s          ClientImpl::_sendBuffer
     peer_got ops outs  bytes the peer has read ; wire s = bytes in flight (kernel, FIFO: assumed)
     gave_up outs       a send of BACKLOG failed with a real error / returned 0 (connection dropped)

   Clause of the property text                              theorem
   ---------------------------------------------------------------------------------------------
   bytes the peer receives = concatenation, in call order,   stream_is_concat_of_accepted
     of accepted writes; nothing lost/duplicated/reordered   peer_stream_is_prefix_of_os_bytes
     however the OS splits, delays, refuses sends             peer_receives_concat_of_accepted
                                                              benign_history_delivers_everything
                                                              rejected_write_hands_nothing_over (postponed_size...)
   postponed / send-buffer size = accepted bytes not yet      postponed_size_is_unsent_accepted_bytes
     handed to the OS                                         send_buffer_size_is_unsent_accepted_bytes
   onWrite is delivered once that backlog has drained         onWrite_exactly_on_drain   (safety: iff, once)
                                                              writable_event_sends_backlog (every event that
                                                                reports the client writable offers the backlog
                                                                to the OS, readable or not)
                                                              backlog_drains_within_its_length (liveness bound)
                                                              unrepaired_dispatch_starves_backlog (the defect
                                                                of the code before fixes/C13/01, as a theorem)
   a suspended client gets no read notifications until        suspended_gets_no_onRead
     it is resumed                                            suspended_state_gets_no_onRead
     - also when the read notification was already            two_clients_suspended_gets_no_onRead
       collected by the poll round in which ANOTHER           two_clients_suspended_state_gets_no_onRead
       client's callback suspends it (n clients (list,          (the names are historical: the theorems are
       indexed by nat) of one Server, Socket::Poll's             about ANY number of clients)
       cache of collected events: step2 / exec2,              cached_events_within_interest (the cache of
       ServerWrite2Model.v)                                     collected events never holds an event kind its
                                                                client is not registered for NOW)
                                                              one_client_model_embeds (step2 restricted to
                                                                client 0 is step)
   interest set (Server.cpp:348,460,497,505)                  interest_invariant, unregistered_has_no_backlog
   the property as a set of traces (ServerWriteMonitor.v):     model_history_accepted_by_property_monitor
     a monitor over the events of one client that rejects     two_client_history_accepted_by_property_monitor (n clients)
     exactly what contradicts a clause above (stream / size /  (trace, trace2: ServerWriteMonitorProofs.v; histories
     onWrite incl. deadlines onWrite + progress / suspended,    with the ends of run() calls and the size probes
     resumed = read notifications come back / peer) and         ANYWHERE; the kernel-asked events, hence the deadline
     leaves open what the text leaves open: number and size     clauses, are part of the one-client trace only)
     of send calls, order of callbacks of different clients,   n_client_history_meets_deadlines (trace2a: WITH the
     onClosed.  THIS is the oracle                              kernel-asked events, for histories in which a run()
                                                                ends where Server::run can return: runs_ok)
     the implementation is judged by (checks/C13.py runs the
     extracted monitor on the observed trace).
   model = reference OBJECT (one exact observation per         model_refines_spec (ServerWriteRefine.v)
     operation: one send of the whole backlog per event, ...)  two_client_model_refines_spec (n clients; ServerWrite2Refine.v)
     - the precise, call-by-call version; about the model only

   Not proved here (assumed / validated by correspondence only): that the kernel delivers the bytes it
   accepted to the peer in order (stream socket semantics: [wire] is a FIFO in the model); that the
   model mirrors Server.cpp (differential check against the ASan/UBSan build under the simulated
   kernel, checks/C13.py). *)
From Coq Require Import ZArith List Bool.
From ServerWrite Require Import ServerWriteSpec ServerWriteModel ServerWriteProofs ServerWriteTheorems ServerWriteRefine
  ServerWrite2Spec ServerWrite2Model ServerWrite2Proofs ServerWrite2Refine ServerWriteMonitor ServerWriteMonitorProofs
  ServerWriteMonitor2Proofs.
Import ListNotations.
Local Open Scope Z_scope.

(* ---- bytes -------------------------------------------------------------------------------------- *)

Theorem stream_is_concat_of_accepted : forall ops s outs,
  exec init ops = (s, outs) -> gave_up outs = false -> removed s = false ->
  os_bytes outs ++ backlog s = accepted ops outs.
Proof. exact stream_lemma. Qed.
Print Assumptions stream_is_concat_of_accepted.

Theorem peer_stream_is_prefix_of_os_bytes : forall ops s outs,
  exec init ops = (s, outs) -> peer_got ops outs ++ wire s = os_bytes outs.
Proof. exact peer_lemma. Qed.
Print Assumptions peer_stream_is_prefix_of_os_bytes.

Theorem peer_receives_concat_of_accepted : forall ops s outs,
  exec init ops = (s, outs) -> gave_up outs = false -> removed s = false ->
  peer_got ops outs ++ wire s ++ backlog s = accepted ops outs.
Proof. exact end_to_end_lemma. Qed.
Print Assumptions peer_receives_concat_of_accepted.

(* the hypotheses above hold for every history in the property's quantifier domain
   (send outcomes: would-block, any partial count, full; client not removed) *)
Theorem benign_history_delivers_everything : forall ops s outs,
  forallb benign_op ops = true -> exec init ops = (s, outs) ->
  peer_got ops outs ++ wire s ++ backlog s = accepted ops outs.
Proof. exact benign_stream_lemma. Qed.
Print Assumptions benign_history_delivers_everything.

(* ---- postponed / send buffer size ------------------------------------------------------------------ *)

Theorem postponed_size_is_unsent_accepted_bytes : forall ops s outs d o s' r,
  exec init ops = (s, outs) -> gave_up outs = false -> removed s = false ->
  step s (Write d o) = (s', r) ->
  (o_ret r = Some true /\
   o_num r = zlen (accepted (ops ++ [Write d o]) (outs ++ [r])) - zlen (os_bytes (outs ++ [r])) /\
   o_num r = getSendBufferSize s') \/
  (o_ret r = Some false /\ o_num r = 0 /\ o_tx r = [] /\ backlog s' = backlog s).
Proof. exact postponed_lemma. Qed.
Print Assumptions postponed_size_is_unsent_accepted_bytes.

Theorem send_buffer_size_is_unsent_accepted_bytes : forall ops s outs,
  exec init ops = (s, outs) -> gave_up outs = false -> removed s = false ->
  getSendBufferSize s = zlen (accepted ops outs) - zlen (os_bytes outs).
Proof. exact send_buffer_size_lemma. Qed.
Print Assumptions send_buffer_size_is_unsent_accepted_bytes.

(* ---- onWrite ------------------------------------------------------------------------------------- *)

Theorem onWrite_exactly_on_drain : forall ops x,
  let s := fst (exec init ops) in
  let s' := fst (step s x) in
  let r := snd (step s x) in
  (In OnWrite (o_cbs r) <-> backlog s <> [] /\ o_tx r = backlog s /\ backlog s' = []) /\
  (length (o_cbs r) <= 1)%nat.
Proof. exact onWrite_lemma. Qed.
Print Assumptions onWrite_exactly_on_drain.

Theorem writable_event_sends_backlog : forall pre n o,
  let s := fst (exec init pre) in
  let s' := fst (step s (Dispatch n o)) in
  let r := snd (step s (Dispatch n o)) in
  removed s = false -> backlog s <> [] -> nout n = true ->
  o_sends r = [(zlen (backlog s), fst (send_ret (zlen (backlog s)) o))] /\
  (forall k, send_result (zlen (backlog s)) o = RSent k ->
     o_tx r = ztake k (backlog s) /\ backlog s' = zdrop k (backlog s) /\
     (In OnWrite (o_cbs r) <-> k = zlen (backlog s))).
Proof. exact writable_event_reachable_lemma. Qed.
Print Assumptions writable_event_sends_backlog.

Theorem backlog_drains_within_its_length : forall pre l,
  let s := fst (exec init pre) in
  removed s = false -> backlog s <> [] -> forallb pushy l = true ->
  zlen (backlog s) <= Z.of_nat (length l) ->
  backlog (fst (exec s l)) = [] /\ count_onWrite (snd (exec s l)) = 1%nat.
Proof. exact drain_from_reachable_lemma. Qed.
Print Assumptions backlog_drains_within_its_length.

Theorem unrepaired_dispatch_starves_backlog :
  reachable starved_state /\ backlog starved_state = [2; 3] /\
  (forall k, iter_unrepaired k starved_state both_ready Full = (starved_state, repeat (out_cb OnRead) k)) /\
  backlog (fst (step starved_state (Dispatch both_ready Full))) = [] /\
  o_cbs (snd (step starved_state (Dispatch both_ready Full))) = [OnWrite].
Proof. exact unrepaired_starves_lemma. Qed.
Print Assumptions unrepaired_dispatch_starves_backlog.

(* ---- suspend ------------------------------------------------------------------------------------- *)

Theorem suspended_gets_no_onRead : forall ops x,
  let s := fst (exec init ops) in
  susp_of_ops ops false = true -> ~ In OnRead (o_cbs (snd (step s x))).
Proof. exact suspended_lemma. Qed.
Print Assumptions suspended_gets_no_onRead.

Theorem suspended_state_gets_no_onRead : forall ops x,
  let s := fst (exec init ops) in
  suspended s = true -> ~ In OnRead (o_cbs (snd (step s x))).
Proof. exact suspended_state_lemma. Qed.
Print Assumptions suspended_state_gets_no_onRead.

(* n clients (a list, indexed by nat: 0 = A, 1 = B, 2 = C, ...; every client starts in the initial
   state) of one Server; the "two_client(s)" in the theorem names is historical.  [exec2 init2 ops]
   runs a history of
     On c x          any operation of the one-client vocabulary on client c (a callback of A calling
                     B.suspend() is the step On 1 Suspend between two Deliver steps)
     Collect evs     one epoll_wait reporting the clients of evs : list (nat * native), in this order,
                     with this readiness (any clients, any order, any number)
     Deliver o       one poll() call handing out the oldest collected event + its dispatch
     Sweep           one iteration of the closing-clients pass
   ops_of c ops = the one-client operations the history issued on client c. *)
Theorem two_clients_suspended_gets_no_onRead : forall ops x c,
  let m := fst (exec2 init2 ops) in
  let r := snd (step2 m x) in
  susp_of_ops (ops_of c ops) false = true -> o2_c r = Some c -> ~ In OnRead (o_cbs (o2_out r)).
Proof. exact suspended2_lemma. Qed.
Print Assumptions two_clients_suspended_gets_no_onRead.

Theorem two_clients_suspended_state_gets_no_onRead : forall ops x c,
  let m := fst (exec2 init2 ops) in
  let r := snd (step2 m x) in
  suspended (get2 m c) = true -> o2_c r = Some c -> ~ In OnRead (o_cbs (o2_out r)).
Proof. exact suspended2_state_lemma. Qed.
Print Assumptions two_clients_suspended_state_gets_no_onRead.

Theorem cached_events_within_interest : forall ops e,
  let m := fst (exec2 init2 ops) in
  In e (sel m) ->
  let s := get2 m (e_c e) in
  registered s = true /\ removed s = false /\
  (e_r e = true -> int_r s = true /\ suspended s = false) /\
  (e_w e = true -> int_w s = true /\ backlog s <> []).
Proof. exact cache_within_interest_lemma. Qed.
Print Assumptions cached_events_within_interest.

Theorem one_client_model_embeds : forall ops,
  get2 (fst (exec2 init2 (map (On 0%nat) ops))) 0%nat = fst (exec init ops) /\
  map o2_out (snd (exec2 init2 (map (On 0%nat) ops))) = snd (exec init ops).
Proof. exact embedding_init_lemma. Qed.
Print Assumptions one_client_model_embeds.

(* ---- interest set ---------------------------------------------------------------------------------- *)

Theorem interest_invariant : forall ops,
  let s := fst (exec init ops) in
  registered s = true ->
  (int_r s = true <-> suspended s = false) /\ (int_w s = true <-> backlog s <> []).
Proof. exact interest_invariant_lemma. Qed.
Print Assumptions interest_invariant.

Theorem unregistered_has_no_backlog : forall ops,
  let s := fst (exec init ops) in registered s = false -> backlog s = [].
Proof. exact unregistered_has_no_backlog_lemma. Qed.
Print Assumptions unregistered_has_no_backlog.

(* ---- refinement ------------------------------------------------------------------------------------- *)

Theorem model_refines_spec : forall ops,
  Forall2 claim_met (snd (spec_exec spec_init ops)) (snd (exec init ops)).
Proof. exact refinement_lemma. Qed.
Print Assumptions model_refines_spec.

Theorem two_client_model_refines_spec : forall ops,
  Forall2 claim_met2 (snd (spec_exec2 spec_init2 ops)) (snd (exec2 init2 ops)).
Proof. exact refinement2_lemma. Qed.
Print Assumptions two_client_model_refines_spec.

(* ---- the property as a monitor over traces ------------------------------------------------------------

   [trace init h]: the events the history h of the one-client model shows (write calls with their
   return value, postponed count and the bytes the OS took; bytes the OS took from sends of backlog;
   refused sends; callbacks; suspend/resume; what the peer reads; the kernel, asked by a poll event, finding
   the socket writable / finding unread input).  A history h is a list of operations of the model [HOp x],
   probes of getSendBufferSize() [HSize] and ends of run() calls [HRunEnd] in ANY order - where a run() of the
   server returns and where the application asks for the size is up to the history, so the order in which
   checks/C13.py serialises what the harness observed (operations executed from inside a callback before the
   end of the run() that delivered it, one size probe per line) is an instance.  [mon_run mon_init] is the
   monitor of ServerWriteMonitor.v.  Every history - every interleaving of writes of every size,
   suspend/resume, poll events with every readiness, reads, peer actions, and every answer of the
   operating system to every send - is accepted.  [trace2 c init2 h]: the events of client c in a
   history of the n-client machine (c : nat, any client; h : operations of the machine, size probes of any
   client, ends of run() calls); the kernel-asked events (EWritable / EReadable) are not part of it. *)

Theorem model_history_accepted_by_property_monitor : forall h,
  exists m, mon_run mon_init (trace init h) = Go m.
Proof. exact model_trace_accepted_lemma. Qed.
Print Assumptions model_history_accepted_by_property_monitor.

Theorem two_client_history_accepted_by_property_monitor : forall h c,
  exists m, mon_run mon_init (trace2 c init2 h) = Go m.
Proof. exact two_client_trace_accepted_lemma. Qed.
Print Assumptions two_client_history_accepted_by_property_monitor.

(* The deadline clauses (progress, the onWrite deadline, resumed) for n clients.  [trace2a c init2 h] is [trace2] plus the
   kernel-asked events: a poll round that asks the kernel (Collect while nothing is cached) shows client c whether the
   kernel finds its socket writable / finds unread input.  [runs_ok false init2 h]: every poll round reports a client at
   most once, and a run() ends ([H2RunEnd]) only where Server::Private::run can return after the kernel reported the
   interrupt - when no collected notification is left, or directly after the poll round that collected them (the
   interrupt was part of the same epoll batch).  This is the form of the traces the judge feeds the monitor for cases
   with several clients (checks/C13.py: `wr`, `rd` at the tokens of epoll_wait, `re` only for runs that ended on the
   interrupt).  Proof (ServerWriteMonitor2Proofs.v): an open deadline of client c implies that c's notification is still
   cached with the part in question; Poll::set prunes a part only when the client stops wanting it (suspend: the read
   side, which cancels the read deadline), the delivery of the notification discharges the deadline. *)
Theorem n_client_history_meets_deadlines : forall h c,
  runs_ok false init2 h -> exists m, mon_run mon_init (trace2a c init2 h) = Go m.
Proof. exact n_client_deadlines_lemma. Qed.
Print Assumptions n_client_history_meets_deadlines.

(* ---- non-vacuity ------------------------------------------------------------------------------------ *)

(* the monitor rejects what contradicts the text ... *)
Example ex_monitor_rejects :
  mon_run mon_init [EWrite [1; 2; 3] true (Some 3) []; EWritable; EHand [2]] = Stop c_stream /\
  mon_run mon_init [EWrite [1; 2] false (Some 0) [1]] = Stop c_stream /\
  mon_run mon_init [EWrite [1; 2; 3] true (Some 2) [1; 2]] = Stop c_size /\
  mon_run mon_init [EWrite [1; 2; 3] true None [1]; ESize 3] = Stop c_size /\
  mon_run mon_init [EWrite [1; 2; 3] true (Some 9223372036854775807) [1]] = Stop c_size /\
  mon_run mon_init [EWrite [1; 2] true None [1]; ECb OnWrite] = Stop c_onwrite /\
  mon_run mon_init [EWrite [1; 2] true None [1]; EHand [2]; ECb OnWrite; ERunEnd; ECb OnWrite] = Stop c_onwrite /\
  mon_run mon_init [EWrite [1; 2] true None [1]; EHand [2]; ERunEnd; EWritable; ERunEnd; ERunEnd] = Stop c_onwrite /\
  mon_run mon_init [ESusp true; ECb OnRead] = Stop c_suspended /\
  mon_run mon_init [EWrite [1; 2] true None [1]; EWritable; ERunEnd; EWritable; ERunEnd] = Stop c_progress /\
  mon_run mon_init [EWrite [1; 2] true None [1; 2]; EPeer [1]] = Stop c_peer /\
  mon_run mon_init [ESusp true; ESusp false; EReadable; ERunEnd; EReadable; ERunEnd] = Stop c_resumed /\
  mon_run mon_init [EWrite [] false (Some 0) []; EWrite [1; 2] true (Some 1) [1]; EHand [1]] = Stop c_stream.
Proof. vm_compute. repeat split. Qed.

(* ... and accepts what the text leaves open: the backlog split over any number of send calls, an onRead in
   between, a refused send; an onWrite delivered at the writable report that follows the drain; an onRead one run()
   after the kernel found the input (the notification was cached); a readable report served by the write side *)
Example ex_monitor_accepts_any_split :
  (exists m, mon_run mon_init [EWrite [1; 2; 3; 4; 5] true (Some 4) [1]; EWritable; EHand [2]; EHand [3; 4]; ECb OnRead; ESize 1; ERunEnd;
                              EWritable; EBlock; ERunEnd; EWritable; EHand [5]; ECb OnWrite; ESize 0; ERunEnd; EPeer [1; 2; 3; 4; 5]] = Go m) /\
  (exists m, mon_run mon_init [EWrite [1; 2] true (Some 2) []; EWritable; EHand [1; 2]; ERunEnd; ERunEnd; EWritable; ECb OnWrite; ERunEnd] = Go m) /\
  (exists m, mon_run mon_init [EReadable; ERunEnd; ECb OnRead; ERunEnd; ESusp true; EReadable; ERunEnd; ERunEnd; ERunEnd] = Go m) /\
  (exists m, mon_run mon_init [EWrite [1] true (Some 1) []; EReadable; EWritable; EHand [1]; ECb OnWrite; ERunEnd; ERunEnd; ERunEnd] = Go m).
Proof. repeat split; eexists; vm_compute; reflexivity. Qed.

(* a history with a partial send, an append behind the backlog, a would-block, a suspended phase with a
   readable+writable report, a drain, and peer reads *)
Definition ex_ops : list op :=
  [Write [1; 2; 3; 4; 5] (Sent 2); Write [6; 7] Full; PeerWrite [9]; Suspend;
   Dispatch (mknative true true false false false) WouldBlock; Dispatch (mknative true true false false false) (Sent 1); PeerRead;
   Resume; Dispatch (mknative true true false false false) (Sent 2); Dispatch (mknative true true false false false) Full; PeerRead;
   Write [8] Zero; Write [] WouldBlock].

Example ex_hyps :
  gave_up (snd (exec init ex_ops)) = false /\ removed (fst (exec init ex_ops)) = false /\
  forallb benign_op (firstn 11 ex_ops) = true.
Proof. vm_compute. auto. Qed.

Example ex_stream :
  accepted ex_ops (snd (exec init ex_ops)) = [1; 2; 3; 4; 5; 6; 7] /\
  peer_got ex_ops (snd (exec init ex_ops)) = [1; 2; 3; 4; 5; 6; 7] /\
  os_bytes (snd (exec init (firstn 6 ex_ops))) = [1; 2; 3] /\
  backlog (fst (exec init (firstn 6 ex_ops))) = [4; 5; 6; 7] /\
  peer_got (firstn 7 ex_ops) (snd (exec init (firstn 7 ex_ops))) = [1; 2; 3].
Proof. vm_compute. repeat split. Qed.

Example ex_postponed :
  map (fun r => (o_ret r, o_num r)) (firstn 2 (snd (exec init ex_ops))) = [(Some true, 3); (Some true, 5)] /\
  map (fun r => (o_ret r, o_num r)) (skipn 11 (snd (exec init ex_ops))) = [(Some false, 0); (Some true, 0)].
Proof. vm_compute. split; reflexivity. Qed.

Example ex_callbacks :
  callbacks (snd (exec init ex_ops)) = [OnRead; OnWrite] /\
  map o_cbs (firstn 10 (snd (exec init ex_ops))) = [[]; []; []; []; []; []; []; []; [OnRead]; [OnWrite]].
Proof. vm_compute. split; reflexivity. Qed.

Example ex_suspended :
  susp_of_ops (firstn 4 ex_ops) false = true /\ susp_of_ops (firstn 5 ex_ops) false = true /\
  suspended (fst (exec init (firstn 5 ex_ops))) = true /\
  registered (fst (exec init (firstn 5 ex_ops))) = true /\
  int_r (fst (exec init (firstn 5 ex_ops))) = false /\ int_w (fst (exec init (firstn 5 ex_ops))) = true.
Proof. vm_compute. repeat split. Qed.

Example ex_writable_event :
  let s := fst (exec init (firstn 8 ex_ops)) in
  removed s = false /\ backlog s = [4; 5; 6; 7] /\
  send_result 4 (Sent 2) = RSent 2 /\
  snd (step s (Dispatch (mknative true true false false false) (Sent 2))) =
    mkout None 0 [OnRead] [4; 5] [(4, 2)] [] false false.
Proof. vm_compute. repeat split. Qed.

Example ex_drain :
  let s := fst (exec init (firstn 8 ex_ops)) in
  let l := [Dispatch (mknative true true false false false) (Sent 1); PollReal (Sent 1); Dispatch (mknative false true true false false) (Sent 1);
            PollReal Full; PollReal Full] in
  forallb pushy l = true /\ zlen (backlog s) <= Z.of_nat (length l) /\
  backlog (fst (exec s l)) = [] /\ callbacks (snd (exec s l)) = [OnRead; OnRead; OnRead; OnWrite; OnRead].
Proof. vm_compute. repeat split; congruence. Qed.

Example ex_unregistered :
  let s := fst (exec init [Write [1; 2] WouldBlock; Dispatch (mknative false true false false false) Error]) in
  registered s = false /\ backlog s = [] /\ gave_up (snd (exec init [Write [1; 2] WouldBlock; Dispatch (mknative false true false false false) Error])) = true.
Proof. vm_compute. repeat split. Qed.

(* the trace of the example history (a size probe after every operation, the end of a run() after every poll event):
   accepted; the monitor ends void (the history ends with a failing send) after having followed the backlog through a
   partial send, an append, a suspended phase and the drain *)
Definition ex_hist (l : list op) : list hop :=
  flat_map (fun x => match x with Dispatch _ _ => [HOp x; HSize; HRunEnd] | _ => [HOp x; HSize] end) l.

Example ex_trace_accepted :
  length (trace init (ex_hist ex_ops)) = 40%nat /\
  (exists m, mon_run mon_init (trace init (ex_hist ex_ops)) = Go m /\ m_void m = true) /\
  (exists m, mon_run mon_init (trace init (ex_hist (firstn 6 ex_ops))) = Go m /\ m_pend m = [4; 5; 6; 7] /\ m_susp m = true /\
             m_owed m = true /\ m_void m = false) /\
  (exists m, mon_run mon_init (trace init (ex_hist (firstn 11 ex_ops))) = Go m /\ m_pend m = [] /\ m_wire m = [] /\ m_owed m = false /\
             m_void m = false).
Proof. vm_compute. repeat split; eexists; repeat split. Qed.

Example ex_refinement :
  snd (spec_exec spec_init ex_ops) = map Some (snd (exec init ex_ops)).
Proof. vm_compute. reflexivity. Qed.

(* two clients readable in ONE poll round; A is notified first and (its callback) suspends B: B's
   collected read notification is revoked; after resume the next round notifies B.  Then B, suspended
   with a backlog, is reported readable+writable: the backlog is sent, no onRead. *)
Definition rd : native := mknative true false false false false.
Definition rdwr : native := mknative true true false false false.
Definition ex_ops2 : list op2 :=
  [On 0%nat (PeerWrite [1]); On 1%nat (PeerWrite [2]);
   Collect [(0%nat, rd); (1%nat, rd)]; Deliver Full; On 1%nat Suspend; Deliver Full;
   On 1%nat Resume; Collect [(1%nat, rd); (0%nat, rd)]; Deliver Full; Deliver Full;
   On 1%nat (Write [7; 8] WouldBlock); On 1%nat Suspend; Collect [(1%nat, rdwr)]; Deliver (Sent 1)].

Example ex_two_clients :
  map (fun r => (o2_c r, o_cbs (o2_out r), o2_idle r)) (snd (exec2 init2 ex_ops2)) =
    [(Some 0%nat, [], false); (Some 1%nat, [], false);
     (None, [], false); (Some 0%nat, [OnRead], false); (Some 1%nat, [], false); (None, [], true);
     (Some 1%nat, [], false); (None, [], false); (Some 1%nat, [OnRead], false); (Some 0%nat, [OnRead], false);
     (Some 1%nat, [], false); (Some 1%nat, [], false); (None, [], false); (Some 1%nat, [], false)] /\
  sel (fst (exec2 init2 (firstn 3 ex_ops2))) = [mkentry 0%nat true false; mkentry 1%nat true false] /\
  sel (fst (exec2 init2 (firstn 5 ex_ops2))) = [] /\
  susp_of_ops (ops_of 1%nat (firstn 5 ex_ops2)) false = true /\
  susp_of_ops (ops_of 1%nat (firstn 13 ex_ops2)) false = true /\
  sel (fst (exec2 init2 (firstn 13 ex_ops2))) = [mkentry 1%nat false true] /\
  o_tx (o2_out (snd (step2 (fst (exec2 init2 (firstn 13 ex_ops2))) (Deliver (Sent 1))))) = [7].
Proof. vm_compute. repeat split. Qed.

(* three clients readable in ONE poll round; A is notified first and (its callback) suspends the LAST
   collected client C first, then the middle one B: both collected read notifications are revoked, the
   cache is empty and the next poll() has nothing to hand out - neither suspended client gets onRead *)
Definition ex_ops3 : list op2 :=
  [On 0%nat (PeerWrite [1]); On 1%nat (PeerWrite [2]); On 2%nat (PeerWrite [3]);
   Collect [(0%nat, rd); (1%nat, rd); (2%nat, rd)]; Deliver Full;
   On 2%nat Suspend; On 1%nat Suspend; Deliver Full].

Example ex_three_clients :
  map (fun r => (o2_c r, o_cbs (o2_out r), o2_idle r)) (snd (exec2 init2 ex_ops3)) =
    [(Some 0%nat, [], false); (Some 1%nat, [], false); (Some 2%nat, [], false);
     (None, [], false); (Some 0%nat, [OnRead], false);
     (Some 2%nat, [], false); (Some 1%nat, [], false); (None, [], true)] /\
  sel (fst (exec2 init2 (firstn 4 ex_ops3))) = [mkentry 0%nat true false; mkentry 1%nat true false; mkentry 2%nat true false] /\
  sel (fst (exec2 init2 (firstn 5 ex_ops3))) = [mkentry 1%nat true false; mkentry 2%nat true false] /\
  sel (fst (exec2 init2 (firstn 6 ex_ops3))) = [mkentry 1%nat true false] /\
  sel (fst (exec2 init2 (firstn 7 ex_ops3))) = [] /\
  susp_of_ops (ops_of 1%nat (firstn 7 ex_ops3)) false = true /\
  susp_of_ops (ops_of 2%nat (firstn 7 ex_ops3)) false = true /\
  susp_of_ops (ops_of 0%nat (firstn 7 ex_ops3)) false = false.
Proof. vm_compute. repeat split. Qed.

Example ex_refinement2 :
  snd (spec_exec2 spec_init2 ex_ops2) = map Some (snd (exec2 init2 ex_ops2)) /\
  snd (spec_exec2 spec_init2 ex_ops3) = map Some (snd (exec2 init2 ex_ops3)).
Proof. vm_compute. split; reflexivity. Qed.

Example ex_embedding :
  map o2_out (snd (exec2 init2 (map (On 0%nat) ex_ops))) = snd (exec init ex_ops).
Proof. vm_compute. reflexivity. Qed.

(* three clients, client 2 has a backlog, client 1 unread input; the interrupt is reported in the same epoll batch as the
   readiness of all three (the run() ends right after the Collect), the next run() hands the notifications out; the
   history satisfies runs_ok and the trace of client 2 / client 1 contains the kernel-asked events and both run ends *)
Definition ex_h3 : list hop2 :=
  [H2Op (On 2%nat (Write [1; 2; 3] WouldBlock)); H2Op (On 1%nat (PeerWrite [9]));
   H2Op (Collect [(0%nat, mknative false true false false false); (1%nat, mknative true false false false false);
                  (2%nat, mknative false true false false false)]); H2RunEnd;
   H2Op (Deliver Full); H2Op (Deliver (Sent 2)); H2Size 2%nat; H2RunEnd;
   H2Op (Collect [(2%nat, mknative false true false false false)]); H2Op (Deliver Full); H2RunEnd].

Example ex_h3_runs_ok : runs_ok false init2 ex_h3.
Proof. simpl. repeat split; auto; repeat constructor; simpl; intuition congruence. Qed.

Example ex_h3_traces :
  trace2a 2%nat init2 ex_h3 =
    [EWrite [1; 2; 3] true (Some 3) []; EWritable; ERunEnd; EHand [1; 2]; ESize 1; ERunEnd; EWritable; EHand [3]; ECb OnWrite; ERunEnd] /\
  trace2a 1%nat init2 ex_h3 = [EReadable; ERunEnd; ECb OnRead; ERunEnd; ERunEnd] /\
  (exists m, mon_run mon_init (trace2a 2%nat init2 ex_h3) = Go m /\ m_pend m = [] /\ m_owed m = false).
Proof. vm_compute. repeat split. eexists. repeat split. Qed.

(* the hypothesis is needed: a history in which two run() calls end while the notification of client 2 is still cached
   (no run() of the server returns like that) is rejected by clause progress *)
Example ex_runs_ok_needed :
  mon_run mon_init (trace2a 2%nat init2 (firstn 4 ex_h3 ++ [H2RunEnd])) = Stop c_progress.
Proof. vm_compute. reflexivity. Qed.
