From Coq Require Import ZArith List.
From ServerWrite Require Import ServerWriteSpec ServerWriteModel ServerWriteProofs.
