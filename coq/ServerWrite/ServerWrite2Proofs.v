(* Lemmas about the n-client MODEL (ServerWrite2Model.v; clients are numbered, the state holds a list
   of clients): the invariant of the cache of collected poll events, "a suspended client gets no
   onRead" for the n-client machine, and the embedding of the one-client model (as client 0). *)
From Coq Require Import ZArith List Bool Lia PeanoNat.
From ServerWrite Require Import ServerWriteSpec ServerWriteModel ServerWriteProofs ServerWriteTheorems
  ServerWrite2Spec ServerWrite2Model.
Import ListNotations.
Local Open Scope Z_scope.
Local Open Scope bool_scope.

Arguments ztake : simpl never.
Arguments zdrop : simpl never.
Arguments zlen : simpl never.
Arguments send_count : simpl never.
Arguments Z.eqb : simpl never.
Arguments Z.geb : simpl never.
Arguments Z.leb : simpl never.

(* ---- the cache invariant ---------------------------------------------------------------------- *)

(* a cached event belongs to a registered client and carries only event kinds that client is
   registered for NOW *)
Definition entry_ok (s : st) (e : entry) : Prop :=
  registered s = true /\ (e_r e = true -> int_r s = true) /\ (e_w e = true -> int_w s = true).

Definition sel_ok (m : st2) (l : list entry) : Prop := Forall (fun e => entry_ok (get2 m (e_c e)) e) l.

Record inv2 (m : st2) : Prop := mkinv2 {
  i2_cl : forall c, inv (get2 m c);
  i2_sel : sel_ok m (sel m)
}.

(* ---- the map from client numbers (getc / setc of ServerWrite2Spec.v) ------------------------- *)

Lemma getc_nil {A} (d : A) c : getc d [] c = d.
Proof. unfold getc. destruct c; reflexivity. Qed.

Lemma getc_setc_same {A} (d : A) l c x : getc d (setc d l c x) c = x.
Proof.
  unfold getc. revert l. induction c as [|c IH]; intros [|h t]; cbn [setc nth]; auto.
Qed.

Lemma getc_setc_other {A} (d : A) l c c' x : c' <> c -> getc d (setc d l c x) c' = getc d l c'.
Proof.
  unfold getc. revert l c'. induction c as [|c IH]; intros [|h t] [|c'] H; cbn [setc nth]; try congruence.
  - destruct c'; reflexivity.
  - rewrite IH by congruence. destruct c'; reflexivity.
  - apply IH. congruence.
Qed.

Lemma existsb_setc_false {A} (f : A -> bool) d l c x :
  f d = false -> f x = false -> existsb f l = false -> existsb f (setc d l c x) = false.
Proof.
  intros Hd Hx. revert l. induction c as [|c IH]; intros [|h t] H; cbn [setc existsb] in *.
  - rewrite Hx. reflexivity.
  - apply orb_false_iff in H. destruct H as [_ H]. rewrite Hx, H. reflexivity.
  - rewrite Hd. apply (IH []). reflexivity.
  - apply orb_false_iff in H. destruct H as [H1 H2]. rewrite H1. apply IH. assumption.
Qed.

Lemma existsb_setc_true {A} (f : A -> bool) d l c x : f x = true -> existsb f (setc d l c x) = true.
Proof.
  intros Hx. revert l. induction c as [|c IH]; intros [|h t]; cbn [setc existsb].
  - rewrite Hx. reflexivity.
  - rewrite Hx. reflexivity.
  - rewrite (IH []). apply orb_true_r.
  - rewrite IH. apply orb_true_r.
Qed.

Lemma existsb_getc_false {A} (f : A -> bool) d l c : f d = false -> existsb f l = false -> f (getc d l c) = false.
Proof.
  intros Hd. unfold getc. revert l. induction c as [|c IH]; intros [|h t] H; cbn [nth existsb] in *; auto.
  - apply orb_false_iff in H. tauto.
  - apply IH. apply orb_false_iff in H. tauto.
Qed.

Lemma get2_init2 c : get2 init2 c = init.
Proof. apply getc_nil. Qed.

Lemma inv2_init : inv2 init2.
Proof. split; [intros c; rewrite get2_init2; apply inv_init | constructor]. Qed.

Lemma get2_put2_same m c s s' l : get2 (put2 m c s s' l) c = s'.
Proof. apply getc_setc_same. Qed.

Lemma get2_put2_other m c d s s' l : d <> c -> get2 (put2 m c s s' l) d = get2 m d.
Proof. apply getc_setc_other. Qed.

Lemma sel_put2 m c s s' l : sel (put2 m c s s' l) = resel c s s' l.
Proof. reflexivity. Qed.

(* the client numbers are compared with Nat.eqb *)
Lemma eqb_false_neq (a b : nat) : Nat.eqb a b = false -> a <> b.
Proof. apply Nat.eqb_neq. Qed.

Lemma eqb_true_eq (a b : nat) : Nat.eqb a b = true -> a = b.
Proof. apply Nat.eqb_eq. Qed.

(* Poll::set on a known socket: what is left of the cache stays within the new registration *)
Lemma revoke_ok c or ow nr nw (P : nat -> entry -> Prop) l :
  (forall e, In e l -> e_c e <> c -> P (e_c e) e) ->
  (forall e, In e l -> e_c e = c -> (e_r e = true -> or = true) /\ (e_w e = true -> ow = true)) ->
  (forall e, e_c e = c -> (e_r e = true -> nr = true) -> (e_w e = true -> nw = true) -> P c e) ->
  forall e, In e (revoke c or ow nr nw l) -> P (e_c e) e.
Proof.
  intros Hother Hold Hnew e. unfold revoke.
  destruct (eqb or nr && eqb ow nw) eqn:Esame.
  - apply andb_true_iff in Esame. destruct Esame as [A B]. apply eqb_prop in A, B. subst nr nw.
    intros Hin. destruct (Nat.eq_dec (e_c e) c) as [Ec|Ec].
    + rewrite Ec. destruct (Hold e Hin Ec) as [X Y]. apply Hnew; auto.
    + apply Hother; auto.
  - intros Hin. apply in_flat_map in Hin. destruct Hin as [e0 [Hin0 Hin]].
    destruct (Nat.eqb (e_c e0) c) eqn:Ec.
    + apply eqb_true_eq in Ec. destruct (Hold e0 Hin0 Ec) as [X Y].
      destruct (e_r e0 && negb (or && negb nr) || e_w e0 && negb (ow && negb nw)) eqn:Ek; [|destruct Hin].
      destruct Hin as [<-|[]]. simpl. apply Hnew; simpl; auto.
      * intros H. apply andb_true_iff in H. destruct H as [H1 H2]. specialize (X H1). subst or.
        destruct nr; auto.
      * intros H. apply andb_true_iff in H. destruct H as [H1 H2]. specialize (Y H1). subst ow.
        destruct nw; auto.
    + apply eqb_false_neq in Ec. destruct Hin as [<-|[]]. apply Hother; auto.
Qed.

Lemma forget_in c l e : In e (forget c l) -> In e l /\ e_c e <> c.
Proof.
  unfold forget. intros H. apply filter_In in H. destruct H as [A B]. split; auto.
  apply negb_true_iff in B. apply eqb_false_neq in B. exact B.
Qed.

(* client c goes from s to s' by an operation that calls Poll::set / Poll::remove as [resel] says *)
Lemma put2_sel_ok m c s s' l :
  s = get2 m c -> sel_ok m l -> sel_ok (put2 m c s s' l) (resel c s s' l).
Proof.
  intros Hs Hok. unfold sel_ok in *. rewrite Forall_forall in *. intros e Hin.
  assert (Hoth : forall e0, In e0 l -> e_c e0 <> c -> entry_ok (get2 (put2 m c s s' l) (e_c e0)) e0).
  { intros e0 H0 Hne. rewrite get2_put2_other by assumption. apply Hok; assumption. }
  unfold resel in Hin.
  destruct (registered s') eqn:Er'; destruct (registered s) eqn:Er.
  - (* set on a known socket *)
    revert e Hin.
    apply (revoke_ok c (int_r s) (int_w s) (int_r s') (int_w s') (fun d e => entry_ok (get2 (put2 m c s s' l) d) e)).
    + exact Hoth.
    + intros e0 H0 Ec. specialize (Hok e0 H0). rewrite Ec, <- Hs in Hok. destruct Hok as [_ [A B]]. split.
      * intros H. apply A; assumption.
      * intros H. apply B; assumption.
    + intros e0 Ec A B. rewrite get2_put2_same. split; [assumption | split; assumption].
  - (* the socket was not registered: it has no cached event *)
    destruct (Nat.eq_dec (e_c e) c) as [Ec|Ec].
    + exfalso. specialize (Hok e Hin). rewrite Ec, <- Hs in Hok. destruct Hok as [A _]. congruence.
    + apply Hoth; assumption.
  - apply forget_in in Hin. destruct Hin as [A B]. apply Hoth; assumption.
  - destruct (Nat.eq_dec (e_c e) c) as [Ec|Ec].
    + exfalso. specialize (Hok e Hin). rewrite Ec, <- Hs in Hok. destruct Hok as [A _]. congruence.
    + apply Hoth; assumption.
Qed.

Lemma put2_inv2 m c s s' l :
  inv2 m -> s = get2 m c -> inv s' -> sel_ok m l -> inv2 (put2 m c s s' l).
Proof.
  intros [Ha _] Hs Hi Hok. split.
  - intros d. destruct (Nat.eq_dec d c) as [->|Hne];
      [rewrite get2_put2_same; assumption | rewrite get2_put2_other by assumption; apply Ha].
  - rewrite sel_put2. apply put2_sel_ok; assumption.
Qed.

(* ---- the client part of the dispatch, given the flags of the event -------------------------- *)

Lemma entry_removed s e : inv s -> entry_ok s e -> removed s = false.
Proof.
  intros [_ _ Hr] [A _]. destruct (removed s) eqn:E; auto. destruct (Hr eq_refl) as [_ [B _]]. congruence.
Qed.

Lemma dispatch_flags_inv s r w o s' x :
  inv s -> removed s = false -> dispatch_flags s r w o = (s', x) -> inv s'.
Proof.
  intros Hinv Hrm H. unfold dispatch_flags in H. destruct w.
  - destruct (write_ready s o) as [[s1 r1] fin] eqn:Ew.
    destruct (inv_write_ready _ _ _ _ _ Hinv Hrm Ew) as [A _].
    destruct fin; [|destruct (negb r)]; inv_pair H; assumption.
  - destruct r; inv_pair H; assumption.
Qed.

Lemma dispatch_flags_no_read s w o s' x :
  dispatch_flags s false w o = (s', x) -> ~ In OnRead (o_cbs x).
Proof.
  unfold dispatch_flags. destruct w.
  - destruct (write_ready s o) as [[s1 r1] fin] eqn:Ew. apply write_ready_cases in Ew.
    intros H. assert (x = r1) by (destruct fin; simpl in H; inv_pair H; reflexivity). subst x.
    destruct Ew as [_ _ -> _ | _ _ _ -> _ | sent _ _ _ _ -> _ | _ _ _ -> _]; simpl; try tauto;
      intros [A|[]]; discriminate.
  - intros H. inv_pair H. simpl. tauto.
Qed.

Lemma dispatch_flags_suspended s r w o s' x :
  dispatch_flags s r w o = (s', x) -> suspended s' = suspended s /\ removed s' = removed s.
Proof.
  unfold dispatch_flags. destruct w.
  - destruct (write_ready s o) as [[s1 r1] fin] eqn:Ew. apply write_ready_cases in Ew.
    intros H. assert (s' = s1) by (destruct fin; [|destruct (negb r)]; inv_pair H; reflexivity). subst s'.
    destruct Ew as [_ -> _ _ | _ _ -> _ _ | sent _ _ _ -> _ _ | _ _ -> _ _]; simpl; auto.
  - destruct r; intros H; inv_pair H; auto.
Qed.

(* ---- collection ------------------------------------------------------------------------------- *)

Lemma collect_one_ok s c n e : In e (collect_one s c n) -> e_c e = c /\ entry_ok s e.
Proof.
  unfold collect_one. destruct (registered s) eqn:Er; simpl; [|tauto].
  destruct (reported (kernel_filter s n)); simpl; [|tauto].
  unfold unmap_events. intros [<-|[]]. simpl. split; [reflexivity|]. split; [assumption|].
  split; intros H; apply andb_true_iff in H; tauto.
Qed.

Lemma collect_get2 m evs d : get2 (collect m evs) d = get2 m d.
Proof. reflexivity. Qed.

Lemma collect_inv2 m evs : inv2 m -> inv2 (collect m evs).
Proof.
  intros [Ha _]. split; [exact Ha|].
  unfold sel_ok. simpl. rewrite Forall_forall. intros e Hin. apply in_flat_map in Hin.
  destruct Hin as [[c n] [_ Hin]]. simpl in Hin. apply collect_one_ok in Hin. destruct Hin as [<- Hok].
  exact Hok.
Qed.

Lemma inv_get2 m c : inv2 m -> inv (get2 m c).
Proof. intros [Ha _]. apply Ha. Qed.

(* ---- one step ---------------------------------------------------------------------------------- *)

Lemma deliver_inv2 m o m' r : inv2 m -> deliver m o = (m', r) -> inv2 m'.
Proof.
  intros Hinv H. unfold deliver in H. destruct (sel m) as [|e l] eqn:El. { inv_pair H. assumption. }
  destruct (dispatch_flags (get2 m (e_c e)) (e_r e) (e_w e) o) as [s' x] eqn:Ed. inv_pair H.
  pose proof (i2_sel m Hinv) as Hok. rewrite El in Hok. inversion Hok as [|? ? He Hl]; subst.
  pose proof (inv_get2 m (e_c e) Hinv) as Hi.
  apply put2_inv2; auto.
  eapply dispatch_flags_inv; eauto. eapply entry_removed; eauto.
Qed.

Lemma on_plain_inv2 m c y s' r :
  inv2 m -> step (get2 m c) y = (s', r) -> inv2 (put2 m c (get2 m c) s' (sel m)).
Proof.
  intros Hinv H. apply put2_inv2; auto.
  - eapply inv_step; eauto. apply inv_get2; assumption.
  - apply (i2_sel m Hinv).
Qed.

Lemma inv2_step m x m' r : inv2 m -> step2 m x = (m', r) -> inv2 m'.
Proof.
  intros Hinv H. unfold step2 in H. destruct x as [c y | evs | o |].
  - assert (Hsingle : forall n o,
      match sel m with
      | [] => if removed (get2 m c) then (m, mkout2 (Some c) out_dead false) else deliver (collect m [(c, n)]) o
      | _ :: _ => (m, out2_idle)
      end = (m', r) -> inv2 m').
    { intros n o Hs. destruct (sel m); [|inv_pair Hs; assumption].
      destruct (removed (get2 m c)); [inv_pair Hs; assumption|].
      eapply deliver_inv2; [|exact Hs]. apply collect_inv2; assumption. }
    destruct y; try (eapply Hsingle; exact H);
      match type of H with context [step ?s ?y] => destruct (step s y) as [s' r'] eqn:Es end;
      inv_pair H; eapply on_plain_inv2; eauto.
  - destruct (sel m); inv_pair H; [apply collect_inv2|]; assumption.
  - eapply deliver_inv2; eauto.
  - destruct (closq m) as [|c k]; [inv_pair H; assumption|].
    destruct (step (get2 m c) CloseSweep) as [s' r'] eqn:Es. inv_pair H. eapply on_plain_inv2; eauto.
Qed.

Lemma inv2_exec l : forall m, inv2 m -> inv2 (fst (exec2 m l)).
Proof.
  induction l as [|x l IH]; intros m Hm; simpl; auto.
  destruct (step2 m x) as [m1 r] eqn:E. specialize (IH m1 (inv2_step _ _ _ _ Hm E)).
  destruct (exec2 m1 l). exact IH.
Qed.

(* every cached event of a reachable state: registered client, only kinds it is registered for *)
Lemma cache_within_interest_lemma ops e :
  let m := fst (exec2 init2 ops) in
  In e (sel m) ->
  let s := get2 m (e_c e) in
  registered s = true /\ removed s = false /\
  (e_r e = true -> int_r s = true /\ suspended s = false) /\
  (e_w e = true -> int_w s = true /\ backlog s <> []).
Proof.
  intros m Hin s. pose proof (inv2_exec ops init2 inv2_init) as Hinv. fold m in Hinv.
  pose proof (i2_sel m Hinv) as Hok. unfold sel_ok in Hok. rewrite Forall_forall in Hok.
  specialize (Hok e Hin). fold s in Hok. destruct Hok as [Hr [A B]].
  pose proof (inv_get2 m (e_c e) Hinv) as Hi. fold s in Hi.
  split; [assumption|]. split; [eapply entry_removed; eauto; split; eauto|].
  destruct Hi as [Hint _ _]. destruct (Hint Hr) as [X Y]. split; intros H.
  - split; auto. specialize (A H). rewrite X in A. destruct (suspended s); simpl in A; congruence.
  - split; auto. specialize (B H). rewrite Y in B. unfold backlog. apply is_nil_false.
    destruct (is_nil (sendbuf s)); simpl in B; congruence.
Qed.

(* ---- a suspended client gets no onRead: n clients, events cached across callbacks -------------- *)

Lemma deliver_suspended_no_onRead m o m' r c :
  inv2 m -> suspended (get2 m c) = true -> deliver m o = (m', r) -> o2_c r = Some c ->
  ~ In OnRead (o_cbs (o2_out r)).
Proof.
  intros Hinv Hsu H Hc. unfold deliver in H. destruct (sel m) as [|e l] eqn:El. { inv_pair H. simpl. tauto. }
  destruct (dispatch_flags (get2 m (e_c e)) (e_r e) (e_w e) o) as [s' x] eqn:Ed. inv_pair H.
  simpl in Hc. injection Hc as Hc. simpl.
  pose proof (i2_sel m Hinv) as Hok. rewrite El in Hok. inversion Hok as [|? ? He Hl]; subst.
  destruct He as [Hr [A _]]. pose proof (inv_get2 m (e_c e) Hinv) as [Hint _ _].
  destruct (Hint Hr) as [X _]. rewrite Hsu in X. simpl in X.
  destruct (e_r e) eqn:Er. { specialize (A eq_refl). congruence. }
  eapply dispatch_flags_no_read; eauto.
Qed.

Lemma step2_suspended_no_onRead m x m' r c :
  inv2 m -> suspended (get2 m c) = true -> step2 m x = (m', r) -> o2_c r = Some c ->
  ~ In OnRead (o_cbs (o2_out r)).
Proof.
  intros Hinv Hsu H Hc. unfold step2 in H. destruct x as [c' y | evs | o |].
  - assert (Hsingle : forall n o,
      match sel m with
      | [] => if removed (get2 m c') then (m, mkout2 (Some c') out_dead false) else deliver (collect m [(c', n)]) o
      | _ :: _ => (m, out2_idle)
      end = (m', r) -> ~ In OnRead (o_cbs (o2_out r))).
    { intros n o Hs. destruct (sel m); [|inv_pair Hs; simpl; tauto].
      destruct (removed (get2 m c')); [inv_pair Hs; simpl; tauto|].
      apply (deliver_suspended_no_onRead (collect m [(c', n)]) o m' r c);
        [apply collect_inv2; assumption | rewrite collect_get2; exact Hsu | exact Hs | exact Hc]. }
    destruct y; try (eapply Hsingle; exact H);
      match type of H with context [step ?s ?y] => destruct (step s y) as [s' r'] eqn:Es end;
      inv_pair H; simpl in Hc; injection Hc as ->; simpl;
      (eapply step_suspended_no_onRead; [apply inv_get2; eassumption | eassumption | eassumption]).
  - destruct (sel m); inv_pair H; simpl; tauto.
  - eapply deliver_suspended_no_onRead; eauto.
  - destruct (closq m) as [|c' k]; [inv_pair H; simpl; tauto|].
    destruct (step (get2 m c') CloseSweep) as [s' r'] eqn:Es. inv_pair H. simpl in Hc. injection Hc as ->. simpl.
    eapply step_suspended_no_onRead; [apply inv_get2; eassumption | eassumption | eassumption].
Qed.

Lemma suspended2_state_lemma ops x c :
  let m := fst (exec2 init2 ops) in
  let r := snd (step2 m x) in
  suspended (get2 m c) = true -> o2_c r = Some c -> ~ In OnRead (o_cbs (o2_out r)).
Proof.
  intros m r Hsu Hc. pose proof (inv2_exec ops init2 inv2_init) as Hinv. fold m in Hinv.
  subst r. destruct (step2 m x) as [m' r] eqn:E. simpl in *.
  eapply step2_suspended_no_onRead; eauto.
Qed.

(* the operations the application issued on client c, in order *)
Fixpoint ops_of (c : nat) (l : list op2) : list op :=
  match l with
  | [] => []
  | On d y :: l' => if Nat.eqb d c then y :: ops_of c l' else ops_of c l'
  | _ :: l' => ops_of c l'
  end.

Lemma put2_suspended m c d s s' l :
  s = get2 m c -> (suspended s' = suspended s \/ d <> c) ->
  d <> c \/ suspended (get2 (put2 m c s s' l) d) = suspended (get2 m d).
Proof.
  intros Hs [H|H]; [|left; assumption]. destruct (Nat.eq_dec d c) as [->|Hne]; [right | left; assumption].
  rewrite get2_put2_same. congruence.
Qed.

Lemma deliver_keeps_suspended m o m' r d :
  deliver m o = (m', r) ->
  suspended (get2 m' d) = suspended (get2 m d) /\ removed (get2 m' d) = removed (get2 m d).
Proof.
  unfold deliver. destruct (sel m) as [|e l]. { intros H; inv_pair H. auto. }
  destruct (dispatch_flags (get2 m (e_c e)) (e_r e) (e_w e) o) as [s' x] eqn:Ed. intros H. inv_pair H.
  destruct (Nat.eq_dec d (e_c e)) as [->|Hne].
  - rewrite get2_put2_same. eapply dispatch_flags_suspended; eauto.
  - rewrite get2_put2_other by assumption. auto.
Qed.

Lemma step2_suspended m x m' r c :
  inv2 m -> step2 m x = (m', r) -> removed (get2 m' c) = false ->
  suspended (get2 m' c) = susp_of_ops (ops_of c [x]) (suspended (get2 m c)).
Proof.
  intros Hinv H Hrm. unfold step2 in H. destruct x as [c' y | evs | o |]; simpl ops_of.
  - assert (Hsingle : forall n o,
      match sel m with
      | [] => if removed (get2 m c') then (m, mkout2 (Some c') out_dead false) else deliver (collect m [(c', n)]) o
      | _ :: _ => (m, out2_idle)
      end = (m', r) -> suspended (get2 m' c) = suspended (get2 m c)).
    { intros n o Hs. destruct (sel m); [|inv_pair Hs; reflexivity].
      destruct (removed (get2 m c')); [inv_pair Hs; reflexivity|].
      apply (deliver_keeps_suspended _ _ _ _ c) in Hs. rewrite collect_get2 in Hs. tauto. }
    destruct (Nat.eqb c' c) eqn:Ec.
    + apply eqb_true_eq in Ec. subst c'.
      destruct y; try (rewrite (Hsingle _ _ H); reflexivity);
        match type of H with context [step ?s ?y] => destruct (step s y) as [s' r'] eqn:Es end;
        inv_pair H; rewrite get2_put2_same in *;
        rewrite (step_suspended _ _ _ _ (inv_get2 m c Hinv) Es Hrm); reflexivity.
    + apply eqb_false_neq in Ec. simpl.
      destruct y; try (apply (Hsingle _ _ H));
        match type of H with context [step ?s ?y] => destruct (step s y) as [s' r'] eqn:Es end;
        inv_pair H; rewrite get2_put2_other by congruence; reflexivity.
  - simpl. destruct (sel m); inv_pair H; try rewrite collect_get2; reflexivity.
  - simpl. apply (deliver_keeps_suspended _ _ _ _ c) in H. tauto.
  - simpl. destruct (closq m) as [|c' k]; [inv_pair H; reflexivity|].
    destruct (step (get2 m c') CloseSweep) as [s' r'] eqn:Es. inv_pair H.
    destruct (Nat.eq_dec c c') as [->|Hne].
    + rewrite get2_put2_same in *. rewrite (step_suspended _ _ _ _ (inv_get2 m c' Hinv) Es Hrm). reflexivity.
    + rewrite get2_put2_other by assumption. reflexivity.
Qed.

Lemma ops_of_cons c x l : ops_of c (x :: l) = ops_of c [x] ++ ops_of c l.
Proof. destruct x as [d y| | |]; simpl; auto. destruct (Nat.eqb d c); reflexivity. Qed.

Lemma susp_of_ops_app a b cur : susp_of_ops (a ++ b) cur = susp_of_ops b (susp_of_ops a cur).
Proof.
  revert cur. induction a as [|x a IH]; intros cur; simpl; auto.
  destruct x; simpl; apply IH.
Qed.

(* removal is final *)
Lemma step2_removed m x m' r c : step2 m x = (m', r) -> removed (get2 m c) = true -> removed (get2 m' c) = true.
Proof.
  intros H Hrm. unfold step2 in H. destruct x as [c' y | evs | o |].
  - assert (Hsingle : forall n o,
      match sel m with
      | [] => if removed (get2 m c') then (m, mkout2 (Some c') out_dead false) else deliver (collect m [(c', n)]) o
      | _ :: _ => (m, out2_idle)
      end = (m', r) -> removed (get2 m' c) = true).
    { intros n o Hs. destruct (sel m); [|inv_pair Hs; assumption].
      destruct (removed (get2 m c')); [inv_pair Hs; assumption|].
      apply (deliver_keeps_suspended _ _ _ _ c) in Hs. rewrite collect_get2 in Hs. destruct Hs as [_ ->]. assumption. }
    destruct y; try (apply (Hsingle _ _ H));
      match type of H with context [step ?s ?y] => destruct (step s y) as [s' r'] eqn:Es end;
      inv_pair H; (destruct (Nat.eq_dec c c') as [->|Hne];
        [rewrite get2_put2_same; rewrite step_removed in Es by assumption; inv_pair Es; assumption
        | rewrite get2_put2_other by assumption; assumption]).
  - destruct (sel m); inv_pair H; try rewrite collect_get2; assumption.
  - apply (deliver_keeps_suspended _ _ _ _ c) in H. destruct H as [_ ->]. assumption.
  - destruct (closq m) as [|c' k]; [inv_pair H; assumption|].
    destruct (step (get2 m c') CloseSweep) as [s' r'] eqn:Es. inv_pair H.
    destruct (Nat.eq_dec c c') as [->|Hne].
    + rewrite get2_put2_same. rewrite step_removed in Es by assumption. inv_pair Es. assumption.
    + rewrite get2_put2_other by assumption. assumption.
Qed.

Lemma exec2_suspended l : forall m c,
  inv2 m -> removed (get2 (fst (exec2 m l)) c) = false ->
  suspended (get2 (fst (exec2 m l)) c) = susp_of_ops (ops_of c l) (suspended (get2 m c)).
Proof.
  induction l as [|x l IH]; intros m c Hinv Hrm; [reflexivity|].
  rewrite (ops_of_cons c x l), susp_of_ops_app. cbn [exec2] in *.
  destruct (step2 m x) as [m1 r] eqn:E.
  pose proof (inv2_step _ _ _ _ Hinv E) as Hinv1. specialize (IH m1 c Hinv1).
  destruct (exec2 m1 l) as [m2 rs] eqn:E2. cbn [fst] in *.
  rewrite IH by assumption. f_equal.
  destruct (removed (get2 m1 c)) eqn:Erm1.
  - exfalso. assert (removed (get2 (fst (exec2 m1 l)) c) = true).
    { clear -Erm1. revert m1 Erm1. induction l as [|y l IHl]; intros m1 Erm1; simpl; auto.
      destruct (step2 m1 y) as [m3 r3] eqn:E3. specialize (IHl m3 (step2_removed _ _ _ _ c E3 Erm1)).
      destruct (exec2 m3 l). exact IHl. }
    rewrite E2 in H. simpl in H. congruence.
  - eapply step2_suspended; eauto.
Qed.

Lemma suspended2_lemma ops x c :
  let m := fst (exec2 init2 ops) in
  let r := snd (step2 m x) in
  susp_of_ops (ops_of c ops) false = true -> o2_c r = Some c -> ~ In OnRead (o_cbs (o2_out r)).
Proof.
  intros m r Hs Hc. pose proof (inv2_exec ops init2 inv2_init) as Hinv. fold m in Hinv.
  destruct (removed (get2 m c)) eqn:Erm.
  - (* a removed client gets no callback at all *)
    subst r. destruct (step2 m x) as [m' r] eqn:E. simpl in *. unfold step2 in E.
    destruct x as [c' y | evs | o |].
    + assert (Hsingle : forall n o,
        match sel m with
        | [] => if removed (get2 m c') then (m, mkout2 (Some c') out_dead false) else deliver (collect m [(c', n)]) o
        | _ :: _ => (m, out2_idle)
        end = (m', r) -> ~ In OnRead (o_cbs (o2_out r))).
      { intros n o Hd. destruct (sel m); [|inv_pair Hd; simpl; tauto].
        destruct (removed (get2 m c')) eqn:Erm'; [inv_pair Hd; simpl; tauto|].
        unfold deliver in Hd. simpl in Hd. unfold collect_one in Hd.
        destruct (registered (get2 m c')) eqn:Er; simpl in Hd; [|inv_pair Hd; simpl; tauto].
        destruct (reported (kernel_filter (get2 m c') n)); simpl in Hd; [|inv_pair Hd; simpl; tauto].
        destruct (dispatch_flags _ _ _ o) as [s' x0] eqn:Ed in Hd. inv_pair Hd. simpl in Hc. injection Hc as ->.
        congruence. }
      destruct y; try (apply (Hsingle _ _ E));
        match type of E with context [step ?s ?y] => destruct (step s y) as [s' r'] eqn:Es end;
        inv_pair E; simpl in Hc; injection Hc as ->; simpl;
        rewrite step_removed in Es by assumption; inv_pair Es; simpl; tauto.
    + destruct (sel m); inv_pair E; simpl; tauto.
    + unfold deliver in E. destruct (sel m) as [|e l] eqn:El; [inv_pair E; simpl; tauto|].
      destruct (dispatch_flags _ _ _ o) as [s' x0] eqn:Ed in E. inv_pair E. simpl in Hc. injection Hc as Hc.
      pose proof (i2_sel m Hinv) as Hok. rewrite El in Hok. inversion Hok as [|? ? He Hl]; subst.
      pose proof (entry_removed _ _ (inv_get2 m (e_c e) Hinv) He). congruence.
    + destruct (closq m) as [|c' k]; [inv_pair E; simpl; tauto|].
      destruct (step (get2 m c') CloseSweep) as [s' r'] eqn:Es. inv_pair E. simpl in Hc. injection Hc as ->. simpl.
      rewrite step_removed in Es by assumption. inv_pair Es. simpl. tauto.
  - apply (suspended2_state_lemma ops x c); [|exact Hc]. fold m.
    pose proof (exec2_suspended ops init2 c inv2_init) as Hsu. fold m in Hsu. rewrite Hsu by assumption. destruct c; exact Hs.
Qed.

(* ---- the one-client model is the n-client model with every client but client 0 left alone ------ *)

Lemma resel_nil c s s' : resel c s s' [] = [].
Proof. unfold resel, revoke, forget. destruct (registered s'), (registered s); simpl; auto.
  destruct (eqb _ _ && eqb _ _); reflexivity. Qed.

Lemma single_step_embeds m y :
  sel m = [] ->
  let '(s', r) := step (get2 m 0%nat) y in
  let '(m', r2) := step2 m (On 0%nat y) in
  get2 m' 0%nat = s' /\ (forall d, d <> 0%nat -> get2 m' d = get2 m d) /\ sel m' = [] /\ o2_out r2 = r.
Proof.
  intros Hsel.
  assert (Hput : forall s s' r, let m' := put2 m 0%nat s s' [] in
    get2 m' 0%nat = s' /\ (forall d, d <> 0%nat -> get2 m' d = get2 m d) /\ sel m' = [] /\
    o2_out (mkout2 (Some 0%nat) r false) = r).
  { intros s s' r m'. subst m'. rewrite get2_put2_same, sel_put2, resel_nil.
    repeat split; auto. intros d Hd. apply get2_put2_other; assumption. }
  assert (Hsingle : forall n o,
    removed (get2 m 0%nat) = false ->
    let '(s', r) := dispatch (get2 m 0%nat) n o in
    let '(m', r2) := deliver (collect m [(0%nat, n)]) o in
    get2 m' 0%nat = s' /\ (forall d, d <> 0%nat -> get2 m' d = get2 m d) /\ sel m' = [] /\ o2_out r2 = r).
  { intros n o Hrm. unfold dispatch, deliver.
    assert (Ec : sel (collect m [(0%nat, n)]) = collect_one (get2 m 0%nat) 0%nat n)
      by (cbn [collect sel flat_map fst snd]; apply app_nil_r).
    rewrite Ec. unfold collect_one in *.
    destruct (registered (get2 m 0%nat)); cbn [negb] in *; [|repeat split; auto].
    destruct (reported (kernel_filter (get2 m 0%nat) n)); cbn [negb] in *; [|repeat split; auto].
    unfold unmap_events. cbn [e_c e_r e_w]. rewrite collect_get2.
    match goal with |- context [dispatch_flags ?a ?b ?c ?d] => destruct (dispatch_flags a b c d) as [s' x] end.
    destruct (Hput (get2 m 0%nat) s' x) as [A [B [C D]]].
    repeat split; auto. }
  destruct (step (get2 m 0%nat) y) as [s' r] eqn:Es. unfold step2.
  unfold step in Es. destruct (removed (get2 m 0%nat)) eqn:Erm.
  - inv_pair Es. destruct y; rewrite ?Hsel; unfold step; rewrite ?Erm; try apply Hput; repeat split; auto.
  - destruct y;
      try (specialize (Hsingle n o eq_refl); rewrite Es in Hsingle; rewrite Hsel; exact Hsingle);
      try (specialize (Hsingle (real_native (inbound (get2 m 0%nat)) (peer_closed (get2 m 0%nat))) o eq_refl);
           rewrite Es in Hsingle; rewrite Hsel; exact Hsingle);
      unfold step; rewrite Erm; first [rewrite Es | inv_pair Es]; rewrite Hsel; apply Hput.
Qed.

Lemma embedding_lemma ops : forall m,
  sel m = [] ->
  let '(s, outs) := exec (get2 m 0%nat) ops in
  let '(m', outs2) := exec2 m (map (On 0%nat) ops) in
  get2 m' 0%nat = s /\ (forall d, d <> 0%nat -> get2 m' d = get2 m d) /\ map o2_out outs2 = outs.
Proof.
  induction ops as [|y ops IH]; intros m Hsel; cbn [exec exec2 map]. { auto. }
  pose proof (single_step_embeds m y Hsel) as H1.
  destruct (step (get2 m 0%nat) y) as [s1 r1]. destruct (step2 m (On 0%nat y)) as [m1 r2].
  destruct H1 as [A [B [C D]]]. specialize (IH m1 C). rewrite A in IH.
  destruct (exec s1 ops) as [s2 outs]. destruct (exec2 m1 (map (On 0%nat) ops)) as [m2 outs2].
  destruct IH as [E [F G]]. cbn [map].
  split; [exact E | split; [intros d Hd; rewrite F by assumption; apply B; assumption | rewrite D, G; reflexivity]].
Qed.

Lemma embedding_init_lemma ops :
  get2 (fst (exec2 init2 (map (On 0%nat) ops))) 0%nat = fst (exec init ops) /\
  map o2_out (snd (exec2 init2 (map (On 0%nat) ops))) = snd (exec init ops).
Proof.
  pose proof (embedding_lemma ops init2 eq_refl) as H. rewrite get2_init2 in H.
  destruct (exec init ops). destruct (exec2 init2 (map (On 0%nat) ops)). simpl. tauto.
Qed.
