(* PROPERTY-LEVEL SPEC for C13: a monitor over what the property text talks about - and nothing else.

   ServerWriteSpec.v / ServerWrite2Spec.v are reference OBJECTS: they answer every operation with one
   exact observation (one send call per operation, of the whole backlog; callbacks of several clients in
   the order of the poll round; onClosed bookkeeping; hang-up routing ...).  The property text fixes
   much less.  This file is the reading of the text as a set of traces: a monitor that consumes the
   events of ONE client connection in the order in which they happen and rejects a trace exactly when
   one of the clauses of the text is contradicted:

     (1) stream     the bytes handed to the operating system so far ++ the bytes still queued
                    = the concatenation, in call order, of the data of the writes that returned true.
                    The monitor keeps the queue [m_pend]; whatever the OS is given must be the front of
                    that queue ([strip]).  How many send calls are made, and of what size, is free.
         peer       what the peer reads = what the OS was given and the peer has not read yet (FIFO wire:
                    the stream-socket assumption; the simulated kernel delivers at once).
     (2) size       every reported postponed count / getSendBufferSize() = |m_pend|
                    (accepted bytes not yet handed to the operating system).
     (3) onWrite    an onWrite is delivered only when nothing is queued, and only once per backlog
                    ([m_owed]; an accepted write of NO bytes while nothing is queued - the text is silent
                    about it - tolerates one: [m_may]).  "Once that backlog has drained" gives no deadline;
                    the monitor's is: a drained backlog whose onWrite is still owed when the kernel, asked by
                    the poll of a run(), finds the socket writable has had its onWrite at the latest when the
                    next but one run() ends (same slack as progress; an implementation may notice the empty
                    queue at the writable report that FOLLOWS the drain).
         progress   a backlog whose socket the kernel finds writable when a run() polls is offered to the OS:
                    at the latest when the next but one run() ends, bytes were taken or a send was refused
                    (would-block) ([m_due]; two runs because a collected notification may be handed out by
                    the following run()).  Without this clause "nothing lost" says nothing about a backlog that
                    is never sent.
     (4) suspended  no onRead between suspend() and resume().
         resumed    "... until it is resumed": a client that is not suspended (never was, or was resumed) gets
                    read notifications: when the kernel, asked by the poll of a run(), finds unread input on its
                    socket, an onRead is delivered at the latest when the next but one run() ends - unless the
                    client is suspended in between, or the notification served the write side instead (bytes
                    of the backlog were handed to the OS or an onWrite was delivered: the input is reported
                    again, level-triggered, and the clause starts again) ([m_rdue]).

   What the text leaves open is not judged: the number and size of send calls, the order of callbacks of
   different clients (each client has its own monitor), onClosed, the return
   value of a write (it is an input: it defines which data count as accepted; a write of NO bytes that the
   implementation turns into a send of 0 bytes answered 0 is such an input too and nothing more), everything
   after an event outside the text's quantifier (a send answered with an error or - for a request of at least
   one byte - with 0, the peer closing, the client being removed: [EFault], after which only clause (4)
   suspended is still judged).

   A run() here is a run() of the server that returns because the kernel reported the interrupt (the harness
   calls interrupt() before every run()); [ERunEnd] events may stand anywhere between two operations.

   The theorems (ServerWriteMonitorProofs.v, Properties_C13.v) say: every history of the one-client
   model and, per client, every history of the n-client model is accepted.  The extracted monitor
   judges the traces observed on the implementation (checks/C13.py). *)
From Coq Require Import ZArith List Bool.
From ServerWrite Require Import ServerWriteSpec.
Import ListNotations.
Local Open Scope Z_scope.
Local Open Scope bool_scope.

Inductive pev :=
| EWrite (d : list Z) (ret : bool) (post : option Z) (tx : list Z)
                               (* Client::write(d) returned ret, reported postponed = post (None: not asked for);
                                  tx = the bytes the OS took from send calls made during the call, in order *)
| EHand (tx : list Z)          (* outside a write call: the OS took tx from one send call *)
| EBlock                       (* a send call was refused: would-block *)
| EFault                       (* outside the quantifier: send answered with an error / with 0, peer closed, client removed *)
| ECb (c : cb)                 (* callback delivered *)
| ESusp (b : bool)             (* suspend() (true) / resume() (false) called *)
| ESize (n : Z)                (* getSendBufferSize() = n *)
| EPeer (d : list Z)           (* the peer has read everything delivered to it: d *)
| EWritable                    (* the kernel, asked by the poll of a run(), finds the client's socket writable *)
| EReadable                    (* the kernel, asked by the poll of a run(), finds unread input on the client's socket *)
| ERunEnd.                     (* a run() of the server returned (the kernel had reported the interrupt) *)

Record mon := mkmon {
  m_pend : list Z;     (* accepted, not yet handed to the operating system, in order *)
  m_wire : list Z;     (* handed over, not yet read by the peer *)
  m_susp : bool;
  m_owed : bool;       (* a backlog was announced (a write left bytes queued) and its onWrite has not been delivered *)
  m_may : bool;        (* an empty write was accepted while nothing was queued *)
  m_due : nat;         (* 0: no obligation; k+1: when the (k+1)-th run() from now ends the backlog must have been offered /
                          the onWrite owed for a drained backlog must have been delivered *)
  m_rdue : nat;        (* 0: no obligation; k+1: when the (k+1)-th run() from now ends an onRead must have been delivered *)
  m_void : bool        (* an EFault happened *)
}.

Definition mon_init : mon := mkmon [] [] false false false 0 0 false.

(* clause numbers of a rejection *)
Definition c_stream : Z := 1.
Definition c_size : Z := 2.
Definition c_onwrite : Z := 3.
Definition c_suspended : Z := 4.
Definition c_progress : Z := 5.
Definition c_peer : Z := 6.
Definition c_resumed : Z := 7.

Inductive verdict := Go (m : mon) | Stop (clause : Z).

(* [strip tx l] = Some rest  iff  l = tx ++ rest *)
Fixpoint strip (tx l : list Z) : option (list Z) :=
  match tx with
  | [] => Some l
  | a :: tx' => match l with
                | b :: l' => if a =? b then strip tx' l' else None
                | [] => None
                end
  end.

Fixpoint list_eqb (a b : list Z) : bool :=
  match a, b with
  | [], [] => true
  | x :: a', y :: b' => (x =? y) && list_eqb a' b'
  | _, _ => false
  end.

Definition set_susp_m (m : mon) (b : bool) : mon :=
  mkmon (m_pend m) (m_wire m) b (m_owed m) (m_may m) (m_due m) (if b then O else m_rdue m) (m_void m).

Definition set_rdue (m : mon) (k : nat) : mon :=
  mkmon (m_pend m) (m_wire m) (m_susp m) (m_owed m) (m_may m) (m_due m) k (m_void m).

(* the two deadlines at the end of a run() *)
Definition tick (k : nat) : option nat :=
  match k with O => Some O | S O => None | S k' => Some k' end.

Definition mon_step (m : mon) (e : pev) : verdict :=
  match e with
  | ECb OnRead => if m_susp m then Stop c_suspended else Go (set_rdue m O)
  | ESusp b => Go (set_susp_m m b)
  | _ =>
    if m_void m then Go m
    else
    match e with
    | EWrite d ret post tx =>
        match strip tx (if ret then m_pend m ++ d else m_pend m) with
        | None => Stop c_stream
        | Some rest =>
            if match post with Some n => negb (n =? zlen rest) | None => false end then Stop c_size
            else Go (mkmon rest (m_wire m ++ tx) (m_susp m)
                           (m_owed m || negb (is_nil rest))
                           (m_may m || (ret && is_nil d && is_nil (m_pend m)))
                           (if is_nil tx then m_due m else O) (m_rdue m) false)
        end
    | EHand tx =>
        match strip tx (m_pend m) with
        | None => Stop c_stream
        | Some rest => Go (mkmon rest (m_wire m ++ tx) (m_susp m) (m_owed m) (m_may m) O O false)
        end
    | EBlock => Go (mkmon (m_pend m) (m_wire m) (m_susp m) (m_owed m) (m_may m) O (m_rdue m) false)
    | EFault => Go (mkmon (m_pend m) (m_wire m) (m_susp m) (m_owed m) (m_may m) O O true)
    | ECb OnWrite =>
        if is_nil (m_pend m) && (m_owed m || m_may m)
        then Go (mkmon (m_pend m) (m_wire m) (m_susp m) false false O O false)
        else Stop c_onwrite
    | ECb _ => Go m
    | ESusp _ => Go m
    | ESize n => if n =? zlen (m_pend m) then Go m else Stop c_size
    | EPeer d =>
        if list_eqb d (m_wire m) then Go (mkmon (m_pend m) [] (m_susp m) (m_owed m) (m_may m) (m_due m) (m_rdue m) false)
        else Stop c_peer
    | EWritable =>
        if (m_owed m || negb (is_nil (m_pend m))) && Nat.eqb (m_due m) O
        then Go (mkmon (m_pend m) (m_wire m) (m_susp m) (m_owed m) (m_may m) 2 (m_rdue m) false)
        else Go m
    | EReadable =>
        if negb (m_susp m) && Nat.eqb (m_rdue m) O
        then Go (set_rdue m 2)
        else Go m
    | ERunEnd =>
        match tick (m_due m) with
        | None => Stop (if is_nil (m_pend m) then c_onwrite else c_progress)
        | Some k =>
            match tick (m_rdue m) with
            | None => Stop c_resumed
            | Some k' => Go (mkmon (m_pend m) (m_wire m) (m_susp m) (m_owed m) (m_may m) k k' false)
            end
        end
    end
  end.

Fixpoint mon_run (m : mon) (l : list pev) : verdict :=
  match l with
  | [] => Go m
  | e :: l' => match mon_step m e with Go m' => mon_run m' l' | Stop c => Stop c end
  end.

Definition accepted_trace (l : list pev) : Prop := exists m, mon_run mon_init l = Go m.

(* ---- the trace of a model history ----------------------------------------------------------------
   What one step of the model (operation x, observation r) lets the monitor see.  One poll event of the
   one-client model is one poll of a run(). *)

(* the send a write-ready part issued, as events: the outcome decides the kind *)
Definition send_events (r : out) : list pev :=
  if o_drop r then [EFault]
  else match o_sends r with
       | [] => []
       | (_, ret) :: _ => if 0 <? ret then [EHand (o_tx r)] else [EBlock]
       end.

(* [writable] / [readable]: the kernel was asked and what it finds for this socket includes EPOLLOUT / EPOLLIN *)
Definition ask_events (writable readable : bool) : list pev :=
  (if writable then [EWritable] else []) ++ (if readable then [EReadable] else []).

Definition dispatch_events (writable readable : bool) (r : out) : list pev :=
  ask_events writable readable ++ send_events r ++ map ECb (o_cbs r).

(* a write that did not return true is outside the quantifier (EFault) unless it is a write of NO bytes that
   was turned into a send of 0 bytes answered 0 (the text is silent; the connection is healthy) *)
Definition write_fault (d : list Z) (r : out) : bool :=
  match o_ret r with
  | Some true => false
  | _ => negb (is_nil d) || match o_sends r with (_, ret) :: _ => ret <? 0 | [] => false end
  end.

(* [asked]: the step includes the poll of a run() (one-client machine: every poll event does);
   [rn]: the readiness of the real socket pair before the step (PollReal) *)
Definition events_of (asked : bool) (rn : native) (x : op) (r : out) : list pev :=
  if o_dead r then []
  else
  match x with
  | Write d _ =>
      (if write_fault d r then [EFault] else []) ++
      [EWrite d (match o_ret r with Some true => true | _ => false end) (Some (o_num r)) (o_tx r)]
  | Dispatch n _ => dispatch_events (asked && nout n) (asked && nin n) r
  | PollReal _ => dispatch_events (asked && nout rn) (asked && nin rn) r
  | CloseSweep => map ECb (o_cbs r)
  | Suspend => [ESusp true]
  | Resume => [ESusp false]
  | Read _ => []
  | PeerWrite _ => []
  | PeerRead => [EPeer (o_data r)]
  | PeerClose => [EPeer (o_data r); EFault]
  | Remove => [EFault]
  end.

(* A history as the monitor sees it: operations of the model, probes of getSendBufferSize(), ends of run() calls -
   in any order (where a run() ends, and where the application asks for the size, is up to the history). *)
Inductive hop :=
| HOp (x : op)
| HSize
| HRunEnd.
