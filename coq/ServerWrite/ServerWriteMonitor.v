(* PROPERTY-LEVEL SPEC for C13: a monitor over what the property text talks about - and nothing else.

   ServerWriteSpec.v / ServerWrite2Spec.v are reference OBJECTS: they answer every operation with one
   exact observation (one send call per operation, of the whole backlog; callbacks of two clients in
   the order of the poll round; onClosed bookkeeping; hang-up routing ...).  The property text fixes
   much less.  This file is the reading of the text as a set of traces: a monitor that consumes the
   events of ONE client connection in the order in which they happen and rejects a trace exactly when
   one of the clauses of the text is contradicted:

     (1) stream     the bytes handed to the operating system so far ++ the bytes still queued
                    = the concatenation, in call order, of the data of the writes that returned true.
                    The monitor keeps the queue [m_pend]; whatever the OS is given must be the front of
                    that queue ([strip]).  How many send calls are made, and of what size, is free.
         peer       what the peer reads = what the OS was given and the peer has not read yet (FIFO wire:
                    the stream-socket assumption; the simulated kernel delivers at once).
     (2) size       every reported postponed count / getSendBufferSize() = |m_pend|
                    (accepted bytes not yet handed to the operating system).
     (3) onWrite    an onWrite is delivered only when nothing is queued, and only once per backlog
                    ([m_owed]; an accepted write of NO bytes while nothing is queued - the text is silent
                    about it - tolerates one: [m_may]); when a run() of the server ends, a backlog that
                    has drained has had its onWrite.
         progress   a backlog whose socket the kernel finds writable when a run() polls is offered to the OS:
                    at the latest when the next but one run() ends, bytes were taken or a send was refused
                    (would-block) ([m_due]; two runs because a collected notification may be handed out by
                    the following run()).  Without this clause "nothing lost" says nothing about a backlog that
                    is never sent.
     (4) suspended  no onRead between suspend() and resume().

   What the text leaves open is not judged: the number and size of send calls, the order of callbacks of
   different clients (each client has its own monitor), onClosed, when onRead IS delivered, the return
   value of a write (it is an input: it defines which data count as accepted), everything after an event
   outside the text's quantifier (a send answered with an error or with 0, the peer closing, the client
   being removed: [EFault], after which only clause (4) is still judged).

   The theorems (ServerWriteMonitorProofs.v, Properties_C13.v) say: every history of the one-client
   model and, per client, every history of the two-client model is accepted.  The extracted monitor
   judges the traces observed on the implementation (checks/C13.py). *)
From Coq Require Import ZArith List Bool.
From ServerWrite Require Import ServerWriteSpec.
Import ListNotations.
Local Open Scope Z_scope.
Local Open Scope bool_scope.

Inductive pev :=
| EWrite (d : list Z) (ret : bool) (post : option Z) (tx : list Z)
                               (* Client::write(d) returned ret, reported postponed = post (None: not asked for);
                                  tx = the bytes the OS took from send calls made during the call, in order *)
| EHand (tx : list Z)          (* outside a write call: the OS took tx from one send call *)
| EBlock                       (* a send call was refused: would-block *)
| EFault                       (* outside the quantifier: send answered with an error / with 0, peer closed, client removed *)
| ECb (c : cb)                 (* callback delivered *)
| ESusp (b : bool)             (* suspend() (true) / resume() (false) called *)
| ESize (n : Z)                (* getSendBufferSize() = n *)
| EPeer (d : list Z)           (* the peer has read everything delivered to it: d *)
| EWritable                    (* the kernel, asked by the poll of a run(), finds the client's socket writable *)
| ERunEnd.                     (* a run() of the server returned *)

Record mon := mkmon {
  m_pend : list Z;     (* accepted, not yet handed to the operating system, in order *)
  m_wire : list Z;     (* handed over, not yet read by the peer *)
  m_susp : bool;
  m_owed : bool;       (* a backlog was announced (a write left bytes queued) and its onWrite has not been delivered *)
  m_may : bool;        (* an empty write was accepted while nothing was queued *)
  m_due : nat;         (* 0: no obligation; k+1: the backlog must have been offered when the (k+1)-th run() from now ends *)
  m_void : bool        (* an EFault happened *)
}.

Definition mon_init : mon := mkmon [] [] false false false 0 false.

(* clause numbers of a rejection *)
Definition c_stream : Z := 1.
Definition c_size : Z := 2.
Definition c_onwrite : Z := 3.
Definition c_suspended : Z := 4.
Definition c_progress : Z := 5.
Definition c_peer : Z := 6.

Inductive verdict := Go (m : mon) | Stop (clause : Z).

(* [strip tx l] = Some rest  iff  l = tx ++ rest *)
Fixpoint strip (tx l : list Z) : option (list Z) :=
  match tx with
  | [] => Some l
  | a :: tx' => match l with
                | b :: l' => if a =? b then strip tx' l' else None
                | [] => None
                end
  end.

Fixpoint list_eqb (a b : list Z) : bool :=
  match a, b with
  | [], [] => true
  | x :: a', y :: b' => (x =? y) && list_eqb a' b'
  | _, _ => false
  end.

Definition set_susp_m (m : mon) (b : bool) : mon :=
  mkmon (m_pend m) (m_wire m) b (m_owed m) (m_may m) (m_due m) (m_void m).

Definition mon_step (m : mon) (e : pev) : verdict :=
  match e with
  | ECb OnRead => if m_susp m then Stop c_suspended else Go m
  | ESusp b => Go (set_susp_m m b)
  | _ =>
    if m_void m then Go m
    else
    match e with
    | EWrite d ret post tx =>
        match strip tx (if ret then m_pend m ++ d else m_pend m) with
        | None => Stop c_stream
        | Some rest =>
            if match post with Some n => negb (n =? zlen rest) | None => false end then Stop c_size
            else Go (mkmon rest (m_wire m ++ tx) (m_susp m)
                           (m_owed m || negb (is_nil rest))
                           (m_may m || (ret && is_nil d && is_nil (m_pend m)))
                           (if is_nil tx then m_due m else O) false)
        end
    | EHand tx =>
        match strip tx (m_pend m) with
        | None => Stop c_stream
        | Some rest => Go (mkmon rest (m_wire m ++ tx) (m_susp m) (m_owed m) (m_may m) O false)
        end
    | EBlock => Go (mkmon (m_pend m) (m_wire m) (m_susp m) (m_owed m) (m_may m) O false)
    | EFault => Go (mkmon (m_pend m) (m_wire m) (m_susp m) (m_owed m) (m_may m) O true)
    | ECb OnWrite =>
        if is_nil (m_pend m) && (m_owed m || m_may m)
        then Go (mkmon (m_pend m) (m_wire m) (m_susp m) false false (m_due m) false)
        else Stop c_onwrite
    | ECb _ => Go m
    | ESusp _ => Go m
    | ESize n => if n =? zlen (m_pend m) then Go m else Stop c_size
    | EPeer d =>
        if list_eqb d (m_wire m) then Go (mkmon (m_pend m) [] (m_susp m) (m_owed m) (m_may m) (m_due m) false)
        else Stop c_peer
    | EWritable =>
        if negb (is_nil (m_pend m)) && Nat.eqb (m_due m) O
        then Go (mkmon (m_pend m) (m_wire m) (m_susp m) (m_owed m) (m_may m) 2 false)
        else Go m
    | ERunEnd =>
        if m_owed m && is_nil (m_pend m) then Stop c_onwrite
        else match m_due m with
             | O => Go m
             | S O => Stop c_progress
             | S k => Go (mkmon (m_pend m) (m_wire m) (m_susp m) (m_owed m) (m_may m) k false)
             end
    end
  end.

Fixpoint mon_run (m : mon) (l : list pev) : verdict :=
  match l with
  | [] => Go m
  | e :: l' => match mon_step m e with Go m' => mon_run m' l' | Stop c => Stop c end
  end.

Definition accepted_trace (l : list pev) : Prop := exists m, mon_run mon_init l = Go m.

(* ---- the trace of a model history ----------------------------------------------------------------
   What one step of the model (operation x, observation r, client state s' afterwards) lets the
   monitor see.  One poll event of the one-client model is one run() of the server. *)

(* the send a write-ready part issued, as events: the outcome decides the kind *)
Definition send_events (r : out) : list pev :=
  if o_drop r then [EFault]
  else match o_sends r with
       | [] => []
       | (_, ret) :: _ => if 0 <? ret then [EHand (o_tx r)] else [EBlock]
       end.

Definition size_event (removed_after : bool) (sb : Z) : list pev :=
  if removed_after then [] else [ESize sb].

(* [writable]: the readiness the kernel reports in this event includes EPOLLOUT *)
Definition dispatch_events (writable : bool) (r : out) (removed_after : bool) (sb : Z) : list pev :=
  (if writable then [EWritable] else []) ++ send_events r ++ map ECb (o_cbs r) ++ size_event removed_after sb ++ [ERunEnd].

(* [asked]: the step includes the poll of a run() (one-client machine: every poll event does) *)
Definition events_of (asked : bool) (x : op) (r : out) (removed_after : bool) (sb : Z) : list pev :=
  if o_dead r then []
  else
  match x with
  | Write d _ =>
      (if match o_ret r with Some true => false | _ => true end then [EFault] else []) ++
      [EWrite d (match o_ret r with Some true => true | _ => false end) (Some (o_num r)) (o_tx r)] ++
      size_event removed_after sb
  | Dispatch n _ => dispatch_events (asked && nout n) r removed_after sb
  | PollReal _ => dispatch_events asked r removed_after sb
  | CloseSweep => map ECb (o_cbs r)
  | Suspend => [ESusp true] ++ size_event removed_after sb
  | Resume => [ESusp false] ++ size_event removed_after sb
  | Read _ => size_event removed_after sb
  | PeerWrite _ => size_event removed_after sb
  | PeerRead => [EPeer (o_data r)] ++ size_event removed_after sb
  | PeerClose => [EPeer (o_data r); EFault]
  | Remove => [EFault]
  end.
