(* Every history of the models is accepted by the property-level monitor (ServerWriteMonitor.v):
     one client   - the whole monitor, including the progress clause (one poll event = one run())
     two clients  - per client, the events of that client; the kernel-asked events (EWritable) are not
                    part of the two-client trace (a collected notification is handed out by a later
                    Deliver step, which is an input of that machine), so the progress clause is not
                    exercised there. *)
From Coq Require Import ZArith List Bool Lia.
From ServerWrite Require Import ServerWriteSpec ServerWriteMonitor ServerWriteModel ServerWriteProofs ServerWriteTheorems
  ServerWrite2Spec ServerWrite2Model ServerWrite2Proofs.
Import ListNotations.
Local Open Scope Z_scope.
Local Open Scope bool_scope.

Arguments ztake : simpl never.
Arguments zdrop : simpl never.
Arguments zlen : simpl never.
Arguments send_count : simpl never.
Arguments Z.eqb : simpl never.
Arguments Z.ltb : simpl never.
Arguments Z.geb : simpl never.
Arguments Z.leb : simpl never.

(* ---- the traces ------------------------------------------------------------------------------------ *)

Fixpoint trace (s : st) (l : list op) : list pev :=
  match l with
  | [] => []
  | x :: l' => let '(s', r) := step s x in
               events_of true x r (removed s') (getSendBufferSize s') ++ trace s' l'
  end.

(* what client c sees of one step of the two-client machine *)
Definition events2 (c : bool) (x : op2) (r : out2) (s' : st) : list pev :=
  match o2_c r with
  | Some c' =>
      if eqb c' c then
        match x with
        | On _ y => events_of false y (o2_out r) (removed s') (getSendBufferSize s')
        | Deliver _ => dispatch_events false (o2_out r) (removed s') (getSendBufferSize s')
        | Sweep => map ECb (o_cbs (o2_out r))
        | Collect _ _ _ => []
        end
      else []
  | None => []
  end.

Fixpoint trace2 (c : bool) (m : st2) (l : list op2) : list pev :=
  match l with
  | [] => []
  | x :: l' => let '(m', r) := step2 m x in events2 c x r (get2 m' c) ++ trace2 c m' l'
  end.

(* ---- monitor basics -------------------------------------------------------------------------------- *)

Lemma mon_run_app m a b :
  mon_run m (a ++ b) = match mon_run m a with Go m' => mon_run m' b | Stop c => Stop c end.
Proof.
  revert m. induction a as [|e a IH]; intros m; simpl; auto.
  destruct (mon_step m e); auto.
Qed.

Lemma strip_app a b : strip a (a ++ b) = Some b.
Proof. induction a as [|x a IH]; simpl; auto. rewrite Z.eqb_refl. exact IH. Qed.

Lemma strip_take k l : strip (ztake k l) l = Some (zdrop k l).
Proof. rewrite <- (ztake_zdrop k l) at 2. apply strip_app. Qed.

Lemma strip_self l : strip l l = Some [].
Proof. rewrite <- (app_nil_r l) at 2. apply strip_app. Qed.

Lemma strip_nil l : strip [] l = Some l.
Proof. reflexivity. Qed.

Lemma list_eqb_refl l : list_eqb l l = true.
Proof. induction l as [|x l IH]; simpl; auto. rewrite Z.eqb_refl. exact IH. Qed.

(* ---- the coupling of a monitor with the state of its client ------------------------------------- *)

(* [d]: the progress obligation the monitor holds (0 between the steps of the model) *)
Record MId (d : nat) (m : mon) (s : st) : Prop := mkMI {
  mi_susp : removed s = false -> m_susp m = suspended s;
  mi_dead : removed s = true -> m_void m = true;
  mi_live : m_void m = false ->
            peer_closed s = false /\ m_pend m = sendbuf s /\ m_wire m = wire s /\
            m_owed m = negb (is_nil (sendbuf s)) /\ m_due m = d
}.
Notation MI := (MId O).

Lemma MI_init : MI mon_init init.
Proof. split; simpl; intros; auto; try discriminate. Qed.

Definition accepts (m : mon) (l : list pev) (s' : st) : Prop :=
  exists m', mon_run m l = Go m' /\ MI m' s'.

Lemma zdrop_is_nil_false k l : 0 <= k < zlen l -> is_nil (zdrop k l) = false.
Proof. intros H. apply nonnil_is_nil. apply zdrop_nonnil. exact H. Qed.

Lemma nonnil_app_is_nil (a b : list Z) : a <> [] -> is_nil (a ++ b) = false.
Proof. destruct a; simpl; congruence. Qed.

Ltac done_MI := eexists; (split; [reflexivity|]); split; simpl; auto; try discriminate; try solve [symmetry; auto];
                intros _; rewrite ?app_nil_r; repeat split; auto;
                try solve [repeat match goal with H : is_nil ?x = _ |- context [is_nil ?x] => rewrite H end; reflexivity];
                try solve [match goal with H : sendbuf _ = [] |- _ => rewrite ?H; reflexivity end].

(* the kernel is asked and finds the socket writable *)
Lemma writable_accepted m s (w : bool) :
  MI m s ->
  exists m1, mon_run m (if w then [EWritable] else []) = Go m1 /\
             MId (if w && negb (is_nil (sendbuf s)) then 2%nat else O) m1 s.
Proof.
  intros HMI. destruct w; simpl; [|eexists; split; [reflexivity | exact HMI]].
  destruct m as [pend wire0 susp owed may due void]. destruct HMI as [Hs Hdead Hl]. simpl in Hs, Hdead, Hl.
  destruct void; simpl.
  - eexists; split; [reflexivity|]. split; simpl; auto. discriminate.
  - destruct (Hl eq_refl) as (Hpc & -> & -> & -> & ->). simpl.
    destruct (is_nil (sendbuf s)) eqn:En; simpl; eexists; (split; [reflexivity|]); split; simpl; auto;
      intros _; rewrite ?En; repeat split; auto.
Qed.

(* ---- the client part of one poll event: dispatch_flags ------------------------------------------- *)

Lemma flags_accepted d m s rf wf o s' r :
  removed s = false ->
  (rf = true -> suspended s = false) -> (wf = true -> sendbuf s <> []) ->
  (d <> O -> wf = true) ->
  MId d m s -> dispatch_flags s rf wf o = (s', r) ->
  accepts m (dispatch_events false r (removed s') (getSendBufferSize s')) s'.
Proof.
  intros Hrm Hnosusp Hwf Hw HMI H.
  destruct m as [pend wire0 susp owed may due void]. destruct HMI as [Hs Hdead Hl]. simpl in Hs, Hdead, Hl.
  specialize (Hs Hrm). subst susp.
  unfold dispatch_flags in H. destruct wf.
  - assert (Hne : sendbuf s <> []) by (apply Hwf; reflexivity).
    clear Hw.
    destruct (write_ready s o) as [[s1 r1] fin] eqn:Ew. apply write_ready_cases in Ew.
    destruct Ew as [He _ _ _ | _ Hf -> -> -> | sent _ Hs Hwhich -> -> -> | _ Hle -> -> ->]; [congruence | | |].
    + (* the send fails: outside the quantifier *)
      inv_pair H. unfold accepts, dispatch_events, send_events, size_event, getSendBufferSize. simpl. rewrite Hrm.
      destruct void; simpl; done_MI.
    + (* a proper prefix (nothing: would-block) *)
      assert (Hs' : s' = set_buf (os_take s (ztake sent (sendbuf s))) (zdrop sent (sendbuf s))).
      { simpl in H. destruct rf; inv_pair H; reflexivity. }
      assert (Hcb : o_cbs r = (if rf then [OnRead] else [])).
      { simpl in H. destruct rf; inv_pair H; reflexivity. }
      assert (Hdr : o_drop r = false) by (simpl in H; destruct rf; inv_pair H; reflexivity).
      assert (Hse : o_sends r = [(zlen (sendbuf s), fst (send_ret (zlen (sendbuf s)) o))])
        by (simpl in H; destruct rf; inv_pair H; reflexivity).
      assert (Htx : o_tx r = ztake sent (sendbuf s)) by (simpl in H; destruct rf; inv_pair H; reflexivity).
      clear H. subst s'.
      unfold accepts, dispatch_events, send_events, size_event, getSendBufferSize.
      rewrite Hcb, Hdr, Hse, Htx. cbn [removed set_buf os_take set_wire sendbuf buf_size].
      rewrite Hrm.
      assert (Hrd : (if rf then [OnRead] else []) = [] \/ ((if rf then [OnRead] else []) = [OnRead] /\ suspended s = false)).
      { destruct rf; auto. }
      destruct void.
      * (* void: only the suspended clause is judged *)
        destruct Hrd as [-> | [-> Hsf]]; destruct (0 <? fst (send_ret (zlen (sendbuf s)) o)); simpl; rewrite ?Hsf; done_MI.
      * destruct (Hl eq_refl) as (Hpc & -> & -> & -> & ->).
        assert (Hnil : is_nil (sendbuf s) = false) by (apply nonnil_is_nil; exact Hne).
        assert (Hnil' : is_nil (zdrop sent (sendbuf s)) = false) by (apply zdrop_is_nil_false; lia).
        destruct Hwhich as [[-> Hwb] | [H1 Hsent]].
        -- (* would-block *)
           rewrite Hwb. simpl fst. change (0 <? -1) with false. cbv iota.
           rewrite zdrop_0, ztake_0.
           destruct Hrd as [-> | [-> Hsf]];
             repeat progress (simpl; rewrite ?Hnil, ?Hsf, ?Z.eqb_refl); done_MI.
        -- rewrite <- Hsent. assert (E : 0 <? sent = true) by lia. rewrite E.
           destruct Hrd as [-> | [-> Hsf]];
             repeat progress (simpl; rewrite ?strip_take, ?Hnil, ?Hnil', ?Hsf, ?Z.eqb_refl, ?andb_false_r, ?andb_true_r); done_MI.
    + (* the whole backlog: drained, onWrite *)
      inv_pair H.
      unfold accepts, dispatch_events, send_events, size_event, getSendBufferSize.
      cbn [o_cbs o_drop o_sends o_tx removed poll_set set_buf os_take set_wire sendbuf buf_size map].
      rewrite Hrm.
      assert (Hlen : 0 < zlen (sendbuf s)).
      { pose proof (zlen_nonneg (sendbuf s)). pose proof (zlen_nil_iff (sendbuf s)).
        destruct (Z.eq_dec (zlen (sendbuf s)) 0); [tauto | lia]. }
      assert (E : 0 <? fst (send_ret (zlen (sendbuf s)) o) = true) by lia. rewrite E.
      destruct void.
      * simpl; done_MI.
      * destruct (Hl eq_refl) as (Hpc & -> & -> & -> & ->).
        assert (Hnil : is_nil (sendbuf s) = false) by (apply nonnil_is_nil; exact Hne).
        repeat progress (simpl; rewrite ?strip_self, ?Hnil, ?Z.eqb_refl); done_MI.
  - (* no write part: no obligation is open *)
    assert (Hd0 : d = O). { destruct d; auto. assert (false = true) by (apply Hw; discriminate). discriminate. }
    subst d.
    destruct rf; injection H as <- <-;
      unfold accepts, dispatch_events, send_events, size_event, getSendBufferSize; simpl; rewrite Hrm;
      rewrite ?(Hnosusp eq_refl).
    + destruct void.
      * simpl; done_MI.
      * destruct (Hl eq_refl) as (Hpc & -> & -> & -> & ->).
        destruct (is_nil (sendbuf s)) eqn:En; repeat progress (simpl; rewrite ?En, ?Z.eqb_refl); done_MI.
    + destruct void.
      * simpl; done_MI.
      * destruct (Hl eq_refl) as (Hpc & -> & -> & -> & ->).
        destruct (is_nil (sendbuf s)) eqn:En; repeat progress (simpl; rewrite ?En, ?Z.eqb_refl); done_MI.
Qed.

(* the interest set turns the flags of an event into facts about the client *)
Lemma interest_facts s : inv s -> registered s = true ->
  (int_r s = true -> suspended s = false) /\ (int_w s = true -> sendbuf s <> []).
Proof.
  intros [Hi _ _] Hreg. destruct (Hi Hreg) as [A B]. split; intros E.
  - rewrite A in E. destruct (suspended s); simpl in E; congruence.
  - rewrite B in E. apply is_nil_false. destruct (is_nil (sendbuf s)); simpl in E; congruence.
Qed.

Lemma ev_read_int_r s n : ev_read s n = true -> int_r s = true.
Proof. unfold ev_read. destruct (int_r s); auto. rewrite andb_false_r. auto. Qed.

(* one poll event of the one-client machine = one run(): the kernel is asked *)
Lemma dispatch_accepted m s n o s' r :
  inv s -> removed s = false -> MI m s -> dispatch s n o = (s', r) ->
  accepts m (dispatch_events (nout n) r (removed s') (getSendBufferSize s')) s'.
Proof.
  intros Hinv Hrm HMI H.
  destruct (writable_accepted m s (nout n) HMI) as [m1 [Hrun1 HM1]].
  assert (Hsplit : dispatch_events (nout n) r (removed s') (getSendBufferSize s') =
                   (if nout n then [EWritable] else []) ++ dispatch_events false r (removed s') (getSendBufferSize s'))
    by reflexivity.
  unfold accepts. rewrite Hsplit, mon_run_app, Hrun1.
  destruct (registered s) eqn:Hreg.
  - rewrite dispatch_flags_eq in H by assumption.
    destruct (interest_facts s Hinv Hreg) as [Fr Fw].
    apply (flags_accepted (if nout n && negb (is_nil (sendbuf s)) then 2%nat else O) m1 s (ev_read s n) (ev_write s n) o s' r Hrm);
      [ | | | exact HM1 | exact H].
    + intros E. apply Fr. eapply ev_read_int_r; eauto.
    + intros E. apply Fw. eapply ev_write_int_w; eauto.
    + intros Hd. destruct (nout n) eqn:En; [|simpl in Hd; congruence].
      destruct (is_nil (sendbuf s)) eqn:Eb; [simpl in Hd; congruence|].
      apply is_nil_false in Eb. destruct (backlog_registered s Hinv Eb) as [_ Hw].
      unfold ev_write. rewrite En, Hw. reflexivity.
  - assert (Hb : sendbuf s = []) by (destruct Hinv as [_ Hu _]; auto).
    rewrite Hb in HM1. simpl in HM1. rewrite andb_false_r in HM1.
    assert (Hf : dispatch_flags s false false o = (s', r)).
    { unfold dispatch in H. rewrite Hreg in H. simpl in H. exact H. }
    apply (flags_accepted O m1 s false false o s' r); auto; intros E; congruence.
Qed.

Lemma dispatch_not_dead s n o s' r : dispatch s n o = (s', r) -> o_dead r = false.
Proof.
  intros H. apply dispatch_cases in H. destruct H as [_ _ -> | _ _ _ _ -> | r0 fin _ _ Hwr ->]; try reflexivity.
  apply write_ready_cases in Hwr.
  destruct Hwr as [_ _ -> -> | _ _ _ -> -> | sent _ _ _ _ -> -> | _ _ _ -> ->]; try reflexivity.
  destruct (ev_read s _); reflexivity.
Qed.

Lemma MI_frame m s s' :
  MI m s -> removed s' = removed s -> suspended s' = suspended s -> peer_closed s' = peer_closed s ->
  sendbuf s' = sendbuf s -> wire s' = wire s -> MI m s'.
Proof.
  intros [A B C] Hr Hs Hp Hb Hw. split; rewrite ?Hr, ?Hs, ?Hp, ?Hb, ?Hw; auto.
Qed.

Lemma step_accepted m s x s' r :
  inv s -> MI m s -> step s x = (s', r) ->
  accepts m (events_of true x r (removed s') (getSendBufferSize s')) s'.
Proof.
  intros Hinv HMI H. unfold step in H.
  destruct (removed s) eqn:Hrm.
  { inv_pair H. unfold accepts, events_of. simpl. eexists; split; [reflexivity | exact HMI]. }
  destruct x.
  - (* Write *)
    apply do_write_cases in H.
    destruct m as [pend wire0 susp owed may due void]. destruct HMI as [Hs Hdead Hl]. simpl in Hs, Hdead, Hl.
    specialize (Hs Hrm). subst susp.
    destruct H as [Hne -> -> | He Hf -> -> | He Hall -> -> | sent He Hs Hwhich -> ->];
      unfold accepts, events_of, size_event, getSendBufferSize; simpl; rewrite Hrm.
    + destruct void; [simpl; done_MI|].
      destruct (Hl eq_refl) as (Hpc & -> & -> & -> & ->).
      assert (Hn : is_nil (sendbuf s ++ d) = false) by (apply nonnil_app_is_nil; exact Hne).
      repeat progress (simpl; rewrite ?Hn, ?Z.eqb_refl, ?orb_true_r); done_MI.
    + destruct void; simpl; done_MI.
    + destruct void; [simpl; done_MI|].
      destruct (Hl eq_refl) as (Hpc & -> & -> & -> & ->). rewrite He.
      repeat progress (simpl; rewrite ?strip_self, ?Z.eqb_refl); destruct (is_nil d); simpl; done_MI.
    + destruct void; [simpl; done_MI|].
      destruct (Hl eq_refl) as (Hpc & -> & -> & -> & ->). rewrite He.
      assert (Hn : is_nil (zdrop sent d) = false) by (apply zdrop_is_nil_false; lia).
      repeat progress (simpl; rewrite ?strip_take, ?Hn, ?Z.eqb_refl, ?orb_true_r);
        destruct (is_nil (ztake sent d)); simpl; done_MI.
  - (* Dispatch *)
    unfold events_of. rewrite (dispatch_not_dead s n o s' r H). simpl andb. apply (dispatch_accepted m s n o s' r); auto.
  - (* PollReal *)
    assert (E : events_of true (PollReal o) r (removed s') (getSendBufferSize s') =
                (if o_dead r then [] else dispatch_events (nout (real_native (inbound s) (peer_closed s))) r (removed s') (getSendBufferSize s')))
      by reflexivity.
    rewrite E. clear E.
    rewrite (dispatch_not_dead s _ o s' r H). apply (dispatch_accepted m s _ o s' r); auto.
  - (* CloseSweep *)
    destruct (closing s) eqn:Ec; inv_pair H; unfold accepts, events_of; simpl.
    + destruct m as [pend wire0 susp owed may due void]. destruct void; simpl;
        (eexists; split; [reflexivity|]); eapply MI_frame; eauto.
    + eexists; split; [reflexivity | exact HMI].
  - (* Suspend *)
    inv_pair H.
    assert (Hsb : sendbuf (do_suspend s) = sendbuf s /\ wire (do_suspend s) = wire s /\ removed (do_suspend s) = removed s /\
                  peer_closed (do_suspend s) = peer_closed s /\ suspended (do_suspend s) = true).
    { unfold do_suspend. destruct (suspended s) eqn:E; [tauto|]. destruct (buf_isEmpty _); simpl; tauto. }
    destruct Hsb as (Hb & Hw & Hr & Hp & Hsu).
    unfold accepts, events_of, size_event, getSendBufferSize. simpl o_dead. cbv iota. rewrite Hr, Hrm, Hb.
    destruct m as [pend wire0 susp owed may due void]. destruct HMI as [Hs Hdead Hl]. simpl in Hs, Hdead, Hl.
    destruct void.
    + simpl. eexists; split; [reflexivity|]. split; simpl; rewrite ?Hr, ?Hsu; auto. discriminate.
    + destruct (Hl eq_refl) as (Hpc & -> & -> & -> & ->). unfold buf_size. simpl. rewrite Z.eqb_refl.
      eexists; split; [reflexivity|]. split; simpl; rewrite ?Hr, ?Hsu, ?Hb, ?Hw, ?Hp; auto.
  - (* Resume *)
    inv_pair H.
    assert (Hsb : sendbuf (do_resume s) = sendbuf s /\ wire (do_resume s) = wire s /\ removed (do_resume s) = removed s /\
                  peer_closed (do_resume s) = peer_closed s /\ suspended (do_resume s) = false).
    { unfold do_resume. destruct (suspended s) eqn:E; simpl; [|tauto]. destruct (buf_isEmpty _); simpl; tauto. }
    destruct Hsb as (Hb & Hw & Hr & Hp & Hsu).
    unfold accepts, events_of, size_event, getSendBufferSize. simpl o_dead. cbv iota. rewrite Hr, Hrm, Hb.
    destruct m as [pend wire0 susp owed may due void]. destruct HMI as [Hs Hdead Hl]. simpl in Hs, Hdead, Hl.
    destruct void.
    + simpl. eexists; split; [reflexivity|]. split; simpl; rewrite ?Hr, ?Hsu; auto. discriminate.
    + destruct (Hl eq_refl) as (Hpc & -> & -> & -> & ->). unfold buf_size. simpl. rewrite Z.eqb_refl.
      eexists; split; [reflexivity|]. split; simpl; rewrite ?Hr, ?Hsu, ?Hb, ?Hw, ?Hp; auto.
  - (* Read *)
    assert (Hfr : removed s' = removed s /\ suspended s' = suspended s /\ peer_closed s' = peer_closed s /\
                  sendbuf s' = sendbuf s /\ wire s' = wire s /\ o_dead r = false).
    { unfold do_read in H. destruct (recv_count (inbound s) (peer_closed s) max) as [k|];
        [destruct (k =? 0)|]; inv_pair H; simpl; tauto. }
    destruct Hfr as (Hr & Hsu & Hp & Hb & Hw & Hnd).
    unfold accepts, events_of, size_event, getSendBufferSize. rewrite Hnd, Hr, Hrm, Hb.
    destruct m as [pend wire0 susp owed may due void]. pose proof HMI as [Hs Hdead Hl]. simpl in Hs, Hdead, Hl.
    destruct void; simpl.
    + eexists; split; [reflexivity|]. eapply MI_frame; eauto.
    + destruct (Hl eq_refl) as (Hpc & -> & -> & -> & ->). unfold buf_size. rewrite Z.eqb_refl.
      eexists; split; [reflexivity|]. eapply MI_frame; eauto.
  - (* PeerWrite *)
    inv_pair H.
    assert (Hfr : forall s1, s1 = (if peer_closed s then s else set_inbound s (inbound s ++ d)) ->
                  removed s1 = removed s /\ suspended s1 = suspended s /\ peer_closed s1 = peer_closed s /\
                  sendbuf s1 = sendbuf s /\ wire s1 = wire s).
    { intros s1 ->. destruct (peer_closed s) eqn:E; simpl; rewrite ?E; tauto. }
    destruct (Hfr _ eq_refl) as (Hr & Hsu & Hp & Hb & Hw).
    unfold accepts, events_of, size_event, getSendBufferSize. simpl o_dead. cbv iota. rewrite Hr, Hrm, Hb.
    destruct m as [pend wire0 susp owed may due void]. pose proof HMI as [Hs Hdead Hl]. simpl in Hs, Hdead, Hl.
    destruct void; simpl.
    + eexists; split; [reflexivity|]. eapply MI_frame; eauto.
    + destruct (Hl eq_refl) as (Hpc & -> & -> & -> & ->). unfold buf_size. rewrite Z.eqb_refl.
      eexists; split; [reflexivity|]. eapply MI_frame; eauto.
  - (* PeerRead *)
    destruct m as [pend wire0 susp owed may due void]. pose proof HMI as [Hs Hdead Hl]. simpl in Hs, Hdead, Hl.
    destruct (peer_closed s) eqn:Hp; inv_pair H;
      unfold accepts, events_of, size_event, getSendBufferSize; simpl; rewrite Hrm.
    + destruct void; [|destruct (Hl eq_refl) as (Hpc & _); congruence].
      simpl. eexists; split; [reflexivity | exact HMI].
    + destruct void; simpl.
      * eexists; split; [reflexivity|]. split; simpl; auto. discriminate.
      * destruct (Hl eq_refl) as (Hpc & -> & -> & -> & ->). rewrite list_eqb_refl. unfold buf_size. simpl. rewrite Z.eqb_refl.
        eexists; split; [reflexivity|]. split; simpl; auto.
  - (* PeerClose *)
    destruct m as [pend wire0 susp owed may due void]. pose proof HMI as [Hs Hdead Hl]. simpl in Hs, Hdead, Hl.
    destruct (peer_closed s) eqn:Hp; inv_pair H;
      unfold accepts, events_of, size_event, getSendBufferSize; simpl.
    + destruct void; [|destruct (Hl eq_refl) as (Hpc & _); congruence].
      simpl. eexists; split; [reflexivity | exact HMI].
    + destruct void; simpl.
      * eexists; split; [reflexivity|]. split; simpl; auto. discriminate.
      * destruct (Hl eq_refl) as (Hpc & -> & -> & -> & ->). rewrite list_eqb_refl. simpl.
        eexists; split; [reflexivity|]. split; simpl; auto; discriminate.
  - (* Remove *)
    inv_pair H. unfold accepts, events_of. simpl.
    destruct m as [pend wire0 susp owed may due void]. destruct void; simpl;
      (eexists; split; [reflexivity|]); split; simpl; auto; discriminate.
Qed.

Lemma trace_accepted l : forall m s, inv s -> MI m s -> exists m', mon_run m (trace s l) = Go m'.
Proof.
  induction l as [|x l IH]; intros m s Hinv HMI; simpl. { eexists; reflexivity. }
  destruct (step s x) as [s' r] eqn:E.
  destruct (step_accepted m s x s' r Hinv HMI E) as [m1 [Hrun HM1]].
  rewrite mon_run_app, Hrun. apply (IH m1 s'); [eapply inv_step; eauto | exact HM1].
Qed.

Lemma model_trace_accepted_lemma ops : accepted_trace (trace init ops).
Proof. apply trace_accepted; [apply inv_init | apply MI_init]. Qed.

(* ---- two clients: each client's own events ------------------------------------------------------- *)

Lemma flags_not_dead s rf wf o s' r : dispatch_flags s rf wf o = (s', r) -> o_dead r = false.
Proof.
  unfold dispatch_flags. destruct wf.
  - destruct (write_ready s o) as [[s1 r1] fin] eqn:Ew. apply write_ready_cases in Ew.
    intros H.
    assert (Hr : r = r1 \/ r = add_cb r1 OnRead).
    { destruct fin; [inv_pair H; auto|]. destruct (negb rf); inv_pair H; auto. }
    destruct Ew as [_ _ -> _ | _ _ _ -> _ | sent _ _ _ _ -> _ | _ _ _ -> _]; destruct Hr as [-> | ->]; reflexivity.
  - destruct rf; intros H; inv_pair H; reflexivity.
Qed.

Lemma deliver_not_dead m o m' r : deliver m o = (m', r) -> o_dead (o2_out r) = false.
Proof.
  unfold deliver. destruct (sel m) as [|e l]. { intros H; inv_pair H; reflexivity. }
  destruct (dispatch_flags (get2 m (e_c e)) (e_r e) (e_w e) o) as [s' x] eqn:Ed. intros H; inv_pair H. simpl.
  eapply flags_not_dead; eauto.
Qed.

Definition seen (c : bool) (r : out2) (l : list pev) : list pev :=
  match o2_c r with Some c' => if eqb c' c then l else [] | None => [] end.

Lemma deliver_accepted c mn m o m' r :
  inv2 m -> MI mn (get2 m c) -> deliver m o = (m', r) ->
  accepts mn (seen c r (dispatch_events false (o2_out r) (removed (get2 m' c)) (getSendBufferSize (get2 m' c)))) (get2 m' c).
Proof.
  intros Hinv HMI H. unfold deliver in H. destruct (sel m) as [|e l] eqn:El.
  { inv_pair H. unfold seen. simpl. eexists; split; [reflexivity | exact HMI]. }
  destruct (dispatch_flags (get2 m (e_c e)) (e_r e) (e_w e) o) as [s' x] eqn:Ed. inv_pair H.
  unfold seen. cbn [o2_c o2_out].
  destruct (eqb (e_c e) c) eqn:Ec.
  - apply eqb_true_eq in Ec. subst c. rewrite get2_put2_same.
    pose proof (i2_sel m Hinv) as Hok. rewrite El in Hok. inversion Hok as [|? ? He Hl]; subst.
    pose proof (inv_get2 m (e_c e) Hinv) as Hi.
    pose proof (entry_removed _ _ Hi He) as Hrm.
    destruct He as [Hreg [A B]]. destruct (interest_facts _ Hi Hreg) as [Fr Fw].
    apply (flags_accepted O mn (get2 m (e_c e)) (e_r e) (e_w e) o s' x); auto; congruence.
  - apply eqb_false_neq in Ec. rewrite get2_put2_other by congruence.
    eexists; split; [reflexivity | exact HMI].
Qed.

Lemma events_of_asked y r b z :
  match y with Dispatch _ _ | PollReal _ => False | _ => True end ->
  events_of false y r b z = events_of true y r b z.
Proof. destruct y; simpl; tauto. Qed.

Lemma step2_accepted c mn m x m' r :
  inv2 m -> MI mn (get2 m c) -> step2 m x = (m', r) ->
  accepts mn (events2 c x r (get2 m' c)) (get2 m' c).
Proof.
  intros Hinv HMI H.
  assert (Hnone : forall l, accepts mn [] (get2 m c) -> o2_c r = None -> get2 m' c = get2 m c ->
                  accepts mn (seen c r l) (get2 m' c)).
  { intros l Ha Hc Hg. unfold seen. rewrite Hc, Hg. exact Ha. }
  assert (Hid : accepts mn [] (get2 m c)) by (eexists; split; [reflexivity | exact HMI]).
  unfold step2 in H. destruct x as [c' y | first n0 n1 | o |].
  - assert (Hsingle : forall n o (z : op),
      match z with Dispatch _ _ | PollReal _ => True | _ => False end ->
      match sel m with
      | [] => if removed (get2 m c') then (m, mkout2 (Some c') out_dead false) else deliver (collect m [(c', n)]) o
      | _ :: _ => (m, out2_idle)
      end = (m', r) -> accepts mn (events2 c (On c' z) r (get2 m' c)) (get2 m' c)).
    { intros n o z Hz Hs. destruct (sel m); [|inv_pair Hs; exact Hid].
      destruct (removed (get2 m c')) eqn:Erm.
      - inv_pair Hs. unfold events2. simpl. destruct (eqb c' c); [|exact Hid].
        unfold events_of. simpl. exact Hid.
      - pose proof (deliver_not_dead _ _ _ _ Hs) as Hnd.
        pose proof (deliver_accepted c mn (collect m [(c', n)]) o m' r (collect_inv2 m _ Hinv)) as Ha.
        rewrite collect_get2 in Ha. specialize (Ha HMI Hs).
        unfold events2. unfold seen in Ha. destruct (o2_c r) as [c2|]; [|exact Ha].
        destruct (eqb c2 c); [|exact Ha].
        destruct z; try contradiction; unfold events_of; rewrite Hnd; exact Ha. }
    destruct y; try (eapply Hsingle; [exact I | exact H]);
      match type of H with context [step ?s ?y] => destruct (step s y) as [s' r'] eqn:Es end;
      inv_pair H; unfold events2; cbn [o2_c o2_out];
      (destruct (eqb c' c) eqn:Ec;
       [apply eqb_true_eq in Ec; subst c'; rewrite get2_put2_same;
        rewrite events_of_asked by exact I;
        apply (step_accepted mn (get2 m c) _ s' r' (inv_get2 m c Hinv) HMI Es)
       |apply eqb_false_neq in Ec; rewrite get2_put2_other by congruence; exact Hid]).
  - destruct (sel m); inv_pair H; unfold events2; simpl; rewrite ?collect_get2; exact Hid.
  - pose proof (deliver_accepted c mn m o m' r Hinv HMI H) as Ha. unfold events2. unfold seen in Ha. exact Ha.
  - destruct (closq m) as [|c' k]. { inv_pair H. unfold events2. simpl. exact Hid. }
    destruct (step (get2 m c') CloseSweep) as [s' r'] eqn:Es. inv_pair H. unfold events2. cbn [o2_c o2_out].
    destruct (eqb c' c) eqn:Ec.
    + apply eqb_true_eq in Ec. subst c'. rewrite get2_put2_same.
      pose proof (step_accepted mn (get2 m c) CloseSweep s' r' (inv_get2 m c Hinv) HMI Es) as Ha.
      assert (E : events_of true CloseSweep r' (removed s') (getSendBufferSize s') = map ECb (o_cbs r')).
      { unfold events_of. unfold step in Es. destruct (removed (get2 m c)); [inv_pair Es; reflexivity|].
        destruct (closing (get2 m c)); inv_pair Es; reflexivity. }
      rewrite E in Ha. exact Ha.
    + apply eqb_false_neq in Ec. rewrite get2_put2_other by congruence. exact Hid.
Qed.

Lemma trace2_accepted c l : forall mn m, inv2 m -> MI mn (get2 m c) -> exists m', mon_run mn (trace2 c m l) = Go m'.
Proof.
  induction l as [|x l IH]; intros mn m Hinv HMI; simpl. { eexists; reflexivity. }
  destruct (step2 m x) as [m1 r] eqn:E.
  destruct (step2_accepted c mn m x m1 r Hinv HMI E) as [mn1 [Hrun HM1]].
  rewrite mon_run_app, Hrun. apply (IH mn1 m1); [eapply inv2_step; eauto | exact HM1].
Qed.

Lemma two_client_trace_accepted_lemma ops c : accepted_trace (trace2 c init2 ops).
Proof. apply trace2_accepted; [apply inv2_init | destruct c; apply MI_init]. Qed.
