(* Every history of the models is accepted by the property-level monitor (ServerWriteMonitor.v):
     one client   - the whole monitor, including the deadline clauses progress / onWrite / resumed (one poll event
                    = one poll of a run(); the ends of run() calls and the size probes stand anywhere in the history)
     n clients    - per client, the events of that client; the kernel-asked events (EWritable, EReadable) are not
                    part of the n-client trace (a collected notification is handed out by a later Deliver step,
                    which is an input of that machine), so the deadline clauses are not exercised there. *)
From Coq Require Import ZArith List Bool Lia.
From ServerWrite Require Import ServerWriteSpec ServerWriteMonitor ServerWriteModel ServerWriteProofs ServerWriteTheorems
  ServerWrite2Spec ServerWrite2Model ServerWrite2Proofs.
Import ListNotations.
Local Open Scope Z_scope.
Local Open Scope bool_scope.

Arguments ztake : simpl never.
Arguments zdrop : simpl never.
Arguments zlen : simpl never.
Arguments send_count : simpl never.
Arguments Z.eqb : simpl never.
Arguments Z.ltb : simpl never.
Arguments Z.geb : simpl never.
Arguments Z.leb : simpl never.

(* ---- the traces ------------------------------------------------------------------------------------ *)

Definition size_probe (s : st) : list pev := if removed s then [] else [ESize (getSendBufferSize s)].

Fixpoint trace (s : st) (l : list hop) : list pev :=
  match l with
  | [] => []
  | HOp x :: l' => let '(s', r) := step s x in
                   events_of true (real_native (inbound s) (peer_closed s)) x r ++ trace s' l'
  | HSize :: l' => size_probe s ++ trace s l'
  | HRunEnd :: l' => ERunEnd :: trace s l'
  end.

(* ---- monitor basics -------------------------------------------------------------------------------- *)

Lemma mon_run_app m a b :
  mon_run m (a ++ b) = match mon_run m a with Go m' => mon_run m' b | Stop c => Stop c end.
Proof.
  revert m. induction a as [|e a IH]; intros m; simpl; auto.
  destruct (mon_step m e); auto.
Qed.

Lemma strip_app a b : strip a (a ++ b) = Some b.
Proof. induction a as [|x a IH]; simpl; auto. rewrite Z.eqb_refl. exact IH. Qed.

Lemma strip_take k l : strip (ztake k l) l = Some (zdrop k l).
Proof. rewrite <- (ztake_zdrop k l) at 2. apply strip_app. Qed.

Lemma strip_self l : strip l l = Some [].
Proof. rewrite <- (app_nil_r l) at 2. apply strip_app. Qed.

Lemma strip_nil l : strip [] l = Some l.
Proof. reflexivity. Qed.

Lemma list_eqb_refl l : list_eqb l l = true.
Proof. induction l as [|x l IH]; simpl; auto. rewrite Z.eqb_refl. exact IH. Qed.

(* ---- the coupling of a monitor with the state of its client ------------------------------------- *)

(* [d], [rd]: the deadlines the monitor holds (0 between the steps of the model) *)
Record MId (d rd : nat) (m : mon) (s : st) : Prop := mkMI {
  mi_susp : removed s = false -> m_susp m = suspended s;
  mi_dead : removed s = true -> m_void m = true;
  mi_live : m_void m = false ->
            registered s = true /\ peer_closed s = false /\ m_pend m = sendbuf s /\ m_wire m = wire s /\
            m_owed m = negb (is_nil (sendbuf s)) /\ m_due m = d /\ m_rdue m = rd
}.
Notation MI := (MId O O).

Lemma MI_init : MI mon_init init.
Proof. split; simpl; intros; auto; try discriminate. repeat split; reflexivity. Qed.

Definition accepts (m : mon) (l : list pev) (s' : st) : Prop :=
  exists m', mon_run m l = Go m' /\ MI m' s'.

Lemma zdrop_is_nil_false k l : 0 <= k < zlen l -> is_nil (zdrop k l) = false.
Proof. intros H. apply nonnil_is_nil. apply zdrop_nonnil. exact H. Qed.

Lemma nonnil_app_is_nil (a b : list Z) : a <> [] -> is_nil (a ++ b) = false.
Proof. destruct a; simpl; congruence. Qed.

(* once an event outside the quantifier has happened only the suspended clause is judged *)
Definition no_susp_event (l : list pev) : Prop := forall b, ~ In (ESusp b) l.

Lemma void_run l : forall m,
  m_void m = true -> no_susp_event l -> (In (ECb OnRead) l -> m_susp m = false) ->
  exists m', mon_run m l = Go m' /\ m_void m' = true /\ m_susp m' = m_susp m.
Proof.
  induction l as [|e l IH]; intros m Hv Hns Hrd. { eexists; simpl; auto. }
  assert (Hns' : no_susp_event l) by (intros b Hin; apply (Hns b); right; exact Hin).
  assert (Hstep : exists m1, mon_step m e = Go m1 /\ m_void m1 = true /\ m_susp m1 = m_susp m).
  { destruct e as [d ret post tx | tx | | | c | b | n | d | | | ]; try (exists m; simpl; rewrite Hv; auto; fail).
    - destruct c; try (exists m; simpl; rewrite Hv; auto; fail).
      pose proof (Hrd (or_introl eq_refl)) as Hf. exists (set_rdue m O). simpl. rewrite Hf. auto.
    - exfalso. apply (Hns b). left. reflexivity. }
  destruct Hstep as [m1 [H1 [Hv1 Hs1]]].
  destruct (IH m1 Hv1 Hns') as [m' [Hr [Hv' Hs']]].
  { intros Hin. rewrite Hs1. apply Hrd. right. exact Hin. }
  exists m'. simpl. rewrite H1. split; [exact Hr | split; [exact Hv' | congruence]].
Qed.

Lemma void_accepts m l s s' :
  MI m s -> m_void m = true -> no_susp_event l ->
  (In (ECb OnRead) l -> removed s = false /\ suspended s = false) ->
  (removed s' = false -> removed s = false /\ suspended s' = suspended s) ->
  accepts m l s'.
Proof.
  intros [Hs Hd Hl] Hv Hns Hrd Hfr.
  destruct (void_run l m Hv Hns) as [m' [Hr [Hv' Hs']]].
  { intros Hin. destruct (Hrd Hin) as [A B]. rewrite (Hs A). exact B. }
  exists m'. split; [exact Hr|]. split.
  - intros Hrm. destruct (Hfr Hrm) as [A B]. rewrite Hs', (Hs A). symmetry. exact B.
  - intros _. exact Hv'.
  - intros E. congruence.
Qed.

(* the kernel is asked: what it finds for the socket *)
Lemma ask_accepted m s (w rdb : bool) :
  removed s = false -> MI m s ->
  exists m1, mon_run m (ask_events w rdb) = Go m1 /\
             MId (if w && negb (is_nil (sendbuf s)) then 2%nat else O)
                 (if rdb && negb (suspended s) then 2%nat else O) m1 s /\
             m_void m1 = m_void m.
Proof.
  intros Hrm HMI.
  destruct m as [pend wire0 susp owed may due rdue void]. destruct HMI as [Hs Hdead Hl]. simpl in Hs, Hdead, Hl.
  specialize (Hs Hrm). subst susp.
  destruct void.
  - exists (mkmon pend wire0 (suspended s) owed may due rdue true). split.
    + unfold ask_events. destruct w, rdb; reflexivity.
    + split; [|reflexivity]. split; simpl; auto. discriminate.
  - destruct (Hl eq_refl) as (Hreg & Hpc & -> & -> & -> & -> & ->).
    unfold ask_events.
    destruct w, rdb; simpl; rewrite ?orb_diag, ?andb_true_r;
      destruct (is_nil (sendbuf s)) eqn:En; destruct (suspended s) eqn:Esu; simpl;
      (eexists; split; [reflexivity|]; split; [|reflexivity]; split; simpl; auto; try discriminate;
       intros _; rewrite ?En; repeat split; auto).
Qed.

Ltac done_MI := eexists; (split; [reflexivity|]); split; simpl; auto; try discriminate; try solve [symmetry; auto];
                try solve [let Hx := fresh "Hx" in intros Hx; match goal with Hr : removed _ = false |- _ => rewrite ?Hr in Hx end; discriminate];
                intros _; rewrite ?app_nil_r; repeat split; auto;
                try solve [repeat match goal with H : is_nil ?x = _ |- context [is_nil ?x] => rewrite H end; reflexivity];
                try solve [match goal with H : sendbuf _ = [] |- _ => rewrite ?H; reflexivity end].

(* ---- the client part of one poll event: dispatch_flags ------------------------------------------- *)

Lemma flags_accepted d rd m s rf wf o s' r :
  removed s = false ->
  (rf = true -> suspended s = false) -> (wf = true -> sendbuf s <> []) ->
  (d <> O -> wf = true) -> (rd <> O -> rf = true) ->
  MId d rd m s -> dispatch_flags s rf wf o = (s', r) ->
  accepts m (send_events r ++ map ECb (o_cbs r)) s'.
Proof.
  intros Hrm Hnosusp Hwf Hw Hrdf HMI H.
  destruct (m_void m) eqn:Hvoid.
  { (* outside the quantifier already *)
    assert (HMI0 : MI m s). { destruct HMI as [A B C]. split; auto. intros E. congruence. }
    pose proof (dispatch_flags_suspended _ _ _ _ _ _ H) as [Hsu' Hrm'].
    apply (void_accepts m _ s s' HMI0 Hvoid).
    - intros b Hin. apply in_app_or in Hin. destruct Hin as [Hin|Hin].
      + unfold send_events in Hin. destruct (o_drop r); [destruct Hin as [E|[]]; discriminate|].
        destruct (o_sends r) as [|[a b0] t]; [destruct Hin|]. destruct (0 <? b0); destruct Hin as [E|[]]; discriminate.
      + apply in_map_iff in Hin. destruct Hin as [c [E _]]. discriminate.
    - intros Hin. split; [exact Hrm|]. apply Hnosusp.
      destruct rf; [reflexivity|]. exfalso.
      apply in_app_or in Hin. destruct Hin as [Hin|Hin].
      + unfold send_events in Hin. destruct (o_drop r); [destruct Hin as [E|[]]; discriminate|].
        destruct (o_sends r) as [|[a b0] t]; [destruct Hin|]. destruct (0 <? b0); destruct Hin as [E|[]]; discriminate.
      + apply in_map_iff in Hin. destruct Hin as [c [E Hc]]. injection E as ->.
        exact (dispatch_flags_no_read _ _ _ _ _ H Hc).
    - intros _. split; [exact Hrm | exact Hsu']. }
  destruct m as [pend wire0 susp owed may due rdue void]. simpl in Hvoid. subst void.
  destruct HMI as [Hs Hdead Hl]. simpl in Hs, Hdead, Hl.
  specialize (Hs Hrm). subst susp.
  destruct (Hl eq_refl) as (Hreg & Hpc & -> & -> & -> & -> & ->). clear Hl Hdead.
  unfold dispatch_flags in H. destruct wf.
  - assert (Hne : sendbuf s <> []) by (apply Hwf; reflexivity).
    assert (Hnil : is_nil (sendbuf s) = false) by (apply nonnil_is_nil; exact Hne).
    clear Hw.
    destruct (write_ready s o) as [[s1 r1] fin] eqn:Ew. apply write_ready_cases in Ew.
    destruct Ew as [He _ _ _ | _ Hf -> -> -> | sent _ Hsent Hwhich -> -> -> | _ Hle -> -> ->]; [congruence | | |].
    + (* the send fails: outside the quantifier *)
      inv_pair H. unfold accepts, send_events. simpl. done_MI.
    + (* a proper prefix (nothing: would-block) *)
      assert (Hs' : s' = set_buf (os_take s (ztake sent (sendbuf s))) (zdrop sent (sendbuf s))).
      { simpl in H. destruct rf; inv_pair H; reflexivity. }
      assert (Hcb : o_cbs r = (if rf then [OnRead] else [])).
      { simpl in H. destruct rf; inv_pair H; reflexivity. }
      assert (Hdr : o_drop r = false) by (simpl in H; destruct rf; inv_pair H; reflexivity).
      assert (Hse : o_sends r = [(zlen (sendbuf s), fst (send_ret (zlen (sendbuf s)) o))])
        by (simpl in H; destruct rf; inv_pair H; reflexivity).
      assert (Htx : o_tx r = ztake sent (sendbuf s)) by (simpl in H; destruct rf; inv_pair H; reflexivity).
      clear H. subst s'.
      unfold accepts, send_events.
      rewrite Hcb, Hdr, Hse, Htx.
      assert (Hnil' : is_nil (zdrop sent (sendbuf s)) = false) by (apply zdrop_is_nil_false; lia).
      assert (Hrd : rf = true /\ suspended s = false \/ rf = false /\ rd = O).
      { destruct rf; [left; auto | right; split; auto]. destruct rd; auto.
        assert (false = true) by (apply Hrdf; discriminate). discriminate. }
      destruct Hwhich as [[-> Hwb] | [H1 Hsent']].
      * (* would-block *)
        rewrite Hwb. simpl fst. change (0 <? -1) with false. cbv iota.
        rewrite zdrop_0, ztake_0.
        destruct Hrd as [[-> Hsf] | [-> ->]];
          repeat progress (simpl; rewrite ?Hnil, ?Hsf, ?Z.eqb_refl); done_MI.
      * rewrite <- Hsent'. assert (E : 0 <? sent = true) by lia. rewrite E.
        destruct Hrd as [[-> Hsf] | [-> ->]];
          repeat progress (simpl; rewrite ?strip_take, ?Hnil, ?Hnil', ?Hsf, ?Z.eqb_refl, ?andb_false_r, ?andb_true_r); done_MI.
    + (* the whole backlog: drained, onWrite *)
      inv_pair H.
      unfold accepts, send_events.
      cbn [o_cbs o_drop o_sends o_tx removed poll_set set_buf os_take set_wire sendbuf buf_size map].
      assert (Hlen : 0 < zlen (sendbuf s)).
      { pose proof (zlen_nonneg (sendbuf s)). pose proof (zlen_nil_iff (sendbuf s)).
        destruct (Z.eq_dec (zlen (sendbuf s)) 0); [tauto | lia]. }
      assert (E : 0 <? fst (send_ret (zlen (sendbuf s)) o) = true) by lia. rewrite E.
      repeat progress (simpl; rewrite ?strip_self, ?Hnil, ?Z.eqb_refl); done_MI.
  - (* no write part: no write-side deadline is open *)
    assert (Hd0 : d = O). { destruct d; auto. assert (false = true) by (apply Hw; discriminate). discriminate. }
    subst d.
    destruct rf.
    + injection H as <- <-. unfold accepts, send_events; simpl. rewrite (Hnosusp eq_refl). simpl. done_MI.
    + assert (Hrd0 : rd = O). { destruct rd; auto. assert (false = true) by (apply Hrdf; discriminate). discriminate. }
      subst rd. injection H as <- <-. unfold accepts, send_events; simpl. done_MI.
Qed.

(* the interest set turns the flags of an event into facts about the client *)
Lemma interest_facts s : inv s -> registered s = true ->
  (int_r s = true -> suspended s = false) /\ (int_w s = true -> sendbuf s <> []).
Proof.
  intros [Hi _ _] Hreg. destruct (Hi Hreg) as [A B]. split; intros E.
  - rewrite A in E. destruct (suspended s); simpl in E; congruence.
  - rewrite B in E. apply is_nil_false. destruct (is_nil (sendbuf s)); simpl in E; congruence.
Qed.

Lemma ev_read_int_r s n : ev_read s n = true -> int_r s = true.
Proof. unfold ev_read. destruct (int_r s); auto. rewrite andb_false_r. auto. Qed.

Lemma MId_void d rd m s : m_void m = true -> MId d rd m s -> MI m s.
Proof. intros Hv [A B C]. split; auto. intros E. congruence. Qed.

(* one poll event of the one-client machine = one poll of a run(): the kernel is asked *)
Lemma dispatch_accepted m s n o s' r :
  inv s -> removed s = false -> MI m s -> dispatch s n o = (s', r) ->
  accepts m (dispatch_events (nout n) (nin n) r) s'.
Proof.
  intros Hinv Hrm HMI H.
  destruct (ask_accepted m s (nout n) (nin n) Hrm HMI) as [m1 [Hrun1 [HM1 Hv1]]].
  unfold accepts, dispatch_events. rewrite mon_run_app, Hrun1.
  destruct (registered s) eqn:Hreg.
  - rewrite dispatch_flags_eq in H by assumption.
    destruct (interest_facts s Hinv Hreg) as [Fr Fw].
    apply (flags_accepted (if nout n && negb (is_nil (sendbuf s)) then 2%nat else O)
             (if nin n && negb (suspended s) then 2%nat else O) m1 s (ev_read s n) (ev_write s n) o s' r Hrm);
      [ | | | | exact HM1 | exact H].
    + intros E. apply Fr. eapply ev_read_int_r; eauto.
    + intros E. apply Fw. eapply ev_write_int_w; eauto.
    + intros Hd. destruct (nout n) eqn:En; [|simpl in Hd; congruence].
      destruct (is_nil (sendbuf s)) eqn:Eb; [simpl in Hd; congruence|].
      apply is_nil_false in Eb. destruct (backlog_registered s Hinv Eb) as [_ Hw].
      unfold ev_write. rewrite En, Hw. reflexivity.
    + intros Hd. destruct (nin n) eqn:En; [|simpl in Hd; congruence].
      destruct (suspended s) eqn:Esu; [simpl in Hd; congruence|].
      destruct Hinv as [Hi _ _]. destruct (Hi Hreg) as [A _]. rewrite Esu in A. simpl in A.
      unfold ev_read. rewrite En, A. reflexivity.
  - (* the descriptor is not in the epoll set: a connection outside the quantifier *)
    assert (Hvoid : m_void m1 = true).
    { destruct (m_void m1) eqn:E; auto. destruct HM1 as [_ _ Hl]. destruct (Hl E) as [A _]. congruence. }
    assert (Hf : (s', r) = (s, out_none)).
    { unfold dispatch in H. rewrite Hreg in H. simpl in H. congruence. }
    injection Hf as -> ->. simpl. eexists; split; [reflexivity|]. eapply MId_void; eauto.
Qed.

Lemma dispatch_not_dead s n o s' r : dispatch s n o = (s', r) -> o_dead r = false.
Proof.
  intros H. apply dispatch_cases in H. destruct H as [_ _ -> | _ _ _ _ -> | r0 fin _ _ Hwr ->]; try reflexivity.
  apply write_ready_cases in Hwr.
  destruct Hwr as [_ _ -> -> | _ _ _ -> -> | sent _ _ _ _ -> -> | _ _ _ -> ->]; try reflexivity.
  destruct (ev_read s _); reflexivity.
Qed.

Lemma MI_frame m s s' :
  MI m s -> removed s' = removed s -> suspended s' = suspended s -> peer_closed s' = peer_closed s ->
  sendbuf s' = sendbuf s -> wire s' = wire s -> registered s' = registered s -> MI m s'.
Proof.
  intros [A B C] Hr Hs Hp Hb Hw Hg. split; rewrite ?Hr, ?Hs, ?Hp, ?Hb, ?Hw, ?Hg; auto.
Qed.

Lemma accepts_nil m s s' :
  MI m s -> removed s' = removed s -> suspended s' = suspended s -> peer_closed s' = peer_closed s ->
  sendbuf s' = sendbuf s -> wire s' = wire s -> registered s' = registered s -> accepts m [] s'.
Proof. intros. eexists; split; [reflexivity|]. eapply MI_frame; eauto. Qed.

Lemma step_accepted m s x s' r :
  inv s -> MI m s -> step s x = (s', r) ->
  accepts m (events_of true (real_native (inbound s) (peer_closed s)) x r) s'.
Proof.
  intros Hinv HMI H. unfold step in H.
  destruct (removed s) eqn:Hrm.
  { inv_pair H. unfold accepts, events_of. simpl. eexists; split; [reflexivity | exact HMI]. }
  destruct x.
  - (* Write *)
    apply do_write_cases in H.
    destruct m as [pend wire0 susp owed may due rdue void]. destruct HMI as [Hs Hdead Hl]. simpl in Hs, Hdead, Hl.
    specialize (Hs Hrm). subst susp.
    destruct H as [Hne -> -> | He Hf -> -> | He Hall -> -> | sent He Hs Hwhich -> ->];
      unfold accepts, events_of, write_fault; simpl.
    + destruct void; [simpl; done_MI|].
      destruct (Hl eq_refl) as (Hreg & Hpc & -> & -> & -> & -> & ->).
      assert (Hn : is_nil (sendbuf s ++ d) = false) by (apply nonnil_app_is_nil; exact Hne).
      repeat progress (simpl; rewrite ?Hn, ?Z.eqb_refl, ?orb_true_r); done_MI.
    + destruct (negb (is_nil d) || (fst (send_ret (zlen d) o) <? 0)) eqn:Efault.
      * destruct void; simpl; done_MI.
      * (* a write of no bytes turned into a send of 0 bytes answered 0 *)
        apply orb_false_iff in Efault. destruct Efault as [Ed _]. apply negb_false_iff in Ed. apply is_nil_true in Ed. subst d.
        destruct void; [simpl; done_MI|].
        destruct (Hl eq_refl) as (Hreg & Hpc & -> & -> & -> & -> & ->). rewrite He.
        replace (zlen []) with 0 by reflexivity.
        repeat progress (simpl; rewrite ?He, ?Z.eqb_refl); done_MI.
    + destruct void; [simpl; done_MI|].
      destruct (Hl eq_refl) as (Hreg & Hpc & -> & -> & -> & -> & ->). rewrite He.
      repeat progress (simpl; rewrite ?strip_self, ?Z.eqb_refl); destruct (is_nil d); simpl; done_MI.
    + destruct void; [simpl; done_MI|].
      destruct (Hl eq_refl) as (Hreg & Hpc & -> & -> & -> & -> & ->). rewrite He.
      assert (Hn : is_nil (zdrop sent d) = false) by (apply zdrop_is_nil_false; lia).
      repeat progress (simpl; rewrite ?strip_take, ?Hn, ?Z.eqb_refl, ?orb_true_r);
        destruct (is_nil (ztake sent d)); simpl; done_MI.
  - (* Dispatch *)
    unfold events_of. rewrite (dispatch_not_dead s n o s' r H). simpl andb. apply (dispatch_accepted m s n o s' r); auto.
  - (* PollReal *)
    unfold events_of. rewrite (dispatch_not_dead s _ o s' r H).
    exact (dispatch_accepted m s (real_native (inbound s) (peer_closed s)) o s' r Hinv Hrm HMI H).
  - (* CloseSweep *)
    destruct (closing s) eqn:Ec; inv_pair H; unfold accepts, events_of; simpl.
    + destruct m as [pend wire0 susp owed may due rdue void]. destruct void; simpl;
        (eexists; split; [reflexivity|]); eapply MI_frame; eauto.
    + eexists; split; [reflexivity | exact HMI].
  - (* Suspend *)
    inv_pair H.
    assert (Hsb : sendbuf (do_suspend s) = sendbuf s /\ wire (do_suspend s) = wire s /\ removed (do_suspend s) = removed s /\
                  peer_closed (do_suspend s) = peer_closed s /\ suspended (do_suspend s) = true /\
                  (registered s = true -> registered (do_suspend s) = true)).
    { unfold do_suspend. destruct (suspended s) eqn:E; [tauto|]. destruct (buf_isEmpty _); simpl; tauto. }
    destruct Hsb as (Hb & Hw & Hr & Hp & Hsu & Hg).
    unfold accepts, events_of. simpl o_dead. cbv iota.
    destruct m as [pend wire0 susp owed may due rdue void]. destruct HMI as [Hs Hdead Hl]. simpl in Hs, Hdead, Hl.
    simpl. eexists; split; [reflexivity|]. split; simpl; rewrite ?Hr, ?Hsu, ?Hb, ?Hw, ?Hp; auto.
    intros Hv. destruct (Hl Hv) as (Hreg & Hpc & -> & -> & -> & -> & ->). repeat split; auto.
  - (* Resume *)
    inv_pair H.
    assert (Hsb : sendbuf (do_resume s) = sendbuf s /\ wire (do_resume s) = wire s /\ removed (do_resume s) = removed s /\
                  peer_closed (do_resume s) = peer_closed s /\ suspended (do_resume s) = false /\
                  (registered s = true -> registered (do_resume s) = true)).
    { unfold do_resume. destruct (suspended s) eqn:E; simpl; [|tauto]. destruct (buf_isEmpty _); simpl; tauto. }
    destruct Hsb as (Hb & Hw & Hr & Hp & Hsu & Hg).
    unfold accepts, events_of. simpl o_dead. cbv iota.
    destruct m as [pend wire0 susp owed may due rdue void]. destruct HMI as [Hs Hdead Hl]. simpl in Hs, Hdead, Hl.
    simpl. eexists; split; [reflexivity|]. split; simpl; rewrite ?Hr, ?Hsu, ?Hb, ?Hw, ?Hp; auto.
    intros Hv. destruct (Hl Hv) as (Hreg & Hpc & -> & -> & -> & -> & ->). repeat split; auto.
  - (* Read *)
    assert (Hfr : removed s' = removed s /\ suspended s' = suspended s /\ peer_closed s' = peer_closed s /\
                  sendbuf s' = sendbuf s /\ wire s' = wire s /\ registered s' = registered s /\ o_dead r = false).
    { unfold do_read in H. destruct (recv_count (inbound s) (peer_closed s) max) as [k|];
        [destruct (k =? 0)|]; inv_pair H; simpl; tauto. }
    destruct Hfr as (Hr & Hsu & Hp & Hb & Hw & Hg & Hnd).
    unfold events_of. rewrite Hnd. eapply accepts_nil; eauto.
  - (* PeerWrite *)
    inv_pair H.
    assert (Hfr : forall s1, s1 = (if peer_closed s then s else set_inbound s (inbound s ++ d)) ->
                  removed s1 = removed s /\ suspended s1 = suspended s /\ peer_closed s1 = peer_closed s /\
                  sendbuf s1 = sendbuf s /\ wire s1 = wire s /\ registered s1 = registered s).
    { intros s1 ->. destruct (peer_closed s) eqn:E; simpl; rewrite ?E; tauto. }
    destruct (Hfr _ eq_refl) as (Hr & Hsu & Hp & Hb & Hw & Hg).
    unfold events_of. simpl o_dead. cbv iota. eapply accepts_nil; eauto.
  - (* PeerRead *)
    destruct m as [pend wire0 susp owed may due rdue void]. pose proof HMI as [Hs Hdead Hl]. simpl in Hs, Hdead, Hl.
    destruct (peer_closed s) eqn:Hp; inv_pair H;
      unfold accepts, events_of; simpl.
    + destruct void; [|destruct (Hl eq_refl) as (_ & Hpc & _); congruence].
      simpl. eexists; split; [reflexivity | exact HMI].
    + destruct void; simpl.
      * eexists; split; [reflexivity|]. split; simpl; auto. discriminate.
      * destruct (Hl eq_refl) as (Hreg & Hpc & -> & -> & -> & -> & ->). rewrite list_eqb_refl.
        eexists; split; [reflexivity|]. split; simpl; auto. intros _. repeat split; auto.
  - (* PeerClose *)
    destruct m as [pend wire0 susp owed may due rdue void]. pose proof HMI as [Hs Hdead Hl]. simpl in Hs, Hdead, Hl.
    destruct (peer_closed s) eqn:Hp; inv_pair H;
      unfold accepts, events_of; simpl.
    + destruct void; [|destruct (Hl eq_refl) as (_ & Hpc & _); congruence].
      simpl. eexists; split; [reflexivity | exact HMI].
    + destruct void; simpl.
      * eexists; split; [reflexivity|]. split; simpl; auto. discriminate.
      * destruct (Hl eq_refl) as (Hreg & Hpc & -> & -> & -> & -> & ->). rewrite list_eqb_refl. simpl.
        eexists; split; [reflexivity|]. split; simpl; auto; discriminate.
  - (* Remove *)
    inv_pair H. unfold accepts, events_of. simpl.
    destruct m as [pend wire0 susp owed may due rdue void]. destruct void; simpl;
      (eexists; split; [reflexivity|]); split; simpl; auto; discriminate.
Qed.

(* a probe of getSendBufferSize() and the end of a run() between two steps *)
Lemma probe_accepted m s : MI m s -> accepts m (size_probe s) s.
Proof.
  intros HMI. unfold accepts, size_probe. destruct (removed s) eqn:Hrm. { eexists; split; [reflexivity | exact HMI]. }
  destruct m as [pend wire0 susp owed may due rdue void]. pose proof HMI as [Hs Hdead Hl]. simpl in Hs, Hdead, Hl.
  destruct void; simpl. { eexists; split; [reflexivity | exact HMI]. }
  destruct (Hl eq_refl) as (Hreg & Hpc & -> & _). unfold getSendBufferSize, buf_size. rewrite Z.eqb_refl.
  eexists; split; [reflexivity | exact HMI].
Qed.

Lemma runend_accepted m s : MI m s -> accepts m [ERunEnd] s.
Proof.
  intros HMI. unfold accepts.
  destruct m as [pend wire0 susp owed may due rdue void]. pose proof HMI as [Hs Hdead Hl]. simpl in Hs, Hdead, Hl.
  destruct void; simpl. { eexists; split; [reflexivity | exact HMI]. }
  destruct (Hl eq_refl) as (Hreg & Hpc & Hp & Hw & Ho & -> & ->). simpl.
  eexists; split; [reflexivity|]. split; simpl; auto.
Qed.

Lemma trace_accepted l : forall m s, inv s -> MI m s -> exists m', mon_run m (trace s l) = Go m'.
Proof.
  induction l as [|h l IH]; intros m s Hinv HMI; simpl. { eexists; reflexivity. }
  destruct h as [x | | ].
  - destruct (step s x) as [s' r] eqn:E.
    destruct (step_accepted m s x s' r Hinv HMI E) as [m1 [Hrun HM1]].
    rewrite mon_run_app, Hrun. apply (IH m1 s'); [eapply inv_step; eauto | exact HM1].
  - destruct (probe_accepted m s HMI) as [m1 [Hrun HM1]].
    rewrite mon_run_app, Hrun. apply (IH m1 s); assumption.
  - destruct (runend_accepted m s HMI) as [m1 [Hrun HM1]].
    change (ERunEnd :: trace s l) with ([ERunEnd] ++ trace s l).
    rewrite mon_run_app, Hrun. apply (IH m1 s); assumption.
Qed.

Lemma model_trace_accepted_lemma h : accepted_trace (trace init h).
Proof. apply trace_accepted; [apply inv_init | apply MI_init]. Qed.

(* ---- n clients: each client's own events --------------------------------------------------------- *)

(* The history of the n-client machine as the monitors see it: operations of the machine, probes of
   getSendBufferSize() on a client, ends of run() calls - in any order. *)
Inductive hop2 :=
| H2Op (x : op2)
| H2Size (c : nat)
| H2RunEnd.

Definition no_native : native := mknative false false false false false.

(* what client c sees of one step of the n-client machine (the kernel-asked events are not part of it) *)
Definition events2 (c : nat) (x : op2) (r : out2) : list pev :=
  match o2_c r with
  | Some c' =>
      if Nat.eqb c' c then
        match x with
        | On _ y => events_of false no_native y (o2_out r)
        | Deliver _ => dispatch_events false false (o2_out r)
        | Sweep => map ECb (o_cbs (o2_out r))
        | Collect _ => []
        end
      else []
  | None => []
  end.

Fixpoint trace2 (c : nat) (m : st2) (l : list hop2) : list pev :=
  match l with
  | [] => []
  | H2Op x :: l' => let '(m', r) := step2 m x in events2 c x r ++ trace2 c m' l'
  | H2Size d :: l' => (if Nat.eqb d c then size_probe (get2 m c) else []) ++ trace2 c m l'
  | H2RunEnd :: l' => ERunEnd :: trace2 c m l'
  end.

Lemma flags_not_dead s rf wf o s' r : dispatch_flags s rf wf o = (s', r) -> o_dead r = false.
Proof.
  unfold dispatch_flags. destruct wf.
  - destruct (write_ready s o) as [[s1 r1] fin] eqn:Ew. apply write_ready_cases in Ew.
    intros H.
    assert (Hr : r = r1 \/ r = add_cb r1 OnRead).
    { destruct fin; [inv_pair H; auto|]. destruct (negb rf); inv_pair H; auto. }
    destruct Ew as [_ _ -> _ | _ _ _ -> _ | sent _ _ _ _ -> _ | _ _ _ -> _]; destruct Hr as [-> | ->]; reflexivity.
  - destruct rf; intros H; inv_pair H; reflexivity.
Qed.

Lemma deliver_not_dead m o m' r : deliver m o = (m', r) -> o_dead (o2_out r) = false.
Proof.
  unfold deliver. destruct (sel m) as [|e l]. { intros H; inv_pair H; reflexivity. }
  destruct (dispatch_flags (get2 m (e_c e)) (e_r e) (e_w e) o) as [s' x] eqn:Ed. intros H; inv_pair H. simpl.
  eapply flags_not_dead; eauto.
Qed.

Definition seen (c : nat) (r : out2) (l : list pev) : list pev :=
  match o2_c r with Some c' => if Nat.eqb c' c then l else [] | None => [] end.

Lemma deliver_accepted c mn m o m' r :
  inv2 m -> MI mn (get2 m c) -> deliver m o = (m', r) ->
  accepts mn (seen c r (dispatch_events false false (o2_out r))) (get2 m' c).
Proof.
  intros Hinv HMI H. unfold deliver in H. destruct (sel m) as [|e l] eqn:El.
  { inv_pair H. unfold seen. simpl. eexists; split; [reflexivity | exact HMI]. }
  destruct (dispatch_flags (get2 m (e_c e)) (e_r e) (e_w e) o) as [s' x] eqn:Ed. inv_pair H.
  unfold seen. cbn [o2_c o2_out].
  destruct (Nat.eqb (e_c e) c) eqn:Ec.
  - apply eqb_true_eq in Ec. subst c. rewrite get2_put2_same.
    pose proof (i2_sel m Hinv) as Hok. rewrite El in Hok. inversion Hok as [|? ? He Hl]; subst.
    pose proof (inv_get2 m (e_c e) Hinv) as Hi.
    pose proof (entry_removed _ _ Hi He) as Hrm.
    destruct He as [Hreg [A B]]. destruct (interest_facts _ Hi Hreg) as [Fr Fw].
    change (dispatch_events false false x) with (send_events x ++ map ECb (o_cbs x)).
    apply (flags_accepted O O mn (get2 m (e_c e)) (e_r e) (e_w e) o s' x); auto; congruence.
  - apply eqb_false_neq in Ec. rewrite get2_put2_other by congruence.
    eexists; split; [reflexivity | exact HMI].
Qed.

Lemma events_of_asked rn rn' y r :
  match y with Dispatch _ _ | PollReal _ => False | _ => True end ->
  events_of false rn y r = events_of true rn' y r.
Proof. destruct y; simpl; tauto. Qed.

Lemma step2_accepted c mn m x m' r :
  inv2 m -> MI mn (get2 m c) -> step2 m x = (m', r) ->
  accepts mn (events2 c x r) (get2 m' c).
Proof.
  intros Hinv HMI H.
  assert (Hid : accepts mn [] (get2 m c)) by (eexists; split; [reflexivity | exact HMI]).
  unfold step2 in H. destruct x as [c' y | evs | o |].
  - assert (Hsingle : forall n o (z : op),
      match z with Dispatch _ _ | PollReal _ => True | _ => False end ->
      match sel m with
      | [] => if removed (get2 m c') then (m, mkout2 (Some c') out_dead false) else deliver (collect m [(c', n)]) o
      | _ :: _ => (m, out2_idle)
      end = (m', r) -> accepts mn (events2 c (On c' z) r) (get2 m' c)).
    { intros n o z Hz Hs. destruct (sel m); [|inv_pair Hs; exact Hid].
      destruct (removed (get2 m c')) eqn:Erm.
      - inv_pair Hs. unfold events2. simpl. destruct (Nat.eqb c' c); [|exact Hid].
        unfold events_of. simpl. exact Hid.
      - pose proof (deliver_not_dead _ _ _ _ Hs) as Hnd.
        pose proof (deliver_accepted c mn (collect m [(c', n)]) o m' r (collect_inv2 m _ Hinv)) as Ha.
        rewrite collect_get2 in Ha. specialize (Ha HMI Hs).
        unfold events2. unfold seen in Ha. destruct (o2_c r) as [c2|]; [|exact Ha].
        destruct (Nat.eqb c2 c); [|exact Ha].
        destruct z; try contradiction; unfold events_of; rewrite Hnd; exact Ha. }
    destruct y; try (eapply Hsingle; [exact I | exact H]);
      match type of H with context [step ?s ?y] => destruct (step s y) as [s' r'] eqn:Es end;
      inv_pair H; unfold events2; cbn [o2_c o2_out];
      (destruct (Nat.eqb c' c) eqn:Ec;
       [apply eqb_true_eq in Ec; subst c'; rewrite get2_put2_same;
        rewrite (events_of_asked no_native (real_native (inbound (get2 m c)) (peer_closed (get2 m c)))) by exact I;
        apply (step_accepted mn (get2 m c) _ s' r' (inv_get2 m c Hinv) HMI Es)
       |apply eqb_false_neq in Ec; rewrite get2_put2_other by congruence; exact Hid]).
  - destruct (sel m); inv_pair H; unfold events2; simpl; rewrite ?collect_get2; exact Hid.
  - pose proof (deliver_accepted c mn m o m' r Hinv HMI H) as Ha. unfold events2. unfold seen in Ha. exact Ha.
  - destruct (closq m) as [|c' k]. { inv_pair H. unfold events2. simpl. exact Hid. }
    destruct (step (get2 m c') CloseSweep) as [s' r'] eqn:Es. inv_pair H. unfold events2. cbn [o2_c o2_out].
    destruct (Nat.eqb c' c) eqn:Ec.
    + apply eqb_true_eq in Ec. subst c'. rewrite get2_put2_same.
      pose proof (step_accepted mn (get2 m c) CloseSweep s' r' (inv_get2 m c Hinv) HMI Es) as Ha.
      assert (E : events_of true (real_native (inbound (get2 m c)) (peer_closed (get2 m c))) CloseSweep r' = map ECb (o_cbs r')).
      { unfold events_of. unfold step in Es. destruct (removed (get2 m c)); [inv_pair Es; reflexivity|].
        destruct (closing (get2 m c)); inv_pair Es; reflexivity. }
      rewrite E in Ha. exact Ha.
    + apply eqb_false_neq in Ec. rewrite get2_put2_other by congruence. exact Hid.
Qed.

Lemma trace2_accepted c l : forall mn m, inv2 m -> MI mn (get2 m c) -> exists m', mon_run mn (trace2 c m l) = Go m'.
Proof.
  induction l as [|h l IH]; intros mn m Hinv HMI; simpl. { eexists; reflexivity. }
  destruct h as [x | d | ].
  - destruct (step2 m x) as [m1 r] eqn:E.
    destruct (step2_accepted c mn m x m1 r Hinv HMI E) as [mn1 [Hrun HM1]].
    rewrite mon_run_app, Hrun. apply (IH mn1 m1); [eapply inv2_step; eauto | exact HM1].
  - destruct (Nat.eqb d c).
    + destruct (probe_accepted mn (get2 m c) HMI) as [mn1 [Hrun HM1]].
      rewrite mon_run_app, Hrun. apply (IH mn1 m); assumption.
    + simpl. apply (IH mn m); assumption.
  - destruct (runend_accepted mn (get2 m c) HMI) as [mn1 [Hrun HM1]].
    change (ERunEnd :: trace2 c m l) with ([ERunEnd] ++ trace2 c m l).
    rewrite mon_run_app, Hrun. apply (IH mn1 m); assumption.
Qed.

Lemma two_client_trace_accepted_lemma h c : accepted_trace (trace2 c init2 h).
Proof. apply trace2_accepted; [apply inv2_init | rewrite get2_init2; apply MI_init]. Qed.
