(* The theorems of property C13 about the MODEL, for every history: every interleaving of writes
   of every size, suspend/resume, poll events with every readiness, reads, peer actions - and
   every answer of the operating system to every send (the answers are inputs of the steps). *)
From Coq Require Import ZArith List Bool Lia.
From ServerWrite Require Import ServerWriteSpec ServerWriteModel ServerWriteProofs.
Import ListNotations.
Local Open Scope Z_scope.
Local Open Scope bool_scope.

Arguments ztake : simpl never.
Arguments zdrop : simpl never.
Arguments zlen : simpl never.
Arguments send_count : simpl never.
Arguments Z.eqb : simpl never.
Arguments Z.geb : simpl never.
Arguments Z.leb : simpl never.

(* ---- one poll event, in a reachable state: five cases ------------------------------------------ *)

Definition rd_cb (s : st) (n : native) : list cb := if ev_read s n then [OnRead] else [].

Inductive event_case (s : st) (n : native) (o : outcome) (s' : st) (r : out) : Prop :=
| EC_none : (registered s = false \/ (ev_read s n = false /\ ev_write s n = false)) ->
            s' = s -> r = out_none -> event_case s n o s' r
| EC_read : registered s = true -> ev_read s n = true -> ev_write s n = false ->
            s' = s -> r = out_cb OnRead -> event_case s n o s' r
| EC_fail : registered s = true -> ev_write s n = true -> sendbuf s <> [] ->
            (fst (send_ret (zlen (sendbuf s)) o) = 0 \/ send_ret (zlen (sendbuf s)) o = (-1, false)) ->
            s' = poll_remove (set_buf s []) ->
            r = mkout None 0 [OnClosed] [] [(zlen (sendbuf s), fst (send_ret (zlen (sendbuf s)) o))] [] true false ->
            event_case s n o s' r
| EC_part (sent : Z) :
            registered s = true -> ev_write s n = true -> sendbuf s <> [] ->
            0 <= sent < zlen (sendbuf s) ->
            (sent = 0 /\ send_ret (zlen (sendbuf s)) o = (-1, true) \/
             1 <= sent /\ sent = fst (send_ret (zlen (sendbuf s)) o)) ->
            s' = set_buf (os_take s (ztake sent (sendbuf s))) (zdrop sent (sendbuf s)) ->
            r = mkout None 0 (rd_cb s n) (ztake sent (sendbuf s))
                      [(zlen (sendbuf s), fst (send_ret (zlen (sendbuf s)) o))] [] false false ->
            event_case s n o s' r
| EC_all :  registered s = true -> ev_write s n = true -> sendbuf s <> [] ->
            zlen (sendbuf s) <= fst (send_ret (zlen (sendbuf s)) o) ->
            s' = poll_set (set_buf (os_take s (sendbuf s)) []) (negb (suspended s)) false ->
            r = mkout None 0 [OnWrite] (sendbuf s)
                      [(zlen (sendbuf s), fst (send_ret (zlen (sendbuf s)) o))] [] false false ->
            event_case s n o s' r.

Lemma ev_write_int_w s n : ev_write s n = true -> int_w s = true.
Proof. unfold ev_write. destruct (int_w s); auto. rewrite andb_false_r. auto. Qed.

Lemma event_cases s n o s' r : inv s -> dispatch s n o = (s', r) -> event_case s n o s' r.
Proof.
  intros [Hi Hu _] H. apply dispatch_cases in H.
  destruct H as [Hn -> -> | Hr He Hw -> -> | r0 fin Hr Hw Hwr ->].
  - apply EC_none; auto.
  - apply EC_read; auto.
  - apply write_ready_cases in Hwr.
    destruct Hwr as [He -> -> -> | Hne Hf -> -> -> | sent Hne Hs Hwh -> -> -> | Hne Hle -> -> ->].
    + exfalso. apply ev_write_int_w in Hw. destruct (Hi Hr) as [_ B]. rewrite He in B. simpl in B. congruence.
    + apply EC_fail; auto.
    + apply (EC_part s n o _ _ sent); auto. unfold rd_cb, add_cb. destruct (ev_read s n); reflexivity.
    + apply EC_all; auto.
Qed.

(* ---- removed is final; callbacks of a dead client ------------------------------------------- *)

Lemma step_removed s x : removed s = true -> step s x = (s, out_dead).
Proof. intros H. unfold step. rewrite H. reflexivity. Qed.

Lemma exec_removed s l : removed s = true -> removed (fst (exec s l)) = true.
Proof.
  revert s. induction l as [|x l IH]; intros s H; simpl; auto.
  rewrite step_removed by assumption. specialize (IH s H). destruct (exec s l). exact IH.
Qed.

Lemma ztake_neq k l : 0 <= k < zlen l -> ztake k l <> l.
Proof. intros H E. apply (f_equal zlen) in E. rewrite zlen_ztake in E; lia. Qed.

(* ---- per-step facts ------------------------------------------------------------------------------ *)

(* bytes: what goes to the OS in a step, followed by the new backlog, is the old backlog followed
   by what the step accepted - unless the step gives the connection up or removes the client *)
Lemma step_bytes s x s' r :
  inv s -> step s x = (s', r) -> o_drop r = false -> removed s' = false ->
  o_tx r ++ sendbuf s' = sendbuf s ++ accepted_of x r.
Proof.
  intros Hinv H Hd Hrm. unfold step in H.
  destruct (removed s) eqn:Erm. { inv_pair H. congruence. }
  assert (Hdisp : forall n o, dispatch s n o = (s', r) -> o_tx r ++ sendbuf s' = sendbuf s ++ []).
  { intros n o Hx. apply event_cases in Hx; auto.
    destruct Hx as [_ -> -> | _ _ _ -> -> | _ _ _ _ -> -> | sent _ _ _ _ _ -> -> | _ _ _ _ -> ->];
      simpl in *; rewrite ?app_nil_r; auto; try discriminate. apply ztake_zdrop. }
  destruct x; simpl accepted_of.
  - apply do_write_cases in H.
    destruct H as [Hne -> -> | He _ -> -> | He _ -> -> | sent He Hs _ -> ->]; simpl; rewrite ?He; simpl;
      rewrite ?app_nil_r; auto using ztake_zdrop.
  - eapply Hdisp; eauto.
  - eapply Hdisp; eauto.
  - destruct (closing s); inv_pair H; simpl; rewrite app_nil_r; auto.
  - inv_pair H. unfold do_suspend. destruct (suspended s); [|destruct (buf_isEmpty _)]; simpl; rewrite app_nil_r; auto.
  - inv_pair H. unfold do_resume. destruct (negb (suspended s)); [|destruct (buf_isEmpty _)]; simpl; rewrite app_nil_r; auto.
  - unfold do_read in H. destruct (recv_count (inbound s) (peer_closed s) max) as [k|];
      [destruct (k =? 0)|]; inv_pair H; simpl; rewrite app_nil_r; auto.
  - inv_pair H. destruct (peer_closed s); simpl; rewrite app_nil_r; auto.
  - destruct (peer_closed s); inv_pair H; simpl; rewrite app_nil_r; auto.
  - destruct (peer_closed s); inv_pair H; simpl; rewrite app_nil_r; auto.
  - inv_pair H. simpl in Hrm. discriminate.
Qed.

(* the wire: what the peer reads in a step, followed by what is still in flight afterwards, is
   what was in flight before followed by what the step handed to the OS *)
Lemma step_wire s x s' r :
  inv s -> step s x = (s', r) -> peer_data x r ++ wire s' = wire s ++ o_tx r.
Proof.
  intros Hinv H. unfold step in H.
  destruct (removed s) eqn:Erm. { inv_pair H. simpl. destruct x; simpl; rewrite app_nil_r; auto. }
  assert (Hdisp : forall n o, dispatch s n o = (s', r) -> [] ++ wire s' = wire s ++ o_tx r).
  { intros n o Hx. apply event_cases in Hx; auto.
    destruct Hx as [_ -> -> | _ _ _ -> -> | _ _ _ _ -> -> | sent _ _ _ _ _ -> -> | _ _ _ _ -> ->];
      simpl in *; rewrite ?app_nil_r; auto. }
  destruct x; simpl peer_data.
  - apply do_write_cases in H.
    destruct H as [Hne -> -> | He _ -> -> | He _ -> -> | sent He Hs _ -> ->]; simpl; rewrite ?app_nil_r; auto.
  - eapply Hdisp; eauto.
  - eapply Hdisp; eauto.
  - destruct (closing s); inv_pair H; simpl; rewrite app_nil_r; auto.
  - inv_pair H. unfold do_suspend. destruct (suspended s); [|destruct (buf_isEmpty _)]; simpl; rewrite app_nil_r; auto.
  - inv_pair H. unfold do_resume. destruct (negb (suspended s)); [|destruct (buf_isEmpty _)]; simpl; rewrite app_nil_r; auto.
  - unfold do_read in H. destruct (recv_count (inbound s) (peer_closed s) max) as [k|];
      [destruct (k =? 0)|]; inv_pair H; simpl; rewrite app_nil_r; auto.
  - inv_pair H. destruct (peer_closed s); simpl; rewrite app_nil_r; auto.
  - destruct (peer_closed s); inv_pair H; simpl; rewrite ?app_nil_r; auto.
  - destruct (peer_closed s); inv_pair H; simpl; rewrite ?app_nil_r; auto.
  - inv_pair H. simpl. rewrite app_nil_r; auto.
Qed.

(* onWrite: delivered by a step exactly when that step hands the whole non-empty backlog to the OS *)
Lemma step_onWrite s x s' r :
  inv s -> step s x = (s', r) ->
  (In OnWrite (o_cbs r) <-> sendbuf s <> [] /\ o_tx r = sendbuf s /\ sendbuf s' = []).
Proof.
  intros Hinv H. unfold step in H.
  destruct (removed s) eqn:Erm.
  { inv_pair H. simpl. split; [tauto | intros [A [B _]]; congruence]. }
  assert (Hdisp : forall n o, dispatch s n o = (s', r) ->
            (In OnWrite (o_cbs r) <-> sendbuf s <> [] /\ o_tx r = sendbuf s /\ sendbuf s' = [])).
  { intros n o Hx. apply event_cases in Hx; auto.
    destruct Hx as [_ -> -> | _ _ _ -> -> | _ _ Hne _ -> -> | sent _ _ Hne Hs _ -> -> | _ _ Hne _ -> ->]; simpl.
    - split; [tauto | intros [A [B _]]; congruence].
    - split; [intros [A|[]]; discriminate | intros [A [B _]]; congruence].
    - split; [intros [A|[]]; discriminate | intros [A [B _]]; congruence].
    - split.
      + unfold rd_cb. destruct (ev_read s n); simpl; [intros [A|[]]; discriminate | tauto].
      + intros [_ [B _]]. exfalso. revert B. apply ztake_neq. assumption.
    - split; auto. }
  destruct x.
  - apply do_write_cases in H.
    destruct H as [Hne -> -> | He _ -> -> | He _ -> -> | sent He Hs _ -> ->]; simpl;
      (split; [tauto | intros [A [B _]]; congruence]).
  - eapply Hdisp; eauto.
  - eapply Hdisp; eauto.
  - destruct (closing s); inv_pair H; simpl; (split; [try tauto | intros [A [B _]]; congruence]).
    intros [A|[]]; discriminate.
  - inv_pair H. simpl. split; [tauto | intros [A [B _]]; congruence].
  - inv_pair H. simpl. split; [tauto | intros [A [B _]]; congruence].
  - unfold do_read in H. destruct (recv_count (inbound s) (peer_closed s) max) as [k|];
      [destruct (k =? 0)|]; inv_pair H; simpl; (split; [tauto | intros [A [B _]]; congruence]).
  - inv_pair H. simpl. split; [tauto | intros [A [B _]]; congruence].
  - destruct (peer_closed s); inv_pair H; simpl; (split; [tauto | intros [A [B _]]; congruence]).
  - destruct (peer_closed s); inv_pair H; simpl; (split; [tauto | intros [A [B _]]; congruence]).
  - inv_pair H. simpl. split; [tauto | intros [A [B _]]; congruence].
Qed.

(* at most one callback per step (so: at most one onWrite per drain) *)
Lemma step_one_callback s x s' r : inv s -> step s x = (s', r) -> (length (o_cbs r) <= 1)%nat.
Proof.
  intros Hinv H. unfold step in H.
  destruct (removed s) eqn:Erm. { inv_pair H. simpl. lia. }
  assert (Hdisp : forall n o, dispatch s n o = (s', r) -> (length (o_cbs r) <= 1)%nat).
  { intros n o Hx. apply event_cases in Hx; auto.
    destruct Hx as [_ -> -> | _ _ _ -> -> | _ _ _ _ -> -> | sent _ _ _ _ _ -> -> | _ _ _ _ -> ->]; simpl; try lia.
    unfold rd_cb. destruct (ev_read s n); simpl; lia. }
  destruct x.
  - apply do_write_cases in H.
    destruct H as [Hne -> -> | He _ -> -> | He _ -> -> | sent He Hs _ -> ->]; simpl; lia.
  - eapply Hdisp; eauto.
  - eapply Hdisp; eauto.
  - destruct (closing s); inv_pair H; simpl; lia.
  - inv_pair H. simpl. lia.
  - inv_pair H. simpl. lia.
  - unfold do_read in H. destruct (recv_count (inbound s) (peer_closed s) max) as [k|];
      [destruct (k =? 0)|]; inv_pair H; simpl; lia.
  - inv_pair H. simpl. lia.
  - destruct (peer_closed s); inv_pair H; simpl; lia.
  - destruct (peer_closed s); inv_pair H; simpl; lia.
  - inv_pair H. simpl. lia.
Qed.

(* a suspended client gets no read notification, whatever the kernel reports *)
Lemma step_suspended_no_onRead s x s' r :
  inv s -> suspended s = true -> step s x = (s', r) -> ~ In OnRead (o_cbs r).
Proof.
  intros Hinv Hsu H. unfold step in H.
  destruct (removed s) eqn:Erm. { inv_pair H. simpl. tauto. }
  assert (Hdisp : forall n o, dispatch s n o = (s', r) -> ~ In OnRead (o_cbs r)).
  { intros n o Hx.
    assert (Hrd : registered s = true -> ev_read s n = false).
    { intros Hr. destruct Hinv as [Hi _ _]. destruct (Hi Hr) as [A _]. unfold ev_read. rewrite A, Hsu.
      simpl. apply andb_false_r. }
    apply event_cases in Hx; auto.
    destruct Hx as [_ -> -> | Hr He _ -> -> | _ _ _ _ -> -> | sent Hr _ _ _ _ -> -> | _ _ _ _ -> ->]; simpl.
    - tauto.
    - rewrite Hrd in He; auto. discriminate.
    - intros [A|[]]; discriminate.
    - unfold rd_cb. rewrite Hrd; auto.
    - intros [A|[]]; discriminate. }
  destruct x.
  - apply do_write_cases in H.
    destruct H as [Hne -> -> | He _ -> -> | He _ -> -> | sent He Hs _ -> ->]; simpl; tauto.
  - eapply Hdisp; eauto.
  - eapply Hdisp; eauto.
  - destruct (closing s); inv_pair H; simpl; try tauto. intros [A|[]]; discriminate.
  - inv_pair H. simpl. tauto.
  - inv_pair H. simpl. tauto.
  - unfold do_read in H. destruct (recv_count (inbound s) (peer_closed s) max) as [k|];
      [destruct (k =? 0)|]; inv_pair H; simpl; tauto.
  - inv_pair H. simpl. tauto.
  - destruct (peer_closed s); inv_pair H; simpl; tauto.
  - destruct (peer_closed s); inv_pair H; simpl; tauto.
  - inv_pair H. simpl. tauto.
Qed.

(* the suspended flag follows the application's calls *)
Definition susp_after (x : op) (cur : bool) : bool :=
  match x with Suspend => true | Resume => false | _ => cur end.

Lemma susp_of_ops_cons x l cur : susp_of_ops (x :: l) cur = susp_of_ops l (susp_after x cur).
Proof. destruct x; reflexivity. Qed.

Lemma step_suspended s x s' r :
  inv s -> step s x = (s', r) -> removed s' = false -> suspended s' = susp_after x (suspended s).
Proof.
  intros Hinv H Hrm. unfold step in H.
  destruct (removed s) eqn:Erm. { inv_pair H. congruence. }
  assert (Hdisp : forall n o, dispatch s n o = (s', r) -> suspended s' = suspended s).
  { intros n o Hx. apply event_cases in Hx; auto.
    destruct Hx as [_ -> -> | _ _ _ -> -> | _ _ _ _ -> -> | sent _ _ _ _ _ -> -> | _ _ _ _ -> ->]; reflexivity. }
  destruct x; simpl susp_after.
  - apply do_write_cases in H.
    destruct H as [Hne -> -> | He _ -> -> | He _ -> -> | sent He Hs _ -> ->]; reflexivity.
  - eapply Hdisp; eauto.
  - eapply Hdisp; eauto.
  - destruct (closing s); inv_pair H; reflexivity.
  - inv_pair H. unfold do_suspend. destruct (suspended s) eqn:E; auto. destruct (buf_isEmpty _); reflexivity.
  - inv_pair H. unfold do_resume. destruct (suspended s) eqn:E; cbn [negb]; auto. destruct (buf_isEmpty _); reflexivity.
  - unfold do_read in H. destruct (recv_count (inbound s) (peer_closed s) max) as [k|];
      [destruct (k =? 0)|]; inv_pair H; reflexivity.
  - inv_pair H. destruct (peer_closed s); reflexivity.
  - destruct (peer_closed s); inv_pair H; reflexivity.
  - destruct (peer_closed s); inv_pair H; reflexivity.
  - inv_pair H. simpl in Hrm. discriminate.
Qed.

(* write: the reported postponed size *)
Lemma write_postponed s d o s' r :
  removed s = false -> step s (Write d o) = (s', r) ->
  (o_ret r = Some true /\ o_num r = zlen (sendbuf s')) \/
  (o_ret r = Some false /\ o_num r = 0 /\ o_tx r = [] /\ sendbuf s' = sendbuf s /\ closing s' = true).
Proof.
  intros Hrm H. unfold step in H. rewrite Hrm in H. apply do_write_cases in H.
  destruct H as [Hne -> -> | He _ -> -> | He _ -> -> | sent He Hs _ -> ->]; simpl.
  - left. auto.
  - right. repeat split; auto.
  - left. rewrite He. auto.
  - left. auto.
Qed.

(* ---- histories --------------------------------------------------------------------------------- *)

Lemma exec_cons s x l :
  exec s (x :: l) = let '(s1, r) := step s x in let '(s2, rs) := exec s1 l in (s2, r :: rs).
Proof. reflexivity. Qed.

Lemma exec_bytes l : forall s s' outs,
  inv s -> exec s l = (s', outs) -> gave_up outs = false -> removed s' = false ->
  os_bytes outs ++ sendbuf s' = sendbuf s ++ accepted l outs.
Proof.
  induction l as [|x l IH]; intros s s' outs Hinv H Hg Hrm.
  - inv_pair H. simpl. rewrite app_nil_r. reflexivity.
  - rewrite exec_cons in H. destruct (step s x) as [s1 r] eqn:Es. destruct (exec s1 l) as [s2 rs] eqn:Ee.
    inv_pair H. unfold gave_up in Hg. simpl in Hg. apply orb_false_iff in Hg. destruct Hg as [Hd Hg].
    assert (Hrm1 : removed s1 = false).
    { destruct (removed s1) eqn:E; auto. pose proof (exec_removed s1 l E) as X. rewrite Ee in X. simpl in X. congruence. }
    pose proof (step_bytes _ _ _ _ Hinv Es Hd Hrm1) as Hs.
    pose proof (IH s1 s' rs (inv_step _ _ _ _ Hinv Es) Ee Hg Hrm) as Hi.
    unfold os_bytes in *. simpl. rewrite <- app_assoc, Hi, app_assoc, Hs, app_assoc. reflexivity.
Qed.

Lemma exec_wire l : forall s s' outs,
  inv s -> exec s l = (s', outs) -> peer_got l outs ++ wire s' = wire s ++ os_bytes outs.
Proof.
  induction l as [|x l IH]; intros s s' outs Hinv H.
  - inv_pair H. simpl. rewrite app_nil_r. reflexivity.
  - rewrite exec_cons in H. destruct (step s x) as [s1 r] eqn:Es. destruct (exec s1 l) as [s2 rs] eqn:Ee.
    inv_pair H.
    pose proof (step_wire _ _ _ _ Hinv Es) as Hs.
    pose proof (IH s1 s' rs (inv_step _ _ _ _ Hinv Es) Ee) as Hi.
    unfold os_bytes in *. simpl. rewrite <- app_assoc, Hi, app_assoc, Hs, app_assoc. reflexivity.
Qed.

Lemma exec_suspended l : forall s s' outs,
  inv s -> exec s l = (s', outs) -> removed s' = false -> suspended s' = susp_of_ops l (suspended s).
Proof.
  induction l as [|x l IH]; intros s s' outs Hinv H Hrm.
  - inv_pair H. reflexivity.
  - rewrite exec_cons in H. destruct (step s x) as [s1 r] eqn:Es. destruct (exec s1 l) as [s2 rs] eqn:Ee.
    inv_pair H.
    assert (Hrm1 : removed s1 = false).
    { destruct (removed s1) eqn:E; auto. pose proof (exec_removed s1 l E) as X. rewrite Ee in X. simpl in X. congruence. }
    rewrite susp_of_ops_cons, <- (step_suspended _ _ _ _ Hinv Es Hrm1).
    eapply IH; eauto. eapply inv_step; eauto.
Qed.

(* benign histories (the property's quantifier: would-block, any partial count, full; the client is not
   removed) never give the connection up and never remove the client *)
Lemma benign_step s x s' r :
  inv s -> removed s = false -> benign_op x = true -> step s x = (s', r) -> o_drop r = false /\ removed s' = false.
Proof.
  intros Hinv Hrm Hb H. unfold step in H. rewrite Hrm in H.
  assert (Hdisp : forall n o, benign_outcome o = true -> dispatch s n o = (s', r) -> o_drop r = false /\ removed s' = false).
  { intros n o Ho Hx. apply event_cases in Hx; auto.
    destruct Hx as [_ -> -> | _ _ _ -> -> | _ _ Hne Hf -> -> | sent _ _ _ _ _ -> -> | _ _ _ _ -> ->]; simpl; auto.
    exfalso. assert (0 < zlen (sendbuf s)).
    { pose proof (zlen_nonneg (sendbuf s)). pose proof (zlen_nil_iff (sendbuf s)).
      destruct (Z.eq_dec (zlen (sendbuf s)) 0); [tauto | lia]. }
    destruct o; simpl in Ho; try discriminate; simpl in Hf; destruct Hf as [Hf|Hf]; try discriminate;
      try (injection Hf as Hf); try (pose proof (send_count_range (zlen (sendbuf s)) k)); lia. }
  destruct x; simpl in Hb; try discriminate.
  - apply do_write_cases in H.
    destruct H as [Hne -> -> | He _ -> -> | He _ -> -> | sent He Hs _ -> ->]; simpl; auto.
  - eapply Hdisp; eauto.
  - eapply Hdisp; eauto.
  - destruct (closing s); inv_pair H; simpl; auto.
  - inv_pair H. unfold do_suspend. destruct (suspended s); [|destruct (buf_isEmpty _)]; simpl; auto.
  - inv_pair H. unfold do_resume. destruct (negb (suspended s)); [|destruct (buf_isEmpty _)]; simpl; auto.
  - unfold do_read in H. destruct (recv_count (inbound s) (peer_closed s) max) as [k|];
      [destruct (k =? 0)|]; inv_pair H; simpl; auto.
  - inv_pair H. destruct (peer_closed s); simpl; auto.
  - destruct (peer_closed s); inv_pair H; simpl; auto.
  - destruct (peer_closed s); inv_pair H; simpl; auto.
Qed.

Lemma benign_exec l : forall s s' outs,
  inv s -> removed s = false -> forallb benign_op l = true -> exec s l = (s', outs) ->
  gave_up outs = false /\ removed s' = false.
Proof.
  induction l as [|x l IH]; intros s s' outs Hinv Hrm Hb H.
  - inv_pair H. auto.
  - rewrite exec_cons in H. destruct (step s x) as [s1 r] eqn:Es. destruct (exec s1 l) as [s2 rs] eqn:Ee.
    inv_pair H. simpl in Hb. apply andb_true_iff in Hb. destruct Hb as [Hb1 Hb2].
    destruct (benign_step _ _ _ _ Hinv Hrm Hb1 Es) as [Hd Hr1].
    destruct (IH s1 s' rs (inv_step _ _ _ _ Hinv Es) Hr1 Hb2 Ee) as [Hg Hr2].
    split; auto. unfold gave_up in *. simpl. rewrite Hd, Hg. reflexivity.
Qed.

(* ---- the main statements, from [init] -------------------------------------------------------- *)

Lemma interest_invariant_lemma ops :
  let s := fst (exec init ops) in
  registered s = true ->
  (int_r s = true <-> suspended s = false) /\ (int_w s = true <-> backlog s <> []).
Proof.
  intros s Hr. destruct (inv_exec init ops inv_init) as [Hi _ _]. fold s in Hi.
  destruct (Hi Hr) as [A B]. rewrite A, B. unfold backlog. split.
  - destruct (suspended s); simpl; split; congruence.
  - destruct (sendbuf s); simpl; split; congruence.
Qed.

Lemma unregistered_has_no_backlog_lemma ops :
  let s := fst (exec init ops) in registered s = false -> backlog s = [].
Proof. intros s. destruct (inv_exec init ops inv_init) as [_ Hu _]. exact Hu. Qed.

Lemma stream_lemma ops s outs :
  exec init ops = (s, outs) -> gave_up outs = false -> removed s = false ->
  os_bytes outs ++ backlog s = accepted ops outs.
Proof. intros H Hg Hr. exact (exec_bytes ops init s outs inv_init H Hg Hr). Qed.

Lemma peer_lemma ops s outs :
  exec init ops = (s, outs) -> peer_got ops outs ++ wire s = os_bytes outs.
Proof. intros H. exact (exec_wire ops init s outs inv_init H). Qed.

Lemma end_to_end_lemma ops s outs :
  exec init ops = (s, outs) -> gave_up outs = false -> removed s = false ->
  peer_got ops outs ++ wire s ++ backlog s = accepted ops outs.
Proof.
  intros H Hg Hr. rewrite app_assoc, (peer_lemma _ _ _ H). apply stream_lemma; auto.
Qed.

Lemma benign_stream_lemma ops s outs :
  forallb benign_op ops = true -> exec init ops = (s, outs) ->
  peer_got ops outs ++ wire s ++ backlog s = accepted ops outs.
Proof.
  intros Hb H. destruct (benign_exec ops init s outs inv_init eq_refl Hb H) as [Hg Hr].
  apply end_to_end_lemma; auto.
Qed.

Lemma zlen_eq_sub (a b c : list Z) : a ++ b = c -> zlen b = zlen c - zlen a.
Proof. intros <-. rewrite zlen_app. lia. Qed.

Lemma send_buffer_size_lemma ops s outs :
  exec init ops = (s, outs) -> gave_up outs = false -> removed s = false ->
  getSendBufferSize s = zlen (accepted ops outs) - zlen (os_bytes outs).
Proof. intros H Hg Hr. unfold getSendBufferSize, buf_size. apply zlen_eq_sub. apply stream_lemma; auto. Qed.

Lemma exec_snoc s l x :
  exec s (l ++ [x]) = let '(s1, o1) := exec s l in let '(s2, r) := step s1 x in (s2, o1 ++ [r]).
Proof.
  rewrite exec_app. destruct (exec s l) as [s1 o1]. simpl. destruct (step s1 x). reflexivity.
Qed.

Lemma gave_up_app a b : gave_up (a ++ b) = gave_up a || gave_up b.
Proof. unfold gave_up. apply existsb_app. Qed.

Lemma postponed_lemma ops s outs d o s' r :
  exec init ops = (s, outs) -> gave_up outs = false -> removed s = false ->
  step s (Write d o) = (s', r) ->
  (o_ret r = Some true /\
   o_num r = zlen (accepted (ops ++ [Write d o]) (outs ++ [r])) - zlen (os_bytes (outs ++ [r])) /\
   o_num r = getSendBufferSize s') \/
  (o_ret r = Some false /\ o_num r = 0 /\ o_tx r = [] /\ backlog s' = backlog s).
Proof.
  intros H Hg Hr Hs.
  destruct (write_postponed _ _ _ _ _ Hr Hs) as [[A B] | [A [B [C [D E]]]]]; [left | right; auto].
  split; auto. split; auto. rewrite B.
  assert (Hx : exec init (ops ++ [Write d o]) = (s', outs ++ [r])).
  { rewrite exec_snoc, H, Hs. reflexivity. }
  assert (Hrm : removed s' = false).
  { unfold step in Hs. rewrite Hr in Hs. apply do_write_cases in Hs.
    destruct Hs as [Hne -> _ | He _ -> _ | He _ -> _ | sent He Hs' _ -> _]; simpl; auto. }
  assert (Hd : o_drop r = false).
  { unfold step in Hs. rewrite Hr in Hs. apply do_write_cases in Hs.
    destruct Hs as [Hne _ -> | He _ _ -> | He _ _ -> | sent He Hs' _ _ ->]; simpl; auto. }
  apply zlen_eq_sub. apply (stream_lemma _ _ _ Hx); auto.
  rewrite gave_up_app, Hg. unfold gave_up. simpl. rewrite Hd. reflexivity.
Qed.

Lemma onWrite_lemma ops x :
  let s := fst (exec init ops) in
  let s' := fst (step s x) in
  let r := snd (step s x) in
  (In OnWrite (o_cbs r) <-> backlog s <> [] /\ o_tx r = backlog s /\ backlog s' = []) /\
  (length (o_cbs r) <= 1)%nat.
Proof.
  intros s s' r. pose proof (inv_exec init ops inv_init) as Hinv. fold s in Hinv.
  destruct (step s x) as [s1 r1] eqn:E. subst s' r. simpl. split.
  - eapply step_onWrite; eauto.
  - eapply step_one_callback; eauto.
Qed.

Lemma suspended_lemma ops x :
  let s := fst (exec init ops) in
  susp_of_ops ops false = true -> ~ In OnRead (o_cbs (snd (step s x))).
Proof.
  intros s Hs. pose proof (inv_exec init ops inv_init) as Hinv. fold s in Hinv.
  destruct (removed s) eqn:Erm.
  - rewrite step_removed by assumption. simpl. tauto.
  - destruct (exec init ops) as [s0 outs] eqn:E. simpl in s. subst s.
    pose proof (exec_suspended ops init s0 outs inv_init E Erm) as Hsu. simpl in Hsu.
    destruct (step s0 x) as [s1 r] eqn:Es. simpl.
    eapply step_suspended_no_onRead; eauto.
Qed.

Lemma suspended_state_lemma ops x :
  let s := fst (exec init ops) in
  suspended s = true -> ~ In OnRead (o_cbs (snd (step s x))).
Proof.
  intros s Hs. pose proof (inv_exec init ops inv_init) as Hinv. fold s in Hinv.
  destruct (step s x) as [s1 r] eqn:Es. simpl. eapply step_suspended_no_onRead; eauto.
Qed.

(* ---- progress: a writable report always reaches the backlog ------------------------------------- *)

Lemma backlog_registered s : inv s -> sendbuf s <> [] -> registered s = true /\ int_w s = true.
Proof.
  intros [Hi Hu _] Hne. destruct (registered s) eqn:Er.
  - split; auto. destruct (Hi eq_refl) as [_ B]. rewrite B, nonnil_is_nil; auto.
  - exfalso. auto.
Qed.

Lemma writable_event_lemma s n o s' r :
  inv s -> removed s = false -> sendbuf s <> [] -> nout n = true ->
  step s (Dispatch n o) = (s', r) ->
  o_sends r = [(zlen (sendbuf s), fst (send_ret (zlen (sendbuf s)) o))] /\
  (forall k, send_result (zlen (sendbuf s)) o = RSent k ->
     o_tx r = ztake k (sendbuf s) /\ sendbuf s' = zdrop k (sendbuf s) /\
     (In OnWrite (o_cbs r) <-> k = zlen (sendbuf s))).
Proof.
  intros Hinv Hrm Hne Hout H. unfold step in H. rewrite Hrm in H.
  destruct (backlog_registered s Hinv Hne) as [Hr Hw].
  assert (Hew : ev_write s n = true) by (unfold ev_write; rewrite Hout, Hw; reflexivity).
  assert (Hlen : 0 < zlen (sendbuf s)).
  { pose proof (zlen_nonneg (sendbuf s)). pose proof (zlen_nil_iff (sendbuf s)).
    destruct (Z.eq_dec (zlen (sendbuf s)) 0); [tauto | lia]. }
  pose proof (send_ret_result (zlen (sendbuf s)) o (zlen_nonneg _)) as Hsr.
  apply event_cases in H; auto.
  destruct H as [[Hn|[_ Hn]] _ _ | _ _ Hn _ _ | _ _ _ Hf -> -> | sent _ _ _ Hs Hwh -> -> | _ _ _ Hle -> ->];
    try congruence; simpl; (split; [reflexivity|]); intros k Hk; rewrite Hk in Hsr; destruct Hsr as [Hfst Hrange].
  - exfalso. destruct Hf as [Hf|Hf]; [lia | rewrite Hf in Hfst; simpl in Hfst; lia].
  - destruct Hwh as [[_ Hb] | [H1 He]]; [rewrite Hb in Hfst; simpl in Hfst; lia |].
    rewrite Hfst in He. subst sent. split; auto. split; auto.
    split; [|lia]. unfold rd_cb. destruct (ev_read s n); simpl; [intros [A|[]]; discriminate | tauto].
  - assert (k = zlen (sendbuf s)) by lia. subst k.
    rewrite ztake_all, zdrop_all by lia. split; auto. split; auto. split; auto.
Qed.

Lemma writable_event_reachable_lemma pre n o :
  let s := fst (exec init pre) in
  let s' := fst (step s (Dispatch n o)) in
  let r := snd (step s (Dispatch n o)) in
  removed s = false -> backlog s <> [] -> nout n = true ->
  o_sends r = [(zlen (backlog s), fst (send_ret (zlen (backlog s)) o))] /\
  (forall k, send_result (zlen (backlog s)) o = RSent k ->
     o_tx r = ztake k (backlog s) /\ backlog s' = zdrop k (backlog s) /\
     (In OnWrite (o_cbs r) <-> k = zlen (backlog s))).
Proof.
  intros s s' r Hrm Hne Hn. pose proof (inv_exec init pre inv_init) as Hinv. fold s in Hinv.
  destruct (step s (Dispatch n o)) as [s1 r1] eqn:E. subst s' r. simpl.
  eapply writable_event_lemma; eauto.
Qed.

(* events that report the client writable and whose send takes at least one byte *)
Definition taking_outcome (o : outcome) : bool := match o with Sent _ | Full => true | _ => false end.
Definition pushy (x : op) : bool :=
  match x with
  | Dispatch n o => nout n && taking_outcome o
  | PollReal o => taking_outcome o
  | _ => false
  end.

Definition count_onWrite (outs : list out) : nat := count_occ cb_eq_dec (callbacks outs) OnWrite.

Lemma count_onWrite_cons r outs :
  count_onWrite (r :: outs) = (count_occ cb_eq_dec (o_cbs r) OnWrite + count_onWrite outs)%nat.
Proof. unfold count_onWrite, callbacks. simpl. apply count_occ_app. Qed.

Lemma pushy_dispatch s x : removed s = false -> pushy x = true ->
  exists n o, nout n = true /\ taking_outcome o = true /\ step s x = dispatch s n o.
Proof.
  intros Hrm Hp. destruct x; simpl in Hp; try discriminate.
  - apply andb_true_iff in Hp. destruct Hp. exists n, o. unfold step. rewrite Hrm. auto.
  - exists (real_native (inbound s) (peer_closed s)), o. unfold step. rewrite Hrm. auto.
Qed.

Lemma idle_stays l : forall s s' outs,
  inv s -> removed s = false -> sendbuf s = [] -> forallb pushy l = true -> exec s l = (s', outs) ->
  sendbuf s' = [] /\ count_onWrite outs = 0%nat.
Proof.
  induction l as [|x l IH]; intros s s' outs Hinv Hrm He Hp H.
  - inv_pair H. auto.
  - rewrite exec_cons in H. destruct (step s x) as [s1 r] eqn:Es. destruct (exec s1 l) as [s2 rs] eqn:Ee.
    inv_pair H. simpl in Hp. apply andb_true_iff in Hp. destruct Hp as [Hp1 Hp2].
    destruct (pushy_dispatch s x Hrm Hp1) as [n [o [Hn [Ho Hst]]]]. rewrite Hst in Es.
    pose proof Es as Es'. apply event_cases in Es'; auto.
    destruct Es' as [_ -> -> | _ _ _ -> -> | _ _ Hne _ _ _ | sent _ _ Hne _ _ _ _ | _ _ Hne _ _ _]; try congruence.
    + destruct (IH s s' rs Hinv Hrm He Hp2 Ee). split; auto.
    + destruct (IH s s' rs Hinv Hrm He Hp2 Ee). split; auto.
Qed.

Lemma drain_lemma l : forall s s' outs,
  inv s -> removed s = false -> sendbuf s <> [] -> forallb pushy l = true ->
  zlen (sendbuf s) <= Z.of_nat (length l) -> exec s l = (s', outs) ->
  sendbuf s' = [] /\ count_onWrite outs = 1%nat.
Proof.
  induction l as [|x l IH]; intros s s' outs Hinv Hrm Hne Hp Hlen H.
  - exfalso. simpl in Hlen. pose proof (zlen_nonneg (sendbuf s)). apply Hne. apply zlen_nil_iff. lia.
  - rewrite exec_cons in H. destruct (step s x) as [s1 r] eqn:Es. destruct (exec s1 l) as [s2 rs] eqn:Ee.
    inv_pair H. simpl in Hp. apply andb_true_iff in Hp. destruct Hp as [Hp1 Hp2].
    destruct (pushy_dispatch s x Hrm Hp1) as [n [o [Hn [Ho Hst]]]].
    pose proof (inv_step _ _ _ _ Hinv Es) as Hinv1. rewrite Hst in Es.
    destruct (backlog_registered s Hinv Hne) as [Hr Hw].
    assert (Hew : ev_write s n = true) by (unfold ev_write; rewrite Hn, Hw; reflexivity).
    assert (Hpos : 0 < zlen (sendbuf s)).
    { pose proof (zlen_nonneg (sendbuf s)). pose proof (zlen_nil_iff (sendbuf s)).
      destruct (Z.eq_dec (zlen (sendbuf s)) 0); [tauto | lia]. }
    assert (Hsr : 1 <= fst (send_ret (zlen (sendbuf s)) o) /\ snd (send_ret (zlen (sendbuf s)) o) = false).
    { destruct o; simpl in Ho; try discriminate; simpl; split; auto; try lia.
      pose proof (send_count_range (zlen (sendbuf s)) k). lia. }
    apply event_cases in Es; auto.
    destruct Es as [[Hx|[_ Hx]] _ _ | _ _ Hx _ _ | _ _ _ Hf _ _ | sent _ _ _ Hs Hwh -> -> | _ _ _ Hle -> ->]; try congruence.
    + exfalso. destruct Hf as [Hf|Hf]; [lia | rewrite Hf in Hsr; simpl in Hsr; lia].
    + destruct Hwh as [[_ Hb] | [H1 He]]; [rewrite Hb in Hsr; simpl in Hsr; lia |].
      assert (Hne1 : zdrop sent (sendbuf s) <> []) by (apply zdrop_nonnil; lia).
      assert (Hl1 : zlen (zdrop sent (sendbuf s)) <= Z.of_nat (length l)).
      { rewrite zlen_zdrop by lia. simpl length in Hlen. lia. }
      destruct (IH _ s' rs Hinv1 Hrm Hne1 Hp2 Hl1 Ee) as [A B]. split; auto.
      rewrite count_onWrite_cons, B. simpl. unfold rd_cb. destruct (ev_read s n); reflexivity.
    + destruct (idle_stays l _ s' rs Hinv1 Hrm eq_refl Hp2 Ee) as [A B]. split; auto.
      rewrite count_onWrite_cons, B. reflexivity.
Qed.

Lemma drain_from_reachable_lemma pre l :
  let s := fst (exec init pre) in
  removed s = false -> backlog s <> [] -> forallb pushy l = true ->
  zlen (backlog s) <= Z.of_nat (length l) ->
  backlog (fst (exec s l)) = [] /\ count_onWrite (snd (exec s l)) = 1%nat.
Proof.
  intros s Hrm Hne Hp Hlen. pose proof (inv_exec init pre inv_init) as Hinv. fold s in Hinv.
  destruct (exec s l) as [s' outs] eqn:E. simpl. eapply drain_lemma; eauto.
Qed.

(* ---- the unrepaired dispatch rule starves the backlog --------------------------------------- *)

Fixpoint iter_unrepaired (k : nat) (s : st) (n : native) (o : outcome) : st * list out :=
  match k with
  | O => (s, [])
  | S k' => let '(s1, r) := dispatch_unrepaired s n o in
            let '(s2, rs) := iter_unrepaired k' s1 n o in (s2, r :: rs)
  end.

Definition starved_state : st := fst (exec init [Write [1; 2; 3] (Sent 1); PeerWrite [9]]).
Definition both_ready : native := mknative true true false false false.

Lemma unrepaired_starves_lemma :
  reachable starved_state /\ backlog starved_state = [2; 3] /\
  (forall k, iter_unrepaired k starved_state both_ready Full = (starved_state, repeat (out_cb OnRead) k)) /\
  (* the repaired rule, same state, same kernel: drained by the first event *)
  backlog (fst (step starved_state (Dispatch both_ready Full))) = [] /\
  o_cbs (snd (step starved_state (Dispatch both_ready Full))) = [OnWrite].
Proof.
  split; [eexists; reflexivity|]. split; [reflexivity|]. split; [|split; reflexivity].
  induction k as [|k IH]; [reflexivity|].
  cbn [iter_unrepaired repeat].
  change (dispatch_unrepaired starved_state both_ready Full) with (starved_state, out_cb OnRead).
  cbv beta iota. rewrite IH. reflexivity.
Qed.
