(* Lemmas about the MODEL (ServerWriteModel.v): invariants of every reachable state and the
   accounting of bytes over every history, for every sequence of send outcomes and readiness
   reports (they are inputs of [step], so "forall history" quantifies over them). *)
From Coq Require Import ZArith List Bool Lia.
From ServerWrite Require Import ServerWriteSpec ServerWriteModel.
Import ListNotations.
Local Open Scope Z_scope.
Local Open Scope bool_scope.

Arguments ztake : simpl never.
Arguments zdrop : simpl never.
Arguments zlen : simpl never.
Arguments send_count : simpl never.
Arguments Z.eqb : simpl never.
Arguments Z.geb : simpl never.
Arguments Z.leb : simpl never.

(* ---- ghost quantities of a history ---------------------------------------------------------- *)

(* bytes handed to the operating system, in order *)
Definition os_bytes (outs : list out) : list Z := concat (map o_tx outs).

(* "accepted" = the data of a Client::write call that returned true *)
Definition accepted_of (x : op) (r : out) : list Z :=
  match x, o_ret r with
  | Write d _, Some true => d
  | _, _ => []
  end.

Fixpoint accepted (ops : list op) (outs : list out) : list Z :=
  match ops, outs with
  | x :: ops', r :: outs' => accepted_of x r ++ accepted ops' outs'
  | _, _ => []
  end.

(* bytes the peer has read *)
Definition peer_data (x : op) (r : out) : list Z :=
  match x with
  | PeerRead => o_data r
  | PeerClose => o_data r
  | _ => []
  end.

Fixpoint peer_got (ops : list op) (outs : list out) : list Z :=
  match ops, outs with
  | x :: ops', r :: outs' => peer_data x r ++ peer_got ops' outs'
  | _, _ => []
  end.

(* a send of backlog failed somewhere in the history: the server gave the connection up *)
Definition gave_up (outs : list out) : bool := existsb o_drop outs.

Definition backlog (s : st) : list Z := sendbuf s.

Definition reachable (s : st) : Prop := exists ops, fst (exec init ops) = s.

(* outcomes the property text quantifies over: would-block, any partial count, full *)
Definition benign_outcome (o : outcome) : bool :=
  match o with WouldBlock | Sent _ | Full => true | _ => false end.
Definition benign_op (x : op) : bool :=
  match x with
  | Write _ o | Dispatch _ o | PollReal o => benign_outcome o
  | Remove => false
  | _ => true
  end.

(* ---- small facts ------------------------------------------------------------------------------ *)

Lemma is_nil_true l : is_nil l = true -> l = [].
Proof. destruct l; simpl; congruence. Qed.

Lemma is_nil_false l : is_nil l = false -> l <> [].
Proof. destruct l; simpl; congruence. Qed.

Lemma is_nil_iff l : is_nil l = true <-> l = [].
Proof. split; [apply is_nil_true | intros ->; reflexivity]. Qed.

Lemma ztake_zdrop k l : ztake k l ++ zdrop k l = l.
Proof. unfold ztake, zdrop. apply firstn_skipn. Qed.

Lemma zlen_nonneg l : 0 <= zlen l.
Proof. unfold zlen. lia. Qed.

Lemma zlen_nil_iff l : zlen l = 0 <-> l = [].
Proof. unfold zlen. destruct l; simpl; split; intros; try congruence; lia. Qed.

Lemma ztake_all k l : zlen l <= k -> ztake k l = l.
Proof. unfold ztake, zlen. intros H. apply firstn_all2. lia. Qed.

Lemma zdrop_all k l : zlen l <= k -> zdrop k l = [].
Proof. unfold zdrop, zlen. intros H. apply skipn_all2. lia. Qed.

Lemma ztake_0 l : ztake 0 l = [].
Proof. reflexivity. Qed.

Lemma zdrop_0 l : zdrop 0 l = l.
Proof. reflexivity. Qed.

Lemma zlen_zdrop k l : 0 <= k -> zlen (zdrop k l) = Z.max 0 (zlen l - k).
Proof. unfold zlen, zdrop. intros. rewrite skipn_length. lia. Qed.

Lemma zdrop_nil_iff k l : 0 <= k -> (zdrop k l = [] <-> zlen l <= k).
Proof.
  intros Hk. rewrite <- zlen_nil_iff, zlen_zdrop by assumption.
  pose proof (zlen_nonneg l). lia.
Qed.

Lemma send_count_range n k : 0 < n -> 1 <= send_count n k <= n.
Proof. unfold send_count. lia. Qed.

Lemma send_count_le n k : send_count n k <= Z.max n 1.
Proof. unfold send_count. lia. Qed.

(* the model's raw (return value, errno) view and the spec's classification agree *)
Lemma send_ret_result n o :
  0 <= n ->
  match send_result n o with
  | RBlock => send_ret n o = (-1, true)
  | RFail => (fst (send_ret n o) = -1 /\ snd (send_ret n o) = false) \/ fst (send_ret n o) = 0
  | RSent r => fst (send_ret n o) = r /\ 1 <= r <= n
  end.
Proof.
  intros Hn. destruct o; simpl.
  - reflexivity.
  - destruct (send_count n k <=? 0) eqn:E.
    + right. unfold send_count in *. lia.
    + split; [reflexivity|]. unfold send_count in *. lia.
  - destruct (n <=? 0) eqn:E.
    + right. lia.
    + split; [reflexivity|]. lia.
  - right. reflexivity.
  - left. split; reflexivity.
Qed.

(* ---- invariant ---------------------------------------------------------------------------------- *)

Record inv (s : st) : Prop := mkinv {
  inv_interest : registered s = true ->
                 int_r s = negb (suspended s) /\ int_w s = negb (is_nil (sendbuf s));
  inv_removed : removed s = true -> sendbuf s = [] /\ registered s = false /\ closing s = false
}.

Lemma inv_init : inv init.
Proof. split; simpl; intros; [split; reflexivity | discriminate]. Qed.

Ltac inv_pair H := inversion H; subst; clear H.

Lemma send_ret_range n o :
  0 <= n -> fst (send_ret n o) = -1 \/ 0 <= fst (send_ret n o) <= n.
Proof.
  intros Hn. destruct o; simpl; try lia. unfold send_count. lia.
Qed.

Lemma if_poll_set (b : bool) s w :
  (if b then poll_set s false w else poll_set s true w) = poll_set s (negb b) w.
Proof. destruct b; reflexivity. Qed.

(* ---- what ClientImpl::write does, by cases ---------------------------------------------------- *)

Inductive write_case (s : st) (d : list Z) (o : outcome) (s' : st) (r : out) : Prop :=
| WC_append :                       (* backlog present: the data goes behind it, no send *)
    sendbuf s <> [] ->
    s' = set_buf s (sendbuf s ++ d) ->
    r = mkout (Some true) (zlen (sendbuf s ++ d)) [] [] [] [] false false ->
    write_case s d o s' r
| WC_fail :                         (* direct send failed (error, or returned 0) *)
    sendbuf s = [] ->
    (fst (send_ret (zlen d) o) = 0 \/ send_ret (zlen d) o = (-1, false)) ->
    s' = set_closing s true ->
    r = mkout (Some false) 0 [] [] [(zlen d, fst (send_ret (zlen d) o))] [] false false ->
    write_case s d o s' r
| WC_all :                          (* the OS took everything *)
    sendbuf s = [] ->
    s' = os_take s d ->
    r = mkout (Some true) 0 [] d [(zlen d, fst (send_ret (zlen d) o))] [] false false ->
    write_case s d o s' r
| WC_part (sent : Z) :              (* the OS took a proper prefix (possibly nothing: would-block) *)
    sendbuf s = [] ->
    0 <= sent < zlen d ->
    s' = poll_set (set_buf (os_take s (ztake sent d)) (zdrop sent d)) (negb (suspended s)) true ->
    r = mkout (Some true) (zlen (zdrop sent d)) [] (ztake sent d) [(zlen d, fst (send_ret (zlen d) o))] [] false false ->
    write_case s d o s' r.

Lemma do_write_cases s d o s' r : do_write s d o = (s', r) -> write_case s d o s' r.
Proof.
  unfold do_write.
  destruct (buf_isEmpty (sendbuf s)) eqn:E.
  - apply is_nil_true in E.
    pose proof (send_ret_range (zlen d) o (zlen_nonneg d)) as Hrange.
    destruct (send_ret (zlen d) o) as [sent0 e0] eqn:Es. simpl in Hrange.
    assert (Hgo : forall sent, 0 <= sent -> (sent = 0 \/ sent = sent0) ->
      (let tx := ztake sent d in
       let s1 := os_take s tx in
       if sent >=? zlen d then (s1, mkout (Some true) 0 [] tx [(zlen d, sent0)] [] false false)
       else let s2 := set_buf s1 (buf_append (sendbuf s1) (zdrop sent d)) in
            let s3 := if suspended s2 then poll_set s2 false true else poll_set s2 true true in
            (s3, mkout (Some true) (buf_size (sendbuf s3)) [] tx [(zlen d, sent0)] [] false false)) = (s', r) ->
      write_case s d o s' r).
    { intros sent Hs Hwhich. cbv zeta. destruct (sent >=? zlen d) eqn:E3; intros H.
      - inv_pair H. rewrite ztake_all by lia. apply WC_all; rewrite ?Es; auto.
      - rewrite if_poll_set in H. inv_pair H.
        apply (WC_part s d o _ _ sent); rewrite ?Es; auto; try lia.
        + simpl. rewrite E. reflexivity.
        + simpl. rewrite E. reflexivity. }
    destruct (sent0 =? -1) eqn:E1.
    + destruct e0.
      * apply Hgo; lia.
      * intros H. inv_pair H. apply WC_fail; rewrite ?Es; auto. right. f_equal. lia.
    + destruct (sent0 =? 0) eqn:E2.
      * intros H. inv_pair H. apply WC_fail; rewrite ?Es; auto. left. simpl. lia.
      * apply Hgo; lia.
  - apply is_nil_false in E. intros H. inv_pair H. apply WC_append; auto.
Qed.

(* ---- what the write-readiness branch of run() does, by cases ---------------------------------- *)

Inductive ready_case (s : st) (o : outcome) (s' : st) (r : out) : Prop :=
| RC_empty :                        (* no backlog (cannot happen in a reachable registered state) *)
    sendbuf s = [] ->
    s' = poll_set (set_buf s []) (negb (suspended s)) false ->
    r = mkout None 0 [OnWrite] [] [] [] false false ->
    ready_case s o s' r
| RC_block :                        (* the OS refuses: nothing changes *)
    sendbuf s <> [] ->
    send_ret (zlen (sendbuf s)) o = (-1, true) ->
    s' = s ->
    r = mkout None 0 [] [] [(zlen (sendbuf s), -1)] [] false false ->
    ready_case s o s' r
| RC_fail :                         (* the send fails: backlog discarded, socket unregistered, onClosed *)
    sendbuf s <> [] ->
    (fst (send_ret (zlen (sendbuf s)) o) = 0 \/ send_ret (zlen (sendbuf s)) o = (-1, false)) ->
    s' = poll_remove (set_buf s []) ->
    r = mkout None 0 [OnClosed] [] [(zlen (sendbuf s), fst (send_ret (zlen (sendbuf s)) o))] [] true false ->
    ready_case s o s' r
| RC_part (sent : Z) :              (* a proper prefix of the backlog goes out *)
    sendbuf s <> [] ->
    1 <= sent < zlen (sendbuf s) ->
    sent = fst (send_ret (zlen (sendbuf s)) o) ->
    s' = set_buf (os_take s (ztake sent (sendbuf s))) (zdrop sent (sendbuf s)) ->
    r = mkout None 0 [] (ztake sent (sendbuf s)) [(zlen (sendbuf s), sent)] [] false false ->
    ready_case s o s' r
| RC_all :                          (* the whole backlog goes out: drained *)
    sendbuf s <> [] ->
    s' = poll_set (set_buf (os_take s (sendbuf s)) []) (negb (suspended s)) false ->
    r = mkout None 0 [OnWrite] (sendbuf s) [(zlen (sendbuf s), fst (send_ret (zlen (sendbuf s)) o))] [] false false ->
    ready_case s o s' r.

Lemma write_ready_cases s o s' r : write_ready s o = (s', r) -> ready_case s o s' r.
Proof.
  unfold write_ready.
  destruct (buf_isEmpty (sendbuf s)) eqn:E; simpl.
  - apply is_nil_true in E. unfold drained. unfold buf_isEmpty. rewrite E. simpl.
    rewrite if_poll_set. intros H. inv_pair H. apply RC_empty; auto.
  - apply is_nil_false in E.
    pose proof (send_ret_range (zlen (sendbuf s)) o (zlen_nonneg _)) as Hrange.
    unfold buf_size.
    destruct (send_ret (zlen (sendbuf s)) o) as [sent e0] eqn:Es. simpl in Hrange.
    destruct (sent =? -1) eqn:E1.
    + assert (sent = -1) by lia. subst sent. destruct e0; intros H; inv_pair H.
      * apply RC_block; auto.
      * apply RC_fail; rewrite ?Es; auto.
    + destruct (sent =? 0) eqn:E2.
      * intros H. inv_pair H. apply RC_fail; rewrite ?Es; auto. left. simpl. lia.
      * unfold drained, buf_isEmpty, buf_removeFront, buf_free. simpl.
        destruct (is_nil (zdrop sent (sendbuf s))) eqn:E3.
        -- apply is_nil_true in E3. rewrite if_poll_set. simpl. intros H. inv_pair H.
           assert (zlen (sendbuf s) <= sent) by (apply zdrop_nil_iff; [lia | assumption]).
           rewrite ztake_all by lia. apply RC_all; rewrite ?Es; auto.
        -- apply is_nil_false in E3. intros H. inv_pair H.
           assert (~ zlen (sendbuf s) <= sent) by (intro; apply E3; apply zdrop_nil_iff; [lia | assumption]).
           apply (RC_part s o _ _ sent); rewrite ?Es; auto. lia.
Qed.

(* ---- the dispatch rule -------------------------------------------------------------------------- *)

Inductive dispatch_case (s : st) (n : native) (o : outcome) (s' : st) (r : out) : Prop :=
| DC_none : s' = s -> r = out_none -> dispatch_case s n o s' r
| DC_read : registered s = true -> int_r s = true -> (nin n || nhup n) = true ->
            s' = s -> r = out_cb OnRead -> dispatch_case s n o s' r
| DC_write : registered s = true -> int_w s = true ->
             ((nin n || nhup n) && int_r s) = false ->
             write_ready s o = (s', r) -> dispatch_case s n o s' r.

Lemma dispatch_cases s n o s' r : dispatch s n o = (s', r) -> dispatch_case s n o s' r.
Proof.
  unfold dispatch.
  destruct (registered s) eqn:Er; simpl.
  2:{ intros H. inv_pair H. apply DC_none; auto. }
  destruct (nin n && int_r s || nout n && int_w s || nhup n) eqn:Ek; simpl.
  2:{ intros H. inv_pair H. apply DC_none; auto. }
  destruct ((nin n && int_r s || nhup n) && int_r s) eqn:Efr.
  - assert (Hir : int_r s = true)
      by (destruct (int_r s); [reflexivity | rewrite andb_false_r in Efr; discriminate]).
    assert (Hn : (nin n || nhup n) = true)
      by (destruct (nin n), (nhup n), (int_r s); simpl in *; congruence).
    intros H. inv_pair H. apply DC_read; auto.
  - simpl. destruct ((nout n && int_w s || nhup n) && int_w s) eqn:Efw.
    + intros H. apply DC_write; auto.
      * destruct (int_w s); [reflexivity | rewrite andb_false_r in Efw; discriminate].
      * destruct (nin n), (nhup n), (int_r s); simpl in *; congruence.
    + intros H. inv_pair H. apply DC_none; auto.
Qed.
