(* Lemmas about the MODEL (ServerWriteModel.v): what every operation does, by cases; the invariant
   of every reachable state; the accounting of bytes over every history.  The operating system is
   an input of [step] (the outcome of every send, the readiness of every poll event), so "for all
   histories" quantifies over every behaviour of the kernel. *)
From Coq Require Import ZArith List Bool Lia.
From ServerWrite Require Import ServerWriteSpec ServerWriteModel.
Import ListNotations.
Local Open Scope Z_scope.
Local Open Scope bool_scope.

Arguments ztake : simpl never.
Arguments zdrop : simpl never.
Arguments zlen : simpl never.
Arguments send_count : simpl never.
Arguments Z.eqb : simpl never.
Arguments Z.geb : simpl never.
Arguments Z.leb : simpl never.

(* ---- ghost quantities of a history ---------------------------------------------------------- *)

(* bytes handed to the operating system, in order *)
Definition os_bytes (outs : list out) : list Z := concat (map o_tx outs).

(* "accepted" = the data of a Client::write call that returned true *)
Definition accepted_of (x : op) (r : out) : list Z :=
  match x, o_ret r with
  | Write d _, Some true => d
  | _, _ => []
  end.

Fixpoint accepted (ops : list op) (outs : list out) : list Z :=
  match ops, outs with
  | x :: ops', r :: outs' => accepted_of x r ++ accepted ops' outs'
  | _, _ => []
  end.

(* bytes the peer has read *)
Definition peer_data (x : op) (r : out) : list Z :=
  match x with
  | PeerRead => o_data r
  | PeerClose => o_data r
  | _ => []
  end.

Fixpoint peer_got (ops : list op) (outs : list out) : list Z :=
  match ops, outs with
  | x :: ops', r :: outs' => peer_data x r ++ peer_got ops' outs'
  | _, _ => []
  end.

(* a send of backlog failed somewhere in the history: the server gave the connection up *)
Definition gave_up (outs : list out) : bool := existsb o_drop outs.

Definition backlog (s : st) : list Z := sendbuf s.

Definition reachable (s : st) : Prop := exists ops, fst (exec init ops) = s.

(* all callbacks of a history, in order *)
Definition callbacks (outs : list out) : list cb := concat (map o_cbs outs).

Definition cb_eq_dec (a b : cb) : {a = b} + {a <> b}.
Proof. decide equality. Defined.

(* outcomes the property text quantifies over: would-block, any partial count, full *)
Definition benign_outcome (o : outcome) : bool :=
  match o with WouldBlock | Sent _ | Full => true | _ => false end.
Definition benign_op (x : op) : bool :=
  match x with
  | Write _ o | Dispatch _ o | PollReal o => benign_outcome o
  | Remove => false
  | _ => true
  end.

(* the suspended flag as the application's calls determine it *)
Fixpoint susp_of_ops (ops : list op) (cur : bool) : bool :=
  match ops with
  | [] => cur
  | Suspend :: l => susp_of_ops l true
  | Resume :: l => susp_of_ops l false
  | _ :: l => susp_of_ops l cur
  end.

(* ---- small facts ------------------------------------------------------------------------------ *)

Lemma is_nil_true l : is_nil l = true -> l = [].
Proof. destruct l; simpl; congruence. Qed.

Lemma is_nil_false l : is_nil l = false -> l <> [].
Proof. destruct l; simpl; congruence. Qed.

Lemma is_nil_iff l : is_nil l = true <-> l = [].
Proof. split; [apply is_nil_true | intros ->; reflexivity]. Qed.

Lemma is_nil_false_iff l : is_nil l = false <-> l <> [].
Proof. split; [apply is_nil_false | destruct l; simpl; congruence]. Qed.

Lemma ztake_zdrop k l : ztake k l ++ zdrop k l = l.
Proof. unfold ztake, zdrop. apply firstn_skipn. Qed.

Lemma zlen_nonneg l : 0 <= zlen l.
Proof. unfold zlen. lia. Qed.

Lemma zlen_app a b : zlen (a ++ b) = zlen a + zlen b.
Proof. unfold zlen. rewrite app_length. lia. Qed.

Lemma zlen_nil_iff l : zlen l = 0 <-> l = [].
Proof. unfold zlen. destruct l; simpl; split; intros; try congruence; lia. Qed.

Lemma ztake_all k l : zlen l <= k -> ztake k l = l.
Proof. unfold ztake, zlen. intros H. apply firstn_all2. lia. Qed.

Lemma zdrop_all k l : zlen l <= k -> zdrop k l = [].
Proof. unfold zdrop, zlen. intros H. apply skipn_all2. lia. Qed.

Lemma ztake_0 l : ztake 0 l = [].
Proof. reflexivity. Qed.

Lemma zdrop_0 l : zdrop 0 l = l.
Proof. reflexivity. Qed.

Lemma zlen_zdrop k l : 0 <= k -> zlen (zdrop k l) = Z.max 0 (zlen l - k).
Proof. unfold zlen, zdrop. intros. rewrite skipn_length. lia. Qed.

Lemma zlen_ztake k l : 0 <= k -> zlen (ztake k l) = Z.min k (zlen l).
Proof. unfold zlen, ztake. intros. rewrite firstn_length. lia. Qed.

Lemma zdrop_nil_iff k l : 0 <= k -> (zdrop k l = [] <-> zlen l <= k).
Proof.
  intros Hk. rewrite <- zlen_nil_iff, zlen_zdrop by assumption.
  pose proof (zlen_nonneg l). lia.
Qed.

Lemma send_count_range n k : 0 < n -> 1 <= send_count n k <= n.
Proof. unfold send_count. lia. Qed.

Lemma send_ret_range n o :
  0 <= n -> fst (send_ret n o) = -1 \/ 0 <= fst (send_ret n o) <= n.
Proof.
  intros Hn. destruct o; simpl; try lia. unfold send_count. lia.
Qed.

(* the model's raw (return value, errno) view and the spec's classification agree *)
Lemma send_ret_result n o :
  0 <= n ->
  match send_result n o with
  | RBlock => send_ret n o = (-1, true)
  | RFail => (fst (send_ret n o) = -1 /\ snd (send_ret n o) = false) \/ fst (send_ret n o) = 0
  | RSent r => fst (send_ret n o) = r /\ 1 <= r <= n
  end.
Proof.
  intros Hn. destruct o; simpl.
  - reflexivity.
  - destruct (send_count n k <=? 0) eqn:E.
    + right. unfold send_count in *. lia.
    + split; [reflexivity|]. unfold send_count in *. lia.
  - destruct (n <=? 0) eqn:E.
    + right. lia.
    + split; [reflexivity|]. lia.
  - right. reflexivity.
  - left. split; reflexivity.
Qed.

Lemma if_poll_set (b : bool) s w :
  (if b then poll_set s false w else poll_set s true w) = poll_set s (negb b) w.
Proof. destruct b; reflexivity. Qed.

Ltac inv_pair H := inversion H; subst; clear H.

(* ---- what ClientImpl::write does, by cases ---------------------------------------------------- *)

Inductive write_case (s : st) (d : list Z) (o : outcome) (s' : st) (r : out) : Prop :=
| WC_append :                       (* backlog present: the data goes behind it, no send *)
    sendbuf s <> [] ->
    s' = set_buf s (sendbuf s ++ d) ->
    r = mkout (Some true) (zlen (sendbuf s ++ d)) [] [] [] [] false false ->
    write_case s d o s' r
| WC_fail :                         (* direct send failed (error, or returned 0) *)
    sendbuf s = [] ->
    (fst (send_ret (zlen d) o) = 0 \/ send_ret (zlen d) o = (-1, false)) ->
    s' = set_closing s true ->
    r = mkout (Some false) 0 [] [] [(zlen d, fst (send_ret (zlen d) o))] [] false false ->
    write_case s d o s' r
| WC_all :                          (* the OS took everything *)
    sendbuf s = [] ->
    (d = [] /\ send_ret (zlen d) o = (-1, true) \/
     1 <= fst (send_ret (zlen d) o) /\ zlen d <= fst (send_ret (zlen d) o)) ->
    s' = os_take s d ->
    r = mkout (Some true) 0 [] d [(zlen d, fst (send_ret (zlen d) o))] [] false false ->
    write_case s d o s' r
| WC_part (sent : Z) :              (* the OS took a proper prefix (possibly nothing: would-block) *)
    sendbuf s = [] ->
    0 <= sent < zlen d ->
    (sent = 0 /\ send_ret (zlen d) o = (-1, true) \/
     1 <= sent /\ sent = fst (send_ret (zlen d) o)) ->
    s' = poll_set (set_buf (os_take s (ztake sent d)) (zdrop sent d)) (negb (suspended s)) true ->
    r = mkout (Some true) (zlen (zdrop sent d)) [] (ztake sent d) [(zlen d, fst (send_ret (zlen d) o))] [] false false ->
    write_case s d o s' r.

Lemma do_write_cases s d o s' r : do_write s d o = (s', r) -> write_case s d o s' r.
Proof.
  unfold do_write.
  destruct (buf_isEmpty (sendbuf s)) eqn:E.
  - apply is_nil_true in E.
    pose proof (send_ret_range (zlen d) o (zlen_nonneg d)) as Hrange.
    destruct (send_ret (zlen d) o) as [sent0 e0] eqn:Es. simpl in Hrange.
    assert (Hgo : forall sent, 0 <= sent ->
      (sent = 0 /\ (sent0, e0) = (-1, true) \/ 1 <= sent /\ sent = sent0) ->
      (let tx := ztake sent d in
       let s1 := os_take s tx in
       if sent >=? zlen d then (s1, mkout (Some true) 0 [] tx [(zlen d, sent0)] [] false false)
       else let s2 := set_buf s1 (buf_append (sendbuf s1) (zdrop sent d)) in
            let s3 := if suspended s2 then poll_set s2 false true else poll_set s2 true true in
            (s3, mkout (Some true) (buf_size (sendbuf s3)) [] tx [(zlen d, sent0)] [] false false)) = (s', r) ->
      write_case s d o s' r).
    { intros sent Hs Hwhich. cbv zeta. destruct (sent >=? zlen d) eqn:E3; intros H.
      - inv_pair H. rewrite ztake_all by lia. apply WC_all; rewrite ?Es; auto.
        destruct Hwhich as [[H0 Hb] | [H1 Heq]]; [left | right; simpl; lia].
        split; auto. apply zlen_nil_iff. pose proof (zlen_nonneg d). lia.
      - rewrite if_poll_set in H. inv_pair H.
        apply (WC_part s d o _ _ sent); rewrite ?Es; auto; try lia.
        + simpl. rewrite E. reflexivity.
        + simpl. rewrite E. reflexivity. }
    destruct (sent0 =? -1) eqn:E1.
    + assert (sent0 = -1) by lia. subst sent0. destruct e0.
      * apply Hgo; [lia | left; auto].
      * intros H. inv_pair H. apply WC_fail; rewrite ?Es; auto.
    + destruct (sent0 =? 0) eqn:E2.
      * intros H. inv_pair H. apply WC_fail; rewrite ?Es; auto. left. simpl. lia.
      * apply Hgo; [lia | right; lia].
  - apply is_nil_false in E. intros H. inv_pair H. apply WC_append; auto.
Qed.

(* ---- what the write-readiness part of the dispatch does, by cases ----------------------------- *)

Inductive ready_case (s : st) (o : outcome) (s' : st) (r : out) (fin : bool) : Prop :=
| RC_empty :                        (* no backlog (cannot happen in a reachable state: no write interest) *)
    sendbuf s = [] ->
    s' = poll_set (set_buf s []) (negb (suspended s)) false ->
    r = mkout None 0 [OnWrite] [] [] [] false false ->
    fin = true ->
    ready_case s o s' r fin
| RC_fail :                         (* the send fails: backlog discarded, socket unregistered, onClosed *)
    sendbuf s <> [] ->
    (fst (send_ret (zlen (sendbuf s)) o) = 0 \/ send_ret (zlen (sendbuf s)) o = (-1, false)) ->
    s' = poll_remove (set_buf s []) ->
    r = mkout None 0 [OnClosed] [] [(zlen (sendbuf s), fst (send_ret (zlen (sendbuf s)) o))] [] true false ->
    fin = true ->
    ready_case s o s' r fin
| RC_part (sent : Z) :              (* a proper prefix of the backlog goes out (nothing: would-block) *)
    sendbuf s <> [] ->
    0 <= sent < zlen (sendbuf s) ->
    (sent = 0 /\ send_ret (zlen (sendbuf s)) o = (-1, true) \/
     1 <= sent /\ sent = fst (send_ret (zlen (sendbuf s)) o)) ->
    s' = set_buf (os_take s (ztake sent (sendbuf s))) (zdrop sent (sendbuf s)) ->
    r = mkout None 0 [] (ztake sent (sendbuf s)) [(zlen (sendbuf s), fst (send_ret (zlen (sendbuf s)) o))] [] false false ->
    fin = false ->
    ready_case s o s' r fin
| RC_all :                          (* the whole backlog goes out: drained *)
    sendbuf s <> [] ->
    zlen (sendbuf s) <= fst (send_ret (zlen (sendbuf s)) o) ->
    s' = poll_set (set_buf (os_take s (sendbuf s)) []) (negb (suspended s)) false ->
    r = mkout None 0 [OnWrite] (sendbuf s) [(zlen (sendbuf s), fst (send_ret (zlen (sendbuf s)) o))] [] false false ->
    fin = true ->
    ready_case s o s' r fin.

Lemma write_ready_cases s o s' r fin : write_ready s o = (s', r, fin) -> ready_case s o s' r fin.
Proof.
  unfold write_ready.
  destruct (buf_isEmpty (sendbuf s)) eqn:E; simpl.
  - apply is_nil_true in E. unfold drained. unfold buf_isEmpty. rewrite E. simpl.
    rewrite if_poll_set. intros H. inv_pair H. apply RC_empty; auto.
  - apply is_nil_false in E.
    pose proof (send_ret_range (zlen (sendbuf s)) o (zlen_nonneg _)) as Hrange.
    unfold buf_size.
    destruct (send_ret (zlen (sendbuf s)) o) as [sent0 e0] eqn:Es. simpl in Hrange.
    assert (Hlen : 0 < zlen (sendbuf s)).
    { pose proof (zlen_nonneg (sendbuf s)). pose proof (zlen_nil_iff (sendbuf s)).
      destruct (Z.eq_dec (zlen (sendbuf s)) 0); [tauto | lia]. }
    assert (Hgo : forall sent, 0 <= sent ->
      (sent = 0 /\ (sent0, e0) = (-1, true) \/ 1 <= sent /\ sent = sent0) ->
      drained (set_buf (os_take s (ztake sent (sendbuf s)))
                       (buf_removeFront (sendbuf (os_take s (ztake sent (sendbuf s)))) sent))
              (ztake sent (sendbuf s)) [(zlen (sendbuf s), sent0)] = (s', r, fin) ->
      ready_case s o s' r fin).
    { intros sent Hs Hwhich. unfold drained, buf_isEmpty, buf_removeFront, buf_free. simpl.
      destruct (is_nil (zdrop sent (sendbuf s))) eqn:E3.
      - apply is_nil_true in E3. rewrite if_poll_set. simpl. intros H. inv_pair H.
        assert (Hle : zlen (sendbuf s) <= sent) by (apply zdrop_nil_iff; [lia | assumption]).
        destruct Hwhich as [[H0 _] | [H1 Heq]]; [lia |].
        rewrite ztake_all by lia. subst sent. apply RC_all; rewrite ?Es; auto.
      - apply is_nil_false in E3. intros H. inv_pair H.
        assert (~ zlen (sendbuf s) <= sent) by (intro; apply E3; apply zdrop_nil_iff; [lia | assumption]).
        apply (RC_part s o _ _ _ sent); rewrite ?Es; auto; try lia. }
    destruct (sent0 =? -1) eqn:E1.
    + assert (sent0 = -1) by lia. subst sent0. destruct e0.
      * apply Hgo; [lia | left; auto].
      * intros H; inv_pair H. apply RC_fail; rewrite ?Es; auto.
    + destruct (sent0 =? 0) eqn:E2.
      * intros H. inv_pair H. apply RC_fail; rewrite ?Es; auto. left. simpl. lia.
      * apply Hgo; [lia | right; lia].
Qed.

(* ---- the dispatch rule -------------------------------------------------------------------------- *)

(* the flags of the event the loop sees *)
Definition ev_read (s : st) (n : native) : bool := (nin n || nhup n || nrdhup n) && int_r s.
Definition ev_write (s : st) (n : native) : bool := (nout n || negb (ev_read s n) && (nhup n || nrdhup n)) && int_w s.

Lemma dispatch_flags_eq s n o :
  registered s = true ->
  dispatch s n o = dispatch_flags s (ev_read s n) (ev_write s n) o.
Proof.
  intros Hr. unfold dispatch, ev_write, ev_read, unmap_events, kernel_filter, reported. rewrite Hr. simpl.
  destruct (nin n), (nout n), (nhup n), (nrdhup n), (nerr n), (int_r s), (int_w s); reflexivity.
Qed.

Inductive dispatch_case (s : st) (n : native) (o : outcome) (s' : st) (r : out) : Prop :=
| DC_none : (registered s = false \/ (ev_read s n = false /\ ev_write s n = false)) ->
            s' = s -> r = out_none -> dispatch_case s n o s' r
| DC_read : registered s = true -> ev_read s n = true -> ev_write s n = false ->
            s' = s -> r = out_cb OnRead -> dispatch_case s n o s' r
| DC_write (r0 : out) (fin : bool) :
            registered s = true -> ev_write s n = true ->
            write_ready s o = (s', r0, fin) ->
            r = (if fin then r0 else if ev_read s n then add_cb r0 OnRead else r0) ->
            dispatch_case s n o s' r.

Lemma dispatch_cases s n o s' r : dispatch s n o = (s', r) -> dispatch_case s n o s' r.
Proof.
  destruct (registered s) eqn:Er.
  2:{ unfold dispatch. rewrite Er. simpl. intros H. inv_pair H. apply DC_none; auto. }
  rewrite dispatch_flags_eq by assumption. unfold dispatch_flags.
  destruct (ev_write s n) eqn:Ew.
  - destruct (write_ready s o) as [[s1 r1] fin] eqn:Ewr.
    intros H. apply (DC_write s n o s' r r1 fin); auto.
    + destruct fin; [inv_pair H; auto |]. destruct (ev_read s n); inv_pair H; auto.
    + destruct fin; [inv_pair H; auto |]. destruct (ev_read s n); inv_pair H; auto.
  - destruct (ev_read s n) eqn:Erd; intros H; inv_pair H.
    + apply DC_read; auto.
    + apply DC_none; auto.
Qed.

(* ---- invariant ---------------------------------------------------------------------------------- *)

Record inv (s : st) : Prop := mkinv {
  inv_interest : registered s = true ->
                 int_r s = negb (suspended s) /\ int_w s = negb (is_nil (sendbuf s));
  inv_unreg : registered s = false -> sendbuf s = [];
  inv_removed : removed s = true -> sendbuf s = [] /\ registered s = false /\ closing s = false
}.

Lemma inv_init : inv init.
Proof. split; simpl; intros; try discriminate; split; reflexivity. Qed.

Lemma nonnil_is_nil (l : list Z) : l <> [] -> is_nil l = false.
Proof. destruct l; simpl; congruence. Qed.

Lemma zdrop_nonnil k l : 0 <= k < zlen l -> zdrop k l <> [].
Proof. intros H E. apply zdrop_nil_iff in E; lia. Qed.

Lemma inv_write_ready s o s' r fin : inv s -> removed s = false -> write_ready s o = (s', r, fin) -> inv s' /\ removed s' = false.
Proof.
  intros [Hi Hu Hr] Hrm H. apply write_ready_cases in H.
  destruct H as [He -> _ _ | Hne _ -> _ _ | sent Hne Hs _ -> _ _ | Hne _ -> _ _].
  - split; [split|]; simpl; intros; auto; try congruence.
  - split; [split|]; simpl; intros; auto; try congruence.
  - split; [split|]; simpl; intros; auto; try congruence.
    + destruct (Hi H) as [A B]. split; auto. rewrite nonnil_is_nil by (apply zdrop_nonnil; lia).
      rewrite B. rewrite nonnil_is_nil; auto.
    + rewrite Hu in Hne; auto. congruence.
  - split; [split|]; simpl; intros; auto; try congruence.
Qed.

Lemma inv_step s x s' r : inv s -> step s x = (s', r) -> inv s'.
Proof.
  intros Hinv. pose proof Hinv as [Hi Hu Hr]. unfold step.
  destruct (removed s) eqn:Erm. { intros H; inv_pair H; assumption. }
  destruct x.
  - (* Write *) intros H. apply do_write_cases in H.
    destruct H as [Hne -> _ | He _ -> _ | He _ -> _ | sent He Hs _ -> _]; split; simpl; intros; auto; try congruence.
    + destruct (Hi H) as [A B]. split; auto. rewrite B.
      rewrite !nonnil_is_nil; auto. intro E. apply app_eq_nil in E. tauto.
    + rewrite Hu in Hne; auto. congruence.
    + split; auto. rewrite nonnil_is_nil; auto. apply zdrop_nonnil; lia.
  - (* Dispatch *) intros H. apply dispatch_cases in H.
    destruct H as [_ -> _ | _ _ _ -> _ | r0 fin _ _ Hw _]; auto.
    eapply inv_write_ready; eauto.
  - (* PollReal *) intros H. apply dispatch_cases in H.
    destruct H as [_ -> _ | _ _ _ -> _ | r0 fin _ _ Hw _]; auto.
    eapply inv_write_ready; eauto.
  - (* CloseSweep *) destruct (closing s); intros H; inv_pair H; auto.
    split; simpl; auto. intros; congruence.
  - (* Suspend *) intros H. inv_pair H. unfold do_suspend.
    destruct (suspended s) eqn:Es; auto.
    destruct (buf_isEmpty (sendbuf (set_susp s true))) eqn:E; simpl in E; unfold buf_isEmpty in E;
      split; simpl; intros; try congruence; rewrite ?E; simpl; auto.
  - (* Resume *) intros H. inv_pair H. unfold do_resume.
    destruct (suspended s) eqn:Es; cbn [negb]; auto.
    destruct (buf_isEmpty (sendbuf (set_susp s false))) eqn:E; simpl in E; unfold buf_isEmpty in E;
      split; simpl; intros; try congruence; rewrite ?E; simpl; auto.
  - (* Read *) unfold do_read. destruct (recv_count (inbound s) (peer_closed s) max) as [k|].
    + destruct (k =? 0); intros H; inv_pair H; split; simpl; auto; intros; congruence.
    + intros H; inv_pair H; auto.
  - (* PeerWrite *) intros H; inv_pair H. destruct (peer_closed s); auto. split; simpl; auto; intros; congruence.
  - (* PeerRead *) destruct (peer_closed s); intros H; inv_pair H; auto. split; simpl; auto; intros; congruence.
  - (* PeerClose *) destruct (peer_closed s); intros H; inv_pair H; auto. split; simpl; auto; intros; congruence.
  - (* Remove *) intros H; inv_pair H. split; simpl; intros; auto; try discriminate.
Qed.

Lemma exec_app s l1 l2 :
  exec s (l1 ++ l2) =
  let '(s1, o1) := exec s l1 in let '(s2, o2) := exec s1 l2 in (s2, o1 ++ o2).
Proof.
  revert s. induction l1 as [|x l1 IH]; intros s; simpl.
  - destruct (exec s l2); reflexivity.
  - destruct (step s x) as [s1 r]. rewrite IH.
    destruct (exec s1 l1) as [s2 o1]. destruct (exec s2 l2). reflexivity.
Qed.

Lemma inv_exec s l : inv s -> inv (fst (exec s l)).
Proof.
  revert s. induction l as [|x l IH]; intros s Hs; simpl; auto.
  destruct (step s x) as [s1 r] eqn:E. specialize (IH s1 (inv_step _ _ _ _ Hs E)).
  destruct (exec s1 l). exact IH.
Qed.

Lemma inv_reachable s : reachable s -> inv s.
Proof. intros [ops <-]. apply inv_exec, inv_init. Qed.

Lemma exec_length s l : length (snd (exec s l)) = length l.
Proof.
  revert s. induction l as [|x l IH]; intros s; simpl; auto.
  destruct (step s x) as [s1 r]. specialize (IH s1). destruct (exec s1 l). simpl in *. congruence.
Qed.
