(* Representation predicates of the cell machine and the effect of the pointer surgery on them:
   doubly linked segment (prev / next / object of the live items), free list (threaded through
   prev), hash chain (nextCell and the back pointer cell). *)
From Coq Require Import ZArith List Bool Arith Lia.
From Stable Require Import Gen_Stable StableSpec StableModel StableTree StableInv StableProofs StableHeap StableHeapBase.
Import ListNotations.

Definition obj_of (n : node) : obj := mkObj (n_id n) (n_key n) (n_val n).

(* the items of [l], in this order, form a doubly linked segment entered at [first] (whose prev is
   [pv]) and left at [last] (whose next is [nx]); each cell holds the object of its node *)
Fixpoint dll (H : heap) (first pv : ptr) (l : list node) (last nx : ptr) : Prop :=
  match l with
  | [] => first = nx /\ last = pv
  | n :: r => first = PItem (n_slot n) /\ c_prev (hget H (n_slot n)) = pv /\ c_obj (hget H (n_slot n)) = Some (obj_of n)
              /\ dll H (c_next (hget H (n_slot n))) (PItem (n_slot n)) r last nx
  end.

(* the free list: item addresses chained through prev, no object in them *)
Fixpoint fl (H : heap) (p : ptr) (f : list slot) : Prop :=
  match f with
  | [] => p = PNull
  | s :: r => p = PItem s /\ c_obj (hget H s) = None /\ fl H (c_prev (hget H s)) r
  end.

(* a hash chain hanging from the Item* variable at [cr] *)
Fixpoint chain (H : heap) (cr : slot) (ch : list slot) : Prop :=
  match ch with
  | [] => c_nextcell (hget H cr) = PNull
  | s :: r => c_nextcell (hget H cr) = PItem s /\ c_cell (hget H s) = cr /\ chain H s r
  end.

Definition agree_dll (H H' : heap) (s : slot) : Prop :=
  c_obj (hget H' s) = c_obj (hget H s) /\ c_prev (hget H' s) = c_prev (hget H s) /\ c_next (hget H' s) = c_next (hget H s).

Lemma agree_dll_eq H H' s : hget H' s = hget H s -> agree_dll H H' s.
Proof. intros E. unfold agree_dll. rewrite E. auto. Qed.

Lemma dll_ext H H' l : forall f pv la nx,
  (forall n, In n l -> agree_dll H H' (n_slot n)) -> dll H f pv l la nx -> dll H' f pv l la nx.
Proof.
  induction l as [|n r IH]; intros f pv la nx Ha D; cbn [dll] in *; auto.
  destruct D as (D1 & D2 & D3 & D4). destruct (Ha n (or_introl eq_refl)) as (A1 & A2 & A3).
  rewrite A1, A2, A3. repeat split; auto. apply IH; auto. intros m Hm. apply Ha. right. exact Hm.
Qed.

Lemma dll_app H l1 : forall l2 f pv la nx,
  dll H f pv (l1 ++ l2) la nx <-> exists m mp, dll H f pv l1 mp m /\ dll H m mp l2 la nx.
Proof.
  induction l1 as [|n r IH]; intros l2 f pv la nx; cbn [app dll].
  - split.
    + intros D. exists f, pv. auto.
    + intros (m & mp & (-> & ->) & D). exact D.
  - split.
    + intros (D1 & D2 & D3 & D4). apply IH in D4. destruct D4 as (m & mp & E1 & E2). exists m, mp. auto.
    + intros (m & mp & (D1 & D2 & D3 & D4) & E2). repeat split; auto. apply IH. exists m, mp. auto.
Qed.

(* the entry pointer of a segment that ends at a sentinel is an item or that sentinel *)
Lemma dll_first H f pv l la nx : dll H f pv l la nx -> f = match l with [] => nx | n :: _ => PItem (n_slot n) end.
Proof. destruct l; cbn [dll]; tauto. Qed.

Lemma dll_last H l : forall f pv la nx, dll H f pv l la nx -> la = match rev l with [] => pv | n :: _ => PItem (n_slot n) end.
Proof.
  induction l as [|n r IH]; intros f pv la nx D; cbn [dll] in D.
  - cbn. tauto.
  - destruct D as (_ & _ & _ & D4). apply IH in D4. cbn [rev]. destruct (rev r) as [|x y] eqn:E; cbn [app]; auto.
Qed.

Lemma dll_prev_first H f pv l la nx side : dll H f pv l la (PEnd side) -> nx = PEnd side -> forall h, hd_last h = la -> rd_prev H h f = pv.
Proof.
  intros D -> h Hl. destruct l as [|n r]; cbn [dll] in D.
  - destruct D as (-> & ->). cbn. exact Hl.
  - destruct D as (-> & D2 & _). cbn. exact D2.
Qed.

Lemma fl_ext H H' f : forall p,
  (forall s, In s f -> c_obj (hget H' s) = c_obj (hget H s) /\ c_prev (hget H' s) = c_prev (hget H s)) -> fl H p f -> fl H' p f.
Proof.
  induction f as [|s r IH]; intros p Ha F; cbn [fl] in *; auto.
  destruct F as (F1 & F2 & F3). destruct (Ha s (or_introl eq_refl)) as (A1 & A2). rewrite A1, A2. repeat split; auto.
  apply IH; auto. intros x Hx. apply Ha. right. exact Hx.
Qed.

Lemma chain_ext H H' ch : forall cr,
  (forall s, In s (cr :: ch) -> c_nextcell (hget H' s) = c_nextcell (hget H s)) ->
  (forall s, In s ch -> c_cell (hget H' s) = c_cell (hget H s)) -> chain H cr ch -> chain H' cr ch.
Proof.
  induction ch as [|s r IH]; intros cr Hn Hc C; cbn [chain] in *.
  - rewrite Hn by (left; reflexivity). exact C.
  - destruct C as (C1 & C2 & C3). rewrite Hn by (left; reflexivity). rewrite Hc by (left; reflexivity). repeat split; auto.
    apply IH; auto.
    + intros x Hx. apply Hn. right. exact Hx.
    + intros x Hx. apply Hc. right. exact Hx.
Qed.

(* ---- walks ------------------------------------------------------------------------------------------ *)
Lemma walk_dll H l : forall f pv la side fuel,
  dll H f pv l la (PEnd side) -> (length l <= fuel)%nat -> walk H fuel f = slots l.
Proof.
  induction l as [|n r IH]; intros f pv la side fuel D Hf; cbn [dll] in D.
  - destruct D as (-> & _). destruct fuel; reflexivity.
  - destruct D as (-> & _ & _ & D4). destruct fuel as [|fuel]; cbn [length] in Hf; [lia|].
    cbn [walk slots map]. f_equal. eapply IH; eauto. lia.
Qed.

Lemma node_at_dll H l : forall f pv la nx, dll H f pv l la nx -> map (node_at H) (slots l) = l.
Proof.
  induction l as [|n r IH]; intros f pv la nx D; cbn [dll] in D; [reflexivity|].
  destruct D as (_ & _ & D3 & D4). cbn [slots map]. f_equal; [|eapply IH; eauto].
  unfold node_at. rewrite D3. destruct n; reflexivity.
Qed.

Lemma iter_at_dll H side l : forall pos f pv la,
  dll H f pv l la (PEnd side) ->
  exists mp, dll H f pv (firstn pos l) mp (iter_at H pos f) /\ dll H (iter_at H pos f) mp (skipn pos l) la (PEnd side).
Proof.
  induction l as [|n r IH]; intros pos f pv la D.
  - cbn [dll] in D. destruct D as (-> & ->). rewrite firstn_nil, skipn_nil. exists pv.
    assert (E : iter_at H pos (PEnd side) = PEnd side) by (destruct pos; reflexivity). rewrite E. cbn [dll]. auto.
  - destruct pos as [|pos].
    + cbn [firstn skipn iter_at]. exists pv. cbn [dll]. auto.
    + cbn [dll] in D. destruct D as (-> & D2 & D3 & D4). cbn [firstn skipn iter_at].
      destruct (IH pos _ _ _ D4) as (mp & E1 & E2). exists mp. cbn [dll]. auto.
Qed.

Lemma insert_at_firstn {A} pos (x : A) l : insert_at pos x l = firstn pos l ++ x :: skipn pos l.
Proof.
  revert pos. induction l as [|y r IH]; intros [|p]; cbn [insert_at firstn skipn app]; auto. rewrite IH. reflexivity.
Qed.

(* ---- linking an item in front of a position ------------------------------------------------------- *)
Definition hdr_rest_eq (h h' : hdr) : Prop :=
  hd_free h' = hd_free h /\ hd_blocks h' = hd_blocks h /\ hd_cap h' = hd_cap h /\ hd_data h' = hd_data h.

(* what a list operation leaves alone: every cell outside the given slots, and the object, cell and
   nextCell fields everywhere *)
Definition list_frame (H H' : heap) (touched : list slot) : Prop :=
  (forall x, ~ In x touched -> hget H' x = hget H x) /\
  (forall x, c_obj (hget H' x) = c_obj (hget H x) /\ c_cell (hget H' x) = c_cell (hget H x) /\ c_nextcell (hget H' x) = c_nextcell (hget H x)).

Lemma NoDup_slots_app_inv l1 l2 s :
  NoDup (s :: slots (l1 ++ l2)) ->
  NoDup (slots l1) /\ NoDup (slots l2) /\ ~ In s (slots l1) /\ ~ In s (slots l2) /\
  (forall x, In x (slots l1) -> ~ In x (slots l2)).
Proof.
  unfold slots. rewrite map_app. intros Hnd. inversion Hnd as [|? ? Hs Hr]; subst.
  rewrite in_app_iff in Hs.
  assert (H1 : NoDup (map n_slot l1) /\ NoDup (map n_slot l2)).
  { rewrite !(NoDup_count_occ sdec) in *. split; intro x; specialize (Hr x); rewrite count_occ_app in Hr; lia. }
  destruct H1 as [Ha Hb]. repeat split; auto.
  intros x Hx1 Hx2. rewrite (NoDup_count_occ sdec) in Hr. specialize (Hr x). rewrite count_occ_app in Hr.
  apply (count_occ_In sdec) in Hx1. apply (count_occ_In sdec) in Hx2. lia.
Qed.

Lemma last_split {A} (l : list A) : l = [] \/ exists l0 x, l = l0 ++ [x].
Proof.
  destruct l as [|a r]; [left; reflexivity|right].
  destruct (exists_last (l := a :: r)) as (l0 & x & E); [discriminate|]. exists l0, x. exact E.
Qed.

Definition pslot (p : ptr) (x : slot) : Prop := p = PItem x.

(* the writes of link_before, as facts about the resulting heap and header *)
Lemma link_before_writes H h s m H' h' :
  link_before H h s m = (H', h') ->
  let pv := rd_prev H h m in
  (forall x, x <> s -> ~ pslot pv x -> ~ pslot m x -> hget H' x = hget H x) /\
  (forall x, c_obj (hget H' x) = c_obj (hget H x) /\ c_cell (hget H' x) = c_cell (hget H x) /\ c_nextcell (hget H' x) = c_nextcell (hget H x)) /\
  (~ pslot pv s -> ~ pslot m s -> c_prev (hget H' s) = pv /\ c_next (hget H' s) = m) /\
  (forall s1, pv = PItem s1 -> s1 <> s -> ~ pslot m s1 -> c_next (hget H' s1) = PItem s /\ c_prev (hget H' s1) = c_prev (hget H s1)) /\
  (forall s2, m = PItem s2 -> s2 <> s -> ~ pslot pv s2 -> c_prev (hget H' s2) = PItem s /\ c_next (hget H' s2) = c_next (hget H s2)) /\
  hd_begin h' = (match pv with PNull => PItem s | _ => hd_begin h end) /\
  hd_last h' = (match m with PEnd _ => PItem s | _ => hd_last h end) /\
  hd_size h' = S (hd_size h) /\ hdr_rest_eq h h'.
Proof.
  unfold link_before, pslot. intros E. cbv zeta.
  destruct (rd_prev H h m) as [|sd|s1] eqn:Epv; destruct m as [|sd2|s2]; cbn [wr_next wr_prev] in E; injection E as <- <-;
    cbn [hd_begin hd_last hd_size hd_free hd_blocks hd_cap hd_data set_begin set_last set_size hdr_rest_eq];
    (split; [intros x N1 N2 N3; repeat rewrite ?hget_set_prev_other, ?hget_set_next_other by congruence; reflexivity|]);
    (split; [intros x; hrw; auto|]);
    (split; [intros N2 N3; hrw; auto|]);
    (split; [intros t Et N1 N3; try discriminate; injection Et as <-; hrw; auto|]);
    (split; [intros t Et N1 N3; try discriminate; injection Et as <-; hrw; auto|]);
    unfold hdr_rest_eq; cbn; auto 10.
Qed.

Lemma in_slots n l : In n l -> In (n_slot n) (slots l).
Proof. intros H. unfold slots. apply in_map. exact H. Qed.

(* right half: the segment after the position gets a new predecessor *)
Lemma dll_redirect_in H H' m mp mp' l2 la side :
  dll H m mp l2 la (PEnd side) ->
  (forall n, In n l2 -> c_obj (hget H' (n_slot n)) = c_obj (hget H (n_slot n)) /\ c_next (hget H' (n_slot n)) = c_next (hget H (n_slot n))) ->
  (forall n, In n (tl l2) -> c_prev (hget H' (n_slot n)) = c_prev (hget H (n_slot n))) ->
  (forall n r, l2 = n :: r -> c_prev (hget H' (n_slot n)) = mp') ->
  dll H' m mp' l2 (match l2 with [] => mp' | _ => la end) (PEnd side).
Proof.
  intros D Ha Hp Hf. destruct l2 as [|n r]; cbn [dll] in *.
  - destruct D as (-> & _). auto.
  - destruct D as (D1 & D2 & D3 & D4). destruct (Ha n (or_introl eq_refl)) as (A1 & A2).
    rewrite A1, A2, (Hf n r eq_refl). repeat split; auto.
    eapply dll_ext; [|exact D4]. intros x Hx. destruct (Ha x (or_intror Hx)) as (B1 & B2).
    unfold agree_dll. rewrite B1, B2, (Hp x Hx). auto.
Qed.

(* left half: the segment before the position gets a new successor *)
Lemma dll_redirect_out H H' f l1 mp m m' :
  dll H f PNull l1 mp m -> NoDup (slots l1) ->
  (forall n, In n l1 -> c_obj (hget H' (n_slot n)) = c_obj (hget H (n_slot n)) /\ c_prev (hget H' (n_slot n)) = c_prev (hget H (n_slot n))) ->
  (forall n, In n l1 -> mp <> PItem (n_slot n) -> c_next (hget H' (n_slot n)) = c_next (hget H (n_slot n))) ->
  (forall s1, mp = PItem s1 -> c_next (hget H' s1) = m') ->
  dll H' (match mp with PNull => m' | _ => f end) PNull l1 mp m'.
Proof.
  intros D Hnd Ha Hn Hl. destruct (last_split l1) as [->|(l0 & n1 & ->)].
  - cbn [dll] in *. destruct D as (_ & ->). auto.
  - apply dll_app in D. destruct D as (m0 & mp0 & D0 & D1). cbn [dll] in D1. destruct D1 as (-> & E2 & E3 & E4 & ->).
    apply dll_app. exists (PItem (n_slot n1)), mp0. split.
    + eapply dll_ext; [|exact D0]. intros x Hx.
      assert (Hin : In x (l0 ++ [n1])) by (apply in_or_app; auto).
      destruct (Ha x Hin) as (B1 & B2). unfold agree_dll. rewrite B1, B2. repeat split; auto. apply Hn; auto.
      intro E. injection E as E. unfold slots in Hnd. rewrite map_app in Hnd. cbn [map] in Hnd.
      rewrite (NoDup_count_occ sdec) in Hnd. specialize (Hnd (n_slot n1)). rewrite count_occ_app in Hnd. cbn [count_occ] in Hnd.
      destruct (sdec (n_slot n1) (n_slot n1)); [|congruence].
      assert (In (n_slot n1) (map n_slot l0)) by (rewrite E; apply in_map; exact Hx).
      apply (count_occ_In sdec) in H0. lia.
    + assert (Hin : In n1 (l0 ++ [n1])) by (apply in_or_app; cbn; auto).
      destruct (Ha n1 Hin) as (B1 & B2). cbn [dll]. rewrite B1, B2, (Hl _ eq_refl). auto.
Qed.

Lemma dll_slots_last H l : forall f pv la nx s, dll H f pv l la nx -> l <> [] -> la = PItem s -> In s (slots l).
Proof.
  intros f pv la nx s D Hne E. apply dll_last in D. destruct (last_split l) as [->|(l0 & x & ->)]; [contradiction|].
  rewrite rev_app_distr in D. cbn in D. rewrite D in E. injection E as <-. unfold slots. rewrite map_app. apply in_or_app. cbn. auto.
Qed.

Lemma dll_mp_cases H f l1 mp m : dll H f PNull l1 mp m -> (l1 = [] /\ mp = PNull /\ f = m) \/ (exists s1, mp = PItem s1 /\ In s1 (slots l1)).
Proof.
  intros D. destruct l1 as [|n r].
  - left. cbn [dll] in D. tauto.
  - right. pose proof (dll_last _ _ _ _ _ _ D) as E. destruct (rev (n :: r)) as [|x y] eqn:Er.
    + apply (f_equal (@length _)) in Er. rewrite rev_length in Er. discriminate.
    + exists (n_slot x). split; auto. apply in_slots. apply in_rev. rewrite Er. left. reflexivity.
Qed.

Lemma dll_m_cases H m mp l2 la side : dll H m mp l2 la (PEnd side) ->
  (l2 = [] /\ m = PEnd side /\ la = mp) \/ (exists n r, l2 = n :: r /\ m = PItem (n_slot n) /\ c_prev (hget H (n_slot n)) = mp).
Proof. intros D. destruct l2 as [|n r]; cbn [dll] in D; [left; tauto|right]. exists n, r. tauto. Qed.

Lemma link_before_dll H h side l1 l2 nd m mp H' h' :
  NoDup (n_slot nd :: slots (l1 ++ l2)) ->
  dll H (hd_begin h) PNull l1 mp m -> dll H m mp l2 (hd_last h) (PEnd side) ->
  c_obj (hget H (n_slot nd)) = Some (obj_of nd) ->
  link_before H h (n_slot nd) m = (H', h') ->
  dll H' (hd_begin h') PNull (l1 ++ nd :: l2) (hd_last h') (PEnd side) /\
  hd_size h' = S (hd_size h) /\ hdr_rest_eq h h' /\
  list_frame H H' (n_slot nd :: slots (l1 ++ l2)).
Proof.
  intros Hnd D1 D2 Ho E. set (s := n_slot nd) in *.
  destruct (NoDup_slots_app_inv _ _ _ Hnd) as (Hn1 & Hn2 & Hs1 & Hs2 & Hdis).
  assert (Epv : rd_prev H h m = mp) by (eapply dll_prev_first; eauto).
  pose proof (link_before_writes _ _ _ _ _ _ E) as W. cbv zeta in W. rewrite Epv in W.
  destruct W as (Wa & Wb & Wc & Wd & We & Wbeg & Wlast & Wsize & Wrest).
  (* where the neighbours are *)
  assert (Nmp : ~ pslot mp s).
  { intros Hp. destruct (dll_mp_cases _ _ _ _ _ D1) as [(_ & -> & _)|(s1 & -> & Hin)]; [discriminate Hp|]. injection Hp as <-. contradiction. }
  assert (Nm : ~ pslot m s).
  { intros Hp. destruct (dll_m_cases _ _ _ _ _ _ D2) as [(_ & -> & _)|(n & r & -> & -> & _)]; [discriminate Hp|].
    injection Hp as Hp. apply Hs2. rewrite <- Hp. cbn. auto. }
  assert (Nmpm : forall x, pslot mp x -> ~ pslot m x).
  { intros x Hp Hq. destruct (dll_mp_cases _ _ _ _ _ D1) as [(_ & -> & _)|(s1 & -> & Hin)]; [discriminate Hp|]. injection Hp as <-.
    destruct (dll_m_cases _ _ _ _ _ _ D2) as [(_ & -> & _)|(n & r & -> & -> & _)]; [discriminate Hq|]. injection Hq as Hq.
    apply (Hdis _ Hin). rewrite <- Hq. cbn. auto. }
  destruct (Wc Nmp Nm) as (Wc1 & Wc2).
  split; [|split; [exact Wsize|split; [exact Wrest|]]].
  - apply dll_app. exists (PItem s), mp. split.
    + (* left half *)
      assert (G : dll H' (match mp with PNull => PItem s | _ => hd_begin h end) PNull l1 mp (PItem s)).
      { apply (dll_redirect_out H H' _ _ _ m); auto.
        - intros n Hn. destruct (Wb (n_slot n)) as (B1 & _). split; auto.
          destruct (dll_mp_cases _ _ _ _ _ D1) as [(-> & _)|(s1 & Emp & Hin)]; [destruct Hn|].
          destruct (sdec (n_slot n) s1) as [Es|Es].
          + rewrite Es. apply (Wd s1 Emp); [intro E0; apply Hs1; rewrite <- E0; exact Hin|apply Nmpm; exact Emp].
          + rewrite Wa; [reflexivity| | |].
            * intro; apply Hs1; subst s; rewrite <- H0; apply in_slots; exact Hn.
            * rewrite Emp. intro Hp. injection Hp as Hp. congruence.
            * intro Hp. destruct (dll_m_cases _ _ _ _ _ _ D2) as [(_ & -> & _)|(n2 & r & -> & -> & _)]; [discriminate Hp|].
              injection Hp as Hp. apply (Hdis (n_slot n)); [apply in_slots; exact Hn|]. rewrite <- Hp. cbn. auto.
        - intros n Hn Hne. rewrite Wa; [reflexivity| | |].
          + intro; apply Hs1; subst s; rewrite <- H0; apply in_slots; exact Hn.
          + intro Hp. apply Hne. exact Hp.
          + intro Hp. destruct (dll_m_cases _ _ _ _ _ _ D2) as [(_ & -> & _)|(n2 & r & -> & -> & _)]; [discriminate Hp|].
            injection Hp as Hp. apply (Hdis (n_slot n)); [apply in_slots; exact Hn|]. rewrite <- Hp. cbn. auto.
        - intros s1 Emp. apply (Wd s1 Emp).
          + destruct (dll_mp_cases _ _ _ _ _ D1) as [(_ & E0 & _)|(s1' & Emp' & Hin)]; [congruence|].
            rewrite Emp in Emp'. injection Emp' as <-. intro E0; apply Hs1; rewrite <- E0; exact Hin.
          + apply Nmpm. exact Emp. }
      rewrite Wbeg. exact G.
    + (* the new item and the right half *)
      cbn [dll]. fold s. destruct (Wb s) as (B1 & _). rewrite B1, Wc1, Wc2. repeat split; auto.
      assert (G : dll H' m (PItem s) l2 (match l2 with [] => PItem s | _ => hd_last h end) (PEnd side)).
      { apply (dll_redirect_in H H' m mp); auto.
        - intros n Hn. destruct (Wb (n_slot n)) as (C1 & _). split; auto.
          destruct (dll_m_cases _ _ _ _ _ _ D2) as [(-> & _)|(n2 & r & El & Em & _)]; [destruct Hn|].
          destruct (sdec (n_slot n) (n_slot n2)) as [Es|Es].
          + rewrite Es. apply (We _ Em).
            * intro E0. apply Hs2. rewrite <- E0. rewrite El. cbn. auto.
            * intro Hp. apply (Nmpm _ Hp). exact Em.
          + rewrite Wa; [reflexivity| | |].
            * intro E0. apply Hs2. subst s. rewrite <- E0. apply in_slots. exact Hn.
            * intro Hp. destruct (dll_mp_cases _ _ _ _ _ D1) as [(_ & -> & _)|(s1 & -> & Hin)]; [discriminate Hp|]. injection Hp as Hq.
              apply (Hdis _ Hin). rewrite Hq. apply in_slots. exact Hn.
            * rewrite Em. intro Hp. injection Hp as Hp. congruence.
        - intros n Hn. destruct (dll_m_cases _ _ _ _ _ _ D2) as [(-> & _)|(n2 & r & El & Em & _)]; [destruct Hn|].
          subst l2. cbn [tl] in Hn. cbn [slots map] in Hn2. apply NoDup_cons_iff in Hn2. destruct Hn2 as (Hx & Hr).
          rewrite Wa; [reflexivity| | |].
          + intro E0. apply Hs2. subst s. rewrite <- E0. cbn. right. apply in_slots. exact Hn.
          + intro Hp. destruct (dll_mp_cases _ _ _ _ _ D1) as [(_ & -> & _)|(s1 & -> & Hin)]; [discriminate Hp|]. injection Hp as Hq.
            apply (Hdis _ Hin). rewrite Hq. cbn. right. apply in_slots. exact Hn.
          + rewrite Em. intro Hp. injection Hp as Hp. apply Hx. rewrite Hp. apply in_slots. exact Hn.
        - intros n r El. destruct (dll_m_cases _ _ _ _ _ _ D2) as [(-> & _)|(n2 & r2 & El2 & Em & _)]; [discriminate|].
          rewrite El in El2. injection El2 as <- <-. apply (We _ Em).
          + intro E0. apply Hs2. rewrite <- E0. rewrite El. cbn. auto.
          + intro Hp. apply (Nmpm _ Hp). exact Em. }
      rewrite Wlast. destruct (dll_m_cases _ _ _ _ _ _ D2) as [(-> & -> & _)|(n2 & r & -> & -> & _)]; exact G.
  - split; [|exact Wb]. intros x Hx. apply Wa.
    + intro E0; apply Hx; left; symmetry; exact E0.
    + intro Hp. destruct (dll_mp_cases _ _ _ _ _ D1) as [(_ & -> & _)|(s1 & -> & Hin)]; [discriminate Hp|]. injection Hp as <-.
      apply Hx. right. unfold slots. rewrite map_app. apply in_or_app. auto.
    + intro Hp. destruct (dll_m_cases _ _ _ _ _ _ D2) as [(_ & -> & _)|(n2 & r & -> & -> & _)]; [discriminate Hp|]. injection Hp as <-.
      apply Hx. right. unfold slots. rewrite map_app. apply in_or_app. right. cbn. auto.
Qed.

(* ---- unlinking an item ------------------------------------------------------------------------------ *)
Lemma unlink_writes H h s H' h' :
  unlink H h s = (H', h') ->
  let pv := c_prev (hget H s) in let nx := c_next (hget H s) in
  (forall x, ~ pslot pv x -> ~ pslot nx x -> hget H' x = hget H x) /\
  (forall x, c_obj (hget H' x) = c_obj (hget H x) /\ c_cell (hget H' x) = c_cell (hget H x) /\ c_nextcell (hget H' x) = c_nextcell (hget H x)) /\
  (forall s1, pv = PItem s1 -> ~ pslot nx s1 -> c_next (hget H' s1) = nx /\ c_prev (hget H' s1) = c_prev (hget H s1)) /\
  (forall s2, nx = PItem s2 -> ~ pslot pv s2 -> c_prev (hget H' s2) = pv /\ c_next (hget H' s2) = c_next (hget H s2)) /\
  hd_begin h' = (match pv with PNull => nx | _ => hd_begin h end) /\
  hd_last h' = (match nx with PEnd _ => pv | _ => hd_last h end) /\
  hd_size h' = pred (hd_size h) /\ hdr_rest_eq h h'.
Proof.
  unfold unlink, pslot. intros E. cbv zeta.
  destruct (c_prev (hget H s)) as [|sd|s1] eqn:Epv; destruct (c_next (hget H s)) as [|sd2|s2] eqn:Enx; cbn [wr_next wr_prev] in E; injection E as <- <-;
    cbn [hd_begin hd_last hd_size hd_free hd_blocks hd_cap hd_data set_begin set_last set_size hdr_rest_eq];
    (split; [intros x N2 N3; repeat rewrite ?hget_set_prev_other, ?hget_set_next_other by congruence; reflexivity|]);
    (split; [intros x; hrw; auto|]);
    (split; [intros t Et N3; try discriminate; injection Et as <-; hrw; auto|]);
    (split; [intros t Et N3; try discriminate; injection Et as <-; hrw; auto|]);
    unfold hdr_rest_eq; cbn; auto 10.
Qed.

Lemma NoDup_slots_mid l1 nd l2 :
  NoDup (slots (l1 ++ nd :: l2)) -> NoDup (n_slot nd :: slots (l1 ++ l2)).
Proof.
  unfold slots. rewrite !map_app. cbn [map]. intros H. rewrite (NoDup_count_occ sdec) in *. intro x. specialize (H x).
  rewrite !count_occ_app in *. cbn [count_occ] in *. rewrite count_occ_app. destruct (sdec (n_slot nd) x); lia.
Qed.

Lemma unlink_dll H h side l1 nd l2 H' h' :
  NoDup (slots (l1 ++ nd :: l2)) ->
  dll H (hd_begin h) PNull (l1 ++ nd :: l2) (hd_last h) (PEnd side) ->
  unlink H h (n_slot nd) = (H', h') ->
  dll H' (hd_begin h') PNull (l1 ++ l2) (hd_last h') (PEnd side) /\
  hd_size h' = pred (hd_size h) /\ hdr_rest_eq h h' /\
  list_frame H H' (slots (l1 ++ l2)).
Proof.
  intros Hnd0 D E. pose proof (NoDup_slots_mid _ _ _ Hnd0) as Hnd.
  destruct (NoDup_slots_app_inv _ _ _ Hnd) as (Hn1 & Hn2 & Hs1 & Hs2 & Hdis).
  apply dll_app in D. destruct D as (m & mp & D1 & D2). cbn [dll] in D2. destruct D2 as (Em & Epv & Eo & D2).
  pose proof (unlink_writes _ _ _ _ _ E) as W. cbv zeta in W. rewrite Epv in W.
  set (m2 := c_next (hget H (n_slot nd))) in *.
  destruct W as (Wa & Wb & Wd & We & Wbeg & Wlast & Wsize & Wrest).
  assert (Nmpm : forall x, pslot mp x -> ~ pslot m2 x).
  { intros x Hp Hq. destruct (dll_mp_cases _ _ _ _ _ D1) as [(_ & E0 & _)|(s1 & E0 & Hin)]; rewrite E0 in Hp; [discriminate Hp|]. injection Hp as <-.
    destruct (dll_m_cases _ _ _ _ _ _ D2) as [(_ & E1 & _)|(n & r & El & E1 & _)]; rewrite E1 in Hq; [discriminate Hq|]. injection Hq as Hq.
    apply (Hdis _ Hin). rewrite <- Hq, El. cbn. auto. }
  assert (Nmp_l2 : forall n, In n l2 -> ~ pslot mp (n_slot n)).
  { intros n Hn Hp. destruct (dll_mp_cases _ _ _ _ _ D1) as [(_ & E0 & _)|(s1 & E0 & Hin)]; rewrite E0 in Hp; [discriminate Hp|]. injection Hp as Hq.
    apply (Hdis _ Hin). rewrite Hq. apply in_slots. exact Hn. }
  assert (Nm2_l1 : forall n, In n l1 -> ~ pslot m2 (n_slot n)).
  { intros n Hn Hq. destruct (dll_m_cases _ _ _ _ _ _ D2) as [(_ & E1 & _)|(n2 & r & El & E1 & _)]; rewrite E1 in Hq; [discriminate Hq|]. injection Hq as Hq.
    apply (Hdis (n_slot n)); [apply in_slots; exact Hn|]. rewrite <- Hq, El. cbn. auto. }
  split; [|split; [exact Wsize|split; [exact Wrest|]]].
  - apply dll_app. exists m2, mp. split.
    + assert (G : dll H' (match mp with PNull => m2 | _ => hd_begin h end) PNull l1 mp m2).
      { apply (dll_redirect_out H H' _ _ _ m); auto.
        - intros n Hn. destruct (Wb (n_slot n)) as (B1 & _). split; auto.
          destruct (dll_mp_cases _ _ _ _ _ D1) as [(-> & _)|(s1 & Emp & Hin)]; [destruct Hn|].
          destruct (sdec (n_slot n) s1) as [Es|Es].
          + rewrite Es. apply (Wd s1 Emp). apply Nmpm. exact Emp.
          + rewrite Wa; [reflexivity| |].
            * rewrite Emp. intro Hp. injection Hp as Hp. congruence.
            * apply Nm2_l1. exact Hn.
        - intros n Hn Hne. rewrite Wa; [reflexivity| |].
          + intro Hp. apply Hne. exact Hp.
          + apply Nm2_l1. exact Hn.
        - intros s1 Emp. apply (Wd s1 Emp). apply Nmpm. exact Emp. }
      rewrite Wbeg. exact G.
    + assert (G : dll H' m2 mp l2 (match l2 with [] => mp | _ => hd_last h end) (PEnd side)).
      { apply (dll_redirect_in H H' m2 (PItem (n_slot nd))); auto.
        - intros n Hn. destruct (Wb (n_slot n)) as (C1 & _). split; auto.
          destruct (dll_m_cases _ _ _ _ _ _ D2) as [(-> & _)|(n2 & r & El & Em2 & _)]; [destruct Hn|].
          destruct (sdec (n_slot n) (n_slot n2)) as [Es|Es].
          + rewrite Es. apply (We _ Em2). intro Hp. apply (Nmpm _ Hp). exact Em2.
          + rewrite Wa; [reflexivity| |].
            * apply Nmp_l2. exact Hn.
            * rewrite Em2. intro Hp. injection Hp as Hp. congruence.
        - intros n Hn. destruct (dll_m_cases _ _ _ _ _ _ D2) as [(-> & _)|(n2 & r & El & Em2 & _)]; [destruct Hn|].
          rewrite El in Hn. cbn [tl] in Hn. rewrite El in Hn2. cbn [slots map] in Hn2. apply NoDup_cons_iff in Hn2. destruct Hn2 as (Hx & Hr).
          rewrite Wa; [reflexivity| |].
          + apply Nmp_l2. rewrite El. right. exact Hn.
          + rewrite Em2. intro Hp. injection Hp as Hp. apply Hx. rewrite Hp. apply in_slots. exact Hn.
        - intros n r El. destruct (dll_m_cases _ _ _ _ _ _ D2) as [(-> & _)|(n2 & r2 & El2 & Em2 & _)]; [discriminate|].
          rewrite El in El2. injection El2 as <- <-. apply (We _ Em2). intro Hp. apply (Nmpm _ Hp). exact Em2. }
      rewrite Wlast. destruct (dll_m_cases _ _ _ _ _ _ D2) as [(-> & -> & _)|(n2 & r & -> & -> & _)]; exact G.
  - split; [|exact Wb]. intros x Hx. apply Wa.
    + intro Hp. destruct (dll_mp_cases _ _ _ _ _ D1) as [(_ & E0 & _)|(s1 & E0 & Hin)]; rewrite E0 in Hp; [discriminate Hp|]. injection Hp as <-.
      apply Hx. unfold slots. rewrite map_app. apply in_or_app. auto.
    + intro Hq. destruct (dll_m_cases _ _ _ _ _ _ D2) as [(_ & E1 & _)|(n2 & r & El & E1 & _)]; rewrite E1 in Hq; [discriminate Hq|]. injection Hq as <-.
      apply Hx. unfold slots. rewrite map_app. apply in_or_app. right. rewrite El. cbn. auto.
Qed.

(* ---- free list ----------------------------------------------------------------------------------------- *)
Lemma push_free_fl H h s f H' h' :
  fl H (hd_free h) f -> ~ In s f -> c_obj (hget H s) = None -> push_free H h s = (H', h') ->
  fl H' (hd_free h') (s :: f) /\ H' = set_prev H s (hd_free h) /\ h' = set_free h (PItem s).
Proof.
  intros F Hn Ho E. unfold push_free in E. injection E as <- <-. split; auto.
  cbn [fl set_free hd_free]. hrw. repeat split; auto.
  eapply fl_ext; [|exact F]. intros x Hx. hrw. split; auto.
Qed.

Definition hdr_list_eq (h h' : hdr) : Prop :=
  hd_begin h' = hd_begin h /\ hd_last h' = hd_last h /\ hd_size h' = hd_size h /\ hd_blocks h' = hd_blocks h /\
  hd_cap h' = hd_cap h /\ hd_data h' = hd_data h.

Lemma thread_fl ser idxs : forall H h f H' h',
  fl H (hd_free h) f -> NoDup idxs -> (forall i, In i idxs -> ~ In (ser, i) f) ->
  (forall i, In i idxs -> c_obj (hget H (ser, i)) = None) ->
  thread ser idxs H h = (H', h') ->
  fl H' (hd_free h') (rev (map (fun i => (ser, i)) idxs) ++ f) /\ hdr_list_eq h h' /\
  (forall x, ~ In x (map (fun i => (ser, i)) idxs) -> hget H' x = hget H x) /\
  (forall x, c_obj (hget H' x) = c_obj (hget H x) /\ c_next (hget H' x) = c_next (hget H x) /\
             c_cell (hget H' x) = c_cell (hget H x) /\ c_nextcell (hget H' x) = c_nextcell (hget H x)).
Proof.
  unfold thread. induction idxs as [|i r IH]; intros H h f H' h' F Hnd Hnf Ho E; cbn [fold_left] in E.
  - injection E as <- <-. cbn [map rev app]. unfold hdr_list_eq. auto 10.
  - apply NoDup_cons_iff in Hnd. destruct Hnd as (Hi & Hr).
    assert (F1 : fl (set_prev H (ser, i) (hd_free h)) (hd_free (set_free h (PItem (ser, i)))) ((ser, i) :: f)).
    { eapply (push_free_fl H h (ser, i) f); eauto.
      - apply Hnf. left. reflexivity.
      - apply Ho. left. reflexivity. }
    specialize (IH _ _ _ H' h' F1 Hr).
    destruct IH as (G1 & G2 & G3 & G4); auto.
    + intros j Hj [Ej|Hin]; [injection Ej as <-; contradiction|]. apply (Hnf j); auto. right. exact Hj.
    + intros j Hj. hrw. apply Ho. right. exact Hj.
    + cbn [map rev]. rewrite <- app_assoc. cbn [app]. split; [exact G1|]. split.
      { unfold hdr_list_eq in *. cbn [set_free hd_begin hd_last hd_size hd_blocks hd_cap hd_data] in G2. exact G2. }
      split.
      * intros x Hx. rewrite G3 by (intro Hin; apply Hx; right; exact Hin).
        apply hget_set_prev_other. intro E0. apply Hx. left. exact E0.
      * intros x. destruct (G4 x) as (A1 & A2 & A3 & A4). rewrite A1, A2, A3, A4. hrw. auto.
Qed.

(* ---- hash chains ---------------------------------------------------------------------------------------- *)
Lemma chain_pred_in H item c2 : forall c1 cr, chain H cr (c1 ++ item :: c2) -> In (c_cell (hget H item)) (cr :: c1).
Proof.
  induction c1 as [|u r IH]; intros cr C; cbn [app chain] in C.
  - destruct C as (_ & C2 & _). left. auto.
  - destruct C as (_ & _ & C3). right. apply IH. exact C3.
Qed.

Lemma chain_succ H item c2 : forall c1 cr, chain H cr (c1 ++ item :: c2) ->
  c_nextcell (hget H item) = match c2 with [] => PNull | t :: _ => PItem t end.
Proof.
  induction c1 as [|u r IH]; intros cr C; cbn [app chain] in C.
  - destruct C as (_ & _ & C3). destruct c2; cbn [chain] in C3; tauto.
  - destruct C as (_ & _ & C3). eapply IH; eauto.
Qed.

Lemma NoDup_app_parts {A} (dec : forall x y : A, {x = y} + {x <> y}) (a b : list A) :
  NoDup (a ++ b) -> NoDup a /\ NoDup b /\ (forall x, In x a -> ~ In x b).
Proof.
  intros H. rewrite !(NoDup_count_occ dec) in *. repeat split.
  - intro x. specialize (H x). rewrite count_occ_app in H. lia.
  - intro x. specialize (H x). rewrite count_occ_app in H. lia.
  - intros x Ha Hb. specialize (H x). rewrite count_occ_app in H.
    apply (count_occ_In dec) in Ha. apply (count_occ_In dec) in Hb. lia.
Qed.

Lemma chain_remove H H' item c2 :
  (forall x, x <> c_cell (hget H item) -> c_nextcell (hget H' x) = c_nextcell (hget H x)) ->
  c_nextcell (hget H' (c_cell (hget H item))) = c_nextcell (hget H item) ->
  (forall x, c_nextcell (hget H item) <> PItem x -> c_cell (hget H' x) = c_cell (hget H x)) ->
  (forall t, c_nextcell (hget H item) = PItem t -> c_cell (hget H' t) = c_cell (hget H item)) ->
  forall c1 cr, NoDup (cr :: c1 ++ item :: c2) -> chain H cr (c1 ++ item :: c2) -> chain H' cr (c1 ++ c2).
Proof.
  intros Wn Wp Wc Wt. induction c1 as [|u r IH]; intros cr Hnd C.
  - cbn [app] in *. pose proof (chain_succ H item c2 [] cr C) as Es. cbn [chain] in C. destruct C as (C1 & C2 & C3).
    rewrite C2 in *. apply NoDup_cons_iff in Hnd. destruct Hnd as (Hcr & Hnd). apply NoDup_cons_iff in Hnd. destruct Hnd as (Hit & Hnd).
    destruct c2 as [|t c2']; cbn [chain] in *.
    + rewrite Wp. exact C3.
    + destruct C3 as (D1 & D2 & D3). rewrite Wp, D1. split; auto. split; [apply Wt; exact D1|].
      eapply chain_ext; [| |exact D3].
      * intros s Hs. apply Wn. intro E0. apply Hcr. right. rewrite <- E0. exact Hs.
      * intros s Hs. apply Wc. rewrite D1. intro E0. injection E0 as E0. apply NoDup_cons_iff in Hnd. destruct Hnd as (Ht & _).
        apply Ht. rewrite E0. exact Hs.
  - cbn [app] in *. pose proof (chain_pred_in H item c2 r u) as Hp. pose proof (chain_succ H item c2 r u) as Es.
    cbn [chain] in C. destruct C as (C1 & C2 & C3). specialize (Hp C3). specialize (Es C3).
    apply NoDup_cons_iff in Hnd. destruct Hnd as (Hcr & Hnd). cbn [chain].
    split; [|split; [|apply IH; auto]].
    + rewrite Wn; auto. intro E0. apply Hcr. rewrite E0. destruct Hp as [<-|Hp]; [left; reflexivity|]. right. apply in_or_app. left. exact Hp.
    + rewrite Wc; auto. rewrite Es. destruct c2 as [|t c2']; [discriminate|]. intro E0. injection E0 as E0.
      apply NoDup_cons_iff in Hnd. destruct Hnd as (Hu & _). apply Hu. apply in_or_app. right. right. left. exact E0.
Qed.

Lemma chain_unlink_writes H item :
  let H' := chain_unlink H item in
  (forall x, c_obj (hget H' x) = c_obj (hget H x) /\ c_prev (hget H' x) = c_prev (hget H x) /\ c_next (hget H' x) = c_next (hget H x)) /\
  (forall x, x <> c_cell (hget H item) -> c_nextcell (hget H' x) = c_nextcell (hget H x)) /\
  c_nextcell (hget H' (c_cell (hget H item))) = c_nextcell (hget H item) /\
  (forall x, c_nextcell (hget H item) <> PItem x -> c_cell (hget H' x) = c_cell (hget H x)) /\
  (forall t, c_nextcell (hget H item) = PItem t -> c_cell (hget H' t) = c_cell (hget H item)) /\
  (forall x, x <> c_cell (hget H item) -> c_nextcell (hget H item) <> PItem x -> hget H' x = hget H x).
Proof.
  cbv zeta. unfold chain_unlink. destruct (c_nextcell (hget H item)) as [|sd|t] eqn:En.
  - split; [intros x; hrw; auto|]. split; [intros x Hx; hrw; auto|]. split; [hrw; auto|]. split; [intros x _; hrw; auto|].
    split; [intros t Et; discriminate|]. intros x Hx _. apply hget_set_nextcell_other. auto.
  - split; [intros x; hrw; auto|]. split; [intros x Hx; hrw; auto|]. split; [hrw; auto|]. split; [intros x _; hrw; auto|].
    split; [intros t Et; discriminate|]. intros x Hx _. apply hget_set_nextcell_other. auto.
  - split; [intros x; hrw; auto|]. split; [intros x Hx; hrw; auto|]. split; [hrw; auto|].
    split; [intros x Hx; hrw; try (rewrite cell_set_cell_other by congruence); hrw; auto|].
    split; [intros t' Et; injection Et as <-; hrw; auto|].
    intros x Hx1 Hx2. rewrite hget_set_cell_other by congruence. apply hget_set_nextcell_other. auto.
Qed.

Lemma chain_link_writes H item cr :
  item <> cr -> c_nextcell (hget H cr) <> PItem item ->
  let H' := chain_link H item cr in
  let nc := c_nextcell (hget H cr) in
  (forall x, c_obj (hget H' x) = c_obj (hget H x) /\ c_prev (hget H' x) = c_prev (hget H x) /\ c_next (hget H' x) = c_next (hget H x)) /\
  c_nextcell (hget H' cr) = PItem item /\ c_cell (hget H' item) = cr /\ c_nextcell (hget H' item) = nc /\
  (forall t, nc = PItem t -> t <> item -> c_cell (hget H' t) = item) /\
  (forall x, x <> item -> x <> cr -> c_nextcell (hget H' x) = c_nextcell (hget H x)) /\
  (forall x, x <> item -> nc <> PItem x -> c_cell (hget H' x) = c_cell (hget H x)) /\
  (forall x, x <> item -> x <> cr -> nc <> PItem x -> hget H' x = hget H x).
Proof.
  intros Hne Hnh. cbv zeta. unfold chain_link. autorewrite with hf.
  destruct (c_nextcell (hget H cr)) as [|sd|t] eqn:En.
  - split; [intros x; hrw; auto|]. split; [hrw; auto|]. split; [hrw; auto|]. split; [hrw; auto|].
    split; [intros t Et; discriminate|]. split; [intros x H1 H2; hrw; auto|]. split; [intros x H1 H2; hrw; auto|].
    intros x H1 H2 _. rewrite hget_set_nextcell_other, hget_set_nextcell_other, hget_set_cell_other; auto.
  - split; [intros x; hrw; auto|]. split; [hrw; auto|]. split; [hrw; auto|]. split; [hrw; auto|].
    split; [intros t Et; discriminate|]. split; [intros x H1 H2; hrw; auto|]. split; [intros x H1 H2; hrw; auto|].
    intros x H1 H2 _. rewrite hget_set_nextcell_other, hget_set_nextcell_other, hget_set_cell_other; auto.
  - split; [intros x; hrw; auto|]. split; [hrw; auto|].
    split. { destruct (sdec t item) as [->|Hti]; [contradiction|]. hrw; auto. }
    split; [hrw; auto|].
    split; [intros t' Et Hti; injection Et as <-; hrw; auto|]. split; [intros x H1 H2; hrw; auto|].
    split; [intros x H1 H2; hrw; try (rewrite cell_set_cell_other by congruence); hrw; auto|].
    intros x H1 H2 H3. rewrite hget_set_nextcell_other, hget_set_cell_other, hget_set_nextcell_other, hget_set_cell_other; auto; congruence.
Qed.

Lemma chain_link_chain H item cr ch :
  item <> cr -> ~ In item ch -> ~ In cr ch -> NoDup ch -> chain H cr ch -> chain (chain_link H item cr) cr (item :: ch).
Proof.
  intros Hne Hi Hcr Hnd C.
  assert (Hnh : c_nextcell (hget H cr) <> PItem item).
  { destruct ch as [|t r]; cbn [chain] in C; [rewrite C; discriminate|]. destruct C as (C1 & _). rewrite C1. intro E0. injection E0 as E0.
    apply Hi. left. exact E0. }
  destruct (chain_link_writes H item cr Hne Hnh) as (_ & W1 & W2 & W3 & W4 & W5 & W6 & _).
  cbn [chain]. split; auto. split; auto. destruct ch as [|t r]; cbn [chain] in *.
  - rewrite W3. exact C.
  - destruct C as (C1 & C2 & C3). rewrite W3, C1. split; auto. split.
    + apply W4; auto. intro E0. apply Hi. left. exact E0.
    + apply NoDup_cons_iff in Hnd. destruct Hnd as (Ht & Hr). eapply chain_ext; [| |exact C3].
      * intros s Hs. apply W5.
        -- intro E0. apply Hi. rewrite <- E0. exact Hs.
        -- intro E0. apply Hcr. rewrite <- E0. exact Hs.
      * intros s Hs. apply W6.
        -- intro E0. apply Hi. right. rewrite <- E0. exact Hs.
        -- rewrite C1. intro E0. injection E0 as E0. apply Ht. rewrite E0. exact Hs.
Qed.
