(* The cell machine refines the node-level model: state relation, one step, whole histories. *)
From Coq Require Import ZArith List Bool Arith Lia.
From Stable Require Import Gen_Stable StableSpec StableModel StableTree StableInv StableProofs StableTheorems StableBlocks
  StableHeap StableHeapBase StableHeapSeg StableHeapRep.
Import ListNotations.

(* node-level facts about a container and its neighbour *)
Definition CInv (k : kind) (c o : cont) (ser nid : nat) : Prop :=
  shape k c /\ shape k o /\ PInv c o ser nid /\ BInv c o ser /\ DInv c o ser /\ ChInv c /\ ChInv o.

Lemma CInv_sym k c o ser nid : CInv k c o ser nid -> CInv k o c ser nid.
Proof.
  intros (H1 & H2 & H3 & H4 & H5 & H6 & H7). unfold CInv.
  split; [auto|]. split; [auto|]. split; [apply PInv_sym; auto|]. split; [apply BInv_sym; auto|]. split; [apply DInv_sym; auto|]. auto.
Qed.

Lemma foot_lt k c o ser nid x : CInv k c o ser nid -> In x (cfoot c) -> (fst x < ser)%nat.
Proof.
  intros (_ & _ & [_ _ _ P4] & _ & [_ D2] & _) Hx. unfold cfoot in Hx. apply in_app_or in Hx. destruct Hx as [Hx|Hx].
  - rewrite Forall_forall in P4. apply P4. apply in_or_app. auto.
  - apply in_bcells in Hx. destruct Hx as (Hd & _). rewrite Forall_forall in D2. apply D2. apply in_or_app. auto.
Qed.

(* what the refinement of a container operation provides *)
Definition InsertOK (k : kind) : Prop :=
  forall side H h c o ser nid pos posp key val c' ser' nid' ev,
    CInv k c o ser nid -> CRep side H h c -> (forall x, (ser <= fst x)%nat -> hget H x = cell0) ->
    pos_ok side H h (elems c) (if is_pool k && negb (is_hashk k) then length (elems c) else pos) posp ->
    c_insert k pos key val c ser nid = (c', ser', nid', ev) ->
    CInv k c' o ser' nid' /\ (ser <= ser')%nat /\ (nid <= nid')%nat /\
    (forall x, In x (cfoot c') -> In x (cfoot c) \/ (ser <= fst x < ser')%nat) /\
    exists H' h', l_insert k posp key val H h ser nid = (H', h', ser', nid', ev) /\ CRep side H' h' c' /\ Contract H c ser ser' H' c'.

Definition RemoveOK (k : kind) : Prop :=
  forall side H h c o ser nid pos nd c' ev,
    CInv k c o ser nid -> CRep side H h c -> nth_error (elems c) pos = Some nd ->
    c_remove_at pos c = (c', ev) ->
    CInv k c' o ser nid /\ (forall x, In x (cfoot c') -> In x (cfoot c)) /\
    exists H' h', l_remove_item k (n_slot nd) H h = (H', h', ev) /\ CRep side H' h' c' /\ Contract H c ser ser H' c'.

Definition ClearOK (k : kind) : Prop :=
  forall side H h c o ser nid c' ev,
    CInv k c o ser nid -> CRep side H h c -> c_clear c = (c', ev) ->
    CInv k c' o ser nid /\ (forall x, In x (cfoot c') -> In x (cfoot c)) /\
    exists H' h', l_clear k side H h = (H', h', ev) /\ CRep side H' h' c' /\ Contract H c ser ser H' c'.

Definition FindOK (k : kind) : Prop :=
  forall side H h c o ser nid key,
    CInv k c o ser nid -> CRep side H h c ->
    match find_pos k key c with
    | Some i => exists nd, nth_error (elems c) i = Some nd /\ l_find_pos k key H h = Some (n_slot nd)
    | None => l_find_pos k key H h = None
    end.

(* ---- the state relation ---------------------------------------------------------------------------------- *)
Record Rep (k : kind) (L : lstate) (S : state) : Prop := mkRep {
  rp_a : CRep false (l_heap L) (l_a L) (s_a S);
  rp_b : CRep true (l_heap L) (l_b L) (s_b S);
  rp_cur : l_cur L = s_cur S;
  rp_ser : l_ser L = s_ser S;
  rp_nid : l_nid L = s_nid S;
  rp_obj : forall x, c_obj (hget (l_heap L) x) <> None -> In x (slots (all_elems S));
  rp_fresh : forall x, (s_ser S <= fst x)%nat -> hget (l_heap L) x = cell0;
  rp_cinv : CInv k (s_a S) (s_b S) (s_ser S) (s_nid S) }.

Lemma ChInv_init k cap : ChInv (init_cont k cap).
Proof.
  unfold ChInv. destruct k; cbn [init_cont c_body init_body]; auto; cbn [h_cap h_data h_chains];
    (split; [unfold norm_cap; destruct cap; lia|]); (split; [auto|]);
    (split; [intros b; destruct b; constructor|]); (split; [intros n []|]); intros b s Hs; destruct b; destruct Hs.
Qed.

Lemma dser_init k cap : dser (init_cont k cap) = [].
Proof. destruct k; reflexivity. Qed.

Lemma CInv_init k cap : CInv k (init_cont k cap) (init_cont k cap) 0 0.
Proof.
  unfold CInv. split; [apply shape_init|]. split; [apply shape_init|]. split; [apply PInv_init|]. split; [apply BInv_init|].
  split; [|split; apply ChInv_init]. constructor; rewrite !dser_init; cbn; constructor.
Qed.

Lemma Rep_init k cap : heap_kind k = true -> Rep k (linit cap) (init k cap).
Proof.
  intros Hk. constructor; cbn [linit init l_heap l_a l_b l_cur l_ser l_nid s_a s_b s_cur s_ser s_nid]; auto.
  - constructor; rewrite ?elems_init; cbn [hdr_init hd_begin hd_last hd_size hd_free hd_blocks hd_cap hd_data init_cont c_pool pool_empty p_free p_blocks dll fl length c_body]; auto.
    destruct k; cbn [init_body hrep hd_data hd_cap h_cap h_data]; auto; discriminate Hk.
  - constructor; rewrite ?elems_init; cbn [hdr_init hd_begin hd_last hd_size hd_free hd_blocks hd_cap hd_data init_cont c_pool pool_empty p_free p_blocks dll fl length c_body]; auto.
    destruct k; cbn [init_body hrep hd_data hd_cap h_cap h_data]; auto; discriminate Hk.
  - intros x Hx. cbn in Hx. congruence.
  - apply CInv_init.
Qed.

(* the selected / the other container *)
Lemma Rep_sel k L S : Rep k L S ->
  CRep (s_cur S) (l_heap L) (lsel L) (sel S) /\ CRep (negb (s_cur S)) (l_heap L) (lother L) (other S) /\
  CInv k (sel S) (other S) (s_ser S) (s_nid S).
Proof.
  intros [Ra Rb Rc _ _ _ _ Ri]. unfold lsel, lother, sel, other. rewrite Rc. destruct (s_cur S); cbn [negb]; auto.
  split; auto. split; auto. apply CInv_sym. exact Ri.
Qed.

Lemma all_elems_set_sel S c ser nid x :
  In x (slots (all_elems (set_sel S c ser nid))) <-> In x (slots (elems c)) \/ In x (slots (elems (other S))).
Proof.
  unfold all_elems, set_sel, other, slots. destruct (s_cur S); cbn [s_a s_b]; rewrite map_app, in_app_iff; tauto.
Qed.

Lemma all_elems_sel S x : In x (slots (all_elems S)) <-> In x (slots (elems (sel S))) \/ In x (slots (elems (other S))).
Proof. unfold all_elems, sel, other, slots. destruct (s_cur S); rewrite map_app, in_app_iff; tauto. Qed.

Lemma Rep_update k L S H' h' c' ser' nid' :
  Rep k L S ->
  CRep (s_cur S) H' h' c' -> Contract (l_heap L) (sel S) (s_ser S) ser' H' c' -> (s_ser S <= ser')%nat ->
  CInv k c' (other S) ser' nid' ->
  Rep k (lset L H' h' ser' nid') (set_sel S c' ser' nid').
Proof.
  intros R Rc' (Cf & Co) Hser Ci'. destruct (Rep_sel _ _ _ R) as (Rs & Ro & Ci).
  destruct R as [Ra Rb Rc Rser Rnid Robj Rfresh Ri].
  assert (Ro' : CRep (negb (s_cur S)) H' (lother L) (other S)).
  { destruct Ci as (_ & _ & P & B & D & _ & Cho). eapply CRep_frame; [exact Ro|exact Cho|]. intros x Hx.
    destruct (foot_disjoint _ _ _ _ _ P B D Hx) as (N1 & N2). apply Cf; auto. lia. }
  assert (Hfoot : forall x, In x (cfoot (sel S)) -> (fst x < s_ser S)%nat) by (intros x; eapply foot_lt; eauto).
  unfold lset, set_sel, lother, other in *. rewrite Rc in *. destruct (s_cur S) eqn:Ecur; cbn [negb] in *;
    constructor; cbn [l_heap l_a l_b l_cur l_ser l_nid s_a s_b s_cur s_ser s_nid]; auto.
  - intros x Hx. unfold all_elems, slots. cbn [s_a s_b]. rewrite map_app, in_app_iff. destruct (Co x Hx) as [Hin|(Hin & Hno)]; auto.
    specialize (Robj x Hin). unfold all_elems, slots, sel in *. rewrite Ecur in *. rewrite map_app, in_app_iff in Robj. tauto.
  - intros x Hx. rewrite Cf; [apply Rfresh; lia| |lia]. intro Hin. apply Hfoot in Hin. lia.
  - apply CInv_sym. exact Ci'.
  - intros x Hx. unfold all_elems, slots. cbn [s_a s_b]. rewrite map_app, in_app_iff. destruct (Co x Hx) as [Hin|(Hin & Hno)]; auto.
    specialize (Robj x Hin). unfold all_elems, slots, sel in *. rewrite Ecur in *. rewrite map_app, in_app_iff in Robj. tauto.
  - intros x Hx. rewrite Cf; [apply Rfresh; lia| |lia]. intro Hin. apply Hfoot in Hin. lia.
Qed.

(* ---- swap ---------------------------------------------------------------------------------------------------- *)
Lemma wr_next_fields H p v :
  (forall x, c_obj (hget (wr_next H p v) x) = c_obj (hget H x) /\ c_prev (hget (wr_next H p v) x) = c_prev (hget H x) /\
             c_cell (hget (wr_next H p v) x) = c_cell (hget H x) /\ c_nextcell (hget (wr_next H p v) x) = c_nextcell (hget H x)) /\
  (forall x, p <> PItem x -> hget (wr_next H p v) x = hget H x) /\
  (forall x, p = PItem x -> c_next (hget (wr_next H p v) x) = v).
Proof.
  destruct p as [|sd|s]; cbn [wr_next]; (split; [intros x; hrw; auto|]); (split; [|intros x E0; try discriminate; injection E0 as <-; hrw; auto]).
  - auto. - auto. - intros x Hne. apply hget_set_next_other. congruence.
Qed.

Lemma dll_last_cases H f l la nx : dll H f PNull l la nx -> (l = [] /\ la = PNull) \/ (exists s1, la = PItem s1 /\ In s1 (slots l)).
Proof. intros D. destruct (dll_mp_cases _ _ _ _ _ D) as [(-> & -> & _)|(s1 & -> & Hin)]; [left; auto|right; eauto]. Qed.

Lemma swap_refine k L S :
  Rep k L S ->
  forall H' ha hb, l_swap (l_heap L) (l_a L) (l_b L) = (H', ha, hb) ->
  Rep k (mkL H' ha hb (l_cur L) (l_ser L) (l_nid L)) (mkState (s_b S) (s_a S) (s_cur S) (s_ser S) (s_nid S)).
Proof.
  intros [Ra Rb Rc Rser Rnid Robj Rfresh Ri] H' ha hb E. set (H := l_heap L) in *.
  destruct Ra as [A1 A2 A3 A4 A5]. destruct Rb as [B1 B2 B3 B4 B5].
  pose proof Ri as (Sa & Sb & P & Bi & Di & Cha & Chb).
  pose proof (NoDup_cslots _ _ _ _ P) as Hnda. pose proof (NoDup_cslots _ _ _ _ (PInv_sym _ _ _ _ P)) as Hndb.
  destruct (NoDup_live _ Hnda) as (Hla & _). destruct (NoDup_live _ Hndb) as (Hlb & _).
  assert (Hdis : forall x, In x (slots (elems (s_a S))) -> ~ In x (slots (elems (s_b S)))).
  { intros x Hxa Hxb. destruct P as [_ _ P3 _]. rewrite (NoDup_count_occ sdec) in P3. specialize (P3 x). unfold cslots in P3.
    rewrite !count_occ_app in P3. apply (count_occ_In sdec) in Hxa. apply (count_occ_In sdec) in Hxb. lia. }
  unfold l_swap in E.
  set (H1 := match hd_last (l_b L) with PNull => H | p => wr_next H p (PEnd false) end).
  set (H2 := match hd_last (l_a L) with PNull => H1 | p => wr_next H1 p (PEnd true) end).
  assert (E' : H' = H2 /\
               ha = mkHdr (match hd_last (l_b L) with PNull => PEnd false | _ => hd_begin (l_b L) end) (hd_last (l_b L)) (hd_size (l_b L)) (hd_free (l_b L)) (hd_blocks (l_b L)) (hd_cap (l_b L)) (hd_data (l_b L)) /\
               hb = mkHdr (match hd_last (l_a L) with PNull => PEnd true | _ => hd_begin (l_a L) end) (hd_last (l_a L)) (hd_size (l_a L)) (hd_free (l_a L)) (hd_blocks (l_a L)) (hd_cap (l_a L)) (hd_data (l_a L))).
  { unfold H2, H1. destruct (hd_last (l_b L)); destruct (hd_last (l_a L)); injection E as <- <- <-; auto. }
  destruct E' as (-> & -> & ->). clear E.
  assert (F2 : forall x, c_obj (hget H2 x) = c_obj (hget H x) /\ c_prev (hget H2 x) = c_prev (hget H x) /\
                         c_cell (hget H2 x) = c_cell (hget H x) /\ c_nextcell (hget H2 x) = c_nextcell (hget H x)).
  { intros x. unfold H2, H1.
    destruct (hd_last (l_a L)) as [|sd|sa]; destruct (hd_last (l_b L)) as [|sd'|sb];
      repeat match goal with |- context [wr_next ?h ?p ?v] => destruct (wr_next_fields h p v) as (W & _ & _); destruct (W x) as (-> & -> & -> & ->); clear W end; auto. }
  assert (N2 : forall x, hd_last (l_a L) <> PItem x -> hd_last (l_b L) <> PItem x -> hget H2 x = hget H x).
  { intros x Na Nb. unfold H2, H1.
    destruct (hd_last (l_a L)) as [|sd|sa]; destruct (hd_last (l_b L)) as [|sd'|sb];
      repeat match goal with |- context [wr_next ?h ?p ?v] => destruct (wr_next_fields h p v) as (_ & W & _); rewrite (W x) by assumption; clear W end; auto. }
  assert (Ina : forall x, hd_last (l_a L) = PItem x -> In x (slots (elems (s_a S)))).
  { intros x Ex. destruct (dll_last_cases _ _ _ _ _ A1) as [(_ & E0)|(sa & E0 & Hsa)]; rewrite E0 in Ex; [discriminate|]. injection Ex as <-. exact Hsa. }
  assert (Inb : forall x, hd_last (l_b L) = PItem x -> In x (slots (elems (s_b S)))).
  { intros x Ex. destruct (dll_last_cases _ _ _ _ _ B1) as [(_ & E0)|(sb & E0 & Hsb)]; rewrite E0 in Ex; [discriminate|]. injection Ex as <-. exact Hsb. }
  assert (Nab : forall xa xb, hd_last (l_a L) = PItem xa -> hd_last (l_b L) = PItem xb -> xa <> xb).
  { intros xa xb Ea Eb E0. apply (Hdis xa); [apply Ina; exact Ea|]. rewrite E0. apply Inb. exact Eb. }
  assert (La : forall x, hd_last (l_a L) = PItem x -> c_next (hget H2 x) = PEnd true).
  { intros x Ex. unfold H2. rewrite Ex. destruct (wr_next_fields H1 (PItem x) (PEnd true)) as (_ & _ & W). exact (W _ eq_refl). }
  assert (Lb : forall x, hd_last (l_b L) = PItem x -> c_next (hget H2 x) = PEnd false).
  { intros x Ex. assert (E1 : c_next (hget H1 x) = PEnd false).
    { unfold H1. rewrite Ex. destruct (wr_next_fields H (PItem x) (PEnd false)) as (_ & _ & W). exact (W _ eq_refl). }
    unfold H2. destruct (hd_last (l_a L)) as [|sd|sa] eqn:Ea; [exact E1|exact E1|].
    destruct (wr_next_fields H1 (PItem sa) (PEnd true)) as (_ & W & _). rewrite W; [exact E1|]. intro E0. injection E0 as E0.
    apply (Nab sa x eq_refl Ex). exact E0. }
  assert (Nn : forall x, hd_last (l_a L) <> PItem x -> hd_last (l_b L) <> PItem x -> c_next (hget H2 x) = c_next (hget H x))
    by (intros x Na Nb; rewrite N2; auto).
  assert (Fr : forall x, (s_ser S <= fst x)%nat -> hget H2 x = cell0).
  { intros x Hx. rewrite N2; [apply Rfresh; exact Hx| |].
    - intro E0. apply Ina in E0. assert (Hlt : (fst x < s_ser S)%nat); [|lia].
      eapply (foot_lt k (s_a S)); eauto. unfold cfoot, cslots. apply in_or_app. left. apply in_or_app. auto.
    - intro E0. apply Inb in E0. assert (Hlt : (fst x < s_ser S)%nat); [|lia].
      eapply (foot_lt k (s_b S)); [apply CInv_sym; eauto|]. unfold cfoot, cslots. apply in_or_app. left. apply in_or_app. auto. }
  assert (Hr : forall h b, hrep H h b -> forall h', hd_cap h' = hd_cap h -> hd_data h' = hd_data h -> hrep H2 h' b).
  { intros h b Hh h' Ec Ed. unfold hrep in *. destruct b as [l|t|l hd]; try congruence.
    destruct Hh as (E1 & E2 & E3). split; [congruence|]. split; [congruence|].
    destruct (h_data hd); auto. intros b Hb. eapply chain_ext; [| |apply E3; exact Hb]; intros x _; apply F2. }
  constructor; cbn [l_heap l_a l_b l_cur l_ser l_nid s_a s_b s_cur s_ser s_nid]; auto.
  - constructor; cbn [hd_begin hd_last hd_size hd_free hd_blocks hd_cap hd_data]; auto.
    + apply (dll_redirect_out H H2 _ _ _ (PEnd true)); auto.
      * intros n Hn. destruct (F2 (n_slot n)) as (-> & -> & _). auto.
      * intros n Hn Hne. apply Nn; [|congruence]. intro E0. apply Ina in E0. apply (Hdis _ E0). apply in_slots. exact Hn.
    + eapply fl_ext; [|exact B2]. intros x _. destruct (F2 x) as (-> & -> & _). auto.
    + eapply Hr; [exact B5| |]; reflexivity.
  - constructor; cbn [hd_begin hd_last hd_size hd_free hd_blocks hd_cap hd_data]; auto.
    + apply (dll_redirect_out H H2 _ _ _ (PEnd false)); auto.
      * intros n Hn. destruct (F2 (n_slot n)) as (-> & -> & _). auto.
      * intros n Hn Hne. apply Nn; [congruence|]. intro E0. apply Inb in E0. apply (Hdis (n_slot n)); [apply in_slots; exact Hn|exact E0].
    + eapply fl_ext; [|exact A2]. intros x _. destruct (F2 x) as (-> & -> & _). auto.
    + eapply Hr; [exact A5| |]; reflexivity.
  - intros x Hx. destruct (F2 x) as (Eo & _). rewrite Eo in Hx. specialize (Robj x Hx). unfold all_elems, slots in *. cbn [s_a s_b].
    rewrite map_app, in_app_iff in *. tauto.
  - apply CInv_sym. exact Ri.
Qed.

(* ---- positions ------------------------------------------------------------------------------------------------ *)
Lemma skipn_nth {A} (l : list A) : forall pos x, nth_error l pos = Some x -> skipn pos l = x :: skipn (S pos) l.
Proof.
  induction l as [|y r IH]; intros [|p] x Hn; cbn [nth_error] in Hn; try discriminate.
  - injection Hn as <-. reflexivity.
  - cbn [skipn]. rewrite (IH p x Hn). reflexivity.
Qed.

Lemma iter_at_item side H h l pos nd :
  dll H (hd_begin h) PNull l (hd_last h) (PEnd side) -> nth_error l pos = Some nd -> iter_at H pos (hd_begin h) = PItem (n_slot nd).
Proof.
  intros D Hn. destruct (iter_at_dll H side l pos _ _ _ D) as (mp & _ & D2). rewrite (skipn_nth _ _ _ Hn) in D2.
  apply dll_first in D2. exact D2.
Qed.

Lemma last_item side H h l nd :
  dll H (hd_begin h) PNull l (hd_last h) (PEnd side) -> nth_error l (length l - 1) = Some nd -> hd_last h = PItem (n_slot nd).
Proof.
  intros D Hn. pose proof (dll_last _ _ _ _ _ _ D) as E. destruct (last_split l) as [->|(l0 & x & ->)]; [discriminate Hn|].
  rewrite rev_app_distr in E. cbn [rev app] in E. rewrite app_length in Hn. cbn [length] in Hn.
  replace (length l0 + 1 - 1)%nat with (length l0) in Hn by lia. rewrite nth_error_app2 in Hn by lia.
  rewrite Nat.sub_diag in Hn. cbn in Hn. injection Hn as <-. exact E.
Qed.

Lemma find_val_spec H key l :
  (forall n, In n l -> c_obj (hget H (n_slot n)) = Some (obj_of n)) ->
  match find_index (fun n => (n_val n =? key)%Z) l with
  | Some i => exists nd, nth_error l i = Some nd /\ find_val H key (slots l) = Some (n_slot nd)
  | None => find_val H key (slots l) = None
  end.
Proof.
  induction l as [|n r IH]; intros Ho; cbn [find_index slots map find_val]; auto.
  rewrite (Ho n (or_introl eq_refl)). cbn [o_val obj_of]. destruct (n_val n =? key)%Z.
  - exists n. auto.
  - specialize (IH (fun m Hm => Ho m (or_intror Hm))). destruct (find_index _ r) as [i|]; cbn [option_map]; auto.
Qed.

Lemma lelems_rep side H h c : CRep side H h c -> lelems H h = elems c.
Proof. intros R. unfold lelems. rewrite (items_rep _ _ _ _ R). destruct R as [R1 _ _ _ _]. eapply node_at_dll; eauto. Qed.

Lemma set_sel_same S : set_sel S (sel S) (s_ser S) (s_nid S) = S.
Proof. unfold set_sel, sel. destruct S as [a b [|] ser nid]; reflexivity. Qed.

(* ---- composition of contracts ------------------------------------------------------------------------------- *)
Lemma Contract_trans H1 c1 s1 s2 H2 c2 s3 H3 c3 :
  Contract H1 c1 s1 s2 H2 c2 -> Contract H2 c2 s2 s3 H3 c3 ->
  (forall x, In x (cfoot c2) -> In x (cfoot c1) \/ (s1 <= fst x < s2)%nat) -> (s1 <= s2)%nat -> (s2 <= s3)%nat ->
  Contract H1 c1 s1 s3 H3 c3.
Proof.
  intros (F1 & O1) (F2 & O2) Hf L1 L2. split.
  - intros x Hx Hr. rewrite F2, F1; auto; [lia| |lia]. intro Hin. destruct (Hf x Hin); [contradiction|lia].
  - intros x Hx. destruct (O2 x Hx) as [Hin|(Hin & Hno)]; auto. destruct (O1 x Hin) as [Hin1|Hin1]; [contradiction|auto].
Qed.

Section STEP.
Variable k : kind.
Hypothesis Hk : heap_kind k = true.
Hypothesis HIns : InsertOK k.
Hypothesis HRem : RemoveOK k.
Hypothesis HClr : ClearOK k.
Hypothesis HFind : FindOK k.

Lemma ins_fold_refine side o off src : forall c1 H1 h1 ser1 nid1 ev1 c' ser' nid' ev',
  CInv k c1 o ser1 nid1 -> CRep side H1 h1 c1 -> (forall x, (ser1 <= fst x)%nat -> hget H1 x = cell0) ->
  fold_left (ins_fold k off) src (c1, ser1, nid1, ev1) = (c', ser', nid', ev') ->
  CInv k c' o ser' nid' /\ (ser1 <= ser')%nat /\ (nid1 <= nid')%nat /\
  (forall x, In x (cfoot c') -> In x (cfoot c1) \/ (ser1 <= fst x < ser')%nat) /\
  exists H' h', fold_left (lins_f k side off) src (H1, h1, ser1, nid1, ev1) = (H', h', ser', nid', ev') /\
                CRep side H' h' c' /\ Contract H1 c1 ser1 ser' H' c'.
Proof.
  induction src as [|e src IH]; intros c1 H1 h1 ser1 nid1 ev1 c' ser' nid' ev' Ci R Hfr E; cbn [fold_left] in *.
  - injection E as <- <- <- <-. split; [exact Ci|]. split; [lia|]. split; [lia|]. split; [auto|].
    exists H1, h1. split; [reflexivity|]. split; [exact R|]. split; [auto|]. intros x Hx.
    destruct (in_dec sdec x (slots (elems c1))); auto.
  - unfold ins_fold at 2 in E.
    destruct (c_insert k (ins_pos off c1) (n_key e) (n_val e) c1 ser1 nid1) as [[[c2 ser2] nid2] ev2] eqn:Ei.
    assert (Hpos : pos_ok side H1 h1 (elems c1) (if is_pool k && negb (is_hashk k) then length (elems c1) else ins_pos off c1)
                          (l_ins_ptr k side off H1 h1)).
    { destruct off as [[p n0]|]; cbn [ins_pos l_ins_ptr].
      - rewrite (cr_size _ _ _ _ R). destruct (is_pool k && negb (is_hashk k)); [apply pos_ok_end; auto; apply R|apply pos_ok_iter; apply R].
      - destruct (is_pool k && negb (is_hashk k)); apply pos_ok_end; auto; apply R. }
    destruct (HIns side H1 h1 c1 o ser1 nid1 _ _ _ _ _ _ _ _ Ci R Hfr Hpos Ei) as (Ci2 & Ls & Ln & Hf2 & H2 & h2 & El & R2 & C2).
    assert (Hfr2 : forall x, (ser2 <= fst x)%nat -> hget H2 x = cell0).
    { intros x Hx. destruct C2 as (F2 & _). rewrite F2; [apply Hfr; lia| |lia]. intro Hin. apply (foot_lt _ _ _ _ _ _ Ci) in Hin. lia. }
    destruct (IH c2 H2 h2 ser2 nid2 (ev1 ++ ev2) c' ser' nid' ev' Ci2 R2 Hfr2 E) as (Ci' & Ls' & Ln' & Hf' & H' & h' & Ef & R' & C').
    split; [exact Ci'|]. split; [lia|]. split; [lia|]. split.
    { intros x Hx. destruct (Hf' x Hx) as [Hin|Hr]; [|right; lia]. destruct (Hf2 x Hin) as [Hin2|Hr]; [auto|right; lia]. }
    exists H', h'. split.
    { unfold lins_f at 2. rewrite El. exact Ef. }
    split; [exact R'|]. eapply Contract_trans; eauto.
Qed.

Lemma rem_fold_refine side o ser nid src : forall c1 H1 h1 ev1 c' ev',
  CInv k c1 o ser nid -> CRep side H1 h1 c1 ->
  fold_left (rem_fold k) src (c1, ev1) = (c', ev') ->
  CInv k c' o ser nid /\ (forall x, In x (cfoot c') -> In x (cfoot c1)) /\
  exists H' h', fold_left (lrem_f k) src (H1, h1, ev1) = (H', h', ev') /\ CRep side H' h' c' /\ Contract H1 c1 ser ser H' c'.
Proof.
  induction src as [|e src IH]; intros c1 H1 h1 ev1 c' ev' Ci R E; cbn [fold_left] in *.
  - injection E as <- <-. split; [exact Ci|]. split; [auto|].
    exists H1, h1. split; [reflexivity|]. split; [exact R|]. split; [auto|]. intros x Hx.
    destruct (in_dec sdec x (slots (elems c1))); auto.
  - unfold rem_fold at 2 in E. unfold lrem_f at 2.
    pose proof (HFind _ _ _ _ _ _ _ (n_key e) Ci R) as Hf. destruct (find_pos k (n_key e) c1) as [i|].
    + destruct Hf as (nd & En & Ef). rewrite Ef.
      destruct (c_remove_at i c1) as [c2 ev2] eqn:Er.
      destruct (HRem _ _ _ _ _ _ _ _ _ _ _ Ci R En Er) as (Ci2 & Hf2 & H2 & h2 & El & R2 & C2). rewrite El.
      destruct (IH c2 H2 h2 (ev1 ++ ev2) c' ev' Ci2 R2 E) as (Ci' & Hf' & H' & h' & Efold & R' & C').
      split; [exact Ci'|]. split; [auto|]. exists H', h'. split; [exact Efold|]. split; [exact R'|].
      eapply Contract_trans; eauto; intros x Hx; left; auto.
    + rewrite Hf. apply IH; auto.
Qed.

Lemma assign_refine side H h c o ser nid src c' ser' nid' ev :
  CInv k c o ser nid -> CRep side H h c -> (forall x, (ser <= fst x)%nat -> hget H x = cell0) ->
  c_assign k src c ser nid = (c', ser', nid', ev) ->
  CInv k c' o ser' nid' /\ (ser <= ser')%nat /\
  exists H' h', l_assign k side src H h ser nid = (H', h', ser', nid', ev) /\ CRep side H' h' c' /\ Contract H c ser ser' H' c'.
Proof.
  intros Ci R Hfr E. rewrite c_assign_eq in E. destruct (c_clear c) as [c0 ev0] eqn:Ec.
  destruct (HClr side H h c o ser nid c0 ev0 Ci R Ec) as (Ci0 & Hf0 & H0 & h0 & El0 & R0 & C0).
  assert (Hfr0 : forall x, (ser <= fst x)%nat -> hget H0 x = cell0).
  { intros x Hx. destruct C0 as (F0 & _). rewrite F0; [apply Hfr; lia| |lia]. intro Hin. apply (foot_lt _ _ _ _ _ _ Ci) in Hin. lia. }
  destruct (ins_fold_refine side o None src c0 H0 h0 ser nid ev0 c' ser' nid' ev Ci0 R0 Hfr0 E) as (Ci' & Ls & _ & Hf' & H' & h' & Ef & R' & C').
  split; [exact Ci'|]. split; [exact Ls|]. exists H', h'. split.
  { unfold l_assign. rewrite El0. exact Ef. }
  split; [exact R'|]. eapply Contract_trans; eauto; intros x Hx; left; auto.
Qed.

Lemma CInv_destroy cap c o ser nid : CInv k c o ser nid -> CInv k (init_cont k cap) o ser nid.
Proof.
  intros (H1 & H2 & H3 & H4 & H5 & H6 & H7). unfold CInv.
  split; [apply shape_init|]. split; [auto|]. split; [eapply PInv_destroy; eauto|]. split; [eapply BInv_destroy; eauto|].
  split; [|split; [apply ChInv_init|auto]]. destruct H5 as [D1 D2]. constructor; rewrite dser_init; unfold blocks in *; cbn [init_cont c_pool pool_empty p_blocks app].
  - rewrite (NoDup_count_occ Nat.eq_dec) in *. intro x. specialize (D1 x). rewrite !count_occ_app in *. lia.
  - rewrite Forall_app in *. tauto.
Qed.

(* the generic shape of an operation on the selected container *)
Lemma step_via_update L S H' h' c' ser' nid' (ev : list event) :
  Rep k L S -> CRep (s_cur S) H' h' c' -> Contract (l_heap L) (sel S) (s_ser S) ser' H' c' -> (s_ser S <= ser')%nat ->
  CInv k c' (other S) ser' nid' ->
  Rep k (lset L H' h' ser' nid') (set_sel S c' ser' nid').
Proof. apply Rep_update. Qed.

Lemma Rep_noop L S : Rep k L S -> Rep k L (set_sel S (sel S) (s_ser S) (s_nid S)).
Proof. rewrite set_sel_same. auto. Qed.

Lemma remove_step L S pos nd :
  Rep k L S -> nth_error (elems (sel S)) pos = Some nd ->
  let '(c', ev) := c_remove_at pos (sel S) in
  let '(H', h', ev') := l_remove_item k (n_slot nd) (l_heap L) (lsel L) in
  Rep k (lset L H' h' (l_ser L) (l_nid L)) (set_sel S c' (s_ser S) (s_nid S)) /\ ev' = ev.
Proof.
  intros R Hn. destruct (Rep_sel _ _ _ R) as (Rs & Ro & Ci).
  destruct (c_remove_at pos (sel S)) as [c' ev] eqn:Er.
  destruct (HRem _ _ _ _ _ _ _ _ _ _ _ Ci Rs Hn Er) as (Ci' & _ & H' & h' & El & R' & C'). rewrite El.
  rewrite (rp_ser _ _ _ R), (rp_nid _ _ _ R). split; [|reflexivity]. eapply Rep_update; eauto.
Qed.

Lemma insert_step L S pos posp key val :
  Rep k L S ->
  pos_ok (s_cur S) (l_heap L) (lsel L) (elems (sel S)) (if is_pool k && negb (is_hashk k) then length (elems (sel S)) else pos) posp ->
  let '(c', ser', nid', ev) := c_insert k pos key val (sel S) (s_ser S) (s_nid S) in
  let '(H', h', ser2, nid2, ev') := l_insert k posp key val (l_heap L) (lsel L) (l_ser L) (l_nid L) in
  Rep k (lset L H' h' ser2 nid2) (set_sel S c' ser' nid') /\ ev' = ev.
Proof.
  intros R Hpos. destruct (Rep_sel _ _ _ R) as (Rs & Ro & Ci).
  destruct (c_insert k pos key val (sel S) (s_ser S) (s_nid S)) as [[[c' ser'] nid'] ev] eqn:Ei.
  destruct (HIns _ _ _ _ _ _ _ _ _ _ _ _ _ _ _ Ci Rs (rp_fresh _ _ _ R) Hpos Ei) as (Ci' & Ls & _ & _ & H' & h' & El & R' & C').
  rewrite (rp_ser _ _ _ R), (rp_nid _ _ _ R), El. split; [|reflexivity]. eapply Rep_update; eauto.
Qed.

Theorem step_refine cap L S o :
  Rep k L S -> Rep k (fst (lstep k cap L o)) (fst (step k cap S o)) /\ snd (lstep k cap L o) = snd (step k cap S o).
Proof.
  intros R. destruct (Rep_sel _ _ _ R) as (Rs & Ro & Ci).
  pose proof (rp_cur _ _ _ R) as Ecur. pose proof (cr_size _ _ _ _ Rs) as Esz. pose proof (cr_dll _ _ _ _ Rs) as Dl.
  unfold lstep, step. rewrite Ecur. fold (lsel L). destruct o as [b|key v|key v|pos key v|pos| | |key| | | | |ipos| |hpos key v].
  - (* sel *) cbn [fst snd]. split; [|reflexivity]. destruct R as [Ra Rb Rc Rser Rnid Robj Rfresh Ri].
    constructor; cbn [l_heap l_a l_b l_cur l_ser l_nid s_a s_b s_cur s_ser s_nid]; auto.
  - (* app *)
    assert (Hpos : pos_ok (s_cur S) (l_heap L) (lsel L) (elems (sel S))
                          (if is_pool k && negb (is_hashk k) then length (elems (sel S)) else length (elems (sel S))) (PEnd (s_cur S))).
    { destruct (is_pool k && negb (is_hashk k)); apply pos_ok_end; auto. }
    pose proof (insert_step L S _ _ key v R Hpos) as G.
    destruct (c_insert k (length (elems (sel S))) key v (sel S) (s_ser S) (s_nid S)) as [[[c' ser'] nid'] ev].
    destruct (l_insert k (PEnd (s_cur S)) key v (l_heap L) (lsel L) (l_ser L) (l_nid L)) as [[[[H' h'] ser2] nid2] ev']. exact G.
  - (* pre *)
    assert (Hpos : pos_ok (s_cur S) (l_heap L) (lsel L) (elems (sel S))
                          (if is_pool k && negb (is_hashk k) then length (elems (sel S)) else O)
                          (if is_pool k && negb (is_hashk k) then PEnd (s_cur S) else hd_begin (lsel L))).
    { destruct (is_pool k && negb (is_hashk k)); [apply pos_ok_end; auto|]. apply (pos_ok_iter _ _ _ _ O). exact Dl. }
    pose proof (insert_step L S _ _ key v R Hpos) as G.
    destruct (c_insert k 0 key v (sel S) (s_ser S) (s_nid S)) as [[[c' ser'] nid'] ev].
    destruct (l_insert k _ key v (l_heap L) (lsel L) (l_ser L) (l_nid L)) as [[[[H' h'] ser2] nid2] ev']. exact G.
  - (* insat *)
    assert (Hpos : pos_ok (s_cur S) (l_heap L) (lsel L) (elems (sel S))
                          (if is_pool k && negb (is_hashk k) then length (elems (sel S)) else pos)
                          (if is_pool k && negb (is_hashk k) then PEnd (s_cur S) else iter_at (l_heap L) pos (hd_begin (lsel L)))).
    { destruct (is_pool k && negb (is_hashk k)); [apply pos_ok_end; auto|]. apply pos_ok_iter. exact Dl. }
    pose proof (insert_step L S _ _ key v R Hpos) as G.
    destruct (c_insert k pos key v (sel S) (s_ser S) (s_nid S)) as [[[c' ser'] nid'] ev].
    destruct (l_insert k _ key v (l_heap L) (lsel L) (l_ser L) (l_nid L)) as [[[[H' h'] ser2] nid2] ev']. exact G.
  - (* rmat *)
    rewrite Esz. destruct (nth_error (elems (sel S)) pos) as [nd|] eqn:En.
    + assert (Hlt : (pos < length (elems (sel S)))%nat) by (apply nth_error_Some; congruence).
      apply Nat.ltb_lt in Hlt. rewrite Hlt. rewrite (iter_at_item _ _ _ _ _ _ Dl En). cbn [l_remove_ptr].
      pose proof (remove_step L S pos nd R En) as G.
      destruct (c_remove_at pos (sel S)) as [c' ev]. destruct (l_remove_item k (n_slot nd) (l_heap L) (lsel L)) as [[H' h'] ev']. exact G.
    + assert (Hge : (pos <? length (elems (sel S)))%nat = false) by (apply Nat.ltb_ge; apply nth_error_None; exact En). rewrite Hge.
      unfold c_remove_at. rewrite En. cbn [fst snd]. split; [apply Rep_noop; exact R|reflexivity].
  - (* rmfront *)
    rewrite Esz. destruct (elems (sel S)) as [|nd r] eqn:El.
    + cbn [length Nat.eqb]. unfold c_remove_at. rewrite El. cbn [nth_error fst snd]. split; [apply Rep_noop; exact R|reflexivity].
    + cbn [length Nat.eqb]. assert (En : nth_error (elems (sel S)) 0 = Some nd) by (rewrite El; reflexivity).
      pose proof (iter_at_item _ _ _ _ O nd Dl eq_refl) as Eb. cbn [iter_at] in Eb. rewrite Eb. cbn [l_remove_ptr].
      pose proof (remove_step L S O nd R En) as G.
      destruct (c_remove_at 0 (sel S)) as [c' ev]. destruct (l_remove_item k (n_slot nd) (l_heap L) (lsel L)) as [[H' h'] ev']. exact G.
  - (* rmback *)
    rewrite Esz. destruct (nth_error (elems (sel S)) (length (elems (sel S)) - 1)) as [nd|] eqn:En.
    + assert (Hne : (length (elems (sel S)) =? 0)%nat = false).
      { apply Nat.eqb_neq. intro E0. rewrite E0 in En. destruct (elems (sel S)); [discriminate En|discriminate E0]. }
      rewrite Hne. rewrite (last_item _ _ _ _ _ Dl En). cbn [l_remove_ptr].
      pose proof (remove_step L S _ nd R En) as G.
      destruct (c_remove_at (length (elems (sel S)) - 1) (sel S)) as [c' ev]. destruct (l_remove_item k (n_slot nd) (l_heap L) (lsel L)) as [[H' h'] ev']. exact G.
    + assert (He : elems (sel S) = []).
      { apply nth_error_None in En. destruct (elems (sel S)); auto. cbn [length] in En. lia. }
      rewrite He. cbn [length Nat.eqb]. unfold c_remove_at. rewrite He. cbn [length Nat.sub nth_error fst snd].
      split; [apply Rep_noop; exact R|reflexivity].
  - (* rmkey *)
    pose proof (HFind _ _ _ _ _ _ _ key Ci Rs) as Hf. destruct (find_pos k key (sel S)) as [i|].
    + destruct Hf as (nd & En & Ef). rewrite Ef. cbn [l_remove_ptr].
      pose proof (remove_step L S i nd R En) as G.
      destruct (c_remove_at i (sel S)) as [c' ev]. destruct (l_remove_item k (n_slot nd) (l_heap L) (lsel L)) as [[H' h'] ev']. exact G.
    + rewrite Hf. cbn [fst snd]. auto.
  - (* clear *)
    destruct (c_clear (sel S)) as [c' ev] eqn:Ec.
    destruct (HClr _ _ _ _ _ _ _ _ _ Ci Rs Ec) as (Ci' & _ & H' & h' & El & R' & C'). rewrite El. cbn [fst snd].
    rewrite (rp_ser _ _ _ R), (rp_nid _ _ _ R). split; [|reflexivity]. eapply Rep_update; eauto.
  - (* swap *)
    destruct (has_swap k); [|cbn [fst snd]; auto].
    destruct (l_swap (l_heap L) (l_a L) (l_b L)) as [[H' ha] hb] eqn:Es. cbn [fst snd]. split; [|reflexivity].
    pose proof (swap_refine k L S R H' ha hb Es) as G. rewrite Ecur in G. exact G.
  - (* assign *)
    destruct (has_assign k); [|cbn [fst snd]; auto].
    assert (Esrc : lelems (l_heap L) (lother L) = elems (other S)) by (eapply lelems_rep; eauto). rewrite Esrc.
    destruct (c_assign k (elems (other S)) (sel S) (s_ser S) (s_nid S)) as [[[c' ser'] nid'] ev] eqn:Ea.
    destruct (assign_refine _ _ _ _ _ _ _ _ _ _ _ _ Ci Rs (rp_fresh _ _ _ R) Ea) as (Ci' & Ls & H' & h' & El & R' & C').
    rewrite (rp_ser _ _ _ R), (rp_nid _ _ _ R), El. cbn [fst snd]. split; [|reflexivity]. eapply Rep_update; eauto.
  - (* destroy *)
    destruct (c_destroy k cap (sel S)) as [c' ev] eqn:Ed.
    assert (Hsh : shape k (sel S)) by apply Ci.
    destruct (destroy_refine k _ cap _ _ _ (s_ser S) Hk Hsh Rs _ _ Ed) as (H' & h' & El & R' & C'). rewrite El. cbn [fst snd].
    rewrite (rp_ser _ _ _ R), (rp_nid _ _ _ R). split; [|reflexivity]. eapply Rep_update; eauto.
    unfold c_destroy in Ed. injection Ed as <- _. eapply CInv_destroy; eauto.
  - (* insert all the elements of the other container *)
    destruct (has_insall k); [|cbn [fst snd]; auto].
    assert (Esrc : lelems (l_heap L) (lother L) = elems (other S)) by (eapply lelems_rep; eauto). rewrite Esrc.
    destruct (c_insert_all k ipos (elems (other S)) (sel S) (s_ser S) (s_nid S)) as [[[c' ser'] nid'] ev] eqn:Ea.
    unfold c_insert_all, insall_off in Ea. unfold l_insert_all. rewrite Esz.
    destruct (ins_fold_refine _ _ _ _ _ _ _ _ _ _ _ _ _ _ Ci Rs (rp_fresh _ _ _ R) Ea) as (Ci' & Ls & _ & _ & H' & h' & El & R' & C').
    rewrite (rp_ser _ _ _ R), (rp_nid _ _ _ R), El. cbn [fst snd]. split; [|reflexivity]. eapply Rep_update; eauto.
  - (* remove every key of the other container *)
    destruct (has_remall k); [|cbn [fst snd]; auto].
    assert (Esrc : lelems (l_heap L) (lother L) = elems (other S)) by (eapply lelems_rep; eauto). rewrite Esrc.
    destruct (c_remove_all k (elems (other S)) (sel S)) as [c' ev] eqn:Er.
    unfold c_remove_all in Er. unfold l_remove_all.
    destruct (rem_fold_refine _ _ _ _ _ _ _ _ _ _ _ Ci Rs Er) as (Ci' & _ & H' & h' & El & R' & C').
    rewrite El. cbn [fst snd]. rewrite (rp_ser _ _ _ R), (rp_nid _ _ _ R). split; [|reflexivity]. eapply Rep_update; eauto.
  - (* hint: not an operation of these kinds *)
    assert (Hh : has_hint k = false) by (destruct k; try discriminate Hk; reflexivity). rewrite Hh. cbn [fst snd]. auto.
Qed.

Theorem run_refine cap ops : forall L S, Rep k L S -> Rep k (lrun k cap L ops) (run k cap S ops).
Proof.
  induction ops as [|o ops IH]; intros L S R; cbn [lrun run]; auto. apply IH. apply step_refine. exact R.
Qed.

Theorem trace_refine cap ops : forall L S, Rep k L S -> ltrace k cap L ops = trace k cap S ops.
Proof.
  induction ops as [|o ops IH]; intros L S R; cbn [ltrace trace]; auto.
  destruct (step_refine cap L S o R) as (R' & Ev). destruct (lstep k cap L o) as [L' ev']. destruct (step k cap S o) as [S' ev]. cbn [fst snd] in *.
  subst ev'. f_equal; [|apply IH; exact R']. f_equal. f_equal. unfold lobserve, observe.
  rewrite (lelems_rep _ _ _ _ (rp_a _ _ _ R')), (lelems_rep _ _ _ _ (rp_b _ _ _ R')). reflexivity.
Qed.
End STEP.
