(* The model meets the reference checker of StableSpec.v: for every history, every observation of
   the model passes [check_step].  (The harness observations of the implementation are judged by
   the same extracted checker.) *)
From Coq Require Import ZArith List Bool Arith Lia.
From Stable Require Import Gen_Stable StableSpec StableModel StableTree StableInv StableProofs StableTheorems.
Import ListNotations.

(* ---- reflection of the boolean pieces -------------------------------------------------------------- *)
Lemma nodup_nat_true l : NoDup l -> nodup_nat l = true.
Proof.
  induction 1 as [|x l Hx Hl IH]; cbn [nodup_nat]; auto. rewrite IH, andb_true_r. apply negb_true_iff.
  apply not_true_iff_false. intro H. apply existsb_exists in H. destruct H as (y & Hy & E).
  apply Nat.eqb_eq in E. subst. contradiction.
Qed.

Lemma nodup_slot_true l : NoDup l -> nodup_slot l = true.
Proof.
  induction 1 as [|x l Hx Hl IH]; cbn [nodup_slot]; auto. rewrite IH, andb_true_r. apply negb_true_iff.
  apply not_true_iff_false. intro H. apply existsb_exists in H. destruct H as (y & Hy & E).
  apply slot_eqb_eq in E. subst. contradiction.
Qed.

Lemma slot_eqb_refl s : slot_eqb s s = true.
Proof. apply slot_eqb_eq. reflexivity. Qed.

Lemma node_eqb_refl n : node_eqb n n = true.
Proof. unfold node_eqb. rewrite Nat.eqb_refl, slot_eqb_refl, !Z.eqb_refl. reflexivity. Qed.

Lemma nodes_eqb_refl l : nodes_eqb l l = true.
Proof. induction l as [|x l IH]; cbn [nodes_eqb]; auto. rewrite node_eqb_refl, IH. reflexivity. Qed.

Lemma event_eqb_refl e : event_eqb e e = true.
Proof. destruct e; cbn [event_eqb]; rewrite ?Nat.eqb_refl, ?slot_eqb_refl; reflexivity. Qed.

Lemma born_birth k id s : born k id s (birth k id s) = true.
Proof. unfold birth, born. destruct (is_pool k) eqn:E; rewrite ?E, Nat.eqb_refl, slot_eqb_refl; reflexivity. Qed.

Lemma lookup_id_in l n : NoDup (ids l) -> In n l -> lookup_id l (n_id n) = Some n.
Proof.
  induction l as [|x l IH]; intros Hnd Hin; [destruct Hin|].
  cbn [ids map] in Hnd. inversion Hnd as [|? ? Hx Hl]; subst. unfold lookup_id. cbn [find].
  destruct Hin as [<-|Hin]; [rewrite Nat.eqb_refl; reflexivity|].
  destruct (Nat.eqb_spec (n_id x) (n_id n)) as [E|E].
  - exfalso. apply Hx. rewrite E. apply in_map. exact Hin.
  - apply IH; auto.
Qed.

Lemma lookup_id_none l id : (forall n, In n l -> n_id n <> id) -> lookup_id l id = None.
Proof.
  induction l as [|x l IH]; intros H; [reflexivity|]. unfold lookup_id. cbn [find].
  destruct (Nat.eqb_spec (n_id x) id) as [E|E]; [exfalso; apply (H x); cbn; auto|].
  apply IH. intros n Hn. apply H. cbn. auto.
Qed.

Lemma NoDup_ids_app a b : NoDup (ids (a ++ b)) -> NoDup (ids a) /\ NoDup (ids b).
Proof.
  unfold ids. rewrite map_app. intros H. rewrite !(NoDup_count_occ Nat.eq_dec) in *.
  split; intro x; specialize (H x); rewrite count_occ_app in H; lia.
Qed.

Lemma NoDup_app_r {A} (dec : forall x y : A, {x = y} + {x <> y}) (a b : list A) : NoDup (a ++ b) -> NoDup b.
Proof. rewrite !(NoDup_count_occ dec). intros H x. specialize (H x). rewrite count_occ_app in H. lia. Qed.

Lemma max_id_le l nid : (forall n, In n l -> (n_id n < nid)%nat) -> (max_id l <= nid)%nat.
Proof.
  induction l as [|x l IH]; intros H; cbn [max_id fold_right]; [lia|].
  assert (n_id x < nid)%nat by (apply H; cbn; auto).
  assert (max_id l <= nid)%nat by (apply IH; intros n Hn; apply H; cbn; auto). unfold max_id in *. lia.
Qed.

(* ---- one element ------------------------------------------------------------------------------------ *)
Lemma elem_ok_untouched k o assignable next ev prev_same prev_other n :
  NoDup (ids prev_same) -> In n prev_same -> elem_ok k o assignable next ev prev_same prev_other n = true.
Proof.
  intros Hnd Hin. unfold elem_ok. rewrite (lookup_id_in _ _ Hnd Hin).
  rewrite slot_eqb_refl, !Z.eqb_refl. reflexivity.
Qed.

Lemma elem_ok_selected k o next ev prev_same prev_other nid n' :
  NoDup (ids (prev_same ++ prev_other)) ->
  (forall n, In n (prev_same ++ prev_other) -> (n_id n < nid)%nat) -> (next <= nid)%nat ->
  (((nid <= n_id n')%nat /\ In (birth k (n_id n') (n_slot n')) ev) \/
   (exists n, In n prev_same /\ survives (may_assign k o) n n')) ->
  elem_ok k o true next ev prev_same prev_other n' = true.
Proof.
  intros Hnd Hlt Hnext [(Hnew & Hb)|(n & Hn & (F1 & F2 & F3 & F4))]; unfold elem_ok.
  - rewrite lookup_id_none.
    2:{ intros n Hn E. assert (n_id n < nid)%nat by (apply Hlt; apply in_or_app; auto). lia. }
    rewrite lookup_id_none.
    2:{ intros n Hn E. assert (n_id n < nid)%nat by (apply Hlt; apply in_or_app; auto). lia. }
    apply andb_true_iff. split; [apply Nat.leb_le; lia|].
    apply existsb_exists. exists (birth k (n_id n') (n_slot n')). split; auto. apply born_birth.
  - destruct (NoDup_ids_app _ _ Hnd) as (Hs & _). rewrite <- F1. rewrite (lookup_id_in _ _ Hs Hn).
    rewrite <- F2, <- F3, slot_eqb_refl, Z.eqb_refl. cbn [andb].
    destruct F4 as [<- | ->]; [rewrite Z.eqb_refl; reflexivity|apply orb_true_r].
Qed.

(* ---- shape of check_step for the operations other than swap -------------------------------------------- *)
Definition check_common (kd : kind) (st : sstate) (o : op) (now : obs) (ev : list event) : bool :=
  nodup_nat (map n_id (ob_a now ++ ob_b now)) && nodup_slot (map n_slot (ob_a now ++ ob_b now)) &&
  (if is_pool kd then forallb pool_event_ok ev else true) &&
  forallb (free_ok o (ob_a now ++ ob_b now)) ev &&
  forallb (destroy_ok (ob_a (ss_obs st) ++ ob_b (ss_obs st)) (ss_next st)) ev.

Definition check_sides (kd : kind) (st : sstate) (o : op) (now : obs) (ev : list event) : bool :=
  (if ss_cur st then nodes_eqb (ob_a now) (ob_a (ss_obs st)) else nodes_eqb (ob_b now) (ob_b (ss_obs st))) &&
  forallb (elem_ok kd o (negb (ss_cur st)) (ss_next st) ev (ob_a (ss_obs st)) (ob_b (ss_obs st))) (ob_a now) &&
  forallb (elem_ok kd o (ss_cur st) (ss_next st) ev (ob_b (ss_obs st)) (ob_a (ss_obs st))) (ob_b now) &&
  (if ss_cur st then removed_ok kd o (ob_b (ss_obs st)) (ob_a (ss_obs st)) (ob_b now) else removed_ok kd o (ob_a (ss_obs st)) (ob_b (ss_obs st)) (ob_a now)).

Lemma check_step_noswap kd st o now ev :
  o <> OSwap -> check_step kd st o now ev = check_common kd st o now ev && check_sides kd st o now ev.
Proof. intros H. destruct o; try reflexivity. congruence. Qed.

Lemma check_step_swap kd st now ev :
  check_step kd st OSwap now ev =
  check_common kd st OSwap now ev &&
  (if has_swap kd
   then nodes_eqb (ob_a now) (ob_b (ss_obs st)) && nodes_eqb (ob_b now) (ob_a (ss_obs st))
   else nodes_eqb (ob_a now) (ob_a (ss_obs st)) && nodes_eqb (ob_b now) (ob_b (ss_obs st))).
Proof. reflexivity. Qed.

Lemma op_eq_swap (o : op) : o = OSwap \/ o <> OSwap.
Proof. destruct o; auto; right; discriminate. Qed.

Record Link (ss : sstate) (st : state) : Prop := mkLink {
  lk_obs : ss_obs ss = observe st;
  lk_cur : ss_cur ss = s_cur st;
  lk_next : (ss_next ss <= s_nid st)%nat }.

Lemma Link_init k cap : Link ss_init (init k cap).
Proof. constructor; cbn; auto. unfold observe. cbn. rewrite !elems_init. reflexivity. Qed.

Lemma common_ok k cap ss st o st' ev :
  Inv k st -> Link ss st -> step k cap st o = (st', ev) -> check_common k ss o (observe st') ev = true.
Proof.
  intros HI [L1 L2 L3] E. pose proof (step_facts _ _ _ _ _ _ HI E) as F.
  pose proof (sf_inv _ _ _ _ _ F) as HI'.
  destruct (Inv_ids _ _ HI') as (Hnd' & _). destruct (Inv_ids _ _ HI) as (Hnd & _).
  unfold check_common. rewrite L1. cbn [observe ob_a ob_b]. fold (all_elems st') (all_elems st).
  repeat (apply andb_true_iff; split).
  - apply nodup_nat_true. exact Hnd'.
  - apply nodup_slot_true. pose proof (Inv_slots _ _ HI') as H. apply (NoDup_app_r sdec) in H. exact H.
  - destruct (is_pool k) eqn:Ep; auto. apply forallb_forall. intros e He.
    pose proof (sf_pool _ _ _ _ _ F Ep) as Hp. rewrite Forall_forall in Hp. specialize (Hp e He). destruct e; auto; contradiction.
  - apply forallb_forall. intros e He. destruct e; cbn [free_ok]; auto.
    destruct o; cbn [is_destroy_op orb]; auto;
      (assert (Hnf : Forall not_free ev) by (apply (sf_free _ _ _ _ _ F); discriminate));
      rewrite Forall_forall in Hnf; specialize (Hnf _ He); contradiction.
  - apply forallb_forall. intros e He. pose proof (sf_des _ _ _ _ _ F) as Hd. rewrite Forall_forall in Hd.
    specialize (Hd e He). destruct e; cbn [destroy_ok]; auto. cbn [des_ok] in Hd. destruct Hd as (n & Hn & <- & <-).
    rewrite (lookup_id_in _ _ Hnd); [apply slot_eqb_refl|]. apply all_elems_in. auto.
Qed.

Lemma forallb_untouched k o assignable next ev l other_l :
  NoDup (ids l) -> forallb (elem_ok k o assignable next ev l other_l) l = true.
Proof. intros H. apply forallb_forall. intros n Hn. apply elem_ok_untouched; auto. Qed.

Lemma sides_ok k cap ss st o st' ev :
  Inv k st -> Link ss st -> o <> OSwap -> step k cap st o = (st', ev) -> check_sides k ss o (observe st') ev = true.
Proof.
  intros HI [L1 L2 L3] Hns E. pose proof (step_facts _ _ _ _ _ _ HI E) as F.
  destruct (Inv_ids _ _ HI) as (Hnd & Hlt). unfold all_elems in Hnd, Hlt.
  destruct (NoDup_ids_app _ _ Hnd) as (Hnda & Hndb).
  assert (Hndba : NoDup (ids (elems (s_b st) ++ elems (s_a st)))).
  { unfold ids in *. rewrite map_app in *. rewrite (NoDup_count_occ Nat.eq_dec) in *. intro x. specialize (Hnd x).
    rewrite count_occ_app in *. lia. }
  assert (Hltba : forall n, In n (elems (s_b st) ++ elems (s_a st)) -> (n_id n < s_nid st)%nat).
  { intros n Hn. apply Hlt. rewrite in_app_iff in *. tauto. }
  unfold check_sides. rewrite L1, L2. cbn [observe ob_a ob_b].
  destruct (cont_op o) eqn:Eo.
  - pose proof (sf_cur _ _ _ _ _ F Eo) as Hc. pose proof (sf_other _ _ _ _ _ F Eo) as Ho.
    pose proof (sf_nodes _ _ _ _ _ F Eo) as Hn. unfold sel, other in *. rewrite Hc in *.
    pose proof (sf_lost _ _ _ _ _ F Eo) as Hl. unfold sel, other in Hl. rewrite Hc in Hl.
    destruct (s_cur st); cbn [negb].
    + rewrite Ho. rewrite nodes_eqb_refl, forallb_untouched by exact Hnda. cbn [andb]. rewrite Hl, andb_true_r.
      apply forallb_forall. intros n' Hn'. eapply elem_ok_selected; eauto.
    + rewrite Ho. rewrite nodes_eqb_refl. cbn [andb]. rewrite Hl, andb_true_r. apply andb_true_iff. split.
      * apply forallb_forall. intros n' Hn'. eapply elem_ok_selected; eauto.
      * apply forallb_untouched. exact Hndb.
  - unfold step in E. destruct o; try discriminate; [|congruence].
    injection E as <- <-. cbn [s_a s_b].
    unfold removed_ok. cbn [removal_budget]. rewrite !missing_refl.
    destruct (s_cur st); rewrite nodes_eqb_refl, !forallb_untouched; auto.
Qed.

Lemma link_next k cap ss st o st' ev :
  Inv k st -> Link ss st -> step k cap st o = (st', ev) -> Link (next_sstate ss o (observe st')) st'.
Proof.
  intros HI [L1 L2 L3] E. pose proof (step_facts _ _ _ _ _ _ HI E) as F.
  destruct (Inv_ids _ _ (sf_inv _ _ _ _ _ F)) as (_ & Hlt').
  constructor; cbn [next_sstate ss_obs ss_cur ss_next]; auto.
  - rewrite L2. destruct (cont_op o) eqn:Eo.
    + rewrite (sf_cur _ _ _ _ _ F Eo). destruct o; auto; discriminate.
    + unfold step in E. destruct o; try discriminate.
      * injection E as <- <-. reflexivity.
      * destruct (has_swap k); injection E as <- <-; reflexivity.
  - cbn [observe ob_a ob_b]. fold (all_elems st').
    pose proof (max_id_le _ _ Hlt'). pose proof (sf_nid _ _ _ _ _ F). lia.
Qed.

Lemma check_step_ok k cap ss st o st' ev :
  Inv k st -> Link ss st -> step k cap st o = (st', ev) -> check_step k ss o (observe st') ev = true.
Proof.
  intros HI HL E. destruct (op_eq_swap o) as [->|Hns].
  - rewrite check_step_swap. rewrite (common_ok _ _ _ _ _ _ _ HI HL E). cbn [andb].
    destruct HL as [L1 L2 L3]. rewrite L1. cbn [observe ob_a ob_b]. unfold step in E.
    destruct (has_swap k); injection E as <- <-; cbn [s_a s_b]; rewrite !nodes_eqb_refl; reflexivity.
  - rewrite check_step_noswap by exact Hns. rewrite (common_ok _ _ _ _ _ _ _ HI HL E), (sides_ok _ _ _ _ _ _ _ HI HL Hns E). reflexivity.
Qed.

Theorem trace_ok k cap ops : forall ss st i,
  Inv k st -> Link ss st -> check_trace k ss (trace k cap st ops) i = None.
Proof.
  induction ops as [|o ops IH]; intros ss st i HI HL; cbn [trace check_trace]; [reflexivity|].
  destruct (step k cap st o) as [st' ev] eqn:E. cbn [check_trace].
  rewrite (check_step_ok _ _ _ _ _ _ _ HI HL E).
  apply IH; [exact (sf_inv _ _ _ _ _ (step_facts _ _ _ _ _ _ HI E))|eapply link_next; eauto].
Qed.

Lemma model_satisfies_spec_all k cap ops : check_trace k ss_init (trace k cap (init k cap) ops) 0 = None.
Proof. apply trace_ok; [apply Inv_init|apply Link_init]. Qed.
