(* Block ownership: every item (free or live) of a container lies in a block that container owns,
   no block is owned twice, and a container's block list only grows until its destructor runs. *)
From Coq Require Import ZArith List Bool Arith Lia.
From Stable Require Import Gen_Stable StableSpec StableModel StableTree StableInv StableProofs StableTheorems.
Import ListNotations.

Definition blocks (c : cont) : list nat := p_blocks (c_pool c).

Record BInv (c o : cont) (ser : nat) : Prop := mkBInv {
  bi_own : forall s, In s (cslots c) -> In (fst s) (blocks c);
  bi_own_o : forall s, In s (cslots o) -> In (fst s) (blocks o);
  bi_nd : NoDup (blocks c ++ blocks o);
  bi_lt : Forall (fun b => (b < ser)%nat) (blocks c ++ blocks o) }.

Lemma BInv_sym c o ser : BInv c o ser -> BInv o c ser.
Proof.
  intros [H1 H2 H3 H4]. constructor; auto.
  - rewrite (NoDup_count_occ Nat.eq_dec) in *. intro x. specialize (H3 x). rewrite count_occ_app in *. lia.
  - rewrite Forall_forall in *. intros x Hx. apply H4. in_solve.
Qed.

Lemma BInv_mono c o ser ser' : BInv c o ser -> (ser <= ser')%nat -> BInv c o ser'.
Proof. intros [H1 H2 H3 H4] Hle. constructor; auto. apply (Forall_lt_mono (fun b => b) ser ser'); auto. Qed.

Lemma BInv_init k cap : BInv (init_cont k cap) (init_cont k cap) 0.
Proof.
  constructor; unfold cslots, blocks; rewrite ?elems_init; cbn; try constructor; intros s [].
Qed.

Lemma BInv_ins_eff k key val c o ser nid c' ser' nid' ev :
  BInv c o ser -> InsEff k key val c ser nid c' ser' nid' ev ->
  BInv c' o ser' /\ incl (blocks c) (blocks c').
Proof.
  intros [H1 H2 H3 H4] E.
  destruct E
    as (_ & _ & [(-> & -> & Ep & Hel)|(-> & nd & l1 & l2 & ser1 & ev1 & ev2 & E1 & E2 & E3 & Hle & Ea & _)]).
  - assert (Hsl : slots (elems c') = slots (elems c)).
    { destruct Hel as [->|(_ & l1 & x & l2 & F1 & F2 & _)]; auto.
      rewrite F1, F2. unfold slots. rewrite !map_app. cbn [map set_val n_slot]. auto. }
    assert (Hcs : cslots c' = cslots c) by (unfold cslots; rewrite Ep, Hsl; reflexivity).
    assert (Hbl : blocks c' = blocks c) by (unfold blocks; rewrite Ep; reflexivity).
    split; [constructor; rewrite ?Hcs, ?Hbl; auto|rewrite Hbl; apply incl_refl].
  - apply alloc_effect in Ea.
    destruct Ea as [(Ef & Eb & -> & _)|(Ef & Hnd & Hfst & Eb & -> & _)].
    + assert (Hbl : blocks c' = blocks c) by (unfold blocks; rewrite Eb; reflexivity).
      split; [|rewrite Hbl; apply incl_refl]. constructor; rewrite ?Hbl; auto.
      * intros s Hs'. apply H1. unfold cslots, slots in *. rewrite Ef, E1. rewrite E2 in Hs'.
        rewrite !map_app in *. cbn [map] in *. in_solve.
      * apply (Forall_lt_mono (fun b => b) ser ser1); auto.
    + assert (Hbl : blocks c' = ser1 :: blocks c) by (unfold blocks; rewrite Eb; reflexivity).
      split; [|rewrite Hbl; intros b Hb; cbn; auto]. constructor; rewrite ?Hbl.
      * intros s Hs'. unfold cslots, slots in Hs'. rewrite E2 in Hs'. rewrite !map_app in Hs'. cbn [map] in Hs'.
        assert (Hc : In s (n_slot nd :: p_free (c_pool c')) \/ In s (map n_slot l1 ++ map n_slot l2)) by in_solve.
        destruct Hc as [Hc|Hc]; [left; symmetry; apply Hfst; exact Hc|].
        right. apply H1. unfold cslots, slots. rewrite Ef, E1, map_app. cbn [app]. exact Hc.
      * exact H2.
      * cbn [app]. constructor; auto. intro Hin. rewrite Forall_forall in H4. specialize (H4 _ Hin). cbn in H4. lia.
      * cbn [app]. constructor; [lia|]. apply (Forall_lt_mono (fun b => b) ser (S ser1)); auto.
Qed.

Lemma BInv_insert k pos key val c o ser nid c' ser' nid' ev :
  shape k c -> BInv c o ser -> c_insert k pos key val c ser nid = (c', ser', nid', ev) ->
  BInv c' o ser' /\ incl (blocks c) (blocks c').
Proof. intros Hs Hb E. eapply BInv_ins_eff; eauto. eapply c_insert_eff; eauto. Qed.

Lemma BInv_remove k pos c o ser c' ev :
  shape k c -> BInv c o ser -> c_remove_at pos c = (c', ev) -> BInv c' o ser /\ blocks c' = blocks c.
Proof.
  intros Hs [H1 H2 H3 H4] E.
  destruct (c_remove_at_effect _ _ _ _ _ Hs E) as (_ & [(-> & _)|(nd & l1 & l2 & E1 & E2 & Ep & _)]).
  - split; [constructor; auto|reflexivity].
  - assert (Hbl : blocks c' = blocks c) by (unfold blocks; rewrite Ep; reflexivity).
    split; [|exact Hbl]. constructor; rewrite ?Hbl; auto.
    intros s Hs'. apply H1. unfold cslots, slots in *. rewrite E1. rewrite E2, Ep in Hs'. cbn [release p_free] in Hs'.
    rewrite !map_app in *. cbn [map] in *. in_solve.
Qed.

Lemma BInv_clear k c o ser c' ev :
  shape k c -> BInv c o ser -> c_clear c = (c', ev) -> BInv c' o ser /\ blocks c' = blocks c.
Proof.
  intros Hs [H1 H2 H3 H4] E. destruct (c_clear_effect _ _ _ _ Hs E) as (_ & E1 & _ & Ef & Eb).
  assert (Hbl : blocks c' = blocks c) by (unfold blocks; exact Eb).
  split; [|exact Hbl]. constructor; rewrite ?Hbl; auto.
  intros s Hs'. apply H1. unfold cslots in *. rewrite E1, Ef in Hs'. cbn [slots map] in Hs'. rewrite app_nil_r in Hs'.
  rewrite !in_app_iff in *. rewrite <- in_rev in Hs'. tauto.
Qed.

Lemma BInv_destroy k cap c o ser : BInv c o ser -> BInv (init_cont k cap) o ser.
Proof.
  intros [H1 H2 H3 H4]. constructor; auto; unfold cslots, blocks in *; rewrite ?elems_init; cbn [init_cont c_pool pool_empty p_free p_blocks slots map app].
  - intros s [].
  - rewrite (NoDup_count_occ Nat.eq_dec) in *. intro x. specialize (H3 x). rewrite count_occ_app in H3. lia.
  - rewrite Forall_forall in *. intros x Hx. apply H4. in_solve.
Qed.

Lemma BInv_ins_fold k o off src : forall c ser nid ev c' ser' nid' ev',
  shape k c -> BInv c o ser ->
  fold_left (ins_fold k off) src (c, ser, nid, ev) = (c', ser', nid', ev') ->
  BInv c' o ser' /\ incl (blocks c) (blocks c').
Proof.
  induction src as [|e src IH]; intros c ser nid ev c' ser' nid' ev' Hs Hb E; cbn [fold_left] in E.
  - injection E as <- <- <- <-. split; auto. apply incl_refl.
  - unfold ins_fold at 2 in E.
    destruct (c_insert k (ins_pos off c) (n_key e) (n_val e) c ser nid) as [[[c2 ser2] nid2] ev2] eqn:Ei.
    destruct (BInv_insert _ _ _ _ _ _ _ _ _ _ _ _ Hs Hb Ei) as (Hb2 & Hi2).
    destruct (c_insert_effect _ _ _ _ _ _ _ _ _ _ _ Hs Ei) as (Hs2 & _).
    destruct (IH _ _ _ _ _ _ _ _ Hs2 Hb2 E) as (K1 & K2). split; auto. eapply incl_tran; eauto.
Qed.

Lemma BInv_rem_fold k o ser src : forall c ev c' ev',
  shape k c -> BInv c o ser -> fold_left (rem_fold k) src (c, ev) = (c', ev') -> BInv c' o ser /\ blocks c' = blocks c.
Proof.
  induction src as [|e src IH]; intros c ev c' ev' Hs Hb E; cbn [fold_left] in E.
  - injection E as <- <-. auto.
  - unfold rem_fold at 2 in E. destruct (find_pos k (n_key e) c) as [i|]; [|eapply IH; eauto].
    destruct (c_remove_at i c) as [c2 ev2] eqn:Er.
    destruct (BInv_remove _ _ _ _ _ _ _ Hs Hb Er) as (Hb2 & Hbl).
    destruct (c_remove_at_effect _ _ _ _ _ Hs Er) as (Hs2 & _).
    destruct (IH _ _ _ _ Hs2 Hb2 E) as (K1 & K2). split; auto. congruence.
Qed.

Definition SBInv (st : state) : Prop := BInv (s_a st) (s_b st) (s_ser st).

Lemma SBInv_sel st : SBInv st -> BInv (sel st) (other st) (s_ser st).
Proof. unfold SBInv, sel, other. destruct (s_cur st); auto. apply BInv_sym. Qed.

Lemma SBInv_set_sel st c ser nid : BInv c (other st) ser -> SBInv (set_sel st c ser nid).
Proof. unfold SBInv, set_sel, other. destruct (s_cur st); cbn; auto. apply BInv_sym. Qed.

Definition keeps_blocks (o : op) : bool := match o with OSwap | ODestroy => false | _ => true end.

Lemma step_blocks k cap st o st' ev :
  Inv k st -> SBInv st -> step k cap st o = (st', ev) ->
  SBInv st' /\
  (keeps_blocks o = true -> incl (blocks (s_a st)) (blocks (s_a st')) /\ incl (blocks (s_b st)) (blocks (s_b st'))).
Proof.
  intros HI HB E. destruct (Inv_sel _ _ HI) as (_ & Hs & _). pose proof (SBInv_sel _ HB) as Hb.
  assert (G : forall c' ser' nid', BInv c' (other st) ser' -> incl (blocks (sel st)) (blocks c') ->
              SBInv (set_sel st c' ser' nid') /\
              (incl (blocks (s_a st)) (blocks (s_a (set_sel st c' ser' nid'))) /\
               incl (blocks (s_b st)) (blocks (s_b (set_sel st c' ser' nid'))))).
  { intros c' ser' nid' H1 H2. split; [apply SBInv_set_sel; exact H1|].
    unfold set_sel, sel in *. destruct (s_cur st); cbn [s_a s_b]; split; auto; apply incl_refl. }
  assert (GI : forall pos key val c' ser' nid' ev',
             c_insert k pos key val (sel st) (s_ser st) (s_nid st) = (c', ser', nid', ev') ->
             SBInv (set_sel st c' ser' nid') /\
             (incl (blocks (s_a st)) (blocks (s_a (set_sel st c' ser' nid'))) /\
              incl (blocks (s_b st)) (blocks (s_b (set_sel st c' ser' nid'))))).
  { intros pos key val c' ser' nid' ev' Ei. destruct (BInv_insert _ _ _ _ _ _ _ _ _ _ _ _ Hs Hb Ei). apply G; auto. }
  assert (GR : forall pos c' ev',
             c_remove_at pos (sel st) = (c', ev') ->
             SBInv (set_sel st c' (s_ser st) (s_nid st)) /\
             (incl (blocks (s_a st)) (blocks (s_a (set_sel st c' (s_ser st) (s_nid st)))) /\
              incl (blocks (s_b st)) (blocks (s_b (set_sel st c' (s_ser st) (s_nid st)))))).
  { intros pos c' ev' Er. destruct (BInv_remove _ _ _ _ _ _ _ Hs Hb Er) as (H1 & H2). apply G; auto. rewrite H2. apply incl_refl. }
  unfold step in E. destruct o as [b|key v|key v|pos key v|pos| | |key| | | | |ipos| |hpos key v]; cbn [keeps_blocks].
  - injection E as <- <-. split; [exact HB|]. intros _. cbn [s_a s_b]. split; apply incl_refl.
  - destruct (c_insert k (length (elems (sel st))) key v (sel st) (s_ser st) (s_nid st)) as [[[c' ser'] nid'] ev'] eqn:Ei.
    injection E as <- <-. destruct (GI _ _ _ _ _ _ _ Ei). auto.
  - destruct (c_insert k 0 key v (sel st) (s_ser st) (s_nid st)) as [[[c' ser'] nid'] ev'] eqn:Ei.
    injection E as <- <-. destruct (GI _ _ _ _ _ _ _ Ei). auto.
  - destruct (c_insert k pos key v (sel st) (s_ser st) (s_nid st)) as [[[c' ser'] nid'] ev'] eqn:Ei.
    injection E as <- <-. destruct (GI _ _ _ _ _ _ _ Ei). auto.
  - destruct (c_remove_at pos (sel st)) as [c' ev'] eqn:Er. injection E as <- <-. destruct (GR _ _ _ Er). auto.
  - destruct (c_remove_at 0 (sel st)) as [c' ev'] eqn:Er. injection E as <- <-. destruct (GR _ _ _ Er). auto.
  - destruct (c_remove_at (length (elems (sel st)) - 1) (sel st)) as [c' ev'] eqn:Er. injection E as <- <-. destruct (GR _ _ _ Er). auto.
  - destruct (find_pos k key (sel st)) as [i|].
    + destruct (c_remove_at i (sel st)) as [c' ev'] eqn:Er. injection E as <- <-. destruct (GR _ _ _ Er). auto.
    + injection E as <- <-. split; auto. intros _. split; apply incl_refl.
  - destruct (c_clear (sel st)) as [c' ev'] eqn:Ec. injection E as <- <-.
    destruct (BInv_clear _ _ _ _ _ _ Hs Hb Ec) as (H1 & H2).
    destruct (G c' (s_ser st) (s_nid st) H1 ltac:(rewrite H2; apply incl_refl)). auto.
  - destruct (has_swap k); injection E as <- <-; (split; [|discriminate]); auto.
    unfold SBInv in *. cbn [s_a s_b s_ser]. apply BInv_sym. exact HB.
  - destruct (has_assign k); [|injection E as <- <-; split; auto; intros _; split; apply incl_refl].
    destruct (c_assign k (elems (other st)) (sel st) (s_ser st) (s_nid st)) as [[[c' ser'] nid'] ev'] eqn:Ea.
    injection E as <- <-. rewrite c_assign_eq in Ea. destruct (c_clear (sel st)) as [c0 ev0] eqn:Ec.
    destruct (BInv_clear _ _ _ _ _ _ Hs Hb Ec) as (H1 & H2).
    destruct (c_clear_effect _ _ _ _ Hs Ec) as (Hs0 & _).
    destruct (BInv_ins_fold _ _ _ _ _ _ _ _ _ _ _ _ Hs0 H1 Ea) as (K1 & K2).
    destruct (G c' ser' nid' K1 ltac:(rewrite <- H2; exact K2)). auto.
  - unfold c_destroy in E. injection E as <- <-. split; [|discriminate].
    apply SBInv_set_sel. eapply BInv_destroy. exact Hb.
  - destruct (has_insall k); [|injection E as <- <-; split; auto; intros _; split; apply incl_refl].
    destruct (c_insert_all k ipos (elems (other st)) (sel st) (s_ser st) (s_nid st)) as [[[c' ser'] nid'] ev'] eqn:Ea.
    injection E as <- <-. unfold c_insert_all in Ea.
    destruct (BInv_ins_fold _ _ _ _ _ _ _ _ _ _ _ _ Hs Hb Ea) as (K1 & K2).
    destruct (G c' ser' nid' K1 K2). auto.
  - destruct (has_remall k); [|injection E as <- <-; split; auto; intros _; split; apply incl_refl].
    destruct (c_remove_all k (elems (other st)) (sel st)) as [c' ev'] eqn:Er. injection E as <- <-. unfold c_remove_all in Er.
    destruct (BInv_rem_fold _ _ _ _ _ _ _ _ Hs Hb Er) as (K1 & K2).
    destruct (G c' (s_ser st) (s_nid st) K1 ltac:(rewrite K2; apply incl_refl)). auto.
  - destruct (has_hint k); [|injection E as <- <-; split; auto; intros _; split; apply incl_refl].
    destruct (c_insert_hint k hpos key v (sel st) (s_ser st) (s_nid st)) as [[[c' ser'] nid'] ev'] eqn:Ei.
    injection E as <- <-. destruct (BInv_ins_eff _ _ _ _ _ _ _ _ _ _ _ Hb (c_insert_hint_eff _ _ _ _ _ _ _ _ _ _ _ Hs Ei)) as (B1 & B2).
    destruct (G c' ser' nid' B1 B2). auto.
Qed.

Lemma run_sbinv k cap ops : forall st, Inv k st -> SBInv st -> SBInv (run k cap st ops).
Proof.
  induction ops as [|o ops IH]; intros st HI HB; cbn [run]; auto.
  destruct (step k cap st o) as [st' ev] eqn:E. cbn [fst].
  apply IH; [exact (sf_inv _ _ _ _ _ (step_facts _ _ _ _ _ _ HI E))|exact (proj1 (step_blocks _ _ _ _ _ _ HI HB E))].
Qed.

Lemma reachable_sbinv k cap ops : SBInv (run k cap (init k cap) ops).
Proof. apply run_sbinv; [apply Inv_init|]. unfold SBInv. cbn [init s_a s_b s_ser]. apply BInv_init. Qed.

(* every live element lies in a block its own container owns, and no other container owns that block *)
Lemma live_in_owned_block_all k cap ops n :
  let st := run k cap (init k cap) ops in
  (In n (elems (s_a st)) -> In (fst (n_slot n)) (blocks (s_a st)) /\ ~ In (fst (n_slot n)) (blocks (s_b st))) /\
  (In n (elems (s_b st)) -> In (fst (n_slot n)) (blocks (s_b st)) /\ ~ In (fst (n_slot n)) (blocks (s_a st))).
Proof.
  intros st. destruct (reachable_sbinv k cap ops) as [H1 H2 H3 H4]. fold st in H1, H2, H3, H4.
  rewrite (NoDup_count_occ Nat.eq_dec) in H3.
  split; intros Hn.
  - assert (Hin : In (fst (n_slot n)) (blocks (s_a st))).
    { apply H1. unfold cslots. apply in_or_app. right. apply in_map. exact Hn. }
    split; auto. intro Hb. specialize (H3 (fst (n_slot n))). rewrite count_occ_app in H3.
    apply (count_occ_In Nat.eq_dec) in Hin. apply (count_occ_In Nat.eq_dec) in Hb. lia.
  - assert (Hin : In (fst (n_slot n)) (blocks (s_b st))).
    { apply H2. unfold cslots. apply in_or_app. right. apply in_map. exact Hn. }
    split; auto. intro Hb. specialize (H3 (fst (n_slot n))). rewrite count_occ_app in H3.
    apply (count_occ_In Nat.eq_dec) in Hin. apply (count_occ_In Nat.eq_dec) in Hb. lia.
Qed.

Lemma blocks_kept_all k cap ops o st' ev :
  let st := run k cap (init k cap) ops in
  step k cap st o = (st', ev) -> keeps_blocks o = true ->
  incl (blocks (s_a st)) (blocks (s_a st')) /\ incl (blocks (s_b st)) (blocks (s_b st')).
Proof.
  intros st E Hk.
  exact (proj2 (step_blocks _ _ _ _ _ _ (reachable_inv k cap ops) (reachable_sbinv k cap ops) E) Hk).
Qed.
