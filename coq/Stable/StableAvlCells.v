(* Map / MultiMap at pointer level.  The cell machine of coq/Avl (AvlHeapModel.v: every Item field write of Map.hpp /
   MultiMap.hpp - descent, link, rotations, the walk up the parent chain, the two-child removal that puts the neighbour
   Item in the place of the removed one - on a heap of cells addressed by the Item's allocation number) is proved there
   to refine the node-level AVL model, which refines a sorted list of entries (key, value, slot).  This file draws the
   consequence property C05 needs: the key and value FIELDS of an Item that stays in the container are never rewritten
   by insertions, removals and re-balancing (the value only by an assignment to that very key): payloads are not moved
   from one Item to another.  Nothing in coq/Avl is changed; only its theorems are used. *)
From Coq Require Import ZArith List Bool Arith Lia.
From Avl Require Import AvlSpec AvlModel AvlLists AvlRefine AvlHeapModel AvlHeapRep AvlHeapOps AvlHeapRefine.
Import ListNotations.
Local Open Scope Z_scope.

(* operations that may assign the value stored under key k (Map::insert on an existing key; Map::insert(const Map&)) *)
Definition touches (k : Z) (o : op) : bool :=
  match o with OIns k' _ | OHint _ k' _ => k' =? k | OBulk => true | _ => false end.

(* e' (after) is the entry e (before): same Item, same key, same value unless an assignment to that key is possible *)
Definition same_item (A : Z -> bool) (e e' : entry) : Prop :=
  eslot e = eslot e' /\ ekey e = ekey e' /\ (eval e = eval e' \/ A (ekey e) = true).
(* every entry after is either a new Item (allocation number >= n) or one of the entries before *)
Definition kept (A : Z -> bool) (n : nat) (l l' : list entry) : Prop :=
  forall e', In e' l' -> (n <= eslot e')%nat \/ exists e, In e l /\ same_item A e e'.

Lemma same_item_refl A e : same_item A e e.
Proof. unfold same_item. auto. Qed.

Lemma kept_sub A n l l' : (forall e, In e l' -> In e l) -> kept A n l l'.
Proof. intros H e' He'. right. exists e'. split; auto. apply same_item_refl. Qed.

Lemma kept_refl A n l : kept A n l l.
Proof. apply kept_sub. auto. Qed.

Lemma kept_ext A B n l l' : (forall x, A x = true -> B x = true) -> kept A n l l' -> kept B n l l'.
Proof.
  intros HAB H e' He'. destruct (H e' He') as [Hn|(e & He & (F1 & F2 & F3))]; [left; exact Hn|].
  right. exists e. split; auto. unfold same_item. repeat split; auto. destruct F3; auto.
Qed.

Lemma kept_trans A n n1 l l1 l2 :
  (n <= n1)%nat -> kept A n l l1 -> kept A n1 l1 l2 -> kept A n l l2.
Proof.
  intros Hle H1 H2 e2 He2. destruct (H2 e2 He2) as [Hn|(e1 & He1 & (F1 & F2 & F3))]; [left; lia|].
  destruct (H1 e1 He1) as [Hn|(e & He & (G1 & G2 & G3))]; [left; rewrite <- F1; exact Hn|].
  right. exists e. split; auto. unfold same_item. split; [congruence|]. split; [congruence|].
  destruct G3 as [G3|G3]; [|right; exact G3]. destruct F3 as [F3|F3]; [left; congruence|right; rewrite G2; exact F3].
Qed.

(* ---- the list operations of the reference ------------------------------------------------------------------------ *)
Lemma ins_list_kept f k v n l : kept (fun x => k =? x) n l (ins_list f k v n l).
Proof.
  induction l as [|e t IH]; cbn [ins_list].
  - intros e' [<-|[]]. left. cbn. lia.
  - destruct (k <? ekey e).
    + intros e' [<-|He']; [left; cbn; lia|]. right. exists e'. split; auto. apply same_item_refl.
    + assert (Hrec : kept (fun x => k =? x) n (e :: t) (e :: ins_list f k v n t)).
      { intros e' [<-|He']; [right; exists e; split; [cbn; auto|apply same_item_refl]|].
        destruct (IH e' He') as [Hn|(e0 & He0 & Hs)]; [left; exact Hn|]. right. exists e0. split; [cbn; auto|exact Hs]. }
      destruct f; [|exact Hrec]. destruct (k =? ekey e) eqn:Ek; [|exact Hrec].
      intros e' [<-|He'].
      * right. exists e. split; [cbn; auto|]. unfold same_item. cbn [eslot ekey eval fst snd].
        apply Z.eqb_eq in Ek. split; [reflexivity|]. split; [congruence|]. right. apply Z.eqb_eq. exact Ek.
      * right. exists e'. split; [cbn; auto|apply same_item_refl].
Qed.

Lemma insert_at_kept A p k v n l : kept A n l (insert_at p (k, v, n) l).
Proof.
  unfold insert_at. intros e' He'. apply in_app_or in He'. destruct He' as [He'|[<-|He']].
  - right. exists e'. split; [|apply same_item_refl]. rewrite <- (firstn_skipn p l). apply in_or_app. auto.
  - left. cbn. lia.
  - right. exists e'. split; [|apply same_item_refl]. rewrite <- (firstn_skipn p l). apply in_or_app. auto.
Qed.

Lemma renumber_kept A n l0 l : kept A n l0 (renumber n l).
Proof.
  intros e' He'. left. apply (in_map eslot) in He'. rewrite renumber_slots in He'. apply in_seq in He'. lia.
Qed.

Lemma s_insert_next f k v l n : (n <= snd (fst (s_insert f k v l n)))%nat.
Proof. unfold s_insert. cbn [fst snd]. destruct (match f with FMap => negb (has_key k l) | FMulti => true end); lia. Qed.

Lemma s_bulk_kept f src : forall l n,
  kept (fun _ => true) n l (fst (s_bulk f src l n)) /\ (n <= snd (s_bulk f src l n))%nat.
Proof.
  unfold s_bulk. induction src as [|e src IH]; intros l n; cbn [fold_left fst snd]; [split; [apply kept_refl|lia]|].
  pose proof (ins_list_kept f (ekey e) (eval e) n l) as H1. pose proof (s_insert_next f (ekey e) (eval e) l n) as H2.
  unfold s_insert in *. cbn [fst snd] in *.
  destruct (IH (ins_list f (ekey e) (eval e) n l)
               (if match f with FMap => negb (has_key (ekey e) l) | FMulti => true end then S n else n)) as (I1 & I2).
  split; [|lia]. eapply kept_trans; [exact H2| |exact I1]. eapply kept_ext; [|exact H1]. auto.
Qed.

(* ---- one operation of the reference ---------------------------------------------------------------------------------- *)
Definition side_of (b : bool) (sp : sstate) : list entry := if b then s_b sp else s_a sp.

Lemma kept_s_set A sp l' n' b :
  kept A (s_next sp) (s_sel sp) l' -> kept A (s_next sp) (side_of b sp) (side_of b (s_set sp l' n')).
Proof.
  intros H. unfold s_set, s_sel, side_of in *. destruct (s_cur sp), b; cbn [s_a s_b]; auto; apply kept_refl.
Qed.

(* The proof below does not name the operations of AvlSpec.op nor the shape of the branches of spec_step (that file
   belongs to property C01 and changes under other hands): every branch ends in the state itself, in a state with the
   selected container replaced by a sub-list / by the list with one fresh entry / by a renumbered copy, or in the result
   of s_insert / s_bulk. *)
Lemma ins_leaf f k v sp b (r : itr -> res) :
  let x := (let '(l', n', it) := s_insert f k v (s_sel sp) (s_next sp) in (s_set sp l' n', r it)) in
  kept (fun y => k =? y) (s_next sp) (side_of b sp) (side_of b (fst x)) /\ (s_next sp <= s_next (fst x))%nat.
Proof.
  pose proof (ins_list_kept f k v (s_next sp) (s_sel sp)) as H1. pose proof (s_insert_next f k v (s_sel sp) (s_next sp)) as H2.
  unfold s_insert in *. cbn [fst snd] in *. split; [apply kept_s_set; exact H1|].
  unfold s_set. destruct (s_cur sp); cbn [s_next]; exact H2.
Qed.

Lemma bulk_leaf f sp b (r : res) :
  let x := (let '(l', n') := s_bulk f (s_other sp) (s_sel sp) (s_next sp) in (s_set sp l' n', r)) in
  kept (fun _ => true) (s_next sp) (side_of b sp) (side_of b (fst x)) /\ (s_next sp <= s_next (fst x))%nat.
Proof.
  destruct (s_bulk_kept f (s_other sp) (s_sel sp) (s_next sp)) as (H1 & H2).
  destruct (s_bulk f (s_other sp) (s_sel sp) (s_next sp)) as [l' n']. cbn [fst snd] in *. split; [apply kept_s_set; exact H1|].
  unfold s_set. destruct (s_cur sp); cbn [s_next]; exact H2.
Qed.

Ltac kept_in He :=
  first [ exact (in_remove_nth _ _ _ He)
        | (rewrite <- remove_nth_last in He; exact (in_remove_nth _ _ _ He))
        | destruct He
        | (cbn; auto; fail) ].
Ltac kept_leaf :=
  cbn [fst];
  first [ split; [apply kept_refl|cbn [s_next]; lia]
        | split; [apply kept_s_set; repeat match goal with H : s_sel _ = _ |- _ => rewrite H end;
                  first [apply insert_at_kept | apply renumber_kept | apply kept_sub; let He := fresh "He" in (intros ? He; kept_in He)]
                 |unfold s_set; match goal with |- context [s_cur ?sp] => destruct (s_cur sp) end; cbn [s_next]; lia] ].
Ltac kept_crack :=
  first [ kept_leaf
        | match goal with
          | |- context [match ?x with _ => _ end] => destruct x eqn:?; kept_crack
          end ].

Lemma spec_step_kept f sp o ch b :
  kept (fun k => touches k o) (s_next sp) (side_of b sp) (side_of b (fst (spec_step f sp o ch))) /\
  (s_next sp <= s_next (fst (spec_step f sp o ch)))%nat.
Proof.
  assert (Hins : forall f0 k v (r : itr -> res), touches k o = true ->
            let x := (let '(l', n', it) := s_insert f0 k v (s_sel sp) (s_next sp) in (s_set sp l' n', r it)) in
            kept (fun y => touches y o) (s_next sp) (side_of b sp) (side_of b (fst x)) /\ (s_next sp <= s_next (fst x))%nat).
  { intros f0 k v r Ht. destruct (ins_leaf f0 k v sp b r) as (H1 & H2). split; [|exact H2].
    eapply kept_ext; [|exact H1]. intros y Hy. apply Z.eqb_eq in Hy. subst y. exact Ht. }
  destruct o; unfold spec_step; cbv beta iota zeta;
    try (apply Hins; cbn [touches]; apply Z.eqb_refl);
    try (destruct f; [apply Hins; cbn [touches]; apply Z.eqb_refl|]);
    try (destruct f; [destruct (bulk_leaf FMap sp b RNone) as (H1 & H2); split; [eapply kept_ext; [|exact H1]; auto|exact H2]|]);
    kept_crack.
Qed.

(* ---- histories of the node-level AVL model --------------------------------------------------------------------------- *)
Definition mside (b : bool) (st : mstate) : cont := if b then m_b st else m_a st.
Definition hside (b : bool) (hst : hstate) : cstate := if b then h_b hst else h_a hst.

Lemma side_abs b st : side_of b (abs st) = inorder (tr (mside b st)).
Proof. destruct b; reflexivity. Qed.

Lemma run_kept f ops : forall st b,
  Inv f st ->
  kept (fun k => existsb (touches k) ops) (m_next st) (inorder (tr (mside b st))) (inorder (tr (mside b (run f st ops)))).
Proof.
  induction ops as [|o ops IH]; intros st b HI; cbn [run]; [apply kept_refl|].
  pose proof (step_refines f st o HI) as E.
  destruct (spec_step_kept f (abs st) o (choice_of f st o) b) as (K1 & K2). rewrite E in K1, K2. cbn [fst] in K1, K2.
  rewrite !side_abs in K1. cbn [abs s_next] in K2.
  eapply kept_trans; [exact K2| |].
  - eapply kept_ext; [|exact K1]. intros x Hx. cbn [existsb]. rewrite Hx. reflexivity.
  - eapply kept_ext; [|apply IH; apply step_inv; exact HI]. intros x Hx. cbn [existsb]. rewrite Hx. apply orb_true_r.
Qed.

Lemma run_app f a : forall st b, run f st (a ++ b) = run f (run f st a) b.
Proof. induction a as [|o a IH]; intros st b; cbn [app run]; auto. Qed.

(* an entry that is in the container after ops1 and (its Item) still after ops1 ++ ops2 *)
Lemma entries_stable f ops1 ops2 b e1 e2 :
  In e1 (inorder (tr (mside b (run f m_init ops1)))) ->
  In e2 (inorder (tr (mside b (run f m_init (ops1 ++ ops2))))) ->
  eslot e1 = eslot e2 ->
  ekey e2 = ekey e1 /\ (existsb (touches (ekey e1)) ops2 = false -> eval e2 = eval e1).
Proof.
  intros H1 H2 Es. rewrite run_app in H2.
  pose proof (sinv_run f ops1) as HS. unfold SInv, sslot_ok in HS.
  assert (Hok : slot_okl (inorder (tr (mside b (run f m_init ops1)))) (m_next (run f m_init ops1))).
  { destruct HS as (Ha & Hb). destruct b; [exact Hb|exact Ha]. }
  destruct Hok as (Hnd & Hlt).
  destruct (run_kept f ops2 (run f m_init ops1) b (run_inv f ops1) e2 H2) as [Hn|(e & He & (F1 & F2 & F3))].
  - specialize (Hlt e1 H1). lia.
  - assert (e = e1).
    { assert (G : forall l : list entry, NoDup (map eslot l) -> forall x y, In x l -> In y l -> eslot x = eslot y -> x = y).
      { induction l as [|z l IHl]; intros Hd x y Hx Hy Exy; [destruct Hx|]. cbn [map] in Hd. apply NoDup_cons_iff in Hd as (Hz & Hd).
        destruct Hx as [<-|Hx], Hy as [<-|Hy]; auto.
        - exfalso. apply Hz. rewrite Exy. apply in_map. exact Hy.
        - exfalso. apply Hz. rewrite <- Exy. apply in_map. exact Hx. }
      apply (G _ Hnd); auto. congruence. }
    subst e. split; [congruence|]. intros Hno. destruct F3 as [F3|F3]; [congruence|]. rewrite F3 in Hno. discriminate.
Qed.

(* ---- the cells ---------------------------------------------------------------------------------------------------------- *)
Lemma trep_entry T par t e : trep T par t -> In e (inorder t) -> ckey (T (eslot e)) = ekey e /\ cval (T (eslot e)) = eval e.
Proof.
  revert par. induction t as [|l IHl k v s h r IHr]; intros par Ht He; cbn [inorder] in He; [destruct He|].
  cbn [trep] in Ht. destruct Ht as (H1 & H2 & _ & _ & _ & _ & _ & H8 & H9).
  apply in_app_or in He. destruct He as [He|[<-|He]]; [eapply IHl; eauto| |eapply IHr; eauto].
  cbn [eslot ekey eval fst snd]. auto.
Qed.

Lemma hrun_side f ops hst b :
  hrun f h_init ops = Some hst -> Rep (hside b hst) (mside b (run f m_init ops)).
Proof.
  intros E. destruct (hrun_refines f ops) as (hst' & E' & (Ha & Hb & _)). rewrite E in E'. injection E' as <-.
  destruct b; [exact Hb|exact Ha].
Qed.

(* The statement for property C05.  [s] is an Item (its allocation number) of container [b] after ops1 and still
   after ops1 ++ ops2: its key field is the same at both moments, and so is its value field unless ops2 contains an
   insertion of that key (Map assigns then) or a Map::insert(const Map&). *)
Theorem tree_cell_payload_stays f ops1 ops2 hst1 hst2 b s :
  hrun f h_init ops1 = Some hst1 -> hrun f h_init (ops1 ++ ops2) = Some hst2 ->
  In s (tslots (tr (mside b (run f m_init ops1)))) ->
  In s (tslots (tr (mside b (run f m_init (ops1 ++ ops2))))) ->
  let T1 := fst (ts (hside b hst1)) in
  let T2 := fst (ts (hside b hst2)) in
  ckey (T2 s) = ckey (T1 s) /\
  (existsb (touches (ckey (T1 s))) ops2 = false -> cval (T2 s) = cval (T1 s)).
Proof.
  intros E1 E2 H1 H2 T1 T2. rewrite tslots_inorder in H1, H2.
  apply in_map_iff in H1. destruct H1 as (e1 & <- & H1). apply in_map_iff in H2. destruct H2 as (e2 & Es & H2).
  destruct (hrun_side f ops1 hst1 b E1) as (R1 & _). destruct (hrun_side f _ hst2 b E2) as (R2 & _).
  destruct (trep_entry _ _ _ _ R1 H1) as (K1 & V1). destruct (trep_entry _ _ _ _ R2 H2) as (K2 & V2).
  destruct (entries_stable f ops1 ops2 b e1 e2 H1 H2 (eq_sym Es)) as (Ek & Ev).
  rewrite Es in K2, V2. unfold T1, T2. rewrite K1, K2, V1, V2. split; [exact Ek|exact Ev].
Qed.

(* the machine never faults, so the hypotheses about hrun are not vacuous *)
Lemma tree_cells_exist f ops : exists hst, hrun f h_init ops = Some hst.
Proof. destruct (hrun_refines f ops) as (hst & E & _). eauto. Qed.
