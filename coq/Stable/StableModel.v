(* Executable model of the storage discipline shared by the node and pool containers
   (include/nstd/List.hpp, Map.hpp, MultiMap.hpp, HashMap.hpp, HashSet.hpp, PoolList.hpp,
   PoolMap.hpp).  No proofs in this file.

   pool      = the item blocks of a container: a fresh block of [block_items] items is allocated
               when the free list is empty (operator new[], it gets the next allocation serial),
               its items are handed out in the container's order, a removed element's item is
               pushed on the LIFO free list (threaded through Item::prev in the code), blocks are
               released only by the destructor.
   node      = one stored element: identity of the object (serial of the construction that
               created it), the item it lives in (slot = block serial, index), key, payload.
   body      = the linked structure: a sequence (List, PoolList), an AVL tree with stored heights
               (Map, MultiMap; rotations and removal relink nodes, a node is never rebuilt), or a
               sequence plus hash chains of item pointers (HashMap, HashSet, PoolMap).
   state     = two containers A, B of the same kind (so that swap / operator= can be exercised),
               the selected one, the allocation serial counter and the object serial counter.
   step      = one public operation on the selected container; returns the construct / copy /
               assign / destroy / allocate / free events it performs, in the code's order.

   As in coq/Avl the "stop when the height did not change" shortcut of the AVL code is not
   modelled (the model re-balances every node on the way back to the root); the harness compares
   shape and stored heights after every operation. *)
From Coq Require Import ZArith List Bool Arith.
From Stable Require Import Gen_Stable StableSpec.
Import ListNotations.
Local Open Scope Z_scope.

(* ---- per-container constants (regenerated from the source) ---------------------------------- *)
Definition block_items (k : kind) : nat :=
  match k with
  | KList => block_items_List | KMap => block_items_Map | KMulti => block_items_MultiMap
  | KHashMap => block_items_HashMap | KHashSet => block_items_HashSet
  | KPoolList => block_items_PoolList | KPoolMap => block_items_PoolMap
  end.
Definition first_direct (k : kind) : bool :=
  match k with
  | KList => first_direct_List | KMap => first_direct_Map | KMulti => first_direct_MultiMap
  | KHashMap => first_direct_HashMap | KHashSet => first_direct_HashSet
  | KPoolList => first_direct_PoolList | KPoolMap => first_direct_PoolMap
  end.
(* order in which the items of a fresh block are handed out *)
Definition mk_order (n : nat) (direct : bool) : list nat :=
  if direct then O :: rev (seq 1 (n - 1)) else rev (seq 0 n).
Definition order (k : kind) : list nat := mk_order (block_items k) (first_direct k).

(* ---- the pool --------------------------------------------------------------------------------- *)
Record pool := mkPool { p_free : list slot; p_blocks : list nat }.   (* freeItem chain; blocks, newest first *)
Definition pool_empty : pool := mkPool [] [].
Definition fresh_block (k : kind) (ser : nat) : list slot := map (fun i => (ser, i)) (order k).

(* take an item: slot, pool, next allocation serial, events *)
Definition alloc (k : kind) (p : pool) (ser : nat) : slot * pool * nat * list event :=
  match p_free p with
  | s :: f => (s, mkPool f (p_blocks p), ser, [])
  | [] =>
      match fresh_block k ser with
      | s :: f => (s, mkPool f (ser :: p_blocks p), S ser, [EAlloc ser])
      | [] => ((ser, O), mkPool [] (ser :: p_blocks p), S ser, [EAlloc ser])   (* block of 0 items: not a real configuration *)
      end
  end.
Definition release (s : slot) (p : pool) : pool := mkPool (s :: p_free p) (p_blocks p).

(* ---- sequences ------------------------------------------------------------------------------- *)
Fixpoint insert_at {A} (pos : nat) (x : A) (l : list A) : list A :=
  match pos, l with
  | O, _ => x :: l
  | S _, [] => [x]
  | S p, y :: r => y :: insert_at p x r
  end.
Fixpoint remove_at {A} (pos : nat) (l : list A) : list A :=
  match l with
  | [] => []
  | y :: r => match pos with O => r | S p => y :: remove_at p r end
  end.
Fixpoint assign_at (pos : nat) (v : Z) (l : list node) : list node :=
  match l with
  | [] => []
  | y :: r => match pos with O => set_val y v :: r | S p => y :: assign_at p v r end
  end.
Fixpoint find_index {A} (f : A -> bool) (l : list A) : option nat :=
  match l with
  | [] => None
  | y :: r => if f y then Some O else option_map S (find_index f r)
  end.
Fixpoint upd_nth {A} (i : nat) (f : A -> A) (l : list A) : list A :=
  match l with
  | [] => []
  | y :: r => match i with O => f y :: r | S j => y :: upd_nth j f r end
  end.

(* ---- AVL tree of nodes (Map.hpp:195-346, 389-540; MultiMap.hpp) ------------------------------- *)
Inductive tree := Leaf | Node (l : tree) (n : node) (h : nat) (r : tree).

Definition ht (t : tree) : nat := match t with Leaf => O | Node _ _ h _ => h end.
Definition mk (l : tree) (n : node) (r : tree) : tree := Node l n (S (Nat.max (ht l) (ht r))) r.   (* updateHeightAndSlope *)
Definition slope (t : tree) : Z :=
  match t with Leaf => 0 | Node l _ _ r => Z.of_nat (ht l) - Z.of_nat (ht r) end.
Fixpoint size (t : tree) : nat := match t with Leaf => O | Node l _ _ r => (size l + 1 + size r)%nat end.
Fixpoint inorder (t : tree) : list node :=
  match t with Leaf => [] | Node l n _ r => inorder l ++ n :: inorder r end.

(* rotations relink: the node records travel unchanged *)
Definition rotr (t : tree) : tree :=
  match t with Node (Node a n1 _ b) n2 _ c => mk a n1 (mk b n2 c) | _ => t end.
Definition rotl (t : tree) : tree :=
  match t with Node a n1 _ (Node b n2 _ c) => mk (mk a n1 b) n2 c | _ => t end.
Definition shiftr (t : tree) : tree :=
  match t with
  | Node l n h r => rotr (if slope l =? -1 then Node (rotl l) n h r else t)
  | Leaf => t
  end.
Definition shiftl (t : tree) : tree :=
  match t with
  | Node l n h r => rotl (if slope r =? 1 then Node l n h (rotr r) else t)
  | Leaf => t
  end.
Definition rebal (t : tree) : tree :=
  if slope t >? 1 then shiftr t else if slope t <? -1 then shiftl t else t.

(* does insert(key) create a new Item?  (Map: no when the key is met on the descent) *)
Fixpoint ins_new (multi : bool) (k : Z) (t : tree) : bool :=
  match t with
  | Leaf => true
  | Node l n _ r =>
      if multi then (if k <? n_key n then ins_new multi k l else ins_new multi k r)
      else if k >? n_key n then ins_new multi k r
      else if k <? n_key n then ins_new multi k l
      else false
  end.
(* the Item whose value is assigned when no new Item is created *)
Fixpoint ins_hit (k : Z) (t : tree) : option node :=
  match t with
  | Leaf => None
  | Node l n _ r =>
      if k >? n_key n then ins_hit k r else if k <? n_key n then ins_hit k l else Some n
  end.
(* descending insert; [nd] is the freshly constructed Item (used only when a leaf cell is reached) *)
Fixpoint ins (multi : bool) (nd : node) (t : tree) : tree :=
  match t with
  | Leaf => Node Leaf nd 1 Leaf
  | Node l n h r =>
      let k := n_key nd in
      if multi then
        (if k <? n_key n then rebal (mk (ins multi nd l) n r) else rebal (mk l n (ins multi nd r)))
      else if k >? n_key n then rebal (mk l n (ins multi nd r))
      else if k <? n_key n then rebal (mk (ins multi nd l) n r)
      else Node l (set_val n (n_val nd)) h r                       (* position->value = value *)
  end.

(* MultiMap::insert(position, key, value) (MultiMap.hpp:140-167).  When the key fits next to the hint (between the
   hint Item and its predecessor / successor in iteration order) the new Item is inserted into the LEFT / RIGHT subtree of
   the hint Item - descending there by key comparisons like the plain insert - and the tree is re-balanced from there
   to the root; otherwise it is a plain insert from the root.  [i] is the rank of the hint Item. *)
Fixpoint ins_under (i : nat) (right : bool) (nd : node) (t : tree) : tree :=
  match t with
  | Leaf => Leaf
  | Node l n h r =>
      let m := size l in
      if (i <? m)%nat then rebal (mk (ins_under i right nd l) n r)
      else if (i =? m)%nat then (if right then rebal (mk l n (ins true nd r)) else rebal (mk (ins true nd l) n r))
      else rebal (mk l n (ins_under (i - m - 1) right nd r))
  end.
Definition hint_ins (pos : nat) (nd : node) (t : tree) : tree :=
  let l := inorder t in
  let k := n_key nd in
  match nth_error l pos with
  | None =>                                                          (* position == end() *)
      match nth_error l (length l - 1) with
      | Some prev => if k >? n_key prev then ins_under (length l - 1) true nd t else ins true nd t      (* &prev->right *)
      | None => ins true nd t                                        (* empty *)
      end
  | Some ip =>
      if k <? n_key ip then
        match pos with
        | O => ins_under pos false nd t                              (* no predecessor: &insertPos->left *)
        | S q => match nth_error l q with
                 | Some prev => if k >=? n_key prev then ins_under pos false nd t else ins true nd t
                 | None => ins true nd t
                 end
        end
      else
        match nth_error l (S pos) with
        | None => ins_under pos true nd t                            (* next == &endItem: &insertPos->right *)
        | Some next => if k <=? n_key next then ins_under pos true nd t else ins true nd t
        end
  end.

Fixpoint pop_min (l : tree) (n : node) (r : tree) : node * tree :=
  match l with
  | Leaf => (n, r)
  | Node ll ln _ lr => let '(e, l') := pop_min ll ln lr in (e, rebal (mk l' n r))
  end.
Fixpoint pop_max (l : tree) (n : node) (r : tree) : node * tree :=
  match r with
  | Leaf => (n, l)
  | Node rl rn _ rr => let '(e, r') := pop_max rl rn rr in (e, rebal (mk l n r'))
  end.
(* removal of a node with two children puts the neighbour NODE in its place (relink, no copy) *)
Definition remove_root (l r : tree) : tree :=
  match l, r with
  | Leaf, Leaf => Leaf
  | Leaf, _ => r
  | _, Leaf => l
  | Node ll ln _ lr, Node rl rn _ rr =>
      if (ht l <? ht r)%nat
      then let '(e, r') := pop_min rl rn rr in rebal (mk l e r')
      else let '(e, l') := pop_max ll ln lr in rebal (mk l' e r)
  end.
Fixpoint remove_rank (i : nat) (t : tree) : tree :=
  match t with
  | Leaf => Leaf
  | Node l n h r =>
      let m := size l in
      if (i <? m)%nat then rebal (mk (remove_rank i l) n r)
      else if (i =? m)%nat then remove_root l r
      else rebal (mk l n (remove_rank (i - m - 1) r))
  end.
(* Map::find: first equal key on the descent; MultiMap::find: keeps descending to the left *)
Fixpoint find_rank (multi : bool) (k : Z) (t : tree) : option nat :=
  match t with
  | Leaf => None
  | Node l n _ r =>
      if k >? n_key n then option_map (fun i => (size l + 1 + i)%nat) (find_rank multi k r)
      else if k <? n_key n then find_rank multi k l
      else if multi then match find_rank multi k l with Some i => Some i | None => Some (size l) end
      else Some (size l)
  end.

(* ---- hash chains (HashMap.hpp:145-238, HashSet.hpp, PoolMap.hpp) ------------------------------ *)
Record hashd := mkHash { h_cap : nat; h_data : option nat; h_chains : list (list slot) }.
Definition norm_cap (c : nat) : nat := match c with O => 1%nat | _ => c end.        (* capacity |= !capacity *)
Definition bucket (cap : nat) (k : Z) : nat :=
  Z.to_nat ((k mod 18446744073709551616) mod Z.of_nat (norm_cap cap)).             (* (usize)key % capacity *)
(* walk the chain of item pointers; an item pointer is a slot, the item is looked up in the list *)
Fixpoint chain_find (l : list node) (k : Z) (ch : list slot) : option nat :=
  match ch with
  | [] => None
  | s :: r =>
      match find_index (fun n => slot_eqb (n_slot n) s) l with
      | Some i => match nth_error l i with
                  | Some n => if n_key n =? k then Some i else chain_find l k r
                  | None => chain_find l k r
                  end
      | None => chain_find l k r
      end
  end.
Definition h_find (l : list node) (hd : hashd) (k : Z) : option nat :=      (* position in iteration order *)
  match h_data hd with
  | None => None
  | Some _ => chain_find l k (nth (bucket (h_cap hd) k) (h_chains hd) [])
  end.
Definition remove_slot (s : slot) (ch : list slot) : list slot := filter (fun x => negb (slot_eqb x s)) ch.

(* ---- containers -------------------------------------------------------------------------------- *)
Inductive body :=
| BSeq (l : list node)
| BTree (t : tree)
| BHash (l : list node) (hd : hashd).
Record cont := mkCont { c_body : body; c_pool : pool }.

Definition elems_of (b : body) : list node :=
  match b with BSeq l => l | BTree t => inorder t | BHash l _ => l end.
Definition elems (c : cont) : list node := elems_of (c_body c).

Definition is_multi (k : kind) : bool := match k with KMulti => true | _ => false end.
Definition init_body (k : kind) (cap : nat) : body :=
  match k with
  | KList | KPoolList => BSeq []
  | KMap | KMulti => BTree Leaf
  | KHashMap | KHashSet | KPoolMap => BHash [] (mkHash (norm_cap cap) None [])
  end.
Definition init_cont (k : kind) (cap : nat) : cont := mkCont (init_body k cap) pool_empty.

(* insert / append / prepend: container, allocation serial, object serial, events *)
Definition c_insert (k : kind) (pos : nat) (key val : Z) (c : cont) (ser nid : nat)
  : cont * nat * nat * list event :=
  match c_body c with
  | BSeq l =>
      let '(s, p', ser', ev) := alloc k (c_pool c) ser in
      let nd := mkNode nid s 0 val in
      let pos' := if is_pool k then length l else pos in                 (* PoolList only appends *)
      (mkCont (BSeq (insert_at pos' nd l)) p', ser', S nid, ev ++ [birth k nid s])
  | BTree t =>
      if ins_new (is_multi k) key t then
        let '(s, p', ser', ev) := alloc k (c_pool c) ser in
        let nd := mkNode nid s key val in
        (mkCont (BTree (ins (is_multi k) nd t)) p', ser', S nid, ev ++ [birth k nid s])
      else
        (mkCont (BTree (ins (is_multi k) (mkNode nid (O, O) key val) t)) (c_pool c), ser, nid,
         match ins_hit key t with Some n => [EAssign (n_id n)] | None => [] end)
  | BHash l hd =>
      match h_find l hd key with
      | Some i =>
          match k with
          | KHashSet => (c, ser, nid, [])
          | KPoolMap => (mkCont (BHash (assign_at i val l) hd) (c_pool c), ser, nid, [])     (* harness writes the payload *)
          | _ => (mkCont (BHash (assign_at i val l) hd) (c_pool c), ser, nid,
                  match nth_error l i with Some n => [EAssign (n_id n)] | None => [] end)    (* *it = value *)
          end
      | None =>
          let '(hd1, ser1, ev1) :=
            match h_data hd with
            | Some _ => (hd, ser, [])
            | None => (mkHash (h_cap hd) (Some ser) (repeat [] (h_cap hd)), S ser, [EAlloc ser])
            end in
          let '(s, p', ser2, ev2) := alloc k (c_pool c) ser1 in
          let nd := mkNode nid s key (match k with KHashSet => 0 | _ => val end) in
          let hd2 := mkHash (h_cap hd1) (h_data hd1) (upd_nth (bucket (h_cap hd1) key) (cons s) (h_chains hd1)) in
          (mkCont (BHash (insert_at pos nd l) hd2) p', ser2, S nid, ev1 ++ ev2 ++ [birth k nid s])
      end
  end.

(* insert(position, key, value) of Map / MultiMap.  Map: a new key has exactly one free place between its neighbours and
   the tree is re-balanced from there to the root with or without a hint; an existing key is assigned: the plain insert.
   MultiMap: hint_ins (the place inside a run of equal keys depends on the hint). *)
Definition c_insert_hint (k : kind) (pos : nat) (key val : Z) (c : cont) (ser nid : nat)
  : cont * nat * nat * list event :=
  match c_body c with
  | BTree t =>
      if is_multi k then
        let '(s, p', ser', ev) := alloc k (c_pool c) ser in
        let nd := mkNode nid s key val in
        (mkCont (BTree (hint_ins pos nd t)) p', ser', S nid, ev ++ [birth k nid s])
      else c_insert k pos key val c ser nid
  | _ => c_insert k pos key val c ser nid
  end.

(* remove(iterator at position pos) *)
Definition c_remove_at (pos : nat) (c : cont) : cont * list event :=
  match nth_error (elems c) pos with
  | None => (c, [])
  | Some nd =>
      let b' := match c_body c with
                | BSeq l => BSeq (remove_at pos l)
                | BTree t => BTree (remove_rank pos t)
                | BHash l hd =>
                    BHash (remove_at pos l)
                          (mkHash (h_cap hd) (h_data hd)
                                  (upd_nth (bucket (h_cap hd) (n_key nd)) (remove_slot (n_slot nd)) (h_chains hd)))
                end in
      (mkCont b' (release (n_slot nd) (c_pool c)), [EDestroy (n_id nd) (n_slot nd)])
  end.

(* position of the element remove(key) / remove(value) acts on *)
Definition find_pos (k : kind) (key : Z) (c : cont) : option nat :=
  match c_body c with
  | BSeq l => if is_pool k then None else find_index (fun n => n_val n =? key) l
  | BTree t => find_rank (is_multi k) key t
  | BHash l hd => h_find l hd key
  end.

Definition clear_body (b : body) : body :=
  match b with
  | BSeq _ => BSeq []
  | BTree _ => BTree Leaf
  | BHash _ hd => BHash [] (mkHash (h_cap hd) (h_data hd) (map (fun _ => []) (h_chains hd)))
  end.
Definition destroy_events (l : list node) : list event := map (fun n => EDestroy (n_id n) (n_slot n)) l.
Definition c_clear (c : cont) : cont * list event :=
  let l := elems c in
  (mkCont (clear_body (c_body c)) (mkPool (rev (map n_slot l) ++ p_free (c_pool c)) (p_blocks (c_pool c))),
   destroy_events l).

(* destructor, then a fresh container is constructed in the same place *)
Definition c_destroy (k : kind) (cap : nat) (c : cont) : cont * list event :=
  (init_cont k cap,
   match c_body c with
   | BHash _ hd => match h_data hd with Some d => [EFree d] | None => [] end
   | _ => []
   end ++ destroy_events (elems c) ++ map EFree (p_blocks (c_pool c))).

(* a run of insertions of the elements of a list [src] (the elements of another container).  [off] says where:
   None = at the end (insert(_end, ..) for every element); Some (p, n0) = List::insert(position, const List&) with the
   position iterator at index p of a list that had n0 elements: the iterator keeps designating the same item, so the
   i-th new element goes to index p + i = p + (current length - n0) *)
Definition ins_pos (off : option (nat * nat)) (c : cont) : nat :=
  match off with
  | None => length (elems c)
  | Some (p, n0) => (p + (length (elems c) - n0))%nat
  end.
Definition ins_fold (k : kind) (off : option (nat * nat)) :=
  fun (acc : cont * nat * nat * list event) (e : node) =>
    let '(c1, ser1, nid1, ev1) := acc in
    let '(c2, ser2, nid2, ev2) := c_insert k (ins_pos off c1) (n_key e) (n_val e) c1 ser1 nid1 in
    (c2, ser2, nid2, ev1 ++ ev2).

(* operator=(other): clear, then append / insert every element of the other container *)
Definition c_assign (k : kind) (src : list node) (c : cont) (ser nid : nat) : cont * nat * nat * list event :=
  let '(c0, ev0) := c_clear c in
  fold_left (ins_fold k None) src (c0, ser, nid, ev0).

(* List::append / prepend / insert(position, ..) (const List&), HashSet::append(const HashSet&), Map::insert(const Map&):
   one insertion per element of the other container, in its iteration order.  (Map::insert(const Map&) passes the
   iterator of the previous insertion as a hint; a hint does not change where a new key goes nor the path on which the
   tree is re-balanced, see OHint.)  The argument is never the container itself. *)
Definition insall_off (k : kind) (pos : option nat) (c : cont) : option (nat * nat) :=
  match k with KList => option_map (fun p => (p, length (elems c))) pos | _ => None end.      (* only List has a position *)
Definition c_insert_all (k : kind) (pos : option nat) (src : list node) (c : cont) (ser nid : nat)
  : cont * nat * nat * list event :=
  fold_left (ins_fold k (insall_off k pos c)) src (c, ser, nid, []).

(* HashSet::remove(const HashSet&): remove(key) for every key of the other set *)
Definition rem_fold (k : kind) :=
  fun (acc : cont * list event) (e : node) =>
    let '(c1, ev1) := acc in
    match find_pos k (n_key e) c1 with
    | Some i => let '(c2, ev2) := c_remove_at i c1 in (c2, ev1 ++ ev2)
    | None => acc
    end.
Definition c_remove_all (k : kind) (src : list node) (c : cont) : cont * list event :=
  fold_left (rem_fold k) src (c, []).

(* ---- the state machine ------------------------------------------------------------------------- *)
Record state := mkState { s_a : cont; s_b : cont; s_cur : bool; s_ser : nat; s_nid : nat }.
Definition init (k : kind) (cap : nat) : state := mkState (init_cont k cap) (init_cont k cap) false O O.
Definition sel (st : state) : cont := if s_cur st then s_b st else s_a st.
Definition other (st : state) : cont := if s_cur st then s_a st else s_b st.
Definition set_sel (st : state) (c : cont) (ser nid : nat) : state :=
  if s_cur st then mkState (s_a st) c true ser nid else mkState c (s_b st) false ser nid.

Definition step (k : kind) (cap : nat) (st : state) (o : op) : state * list event :=
  let c := sel st in
  let ins pos key val :=
    let '(c', ser', nid', ev) := c_insert k pos key val c (s_ser st) (s_nid st) in (set_sel st c' ser' nid', ev) in
  let rem pos := let '(c', ev) := c_remove_at pos c in (set_sel st c' (s_ser st) (s_nid st), ev) in
  match o with
  | OSel b => (mkState (s_a st) (s_b st) b (s_ser st) (s_nid st), [])
  | OApp key val => ins (length (elems c)) key val
  | OPre key val => ins O key val
  | OInsAt pos key val => ins pos key val
  | ORemAt pos => rem pos
  | ORemFront => rem O
  | ORemBack => rem (length (elems c) - 1)%nat
  | ORemKey key => match find_pos k key c with Some i => rem i | None => (st, []) end
  | OClear => let '(c', ev) := c_clear c in (set_sel st c' (s_ser st) (s_nid st), ev)
  | OSwap => if has_swap k then (mkState (s_b st) (s_a st) (s_cur st) (s_ser st) (s_nid st), []) else (st, [])
  | OAssign =>
      if has_assign k then
        let '(c', ser', nid', ev) := c_assign k (elems (other st)) c (s_ser st) (s_nid st) in (set_sel st c' ser' nid', ev)
      else (st, [])
  | ODestroy => let '(c', ev) := c_destroy k cap c in (set_sel st c' (s_ser st) (s_nid st), ev)
  | OInsAll pos =>
      if has_insall k then
        let '(c', ser', nid', ev) := c_insert_all k pos (elems (other st)) c (s_ser st) (s_nid st) in (set_sel st c' ser' nid', ev)
      else (st, [])
  | ORemAll =>
      if has_remall k then let '(c', ev) := c_remove_all k (elems (other st)) c in (set_sel st c' (s_ser st) (s_nid st), ev)
      else (st, [])
  | OHint pos key val =>
      if has_hint k then
        let '(c', ser', nid', ev) := c_insert_hint k pos key val c (s_ser st) (s_nid st) in (set_sel st c' ser' nid', ev)
      else (st, [])
  end.

Fixpoint run (k : kind) (cap : nat) (st : state) (ops : list op) : state :=
  match ops with [] => st | o :: rest => run k cap (fst (step k cap st o)) rest end.

(* the trace of observations the Spec judges *)
Definition observe (st : state) : obs := mkObs (elems (s_a st)) (elems (s_b st)).
Fixpoint trace (k : kind) (cap : nat) (st : state) (ops : list op) : list (op * obs * list event) :=
  match ops with
  | [] => []
  | o :: rest => let '(st', ev) := step k cap st o in (o, observe st', ev) :: trace k cap st' rest
  end.
