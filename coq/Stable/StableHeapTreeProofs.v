(* The rotations of StableHeapTree.v implement the rotations of the node-level AVL model
   (StableModel.v: rotr, rotl, shiftr, shiftl, rebal) on the tree they are applied to, write no
   object field, and leave every cell outside the rotated nodes alone. *)
From Coq Require Import ZArith List Bool Arith Lia.
From Stable Require Import Gen_Stable StableSpec StableModel StableTree StableInv StableProofs StableHeap StableHeapBase StableHeapSeg StableHeapTree.
Import ListNotations.
Local Open Scope Z_scope.

Lemma tget_tdel H s x : s <> x -> tget (tdel H s) x = tget H x.
Proof.
  intros Hne. induction H as [|[s' c] r IH]; cbn [tdel tget]; auto.
  destruct (slot_eqb s' s) eqn:E1.
  - apply slot_eqb_eq in E1. subst s'. rewrite (slot_eqb_neq _ _ Hne). exact IH.
  - cbn [tget]. destruct (slot_eqb s' x); auto.
Qed.
Lemma tget_tset_same H s c : tget (tset H s c) s = c.
Proof. unfold tset. cbn [tget]. rewrite slot_eqb_rfl. reflexivity. Qed.
Lemma tget_tset_other H s c x : s <> x -> tget (tset H s c) x = tget H x.
Proof. intros Hne. unfold tset. cbn [tget]. rewrite (slot_eqb_neq _ _ Hne). apply tget_tdel. exact Hne. Qed.

Lemma tget_set_tobj_other H s v x : s <> x -> tget (set_tobj H s v) x = tget H x.
Proof. intros Hne. unfold set_tobj. apply tget_tset_other. exact Hne. Qed.
Lemma tobj_set_tobj_same H s v : t_obj (tget (set_tobj H s v) s) = v.
Proof. unfold set_tobj. rewrite tget_tset_same. reflexivity. Qed.
Lemma tobj_set_tobj_other H s v x : s <> x -> t_obj (tget (set_tobj H s v) x) = t_obj (tget H x).
Proof. intros Hne. rewrite tget_set_tobj_other by exact Hne. reflexivity. Qed.
Lemma tparent_set_tobj H s v x : t_parent (tget (set_tobj H s v) x) = t_parent (tget H x).
Proof. unfold set_tobj. destruct (sdec s x) as [<-|Hne]; [rewrite tget_tset_same|rewrite tget_tset_other by exact Hne]; reflexivity. Qed.
Lemma tleft_set_tobj H s v x : t_left (tget (set_tobj H s v) x) = t_left (tget H x).
Proof. unfold set_tobj. destruct (sdec s x) as [<-|Hne]; [rewrite tget_tset_same|rewrite tget_tset_other by exact Hne]; reflexivity. Qed.
Lemma tright_set_tobj H s v x : t_right (tget (set_tobj H s v) x) = t_right (tget H x).
Proof. unfold set_tobj. destruct (sdec s x) as [<-|Hne]; [rewrite tget_tset_same|rewrite tget_tset_other by exact Hne]; reflexivity. Qed.
Lemma theight_set_tobj H s v x : t_height (tget (set_tobj H s v) x) = t_height (tget H x).
Proof. unfold set_tobj. destruct (sdec s x) as [<-|Hne]; [rewrite tget_tset_same|rewrite tget_tset_other by exact Hne]; reflexivity. Qed.
Lemma tslope_set_tobj H s v x : t_slope (tget (set_tobj H s v) x) = t_slope (tget H x).
Proof. unfold set_tobj. destruct (sdec s x) as [<-|Hne]; [rewrite tget_tset_same|rewrite tget_tset_other by exact Hne]; reflexivity. Qed.
Lemma tget_set_tparent_other H s v x : s <> x -> tget (set_tparent H s v) x = tget H x.
Proof. intros Hne. unfold set_tparent. apply tget_tset_other. exact Hne. Qed.
Lemma tparent_set_tparent_same H s v : t_parent (tget (set_tparent H s v) s) = v.
Proof. unfold set_tparent. rewrite tget_tset_same. reflexivity. Qed.
Lemma tparent_set_tparent_other H s v x : s <> x -> t_parent (tget (set_tparent H s v) x) = t_parent (tget H x).
Proof. intros Hne. rewrite tget_set_tparent_other by exact Hne. reflexivity. Qed.
Lemma tobj_set_tparent H s v x : t_obj (tget (set_tparent H s v) x) = t_obj (tget H x).
Proof. unfold set_tparent. destruct (sdec s x) as [<-|Hne]; [rewrite tget_tset_same|rewrite tget_tset_other by exact Hne]; reflexivity. Qed.
Lemma tleft_set_tparent H s v x : t_left (tget (set_tparent H s v) x) = t_left (tget H x).
Proof. unfold set_tparent. destruct (sdec s x) as [<-|Hne]; [rewrite tget_tset_same|rewrite tget_tset_other by exact Hne]; reflexivity. Qed.
Lemma tright_set_tparent H s v x : t_right (tget (set_tparent H s v) x) = t_right (tget H x).
Proof. unfold set_tparent. destruct (sdec s x) as [<-|Hne]; [rewrite tget_tset_same|rewrite tget_tset_other by exact Hne]; reflexivity. Qed.
Lemma theight_set_tparent H s v x : t_height (tget (set_tparent H s v) x) = t_height (tget H x).
Proof. unfold set_tparent. destruct (sdec s x) as [<-|Hne]; [rewrite tget_tset_same|rewrite tget_tset_other by exact Hne]; reflexivity. Qed.
Lemma tslope_set_tparent H s v x : t_slope (tget (set_tparent H s v) x) = t_slope (tget H x).
Proof. unfold set_tparent. destruct (sdec s x) as [<-|Hne]; [rewrite tget_tset_same|rewrite tget_tset_other by exact Hne]; reflexivity. Qed.
Lemma tget_set_tleft_other H s v x : s <> x -> tget (set_tleft H s v) x = tget H x.
Proof. intros Hne. unfold set_tleft. apply tget_tset_other. exact Hne. Qed.
Lemma tleft_set_tleft_same H s v : t_left (tget (set_tleft H s v) s) = v.
Proof. unfold set_tleft. rewrite tget_tset_same. reflexivity. Qed.
Lemma tleft_set_tleft_other H s v x : s <> x -> t_left (tget (set_tleft H s v) x) = t_left (tget H x).
Proof. intros Hne. rewrite tget_set_tleft_other by exact Hne. reflexivity. Qed.
Lemma tobj_set_tleft H s v x : t_obj (tget (set_tleft H s v) x) = t_obj (tget H x).
Proof. unfold set_tleft. destruct (sdec s x) as [<-|Hne]; [rewrite tget_tset_same|rewrite tget_tset_other by exact Hne]; reflexivity. Qed.
Lemma tparent_set_tleft H s v x : t_parent (tget (set_tleft H s v) x) = t_parent (tget H x).
Proof. unfold set_tleft. destruct (sdec s x) as [<-|Hne]; [rewrite tget_tset_same|rewrite tget_tset_other by exact Hne]; reflexivity. Qed.
Lemma tright_set_tleft H s v x : t_right (tget (set_tleft H s v) x) = t_right (tget H x).
Proof. unfold set_tleft. destruct (sdec s x) as [<-|Hne]; [rewrite tget_tset_same|rewrite tget_tset_other by exact Hne]; reflexivity. Qed.
Lemma theight_set_tleft H s v x : t_height (tget (set_tleft H s v) x) = t_height (tget H x).
Proof. unfold set_tleft. destruct (sdec s x) as [<-|Hne]; [rewrite tget_tset_same|rewrite tget_tset_other by exact Hne]; reflexivity. Qed.
Lemma tslope_set_tleft H s v x : t_slope (tget (set_tleft H s v) x) = t_slope (tget H x).
Proof. unfold set_tleft. destruct (sdec s x) as [<-|Hne]; [rewrite tget_tset_same|rewrite tget_tset_other by exact Hne]; reflexivity. Qed.
Lemma tget_set_tright_other H s v x : s <> x -> tget (set_tright H s v) x = tget H x.
Proof. intros Hne. unfold set_tright. apply tget_tset_other. exact Hne. Qed.
Lemma tright_set_tright_same H s v : t_right (tget (set_tright H s v) s) = v.
Proof. unfold set_tright. rewrite tget_tset_same. reflexivity. Qed.
Lemma tright_set_tright_other H s v x : s <> x -> t_right (tget (set_tright H s v) x) = t_right (tget H x).
Proof. intros Hne. rewrite tget_set_tright_other by exact Hne. reflexivity. Qed.
Lemma tobj_set_tright H s v x : t_obj (tget (set_tright H s v) x) = t_obj (tget H x).
Proof. unfold set_tright. destruct (sdec s x) as [<-|Hne]; [rewrite tget_tset_same|rewrite tget_tset_other by exact Hne]; reflexivity. Qed.
Lemma tparent_set_tright H s v x : t_parent (tget (set_tright H s v) x) = t_parent (tget H x).
Proof. unfold set_tright. destruct (sdec s x) as [<-|Hne]; [rewrite tget_tset_same|rewrite tget_tset_other by exact Hne]; reflexivity. Qed.
Lemma tleft_set_tright H s v x : t_left (tget (set_tright H s v) x) = t_left (tget H x).
Proof. unfold set_tright. destruct (sdec s x) as [<-|Hne]; [rewrite tget_tset_same|rewrite tget_tset_other by exact Hne]; reflexivity. Qed.
Lemma theight_set_tright H s v x : t_height (tget (set_tright H s v) x) = t_height (tget H x).
Proof. unfold set_tright. destruct (sdec s x) as [<-|Hne]; [rewrite tget_tset_same|rewrite tget_tset_other by exact Hne]; reflexivity. Qed.
Lemma tslope_set_tright H s v x : t_slope (tget (set_tright H s v) x) = t_slope (tget H x).
Proof. unfold set_tright. destruct (sdec s x) as [<-|Hne]; [rewrite tget_tset_same|rewrite tget_tset_other by exact Hne]; reflexivity. Qed.
Lemma tget_set_theight_other H s v x : s <> x -> tget (set_theight H s v) x = tget H x.
Proof. intros Hne. unfold set_theight. apply tget_tset_other. exact Hne. Qed.
Lemma theight_set_theight_same H s v : t_height (tget (set_theight H s v) s) = v.
Proof. unfold set_theight. rewrite tget_tset_same. reflexivity. Qed.
Lemma theight_set_theight_other H s v x : s <> x -> t_height (tget (set_theight H s v) x) = t_height (tget H x).
Proof. intros Hne. rewrite tget_set_theight_other by exact Hne. reflexivity. Qed.
Lemma tobj_set_theight H s v x : t_obj (tget (set_theight H s v) x) = t_obj (tget H x).
Proof. unfold set_theight. destruct (sdec s x) as [<-|Hne]; [rewrite tget_tset_same|rewrite tget_tset_other by exact Hne]; reflexivity. Qed.
Lemma tparent_set_theight H s v x : t_parent (tget (set_theight H s v) x) = t_parent (tget H x).
Proof. unfold set_theight. destruct (sdec s x) as [<-|Hne]; [rewrite tget_tset_same|rewrite tget_tset_other by exact Hne]; reflexivity. Qed.
Lemma tleft_set_theight H s v x : t_left (tget (set_theight H s v) x) = t_left (tget H x).
Proof. unfold set_theight. destruct (sdec s x) as [<-|Hne]; [rewrite tget_tset_same|rewrite tget_tset_other by exact Hne]; reflexivity. Qed.
Lemma tright_set_theight H s v x : t_right (tget (set_theight H s v) x) = t_right (tget H x).
Proof. unfold set_theight. destruct (sdec s x) as [<-|Hne]; [rewrite tget_tset_same|rewrite tget_tset_other by exact Hne]; reflexivity. Qed.
Lemma tslope_set_theight H s v x : t_slope (tget (set_theight H s v) x) = t_slope (tget H x).
Proof. unfold set_theight. destruct (sdec s x) as [<-|Hne]; [rewrite tget_tset_same|rewrite tget_tset_other by exact Hne]; reflexivity. Qed.
Lemma tget_set_tslope_other H s v x : s <> x -> tget (set_tslope H s v) x = tget H x.
Proof. intros Hne. unfold set_tslope. apply tget_tset_other. exact Hne. Qed.
Lemma tslope_set_tslope_same H s v : t_slope (tget (set_tslope H s v) s) = v.
Proof. unfold set_tslope. rewrite tget_tset_same. reflexivity. Qed.
Lemma tslope_set_tslope_other H s v x : s <> x -> t_slope (tget (set_tslope H s v) x) = t_slope (tget H x).
Proof. intros Hne. rewrite tget_set_tslope_other by exact Hne. reflexivity. Qed.
Lemma tobj_set_tslope H s v x : t_obj (tget (set_tslope H s v) x) = t_obj (tget H x).
Proof. unfold set_tslope. destruct (sdec s x) as [<-|Hne]; [rewrite tget_tset_same|rewrite tget_tset_other by exact Hne]; reflexivity. Qed.
Lemma tparent_set_tslope H s v x : t_parent (tget (set_tslope H s v) x) = t_parent (tget H x).
Proof. unfold set_tslope. destruct (sdec s x) as [<-|Hne]; [rewrite tget_tset_same|rewrite tget_tset_other by exact Hne]; reflexivity. Qed.
Lemma tleft_set_tslope H s v x : t_left (tget (set_tslope H s v) x) = t_left (tget H x).
Proof. unfold set_tslope. destruct (sdec s x) as [<-|Hne]; [rewrite tget_tset_same|rewrite tget_tset_other by exact Hne]; reflexivity. Qed.
Lemma tright_set_tslope H s v x : t_right (tget (set_tslope H s v) x) = t_right (tget H x).
Proof. unfold set_tslope. destruct (sdec s x) as [<-|Hne]; [rewrite tget_tset_same|rewrite tget_tset_other by exact Hne]; reflexivity. Qed.
Lemma theight_set_tslope H s v x : t_height (tget (set_tslope H s v) x) = t_height (tget H x).
Proof. unfold set_tslope. destruct (sdec s x) as [<-|Hne]; [rewrite tget_tset_same|rewrite tget_tset_other by exact Hne]; reflexivity. Qed.
#[export] Hint Rewrite tobj_set_tobj_same tparent_set_tobj tleft_set_tobj tright_set_tobj theight_set_tobj tslope_set_tobj tparent_set_tparent_same tobj_set_tparent tleft_set_tparent tright_set_tparent theight_set_tparent tslope_set_tparent tleft_set_tleft_same tobj_set_tleft tparent_set_tleft tright_set_tleft theight_set_tleft tslope_set_tleft tright_set_tright_same tobj_set_tright tparent_set_tright tleft_set_tright theight_set_tright tslope_set_tright theight_set_theight_same tobj_set_theight tparent_set_theight tleft_set_theight tright_set_theight tslope_set_theight tslope_set_tslope_same tobj_set_tslope tparent_set_tslope tleft_set_tslope tright_set_tslope theight_set_tslope : tf.

Ltac trw := repeat (autorewrite with tf; repeat first [ rewrite tobj_set_tobj_other by neq | rewrite tparent_set_tparent_other by neq | rewrite tleft_set_tleft_other by neq | rewrite tright_set_tright_other by neq | rewrite theight_set_theight_other by neq | rewrite tslope_set_tslope_other by neq ]).


(* the tree t is laid out at p, its root's parent field is par; every cell holds its node's object,
   the stored height and slope are those of the model tree *)
Fixpoint trep (H : theap) (t : tree) (p par : option slot) : Prop :=
  match t with
  | Leaf => p = None
  | Node l n h r =>
      p = Some (n_slot n) /\
      t_obj (tget H (n_slot n)) = Some (obj_of n) /\ t_parent (tget H (n_slot n)) = par /\
      t_height (tget H (n_slot n)) = h /\ t_slope (tget H (n_slot n)) = Z.of_nat (ht l) - Z.of_nat (ht r) /\
      trep H l (t_left (tget H (n_slot n))) (Some (n_slot n)) /\ trep H r (t_right (tget H (n_slot n))) (Some (n_slot n))
  end.
(* the same without the height and slope of the top node (stale while its subtrees are being rotated) *)
Definition trep_kids (H : theap) (t : tree) (p par : option slot) : Prop :=
  match t with
  | Leaf => p = None
  | Node l n h r =>
      p = Some (n_slot n) /\
      t_obj (tget H (n_slot n)) = Some (obj_of n) /\ t_parent (tget H (n_slot n)) = par /\
      trep H l (t_left (tget H (n_slot n))) (Some (n_slot n)) /\ trep H r (t_right (tget H (n_slot n))) (Some (n_slot n))
  end.

Lemma trep_kids_of H t p par : trep H t p par -> trep_kids H t p par.
Proof. destruct t; cbn; tauto. Qed.

Lemma trep_ext H H' t : forall p par,
  (forall n, In n (inorder t) -> tget H' (n_slot n) = tget H (n_slot n)) -> trep H t p par -> trep H' t p par.
Proof.
  induction t as [|l IHl n h r IHr]; intros p par Ha T; cbn [trep inorder] in *; auto.
  destruct T as (T1 & T2 & T3 & T4 & T5 & T6 & T7).
  rewrite (Ha n) by (apply in_or_app; right; left; reflexivity). repeat split; auto.
  - apply IHl; auto. intros m Hm. apply Ha. apply in_or_app. auto.
  - apply IHr; auto. intros m Hm. apply Ha. apply in_or_app. right. right. exact Hm.
Qed.

Lemma trep_height H t p par : trep H t p par -> height_of H p = ht t.
Proof. destruct t; cbn [trep ht]; [intros ->; reflexivity|]. intros (-> & _ & _ & E & _). exact E. Qed.

Lemma tree_nodup l n r :
  NoDup (slots (inorder l ++ n :: inorder r)) ->
  NoDup (slots (inorder l)) /\ NoDup (slots (inorder r)) /\ ~ In (n_slot n) (slots (inorder l)) /\ ~ In (n_slot n) (slots (inorder r)) /\
  (forall x, In x (slots (inorder l)) -> ~ In x (slots (inorder r))).
Proof. intros H. apply NoDup_slots_mid in H. apply NoDup_slots_app_inv in H. exact H. Qed.

Lemma trep_reparent H H' t p par par' :
  NoDup (slots (inorder t)) -> trep H t p par ->
  (forall n, In n (inorder t) -> Some (n_slot n) <> p -> tget H' (n_slot n) = tget H (n_slot n)) ->
  (forall s, p = Some s -> t_parent (tget H' s) = par' /\ t_obj (tget H' s) = t_obj (tget H s) /\ t_left (tget H' s) = t_left (tget H s) /\
                           t_right (tget H' s) = t_right (tget H s) /\ t_height (tget H' s) = t_height (tget H s) /\ t_slope (tget H' s) = t_slope (tget H s)) ->
  trep H' t p par'.
Proof.
  intros Hnd T Ho Hr. destruct t as [|l n h r]; cbn [trep inorder] in *; auto.
  destruct T as (T1 & T2 & T3 & T4 & T5 & T6 & T7). destruct (Hr _ T1) as (R1 & R2 & R3 & R4 & R5 & R6).
  destruct (tree_nodup _ _ _ Hnd) as (N1 & N2 & N3 & N4 & N5).
  rewrite R1, R2, R3, R4, R5, R6. repeat split; auto.
  - eapply trep_ext; [|exact T6]. intros m Hm. apply Ho; [apply in_or_app; auto|]. rewrite T1. intro E0. injection E0 as E0.
    apply N3. rewrite <- E0. apply in_slots. exact Hm.
  - eapply trep_ext; [|exact T7]. intros m Hm. apply Ho; [apply in_or_app; right; right; exact Hm|]. rewrite T1. intro E0. injection E0 as E0.
    apply N4. rewrite <- E0. apply in_slots. exact Hm.
Qed.

Definition owner (cell : tcref) : option slot := match cell with TRoot => None | TLeft q | TRight q => Some q end.

(* what a rotation guarantees besides the shape *)
Definition rot_frame (st st' : tstate) (cell : tcref) (t : tree) : Prop :=
  (forall x, ~ In x (slots (inorder t)) -> owner cell <> Some x -> tget (th st') x = tget (th st) x) /\
  (forall x, t_obj (tget (th st') x) = t_obj (tget (th st) x)) /\
  (forall q, owner cell = Some q ->
     t_obj (tget (th st') q) = t_obj (tget (th st) q) /\ t_parent (tget (th st') q) = t_parent (tget (th st) q) /\
     t_height (tget (th st') q) = t_height (tget (th st) q) /\ t_slope (tget (th st') q) = t_slope (tget (th st) q) /\
     (cell = TLeft q -> t_right (tget (th st') q) = t_right (tget (th st) q)) /\
     (cell = TRight q -> t_left (tget (th st') q) = t_left (tget (th st) q))) /\
  (cell <> TRoot -> troot st' = troot st).

Lemma trep_leaf_iff H t par : trep H t None par -> t = Leaf.
Proof. destruct t; cbn [trep]; auto. intros (E & _). discriminate E. Qed.

Lemma trep_root_in H t s par : trep H t (Some s) par -> In s (slots (inorder t)).
Proof.
  destruct t as [|l n h r]; cbn [trep inorder]; [discriminate|]. intros (E & _). injection E as ->.
  unfold slots. rewrite map_app. apply in_or_app. right. left. reflexivity.
Qed.

Lemma upd_hs_fields H x :
  (forall y, t_obj (tget (upd_hs H x) y) = t_obj (tget H y) /\ t_parent (tget (upd_hs H x) y) = t_parent (tget H y) /\
             t_left (tget (upd_hs H x) y) = t_left (tget H y) /\ t_right (tget (upd_hs H x) y) = t_right (tget H y)) /\
  (forall y, x <> y -> tget (upd_hs H x) y = tget H y) /\
  t_height (tget (upd_hs H x) x) = S (Nat.max (height_of H (t_left (tget H x))) (height_of H (t_right (tget H x)))) /\
  t_slope (tget (upd_hs H x) x) = Z.of_nat (height_of H (t_left (tget H x))) - Z.of_nat (height_of H (t_right (tget H x))).
Proof.
  unfold upd_hs. split; [intros y; trw; auto|]. split; [intros y Hne; rewrite tget_set_theight_other, tget_set_tslope_other; auto|].
  split; trw; reflexivity.
Qed.

Lemma rotr_refines st cell a n1 h1 b n2 h2 c par :
  let t := Node (Node a n1 h1 b) n2 h2 c in
  NoDup (slots (inorder t)) -> trep_kids (th st) t (rd_tcref st cell) par ->
  (forall q, owner cell = Some q -> ~ In q (slots (inorder t))) ->
  trep (th (t_rotr st cell)) (rotr t) (rd_tcref (t_rotr st cell) cell) par /\ rot_frame st (t_rotr st cell) cell t.
Proof.
  intros t Hnd T Hown. set (H := th st) in *.
  cbn [trep_kids trep] in T. destruct T as (Erd & O2 & P2 & (El2 & O1 & P1 & Hh1 & Sl1 & Ta & Tb) & Tc).
  (* distinctness *)
  cbn [t inorder] in Hnd, Hown.
  destruct (tree_nodup (Node a n1 h1 b) n2 c Hnd) as (Nl & Nc & N2l & N2c & Nlc). cbn [inorder] in Nl, N2l, Nlc. destruct (tree_nodup a n1 b Nl) as (Na & Nb & N1a & N1b & Nab).
  set (s1 := n_slot n1) in *. set (s2 := n_slot n2) in *.
  set (pa := t_left (tget H s1)) in *. set (pb := t_right (tget H s1)) in *. set (pc := t_right (tget H s2)) in *.
  assert (N12 : s1 <> s2).
  { intro E0. apply N2l. rewrite <- E0. unfold slots. rewrite map_app. apply in_or_app. right. left. reflexivity. }
  assert (Inb_l : forall x, In x (slots (inorder b)) -> In x (slots (inorder a ++ n1 :: inorder b))).
  { intros x Hx. unfold slots in *. rewrite map_app. apply in_or_app. right. right. exact Hx. }
  assert (Ina_l : forall x, In x (slots (inorder a)) -> In x (slots (inorder a ++ n1 :: inorder b))).
  { intros x Hx. unfold slots in *. rewrite map_app. apply in_or_app. left. exact Hx. }
  assert (Hall : forall x, In x (slots ((inorder a ++ n1 :: inorder b) ++ n2 :: inorder c)) <->
                           In x (slots (inorder a)) \/ x = s1 \/ In x (slots (inorder b)) \/ x = s2 \/ In x (slots (inorder c))).
  { intros x. unfold slots. repeat (rewrite ?map_app, ?in_app_iff; cbn [map In]). fold s1 s2. intuition congruence. }
  assert (Nb12 : forall x, In x (slots (inorder b)) -> x <> s1 /\ x <> s2).
  { intros x Hx. split; intro E0; subst x; [apply N1b; exact Hx|apply N2l; apply Inb_l; exact Hx]. }
  assert (Nq : forall q, owner cell = Some q -> q <> s1 /\ q <> s2 /\ ~ In q (slots (inorder a)) /\ ~ In q (slots (inorder b)) /\ ~ In q (slots (inorder c))).
  { intros q Hq. specialize (Hown q Hq). rewrite Hall in Hown. repeat split; intro; apply Hown; auto. }
  assert (Hpb : pb = None /\ b = Leaf \/ exists tb, pb = Some tb /\ In tb (slots (inorder b))).
  { destruct pb as [tb|] eqn:Epb; [right; exists tb; split; auto; eapply trep_root_in; eauto|left; split; auto; eapply trep_leaf_iff; eauto]. }
  (* the heap after the pointer writes, before the heights are recomputed *)
  unfold t_rotr. fold H. rewrite Erd, El2. fold pb. cbv zeta.
  set (H1 := set_tparent H s1 (t_parent (tget H s2))). set (H2 := set_tright H1 s1 (Some s2)). set (H3 := set_tleft H2 s2 pb).
  set (H4 := match pb with Some t0 => set_tparent H3 t0 (Some s2) | None => H3 end). set (H5 := set_tparent H4 s2 (Some s1)).
  set (st6 := wr_tcref (mkTS H5 (troot st)) cell (Some s1)). set (H6 := th st6).
  assert (F6 : t_left (tget H6 s2) = pb /\ t_right (tget H6 s2) = pc /\ t_left (tget H6 s1) = pa /\ t_right (tget H6 s1) = Some s2 /\
               t_parent (tget H6 s1) = par /\ t_parent (tget H6 s2) = Some s1 /\
               (forall tb, pb = Some tb -> t_parent (tget H6 tb) = Some s2 /\ t_obj (tget H6 tb) = t_obj (tget H tb) /\ t_left (tget H6 tb) = t_left (tget H tb) /\
                                        t_right (tget H6 tb) = t_right (tget H tb) /\ t_height (tget H6 tb) = t_height (tget H tb) /\ t_slope (tget H6 tb) = t_slope (tget H tb)) /\
               (forall x, t_obj (tget H6 x) = t_obj (tget H x) /\ t_height (tget H6 x) = t_height (tget H x) /\ t_slope (tget H6 x) = t_slope (tget H x)) /\
               (forall x, x <> s1 -> x <> s2 -> pb <> Some x -> owner cell <> Some x -> tget H6 x = tget H x) /\
               rd_tcref st6 cell = Some s1 /\
               (forall q, owner cell = Some q -> t_parent (tget H6 q) = t_parent (tget H q) /\
                   (cell = TLeft q -> t_right (tget H6 q) = t_right (tget H q)) /\ (cell = TRight q -> t_left (tget H6 q) = t_left (tget H q))) /\
               (cell <> TRoot -> troot st6 = troot st)).
  { unfold H6, st6, H5, H4, H3, H2, H1.
    destruct Hpb as [(Epb & _)|(tb & Epb & Htb)]; rewrite Epb; [|destruct (Nb12 _ Htb) as (Nb1 & Nb2)];
      destruct cell as [|q|q]; cbn [wr_tcref th troot rd_tcref owner]; try (destruct (Nq q eq_refl) as (Nq1 & Nq2 & Nqa & Nqb & Nqc));
      try (assert (Nqt : q <> tb) by (intro E0; apply Nqb; rewrite E0; exact Htb));
      (split; [trw; auto|]); (split; [trw; auto|]); (split; [trw; auto|]); (split; [trw; auto|]); (split; [trw; auto|]); (split; [trw; auto|]);
      (split; [intros tb' Etb; try discriminate Etb; try (injection Etb as <-); trw; auto 10|]);
      (split; [intros x; trw; auto|]);
      (split; [intros x X1 X2 X3 X4; repeat first [rewrite tget_set_tparent_other by congruence | rewrite tget_set_tright_other by congruence | rewrite tget_set_tleft_other by congruence]; reflexivity|]);
      (split; [trw; auto|]);
      (split; [intros q' Eq; try discriminate Eq; try (injection Eq as <-); trw; (split; [auto|split; intros Ec; try discriminate Ec; trw; auto])|]);
      intros Hc; try congruence; reflexivity. }
  destruct F6 as (L2 & R2 & L1 & R1 & Pa1 & Pa2 & Ftb & Fall & Foth & Frd & Fq & Froot).
  (* heights *)
  assert (Hhb : height_of H6 pb = ht b).
  { destruct Hpb as [(-> & ->)|(tb & Epb & Htb)]; [reflexivity|]. rewrite Epb. cbn [height_of]. destruct (Ftb tb Epb) as (_ & _ & _ & _ & E5 & _). rewrite E5.
    rewrite Epb in Tb. apply trep_height in Tb. exact Tb. }
  assert (Hhc : height_of H6 pc = ht c).
  { destruct pc as [tc|] eqn:Epc; [|apply trep_leaf_iff in Tc; subst c; reflexivity]. cbn [height_of]. destruct (Fall tc) as (_ & E5 & _). rewrite E5.
    apply trep_height in Tc. exact Tc. }
  destruct (upd_hs_fields H6 s2) as (U1 & U2 & U3 & U4). set (H7 := upd_hs H6 s2) in *.
  destruct (upd_hs_fields H7 s1) as (V1 & V2 & V3 & V4). set (H8 := upd_hs H7 s1) in *.
  rewrite L2, R2, Hhb, Hhc in U3, U4.
  assert (Hha : height_of H7 pa = ht a).
  { destruct pa as [ta|] eqn:Epa; [|apply trep_leaf_iff in Ta; subst a; reflexivity]. cbn [height_of].
    assert (ta <> s2). { intro E0. apply N2l. rewrite <- E0. apply Ina_l. eapply trep_root_in; eauto. }
    rewrite U2 by congruence. destruct (Fall ta) as (_ & E5 & _). rewrite E5. apply trep_height in Ta. exact Ta. }
  destruct (U1 s1) as (_ & _ & U1l & U1r). rewrite U1l, U1r, L1, R1, Hha in V3, V4. cbn [height_of] in V3, V4. rewrite U3 in V3, V4.
  (* subtrees *)
  assert (Sub : forall x, x <> s1 -> x <> s2 -> tget H8 x = tget H6 x).
  { intros x X1 X2. rewrite V2, U2; auto. }
  assert (Ta8 : trep H8 a pa (Some s1)).
  { eapply trep_ext; [|exact Ta]. intros m Hm. pose proof (in_slots _ _ Hm) as Hs. rewrite Sub.
    - apply Foth.
      + intro E0. apply N1a. rewrite <- E0. exact Hs.
      + intro E0. apply N2l. rewrite <- E0. apply Ina_l. exact Hs.
      + intro E0. destruct Hpb as [(Epb & _)|(tb & Epb & Htb)]; rewrite Epb in E0; [discriminate|]. injection E0 as E0. apply (Nab (n_slot m) Hs). rewrite <- E0. exact Htb.
      + intro E0. destruct (Nq _ E0) as (_ & _ & Nqa & _). contradiction.
    - intro E0. apply N1a. rewrite <- E0. exact Hs.
    - intro E0. apply N2l. rewrite <- E0. apply Ina_l. exact Hs. }
  assert (Tc8 : trep H8 c pc (Some s2)).
  { eapply trep_ext; [|exact Tc]. intros m Hm. pose proof (in_slots _ _ Hm) as Hs. rewrite Sub.
    - apply Foth.
      + intro E0. apply (Nlc s1); [unfold slots; rewrite map_app; apply in_or_app; right; left; reflexivity|rewrite <- E0; exact Hs].
      + intro E0. apply N2c. rewrite <- E0. exact Hs.
      + intro E0. destruct Hpb as [(Epb & _)|(tb & Epb & Htb)]; rewrite Epb in E0; [discriminate|]. injection E0 as E0. apply (Nlc tb (Inb_l _ Htb)). rewrite E0. exact Hs.
      + intro E0. destruct (Nq _ E0) as (_ & _ & _ & _ & Nqc). contradiction.
    - intro E0. apply (Nlc s1); [unfold slots; rewrite map_app; apply in_or_app; right; left; reflexivity|rewrite <- E0; exact Hs].
    - intro E0. apply N2c. rewrite <- E0. exact Hs. }
  assert (Tb8 : trep H8 b pb (Some s2)).
  { eapply (trep_reparent H H8 b pb (Some s1)); [exact Nb|exact Tb| |].
    - intros m Hm Hne. pose proof (in_slots _ _ Hm) as Hs. destruct (Nb12 _ Hs) as (X1 & X2). rewrite Sub by auto. apply Foth; auto.
      intro E0. destruct (Nq _ E0) as (_ & _ & _ & Nqb & _). contradiction.
    - intros tb Epb. assert (Htb : In tb (slots (inorder b))) by (rewrite Epb in Tb; eapply trep_root_in; eauto).
      destruct (Nb12 _ Htb) as (X1 & X2). rewrite Sub by auto. destruct (Ftb tb Epb) as (E1 & E2 & E3 & E4 & E5 & E6). auto 10. }
  split.
  - (* the shape *)
    assert (Erd8 : rd_tcref (mkTS H8 (troot st6)) cell = Some s1).
    { destruct cell as [|q|q]; cbn [rd_tcref th troot] in *; auto; destruct (Nq q eq_refl) as (Nq1 & Nq2 & _); rewrite Sub by auto; exact Frd. }
    rewrite Erd8. cbn [t rotr]. unfold mk. cbn [trep ht th]. fold s1 s2.
    destruct (V1 s1) as (W1 & W2 & W3 & W4). destruct (U1 s1) as (W1' & W2' & W3' & W4'). destruct (Fall s1) as (G1 & _).
    assert (X8 : tget H8 s2 = tget H7 s2) by (apply V2; exact N12).
    destruct (U1 s2) as (Y1 & Y2 & Y3 & Y4). destruct (Fall s2) as (G2 & _).
    assert (A1 : t_obj (tget H8 s1) = Some (obj_of n1)) by (rewrite W1, W1', G1; exact O1).
    assert (A2 : t_parent (tget H8 s1) = par) by (rewrite W2, W2'; exact Pa1).
    assert (A5 : t_left (tget H8 s1) = pa) by (rewrite W3, W3'; exact L1).
    assert (A6 : t_right (tget H8 s1) = Some s2) by (rewrite W4, W4'; exact R1).
    assert (B1 : t_obj (tget H8 s2) = Some (obj_of n2)) by (rewrite X8, Y1, G2; exact O2).
    assert (B2 : t_parent (tget H8 s2) = Some s1) by (rewrite X8, Y2; exact Pa2).
    assert (B3 : t_height (tget H8 s2) = S (Nat.max (ht b) (ht c))) by (rewrite X8; exact U3).
    assert (B4 : t_slope (tget H8 s2) = Z.of_nat (ht b) - Z.of_nat (ht c)) by (rewrite X8; exact U4).
    assert (B5 : t_left (tget H8 s2) = pb) by (rewrite X8, Y3; exact L2).
    assert (B6 : t_right (tget H8 s2) = pc) by (rewrite X8, Y4; exact R2).
    rewrite A1, A2, A5, A6, B1, B2, B3, B4, B5, B6, V3, V4. auto 20.
  - (* the frame *)
    unfold rot_frame. cbn [th troot]. split.
    { intros x Hx Ho. cbn [t inorder] in Hx. rewrite Hall in Hx. rewrite Sub by (intro; apply Hx; auto).
      apply Foth; [intro E0; apply Hx; auto|intro E0; apply Hx; auto| |exact Ho].
      intro E0. destruct Hpb as [(Epb & _)|(tb & Epb & Htb)]; [rewrite E0 in Epb; discriminate|]. rewrite E0 in Epb. injection Epb as ->. apply Hx. auto. }
    split.
    { intros x. destruct (V1 x) as (W1 & _). destruct (U1 x) as (W1' & _). destruct (Fall x) as (G1 & _). rewrite W1, W1', G1. reflexivity. }
    split.
    { intros q Hq. destruct (Nq q Hq) as (Nq1 & Nq2 & _). rewrite Sub by auto. destruct (Fall q) as (G1 & G2 & G3). destruct (Fq q Hq) as (G4 & G5 & G6). auto 10. }
    exact Froot.
Qed.

Lemma rotl_refines st cell a n1 h1 b n2 h2 c par :
  let t := Node c n2 h2 (Node b n1 h1 a) in
  NoDup (slots (inorder t)) -> trep_kids (th st) t (rd_tcref st cell) par ->
  (forall q, owner cell = Some q -> ~ In q (slots (inorder t))) ->
  trep (th (t_rotl st cell)) (rotl t) (rd_tcref (t_rotl st cell) cell) par /\ rot_frame st (t_rotl st cell) cell t.
Proof.
  intros t Hnd T Hown. set (H := th st) in *.
  cbn [trep_kids trep] in T. destruct T as (Erd & O2 & P2 & Tc & (El2 & O1 & P1 & Hh1 & Sl1 & Tb & Ta)).
  (* distinctness *)
  cbn [t inorder] in Hnd, Hown.
  destruct (tree_nodup c n2 (Node b n1 h1 a) Hnd) as (Nc & Nl & N2c & N2l & Ncl). cbn [inorder] in Nl, N2l, Ncl. destruct (tree_nodup b n1 a Nl) as (Nb & Na & N1b & N1a & Nba).
  set (s1 := n_slot n1) in *. set (s2 := n_slot n2) in *.
  set (pa := t_right (tget H s1)) in *. set (pb := t_left (tget H s1)) in *. set (pc := t_left (tget H s2)) in *.
  assert (N12 : s1 <> s2).
  { intro E0. apply N2l. rewrite <- E0. unfold slots. rewrite map_app. apply in_or_app. right. left. reflexivity. }
  assert (Inb_l : forall x, In x (slots (inorder b)) -> In x (slots (inorder b ++ n1 :: inorder a))).
  { intros x Hx. unfold slots in *. rewrite map_app. apply in_or_app. left. exact Hx. }
  assert (Ina_l : forall x, In x (slots (inorder a)) -> In x (slots (inorder b ++ n1 :: inorder a))).
  { intros x Hx. unfold slots in *. rewrite map_app. apply in_or_app. right. right. exact Hx. }
  assert (Nab : forall x, In x (slots (inorder a)) -> ~ In x (slots (inorder b))) by (intros x X1 X2; eapply Nba; eauto).
  assert (Nlc : forall x, In x (slots (inorder b ++ n1 :: inorder a)) -> ~ In x (slots (inorder c))) by (intros x X1 X2; eapply Ncl; eauto).
  assert (Hall : forall x, In x (slots (inorder c ++ n2 :: inorder b ++ n1 :: inorder a)) <->
                           In x (slots (inorder a)) \/ x = s1 \/ In x (slots (inorder b)) \/ x = s2 \/ In x (slots (inorder c))).
  { intros x. unfold slots. repeat (rewrite ?map_app, ?in_app_iff; cbn [map In]). fold s1 s2. intuition congruence. }
  assert (Nb12 : forall x, In x (slots (inorder b)) -> x <> s1 /\ x <> s2).
  { intros x Hx. split; intro E0; subst x; [apply N1b; exact Hx|apply N2l; apply Inb_l; exact Hx]. }
  assert (Nq : forall q, owner cell = Some q -> q <> s1 /\ q <> s2 /\ ~ In q (slots (inorder a)) /\ ~ In q (slots (inorder b)) /\ ~ In q (slots (inorder c))).
  { intros q Hq. specialize (Hown q Hq). rewrite Hall in Hown. repeat split; intro; apply Hown; auto. }
  assert (Hpb : pb = None /\ b = Leaf \/ exists tb, pb = Some tb /\ In tb (slots (inorder b))).
  { destruct pb as [tb|] eqn:Epb; [right; exists tb; split; auto; eapply trep_root_in; eauto|left; split; auto; eapply trep_leaf_iff; eauto]. }
  (* the heap after the pointer writes, before the heights are recomputed *)
  unfold t_rotl. fold H. rewrite Erd, El2. fold pb. cbv zeta.
  set (H1 := set_tparent H s1 (t_parent (tget H s2))). set (H2 := set_tleft H1 s1 (Some s2)). set (H3 := set_tright H2 s2 pb).
  set (H4 := match pb with Some t0 => set_tparent H3 t0 (Some s2) | None => H3 end). set (H5 := set_tparent H4 s2 (Some s1)).
  set (st6 := wr_tcref (mkTS H5 (troot st)) cell (Some s1)). set (H6 := th st6).
  assert (F6 : t_right (tget H6 s2) = pb /\ t_left (tget H6 s2) = pc /\ t_right (tget H6 s1) = pa /\ t_left (tget H6 s1) = Some s2 /\
               t_parent (tget H6 s1) = par /\ t_parent (tget H6 s2) = Some s1 /\
               (forall tb, pb = Some tb -> t_parent (tget H6 tb) = Some s2 /\ t_obj (tget H6 tb) = t_obj (tget H tb) /\ t_right (tget H6 tb) = t_right (tget H tb) /\
                                        t_left (tget H6 tb) = t_left (tget H tb) /\ t_height (tget H6 tb) = t_height (tget H tb) /\ t_slope (tget H6 tb) = t_slope (tget H tb)) /\
               (forall x, t_obj (tget H6 x) = t_obj (tget H x) /\ t_height (tget H6 x) = t_height (tget H x) /\ t_slope (tget H6 x) = t_slope (tget H x)) /\
               (forall x, x <> s1 -> x <> s2 -> pb <> Some x -> owner cell <> Some x -> tget H6 x = tget H x) /\
               rd_tcref st6 cell = Some s1 /\
               (forall q, owner cell = Some q -> t_parent (tget H6 q) = t_parent (tget H q) /\
                   (cell = TRight q -> t_left (tget H6 q) = t_left (tget H q)) /\ (cell = TLeft q -> t_right (tget H6 q) = t_right (tget H q))) /\
               (cell <> TRoot -> troot st6 = troot st)).
  { unfold H6, st6, H5, H4, H3, H2, H1.
    destruct Hpb as [(Epb & _)|(tb & Epb & Htb)]; rewrite Epb; [|destruct (Nb12 _ Htb) as (Nb1 & Nb2)];
      destruct cell as [|q|q]; cbn [wr_tcref th troot rd_tcref owner]; try (destruct (Nq q eq_refl) as (Nq1 & Nq2 & Nqa & Nqb & Nqc));
      try (assert (Nqt : q <> tb) by (intro E0; apply Nqb; rewrite E0; exact Htb));
      (split; [trw; auto|]); (split; [trw; auto|]); (split; [trw; auto|]); (split; [trw; auto|]); (split; [trw; auto|]); (split; [trw; auto|]);
      (split; [intros tb' Etb; try discriminate Etb; try (injection Etb as <-); trw; auto 10|]);
      (split; [intros x; trw; auto|]);
      (split; [intros x X1 X2 X3 X4; repeat first [rewrite tget_set_tparent_other by congruence | rewrite tget_set_tright_other by congruence | rewrite tget_set_tleft_other by congruence]; reflexivity|]);
      (split; [trw; auto|]);
      (split; [intros q' Eq; try discriminate Eq; try (injection Eq as <-); trw; (split; [auto|split; intros Ec; try discriminate Ec; trw; auto])|]);
      intros Hc; try congruence; reflexivity. }
  destruct F6 as (L2 & R2 & L1 & R1 & Pa1 & Pa2 & Ftb & Fall & Foth & Frd & Fq & Froot).
  (* heights *)
  assert (Hhb : height_of H6 pb = ht b).
  { destruct Hpb as [(-> & ->)|(tb & Epb & Htb)]; [reflexivity|]. rewrite Epb. cbn [height_of]. destruct (Ftb tb Epb) as (_ & _ & _ & _ & E5 & _). rewrite E5.
    rewrite Epb in Tb. apply trep_height in Tb. exact Tb. }
  assert (Hhc : height_of H6 pc = ht c).
  { destruct pc as [tc|] eqn:Epc; [|apply trep_leaf_iff in Tc; subst c; reflexivity]. cbn [height_of]. destruct (Fall tc) as (_ & E5 & _). rewrite E5.
    apply trep_height in Tc. exact Tc. }
  destruct (upd_hs_fields H6 s2) as (U1 & U2 & U3 & U4). set (H7 := upd_hs H6 s2) in *.
  destruct (upd_hs_fields H7 s1) as (V1 & V2 & V3 & V4). set (H8 := upd_hs H7 s1) in *.
  rewrite L2, R2, Hhb, Hhc in U3, U4.
  assert (Hha : height_of H7 pa = ht a).
  { destruct pa as [ta|] eqn:Epa; [|apply trep_leaf_iff in Ta; subst a; reflexivity]. cbn [height_of].
    assert (ta <> s2). { intro E0. apply N2l. rewrite <- E0. apply Ina_l. eapply trep_root_in; eauto. }
    rewrite U2 by congruence. destruct (Fall ta) as (_ & E5 & _). rewrite E5. apply trep_height in Ta. exact Ta. }
  destruct (U1 s1) as (_ & _ & U1l & U1r). rewrite U1l, U1r, L1, R1, Hha in V3, V4. cbn [height_of] in V3, V4. rewrite U3 in V3, V4.
  (* subtrees *)
  assert (Sub : forall x, x <> s1 -> x <> s2 -> tget H8 x = tget H6 x).
  { intros x X1 X2. rewrite V2, U2; auto. }
  assert (Ta8 : trep H8 a pa (Some s1)).
  { eapply trep_ext; [|exact Ta]. intros m Hm. pose proof (in_slots _ _ Hm) as Hs. rewrite Sub.
    - apply Foth.
      + intro E0. apply N1a. rewrite <- E0. exact Hs.
      + intro E0. apply N2l. rewrite <- E0. apply Ina_l. exact Hs.
      + intro E0. destruct Hpb as [(Epb & _)|(tb & Epb & Htb)]; rewrite Epb in E0; [discriminate|]. injection E0 as E0. apply (Nab (n_slot m) Hs). rewrite <- E0. exact Htb.
      + intro E0. destruct (Nq _ E0) as (_ & _ & Nqa & _). contradiction.
    - intro E0. apply N1a. rewrite <- E0. exact Hs.
    - intro E0. apply N2l. rewrite <- E0. apply Ina_l. exact Hs. }
  assert (Tc8 : trep H8 c pc (Some s2)).
  { eapply trep_ext; [|exact Tc]. intros m Hm. pose proof (in_slots _ _ Hm) as Hs. rewrite Sub.
    - apply Foth.
      + intro E0. apply (Nlc s1); [unfold slots; rewrite map_app; apply in_or_app; right; left; reflexivity|rewrite <- E0; exact Hs].
      + intro E0. apply N2c. rewrite <- E0. exact Hs.
      + intro E0. destruct Hpb as [(Epb & _)|(tb & Epb & Htb)]; rewrite Epb in E0; [discriminate|]. injection E0 as E0. apply (Nlc tb (Inb_l _ Htb)). rewrite E0. exact Hs.
      + intro E0. destruct (Nq _ E0) as (_ & _ & _ & _ & Nqc). contradiction.
    - intro E0. apply (Nlc s1); [unfold slots; rewrite map_app; apply in_or_app; right; left; reflexivity|rewrite <- E0; exact Hs].
    - intro E0. apply N2c. rewrite <- E0. exact Hs. }
  assert (Tb8 : trep H8 b pb (Some s2)).
  { eapply (trep_reparent H H8 b pb (Some s1)); [exact Nb|exact Tb| |].
    - intros m Hm Hne. pose proof (in_slots _ _ Hm) as Hs. destruct (Nb12 _ Hs) as (X1 & X2). rewrite Sub by auto. apply Foth; auto.
      intro E0. destruct (Nq _ E0) as (_ & _ & _ & Nqb & _). contradiction.
    - intros tb Epb. assert (Htb : In tb (slots (inorder b))) by (rewrite Epb in Tb; eapply trep_root_in; eauto).
      destruct (Nb12 _ Htb) as (X1 & X2). rewrite Sub by auto. destruct (Ftb tb Epb) as (E1 & E2 & E3 & E4 & E5 & E6). auto 10. }
  split.
  - (* the shape *)
    assert (Erd8 : rd_tcref (mkTS H8 (troot st6)) cell = Some s1).
    { destruct cell as [|q|q]; cbn [rd_tcref th troot] in *; auto; destruct (Nq q eq_refl) as (Nq1 & Nq2 & _); rewrite Sub by auto; exact Frd. }
    rewrite Erd8. cbn [t rotl]. unfold mk. cbn [trep ht th]. fold s1 s2.
    destruct (V1 s1) as (W1 & W2 & W3 & W4). destruct (U1 s1) as (W1' & W2' & W3' & W4'). destruct (Fall s1) as (G1 & _).
    assert (X8 : tget H8 s2 = tget H7 s2) by (apply V2; exact N12).
    destruct (U1 s2) as (Y1 & Y2 & Y3 & Y4). destruct (Fall s2) as (G2 & _).
    assert (A1 : t_obj (tget H8 s1) = Some (obj_of n1)) by (rewrite W1, W1', G1; exact O1).
    assert (A2 : t_parent (tget H8 s1) = par) by (rewrite W2, W2'; exact Pa1).
    assert (A5 : t_right (tget H8 s1) = pa) by (rewrite W4, W4'; exact L1).
    assert (A6 : t_left (tget H8 s1) = Some s2) by (rewrite W3, W3'; exact R1).
    assert (B1 : t_obj (tget H8 s2) = Some (obj_of n2)) by (rewrite X8, Y1, G2; exact O2).
    assert (B2 : t_parent (tget H8 s2) = Some s1) by (rewrite X8, Y2; exact Pa2).
    assert (B3 : t_height (tget H8 s2) = S (Nat.max (ht c) (ht b))) by (rewrite X8; exact U3).
    assert (B4 : t_slope (tget H8 s2) = Z.of_nat (ht c) - Z.of_nat (ht b)) by (rewrite X8; exact U4).
    assert (B5 : t_right (tget H8 s2) = pb) by (rewrite X8, Y4; exact L2).
    assert (B6 : t_left (tget H8 s2) = pc) by (rewrite X8, Y3; exact R2).
    rewrite A1, A2, A5, A6, B1, B2, B3, B4, B5, B6, V3, V4. auto 20.
  - (* the frame *)
    unfold rot_frame. cbn [th troot]. split.
    { intros x Hx Ho. cbn [t inorder] in Hx. rewrite Hall in Hx. rewrite Sub by (intro; apply Hx; auto).
      apply Foth; [intro E0; apply Hx; auto|intro E0; apply Hx; auto| |exact Ho].
      intro E0. destruct Hpb as [(Epb & _)|(tb & Epb & Htb)]; [rewrite E0 in Epb; discriminate|]. rewrite E0 in Epb. injection Epb as ->. apply Hx. auto. }
    split.
    { intros x. destruct (V1 x) as (W1 & _). destruct (U1 x) as (W1' & _). destruct (Fall x) as (G1 & _). rewrite W1, W1', G1. reflexivity. }
    split.
    { intros q Hq. destruct (Nq q Hq) as (Nq1 & Nq2 & _). rewrite Sub by auto. destruct (Fall q) as (G1 & G2 & G3). destruct (Fq q Hq) as (G4 & G5 & G6). auto 10. }
    exact Froot.
Qed.

(* ---- shiftr / shiftl / rebal ---------------------------------------------------------------------------------- *)
Lemma ht_node t : (1 <= ht t)%nat -> exists l n h r, t = Node l n h r.
Proof. destruct t as [|l n h r]; cbn [ht]; [lia|]. eauto. Qed.

Lemma rot_frame_trans st st1 st2 cell t1 t :
  (forall x, In x (slots (inorder t1)) -> In x (slots (inorder t))) ->
  (forall q, owner cell = Some q -> ~ In q (slots (inorder t))) ->
  (* first: a rotation below, in a cell owned by a node of t *)
  (forall x, ~ In x (slots (inorder t)) -> tget (th st1) x = tget (th st) x) ->
  (forall x, t_obj (tget (th st1) x) = t_obj (tget (th st) x)) ->
  troot st1 = troot st ->
  rot_frame st1 st2 cell t1 -> rot_frame st st2 cell t.
Proof.
  intros Hsub Hown F1 O1 R1 (G1 & G2 & G3 & G4). unfold rot_frame. split.
  { intros x Hx Ho. rewrite G1; auto. }
  split. { intros x. rewrite G2. apply O1. }
  split.
  { intros q Hq. specialize (Hown q Hq). destruct (G3 q Hq) as (A1 & A2 & A3 & A4 & A5 & A6). rewrite F1 in * by exact Hown. auto 10. }
  intros Hc. rewrite G4 by exact Hc. exact R1.
Qed.

Lemma shiftr_refines st cell l n2 h2 c par :
  let t := Node l n2 h2 c in
  NoDup (slots (inorder t)) -> trep_kids (th st) t (rd_tcref st cell) par ->
  (forall q, owner cell = Some q -> ~ In q (slots (inorder t))) -> (2 <= ht l)%nat ->
  trep (th (t_shiftr st cell)) (shiftr t) (rd_tcref (t_shiftr st cell) cell) par /\ rot_frame st (t_shiftr st cell) cell t.
Proof.
  intros t Hnd T Hown Hh. destruct (ht_node l ltac:(lia)) as (a & n1 & h1 & b & ->).
  pose proof T as T0. cbn [trep_kids trep] in T. destruct T as (Erd & O2 & P2 & (El2 & O1 & P1 & Hh1 & Sl1 & Ta & Tb) & Tc).
  set (s1 := n_slot n1) in *. set (s2 := n_slot n2) in *.
  unfold t_shiftr. rewrite Erd, El2, Sl1. cbn [t shiftr slope]. destruct (Z.of_nat (ht a) - Z.of_nat (ht b) =? -1) eqn:Es.
  - (* double rotation *)
    apply Z.eqb_eq in Es. destruct (ht_node b ltac:(lia)) as (b1 & nb & hb & b2 & ->).
    cbn [t inorder] in Hnd, Hown. destruct (tree_nodup (Node a n1 h1 (Node b1 nb hb b2)) n2 c Hnd) as (Nl & Nc & N2l & N2c & Nlc).
    assert (Tl : trep_kids (th st) (Node a n1 h1 (Node b1 nb hb b2)) (rd_tcref st (TLeft s2)) (Some s2)).
    { cbn [rd_tcref trep_kids]. fold s1. rewrite El2. auto. }
    destruct (rotl_refines st (TLeft s2) b2 nb hb b1 n1 h1 a (Some s2) Nl Tl) as (R1 & (F1 & F2 & F3 & F4)).
    { intros q Hq. injection Hq as <-. exact N2l. }
    set (st1 := t_rotl st (TLeft s2)) in *.
    destruct (F3 s2 eq_refl) as (G1 & G2 & G3 & G4 & G5 & _). specialize (G5 eq_refl).
    assert (Erd1 : rd_tcref st1 cell = Some s2).
    { rewrite <- Erd. destruct cell as [|q|q]; cbn [rd_tcref].
      - apply F4. discriminate.
      - rewrite F1; [reflexivity| |].
        + intros Hin. apply (Hown q eq_refl). unfold slots in *. rewrite map_app. apply in_or_app. left. exact Hin.
        + cbn [owner]. intro E0. injection E0 as E0. apply (Hown q eq_refl). rewrite <- E0. unfold slots. rewrite map_app. apply in_or_app. right. left. reflexivity.
      - rewrite F1; [reflexivity| |].
        + intros Hin. apply (Hown q eq_refl). unfold slots in *. rewrite map_app. apply in_or_app. left. exact Hin.
        + cbn [owner]. intro E0. injection E0 as E0. apply (Hown q eq_refl). rewrite <- E0. unfold slots. rewrite map_app. apply in_or_app. right. left. reflexivity. }
    set (l' := rotl (Node a n1 h1 (Node b1 nb hb b2))) in *.
    assert (Einl : inorder l' = inorder (Node a n1 h1 (Node b1 nb hb b2))) by apply inorder_rotl.
    assert (T1 : trep_kids (th st1) (Node l' n2 h2 c) (rd_tcref st1 cell) par).
    { rewrite Erd1. cbn [trep_kids]. fold s2. rewrite G1, G2, G5. split; [reflexivity|]. split; [exact O2|]. split; [exact P2|]. split; [exact R1|].
      eapply trep_ext; [|exact Tc]. intros m Hm. apply F1.
      - intro Hin. apply (Nlc _ Hin). apply in_slots. exact Hm.
      - cbn [owner]. intro E0. injection E0 as E0. apply N2c. fold s2. rewrite E0. apply in_slots. exact Hm. }
    assert (Hnd1 : NoDup (slots (inorder (Node l' n2 h2 c)))) by (cbn [inorder]; rewrite Einl; exact Hnd).
    assert (Hown1 : forall q, owner cell = Some q -> ~ In q (slots (inorder (Node l' n2 h2 c)))) by (cbn [inorder]; rewrite Einl; exact Hown).
    unfold l' in T1, Hnd1, Hown1. cbn [rotl] in T1, Hnd1, Hown1. unfold mk at 1 in T1. unfold mk at 1 in Hnd1. unfold mk at 1 in Hown1.
    destruct (rotr_refines st1 cell _ _ _ _ n2 h2 c par Hnd1 T1 Hown1) as (R2 & Fr2).
    split.
    + unfold l'. cbn [rotl]. unfold mk at 2. exact R2.
    + eapply (rot_frame_trans st st1); [| |  | | |exact Fr2].
      * intros x Hx. fold (mk (mk a n1 b1) nb b2) in Hx. change (mk (mk a n1 b1) nb b2) with l' in Hx. cbn [inorder] in Hx. rewrite Einl in Hx. exact Hx.
      * exact Hown.
      * intros x Hx. apply F1.
        -- intro Hin. apply Hx. cbn [t inorder]. unfold slots in *. rewrite map_app. apply in_or_app. left. exact Hin.
        -- cbn [owner]. intro E0. injection E0 as E0. apply Hx. rewrite <- E0. cbn [t inorder]. unfold slots. rewrite map_app. apply in_or_app. right. left. reflexivity.
      * exact F2.
      * apply F4. discriminate.
  - (* single rotation *)
    apply rotr_refines; auto.
Qed.

Lemma shiftl_refines st cell l n2 h2 c par :
  let t := Node c n2 h2 l in
  NoDup (slots (inorder t)) -> trep_kids (th st) t (rd_tcref st cell) par ->
  (forall q, owner cell = Some q -> ~ In q (slots (inorder t))) -> (2 <= ht l)%nat ->
  trep (th (t_shiftl st cell)) (shiftl t) (rd_tcref (t_shiftl st cell) cell) par /\ rot_frame st (t_shiftl st cell) cell t.
Proof.
  intros t Hnd T Hown Hh. destruct (ht_node l ltac:(lia)) as (b & n1 & h1 & a & ->).
  pose proof T as T0. cbn [trep_kids trep] in T. destruct T as (Erd & O2 & P2 & Tc & (El2 & O1 & P1 & Hh1 & Sl1 & Tb & Ta)).
  set (s1 := n_slot n1) in *. set (s2 := n_slot n2) in *.
  unfold t_shiftl. rewrite Erd, El2, Sl1. cbn [t shiftl slope]. destruct (Z.of_nat (ht b) - Z.of_nat (ht a) =? 1) eqn:Es.
  - (* double rotation *)
    apply Z.eqb_eq in Es. destruct (ht_node b ltac:(lia)) as (b2 & nb & hb & b1 & ->).
    cbn [t inorder] in Hnd, Hown. destruct (tree_nodup c n2 (Node (Node b2 nb hb b1) n1 h1 a) Hnd) as (Nc & Nl & N2c & N2l & Ncl).
    assert (Nlc : forall x, In x (slots (inorder (Node (Node b2 nb hb b1) n1 h1 a))) -> ~ In x (slots (inorder c))) by (intros x X1 X2; eapply Ncl; eauto).
    assert (Tl : trep_kids (th st) (Node (Node b2 nb hb b1) n1 h1 a) (rd_tcref st (TRight s2)) (Some s2)).
    { cbn [rd_tcref trep_kids]. fold s1. rewrite El2. auto. }
    destruct (rotr_refines st (TRight s2) b2 nb hb b1 n1 h1 a (Some s2) Nl Tl) as (R1 & (F1 & F2 & F3 & F4)).
    { intros q Hq. injection Hq as <-. exact N2l. }
    set (st1 := t_rotr st (TRight s2)) in *.
    destruct (F3 s2 eq_refl) as (G1 & G2 & G3 & G4 & _ & G5). specialize (G5 eq_refl).
    assert (Erd1 : rd_tcref st1 cell = Some s2).
    { rewrite <- Erd. destruct cell as [|q|q]; cbn [rd_tcref].
      - apply F4. discriminate.
      - rewrite F1; [reflexivity| |].
        + intros Hin. apply (Hown q eq_refl). unfold slots in *. rewrite map_app. apply in_or_app. right. right. exact Hin.
        + cbn [owner]. intro E0. injection E0 as E0. apply (Hown q eq_refl). rewrite <- E0. unfold slots. rewrite map_app. apply in_or_app. right. left. reflexivity.
      - rewrite F1; [reflexivity| |].
        + intros Hin. apply (Hown q eq_refl). unfold slots in *. rewrite map_app. apply in_or_app. right. right. exact Hin.
        + cbn [owner]. intro E0. injection E0 as E0. apply (Hown q eq_refl). rewrite <- E0. unfold slots. rewrite map_app. apply in_or_app. right. left. reflexivity. }
    set (l' := rotr (Node (Node b2 nb hb b1) n1 h1 a)) in *.
    assert (Einl : inorder l' = inorder (Node (Node b2 nb hb b1) n1 h1 a)) by apply inorder_rotr.
    assert (T1 : trep_kids (th st1) (Node c n2 h2 l') (rd_tcref st1 cell) par).
    { rewrite Erd1. cbn [trep_kids]. fold s2. rewrite G1, G2, G5. split; [reflexivity|]. split; [exact O2|]. split; [exact P2|]. split; [|exact R1].
      eapply trep_ext; [|exact Tc]. intros m Hm. apply F1.
      - intro Hin. apply (Nlc _ Hin). apply in_slots. exact Hm.
      - cbn [owner]. intro E0. injection E0 as E0. apply N2c. fold s2. rewrite E0. apply in_slots. exact Hm. }
    assert (Hnd1 : NoDup (slots (inorder (Node c n2 h2 l')))) by (cbn [inorder]; rewrite Einl; exact Hnd).
    assert (Hown1 : forall q, owner cell = Some q -> ~ In q (slots (inorder (Node c n2 h2 l')))) by (cbn [inorder]; rewrite Einl; exact Hown).
    unfold l' in T1, Hnd1, Hown1. cbn [rotr] in T1, Hnd1, Hown1. unfold mk at 1 in T1. unfold mk at 1 in Hnd1. unfold mk at 1 in Hown1.
    destruct (rotl_refines st1 cell _ _ _ _ n2 h2 c par Hnd1 T1 Hown1) as (R2 & Fr2).
    split.
    + unfold l'. cbn [rotr]. unfold mk at 2. exact R2.
    + eapply (rot_frame_trans st st1); [| |  | | |exact Fr2].
      * intros x Hx. change (In x (slots (inorder (Node c n2 h2 l')))) in Hx. cbn [inorder] in Hx. rewrite Einl in Hx. exact Hx.
      * exact Hown.
      * intros x Hx. apply F1.
        -- intro Hin. apply Hx. cbn [t inorder]. unfold slots in *. rewrite map_app. apply in_or_app. right. right. exact Hin.
        -- cbn [owner]. intro E0. injection E0 as E0. apply Hx. rewrite <- E0. cbn [t inorder]. unfold slots. rewrite map_app. apply in_or_app. right. left. reflexivity.
      * exact F2.
      * apply F4. discriminate.
  - (* single rotation *)
    apply rotl_refines; auto.
Qed.

Lemma rot_frame_refl st cell t : rot_frame st st cell t.
Proof. unfold rot_frame. auto 10. Qed.

Lemma rebal_refines st item t par :
  NoDup (slots (inorder t)) -> trep (th st) t (Some item) par ->
  rd_tcref st (cref_of (th st) item) = Some item ->
  (forall q, owner (cref_of (th st) item) = Some q -> ~ In q (slots (inorder t))) ->
  let cell := cref_of (th st) item in
  trep (th (t_rebal st item)) (rebal t) (rd_tcref (t_rebal st item) cell) par /\ rot_frame st (t_rebal st item) cell t.
Proof.
  intros Hnd T Erd Hown cell. subst cell. destruct t as [|l n h r]; [discriminate T|].
  pose proof T as T0. cbn [trep] in T. destruct T as (Ep & O & P & Hh & Sl & Tl & Tr). injection Ep as ->.
  unfold t_rebal, rebal. rewrite Sl. cbn [slope].
  destruct (Z.of_nat (ht l) - Z.of_nat (ht r) >? 1) eqn:E1.
  - apply Z.gtb_lt in E1. apply shiftr_refines; auto; [|lia]. rewrite Erd. apply trep_kids_of. exact T0.
  - destruct (Z.of_nat (ht l) - Z.of_nat (ht r) <? -1) eqn:E2.
    + apply Z.ltb_lt in E2. apply shiftl_refines; auto; [|lia]. rewrite Erd. apply trep_kids_of. exact T0.
    + split; [rewrite Erd; exact T0|apply rot_frame_refl].
Qed.

(* no rotation writes an object field: the objects stay in their cells *)
Corollary rebal_moves_no_object st item t par x :
  NoDup (slots (inorder t)) -> trep (th st) t (Some item) par ->
  rd_tcref st (cref_of (th st) item) = Some item ->
  (forall q, owner (cref_of (th st) item) = Some q -> ~ In q (slots (inorder t))) ->
  t_obj (tget (th (t_rebal st item)) x) = t_obj (tget (th st) x).
Proof. intros A B C D. destruct (rebal_refines st item t par A B C D) as (_ & (_ & F & _)). apply F. Qed.
