(* Structural lemmas: sequences and the AVL tree.  Every tree operation of the model permutes
   nothing: the in-order sequence of node records changes exactly like the corresponding
   sequence operation (one record inserted, one removed, or one payload assigned). *)
From Coq Require Import ZArith List Bool Arith Lia.
From Stable Require Import Gen_Stable StableSpec StableModel.
Import ListNotations.
Local Open Scope Z_scope.

(* ---- sequences ---------------------------------------------------------------------------------- *)
Lemma insert_at_split {A} pos (x : A) l :
  exists l1 l2, l = l1 ++ l2 /\ insert_at pos x l = l1 ++ x :: l2.
Proof.
  revert pos. induction l as [|y r IH]; intros [|p]; cbn [insert_at].
  - exists [], []. auto.
  - exists [], []. auto.
  - exists [], (y :: r). auto.
  - destruct (IH p) as (l1 & l2 & E1 & E2). exists (y :: l1), l2. cbn [app]. rewrite E2. subst r. auto.
Qed.

Lemma remove_at_split {A} pos (x : A) l :
  nth_error l pos = Some x -> exists l1 l2, l = l1 ++ x :: l2 /\ remove_at pos l = l1 ++ l2 /\ length l1 = pos.
Proof.
  revert pos. induction l as [|y r IH]; intros [|p] H; cbn [nth_error remove_at] in *; try discriminate.
  - inversion H; subst. exists [], r. auto.
  - destruct (IH p H) as (l1 & l2 & E1 & E2 & E3). exists (y :: l1), l2. cbn [app length]. rewrite E2. subst r. auto.
Qed.

Lemma assign_at_split pos v x l :
  nth_error l pos = Some x -> exists l1 l2, l = l1 ++ x :: l2 /\ assign_at pos v l = l1 ++ set_val x v :: l2.
Proof.
  revert pos. induction l as [|y r IH]; intros [|p] H; cbn [nth_error assign_at] in *; try discriminate.
  - inversion H; subst. exists [], r. auto.
  - destruct (IH p H) as (l1 & l2 & E1 & E2). exists (y :: l1), l2. cbn [app]. rewrite E2. subst r. auto.
Qed.

Lemma assign_at_none pos v l : nth_error l pos = None -> assign_at pos v l = l.
Proof.
  revert pos. induction l as [|y r IH]; intros [|p] H; cbn [nth_error assign_at] in *; try discriminate; auto.
  rewrite IH; auto.
Qed.

Lemma remove_at_app_l {A} i (a b : list A) : (i < length a)%nat -> remove_at i (a ++ b) = remove_at i a ++ b.
Proof.
  revert i. induction a as [|y r IH]; intros i H; cbn [length] in H; [lia|].
  destruct i as [|i]; cbn [app remove_at]; auto. rewrite IH by lia. auto.
Qed.

Lemma remove_at_app_r {A} j (a b : list A) : remove_at (length a + j) (a ++ b) = a ++ remove_at j b.
Proof. induction a as [|y r IH]; cbn [length app remove_at Nat.add]; auto. rewrite IH. auto. Qed.

Lemma remove_at_mid {A} (a : list A) x b : remove_at (length a) (a ++ x :: b) = a ++ b.
Proof. rewrite <- (Nat.add_0_r (length a)). rewrite remove_at_app_r. reflexivity. Qed.

Lemma find_index_nth {A} (f : A -> bool) l i :
  find_index f l = Some i -> exists x, nth_error l i = Some x /\ f x = true.
Proof.
  revert i. induction l as [|y r IH]; intros i H; cbn [find_index] in H; [discriminate|].
  destruct (f y) eqn:E.
  - inversion H; subst. exists y. auto.
  - destruct (find_index f r) as [j|]; cbn [option_map] in H; [|discriminate].
    inversion H; subst. cbn [nth_error]. apply IH. reflexivity.
Qed.

(* ---- tree ------------------------------------------------------------------------------------- *)
Lemma inorder_mk l n r : inorder (mk l n r) = inorder l ++ n :: inorder r.
Proof. reflexivity. Qed.

Lemma inorder_rotr t : inorder (rotr t) = inorder t.
Proof.
  destruct t as [|[|a n1 h1 b] n2 h2 c]; cbn [rotr]; auto.
  rewrite !inorder_mk. cbn [inorder]. rewrite <- app_assoc. reflexivity.
Qed.
Lemma inorder_rotl t : inorder (rotl t) = inorder t.
Proof.
  destruct t as [|a n1 h1 [|b n2 h2 c]]; cbn [rotl]; auto.
  rewrite !inorder_mk. cbn [inorder]. rewrite <- app_assoc. reflexivity.
Qed.
Lemma inorder_shiftr t : inorder (shiftr t) = inorder t.
Proof.
  destruct t as [|l n h r]; cbn [shiftr]; auto. rewrite inorder_rotr.
  destruct (slope l =? -1); auto. cbn [inorder]. rewrite inorder_rotl. reflexivity.
Qed.
Lemma inorder_shiftl t : inorder (shiftl t) = inorder t.
Proof.
  destruct t as [|l n h r]; cbn [shiftl]; auto. rewrite inorder_rotl.
  destruct (slope r =? 1); auto. cbn [inorder]. rewrite inorder_rotr. reflexivity.
Qed.
Lemma inorder_rebal t : inorder (rebal t) = inorder t.
Proof.
  unfold rebal. destruct (slope t >? 1); [apply inorder_shiftr|].
  destruct (slope t <? -1); [apply inorder_shiftl|reflexivity].
Qed.

Lemma size_inorder t : size t = length (inorder t).
Proof.
  induction t as [|l IHl n h r IHr]; cbn [size inorder]; auto.
  rewrite app_length. cbn [length]. lia.
Qed.

Lemma ins_new_multi k t : ins_new true k t = true.
Proof. induction t as [|l IHl n h r IHr]; cbn [ins_new]; auto. destruct (k <? n_key n); auto. Qed.

Lemma ins_new_split m nd t :
  ins_new m (n_key nd) t = true ->
  exists l1 l2, inorder t = l1 ++ l2 /\ inorder (ins m nd t) = l1 ++ nd :: l2.
Proof.
  induction t as [|l IHl n h r IHr]; intros H; cbn [ins_new ins] in *.
  - exists [], []. auto.
  - destruct m.
    + destruct (n_key nd <? n_key n).
      * destruct (IHl H) as (l1 & l2 & E1 & E2). rewrite inorder_rebal, inorder_mk, E2. cbn [inorder]. rewrite E1.
        exists l1, (l2 ++ n :: inorder r). rewrite <- !app_assoc. auto.
      * destruct (IHr H) as (l1 & l2 & E1 & E2). rewrite inorder_rebal, inorder_mk, E2. cbn [inorder]. rewrite E1.
        exists (inorder l ++ n :: l1), l2. rewrite <- !app_assoc. auto.
    + destruct (n_key nd >? n_key n).
      * destruct (IHr H) as (l1 & l2 & E1 & E2). rewrite inorder_rebal, inorder_mk, E2. cbn [inorder]. rewrite E1.
        exists (inorder l ++ n :: l1), l2. rewrite <- !app_assoc. auto.
      * destruct (n_key nd <? n_key n); [|discriminate].
        destruct (IHl H) as (l1 & l2 & E1 & E2). rewrite inorder_rebal, inorder_mk, E2. cbn [inorder]. rewrite E1.
        exists l1, (l2 ++ n :: inorder r). rewrite <- !app_assoc. auto.
Qed.

Lemma ins_under_split right nd t : forall i,
  (i < size t)%nat -> exists l1 l2, inorder t = l1 ++ l2 /\ inorder (ins_under i right nd t) = l1 ++ nd :: l2.
Proof.
  induction t as [|l IHl n h r IHr]; intros i Hi; cbn [size] in Hi; [lia|]. cbn [ins_under].
  destruct (i <? size l)%nat eqn:E1.
  - apply Nat.ltb_lt in E1. destruct (IHl i E1) as (l1 & l2 & F1 & F2). rewrite inorder_rebal, inorder_mk, F2. cbn [inorder]. rewrite F1.
    exists l1, (l2 ++ n :: inorder r). rewrite <- !app_assoc. auto.
  - apply Nat.ltb_ge in E1. destruct (i =? size l)%nat eqn:E2.
    + destruct right.
      * destruct (ins_new_split true nd r (ins_new_multi _ _)) as (l1 & l2 & F1 & F2).
        rewrite inorder_rebal, inorder_mk, F2. cbn [inorder]. rewrite F1.
        exists (inorder l ++ n :: l1), l2. rewrite <- !app_assoc. auto.
      * destruct (ins_new_split true nd l (ins_new_multi _ _)) as (l1 & l2 & F1 & F2).
        rewrite inorder_rebal, inorder_mk, F2. cbn [inorder]. rewrite F1.
        exists l1, (l2 ++ n :: inorder r). rewrite <- !app_assoc. auto.
    + apply Nat.eqb_neq in E2. destruct (IHr (i - size l - 1)%nat ltac:(lia)) as (l1 & l2 & F1 & F2).
      rewrite inorder_rebal, inorder_mk, F2. cbn [inorder]. rewrite F1.
      exists (inorder l ++ n :: l1), l2. rewrite <- !app_assoc. auto.
Qed.

Lemma hint_ins_split pos nd t :
  exists l1 l2, inorder t = l1 ++ l2 /\ inorder (hint_ins pos nd t) = l1 ++ nd :: l2.
Proof.
  assert (R : exists l1 l2, inorder t = l1 ++ l2 /\ inorder (ins true nd t) = l1 ++ nd :: l2)
    by (apply ins_new_split; apply ins_new_multi).
  assert (U : forall i right x, nth_error (inorder t) i = Some x ->
                exists l1 l2, inorder t = l1 ++ l2 /\ inorder (ins_under i right nd t) = l1 ++ nd :: l2).
  { intros i right x Hx. apply ins_under_split. rewrite size_inorder. apply nth_error_Some. congruence. }
  unfold hint_ins. destruct (nth_error (inorder t) pos) as [ip|] eqn:Ep.
  - destruct (n_key nd <? n_key ip).
    + destruct pos as [|q]; [eapply U; eauto|].
      destruct (nth_error (inorder t) q) as [prev|]; [|exact R]. destruct (n_key nd >=? n_key prev); [eapply U; eauto|exact R].
    + destruct (nth_error (inorder t) (S pos)) as [next|]; [|eapply U; eauto].
      destruct (n_key nd <=? n_key next); [eapply U; eauto|exact R].
  - destruct (nth_error (inorder t) (length (inorder t) - 1)) as [prev|] eqn:El; [|exact R].
    destruct (n_key nd >? n_key prev); [eapply U; eauto|exact R].
Qed.

Lemma ins_old_split nd t :
  ins_new false (n_key nd) t = false ->
  exists l1 x l2, inorder t = l1 ++ x :: l2 /\ inorder (ins false nd t) = l1 ++ set_val x (n_val nd) :: l2
                  /\ ins_hit (n_key nd) t = Some x /\ n_key x = n_key nd.
Proof.
  induction t as [|l IHl n h r IHr]; intros H; cbn [ins_new ins ins_hit] in *; [discriminate|].
  destruct (n_key nd >? n_key n) eqn:E1.
  - destruct (IHr H) as (l1 & x & l2 & F1 & F2 & F3 & F4). rewrite inorder_rebal, inorder_mk, F2. cbn [inorder]. rewrite F1.
    exists (inorder l ++ n :: l1), x, l2. rewrite <- !app_assoc. auto.
  - destruct (n_key nd <? n_key n) eqn:E2.
    + destruct (IHl H) as (l1 & x & l2 & F1 & F2 & F3 & F4). rewrite inorder_rebal, inorder_mk, F2. cbn [inorder]. rewrite F1.
      exists l1, x, (l2 ++ n :: inorder r). rewrite <- !app_assoc. auto.
    + exists (inorder l), n, (inorder r). cbn [inorder]. repeat split; auto. lia.
Qed.

Lemma pop_min_inorder l n r e t' : pop_min l n r = (e, t') -> inorder l ++ n :: inorder r = e :: inorder t'.
Proof.
  revert n r e t'. induction l as [|ll IHll ln lh lr IHlr]; intros n r e t' H; cbn [pop_min] in H.
  - inversion H; subst. reflexivity.
  - destruct (pop_min ll ln lr) as [e0 l'] eqn:E. inversion H; subst.
    rewrite inorder_rebal, inorder_mk. cbn [inorder]. rewrite (IHll _ _ _ _ E). reflexivity.
Qed.

Lemma pop_max_inorder l n r e t' : pop_max l n r = (e, t') -> inorder l ++ n :: inorder r = inorder t' ++ [e].
Proof.
  revert l n e t'. induction r as [|rl IHrl rn rh rr IHrr]; intros l n e t' H; cbn [pop_max] in H.
  - inversion H; subst. reflexivity.
  - destruct (pop_max rl rn rr) as [e0 r'] eqn:E. inversion H; subst.
    rewrite inorder_rebal, inorder_mk. cbn [inorder]. rewrite (IHrr _ _ _ _ E).
    rewrite <- app_assoc. reflexivity.
Qed.

Lemma remove_root_inorder l r : inorder (remove_root l r) = inorder l ++ inorder r.
Proof.
  destruct l as [|ll ln lh lr]; destruct r as [|rl rn rh rr]; cbn [remove_root]; auto.
  - cbn [inorder]. rewrite app_nil_r. reflexivity.
  - destruct (ht (Node ll ln lh lr) <? ht (Node rl rn rh rr))%nat.
    + destruct (pop_min rl rn rr) as [e r'] eqn:E. rewrite inorder_rebal, inorder_mk.
      rewrite <- (pop_min_inorder _ _ _ _ _ E). reflexivity.
    + destruct (pop_max ll ln lr) as [e l'] eqn:E. rewrite inorder_rebal, inorder_mk.
      change (inorder (Node ll ln lh lr)) with (inorder ll ++ ln :: inorder lr).
      rewrite (pop_max_inorder _ _ _ _ _ E). rewrite <- app_assoc. reflexivity.
Qed.

Lemma remove_rank_inorder i t : inorder (remove_rank i t) = remove_at i (inorder t).
Proof.
  revert i. induction t as [|l IHl n h r IHr]; intros i; cbn [remove_rank inorder].
  - destruct i; reflexivity.
  - rewrite size_inorder.
    destruct (i <? length (inorder l))%nat eqn:E1.
    + apply Nat.ltb_lt in E1. rewrite inorder_rebal, inorder_mk, IHl. rewrite remove_at_app_l by exact E1. reflexivity.
    + apply Nat.ltb_ge in E1. destruct (i =? length (inorder l))%nat eqn:E2.
      * apply Nat.eqb_eq in E2. subst i. rewrite remove_root_inorder, remove_at_mid. reflexivity.
      * apply Nat.eqb_neq in E2. rewrite inorder_rebal, inorder_mk, IHr.
        replace i with (length (inorder l) + S (i - length (inorder l) - 1))%nat at 2 by lia.
        rewrite remove_at_app_r. cbn [remove_at]. reflexivity.
Qed.

Lemma find_rank_some m k t : forall i, find_rank m k t = Some i -> exists n, nth_error (inorder t) i = Some n /\ n_key n = k.
Proof.
  induction t as [|l IHl n h r IHr]; intros i H; cbn [find_rank inorder] in *; [discriminate|].
  assert (Hmid : nth_error (inorder l ++ n :: inorder r) (size l) = Some n).
  { rewrite size_inorder, nth_error_app2 by lia. rewrite Nat.sub_diag. reflexivity. }
  destruct (Z.gtb_spec k (n_key n)) as [Hgt|Hle].
  - destruct (find_rank m k r) as [j|] eqn:Er; cbn [option_map] in H; [|discriminate]. injection H as <-.
    destruct (IHr j eq_refl) as (x & Hx & Ek). exists x. split; auto.
    rewrite size_inorder, nth_error_app2 by lia. replace (length (inorder l) + 1 + j - length (inorder l))%nat with (S j) by lia. exact Hx.
  - destruct (Z.ltb_spec k (n_key n)) as [Hlt|Hge].
    + destruct (IHl i H) as (x & Hx & Ek). exists x. split; auto. rewrite nth_error_app1; auto. apply nth_error_Some. congruence.
    + assert (Ek : n_key n = k) by lia. destruct m.
      * destruct (find_rank true k l) as [j|] eqn:El.
        -- injection H as <-. destruct (IHl j eq_refl) as (x & Hx & Ex). exists x. split; auto. rewrite nth_error_app1; auto. apply nth_error_Some. congruence.
        -- injection H as <-. exists n. auto.
      * injection H as <-. exists n. auto.
Qed.
