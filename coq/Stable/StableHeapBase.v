(* Basic facts about the heap of the cell machine: read-after-write for every field, the
   representation predicates (doubly linked segment, free list, hash chain) and the effect of the
   pointer surgery of StableHeap.v on them. *)
From Coq Require Import ZArith List Bool Arith Lia.
From Stable Require Import Gen_Stable StableSpec StableModel StableTree StableInv StableProofs StableHeap.
Import ListNotations.

Lemma slot_eqb_rfl s : slot_eqb s s = true.
Proof. apply slot_eqb_eq. reflexivity. Qed.
Lemma slot_eqb_neq a b : a <> b -> slot_eqb a b = false.
Proof. intros H. destruct (slot_eqb a b) eqn:E; auto. apply slot_eqb_eq in E. contradiction. Qed.

Lemma hget_hdel H s x : s <> x -> hget (hdel H s) x = hget H x.
Proof.
  intros Hne. induction H as [|[s' c] r IH]; cbn [hdel hget]; auto.
  destruct (slot_eqb s' s) eqn:E1.
  - apply slot_eqb_eq in E1. subst s'. rewrite (slot_eqb_neq _ _ Hne). exact IH.
  - cbn [hget]. destruct (slot_eqb s' x); auto.
Qed.
Lemma hget_hset_same H s c : hget (hset H s c) s = c.
Proof. unfold hset. cbn [hget]. rewrite slot_eqb_rfl. reflexivity. Qed.
Lemma hget_hset_other H s c x : s <> x -> hget (hset H s c) x = hget H x.
Proof. intros Hne. unfold hset. cbn [hget]. rewrite (slot_eqb_neq _ _ Hne). apply hget_hdel. exact Hne. Qed.

Lemma hget_set_obj_other H s v x : s <> x -> hget (set_obj H s v) x = hget H x.
Proof. intros Hne. unfold set_obj. apply hget_hset_other. exact Hne. Qed.
Lemma obj_set_obj_same H s v : c_obj (hget (set_obj H s v) s) = v.
Proof. unfold set_obj. rewrite hget_hset_same. reflexivity. Qed.
Lemma obj_set_obj_other H s v x : s <> x -> c_obj (hget (set_obj H s v) x) = c_obj (hget H x).
Proof. intros Hne. rewrite hget_set_obj_other by exact Hne. reflexivity. Qed.
Lemma prev_set_obj H s v x : c_prev (hget (set_obj H s v) x) = c_prev (hget H x).
Proof. unfold set_obj. destruct (sdec s x) as [<-|Hne]; [rewrite hget_hset_same|rewrite hget_hset_other by exact Hne]; reflexivity. Qed.
Lemma next_set_obj H s v x : c_next (hget (set_obj H s v) x) = c_next (hget H x).
Proof. unfold set_obj. destruct (sdec s x) as [<-|Hne]; [rewrite hget_hset_same|rewrite hget_hset_other by exact Hne]; reflexivity. Qed.
Lemma cell_set_obj H s v x : c_cell (hget (set_obj H s v) x) = c_cell (hget H x).
Proof. unfold set_obj. destruct (sdec s x) as [<-|Hne]; [rewrite hget_hset_same|rewrite hget_hset_other by exact Hne]; reflexivity. Qed.
Lemma nextcell_set_obj H s v x : c_nextcell (hget (set_obj H s v) x) = c_nextcell (hget H x).
Proof. unfold set_obj. destruct (sdec s x) as [<-|Hne]; [rewrite hget_hset_same|rewrite hget_hset_other by exact Hne]; reflexivity. Qed.
Lemma hget_set_prev_other H s v x : s <> x -> hget (set_prev H s v) x = hget H x.
Proof. intros Hne. unfold set_prev. apply hget_hset_other. exact Hne. Qed.
Lemma prev_set_prev_same H s v : c_prev (hget (set_prev H s v) s) = v.
Proof. unfold set_prev. rewrite hget_hset_same. reflexivity. Qed.
Lemma prev_set_prev_other H s v x : s <> x -> c_prev (hget (set_prev H s v) x) = c_prev (hget H x).
Proof. intros Hne. rewrite hget_set_prev_other by exact Hne. reflexivity. Qed.
Lemma obj_set_prev H s v x : c_obj (hget (set_prev H s v) x) = c_obj (hget H x).
Proof. unfold set_prev. destruct (sdec s x) as [<-|Hne]; [rewrite hget_hset_same|rewrite hget_hset_other by exact Hne]; reflexivity. Qed.
Lemma next_set_prev H s v x : c_next (hget (set_prev H s v) x) = c_next (hget H x).
Proof. unfold set_prev. destruct (sdec s x) as [<-|Hne]; [rewrite hget_hset_same|rewrite hget_hset_other by exact Hne]; reflexivity. Qed.
Lemma cell_set_prev H s v x : c_cell (hget (set_prev H s v) x) = c_cell (hget H x).
Proof. unfold set_prev. destruct (sdec s x) as [<-|Hne]; [rewrite hget_hset_same|rewrite hget_hset_other by exact Hne]; reflexivity. Qed.
Lemma nextcell_set_prev H s v x : c_nextcell (hget (set_prev H s v) x) = c_nextcell (hget H x).
Proof. unfold set_prev. destruct (sdec s x) as [<-|Hne]; [rewrite hget_hset_same|rewrite hget_hset_other by exact Hne]; reflexivity. Qed.
Lemma hget_set_next_other H s v x : s <> x -> hget (set_next H s v) x = hget H x.
Proof. intros Hne. unfold set_next. apply hget_hset_other. exact Hne. Qed.
Lemma next_set_next_same H s v : c_next (hget (set_next H s v) s) = v.
Proof. unfold set_next. rewrite hget_hset_same. reflexivity. Qed.
Lemma next_set_next_other H s v x : s <> x -> c_next (hget (set_next H s v) x) = c_next (hget H x).
Proof. intros Hne. rewrite hget_set_next_other by exact Hne. reflexivity. Qed.
Lemma obj_set_next H s v x : c_obj (hget (set_next H s v) x) = c_obj (hget H x).
Proof. unfold set_next. destruct (sdec s x) as [<-|Hne]; [rewrite hget_hset_same|rewrite hget_hset_other by exact Hne]; reflexivity. Qed.
Lemma prev_set_next H s v x : c_prev (hget (set_next H s v) x) = c_prev (hget H x).
Proof. unfold set_next. destruct (sdec s x) as [<-|Hne]; [rewrite hget_hset_same|rewrite hget_hset_other by exact Hne]; reflexivity. Qed.
Lemma cell_set_next H s v x : c_cell (hget (set_next H s v) x) = c_cell (hget H x).
Proof. unfold set_next. destruct (sdec s x) as [<-|Hne]; [rewrite hget_hset_same|rewrite hget_hset_other by exact Hne]; reflexivity. Qed.
Lemma nextcell_set_next H s v x : c_nextcell (hget (set_next H s v) x) = c_nextcell (hget H x).
Proof. unfold set_next. destruct (sdec s x) as [<-|Hne]; [rewrite hget_hset_same|rewrite hget_hset_other by exact Hne]; reflexivity. Qed.
Lemma hget_set_cell_other H s v x : s <> x -> hget (set_cell H s v) x = hget H x.
Proof. intros Hne. unfold set_cell. apply hget_hset_other. exact Hne. Qed.
Lemma cell_set_cell_same H s v : c_cell (hget (set_cell H s v) s) = v.
Proof. unfold set_cell. rewrite hget_hset_same. reflexivity. Qed.
Lemma cell_set_cell_other H s v x : s <> x -> c_cell (hget (set_cell H s v) x) = c_cell (hget H x).
Proof. intros Hne. rewrite hget_set_cell_other by exact Hne. reflexivity. Qed.
Lemma obj_set_cell H s v x : c_obj (hget (set_cell H s v) x) = c_obj (hget H x).
Proof. unfold set_cell. destruct (sdec s x) as [<-|Hne]; [rewrite hget_hset_same|rewrite hget_hset_other by exact Hne]; reflexivity. Qed.
Lemma prev_set_cell H s v x : c_prev (hget (set_cell H s v) x) = c_prev (hget H x).
Proof. unfold set_cell. destruct (sdec s x) as [<-|Hne]; [rewrite hget_hset_same|rewrite hget_hset_other by exact Hne]; reflexivity. Qed.
Lemma next_set_cell H s v x : c_next (hget (set_cell H s v) x) = c_next (hget H x).
Proof. unfold set_cell. destruct (sdec s x) as [<-|Hne]; [rewrite hget_hset_same|rewrite hget_hset_other by exact Hne]; reflexivity. Qed.
Lemma nextcell_set_cell H s v x : c_nextcell (hget (set_cell H s v) x) = c_nextcell (hget H x).
Proof. unfold set_cell. destruct (sdec s x) as [<-|Hne]; [rewrite hget_hset_same|rewrite hget_hset_other by exact Hne]; reflexivity. Qed.
Lemma hget_set_nextcell_other H s v x : s <> x -> hget (set_nextcell H s v) x = hget H x.
Proof. intros Hne. unfold set_nextcell. apply hget_hset_other. exact Hne. Qed.
Lemma nextcell_set_nextcell_same H s v : c_nextcell (hget (set_nextcell H s v) s) = v.
Proof. unfold set_nextcell. rewrite hget_hset_same. reflexivity. Qed.
Lemma nextcell_set_nextcell_other H s v x : s <> x -> c_nextcell (hget (set_nextcell H s v) x) = c_nextcell (hget H x).
Proof. intros Hne. rewrite hget_set_nextcell_other by exact Hne. reflexivity. Qed.
Lemma obj_set_nextcell H s v x : c_obj (hget (set_nextcell H s v) x) = c_obj (hget H x).
Proof. unfold set_nextcell. destruct (sdec s x) as [<-|Hne]; [rewrite hget_hset_same|rewrite hget_hset_other by exact Hne]; reflexivity. Qed.
Lemma prev_set_nextcell H s v x : c_prev (hget (set_nextcell H s v) x) = c_prev (hget H x).
Proof. unfold set_nextcell. destruct (sdec s x) as [<-|Hne]; [rewrite hget_hset_same|rewrite hget_hset_other by exact Hne]; reflexivity. Qed.
Lemma next_set_nextcell H s v x : c_next (hget (set_nextcell H s v) x) = c_next (hget H x).
Proof. unfold set_nextcell. destruct (sdec s x) as [<-|Hne]; [rewrite hget_hset_same|rewrite hget_hset_other by exact Hne]; reflexivity. Qed.
Lemma cell_set_nextcell H s v x : c_cell (hget (set_nextcell H s v) x) = c_cell (hget H x).
Proof. unfold set_nextcell. destruct (sdec s x) as [<-|Hne]; [rewrite hget_hset_same|rewrite hget_hset_other by exact Hne]; reflexivity. Qed.
#[export] Hint Rewrite obj_set_obj_same prev_set_obj next_set_obj cell_set_obj nextcell_set_obj prev_set_prev_same obj_set_prev next_set_prev cell_set_prev nextcell_set_prev next_set_next_same obj_set_next prev_set_next cell_set_next nextcell_set_next cell_set_cell_same obj_set_cell prev_set_cell next_set_cell nextcell_set_cell nextcell_set_nextcell_same obj_set_nextcell prev_set_nextcell next_set_nextcell cell_set_nextcell : hf.

Ltac neq := first [assumption | apply not_eq_sym; assumption | congruence | (intro; subst; contradiction)].
Ltac hrw :=
  repeat (autorewrite with hf;
          repeat first [ rewrite obj_set_obj_other by neq | rewrite prev_set_prev_other by neq | rewrite next_set_next_other by neq
                       | rewrite cell_set_cell_other by neq | rewrite nextcell_set_nextcell_other by neq ]).

