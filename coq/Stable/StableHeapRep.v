(* The representation relation between the cell machine (StableHeap.v) and the node-level model
   (StableModel.v), and the refinement of the container operations of the sequence kinds
   (List, PoolList). *)
From Coq Require Import ZArith List Bool Arith Lia.
From Stable Require Import Gen_Stable StableSpec StableModel StableTree StableInv StableProofs StableTheorems StableBlocks
  StableHeap StableHeapBase StableHeapSeg.
Import ListNotations.

(* ---- what a container owns ------------------------------------------------------------------------ *)
Definition dser (c : cont) : list nat :=
  match c_body c with
  | BHash _ hd => match h_data hd with Some d => [d] | None => [] end
  | _ => []
  end.
Definition ccap (c : cont) : nat := match c_body c with BHash _ hd => h_cap hd | _ => O end.
Definition bcells (c : cont) : list slot := flat_map (fun d => map (fun b => (d, b)) (seq 0 (ccap c))) (dser c).
Definition cfoot (c : cont) : list slot := cslots c ++ bcells c.

Lemma in_bcells c x : In x (bcells c) <-> In (fst x) (dser c) /\ (snd x < ccap c)%nat.
Proof.
  unfold bcells. rewrite in_flat_map. split.
  - intros (d & Hd & Hx). apply in_map_iff in Hx. destruct Hx as (b & <- & Hb). apply in_seq in Hb. cbn. split; auto. lia.
  - intros (Hd & Hb). exists (fst x). split; auto. apply in_map_iff. exists (snd x). split; [destruct x; reflexivity|]. apply in_seq. lia.
Qed.

(* ---- representation of one container --------------------------------------------------------------- *)
Definition hrep (H : heap) (h : hdr) (b : body) : Prop :=
  match b with
  | BHash l hd =>
      hd_cap h = h_cap hd /\ hd_data h = h_data hd /\
      match h_data hd with
      | Some d => forall b, (b < h_cap hd)%nat -> chain H (d, b) (nth b (h_chains hd) [])
      | None => True
      end
  | _ => hd_data h = None
  end.

Record CRep (side : bool) (H : heap) (h : hdr) (c : cont) : Prop := mkCRep {
  cr_dll : dll H (hd_begin h) PNull (elems c) (hd_last h) (PEnd side);
  cr_fl : fl H (hd_free h) (p_free (c_pool c));
  cr_blocks : hd_blocks h = p_blocks (c_pool c);
  cr_size : hd_size h = length (elems c);
  cr_hash : hrep H h (c_body c) }.

(* node-level well-formedness of the hash chains *)
Definition ChInv (c : cont) : Prop :=
  match c_body c with
  | BHash l hd =>
      (1 <= h_cap hd)%nat /\
      match h_data hd with
      | None => l = [] /\ h_chains hd = []
      | Some d => length (h_chains hd) = h_cap hd
      end /\
      (forall b, NoDup (nth b (h_chains hd) [])) /\
      (forall n, In n l -> In (n_slot n) (nth (bucket (h_cap hd) (n_key n)) (h_chains hd) [])) /\
      (forall b s, In s (nth b (h_chains hd) []) -> exists n, In n l /\ n_slot n = s /\ bucket (h_cap hd) (n_key n) = b)
  | _ => True
  end.

(* allocation serials: data arrays and blocks of both containers are pairwise different and old *)
Record DInv (c o : cont) (ser : nat) : Prop := mkDInv {
  di_nd : NoDup (dser c ++ dser o ++ blocks c ++ blocks o);
  di_lt : Forall (fun d => (d < ser)%nat) (dser c ++ dser o) }.

Lemma DInv_sym c o ser : DInv c o ser -> DInv o c ser.
Proof.
  intros [H1 H2]. constructor.
  - rewrite (NoDup_count_occ Nat.eq_dec) in *. intro x. specialize (H1 x). rewrite !count_occ_app in *. lia.
  - rewrite Forall_app in *. tauto.
Qed.

(* the cells that represent the other container are not touched by an operation on this one *)
Lemma foot_disjoint c o ser nid x :
  PInv c o ser nid -> BInv c o ser -> DInv c o ser -> In x (cfoot o) -> ~ In x (cfoot c) /\ (fst x < ser)%nat.
Proof.
  intros [P1 P2 P3 P4] [B1 B2 B3 B4] [D1 D2] Hx. unfold cfoot in *. rewrite in_app_iff in Hx.
  rewrite (NoDup_count_occ Nat.eq_dec) in D1.
  destruct Hx as [Hx|Hx].
  - split.
    + rewrite in_app_iff. intros [Hc|Hc].
      * rewrite (NoDup_count_occ sdec) in P3. specialize (P3 x). rewrite count_occ_app in P3.
        apply (count_occ_In sdec) in Hx. apply (count_occ_In sdec) in Hc. lia.
      * apply in_bcells in Hc. destruct Hc as (Hd & _). specialize (B2 _ Hx). specialize (D1 (fst x)).
        rewrite !count_occ_app in D1. apply (count_occ_In Nat.eq_dec) in Hd. apply (count_occ_In Nat.eq_dec) in B2. lia.
    + rewrite Forall_forall in P4. apply (P4 x). apply in_or_app. auto.
  - apply in_bcells in Hx. destruct Hx as (Hd & _). split.
    + rewrite in_app_iff. intros [Hc|Hc].
      * specialize (B1 _ Hc). specialize (D1 (fst x)).
        rewrite !count_occ_app in D1. apply (count_occ_In Nat.eq_dec) in Hd. apply (count_occ_In Nat.eq_dec) in B1. lia.
      * apply in_bcells in Hc. destruct Hc as (Hd' & _). specialize (D1 (fst x)).
        rewrite !count_occ_app in D1. apply (count_occ_In Nat.eq_dec) in Hd. apply (count_occ_In Nat.eq_dec) in Hd'. lia.
    + rewrite Forall_forall in D2. apply (D2 (fst x)). apply in_or_app. auto.
Qed.

Lemma CRep_frame side H H' h c :
  CRep side H h c -> ChInv c -> (forall x, In x (cfoot c) -> hget H' x = hget H x) -> CRep side H' h c.
Proof.
  intros [R1 R2 R3 R4 R5] Hch Hf. constructor; auto.
  - eapply dll_ext; [|exact R1]. intros n Hn. apply agree_dll_eq. apply Hf. unfold cfoot, cslots.
    apply in_or_app. left. apply in_or_app. right. apply in_slots. exact Hn.
  - eapply fl_ext; [|exact R2]. intros s Hs. rewrite Hf; auto. unfold cfoot, cslots. apply in_or_app. left. apply in_or_app. auto.
  - unfold hrep, ChInv in *. destruct (c_body c) as [l|t|l hd] eqn:Eb; auto. destruct R5 as (E1 & E2 & E3). split; auto. split; auto.
    destruct (h_data hd) as [d|] eqn:Ed; auto. intros b Hb. destruct Hch as (_ & _ & _ & _ & C5).
    assert (Hin : forall s, In s (nth b (h_chains hd) []) -> In s (cfoot c)).
    { intros s Hs. destruct (C5 _ _ Hs) as (n & Hn & <- & _). unfold cfoot, cslots, elems. rewrite Eb. cbn [elems_of].
      apply in_or_app. left. apply in_or_app. right. apply in_slots. exact Hn. }
    assert (Hb0 : In (d, b) (cfoot c)).
    { unfold cfoot. apply in_or_app. right. apply in_bcells. unfold dser, ccap. rewrite Eb, Ed. cbn. auto. }
    eapply chain_ext; [| |apply E3; exact Hb].
    + intros s [<-|Hs]; rewrite Hf; auto.
    + intros s Hs. rewrite Hf; auto.
Qed.

(* ---- taking an item: the free list or a fresh block -------------------------------------------------- *)
Definition same_fields (H H' : heap) : Prop :=
  forall x, c_obj (hget H' x) = c_obj (hget H x) /\ c_next (hget H' x) = c_next (hget H x) /\
            c_cell (hget H' x) = c_cell (hget H x) /\ c_nextcell (hget H' x) = c_nextcell (hget H x).

Lemma map_pair_in (ser i : nat) (l : list nat) : In (ser, i) (map (fun j : nat => (ser, j)) l) <-> In i l.
Proof.
  rewrite in_map_iff. split.
  - intros (j & E & Hj). injection E as <-. exact Hj.
  - intros Hi. exists i. auto.
Qed.

Lemma take_refine k H h p ser s p' ser' ev :
  fl H (hd_free h) (p_free p) -> hd_blocks h = p_blocks p -> NoDup (p_free p) ->
  (forall x, fst x = ser -> c_obj (hget H x) = None) ->
  alloc k p ser = (s, p', ser', ev) ->
  exists H2 h2, l_take k H h ser = (s, H2, h2, ser', ev) /\
    fl H2 (hd_free h2) (p_free p') /\ hd_blocks h2 = p_blocks p' /\
    hd_begin h2 = hd_begin h /\ hd_last h2 = hd_last h /\ hd_size h2 = hd_size h /\ hd_cap h2 = hd_cap h /\ hd_data h2 = hd_data h /\
    (forall x, ~ (ser <= fst x < ser')%nat -> hget H2 x = hget H x) /\ same_fields H H2 /\
    c_obj (hget H2 s) = None /\ ~ In s (p_free p').
Proof.
  intros F Hb Hnd Hfresh E. unfold alloc in E. unfold l_take. destruct (p_free p) as [|s0 f] eqn:Ef.
  - cbn [fl] in F. rewrite F.
    set (h1 := set_blocks h (ser :: hd_blocks h)).
    assert (F1 : fl H (hd_free h1) []) by (cbn; exact F).
    unfold fresh_block, order, mk_order in E. destruct (first_direct k) eqn:Ed.
    + (* item 0 directly, the others threaded *)
      cbn [map] in E. injection E as <- <- <- <-.
      destruct (thread ser (seq 1 (block_items k - 1)) H h1) as [H2 h2] eqn:Et.
      destruct (thread_fl ser (seq 1 (block_items k - 1)) H h1 [] H2 h2 F1 (seq_NoDup _ _)
                          (fun i _ (Hin : In (ser, i) []) => Hin) (fun i _ => Hfresh (ser, i) eq_refl) Et) as (G1 & G2 & G3 & G4).
      destruct G2 as (A1 & A2 & A3 & A4 & A5 & A6).
      exists H2, h2. split; [reflexivity|]. cbn [p_free p_blocks]. rewrite app_nil_r, <- map_rev in G1.
      split; [exact G1|]. split; [rewrite A4, <- Hb; reflexivity|].
      repeat (split; [assumption|]). split.
      { intros x Hx. apply G3. intro Hin. apply in_map_iff in Hin. destruct Hin as (j & <- & _). apply Hx. cbn. lia. }
      split; [exact G4|]. split.
      { destruct (G4 (ser, O)) as (B1 & _). rewrite B1. apply Hfresh. reflexivity. }
      intro Hin. apply map_pair_in in Hin. apply in_rev in Hin. apply in_seq in Hin. lia.
    + (* the whole block threaded, then the head taken *)
      destruct (thread ser (seq 0 (block_items k)) H h1) as [H2 h2] eqn:Et.
      destruct (thread_fl ser (seq 0 (block_items k)) H h1 [] H2 h2 F1 (seq_NoDup _ _)
                          (fun i _ (Hin : In (ser, i) []) => Hin) (fun i _ => Hfresh (ser, i) eq_refl) Et) as (G1 & G2 & G3 & G4).
      destruct G2 as (A1 & A2 & A3 & A4 & A5 & A6).
      rewrite app_nil_r, <- map_rev in G1.
      assert (G3' : forall x, ~ (ser <= fst x < S ser)%nat -> hget H2 x = hget H x).
      { intros x Hx. apply G3. intro Hin. apply in_map_iff in Hin. destruct Hin as (j & <- & _). apply Hx. cbn. lia. }
      pose proof (fresh_block_NoDup k ser) as Hfn. unfold fresh_block, order, mk_order in Hfn. rewrite Ed in Hfn.
      destruct (map (fun i : nat => (ser, i)) (rev (seq 0 (block_items k)))) as [|s1 f1] eqn:Em.
      * injection E as <- <- <- <-. cbn [fl] in G1. rewrite G1.
        exists H2, h2. split; [reflexivity|]. cbn [p_free p_blocks]. split; [rewrite G1; reflexivity|].
        split; [rewrite A4, <- Hb; reflexivity|]. repeat (split; [assumption|]).
        split; [|intros []]. destruct (G4 (ser, O)) as (B1 & _). rewrite B1. apply Hfresh. reflexivity.
      * injection E as <- <- <- <-. cbn [fl] in G1. destruct G1 as (G1a & G1b & G1c). rewrite G1a.
        exists H2, (set_free h2 (c_prev (hget H2 s1))). split; [reflexivity|]. cbn [p_free p_blocks set_free hd_free hd_blocks hd_begin hd_last hd_size hd_cap hd_data].
        split; [exact G1c|]. split; [rewrite A4, <- Hb; reflexivity|]. repeat (split; [assumption|]).
        apply NoDup_cons_iff in Hfn. tauto.
  - cbn [fl] in F. destruct F as (F1 & F2 & F3). rewrite F1. injection E as <- <- <- <-.
    exists H, (set_free h (c_prev (hget H s0))). split; [reflexivity|].
    cbn [p_free p_blocks set_free hd_free hd_blocks hd_begin hd_last hd_size hd_cap hd_data].
    split; [exact F3|]. split; [exact Hb|].
    repeat (split; [solve [reflexivity | exact F2 | unfold same_fields; intros; auto 10]|]). apply NoDup_cons_iff in Hnd. tauto.
Qed.

(* ---- the contract of a container operation ------------------------------------------------------------ *)
(* cells outside the container's footprint and outside the allocations made by the operation
   (serials ser .. ser'-1) are not written;
   a cell holds an object afterwards only if it is a live item of the container now, or held one
   before and was not an item of this container *)
Definition Contract (H : heap) (c : cont) (ser ser' : nat) (H' : heap) (c' : cont) : Prop :=
  (forall x, ~ In x (cfoot c) -> ~ (ser <= fst x < ser')%nat -> hget H' x = hget H x) /\
  (forall x, c_obj (hget H' x) <> None -> In x (slots (elems c')) \/ (c_obj (hget H x) <> None /\ ~ In x (slots (elems c)))).

Lemma NoDup_cslots c o ser nid : PInv c o ser nid -> NoDup (cslots c).
Proof. intros [_ _ P3 _]. apply (NoDup_app_parts sdec) in P3. tauto. Qed.

Lemma alloc_slots k c o ser nid s p' ser' ev :
  PInv c o ser nid -> alloc k (c_pool c) ser = (s, p', ser', ev) ->
  ~ In s (slots (elems c)) /\ (forall x, In x (p_free p') -> ~ In x (slots (elems c))) /\
  (forall x, In x (s :: p_free p') -> In x (cslots c) \/ fst x = ser) /\ (ser <= ser')%nat /\ NoDup (p_free (c_pool c)).
Proof.
  intros [P1 P2 P3 P4] Ea.
  assert (Hnd : NoDup (cslots c)) by (apply (NoDup_app_parts sdec) in P3; tauto).
  unfold cslots in Hnd. destruct (NoDup_app_parts sdec _ _ Hnd) as (Hf & Hl & Hdis).
  assert (Hlt : forall x, In x (slots (elems c)) -> (fst x < ser)%nat).
  { intros x Hx. rewrite Forall_forall in P4. apply P4. apply in_or_app. left. unfold cslots. apply in_or_app. auto. }
  apply alloc_effect in Ea. destruct Ea as [(Ef & _ & -> & _)|(Ef & Hn & Hfst & _ & -> & _)].
  - split; [apply Hdis; rewrite Ef; left; reflexivity|]. split; [intros x Hx; apply Hdis; rewrite Ef; right; exact Hx|].
    split; [|split; [lia|exact Hf]]. intros x Hx. left. unfold cslots. apply in_or_app. left. rewrite Ef. exact Hx.
  - split; [intro Hin; apply Hlt in Hin; rewrite (Hfst s) in Hin by (left; reflexivity); lia|].
    split; [intros x Hx Hin; apply Hlt in Hin; rewrite (Hfst x) in Hin by (right; exact Hx); lia|].
    split; [|split; [lia|exact Hf]]. intros x Hx. right. apply Hfst. exact Hx.
Qed.

Definition pos_ok (side : bool) (H : heap) (h : hdr) (l : list node) (pos : nat) (posp : ptr) : Prop :=
  exists mp, dll H (hd_begin h) PNull (firstn pos l) mp posp /\ dll H posp mp (skipn pos l) (hd_last h) (PEnd side).

Lemma pos_ok_iter side H h l pos :
  dll H (hd_begin h) PNull l (hd_last h) (PEnd side) -> pos_ok side H h l pos (iter_at H pos (hd_begin h)).
Proof. intros D. unfold pos_ok. apply iter_at_dll. exact D. Qed.

Lemma pos_ok_end side H h l pos :
  dll H (hd_begin h) PNull l (hd_last h) (PEnd side) -> (length l <= pos)%nat -> pos_ok side H h l pos (PEnd side).
Proof.
  intros D Hle. unfold pos_ok. exists (hd_last h). rewrite firstn_all2, skipn_all2 by exact Hle. split; [exact D|]. cbn [dll]. auto.
Qed.

Lemma fresh_no_obj H ser : (forall x, (ser <= fst x)%nat -> hget H x = cell0) -> forall x, fst x = ser -> c_obj (hget H x) = None.
Proof. intros Ho x Hx. rewrite Ho by lia. reflexivity. Qed.

Lemma in_firstn {A} (x : A) p l : In x (firstn p l) -> In x l.
Proof. intros H. rewrite <- (firstn_skipn p l). apply in_or_app. auto. Qed.
Lemma in_skipn {A} (x : A) p l : In x (skipn p l) -> In x l.
Proof. intros H. rewrite <- (firstn_skipn p l). apply in_or_app. auto. Qed.

Lemma insert_seq_refine k side H h c o ser nid pos posp key val l :
  c_body c = BSeq l -> is_hashk k = false ->
  CRep side H h c -> PInv c o ser nid ->
  (forall x, (ser <= fst x)%nat -> hget H x = cell0) ->
  pos_ok side H h l (if is_pool k then length l else pos) posp ->
  forall c' ser' nid' ev, c_insert k pos key val c ser nid = (c', ser', nid', ev) ->
  exists H' h', l_insert k posp key val H h ser nid = (H', h', ser', nid', ev) /\ CRep side H' h' c' /\ Contract H c ser ser' H' c'.
Proof.
  intros Eb Hk [R1 R2 R3 R4 R5] P Hfresh Hpos c' ser' nid' ev E.
  assert (El : elems c = l) by (unfold elems; rewrite Eb; reflexivity). rewrite El in *.
  unfold hrep in R5. rewrite Eb in R5.
  unfold c_insert in E. rewrite Eb in E.
  destruct (alloc k (c_pool c) ser) as [[[s p'] ser2] ev2] eqn:Ea. injection E as <- <- <- <-.
  destruct (alloc_slots _ _ _ _ _ _ _ _ _ P Ea) as (Hsl & Hfl & Hwhere & Hser & Hfnd). rewrite El in *.
  destruct (take_refine k H h (c_pool c) ser s p' ser2 ev2 R2 R3 Hfnd (fresh_no_obj _ _ Hfresh) Ea)
    as (H2 & h2 & Et & T1 & T2 & T3 & T4 & T5 & T6 & T7 & T8 & T9 & T10 & T11).
  unfold l_insert. rewrite Hk, Et.
  set (pos' := if is_pool k then length l else pos) in *.
  set (nd := mkNode nid s 0%Z val).
  set (H3 := set_obj H2 s (Some (mkObj nid 0 val))).
  destruct Hpos as (mp & D1 & D2).
  assert (Hlt : forall x, In x (cslots c) -> (fst x < ser)%nat).
  { intros x Hx. destruct P as [_ _ _ P4]. rewrite Forall_forall in P4. apply P4. apply in_or_app. left. exact Hx. }
  assert (Hltl : forall x, In x (slots l) -> (fst x < ser)%nat).
  { intros x Hx. apply Hlt. unfold cslots. apply in_or_app. right. rewrite El. exact Hx. }
  assert (Hag : forall n, In n l -> agree_dll H H3 (n_slot n)).
  { intros n Hn. pose proof (in_slots _ _ Hn) as Hs. unfold agree_dll, H3. destruct (T9 (n_slot n)) as (A1 & A2 & _).
    assert (n_slot n <> s) by (intro E0; apply Hsl; rewrite <- E0; exact Hs).
    hrw. rewrite A1, A2. rewrite (T8 (n_slot n)); auto. apply Hltl in Hs. lia. }
  assert (D1' : dll H3 (hd_begin h2) PNull (firstn pos' l) mp posp).
  { rewrite T3. eapply dll_ext; [|exact D1]. intros n Hn. apply Hag. eapply in_firstn; eauto. }
  assert (D2' : dll H3 posp mp (skipn pos' l) (hd_last h2) (PEnd side)).
  { rewrite T4. eapply dll_ext; [|exact D2]. intros n Hn. apply Hag. eapply in_skipn; eauto. }
  destruct (link_before H3 h2 s posp) as [H5 h5] eqn:El5.
  assert (Hnd : NoDup (n_slot nd :: slots (firstn pos' l ++ skipn pos' l))).
  { rewrite firstn_skipn. cbn [nd n_slot]. constructor; auto. pose proof (NoDup_cslots _ _ _ _ P) as P3.
    unfold cslots in P3. apply (NoDup_app_parts sdec) in P3. rewrite El in P3. tauto. }
  assert (Ho : c_obj (hget H3 (n_slot nd)) = Some (obj_of nd)) by (unfold H3; cbn [nd n_slot]; hrw; reflexivity).
  destruct (link_before_dll H3 h2 side _ _ nd posp mp H5 h5 Hnd D1' D2' Ho El5) as (L1 & L2 & (L3 & L4 & L5 & L6) & (L7 & L8)).
  rewrite firstn_skipn in L7. cbn [nd n_slot] in L7.
  exists H5, h5. split; [reflexivity|].
  assert (Eel : elems (mkCont (BSeq (insert_at pos' nd l)) p') = firstn pos' l ++ nd :: skipn pos' l).
  { unfold elems. cbn [c_body elems_of]. apply insert_at_firstn. }
  split.
  - constructor; rewrite ?Eel; cbn [c_pool c_body hrep]; auto.
    + rewrite L3. eapply fl_ext; [|exact T1]. intros x Hx.
      assert (x <> s) by (intro E0; apply T11; rewrite <- E0; exact Hx).
      rewrite L7; [unfold H3; hrw; auto|]. intros [E0|Hin]; [congruence|]. apply (Hfl x Hx). exact Hin.
    + rewrite L4. exact T2.
    + rewrite L2, T5, R4. rewrite app_length. cbn [length]. rewrite <- (firstn_skipn pos' l) at 1. rewrite app_length. lia.
    + rewrite L6, T7. exact R5.
  - split.
    + intros x Hx Hxs. assert (Hxl : ~ In x (slots l)).
      { intro Hin. apply Hx. unfold cfoot, cslots. apply in_or_app. left. apply in_or_app. right. rewrite El. exact Hin. }
      assert (Hxs' : x <> s).
      { intro E0. destruct (Hwhere s (or_introl eq_refl)) as [Hc|Hc]; [apply Hx; unfold cfoot; apply in_or_app; left; rewrite E0; exact Hc|].
        apply alloc_effect in Ea. destruct Ea as [(Ef & _)|(_ & _ & _ & _ & Es2 & _)].
        - apply Hx. unfold cfoot, cslots. apply in_or_app. left. apply in_or_app. left. rewrite Ef, E0. left. reflexivity.
        - rewrite E0 in Hxs. lia. }
      rewrite L7 by (intros [E0|Hin]; [congruence|contradiction]). unfold H3. rewrite hget_set_obj_other by congruence.
      apply T8. exact Hxs.
    + intros x Hx. rewrite Eel, El. destruct (L8 x) as (B1 & _). rewrite B1 in Hx. unfold H3 in Hx.
      destruct (sdec x s) as [->|Hne].
      * left. unfold slots. rewrite map_app. apply in_or_app. right. cbn. auto.
      * rewrite obj_set_obj_other in Hx by congruence. destruct (T9 x) as (A1 & _). rewrite A1 in Hx.
        destruct (in_dec sdec x (slots l)) as [Hin|Hin]; [left|right; auto].
        rewrite <- (firstn_skipn pos' l) in Hin. unfold slots in *. rewrite map_app in *. cbn [map]. apply in_app_or in Hin. apply in_or_app. cbn. tauto.
Qed.

(* ---- remove ------------------------------------------------------------------------------------------------ *)
Definition same_list_fields (H H1 : heap) : Prop :=
  forall x, c_obj (hget H1 x) = c_obj (hget H x) /\ c_prev (hget H1 x) = c_prev (hget H x) /\ c_next (hget H1 x) = c_next (hget H x).
Definition same_chain_fields (H H1 : heap) : Prop :=
  forall x, c_cell (hget H1 x) = c_cell (hget H x) /\ c_nextcell (hget H1 x) = c_nextcell (hget H x).

(* the list part of remove(iterator): H1 is the heap after the hash chain was updated (H itself for List / PoolList) *)
Lemma remove_core side H H1 h c l1 nd l2 :
  same_list_fields H H1 ->
  dll H (hd_begin h) PNull (l1 ++ nd :: l2) (hd_last h) (PEnd side) -> fl H (hd_free h) (p_free (c_pool c)) ->
  elems c = l1 ++ nd :: l2 -> NoDup (cslots c) -> hd_size h = length (elems c) ->
  exists H4 h4,
    (let '(H2, h2) := unlink H1 h (n_slot nd) in
     let ev := match c_obj (hget H2 (n_slot nd)) with Some o => [EDestroy (o_id o) (n_slot nd)] | None => [] end in
     let H3 := set_obj H2 (n_slot nd) None in
     let '(H4, h4) := push_free H3 h2 (n_slot nd) in (H4, h4, ev)) = (H4, h4, [EDestroy (n_id nd) (n_slot nd)]) /\
    dll H4 (hd_begin h4) PNull (l1 ++ l2) (hd_last h4) (PEnd side) /\
    fl H4 (hd_free h4) (n_slot nd :: p_free (c_pool c)) /\
    hd_size h4 = length (l1 ++ l2) /\ hd_blocks h4 = hd_blocks h /\ hd_cap h4 = hd_cap h /\ hd_data h4 = hd_data h /\
    (forall x, ~ In x (cslots c) -> hget H4 x = hget H1 x) /\ same_chain_fields H1 H4 /\
    (forall x, c_obj (hget H4 x) = if sdec x (n_slot nd) then None else c_obj (hget H x)).
Proof.
  intros Hsame D F El Hnd Hsz. set (s := n_slot nd).
  unfold cslots in Hnd. rewrite El in Hnd. destruct (NoDup_app_parts sdec _ _ Hnd) as (Hnf & Hnl & Hdis).
  assert (D1 : dll H1 (hd_begin h) PNull (l1 ++ nd :: l2) (hd_last h) (PEnd side)).
  { eapply dll_ext; [|exact D]. intros n _. destruct (Hsame (n_slot n)) as (A1 & A2 & A3). unfold agree_dll. auto. }
  assert (F1 : fl H1 (hd_free h) (p_free (c_pool c))).
  { eapply fl_ext; [|exact F]. intros x _. destruct (Hsame x) as (A1 & A2 & A3). auto. }
  destruct (unlink H1 h s) as [H2 h2] eqn:Eu.
  destruct (unlink_dll H1 h side l1 nd l2 H2 h2 Hnl D1 Eu) as (U1 & U2 & (U3 & U4 & U5 & U6) & (U7 & U8)).
  pose proof (NoDup_slots_mid _ _ _ Hnl) as Hmid. apply NoDup_cons_iff in Hmid. destruct Hmid as (Hs & Hrest).
  assert (Hs2 : hget H2 s = hget H1 s) by (apply U7; exact Hs).
  assert (Hos : c_obj (hget H1 s) = Some (obj_of nd)).
  { apply dll_app in D1. destruct D1 as (m & mp & _ & D2). cbn [dll] in D2. tauto. }
  assert (Hsf : ~ In s (p_free (c_pool c))).
  { intro Hin. apply (Hdis _ Hin). unfold slots. rewrite map_app. apply in_or_app. right. left. reflexivity. }
  set (H3 := set_obj H2 s None).
  assert (F3 : fl H3 (hd_free h2) (p_free (c_pool c))).
  { rewrite U3. eapply fl_ext; [|exact F1]. intros x Hx. assert (x <> s) by (intro E0; apply Hsf; rewrite <- E0; exact Hx).
    unfold H3. hrw. rewrite U7; auto. intro Hin. apply (Hdis _ Hx). unfold slots in *. rewrite map_app in *. apply in_app_or in Hin. apply in_or_app. cbn. tauto. }
  destruct (push_free H3 h2 s) as [H4 h4] eqn:Ep.
  destruct (push_free_fl H3 h2 s _ H4 h4 F3 Hsf) as (Q1 & Q2 & Q3); [unfold H3; hrw; reflexivity|exact Ep|].
  exists H4, h4. split.
  { rewrite Hs2, Hos. cbv zeta. fold H3. rewrite Ep. reflexivity. }
  subst H4 h4. cbn [set_free hd_begin hd_last hd_size hd_blocks hd_cap hd_data hd_free] in *.
  split.
  { eapply dll_ext; [|exact U1]. intros n Hn. assert (n_slot n <> s) by (intro E0; apply Hs; fold s; rewrite <- E0; apply in_slots; exact Hn).
    unfold agree_dll, H3. hrw. try (rewrite prev_set_prev_other by congruence). hrw. auto. }
  split; [exact Q1|].
  split. { rewrite U2, Hsz, El, !app_length. cbn [length]. lia. }
  split; [exact U4|]. split; [exact U5|]. split; [exact U6|].
  split.
  { intros x Hx. assert (x <> s).
    { intro E0. apply Hx. unfold cslots. rewrite El. apply in_or_app. right. unfold slots. rewrite map_app. apply in_or_app. right. left. symmetry. exact E0. }
    rewrite hget_set_prev_other by congruence. unfold H3. rewrite hget_set_obj_other by congruence. apply U7.
    intro Hin. apply Hx. unfold cslots. rewrite El. apply in_or_app. right. unfold slots in *. rewrite map_app in *. apply in_app_or in Hin. apply in_or_app. cbn. tauto. }
  split.
  { intros x. destruct (U8 x) as (_ & B2 & B3). unfold H3. hrw. auto. }
  intros x. unfold H3. destruct (sdec x s) as [->|Hne]; hrw; auto.
  destruct (U8 x) as (B1 & _). rewrite B1. apply Hsame.
Qed.

Lemma remove_seq_refine k side H h c ser pos nd l :
  c_body c = BSeq l -> is_hashk k = false -> CRep side H h c -> NoDup (cslots c) ->
  nth_error (elems c) pos = Some nd ->
  forall c' ev, c_remove_at pos c = (c', ev) ->
  exists H' h', l_remove_item k (n_slot nd) H h = (H', h', ev) /\ CRep side H' h' c' /\ Contract H c ser ser H' c'.
Proof.
  intros Eb Hk [R1 R2 R3 R4 R5] Hnd Hn c' ev E. unfold hrep in R5. rewrite Eb in R5.
  unfold c_remove_at in E. rewrite Hn, Eb in E. injection E as <- <-.
  destruct (remove_at_split pos nd (elems c) Hn) as (l1 & l2 & E1 & E2 & _).
  assert (El : elems c = l) by (unfold elems; rewrite Eb; reflexivity).
  rewrite E1 in R1.
  destruct (remove_core side H H h c l1 nd l2 (fun x => conj eq_refl (conj eq_refl eq_refl)) R1 R2 E1 Hnd R4)
    as (H4 & h4 & Ec & C1 & C2 & C3 & C4 & C5 & C6 & C7 & C8 & C9).
  exists H4, h4. split.
  { unfold l_remove_item. rewrite Hk. exact Ec. }
  assert (Eel : elems (mkCont (BSeq (remove_at pos l)) (release (n_slot nd) (c_pool c))) = l1 ++ l2).
  { unfold elems. cbn [c_body elems_of]. rewrite <- El. exact E2. }
  split.
  - constructor; rewrite ?Eel; cbn [c_pool c_body hrep release p_free p_blocks]; auto; [rewrite C4; exact R3|rewrite C6; exact R5].
  - split.
    + intros x Hx _. apply C7. intro Hin. apply Hx. unfold cfoot. apply in_or_app. auto.
    + intros x Hx. rewrite Eel. rewrite C9 in Hx. destruct (sdec x (n_slot nd)) as [->|Hne]; [congruence|].
      destruct (in_dec sdec x (slots (elems c))) as [Hin|Hin]; [left|right; auto].
      rewrite E1 in Hin. unfold slots in *. rewrite map_app in *. cbn [map] in Hin. apply in_app_or in Hin. apply in_or_app.
      destruct Hin as [Hin|[Hin|Hin]]; auto. congruence.
Qed.

(* ---- clear ----------------------------------------------------------------------------------------------- *)
Definition clear_f (k : kind) :=
  fun (a : heap * hdr * list event) (s : slot) =>
    let '(H0, h0, ev0) := a in
    let e := destroy_at H0 s in
    let H1 := set_obj H0 s None in
    let H2 := if is_hashk k then set_nextcell H1 (c_cell (hget H1 s)) PNull else H1 in
    let '(H3, h3) := push_free H2 h0 s in
    (H3, h3, ev0 ++ e).

Lemma clear_fold k : forall rest H0 h0 ev0 f,
  NoDup (slots rest) -> (forall n, In n rest -> ~ In (n_slot n) f) -> fl H0 (hd_free h0) f ->
  (forall n, In n rest -> c_obj (hget H0 (n_slot n)) = Some (obj_of n)) ->
  exists H' h', fold_left (clear_f k) (slots rest) (H0, h0, ev0) = (H', h', ev0 ++ destroy_events rest) /\
    fl H' (hd_free h') (rev (slots rest) ++ f) /\ hdr_list_eq h0 h' /\
    (forall x, c_obj (hget H' x) = if in_dec sdec x (slots rest) then None else c_obj (hget H0 x)) /\
    (forall x, c_next (hget H' x) = c_next (hget H0 x) /\ c_cell (hget H' x) = c_cell (hget H0 x)) /\
    (forall x, c_nextcell (hget H' x) = c_nextcell (hget H0 x) \/ c_nextcell (hget H' x) = PNull) /\
    (is_hashk k = true -> forall n, In n rest -> c_nextcell (hget H' (c_cell (hget H0 (n_slot n)))) = PNull) /\
    (is_hashk k = false -> forall x, c_nextcell (hget H' x) = c_nextcell (hget H0 x)) /\
    (forall x, ~ In x (slots rest) -> (is_hashk k = true -> forall n, In n rest -> x <> c_cell (hget H0 (n_slot n))) -> hget H' x = hget H0 x).
Proof.
  induction rest as [|n r IH]; intros H0 h0 ev0 f Hnd Hnf F Ho.
  - exists H0, h0. cbn [slots map fold_left destroy_events rev app]. rewrite app_nil_r. unfold hdr_list_eq.
    split; [reflexivity|]. split; [exact F|]. split; [auto 10|]. split; [auto|]. split; [auto|]. split; [auto|].
    split; [intros _ n []|]. split; [auto|]. auto.
  - cbn [slots map] in Hnd. apply NoDup_cons_iff in Hnd. destruct Hnd as (Hs & Hr).
    set (s := n_slot n) in *.
    change (slots (n :: r)) with (s :: slots r). cbn [fold_left].
    set (H1 := set_obj H0 s None).
    set (H2 := if is_hashk k then set_nextcell H1 (c_cell (hget H1 s)) PNull else H1).
    assert (Hobj2 : forall x, c_obj (hget H2 x) = if sdec x s then None else c_obj (hget H0 x)).
    { intros x. unfold H2, H1. destruct (is_hashk k); destruct (sdec x s) as [->|Hne]; hrw; auto. }
    assert (Hprev2 : forall x, c_prev (hget H2 x) = c_prev (hget H0 x)).
    { intros x. unfold H2, H1. destruct (is_hashk k); hrw; auto. }
    assert (Hnc2 : forall x, c_next (hget H2 x) = c_next (hget H0 x) /\ c_cell (hget H2 x) = c_cell (hget H0 x)).
    { intros x. unfold H2, H1. destruct (is_hashk k); hrw; auto. }
    assert (F2 : fl H2 (hd_free h0) f).
    { eapply fl_ext; [|exact F]. intros x Hx. rewrite Hobj2, Hprev2. split; auto. destruct (sdec x s) as [->|]; auto.
      exfalso. apply (Hnf n); [left; reflexivity|exact Hx]. }
    destruct (push_free H2 h0 s) as [H3 h3] eqn:Ep.
    destruct (push_free_fl H2 h0 s f H3 h3 F2) as (Q1 & Q2 & Q3); [apply (Hnf n); left; reflexivity| |exact Ep|].
    { rewrite Hobj2. destruct (sdec s s); congruence. }
    assert (Hobj3 : forall x, c_obj (hget H3 x) = if sdec x s then None else c_obj (hget H0 x)).
    { intros x. rewrite Q2. hrw. apply Hobj2. }
    assert (Estep : clear_f k (H0, h0, ev0) s = (H3, h3, ev0 ++ destroy_at H0 s)).
    { unfold clear_f. cbv zeta. fold H1. fold H2. rewrite Ep. reflexivity. }
    rewrite Estep.
    destruct (IH H3 h3 (ev0 ++ destroy_at H0 s) (s :: f) Hr) as (H' & h' & Ef & G1 & G2 & G3 & G4 & G5 & G6 & G7 & G8).
    + intros m Hm [E0|Hin]; [apply Hs; fold s; rewrite E0; apply in_slots; exact Hm|]. apply (Hnf m); auto. right. exact Hm.
    + exact Q1.
    + intros m Hm. rewrite Hobj3. destruct (sdec (n_slot m) s) as [E0|_]; [exfalso; apply Hs; fold s; rewrite <- E0; apply in_slots; exact Hm|].
      apply Ho. right. exact Hm.
    + exists H', h'. rewrite Ef. split.
      { f_equal. rewrite <- app_assoc. f_equal. unfold destroy_at. pose proof (Ho n (or_introl eq_refl)) as Hon. fold s in Hon. rewrite Hon. reflexivity. }
      split. { cbn [rev]. rewrite <- app_assoc. exact G1. }
      split. { rewrite Q3 in G2. unfold hdr_list_eq in *. cbn [set_free hd_begin hd_last hd_size hd_blocks hd_cap hd_data] in G2. exact G2. }
      split.
      { intros x. rewrite G3, Hobj3. destruct (in_dec sdec x (slots r)) as [Hin|Hin]; destruct (in_dec sdec x (s :: slots r)) as [Hin2|Hin2]; auto.
        - exfalso. apply Hin2. right. exact Hin.
        - destruct (sdec x s) as [->|Hne]; auto. destruct Hin2 as [E0|Hin2]; [congruence|contradiction].
        - destruct (sdec x s) as [->|Hne]; auto. exfalso. apply Hin2. left. reflexivity. }
      split. { intros x. destruct (G4 x) as (A1 & A2). rewrite A1, A2, Q2. hrw. apply Hnc2. }
      assert (Hnx3 : forall x, c_nextcell (hget H3 x) = c_nextcell (hget H0 x) \/ c_nextcell (hget H3 x) = PNull).
      { intros x. rewrite Q2. hrw. unfold H2, H1. destruct (is_hashk k); hrw; auto.
        destruct (sdec (c_cell (hget H0 s)) x) as [<-|Hne]; hrw; auto. }
      split. { intros x. destruct (G5 x) as [A|A]; [rewrite A; apply Hnx3|auto]. }
      split.
      { intros Hk m [<-|Hm].
        - fold s. destruct (G5 (c_cell (hget H0 s))) as [A|A]; [|exact A]. rewrite A, Q2. hrw. unfold H2, H1. rewrite Hk. hrw. reflexivity.
        - destruct (G4 (n_slot m)) as (_ & A2). specialize (G6 Hk m Hm). rewrite Q2 in G6. autorewrite with hf in G6.
          destruct (Hnc2 (n_slot m)) as (_ & B2). rewrite B2 in G6. exact G6. }
      split.
      { intros Hk x. rewrite (G7 Hk x), Q2. hrw. unfold H2, H1. rewrite Hk. hrw. reflexivity. }
      intros x Hx Hc. rewrite G8.
      * rewrite Q2. rewrite hget_set_prev_other by (intro E0; apply Hx; left; exact E0). unfold H2, H1.
        destruct (is_hashk k) eqn:Hk.
        -- rewrite hget_set_nextcell_other; [apply hget_set_obj_other; intro E0; apply Hx; left; exact E0|].
           hrw. intro E0. apply (Hc eq_refl n (or_introl eq_refl)). symmetry. exact E0.
        -- apply hget_set_obj_other. intro E0. apply Hx. left. exact E0.
      * intro Hin. apply Hx. right. exact Hin.
      * intros Hk m Hm. rewrite Q2. autorewrite with hf. destruct (Hnc2 (n_slot m)) as (_ & B2). rewrite B2. apply Hc; auto. right. exact Hm.
Qed.

Lemma items_rep side H h c : CRep side H h c -> items H h = slots (elems c).
Proof. intros [R1 _ _ R4 _]. unfold items. eapply walk_dll; eauto. lia. Qed.

Lemma dll_objs H l : forall f pv la nx, dll H f pv l la nx -> forall n, In n l -> c_obj (hget H (n_slot n)) = Some (obj_of n).
Proof.
  induction l as [|m r IH]; intros f pv la nx D n Hn; [destruct Hn|]. cbn [dll] in D. destruct D as (_ & _ & D3 & D4).
  destruct Hn as [<-|Hn]; auto. eapply IH; eauto.
Qed.

Lemma NoDup_live c : NoDup (cslots c) -> NoDup (slots (elems c)) /\ (forall n, In n (elems c) -> ~ In (n_slot n) (p_free (c_pool c))).
Proof.
  intros Hnd. unfold cslots in Hnd. destruct (NoDup_app_parts sdec _ _ Hnd) as (_ & Hl & Hdis). split; auto.
  intros n Hn Hin. apply (Hdis _ Hin). apply in_slots. exact Hn.
Qed.

Lemma clear_seq_refine k side H h c ser l :
  c_body c = BSeq l -> is_hashk k = false -> CRep side H h c -> NoDup (cslots c) ->
  forall c' ev, c_clear c = (c', ev) ->
  exists H' h', l_clear k side H h = (H', h', ev) /\ CRep side H' h' c' /\ Contract H c ser ser H' c'.
Proof.
  intros Eb Hk R Hnd c' ev E. pose proof (items_rep _ _ _ _ R) as Hit. destruct R as [R1 R2 R3 R4 R5].
  unfold hrep in R5. rewrite Eb in R5.
  unfold c_clear in E. injection E as <- <-.
  destruct (NoDup_live _ Hnd) as (Hnl & Hnf).
  destruct (clear_fold k (elems c) H h [] (p_free (c_pool c)) Hnl Hnf R2 (dll_objs _ _ _ _ _ _ R1))
    as (H' & h' & Ef & G1 & (A1 & A2 & A3 & A4 & A5 & A6) & G3 & G4 & G5 & G6 & G7 & G8).
  unfold l_clear. rewrite Hit. fold (clear_f k). rewrite Ef. cbn [app].
  eexists _, _. split; [reflexivity|].
  assert (Eel : elems (mkCont (clear_body (c_body c)) (mkPool (rev (map n_slot (elems c)) ++ p_free (c_pool c)) (p_blocks (c_pool c)))) = []).
  { unfold elems. cbn [c_body]. rewrite Eb. reflexivity. }
  split.
  - constructor; rewrite ?Eel; cbn [c_pool c_body p_free p_blocks set_size set_last set_begin hd_begin hd_last hd_size hd_free hd_blocks hd_cap hd_data dll length]; auto.
    + rewrite A4. exact R3.
    + rewrite Eb. cbn [clear_body hrep]. cbn [set_size set_last set_begin hd_data]. rewrite A6. exact R5.
  - split.
    + intros x Hx _. apply G8; [|intros Hk'; congruence]. intro Hin. apply Hx. unfold cfoot, cslots. apply in_or_app. left. apply in_or_app. auto.
    + intros x Hx. rewrite G3 in Hx. destruct (in_dec sdec x (slots (elems c))) as [Hin|Hin]; [congruence|]. right. auto.
Qed.

(* ---- destructor ------------------------------------------------------------------------------------------ *)
Lemma destroy_fold H its : 
  let H' := fold_left (fun H0 s => set_obj H0 s None) its H in
  (forall x, ~ In x its -> hget H' x = hget H x) /\ (forall x, c_obj (hget H' x) = if in_dec sdec x its then None else c_obj (hget H x)).
Proof.
  cbv zeta. revert H. induction its as [|s r IH]; intros H; cbn [fold_left].
  - split; auto.
  - destruct (IH (set_obj H s None)) as (G1 & G2). split.
    + intros x Hx. rewrite G1 by (intro Hin; apply Hx; right; exact Hin). apply hget_set_obj_other. intro E0. apply Hx. left. exact E0.
    + intros x. rewrite G2. destruct (in_dec sdec x r) as [Hin|Hin]; destruct (in_dec sdec x (s :: r)) as [Hin2|Hin2]; auto.
      * exfalso. apply Hin2. right. exact Hin.
      * destruct Hin2 as [->|Hin2]; [hrw; reflexivity|contradiction].
      * rewrite obj_set_obj_other; auto. intro E0. apply Hin2. left. exact E0.
Qed.

Lemma flat_map_destroy H l : (forall n, In n l -> c_obj (hget H (n_slot n)) = Some (obj_of n)) -> flat_map (destroy_at H) (slots l) = destroy_events l.
Proof.
  induction l as [|n r IH]; intros Ho; [reflexivity|]. cbn [slots map flat_map destroy_events]. unfold destroy_at at 1.
  rewrite (Ho n (or_introl eq_refl)). cbn [app o_id obj_of]. f_equal. apply IH. intros m Hm. apply Ho. right. exact Hm.
Qed.

Lemma destroy_refine k side cap H h c ser :
  heap_kind k = true -> shape k c -> CRep side H h c ->
  forall c' ev, c_destroy k cap c = (c', ev) ->
  exists H' h', l_destroy side cap H h = (H', h', ev) /\ CRep side H' h' c' /\ Contract H c ser ser H' c'.
Proof.
  intros Hk Hs R c' ev E. pose proof (items_rep _ _ _ _ R) as Hit. destruct R as [R1 R2 R3 R4 R5].
  unfold c_destroy in E. injection E as <- <-.
  unfold l_destroy. rewrite Hit. destruct (destroy_fold H (slots (elems c))) as (G1 & G2).
  eexists _, _. split.
  { f_equal. rewrite (flat_map_destroy H (elems c) (dll_objs _ _ _ _ _ _ R1)), R3. f_equal.
    unfold hrep in R5. destruct (c_body c) as [l|t|l hd]; [rewrite R5; reflexivity|rewrite R5; reflexivity|]. destruct R5 as (_ & -> & _). reflexivity. }
  split.
  - constructor; rewrite ?elems_init; cbn [hdr_init hd_begin hd_last hd_size hd_free hd_blocks hd_cap hd_data init_cont c_pool pool_empty p_free p_blocks dll fl length c_body]; auto.
    unfold shape in Hs. destruct k; cbn [init_body hrep hd_data hd_cap h_cap h_data]; auto; discriminate Hk.
  - split.
    + intros x Hx _. apply G1. intro Hin. apply Hx. unfold cfoot, cslots. apply in_or_app. left. apply in_or_app. auto.
    + intros x Hx. rewrite G2 in Hx. destruct (in_dec sdec x (slots (elems c))) as [Hin|Hin]; [congruence|]. right. auto.
Qed.
