(* The hash kinds (HashMap, HashSet, PoolMap) meet the obligations of StableHeapStep.v: the list
   part as for the sequence kinds, plus the bucket array and the chains with their back pointers. *)
From Coq Require Import ZArith List Bool Arith Lia.
From Stable Require Import Gen_Stable StableSpec StableModel StableTree StableInv StableProofs StableTheorems StableBlocks
  StableHeap StableHeapBase StableHeapSeg StableHeapRep StableHeapStep.
Import ListNotations.

(* ---- the list part of an insertion, for any heap H4 that differs from the heap after the item was
        taken only by the constructed object and by chain fields ------------------------------------- *)
Lemma insert_core side H h c o ser1 nid k s p' ser2 ev2 H2 h2 H4 pos' posp nd :
  dll H (hd_begin h) PNull (elems c) (hd_last h) (PEnd side) ->
  PInv c o ser1 nid -> alloc k (c_pool c) ser1 = (s, p', ser2, ev2) ->
  fl H2 (hd_free h2) (p_free p') -> hd_begin h2 = hd_begin h -> hd_last h2 = hd_last h -> hd_size h2 = length (elems c) ->
  (forall x, ~ (ser1 <= fst x < ser2)%nat -> hget H2 x = hget H x) -> same_fields H H2 -> ~ In s (p_free p') ->
  n_slot nd = s ->
  (forall x, c_obj (hget H4 x) = (if sdec x s then Some (obj_of nd) else c_obj (hget H2 x)) /\
             c_prev (hget H4 x) = c_prev (hget H2 x) /\ c_next (hget H4 x) = c_next (hget H2 x)) ->
  pos_ok side H h (elems c) pos' posp ->
  forall H5 h5, link_before H4 h2 s posp = (H5, h5) ->
  dll H5 (hd_begin h5) PNull (firstn pos' (elems c) ++ nd :: skipn pos' (elems c)) (hd_last h5) (PEnd side) /\
  fl H5 (hd_free h5) (p_free p') /\ hd_size h5 = S (length (elems c)) /\ hdr_rest_eq h2 h5 /\ list_frame H4 H5 (s :: slots (elems c)).
Proof.
  intros R1 P Ea T1 T3 T4 T5 T8 T9 T11 Es W4 Hpos H5 h5 El5. set (l := elems c) in *.
  destruct (alloc_slots _ _ _ _ _ _ _ _ _ P Ea) as (Hsl & Hfl & Hwhere & Hser & Hfnd). fold l in Hsl, Hfl.
  destruct Hpos as (mp & D1 & D2).
  assert (Hltl : forall x, In x (slots l) -> (fst x < ser1)%nat).
  { intros x Hx. destruct P as [_ _ _ P4]. rewrite Forall_forall in P4. apply P4. apply in_or_app. left. unfold cslots. apply in_or_app. right. exact Hx. }
  assert (Hag : forall n, In n l -> agree_dll H H4 (n_slot n)).
  { intros n Hn. pose proof (in_slots _ _ Hn) as Hs. unfold agree_dll. destruct (T9 (n_slot n)) as (A1 & A2 & _). destruct (W4 (n_slot n)) as (B1 & B2 & B3).
    assert (n_slot n <> s) by (intro E0; apply Hsl; rewrite <- E0; exact Hs).
    rewrite B1, B2, B3. destruct (sdec (n_slot n) s); [contradiction|]. rewrite A1, A2. rewrite (T8 (n_slot n)); auto. apply Hltl in Hs. lia. }
  assert (D1' : dll H4 (hd_begin h2) PNull (firstn pos' l) mp posp).
  { rewrite T3. eapply dll_ext; [|exact D1]. intros n Hn. apply Hag. eapply in_firstn; eauto. }
  assert (D2' : dll H4 posp mp (skipn pos' l) (hd_last h2) (PEnd side)).
  { rewrite T4. eapply dll_ext; [|exact D2]. intros n Hn. apply Hag. eapply in_skipn; eauto. }
  assert (Hnd : NoDup (n_slot nd :: slots (firstn pos' l ++ skipn pos' l))).
  { rewrite firstn_skipn, Es. constructor; auto. pose proof (NoDup_cslots _ _ _ _ P) as P3.
    unfold cslots in P3. apply (NoDup_app_parts sdec) in P3. tauto. }
  assert (Ho : c_obj (hget H4 (n_slot nd)) = Some (obj_of nd)).
  { destruct (W4 (n_slot nd)) as (B1 & _). rewrite B1, Es. destruct (sdec s s); congruence. }
  rewrite <- Es in El5.
  destruct (link_before_dll H4 h2 side _ _ nd posp mp H5 h5 Hnd D1' D2' Ho El5) as (L1 & L2 & (L3 & L4 & L5 & L6) & (L7 & L8)).
  rewrite firstn_skipn, Es in L7.
  split; [exact L1|]. split.
  { rewrite L3. eapply fl_ext; [|exact T1]. intros x Hx.
    assert (x <> s) by (intro E0; apply T11; rewrite <- E0; exact Hx).
    rewrite L7 by (intros [E0|Hin]; [congruence|]; apply (Hfl x Hx); exact Hin).
    destruct (W4 x) as (B1 & B2 & _). rewrite B1, B2. destruct (sdec x s); [contradiction|auto]. }
  split; [rewrite L2, T5; reflexivity|]. split; [unfold hdr_rest_eq; auto|]. split; [exact L7|exact L8].
Qed.

(* ---- small facts about the chain table ------------------------------------------------------------------- *)
Lemma bucket_lt cap key : (1 <= cap)%nat -> (bucket cap key < cap)%nat.
Proof.
  intros Hc. unfold bucket. replace (norm_cap cap) with cap by (destruct cap; [lia|reflexivity]).
  assert (Hb : (0 <= (key mod 18446744073709551616) mod Z.of_nat cap < Z.of_nat cap)%Z) by (apply Z.mod_pos_bound; lia).
  remember ((key mod 18446744073709551616) mod Z.of_nat cap)%Z as x eqn:Ex. clear Ex. lia.
Qed.

Lemma nth_upd_nth_same {A} (f : A -> A) (d : A) : forall (l : list A) i, (i < length l)%nat -> nth i (upd_nth i f l) d = f (nth i l d).
Proof. induction l as [|y r IH]; intros [|i] Hi; cbn [length] in Hi; try lia; cbn [upd_nth nth]; auto. apply IH. lia. Qed.
Lemma nth_upd_nth_other {A} (f : A -> A) (d : A) : forall (l : list A) i j, i <> j -> nth j (upd_nth i f l) d = nth j l d.
Proof. induction l as [|y r IH]; intros [|i] [|j] Hne; cbn [upd_nth nth]; auto; try congruence. Qed.
Lemma length_upd_nth {A} (f : A -> A) : forall (l : list A) i, length (upd_nth i f l) = length l.
Proof. induction l as [|y r IH]; intros [|i]; cbn [upd_nth length]; auto. Qed.
Lemma nth_repeat_nil {A} n b : nth b (repeat (@nil A) n) [] = [].
Proof. revert b. induction n as [|n IH]; intros [|b]; cbn [repeat nth]; auto. Qed.

Lemma find_index_slot l : forall n, NoDup (slots l) -> In n l ->
  exists j, find_index (fun m => slot_eqb (n_slot m) (n_slot n)) l = Some j /\ nth_error l j = Some n.
Proof.
  induction l as [|y r IH]; intros n Hnd Hin; [destruct Hin|]. cbn [slots map] in Hnd. apply NoDup_cons_iff in Hnd. destruct Hnd as (Hy & Hr).
  cbn [find_index]. destruct Hin as [->|Hin].
  - rewrite slot_eqb_rfl. exists O. auto.
  - rewrite slot_eqb_neq; [|intro E0; apply Hy; rewrite E0; apply in_slots; exact Hin].
    destruct (IH n Hr Hin) as (j & E1 & E2). rewrite E1. exists (S j). auto.
Qed.

Lemma chain_walk_spec H l key : NoDup (slots l) -> (forall n, In n l -> c_obj (hget H (n_slot n)) = Some (obj_of n)) ->
  forall ch cr fuel, chain H cr ch -> (forall s, In s ch -> exists n, In n l /\ n_slot n = s) -> (length ch <= fuel)%nat ->
  match chain_find l key ch with
  | Some i => exists nd, nth_error l i = Some nd /\ chain_walk H fuel (c_nextcell (hget H cr)) key = Some (n_slot nd)
  | None => chain_walk H fuel (c_nextcell (hget H cr)) key = None
  end.
Proof.
  intros Hnd Ho. induction ch as [|s r IH]; intros cr fuel C Hin Hf; cbn [chain chain_find] in *.
  - rewrite C. destruct fuel; reflexivity.
  - destruct C as (C1 & C2 & C3). rewrite C1. destruct fuel as [|fuel]; cbn [length] in Hf; [lia|]. cbn [chain_walk].
    destruct (Hin s (or_introl eq_refl)) as (n & Hn & Es). subst s.
    destruct (find_index_slot l n Hnd Hn) as (j & E1 & E2). rewrite E1, E2, (Ho n Hn). cbn [o_key obj_of].
    destruct (n_key n =? key)%Z.
    + exists n. auto.
    + apply IH; [exact C3|intros x Hx; apply Hin; right; exact Hx|lia].
Qed.

Lemma hash_kind_facts k : is_hashk k = true -> heap_kind k = true /\ (is_pool k && negb (is_hashk k) = false).
Proof. destruct k; cbn; intros; try discriminate; auto. Qed.

Lemma hash_body k c : is_hashk k = true -> shape k c -> exists l hd, c_body c = BHash l hd.
Proof.
  intros Hk Hs. unfold shape in Hs. destruct (c_body c) as [l|t|l hd]; [| |eauto];
    destruct k; cbn in Hk; try discriminate; repeat (destruct Hs as [Hs|Hs]; try discriminate).
Qed.

Lemma find_hash side H h c l hd key :
  c_body c = BHash l hd -> CRep side H h c -> ChInv c -> NoDup (slots l) ->
  match h_find l hd key with
  | Some i => exists nd, nth_error l i = Some nd /\ l_find H h key = Some (n_slot nd)
  | None => l_find H h key = None
  end.
Proof.
  intros Eb [R1 _ _ R4 R5] Ch Hnd. unfold hrep, ChInv in *. rewrite Eb in *. destruct R5 as (Ec & Ed & Hc).
  destruct Ch as (C1 & C2 & C3 & C4 & C5). assert (El : elems c = l) by (unfold elems; rewrite Eb; reflexivity). rewrite El in *.
  unfold h_find, l_find. rewrite Ed, Ec. destruct (h_data hd) as [d|]; auto.
  set (b := bucket (h_cap hd) key). assert (Hb : (b < h_cap hd)%nat) by (apply bucket_lt; exact C1).
  apply chain_walk_spec; auto.
  - eapply dll_objs; eauto.
  - intros s Hs. destruct (C5 _ _ Hs) as (n & Hn & Es & _). eauto.
  - rewrite R4. rewrite <- (map_length n_slot l). apply NoDup_incl_length; [apply C3|].
    intros s Hs. destruct (C5 _ _ Hs) as (n & Hn & <- & _). apply in_slots. exact Hn.
Qed.

Lemma find_ok_hash k : is_hashk k = true -> FindOK k.
Proof.
  intros Hk side H h c o ser nid key (Sc & _ & P & _ & _ & Chc & _) R.
  destruct (hash_body _ _ Hk Sc) as (l & hd & Eb). unfold find_pos, l_find_pos. rewrite Eb, Hk.
  assert (El : elems c = l) by (unfold elems; rewrite Eb; reflexivity). rewrite El.
  eapply find_hash; eauto. pose proof (NoDup_cslots _ _ _ _ P) as Hn. destruct (NoDup_live _ Hn) as (Hl & _).
  unfold elems in Hl. rewrite Eb in Hl. exact Hl.
Qed.

(* ---- facts that follow from the chain invariant -------------------------------------------------------- *)
Lemma slots_inj l n n' : NoDup (slots l) -> In n l -> In n' l -> n_slot n = n_slot n' -> n = n'.
Proof.
  induction l as [|y r IH]; intros Hnd Hn Hn' E; [destruct Hn|]. cbn [slots map] in Hnd. apply NoDup_cons_iff in Hnd. destruct Hnd as (Hy & Hr).
  destruct Hn as [<-|Hn], Hn' as [<-|Hn']; auto.
  - exfalso. apply Hy. rewrite E. apply in_slots. exact Hn'.
  - exfalso. apply Hy. rewrite <- E. apply in_slots. exact Hn.
Qed.

Section CHAINS.
Variables (c o : cont) (l : list node) (hd : hashd) (ser nid : nat) (k : kind).
Hypothesis Eb : c_body c = BHash l hd.
Hypothesis Ci : CInv k c o ser nid.

Lemma ch_elems : elems c = l.
Proof. unfold elems. rewrite Eb. reflexivity. Qed.

Lemma ch_nodup : NoDup (slots l).
Proof. destruct Ci as (_ & _ & P & _). pose proof (NoDup_cslots _ _ _ _ P) as Hn. destruct (NoDup_live _ Hn) as (Hl & _). rewrite ch_elems in Hl. exact Hl. Qed.

Lemma ch_inv : (1 <= h_cap hd)%nat /\
  match h_data hd with None => l = [] /\ h_chains hd = [] | Some d => length (h_chains hd) = h_cap hd end /\
  (forall b, NoDup (nth b (h_chains hd) [])) /\
  (forall n, In n l -> In (n_slot n) (nth (bucket (h_cap hd) (n_key n)) (h_chains hd) [])) /\
  (forall b s, In s (nth b (h_chains hd) []) -> exists n, In n l /\ n_slot n = s /\ bucket (h_cap hd) (n_key n) = b).
Proof. destruct Ci as (_ & _ & _ & _ & _ & Ch & _). unfold ChInv in Ch. rewrite Eb in Ch. exact Ch. Qed.

Lemma chains_disjoint b b' x : b <> b' -> In x (nth b (h_chains hd) []) -> ~ In x (nth b' (h_chains hd) []).
Proof.
  intros Hne H1 H2. destruct ch_inv as (_ & _ & _ & _ & C5).
  destruct (C5 _ _ H1) as (n & Hn & Es & Ebk). destruct (C5 _ _ H2) as (n' & Hn' & Es' & Ebk').
  assert (n = n') by (eapply slots_inj; eauto; [apply ch_nodup|congruence]). subst n'. congruence.
Qed.

(* an item is not a bucket of the data array *)
Lemma live_not_bucket d x : h_data hd = Some d -> In x (cslots c) -> fst x <> d.
Proof.
  intros Ed Hx E0. destruct Ci as (_ & _ & _ & [B1 _ _ _] & [D1 _] & _). specialize (B1 _ Hx).
  unfold dser in D1. rewrite Eb, Ed in D1. cbn [app] in D1. apply NoDup_cons_iff in D1. destruct D1 as (D1 & _).
  apply D1. rewrite <- E0. apply in_or_app. right. apply in_or_app. left. exact B1.
Qed.

Lemma chain_live b x : In x (nth b (h_chains hd) []) -> In x (slots l).
Proof. intros Hx. destruct ch_inv as (_ & _ & _ & _ & C5). destruct (C5 _ _ Hx) as (n & Hn & <- & _). apply in_slots. exact Hn. Qed.

Lemma live_cslots x : In x (slots l) -> In x (cslots c).
Proof. intros Hx. unfold cslots. rewrite ch_elems. apply in_or_app. auto. Qed.

Lemma bcell_foot d b : h_data hd = Some d -> (b < h_cap hd)%nat -> In (d, b) (cfoot c).
Proof. intros Ed Hb. unfold cfoot. apply in_or_app. right. apply in_bcells. unfold dser, ccap. rewrite Eb, Ed. cbn. auto. Qed.
End CHAINS.

Lemma remove_slot_split s c1 c2 : NoDup (c1 ++ s :: c2) -> remove_slot s (c1 ++ s :: c2) = c1 ++ c2.
Proof.
  intros Hnd. destruct (NoDup_app_parts sdec _ _ Hnd) as (H1 & H2 & Hd). apply NoDup_cons_iff in H2. destruct H2 as (Hs & H2).
  assert (F : forall l, ~ In s l -> remove_slot s l = l).
  { induction l as [|y r IH]; intros Hn; [reflexivity|]. unfold remove_slot in *. cbn [filter].
    rewrite slot_eqb_neq by (intro E0; apply Hn; left; exact E0). cbn [negb]. rewrite IH; auto. intro Hin. apply Hn. right. exact Hin. }
  unfold remove_slot in *. rewrite filter_app. cbn [filter]. rewrite slot_eqb_rfl. cbn [negb].
  rewrite (F c1), (F c2); auto. intro Hin. apply (Hd _ Hin). left. reflexivity.
Qed.

(* ---- remove ------------------------------------------------------------------------------------------------- *)
Lemma remove_ok_hash k : is_hashk k = true -> RemoveOK k.
Proof.
  intros Hk side H h c o ser nid pos nd c' ev Ci R Hn E.
  pose proof Ci as (Sc & So & P & B & D & Chc & Cho).
  destruct (hash_kind_facts _ Hk) as (Hhk & _). destruct (hash_body _ _ Hk Sc) as (l & hd & Eb).
  pose proof (ch_elems c l hd Eb) as El. rewrite El in Hn.
  destruct (ch_inv c o l hd ser nid k Eb Ci) as (C1 & C2 & C3 & C4 & C5).
  pose proof (ch_nodup c o l hd ser nid k Eb Ci) as Hndl.
  destruct (remove_at_split pos nd l Hn) as (l1 & l2 & E1 & E2 & _).
  assert (Hnd_in : In nd l) by (rewrite E1; apply in_or_app; right; left; reflexivity).
  destruct (h_data hd) as [d|] eqn:Ed; [|destruct C2 as (C2 & _); rewrite C2 in Hnd_in; destruct Hnd_in].
  set (s := n_slot nd) in *. set (b := bucket (h_cap hd) (n_key nd)) in *.
  assert (Hb : (b < h_cap hd)%nat) by (apply bucket_lt; exact C1).
  assert (Hsb : In s (nth b (h_chains hd) [])) by (apply C4; exact Hnd_in).
  destruct (in_split _ _ Hsb) as (c1 & c2 & Ech).
  pose proof (C3 b) as Hndch. rewrite Ech in Hndch.
  (* the model's result *)
  unfold c_remove_at in E. rewrite El, Hn, Eb, Ed in E. fold s b in E. injection E as <- <-.
  set (chains' := upd_nth b (remove_slot s) (h_chains hd)).
  assert (Hchb : nth b chains' [] = c1 ++ c2).
  { unfold chains'. rewrite nth_upd_nth_same by lia. rewrite Ech. apply remove_slot_split. exact Hndch. }
  assert (Hcho : forall b', b' <> b -> nth b' chains' [] = nth b' (h_chains hd) []).
  { intros b' Hne. unfold chains'. apply nth_upd_nth_other. congruence. }
  assert (Hsub : forall b' x, In x (nth b' chains' []) -> In x (nth b' (h_chains hd) []) /\ x <> s).
  { intros b' x Hx. destruct (Nat.eq_dec b' b) as [->|Hne].
    - rewrite Hchb in Hx. rewrite Ech. destruct (NoDup_app_parts sdec _ _ Hndch) as (_ & N2 & Nd). apply NoDup_cons_iff in N2.
      apply in_app_or in Hx. destruct Hx as [Hx|Hx].
      + split; [apply in_or_app; auto|]. intro E0. apply (Nd _ Hx). left. congruence.
      + split; [apply in_or_app; right; right; exact Hx|]. intro E0. destruct N2 as (N2 & _). apply N2. rewrite <- E0. exact Hx.
    - rewrite Hcho in Hx by exact Hne. split; auto. intro E0. subst x. eapply (chains_disjoint c o l hd ser nid k Eb Ci b' b); eauto. }
  set (c' := mkCont (BHash (remove_at pos l) (mkHash (h_cap hd) (Some d) chains')) (release s (c_pool c))).
  assert (Eel' : elems c' = l1 ++ l2) by (unfold elems; cbn [c' c_body elems_of]; exact E2).
  assert (Hin12 : forall n, In n (l1 ++ l2) -> In n l /\ n_slot n <> s).
  { intros n Hin. assert (Hl : In n l) by (rewrite E1; apply in_app_or in Hin; apply in_or_app; cbn; tauto). split; auto.
    intro E0. assert (n = nd) by (eapply slots_inj; eauto). subst n.
    rewrite E1 in Hndl. pose proof (NoDup_slots_mid _ _ _ Hndl) as Hm. apply NoDup_cons_iff in Hm. destruct Hm as (Hm & _). apply Hm. apply in_slots. exact Hin. }
  (* node-level invariants of the result *)
  assert (Ech' : ChInv c').
  { unfold ChInv. cbn [c' c_body h_cap h_data h_chains]. split; [exact C1|]. split; [unfold chains'; rewrite length_upd_nth; exact C2|].
    split.
    { intros b'. destruct (Nat.eq_dec b' b) as [->|Hne]; [rewrite Hchb|rewrite Hcho by exact Hne; apply C3].
      destruct (NoDup_app_parts sdec _ _ Hndch) as (N1 & N2 & Nd). apply NoDup_cons_iff in N2. destruct N2 as (_ & N2).
      rewrite (NoDup_count_occ sdec) in *. intro x. specialize (Hndch x). rewrite !count_occ_app in *. cbn [count_occ] in Hndch. destruct (sdec s x); lia. }
    split.
    { intros n Hin. rewrite E2 in Hin. destruct (Hin12 n Hin) as (Hl & Hns). specialize (C4 n Hl).
      destruct (Nat.eq_dec (bucket (h_cap hd) (n_key n)) b) as [Eq|Hne].
      - rewrite Eq in *. rewrite Hchb. rewrite Ech in C4. apply in_app_or in C4. apply in_or_app. destruct C4 as [C4|[C4|C4]]; auto. congruence.
      - rewrite Hcho by exact Hne. exact C4. }
    intros b' x Hx. destruct (Hsub b' x Hx) as (Hx0 & Hxs). destruct (C5 _ _ Hx0) as (n & Hl & Es & Ebk). exists n. split; [|auto].
    rewrite E2. rewrite E1 in Hl. apply in_app_or in Hl. apply in_or_app. destruct Hl as [Hl|[Hl|Hl]]; auto. subst n. exfalso. apply Hxs. symmetry. exact Es. }
  destruct (c_remove_at_effect k pos c c' [EDestroy (n_id nd) s] Sc) as (Sc' & _).
  { unfold c_remove_at. rewrite El, Hn, Eb, Ed. reflexivity. }
  assert (Er : c_remove_at pos c = (c', [EDestroy (n_id nd) s])) by (unfold c_remove_at; rewrite El, Hn, Eb, Ed; reflexivity).
  pose proof (PInv_remove _ _ _ _ _ _ _ _ Sc P Er) as P'. destruct (BInv_remove _ _ _ _ _ _ _ Sc B Er) as (B' & Ebl).
  assert (D' : DInv c' o ser).
  { destruct D as [D1 D2]. assert (Eds : dser c' = dser c) by (unfold dser; cbn [c' c_body h_data]; rewrite Eb, Ed; reflexivity).
    constructor; rewrite Eds, ?Ebl; auto. }
  split. { unfold CInv. auto 10. }
  assert (Ecf : forall x, In x (cfoot c') -> In x (cfoot c)).
  { intros x Hx. unfold cfoot in *. apply in_app_or in Hx. apply in_or_app. destruct Hx as [Hx|Hx].
    - left. unfold cslots in *. rewrite Eel' in Hx. rewrite El, E1. cbn [c' c_pool release p_free] in Hx. unfold slots in *.
      rewrite !map_app in *. cbn [map]. rewrite !in_app_iff in *. cbn [In] in *. tauto.
    - right. apply in_bcells in Hx. apply in_bcells. unfold dser, ccap in *. cbn [c' c_body h_data h_cap] in Hx. rewrite Eb, Ed. exact Hx. }
  split; [exact Ecf|].
  (* the heap *)
  destruct R as [R1 R2 R3 R4 R5]. unfold hrep in R5. rewrite Eb, Ed in R5. destruct R5 as (Ecap & Edat & Hchain). rewrite El in R1, R4.
  pose proof (Hchain b Hb) as Chb. rewrite Ech in Chb.
  destruct (chain_unlink_writes H s) as (W1 & W2 & W3 & W4 & W5 & W6). set (H1 := chain_unlink H s) in *.
  assert (Hbl0 : forall x b0, In x (slots l) -> x <> (d, b0)).
  { intros x b0 Hx E0. eapply (live_not_bucket c o l hd ser nid k Eb Ci d x Ed); [eapply live_cslots; eauto|]. rewrite E0. reflexivity. }
  assert (Hbl : forall x, In x (slots l) -> x <> (d, b)) by (intros x Hx; apply Hbl0; exact Hx).
  assert (Hch_live : forall x, In x (c1 ++ s :: c2) -> In x (slots l)).
  { intros x Hx. eapply (chain_live c o l hd ser nid k Eb Ci b). rewrite Ech. exact Hx. }
  assert (Hndb : NoDup ((d, b) :: c1 ++ s :: c2)).
  { constructor; auto. intro Hin. apply (Hbl _ (Hch_live _ Hin)). reflexivity. }
  assert (Chb1 : chain H1 (d, b) (c1 ++ c2)) by (eapply (chain_remove H H1 s c2); eauto).
  pose proof (chain_pred_in H s c2 c1 (d, b) Chb) as Hpred. pose proof (chain_succ H s c2 c1 (d, b) Chb) as Hsucc.
  assert (Hpfoot : In (c_cell (hget H s)) (cfoot c)).
  { destruct Hpred as [<-|Hp]; [eapply bcell_foot; eauto|]. unfold cfoot. apply in_or_app. left. eapply live_cslots; eauto.
    apply Hch_live. apply in_or_app. auto. }
  assert (Hcho1 : forall b', (b' < h_cap hd)%nat -> b' <> b -> chain H1 (d, b') (nth b' (h_chains hd) [])).
  { intros b' Hb' Hne. eapply chain_ext; [| |apply Hchain; exact Hb'].
    - intros x Hx. apply W2. intro E0. destruct Hpred as [Hp|Hp].
      + rewrite <- Hp in E0. destruct Hx as [Hx|Hx]; [rewrite E0 in Hx; injection Hx as Hx; congruence|].
        eapply Hbl; [eapply chain_live; eauto|]. exact E0.
      + rewrite <- E0 in Hp. destruct Hx as [Hx|Hx].
        * subst x. eapply Hbl0; [apply Hch_live; apply in_or_app; left; exact Hp|]. reflexivity.
        * eapply (chains_disjoint c o l hd ser nid k Eb Ci b' b); eauto. rewrite Ech. apply in_or_app. auto.
    - intros x Hx. apply W4. rewrite Hsucc. destruct c2 as [|t c2']; [discriminate|]. intro E0. injection E0 as <-.
      eapply (chains_disjoint c o l hd ser nid k Eb Ci b' b); eauto. rewrite Ech. apply in_or_app. right. right. left. reflexivity. }
  rewrite E1 in R1.
  assert (Hsame : same_list_fields H H1) by exact W1.
  assert (Hndc : NoDup (cslots c)) by (eapply NoDup_cslots; eauto).
  assert (E1' : elems c = l1 ++ nd :: l2) by (rewrite El; exact E1).
  assert (R4' : hd_size h = length (elems c)) by (rewrite El; exact R4).
  destruct (remove_core side H H1 h c l1 nd l2 Hsame R1 R2 E1' Hndc R4')
    as (H4 & h4 & Ec & K1 & K2 & K3 & K4 & K5 & K6 & K7 & K8 & K9).
  exists H4, h4. split.
  { unfold l_remove_item. rewrite Hk. fold H1. exact Ec. }
  split.
  - constructor; rewrite ?Eel'; cbn [c' c_pool c_body release p_free p_blocks]; auto.
    + rewrite K4. exact R3.
    + unfold hrep. cbn [h_cap h_data h_chains]. rewrite K5, K6. split; [exact Ecap|]. split; [exact Edat|].
      intros b' Hb'. assert (G : chain H1 (d, b') (nth b' chains' [])).
      { destruct (Nat.eq_dec b' b) as [->|Hne]; [rewrite Hchb; exact Chb1|rewrite Hcho by exact Hne; apply Hcho1; auto]. }
      eapply chain_ext; [| |exact G]; intros x _; apply K8.
  - split.
    + intros x Hx _. rewrite K7 by (intro Hin; apply Hx; unfold cfoot; apply in_or_app; auto).
      apply W6.
      * intro E0. apply Hx. rewrite E0. exact Hpfoot.
      * rewrite Hsucc. destruct c2 as [|t c2']; [discriminate|]. intro E0. injection E0 as <-.
        apply Hx. unfold cfoot. apply in_or_app. left. eapply live_cslots; eauto. apply Hch_live. apply in_or_app. right. right. left. reflexivity.
    + intros x Hx. rewrite Eel'. rewrite K9 in Hx. fold s in Hx. destruct (sdec x s) as [->|Hne]; [congruence|].
      destruct (in_dec sdec x (slots (elems c))) as [Hin|Hin]; [left|right; auto].
      rewrite El, E1 in Hin. unfold slots in *. rewrite map_app in *. cbn [map] in Hin. apply in_app_or in Hin. apply in_or_app.
      destruct Hin as [Hin|[Hin|Hin]]; auto. exfalso. apply Hne. symmetry. exact Hin.
Qed.

(* ---- clear --------------------------------------------------------------------------------------------------- *)
Lemma nth_map_nil {A B} (l : list A) b : nth b (map (fun _ => @nil B) l) [] = [].
Proof. revert b. induction l as [|y r IH]; intros [|b]; cbn [map nth]; auto. Qed.

Lemma clear_ok_hash k : is_hashk k = true -> ClearOK k.
Proof.
  intros Hk side H h c o ser nid c' ev Ci R E.
  pose proof Ci as (Sc & So & P & B & D & Chc & Cho).
  destruct (hash_body _ _ Hk Sc) as (l & hd & Eb).
  pose proof (ch_elems c l hd Eb) as El.
  destruct (ch_inv c o l hd ser nid k Eb Ci) as (C1 & C2 & C3 & C4 & C5).
  destruct (c_clear_effect _ _ _ _ Sc E) as (Sc' & E1 & _ & Ef & Ebl).
  pose proof (PInv_clear _ _ _ _ _ _ _ Sc P E) as P'. destruct (BInv_clear _ _ _ _ _ _ Sc B E) as (B' & Ebl').
  pose proof E as E0. unfold c_clear in E0. injection E0 as Ec' Eev.
  assert (Ebody : c_body c' = BHash [] (mkHash (h_cap hd) (h_data hd) (map (fun _ => []) (h_chains hd)))).
  { rewrite <- Ec'. cbn [c_body]. rewrite Eb. reflexivity. }
  assert (Ech' : ChInv c').
  { unfold ChInv. rewrite Ebody. cbn [h_cap h_data h_chains]. split; [exact C1|]. split.
    { destruct (h_data hd); [rewrite map_length; exact C2|]. destruct C2 as (_ & ->). auto. }
    split; [intros b; rewrite nth_map_nil; constructor|]. split; [intros n []|]. intros b s Hs. rewrite nth_map_nil in Hs. destruct Hs. }
  assert (D' : DInv c' o ser).
  { destruct D as [D1 D2]. assert (Eds : dser c' = dser c) by (unfold dser; rewrite Ebody, Eb; reflexivity).
    constructor; rewrite Eds, ?Ebl'; auto. }
  split. { unfold CInv. auto 10. }
  assert (Ecf : forall x, In x (cfoot c') -> In x (cfoot c)).
  { intros x Hx. unfold cfoot in *. apply in_app_or in Hx. apply in_or_app. destruct Hx as [Hx|Hx].
    - left. unfold cslots in *. rewrite E1, Ef in Hx. cbn [slots map] in Hx. rewrite app_nil_r in Hx. rewrite !in_app_iff in *. rewrite <- in_rev in Hx. tauto.
    - right. apply in_bcells in Hx. apply in_bcells. unfold dser, ccap in *. rewrite Ebody in Hx. rewrite Eb. exact Hx. }
  split; [exact Ecf|].
  pose proof (items_rep _ _ _ _ R) as Hit. destruct R as [R1 R2 R3 R4 R5]. unfold hrep in R5. rewrite Eb in R5. destruct R5 as (Ecap & Edat & Hchain).
  pose proof (NoDup_cslots _ _ _ _ P) as Hndc. destruct (NoDup_live _ Hndc) as (Hnl & Hnf).
  destruct (clear_fold k (elems c) H h [] (p_free (c_pool c)) Hnl Hnf R2 (dll_objs _ _ _ _ _ _ R1))
    as (H' & h' & Efold & G1 & (A1 & A2 & A3 & A4 & A5 & A6) & G3 & G4 & G5 & G6 & G7 & G8).
  unfold l_clear. rewrite Hit. fold (clear_f k). rewrite Efold. cbn [app].
  eexists _, _. split; [rewrite <- Eev; reflexivity|].
  (* the predecessor cell of every live item belongs to the container *)
  assert (Hpred : forall n, In n l -> In (c_cell (hget H (n_slot n))) (cfoot c)).
  { intros n Hn. destruct (h_data hd) as [d|] eqn:Ed; [|destruct C2 as (C2 & _); rewrite C2 in Hn; destruct Hn].
    set (b := bucket (h_cap hd) (n_key n)). assert (Hb : (b < h_cap hd)%nat) by (apply bucket_lt; exact C1).
    destruct (in_split _ _ (C4 n Hn)) as (c1 & c2 & Ech). fold b in Ech. pose proof (Hchain b Hb) as Chb. rewrite Ech in Chb.
    destruct (chain_pred_in H (n_slot n) c2 c1 (d, b) Chb) as [<-|Hp]; [eapply bcell_foot; eauto|].
    unfold cfoot. apply in_or_app. left. eapply live_cslots; eauto. eapply (chain_live c o l hd ser nid k Eb Ci b). rewrite Ech. apply in_or_app. auto. }
  split.
  - constructor; rewrite ?E1; cbn [set_size set_last set_begin hd_begin hd_last hd_size hd_free hd_blocks hd_cap hd_data dll length]; auto.
    + rewrite Ef. exact G1.
    + rewrite A4, Ebl. exact R3.
    + unfold hrep. rewrite Ebody. cbn [h_cap h_data h_chains set_size set_last set_begin hd_cap hd_data]. rewrite A5, A6.
      split; [exact Ecap|]. split; [exact Edat|]. destruct (h_data hd) as [d|] eqn:Ed; auto.
      intros b Hb. rewrite nth_map_nil. cbn [chain]. specialize (Hchain b Hb).
      destruct (nth b (h_chains hd) []) as [|s1 r] eqn:Ech; cbn [chain] in Hchain.
      * destruct (G5 (d, b)) as [A|A]; [rewrite A; exact Hchain|exact A].
      * destruct Hchain as (_ & Hc2 & _). destruct (C5 b s1) as (n1 & Hn1 & Es1 & _); [rewrite Ech; left; reflexivity|].
        rewrite El in G6. specialize (G6 Hk n1 Hn1). rewrite Es1, Hc2 in G6. exact G6.
  - split.
    + intros x Hx _. apply G8.
      * intro Hin. apply Hx. unfold cfoot, cslots. apply in_or_app. left. apply in_or_app. auto.
      * intros _ n Hn E0. apply Hx. rewrite E0. apply Hpred. rewrite <- El. exact Hn.
    + intros x Hx. rewrite G3 in Hx. destruct (in_dec sdec x (slots (elems c))) as [Hin|Hin]; [congruence|]. right. auto.
Qed.

(* ---- insert: the key is already there (payload assignment) ------------------------------------------------- *)
Lemma dll_set_val H l1 nd l2 v : forall f pv la nx,
  NoDup (slots (l1 ++ nd :: l2)) -> dll H f pv (l1 ++ nd :: l2) la nx ->
  dll (set_obj H (n_slot nd) (Some (obj_of (set_val nd v)))) f pv (l1 ++ set_val nd v :: l2) la nx.
Proof.
  intros f pv la nx Hnd D. pose proof (NoDup_slots_mid _ _ _ Hnd) as Hm. apply NoDup_cons_iff in Hm. destruct Hm as (Hs & _).
  apply dll_app in D. destruct D as (m & mp & D1 & D2). apply dll_app. exists m, mp. split.
  - eapply dll_ext; [|exact D1]. intros n Hn. assert (n_slot n <> n_slot nd).
    { intro E0. apply Hs. rewrite <- E0. unfold slots. rewrite map_app. apply in_or_app. left. apply in_map. exact Hn. }
    unfold agree_dll. hrw. auto.
  - cbn [dll] in *. destruct D2 as (E1 & E2 & E3 & E4). cbn [set_val n_slot]. hrw. repeat split; auto.
    eapply dll_ext; [|exact E4]. intros n Hn. assert (n_slot n <> n_slot nd).
    { intro E0. apply Hs. rewrite <- E0. unfold slots. rewrite map_app. apply in_or_app. right. apply in_map. exact Hn. }
    unfold agree_dll. hrw. auto.
Qed.

Lemma assign_hit_refine k side H h c o ser nid l hd i nd val :
  c_body c = BHash l hd -> CInv k c o ser nid -> CRep side H h c -> nth_error l i = Some nd ->
  let c' := mkCont (BHash (assign_at i val l) hd) (c_pool c) in
  let H' := set_val_at H (n_slot nd) val in
  PInv c' o ser nid -> BInv c' o ser -> shape k c' ->
  H' = set_obj H (n_slot nd) (Some (obj_of (set_val nd val))) /\ c_obj (hget H (n_slot nd)) = Some (obj_of nd) /\
  CInv k c' o ser nid /\ (forall x, In x (cfoot c') -> In x (cfoot c)) /\ CRep side H' h c' /\ Contract H c ser ser H' c'.
Proof.
  intros Eb Ci R Hn c' H' P' B' Sc'.
  pose proof Ci as (Sc & So & P & B & D & Chc & Cho).
  pose proof (ch_elems c l hd Eb) as El.
  destruct (ch_inv c o l hd ser nid k Eb Ci) as (C1 & C2 & C3 & C4 & C5).
  pose proof (ch_nodup c o l hd ser nid k Eb Ci) as Hndl.
  destruct (assign_at_split i val nd l Hn) as (l1 & l2 & E1 & E2).
  destruct R as [R1 R2 R3 R4 R5]. rewrite El in R1, R4.
  assert (Hnd_in : In nd l) by (rewrite E1; apply in_or_app; right; left; reflexivity).
  assert (Ho : c_obj (hget H (n_slot nd)) = Some (obj_of nd)) by (eapply dll_objs; eauto).
  assert (EH : H' = set_obj H (n_slot nd) (Some (obj_of (set_val nd val)))).
  { unfold H', set_val_at. rewrite Ho. reflexivity. }
  split; [exact EH|]. split; [exact Ho|].
  assert (Eel' : elems c' = l1 ++ set_val nd val :: l2) by (unfold elems; cbn [c' c_body elems_of]; exact E2).
  assert (Hslots : slots (elems c') = slots (elems c)).
  { rewrite Eel', El, E1. unfold slots. rewrite !map_app. reflexivity. }
  assert (Ech' : ChInv c').
  { unfold ChInv. cbn [c' c_body]. split; [exact C1|]. split.
    { destruct (h_data hd); auto. destruct C2 as (C2 & _). rewrite C2 in Hnd_in. destruct Hnd_in. }
    split; [exact C3|]. split.
    - intros n Hin. rewrite E2 in Hin. apply in_app_or in Hin. destruct Hin as [Hin|[<-|Hin]].
      + apply C4. rewrite E1. apply in_or_app. auto.
      + cbn [set_val n_slot n_key]. apply C4. exact Hnd_in.
      + apply C4. rewrite E1. apply in_or_app. right. right. exact Hin.
    - intros b s Hs. destruct (C5 _ _ Hs) as (n & Hl & Es & Ebk). rewrite E1 in Hl. apply in_app_or in Hl. rewrite E2.
      destruct Hl as [Hl|[<-|Hl]].
      + exists n. split; [apply in_or_app; auto|auto].
      + exists (set_val nd val). split; [apply in_or_app; right; left; reflexivity|auto].
      + exists n. split; [apply in_or_app; right; right; exact Hl|auto]. }
  assert (Eds : dser c' = dser c /\ ccap c' = ccap c /\ blocks c' = blocks c /\ cslots c' = cslots c).
  { unfold dser, ccap, blocks, cslots. rewrite Hslots. cbn [c' c_body c_pool]. rewrite Eb. auto. }
  destruct Eds as (Ed1 & Ed2 & Ed3 & Ed4).
  assert (D' : DInv c' o ser) by (destruct D as [D1 D2]; constructor; rewrite Ed1, ?Ed3; auto).
  split. { unfold CInv. auto 10. }
  assert (Ecf : forall x, In x (cfoot c') <-> In x (cfoot c)).
  { intros x. unfold cfoot, bcells. rewrite Ed1, Ed2, Ed4. tauto. }
  split; [intros x; apply Ecf|].
  assert (Hsfree : ~ In (n_slot nd) (p_free (c_pool c))).
  { pose proof (NoDup_cslots _ _ _ _ P) as Hndc. destruct (NoDup_live _ Hndc) as (_ & Hnf). apply Hnf. rewrite El. exact Hnd_in. }
  split.
  - rewrite EH. constructor; rewrite ?Eel'; cbn [c' c_pool c_body]; auto.
    + apply dll_set_val; [rewrite <- E1; exact Hndl|rewrite <- E1; exact R1].
    + eapply fl_ext; [|exact R2]. intros x Hx. assert (x <> n_slot nd) by (intro E0; apply Hsfree; rewrite <- E0; exact Hx). hrw. auto.
    + rewrite R4, E1, !app_length. reflexivity.
    + unfold hrep in *. rewrite Eb in R5. destruct R5 as (A1 & A2 & A3). split; auto. split; auto.
      destruct (h_data hd); auto. intros b Hb. eapply chain_ext; [| |apply A3; exact Hb]; intros x _; hrw; reflexivity.
  - rewrite EH. split.
    + intros x Hx _. apply hget_set_obj_other. intro E0. apply Hx. rewrite <- E0. unfold cfoot. apply in_or_app. left.
      eapply live_cslots; eauto. apply in_slots. exact Hnd_in.
    + intros x Hx. rewrite Hslots. destruct (sdec x (n_slot nd)) as [->|Hne].
      * left. rewrite El. apply in_slots. exact Hnd_in.
      * rewrite obj_set_obj_other in Hx by congruence. destruct (in_dec sdec x (slots (elems c))); auto.
Qed.

(* ---- insert: a new item -------------------------------------------------------------------------------------- *)
Lemma insert_miss_refine k side H h c o ser nid l hd pos posp key val d chains1 ser1 h1 :
  is_hashk k = true -> c_body c = BHash l hd -> CInv k c o ser nid -> CRep side H h c ->
  (forall x, (ser <= fst x)%nat -> hget H x = cell0) -> pos_ok side H h l pos posp ->
  (* the data array is there (d), with the chains chains1 *)
  (ser <= ser1 <= S ser)%nat -> (d < ser1)%nat -> length chains1 = h_cap hd ->
  (forall b', (b' < h_cap hd)%nat -> chain H (d, b') (nth b' chains1 [])) ->
  (forall b', NoDup (nth b' chains1 [])) ->
  (forall n, In n l -> In (n_slot n) (nth (bucket (h_cap hd) (n_key n)) chains1 [])) ->
  (forall b' x, In x (nth b' chains1 []) -> exists n, In n l /\ n_slot n = x /\ bucket (h_cap hd) (n_key n) = b') ->
  (forall x, In x (cslots c) -> fst x <> d) -> (In d (dser c) \/ d = ser /\ ser1 = S ser) ->
  hd_begin h1 = hd_begin h -> hd_last h1 = hd_last h -> hd_size h1 = hd_size h -> hd_free h1 = hd_free h -> hd_blocks h1 = hd_blocks h ->
  hd_cap h1 = hd_cap h -> hd_data h1 = Some d ->
  forall s p' ser2 ev2, alloc k (c_pool c) ser1 = (s, p', ser2, ev2) ->
  let v' := match k with KHashSet => 0%Z | _ => val end in
  let nd := mkNode nid s key v' in
  let b := bucket (h_cap hd) key in
  let c' := mkCont (BHash (insert_at pos nd l) (mkHash (h_cap hd) (Some d) (upd_nth b (cons s) chains1))) p' in
  ChInv c' /\ (forall x, In x (cfoot c') -> In x (cfoot c) \/ (ser <= fst x < ser2)%nat) /\
  exists H2 h2 H5 h5,
    l_take k H h1 ser1 = (s, H2, h2, ser2, ev2) /\ hd_data h2 = Some d /\ hd_cap h2 = h_cap hd /\
    link_before (chain_link (set_obj H2 s (Some (mkObj nid key v'))) s (d, b)) h2 s posp = (H5, h5) /\
    CRep side H5 h5 c' /\ Contract H c ser ser2 H5 c'.
Proof.
  intros Hk Eb Ci R Hfr Hpos Hser1 Hd Hlen Hch N5 N6 N7 Hnb Hdwhere A1 A2 A3 A4 A5 A6 A7 s p' ser2 ev2 Ea v' nd b c'.
  pose proof Ci as (Sc & So & P & B & D & Chc & Cho).
  pose proof (ch_elems c l hd Eb) as El.
  destruct (ch_inv c o l hd ser nid k Eb Ci) as (C1 & _).
  pose proof (ch_nodup c o l hd ser nid k Eb Ci) as Hndl.
  assert (Hb : (b < h_cap hd)%nat) by (apply bucket_lt; exact C1).
  assert (P1 : PInv c o ser1 nid) by (eapply PInv_mono; eauto; lia).
  destruct (alloc_slots _ _ _ _ _ _ _ _ _ P1 Ea) as (Hsl & Hfl & Hwhere & Hser2 & Hfnd). rewrite El in Hsl, Hfl.
  destruct R as [R1 R2 R3 R4 R5]. unfold hrep in R5. rewrite Eb in R5. destruct R5 as (Ecap & Edat & _).
  assert (R2' : fl H (hd_free h1) (p_free (c_pool c))) by (rewrite A4; exact R2).
  assert (R3' : hd_blocks h1 = p_blocks (c_pool c)) by (rewrite A5; exact R3).
  assert (Hfr1 : forall x, fst x = ser1 -> c_obj (hget H x) = None) by (intros x Hx; rewrite Hfr by lia; reflexivity).
  destruct (take_refine k H h1 (c_pool c) ser1 s p' ser2 ev2 R2' R3' Hfnd Hfr1 Ea)
    as (H2 & h2 & Et & T1 & T2 & T3 & T4 & T5 & T6 & T7 & T8 & T9 & T10 & T11).
  set (H3 := set_obj H2 s (Some (mkObj nid key v'))).
  set (H4 := chain_link H3 s (d, b)).
  (* where s is *)
  assert (Hsd : fst s <> d).
  { destruct (Hwhere s (or_introl eq_refl)) as [Hc|Hc]; [apply Hnb; exact Hc|lia]. }
  assert (Hs_ne : forall b0, s <> (d, b0)) by (intros b0 E0; apply Hsd; rewrite E0; reflexivity).
  assert (Hlive_ne : forall x b0, In x (slots l) -> x <> (d, b0)).
  { intros x b0 Hx E0. apply (Hnb x); [eapply live_cslots; eauto|]. rewrite E0. reflexivity. }
  assert (Hch_live : forall b' x, In x (nth b' chains1 []) -> In x (slots l)).
  { intros b' x Hx. destruct (N7 _ _ Hx) as (n & Hn & <- & _). apply in_slots. exact Hn. }
  assert (Hdisj : forall b1 b2 x, b1 <> b2 -> In x (nth b1 chains1 []) -> ~ In x (nth b2 chains1 [])).
  { intros b1 b2 x Hne X1 X2. destruct (N7 _ _ X1) as (n & Hn & Es & Ebk). destruct (N7 _ _ X2) as (n' & Hn' & Es' & Ebk').
    assert (n = n') by (eapply slots_inj; eauto; congruence). subst n'. congruence. }
  (* chains in H3 *)
  assert (Hch3 : forall b', (b' < h_cap hd)%nat -> chain H3 (d, b') (nth b' chains1 [])).
  { intros b' Hb'. eapply chain_ext; [| |apply Hch; exact Hb']; intros x _; unfold H3; hrw; apply T9. }
  set (chb := nth b chains1 []).
  assert (Hs_chb : ~ In s chb) by (intro Hin; apply Hsl; eapply Hch_live; eauto).
  assert (Hcr_chb : ~ In (d, b) chb) by (intro Hin; eapply Hlive_ne; [eapply Hch_live; eauto|reflexivity]).
  assert (Hch4b : chain H4 (d, b) (s :: chb)) by (apply chain_link_chain; [apply Hs_ne|exact Hs_chb|exact Hcr_chb|apply N5|apply Hch3; exact Hb]).
  assert (Hnh : c_nextcell (hget H3 (d, b)) <> PItem s).
  { pose proof (Hch3 b Hb) as C0. fold chb in C0. destruct chb as [|t r]; cbn [chain] in C0; [rewrite C0; discriminate|].
    destruct C0 as (C0 & _). rewrite C0. intro E0. injection E0 as E0. apply Hs_chb. left. exact E0. }
  destruct (chain_link_writes H3 s (d, b) (Hs_ne b) Hnh) as (W0 & W1 & W2 & W3 & W4 & W5 & W6 & W7). fold H4 in W0, W1, W2, W3, W4, W5, W6, W7.
  assert (Hnc : forall x, c_nextcell (hget H3 (d, b)) = PItem x -> In x chb).
  { intros x Ex. pose proof (Hch3 b Hb) as C0. fold chb in C0. destruct chb as [|t r]; cbn [chain] in C0; [congruence|].
    destruct C0 as (C0 & _). rewrite C0 in Ex. injection Ex as <-. left. reflexivity. }
  assert (Hch4o : forall b', (b' < h_cap hd)%nat -> b' <> b -> chain H4 (d, b') (nth b' chains1 [])).
  { intros b' Hb' Hne. eapply chain_ext; [| |apply Hch3; exact Hb'].
    - intros x [<-|Hx]; apply W5.
      + intro E0. apply (Hs_ne b'). symmetry. exact E0.
      + intro E0. injection E0 as E0. congruence.
      + intro E0. apply Hsl. rewrite <- E0. eapply Hch_live; eauto.
      + intro E0. eapply Hlive_ne; [eapply Hch_live; eauto|exact E0].
    - intros x Hx. apply W6.
      + intro E0. apply Hsl. rewrite <- E0. eapply Hch_live; eauto.
      + intro E0. apply Hnc in E0. eapply (Hdisj b' b); eauto. }
  (* the list part *)
  assert (W4' : forall x, c_obj (hget H4 x) = (if sdec x s then Some (obj_of nd) else c_obj (hget H2 x)) /\
                          c_prev (hget H4 x) = c_prev (hget H2 x) /\ c_next (hget H4 x) = c_next (hget H2 x)).
  { intros x. destruct (W0 x) as (B1 & B2 & B3). rewrite B1, B2, B3. unfold H3. hrw. split; [|auto].
    destruct (sdec x s) as [->|Hne]; hrw; auto. }
  assert (R1' : dll H (hd_begin h1) PNull (elems c) (hd_last h1) (PEnd side)) by (rewrite A1, A2; exact R1).
  assert (Hpos' : pos_ok side H h1 (elems c) pos posp).
  { rewrite El. destruct Hpos as (mp & Q1 & Q2). exists mp. rewrite A1, A2. auto. }
  assert (T5' : hd_size h2 = length (elems c)) by (rewrite T5, A3; exact R4).
  destruct (link_before H4 h2 s posp) as [H5 h5] eqn:El5.
  destruct (insert_core side H h1 c o ser1 nid k s p' ser2 ev2 H2 h2 H4 pos posp nd R1' P1 Ea T1 T3 T4 T5' T8 T9 T11 eq_refl W4' Hpos' H5 h5 El5)
    as (L1 & L2 & L3 & (L4 & L5 & L6 & L7) & (L8 & L9)). rewrite El in L1, L3, L8.
  assert (Eel' : elems c' = firstn pos l ++ nd :: skipn pos l) by (unfold elems; cbn [c' c_body elems_of]; apply insert_at_firstn).
  assert (Hin' : forall n, In n (elems c') <-> n = nd \/ In n l).
  { intros n. rewrite Eel'. rewrite <- (firstn_skipn pos l) at 3. rewrite !in_app_iff. cbn [In]. intuition congruence. }
  (* the chain invariant of the result *)
  assert (Ech' : ChInv c').
  { unfold ChInv. cbn [c' c_body h_cap h_data h_chains]. split; [exact C1|]. split; [rewrite length_upd_nth; exact Hlen|].
    split.
    { intros b'. destruct (Nat.eq_dec b' b) as [->|Hne]; [rewrite nth_upd_nth_same by lia|rewrite nth_upd_nth_other by congruence; apply N5].
      constructor; [exact Hs_chb|apply N5]. }
    split.
    { intros n Hn. assert (Hn' : n = nd \/ In n l) by (apply Hin'; unfold elems; cbn [c' c_body elems_of]; exact Hn).
      destruct Hn' as [->|Hl].
      - cbn [nd n_slot n_key]. fold b. rewrite nth_upd_nth_same by lia. left. reflexivity.
      - specialize (N6 n Hl). destruct (Nat.eq_dec (bucket (h_cap hd) (n_key n)) b) as [Eq|Hne].
        + rewrite Eq in *. rewrite nth_upd_nth_same by lia. right. exact N6.
        + rewrite nth_upd_nth_other by congruence. exact N6. }
    intros b' x Hx. assert (Hcase : (b' = b /\ x = s) \/ In x (nth b' chains1 [])).
    { destruct (Nat.eq_dec b' b) as [->|Hne]; [rewrite nth_upd_nth_same in Hx by lia; destruct Hx as [<-|Hx]; auto|].
      rewrite nth_upd_nth_other in Hx by congruence. auto. }
    destruct Hcase as [(-> & ->)|Hx0].
    - exists nd. split; [apply (Hin' nd); auto|]. cbn [nd n_slot n_key]. auto.
    - destruct (N7 _ _ Hx0) as (n & Hn & Es & Ebk). exists n. split; [apply (Hin' n); auto|auto]. }
  split; [exact Ech'|].
  assert (Ecf : forall x, In x (cfoot c') -> In x (cfoot c) \/ (ser <= fst x < ser2)%nat).
  { intros x Hx. unfold cfoot in Hx. apply in_app_or in Hx. destruct Hx as [Hx|Hx].
    - unfold cslots in Hx. cbn [c' c_pool] in Hx. apply in_app_or in Hx.
      assert (Hc : In x (s :: p_free p') \/ In x (slots l)).
      { destruct Hx as [Hx|Hx]; [left; right; exact Hx|]. unfold slots in Hx. apply in_map_iff in Hx. destruct Hx as (n & <- & Hn).
        apply Hin' in Hn. destruct Hn as [->|Hn]; [left; left; reflexivity|right; apply in_slots; exact Hn]. }
      destruct Hc as [Hc|Hc].
      + destruct (Hwhere x Hc) as [Hw|Hw]; [left; unfold cfoot; apply in_or_app; auto|]. right.
        apply alloc_effect in Ea. destruct Ea as [(Ef & _)|(_ & _ & Hfst & _ & -> & _)].
        * exfalso. assert (Hin : In x (cslots c)) by (unfold cslots; apply in_or_app; left; rewrite Ef; exact Hc).
          destruct P1 as [_ _ _ P4]. rewrite Forall_forall in P4. specialize (P4 x (in_or_app _ _ _ (or_introl Hin))). cbn in P4. lia.
        * lia.
      + left. unfold cfoot. apply in_or_app. left. eapply live_cslots; eauto.
    - apply in_bcells in Hx. unfold dser, ccap in Hx. cbn [c' c_body h_data h_cap] in Hx. destruct Hx as ([Hx|[]] & Hx2).
      destruct Hdwhere as [Hdw|(Hdw & Hs1)].
      + left. unfold cfoot. apply in_or_app. right. apply in_bcells. unfold ccap. rewrite Eb. rewrite <- Hx. auto.
      + right. rewrite <- Hx, Hdw. lia. }
  split; [exact Ecf|].
  exists H2, h2, H5, h5. split; [exact Et|]. split; [rewrite T7; exact A7|]. split; [rewrite T6, A6; exact Ecap|]. split; [exact El5|]. split.
  - constructor; rewrite ?Eel'; cbn [c' c_pool c_body]; auto.
    + rewrite L5. exact T2.
    + rewrite L3, app_length. cbn [length]. rewrite <- (firstn_skipn pos l) at 1. rewrite app_length. lia.
    + unfold hrep. cbn [h_cap h_data h_chains]. rewrite L6, L7, T6, T7, A6, A7. split; [exact Ecap|]. split; [reflexivity|].
      intros b' Hb'. assert (G : chain H4 (d, b') (nth b' (upd_nth b (cons s) chains1) [])).
      { destruct (Nat.eq_dec b' b) as [->|Hne]; [rewrite nth_upd_nth_same by lia; exact Hch4b|rewrite nth_upd_nth_other by congruence; apply Hch4o; auto]. }
      eapply chain_ext; [| |exact G]; intros x _; apply L9.
  - split.
    + intros x Hx Hxs.
      assert (Hxl : ~ In x (slots l)) by (intro Hin; apply Hx; unfold cfoot; apply in_or_app; left; eapply live_cslots; eauto).
      assert (Hxs' : x <> s).
      { intro E0. destruct (Hwhere s (or_introl eq_refl)) as [Hc|Hc]; [apply Hx; unfold cfoot; apply in_or_app; left; rewrite E0; exact Hc|].
        apply alloc_effect in Ea. destruct Ea as [(Ef & _)|(_ & _ & _ & _ & Es2 & _)].
        - apply Hx. unfold cfoot, cslots. apply in_or_app. left. apply in_or_app. left. rewrite Ef, E0. left. reflexivity.
        - rewrite E0 in Hxs. lia. }
      assert (Hxcr : x <> (d, b)).
      { intro E0. destruct Hdwhere as [Hdw|(Hdw & Hs1)].
        - apply Hx. rewrite E0. unfold cfoot. apply in_or_app. right. apply in_bcells. unfold ccap. rewrite Eb. cbn. auto.
        - rewrite E0 in Hxs. cbn [fst] in Hxs. lia. }
      rewrite L8 by (intros [E0|Hin]; [congruence|contradiction]).
      rewrite W7; [| exact Hxs' | exact Hxcr | intro E0; apply Hnc in E0; apply Hxl; eapply Hch_live; eauto].
      unfold H3. rewrite hget_set_obj_other by congruence. apply T8. lia.
    + intros x Hx. destruct (L9 x) as (B1 & _). rewrite B1 in Hx. destruct (W4' x) as (B2 & _). rewrite B2 in Hx.
      destruct (sdec x s) as [->|Hne].
      * left. apply in_slots with (n := nd). apply Hin'. auto.
      * destruct (T9 x) as (B3 & _). rewrite B3 in Hx. destruct (in_dec sdec x (slots (elems c))) as [Hin|Hin]; [left|right; auto].
        rewrite El in Hin. unfold slots in Hin. apply in_map_iff in Hin. destruct Hin as (n & <- & Hn). apply in_slots. apply Hin'. auto.
Qed.

Lemma DInv_insert_miss c o ser c' ser2 d :
  DInv c o ser -> BInv c o ser -> dser c' = [d] -> (In d (dser c) \/ (dser c = [] /\ d = ser)) ->
  (blocks c' = blocks c \/ exists b0, blocks c' = b0 :: blocks c /\ (ser <= b0 < ser2)%nat /\ b0 <> d) ->
  (d < ser2)%nat -> (ser <= ser2)%nat -> DInv c' o ser2.
Proof.
  intros [D1 D2] [_ _ _ B4] Ed Hd Hb Hd2 Hs. rewrite Forall_forall in D2, B4.
  assert (Hcnt : forall x, count_occ Nat.eq_dec (dser c' ++ dser o ++ blocks c ++ blocks o) x <= 1).
  { intros x. rewrite Ed. rewrite (NoDup_count_occ Nat.eq_dec) in D1. specialize (D1 x). destruct Hd as [Hd|(Hd & ->)].
    - assert (Edc : dser c = [d]).
      { unfold dser in *. destruct (c_body c) as [?|?|? hd]; [destruct Hd|destruct Hd|]. destruct (h_data hd); [|destruct Hd].
        destruct Hd as [->|[]]. reflexivity. }
      rewrite Edc in D1. exact D1.
    - rewrite Hd in D1. cbn [app count_occ] in *. destruct (Nat.eq_dec ser x) as [<-|]; [|lia].
      assert (Hz : count_occ Nat.eq_dec (dser o ++ blocks c ++ blocks o) ser = 0).
      { apply count_occ_not_In. intro Hin. apply in_app_or in Hin. destruct Hin as [Hin|Hin].
        - specialize (D2 ser). rewrite Hd in D2. specialize (D2 Hin). cbn in D2. lia.
        - specialize (B4 _ Hin). cbn in B4. lia. }
      lia. }
  constructor.
  - rewrite (NoDup_count_occ Nat.eq_dec). intro x. specialize (Hcnt x). destruct Hb as [->|(b0 & -> & Hb0 & Hne)]; [exact Hcnt|].
    rewrite !count_occ_app in *. cbn [count_occ]. destruct (Nat.eq_dec b0 x) as [<-|]; [|lia].
    assert (Hz : count_occ Nat.eq_dec (dser c') b0 = 0 /\ count_occ Nat.eq_dec (dser o) b0 = 0 /\ count_occ Nat.eq_dec (blocks c) b0 = 0 /\ count_occ Nat.eq_dec (blocks o) b0 = 0).
    { repeat split; apply count_occ_not_In; intro Hin.
      - rewrite Ed in Hin. destruct Hin as [Hin|[]]. congruence.
      - specialize (D2 b0 (in_or_app _ _ _ (or_intror Hin))). cbn in D2. lia.
      - specialize (B4 b0 (in_or_app _ _ _ (or_introl Hin))). cbn in B4. lia.
      - specialize (B4 b0 (in_or_app _ _ _ (or_intror Hin))). cbn in B4. lia. }
    lia.
  - rewrite Forall_forall. intros x Hx. apply in_app_or in Hx. destruct Hx as [Hx|Hx].
    + rewrite Ed in Hx. destruct Hx as [<-|[]]. exact Hd2.
    + specialize (D2 x (in_or_app _ _ _ (or_intror Hx))). cbn in D2. lia.
Qed.

Lemma insert_ok_hash k : is_hashk k = true -> InsertOK k.
Proof.
  intros Hk side H h c o ser nid pos posp key val c' ser' nid' ev Ci R Hfr Hpos E.
  pose proof Ci as (Sc & So & P & B & D & Chc & Cho).
  destruct (hash_kind_facts _ Hk) as (Hhk & Hpb). rewrite Hpb in Hpos.
  destruct (hash_body _ _ Hk Sc) as (l & hd & Eb).
  pose proof (ch_elems c l hd Eb) as El. rewrite El in Hpos.
  destruct (ch_inv c o l hd ser nid k Eb Ci) as (C1 & C2 & C3 & C4 & C5).
  pose proof (ch_nodup c o l hd ser nid k Eb Ci) as Hndl.
  destruct (c_insert_effect _ _ _ _ _ _ _ _ _ _ _ Sc E) as (Sc' & _ & _).
  destruct (PInv_insert _ _ _ _ _ _ _ _ _ _ _ _ Sc P E) as (P' & Ls & Ln).
  destruct (BInv_insert _ _ _ _ _ _ _ _ _ _ _ _ Sc B E) as (B' & _).
  pose proof (find_hash side H h c l hd key Eb R Chc Hndl) as Hfind.
  pose proof E as E0. unfold c_insert in E0. rewrite Eb in E0.
  destruct (h_find l hd key) as [i|] eqn:Ef.
  - (* the key is there *)
    destruct Hfind as (nd & Hn & Elf).
    assert (Hhit : forall ev0, (c', ser', nid', ev) = (mkCont (BHash (assign_at i val l) hd) (c_pool c), ser, nid, ev0) ->
                   (ev0 = [] \/ ev0 = [EAssign (n_id nd)]) ->
                   (l_insert k posp key val H h ser nid = (set_val_at H (n_slot nd) val, h, ser, nid, ev0)) ->
                   CInv k c' o ser' nid' /\ (ser <= ser')%nat /\ (nid <= nid')%nat /\
                   (forall x, In x (cfoot c') -> In x (cfoot c) \/ (ser <= fst x < ser')%nat) /\
                   exists H' h', l_insert k posp key val H h ser nid = (H', h', ser', nid', ev) /\ CRep side H' h' c' /\ Contract H c ser ser' H' c').
    { intros ev0 Eq _ Elow. injection Eq as -> -> -> ->.
      destruct (assign_hit_refine k side H h c o ser nid l hd i nd val Eb Ci R Hn P' B' Sc') as (EH & Ho & Ci' & Ecf & R' & C').
      split; [exact Ci'|]. split; [lia|]. split; [lia|]. split; [intros x Hx; left; apply Ecf; exact Hx|].
      eexists _, _. split; [exact Elow|]. split; [exact R'|exact C']. }
    assert (Ho : c_obj (hget H (n_slot nd)) = Some (obj_of nd)).
    { destruct R as [R1 _ _ _ _]. rewrite El in R1. eapply dll_objs; eauto. eapply nth_error_In; eauto. }
    destruct k; try discriminate Hk.
    + (* HashMap *) rewrite Hn in E0. apply (Hhit [EAssign (n_id nd)]); auto.
      unfold l_insert. cbn [is_hashk]. rewrite Elf, Ho. reflexivity.
    + (* HashSet: nothing changes *) injection E0 as <- <- <- <-.
      split; [exact Ci|]. split; [lia|]. split; [lia|]. split; [auto|].
      exists H, h. split; [unfold l_insert; cbn [is_hashk]; rewrite Elf; reflexivity|]. split; [exact R|]. split; [auto|].
      intros x Hx. destruct (in_dec sdec x (slots (elems c))); auto.
    + (* PoolMap *) apply (Hhit []); auto.
      unfold l_insert. cbn [is_hashk]. rewrite Elf. reflexivity.
  - (* a new item *)
    assert (Hnbl : forall x, In x (cslots c) -> (fst x < ser)%nat).
    { intros x Hx. destruct P as [_ _ _ P4]. rewrite Forall_forall in P4. apply P4. apply in_or_app. auto. }
    destruct R as [R1 R2 R3 R4 R5]. pose proof R5 as R5'. unfold hrep in R5'. rewrite Eb in R5'. destruct R5' as (Ecap & Edat & Hchain).
    assert (R : CRep side H h c) by (constructor; auto).
    unfold l_insert. rewrite Hk, Hfind, Edat.
    destruct (h_data hd) as [d|] eqn:Ed.
    + (* the data array exists *)
      cbn [h_cap h_data h_chains] in E0.
      destruct (alloc k (c_pool c) ser) as [[[s p'] ser2] ev2] eqn:Ea. injection E0 as <- <- <- <-. rewrite ?Ed in *.
      assert (Hdlt : (d < ser)%nat).
      { destruct D as [_ D2]. rewrite Forall_forall in D2. apply D2. apply in_or_app. left. unfold dser. rewrite Eb, Ed. left. reflexivity. }
      assert (Hdin : In d (dser c)) by (unfold dser; rewrite Eb, Ed; left; reflexivity).
      assert (Hs1 : (ser <= ser <= S ser)%nat) by lia.
      destruct (insert_miss_refine k side H h c o ser nid l hd pos posp key val d (h_chains hd) ser h Hk Eb Ci R Hfr Hpos
                  Hs1 Hdlt C2 Hchain C3 C4 C5 (fun x Hx => live_not_bucket c o l hd ser nid k Eb Ci d x Ed Hx)
                  (or_introl Hdin)
                  eq_refl eq_refl eq_refl eq_refl eq_refl eq_refl Edat s p' ser2 ev2 Ea)
        as (Ech' & Ecf & H2 & h2 & H5 & h5 & Et & Ed2 & Ec2 & El5 & R' & C').
      split.
      { unfold CInv. split; [exact Sc'|]. split; [exact So|]. split; [exact P'|]. split; [exact B'|]. split; [|auto].
        eapply (DInv_insert_miss c o ser _ ser2 d); [exact D|exact B| | | | |].
        - unfold dser. cbn [c_body h_data]. reflexivity.
        - left. exact Hdin.
        - unfold blocks. cbn [c_pool]. apply alloc_effect in Ea. destruct Ea as [(_ & -> & _)|(_ & _ & _ & -> & -> & _)]; [left; reflexivity|].
          right. exists ser. split; [reflexivity|]. split; lia.
        - lia.
        - lia. }
      split; [exact Ls|]. split; [exact Ln|]. split; [exact Ecf|].
      exists H5, h5. rewrite Et, Ed2, Ec2. cbn [h_cap h_data h_chains]. rewrite El5. split; [reflexivity|]. split; [exact R'|exact C'].
    + (* the data array is allocated first *)
      cbn [h_cap h_data h_chains] in E0.
      destruct (alloc k (c_pool c) (S ser)) as [[[s p'] ser2] ev2] eqn:Ea. injection E0 as <- <- <- <-. rewrite ?Ed in *.
      destruct C2 as (C2l & C2c).
      set (h1 := set_data h (Some ser)).
      assert (Hs1 : (ser <= S ser <= S ser)%nat) by lia. assert (Hs2 : (ser < S ser)%nat) by lia.
      destruct (insert_miss_refine k side H h c o ser nid l hd pos posp key val ser (repeat [] (h_cap hd)) (S ser) h1 Hk Eb Ci R Hfr Hpos
                  Hs1 Hs2 (repeat_length _ _)) with (s := s) (p' := p') (ser2 := ser2) (ev2 := ev2)
        as (Ech' & Ecf & H2 & h2 & H5 & h5 & Et & Ed2 & Ec2 & El5 & R' & C'); auto.
      { intros b' Hb'. rewrite nth_repeat_nil. cbn [chain]. rewrite Hfr by (cbn; lia). reflexivity. }
      { intros b'. rewrite nth_repeat_nil. constructor. }
      { intros n Hn. rewrite C2l in Hn. destruct Hn. }
      { intros b' x Hx. rewrite nth_repeat_nil in Hx. destruct Hx. }
      { intros x Hx E0. apply Hnbl in Hx. lia. }
      split.
      { unfold CInv. split; [exact Sc'|]. split; [exact So|]. split; [exact P'|]. split; [exact B'|]. split; [|auto].
        apply alloc_effect in Ea.
        eapply (DInv_insert_miss c o ser _ ser2 ser); [exact D|exact B| | | | |].
        - unfold dser. cbn [c_body h_data]. reflexivity.
        - right. unfold dser. rewrite Eb, Ed. auto.
        - unfold blocks. cbn [c_pool]. destruct Ea as [(_ & -> & _)|(_ & _ & _ & -> & -> & _)]; [left; reflexivity|].
          right. exists (S ser). split; [reflexivity|]. split; lia.
        - destruct Ea as [(_ & _ & -> & _)|(_ & _ & _ & _ & -> & _)]; lia.
        - destruct Ea as [(_ & _ & -> & _)|(_ & _ & _ & _ & -> & _)]; lia. }
      split; [exact Ls|]. split; [exact Ln|]. split; [exact Ecf|].
      exists H5, h5. fold h1. rewrite Et, Ed2, Ec2. cbn [h_cap h_data h_chains]. rewrite El5. split; [reflexivity|]. split; [exact R'|exact C'].
Qed.
