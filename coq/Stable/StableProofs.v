(* Invariant preservation and the facts about one step from which the C05 theorems follow. *)
From Coq Require Import ZArith List Bool Arith Lia.
From Stable Require Import Gen_Stable StableSpec StableModel StableTree StableInv.
Import ListNotations.

(* ---- the pair invariant: c = the container operated on, o = the other one ------------------------ *)
Record PInv (c o : cont) (ser nid : nat) : Prop := mkPInv {
  pi_ids : NoDup (ids (elems c) ++ ids (elems o));
  pi_idlt : Forall (fun i => (i < nid)%nat) (ids (elems c) ++ ids (elems o));
  pi_slots : NoDup (cslots c ++ cslots o);
  pi_serlt : Forall (fun s => (fst s < ser)%nat) (cslots c ++ cslots o) }.

Lemma Forall_cnt0 {A} dec (P : A -> Prop) l x : Forall P l -> ~ P x -> count_occ dec l x = 0.
Proof. intros H Hx. apply count_occ_not_In. intro Hin. rewrite Forall_forall in H. auto. Qed.

Ltac in_solve := repeat (rewrite in_app_iff in * || cbn [In] in * ); tauto.

Lemma PInv_sym c o ser nid : PInv c o ser nid -> PInv o c ser nid.
Proof.
  intros [H1 H2 H3 H4]. constructor.
  - rewrite (NoDup_count_occ Nat.eq_dec) in *. intro x. specialize (H1 x). rewrite count_occ_app in *. lia.
  - rewrite Forall_app in *. tauto.
  - rewrite (NoDup_count_occ sdec) in *. intro x. specialize (H3 x). rewrite count_occ_app in *. lia.
  - rewrite Forall_app in *. tauto.
Qed.

Lemma PInv_init k cap : PInv (init_cont k cap) (init_cont k cap) 0 0.
Proof. destruct k; constructor; cbn; constructor. Qed.

Lemma Forall_lt_mono {A} (f : A -> nat) a b l : (a <= b)%nat -> Forall (fun x => (f x < a)%nat) l -> Forall (fun x => (f x < b)%nat) l.
Proof. intros Hab H. eapply Forall_impl; [|exact H]. cbn. intros. lia. Qed.

Lemma PInv_ins_eff k key val c o ser nid c' ser' nid' ev :
  PInv c o ser nid -> InsEff k key val c ser nid c' ser' nid' ev ->
  PInv c' o ser' nid' /\ (ser <= ser')%nat /\ (nid <= nid')%nat.
Proof.
  intros [H1 H2 H3 H4] E.
  destruct E
    as (_ & _ & [(-> & -> & Ep & Hel)|(-> & nd & l1 & l2 & ser1 & ev1 & ev2 & E1 & E2 & E3 & Hle & Ea & _)]).
  - split; [|lia].
    assert (H : ids (elems c') = ids (elems c) /\ slots (elems c') = slots (elems c)).
    { destruct Hel as [->|(_ & l1 & x & l2 & F1 & F2 & _)]; auto.
      rewrite F1, F2. unfold ids, slots. rewrite !map_app. cbn [map set_val n_id n_slot]. auto. }
    destruct H as [Hi Hsl]. constructor; unfold cslots; rewrite ?Hi, ?Hsl, ?Ep; auto.
  - assert (Hids : NoDup (ids (elems c') ++ ids (elems o)) /\
                   Forall (fun i => (i < S nid)%nat) (ids (elems c') ++ ids (elems o))).
    { rewrite E1 in H1, H2. rewrite E2. unfold ids in *. rewrite !map_app in *. cbn [map]. rewrite E3. split.
      - rewrite (NoDup_count_occ Nat.eq_dec) in *. intro x. specialize (H1 x).
        rewrite !count_occ_app in *. cbn [count_occ]. destruct (Nat.eq_dec nid x) as [<-|]; [|lia].
        assert (H : count_occ Nat.eq_dec ((map n_id l1 ++ map n_id l2) ++ map n_id (elems o)) nid = 0)
          by (apply (Forall_cnt0 _ _ _ _ H2); lia).
        rewrite !count_occ_app in H. lia.
      - apply (Forall_lt_mono (fun i => i) nid (S nid)) in H2; [|lia].
        rewrite Forall_forall in *. intros x Hx.
        assert (Hc : nid = x \/ In x ((map n_id l1 ++ map n_id l2) ++ map n_id (elems o))) by in_solve.
        destruct Hc as [<-|Hc]; [lia|apply H2; exact Hc]. }
    destruct Hids as [Hi1 Hi2].
    apply alloc_effect in Ea.
    destruct Ea as [(Ef & _ & -> & _)|(Ef & Hnd & Hfst & _ & -> & _)].
    + split; [|lia]. constructor; auto.
      * rewrite (NoDup_count_occ sdec) in *. intro x. specialize (H3 x). unfold cslots, slots in *.
        rewrite Ef, E1 in H3. rewrite E2. rewrite !map_app, !count_occ_app in *. cbn [map count_occ app] in *.
        rewrite ?count_occ_app in H3. destruct (sdec (n_slot nd) x); lia.
      * apply (Forall_lt_mono fst ser ser1) in H4; [|lia]. unfold cslots, slots in *.
        rewrite Ef, E1 in H4. rewrite E2. rewrite !map_app in *. cbn [map] in *.
        rewrite Forall_forall in *. intros x Hx. apply H4. in_solve.
    + split; [|lia]. constructor; auto.
      * rewrite (NoDup_count_occ sdec) in *. intro x. specialize (H3 x). specialize (Hnd x). unfold cslots, slots in *.
        rewrite Ef, E1 in H3. rewrite E2. rewrite !map_app, !count_occ_app in *. cbn [map count_occ app] in *.
        destruct (in_dec sdec x (n_slot nd :: p_free (c_pool c'))) as [Hin|Hin].
        -- assert (H0 : count_occ sdec (cslots c ++ cslots o) x = 0).
           { apply (Forall_cnt0 _ _ _ _ H4). rewrite (Hfst x Hin). lia. }
           unfold cslots, slots in H0. rewrite Ef, E1 in H0. rewrite !map_app, !count_occ_app in H0. cbn [app count_occ] in H0.
           rewrite ?count_occ_app in H0.
           destruct (sdec (n_slot nd) x); lia.
        -- apply (count_occ_not_In sdec) in Hin. cbn [count_occ] in Hin. destruct (sdec (n_slot nd) x); lia.
      * apply (Forall_lt_mono fst ser (S ser1)) in H4; [|lia]. unfold cslots, slots in *.
        rewrite Ef, E1 in H4. rewrite E2. rewrite !map_app in *. cbn [map app] in *.
        rewrite Forall_forall in *. intros x Hx.
        assert (Hc : In x (n_slot nd :: p_free (c_pool c')) \/
                     In x ((map n_slot l1 ++ map n_slot l2) ++ p_free (c_pool o) ++ map n_slot (elems o))) by in_solve.
        destruct Hc as [Hc|Hc]; [rewrite (Hfst x Hc); lia|apply H4; exact Hc].
Qed.

Lemma PInv_insert k pos key val c o ser nid c' ser' nid' ev :
  shape k c -> PInv c o ser nid -> c_insert k pos key val c ser nid = (c', ser', nid', ev) ->
  PInv c' o ser' nid' /\ (ser <= ser')%nat /\ (nid <= nid')%nat.
Proof. intros Hs Hp E. eapply PInv_ins_eff; eauto. eapply c_insert_eff; eauto. Qed.

Lemma PInv_remove k pos c o ser nid c' ev :
  shape k c -> PInv c o ser nid -> c_remove_at pos c = (c', ev) -> PInv c' o ser nid.
Proof.
  intros Hs [H1 H2 H3 H4] E.
  destruct (c_remove_at_effect _ _ _ _ _ Hs E) as (_ & [(-> & _)|(nd & l1 & l2 & E1 & E2 & Ep & _)]).
  - constructor; auto.
  - constructor.
    + rewrite (NoDup_count_occ Nat.eq_dec) in *. intro x. specialize (H1 x). rewrite E1 in H1. rewrite E2.
      unfold ids in *. rewrite !map_app, !count_occ_app in *. cbn [map count_occ] in H1.
      destruct (Nat.eq_dec (n_id nd) x); lia.
    + rewrite E1 in H2. rewrite E2. unfold ids in *. rewrite !map_app in *. cbn [map] in H2.
      rewrite Forall_forall in *. intros x Hx. apply H2. in_solve.
    + rewrite (NoDup_count_occ sdec) in *. intro x. specialize (H3 x). unfold cslots, slots in *.
      rewrite E1 in H3. rewrite E2, Ep. cbn [release p_free]. rewrite !map_app, !count_occ_app in *.
      cbn [map count_occ] in *. rewrite ?count_occ_app. destruct (sdec (n_slot nd) x); lia.
    + unfold cslots, slots in *. rewrite E1 in H4. rewrite E2, Ep. cbn [release p_free].
      rewrite !map_app in *. cbn [map] in H4.
      rewrite Forall_forall in *. intros x Hx. apply H4. in_solve.
Qed.

Lemma PInv_clear k c o ser nid c' ev :
  shape k c -> PInv c o ser nid -> c_clear c = (c', ev) -> PInv c' o ser nid.
Proof.
  intros Hs [H1 H2 H3 H4] E.
  destruct (c_clear_effect _ _ _ _ Hs E) as (_ & E1 & _ & Ef & _).
  constructor.
  - rewrite (NoDup_count_occ Nat.eq_dec) in *. intro x. specialize (H1 x). rewrite E1.
    rewrite !count_occ_app in *. cbn. lia.
  - rewrite E1. rewrite Forall_forall in *. intros x Hx. apply H2. cbn [ids map app] in Hx. in_solve.
  - rewrite (NoDup_count_occ sdec) in *. intro x. specialize (H3 x). unfold cslots in *. rewrite E1, Ef.
    rewrite !count_occ_app in *. rewrite count_occ_rev. cbn. lia.
  - unfold cslots in *. rewrite E1, Ef. rewrite Forall_forall in *. intros x Hx. apply H4.
    cbn [slots map] in Hx. rewrite app_nil_r in Hx. rewrite !in_app_iff in Hx. rewrite <- in_rev in Hx. in_solve.
Qed.

Lemma elems_init k cap : elems (init_cont k cap) = [].
Proof. destruct k; reflexivity. Qed.

Lemma PInv_destroy k cap c o ser nid : PInv c o ser nid -> PInv (init_cont k cap) o ser nid.
Proof.
  intros [H1 H2 H3 H4]. constructor; unfold cslots in *; rewrite ?elems_init; cbn [init_cont c_pool pool_empty p_free ids slots map app].
  - rewrite (NoDup_count_occ Nat.eq_dec) in *. intro x. specialize (H1 x). rewrite !count_occ_app in *. lia.
  - rewrite !Forall_app in *. tauto.
  - rewrite (NoDup_count_occ sdec) in *. intro x. specialize (H3 x). rewrite !count_occ_app in *. lia.
  - rewrite !Forall_app in *. tauto.
Qed.

(* ---- what one micro-operation does to the elements ------------------------------------------------ *)
Definition survives (A : Z -> bool) (n n' : node) : Prop :=
  n_id n = n_id n' /\ n_slot n = n_slot n' /\ n_key n = n_key n' /\ (n_val n = n_val n' \/ A (n_key n) = true).

(* every element after the operation is either born in it (fresh identity, birth event at its
   place) or is an element from before: same identity, same place, same key, same payload unless
   the operation assigns to that key *)
Definition node_step (k : kind) (A : Z -> bool) (nid : nat) (ev : list event) (l l' : list node) : Prop :=
  forall n', In n' l' ->
    ((nid <= n_id n')%nat /\ In (birth k (n_id n') (n_slot n')) ev) \/ (exists n, In n l /\ survives A n n').

Lemma survives_refl A n : survives A n n.
Proof. unfold survives. auto. Qed.

Lemma node_step_same k A nid ev l : node_step k A nid ev l l.
Proof. intros n' H. right. exists n'. split; auto. apply survives_refl. Qed.

Lemma node_step_nil k A nid ev l : node_step k A nid ev l [].
Proof. intros n' []. Qed.

Definition key_assign (k : kind) (key : Z) : Z -> bool := fun x => assigns k && (x =? key)%Z.

Lemma node_step_ins_eff k key val c ser nid c' ser' nid' ev :
  InsEff k key val c ser nid c' ser' nid' ev ->
  node_step k (key_assign k key) nid ev (elems c) (elems c').
Proof.
  intros E.
  destruct E
    as (_ & _ & [(-> & -> & Ep & Hel)|(-> & nd & l1 & l2 & ser1 & ev1 & ev2 & E1 & E2 & E3 & Hle & Ea & Eev)]).
  - destruct Hel as [->|(Has & l1 & x & l2 & F1 & F2 & F3)]; [apply node_step_same|].
    rewrite F1, F2. intros n' Hn. right. apply in_app_or in Hn. destruct Hn as [Hn|[<-|Hn]].
    + exists n'. split; [apply in_or_app; auto|apply survives_refl].
    + exists x. split; [apply in_or_app; cbn; auto|]. unfold survives, key_assign. cbn [set_val n_id n_slot n_key n_val].
      repeat split; auto. right. rewrite Has, F3, Z.eqb_refl. reflexivity.
    + exists n'. split; [apply in_or_app; cbn; auto|apply survives_refl].
  - rewrite E1, E2. intros n' Hn. apply in_app_or in Hn. destruct Hn as [Hn|[<-|Hn]].
    + right. exists n'. split; [apply in_or_app; auto|apply survives_refl].
    + left. rewrite E3. split; [lia|]. rewrite Eev. apply in_or_app. right. apply in_or_app. right. cbn. auto.
    + right. exists n'. split; [apply in_or_app; auto|apply survives_refl].
Qed.

Lemma node_step_insert k pos key val c ser nid c' ser' nid' ev :
  shape k c -> c_insert k pos key val c ser nid = (c', ser', nid', ev) ->
  node_step k (key_assign k key) nid ev (elems c) (elems c').
Proof. intros Hs E. eapply node_step_ins_eff. eapply c_insert_eff; eauto. Qed.

Lemma node_step_remove k A pos c c' ev nid :
  shape k c -> c_remove_at pos c = (c', ev) -> node_step k A nid ev (elems c) (elems c').
Proof.
  intros Hs E. destruct (c_remove_at_effect _ _ _ _ _ Hs E) as (_ & [(-> & _)|(nd & l1 & l2 & E1 & E2 & _)]).
  - apply node_step_same.
  - rewrite E1, E2. intros n' Hn. right. exists n'. split; [|apply survives_refl].
    apply in_app_or in Hn. apply in_or_app. cbn. tauto.
Qed.

(* ---- destructor events name live elements at their places ------------------------------------------ *)
Definition des_ok (l : list node) (e : event) : Prop :=
  match e with
  | EDestroy id s => exists n, In n l /\ n_id n = id /\ n_slot n = s
  | _ => True
  end.

Lemma des_ok_ins k l e : ins_ev_ok k e -> des_ok l e.
Proof. destruct e; cbn; auto; intros []. Qed.

Lemma des_ok_destroy_events l : Forall (des_ok l) (destroy_events l).
Proof.
  unfold destroy_events. apply Forall_forall. intros e He. apply in_map_iff in He. destruct He as (n & <- & Hn).
  cbn. exists n. auto.
Qed.

Definition pool_ok (e : event) : Prop := match e with ECopy _ _ | EMove _ _ | EAssign _ => False | _ => True end.
Definition not_free (e : event) : Prop := match e with EFree _ => False | _ => True end.

Lemma ins_ev_pool k e : is_pool k = true -> ins_ev_ok k e -> pool_ok e.
Proof. intros Hp. destruct e; cbn; auto; rewrite Hp; discriminate. Qed.
Lemma ins_ev_not_free k e : ins_ev_ok k e -> not_free e.
Proof. destruct e; cbn; auto. Qed.
Lemma destroy_events_pool l : Forall pool_ok (destroy_events l).
Proof. unfold destroy_events. apply Forall_forall. intros e He. apply in_map_iff in He. destruct He as (n & <- & _). exact I. Qed.
Lemma destroy_events_not_free l : Forall not_free (destroy_events l).
Proof. unfold destroy_events. apply Forall_forall. intros e He. apply in_map_iff in He. destruct He as (n & <- & _). exact I. Qed.

Lemma node_step_ext k A B nid ev l l' :
  (forall x, A x = true -> B x = true) -> node_step k A nid ev l l' -> node_step k B nid ev l l'.
Proof.
  intros HAB H n' Hn. destruct (H n' Hn) as [Hl|(n & Hin & (F1 & F2 & F3 & F4))]; [left; exact Hl|].
  right. exists n. split; auto. unfold survives. repeat split; auto. destruct F4; auto.
Qed.

(* ---- runs of insertions (operator= after its clear, the whole-container insertions) -------------------- *)
Definition any_assign (k : kind) : Z -> bool := fun _ => assigns k.

Lemma survives_trans A n0 n n' : survives A n0 n -> survives A n n' -> survives A n0 n'.
Proof.
  intros (F1 & F2 & F3 & F4) (G1 & G2 & G3 & G4). unfold survives. repeat split; try congruence.
  destruct F4 as [F4|F4]; [|right; exact F4]. destruct G4 as [G4|G4]; [left; congruence|right; rewrite F3; exact G4].
Qed.

Lemma node_step_trans k A nid0 nid ev ev2 l0 l l' :
  (nid0 <= nid)%nat -> node_step k A nid0 ev l0 l -> node_step k A nid ev2 l l' -> node_step k A nid0 (ev ++ ev2) l0 l'.
Proof.
  intros Hle H1 H2 n' Hn'. destruct (H2 n' Hn') as [(G1 & G2)|(n & Hn & Hs)].
  - left. split; [lia|]. apply in_or_app. auto.
  - destruct (H1 n Hn) as [(G1 & G2)|(n0 & Hn0 & Hs0)].
    + left. destruct Hs as (F1 & F2 & _). rewrite <- F1, <- F2. split; auto. apply in_or_app. auto.
    + right. exists n0. split; auto. eapply survives_trans; eauto.
Qed.

Lemma node_step_from_nil k A nid ev l l' : node_step k A nid ev [] l' -> node_step k A nid ev l l'.
Proof. intros H n' Hn'. destruct (H n' Hn') as [G|(n & [] & _)]. left. exact G. Qed.

Lemma kept_ins_eff k key val c ser nid c' ser' nid' ev :
  InsEff k key val c ser nid c' ser' nid' ev ->
  forall p, In p (elems c) -> exists n, In n (elems c') /\ n_id n = n_id p.
Proof.
  intros E.
  destruct E
    as (_ & _ & [(_ & _ & _ & Hel)|(_ & nd & l1 & l2 & ser1 & ev1 & ev2 & E1 & E2 & _)]).
  - destruct Hel as [->|(_ & l1 & x & l2 & F1 & F2 & _)]; [intros p Hp; exists p; auto|].
    rewrite F1, F2. intros p Hp. apply in_app_or in Hp. destruct Hp as [Hp|[<-|Hp]].
    + exists p. split; auto. apply in_or_app. auto.
    + exists (set_val x val). split; [apply in_or_app; cbn; auto|reflexivity].
    + exists p. split; auto. apply in_or_app. cbn. auto.
  - rewrite E1, E2. intros p Hp. exists p. split; auto.
    apply in_app_or in Hp. apply in_or_app. cbn. tauto.
Qed.

Lemma kept_insert k pos key val c ser nid c' ser' nid' ev :
  shape k c -> c_insert k pos key val c ser nid = (c', ser', nid', ev) ->
  forall p, In p (elems c) -> exists n, In n (elems c') /\ n_id n = n_id p.
Proof. intros Hs E. eapply kept_ins_eff. eapply c_insert_eff; eauto. Qed.

Lemma ins_fold_facts k o off src : forall c ser nid ev c' ser' nid' ev' l0 nid0,
  shape k c -> PInv c o ser nid -> (nid0 <= nid)%nat ->
  node_step k (any_assign k) nid0 ev l0 (elems c) ->
  (forall p, In p l0 -> exists n, In n (elems c) /\ n_id n = n_id p) ->
  fold_left (ins_fold k off) src (c, ser, nid, ev) = (c', ser', nid', ev') ->
  shape k c' /\ PInv c' o ser' nid' /\ (ser <= ser')%nat /\ (nid <= nid')%nat /\
  node_step k (any_assign k) nid0 ev' l0 (elems c') /\
  (forall p, In p l0 -> exists n, In n (elems c') /\ n_id n = n_id p) /\
  exists ev2, ev' = ev ++ ev2 /\ Forall (ins_ev_ok k) ev2.
Proof.
  induction src as [|e src IH]; intros c ser nid ev c' ser' nid' ev' l0 nid0 Hs Hp Hn0 Hb Hk E; cbn [fold_left] in E.
  - injection E as <- <- <- <-. split; [auto|]. split; [auto|]. split; [lia|]. split; [lia|]. split; [exact Hb|]. split; [exact Hk|].
    exists []. rewrite app_nil_r. auto.
  - unfold ins_fold at 2 in E.
    destruct (c_insert k (ins_pos off c) (n_key e) (n_val e) c ser nid) as [[[c2 ser2] nid2] ev2] eqn:Ei.
    destruct (PInv_insert _ _ _ _ _ _ _ _ _ _ _ _ Hs Hp Ei) as (Hp2 & Hser & Hnid).
    destruct (c_insert_effect _ _ _ _ _ _ _ _ _ _ _ Hs Ei) as (Hs2 & Hev2 & _).
    pose proof (node_step_insert _ _ _ _ _ _ _ _ _ _ _ Hs Ei) as Hns.
    assert (Hb2 : node_step k (any_assign k) nid0 (ev ++ ev2) l0 (elems c2)).
    { eapply node_step_trans; [exact Hn0|exact Hb|]. eapply node_step_ext; [|exact Hns].
      intros x Hx. unfold key_assign in Hx. unfold any_assign. apply andb_true_iff in Hx. tauto. }
    assert (Hk2 : forall p, In p l0 -> exists n, In n (elems c2) /\ n_id n = n_id p).
    { intros p Hp0. destruct (Hk p Hp0) as (n & Hn & En). destruct (kept_insert _ _ _ _ _ _ _ _ _ _ _ Hs Ei n Hn) as (n2 & Hn2 & En2).
      exists n2. split; auto. congruence. }
    destruct (IH _ _ _ _ _ _ _ _ l0 nid0 Hs2 Hp2 ltac:(lia) Hb2 Hk2 E) as (K1 & K2 & K3 & K4 & K5 & K5' & (ev3 & K6 & K7)).
    split; [auto|]. split; [auto|]. split; [lia|]. split; [lia|]. split; [exact K5|]. split; [exact K5'|].
    exists (ev2 ++ ev3). rewrite K6, app_assoc. split; auto. apply Forall_app. auto.
Qed.

(* ---- runs of removals by key (HashSet::remove(const HashSet&)) ---------------------------------------------- *)
Lemma rem_fold_facts k o src : forall c ser nid ev c' ev' l0,
  shape k c -> PInv c o ser nid -> incl (elems c) l0 -> Forall (des_ok l0) ev -> Forall pool_ok ev -> Forall not_free ev ->
  fold_left (rem_fold k) src (c, ev) = (c', ev') ->
  shape k c' /\ PInv c' o ser nid /\ incl (elems c') l0 /\ Forall (des_ok l0) ev' /\ Forall pool_ok ev' /\ Forall not_free ev' /\
  (has_remall k = true -> forall m, In m (elems c) -> In m (elems c') \/ exists e, In e src /\ n_key e = n_key m).
Proof.
  induction src as [|e src IH]; intros c ser nid ev c' ev' l0 Hs Hp Hi Hd Hpo Hf E; cbn [fold_left] in E.
  - injection E as <- <-. auto 10.
  - unfold rem_fold at 2 in E. destruct (find_pos k (n_key e) c) as [i|] eqn:Efp.
    2:{ destruct (IH _ _ _ _ _ _ _ Hs Hp Hi Hd Hpo Hf E) as (K1 & K2 & K3 & K4 & K5 & K6 & K7).
        repeat (split; [assumption|]). intros Hr m Hm. destruct (K7 Hr m Hm) as [G|(e0 & He0 & Ek)]; [auto|right; exists e0; cbn; auto]. }
    destruct (c_remove_at i c) as [c2 ev2] eqn:Er.
    assert (Hkey : has_remall k = true -> forall m, In m (elems c) -> In m (elems c2) \/ n_key e = n_key m).
    { intros Hr m Hm. destruct k; try discriminate Hr. unfold find_pos, shape, elems in *.
      destruct (c_body c) as [l|t|l hd] eqn:Eb; try (destruct Hs; discriminate). cbn [elems_of] in *.
      destruct (h_find_some _ _ _ _ Efp) as (x & Hx & Hkx).
      unfold c_remove_at in Er. unfold elems in Er. rewrite Eb in Er. cbn [elems_of] in Er. rewrite Hx in Er. injection Er as <- _.
      cbn [c_body elems_of]. destruct (remove_at_split i x l Hx) as (l1 & l2 & E1 & E2 & _). rewrite E2. rewrite E1 in Hm.
      apply in_app_or in Hm. destruct Hm as [Hm|[<-|Hm]]; [left; apply in_or_app; auto|right; symmetry; exact Hkx|left; apply in_or_app; auto]. }
    pose proof (PInv_remove _ _ _ _ _ _ _ _ Hs Hp Er) as Hp2.
    destruct (c_remove_at_effect _ _ _ _ _ Hs Er) as (Hs2 & Hev).
    assert (G : incl (elems c2) (elems c) /\ (ev2 = [] \/ exists nd, In nd (elems c) /\ ev2 = [EDestroy (n_id nd) (n_slot nd)])).
    { destruct Hev as [(-> & ->)|(nd & l1 & l2 & E1 & E2 & _ & ->)]; [split; [apply incl_refl|auto]|].
      rewrite E1, E2. split; [intros x Hx; apply in_app_or in Hx; apply in_or_app; cbn; tauto|].
      right. exists nd. split; auto. apply in_or_app. cbn. auto. }
    destruct G as (Hi2 & Hev2).
    assert (IHa : shape k c' /\ PInv c' o ser nid /\ incl (elems c') l0 /\ Forall (des_ok l0) ev' /\ Forall pool_ok ev' /\ Forall not_free ev' /\
                  (has_remall k = true -> forall m, In m (elems c2) -> In m (elems c') \/ exists e0, In e0 src /\ n_key e0 = n_key m)).
    { eapply (IH c2 ser nid (ev ++ ev2)); eauto.
      + eapply incl_tran; eauto.
      + apply Forall_app. split; auto. destruct Hev2 as [->|(nd & Hnd & ->)]; repeat constructor. cbn. exists nd. auto.
      + apply Forall_app. split; auto. destruct Hev2 as [->|(nd & Hnd & ->)]; repeat constructor.
      + apply Forall_app. split; auto. destruct Hev2 as [->|(nd & Hnd & ->)]; repeat constructor. }
    destruct IHa as (K1 & K2 & K3 & K4 & K5 & K6 & K7). repeat (split; [assumption|]).
    intros Hr m Hm. destruct (Hkey Hr m Hm) as [Hm2|Ek]; [|right; exists e; cbn; auto].
    destruct (K7 Hr m Hm2) as [G|(e0 & He0 & Ek)]; [auto|right; exists e0; cbn; auto].
Qed.

(* ---- elements only disappear through removals -------------------------------------------------------- *)
Lemma missing_none l l' : (forall p, In p l -> exists n, In n l' /\ n_id n = n_id p) -> missing l l' = [].
Proof.
  intros H. unfold missing. induction l as [|x l IH]; cbn [filter]; auto.
  destruct (H x ltac:(cbn; auto)) as (n & Hn & E).
  assert (Hx : existsb (fun n0 => (n_id n0 =? n_id x)%nat) l' = true).
  { apply existsb_exists. exists n. split; auto. apply Nat.eqb_eq. exact E. }
  rewrite Hx. cbn [negb]. apply IH. intros p Hp. apply H. cbn. auto.
Qed.

Lemma missing_refl l : missing l l = [].
Proof. apply missing_none. intros p Hp. exists p. auto. Qed.

Lemma missing_app l1 l2 l' : missing (l1 ++ l2) l' = missing l1 l' ++ missing l2 l'.
Proof. unfold missing. apply filter_app. Qed.

Lemma missing_remove_one l1 nd l2 : (length (missing (l1 ++ nd :: l2) (l1 ++ l2)) <= 1)%nat.
Proof.
  rewrite missing_app. change (nd :: l2) with ([nd] ++ l2). rewrite missing_app.
  rewrite (missing_none l1), (missing_none l2).
  - cbn [app]. rewrite app_nil_r. unfold missing. cbn [filter]. destruct (negb _); cbn; lia.
  - intros p Hp. exists p. split; auto. apply in_or_app. auto.
  - intros p Hp. exists p. split; auto. apply in_or_app. auto.
Qed.

Lemma lost_insert k pos key val c ser nid c' ser' nid' ev :
  shape k c -> c_insert k pos key val c ser nid = (c', ser', nid', ev) -> missing (elems c) (elems c') = [].
Proof. intros Hs E. apply missing_none. eapply kept_insert; eauto. Qed.

Lemma lost_remove k pos c c' ev :
  shape k c -> c_remove_at pos c = (c', ev) -> (length (missing (elems c) (elems c')) <= 1)%nat.
Proof.
  intros Hs E. destruct (c_remove_at_effect _ _ _ _ _ Hs E) as (_ & [(-> & _)|(nd & l1 & l2 & E1 & E2 & _)]).
  - rewrite missing_refl. cbn. lia.
  - rewrite E1, E2. apply missing_remove_one.
Qed.

(* ---- states ------------------------------------------------------------------------------------------ *)
Definition all_elems (st : state) : list node := elems (s_a st) ++ elems (s_b st).

Record Inv (k : kind) (st : state) : Prop := mkInv {
  inv_p : PInv (s_a st) (s_b st) (s_ser st) (s_nid st);
  inv_sa : shape k (s_a st);
  inv_sb : shape k (s_b st) }.

Lemma Inv_init k cap : Inv k (init k cap).
Proof. constructor; cbn [init s_a s_b s_ser s_nid]; [apply PInv_init|apply shape_init|apply shape_init]. Qed.

Lemma Inv_sel k st : Inv k st -> PInv (sel st) (other st) (s_ser st) (s_nid st) /\ shape k (sel st) /\ shape k (other st).
Proof. intros [H1 H2 H3]. unfold sel, other. destruct (s_cur st); auto. split; auto. apply PInv_sym. exact H1. Qed.

Lemma set_sel_facts st c ser nid :
  sel (set_sel st c ser nid) = c /\ other (set_sel st c ser nid) = other st /\
  s_cur (set_sel st c ser nid) = s_cur st /\ s_ser (set_sel st c ser nid) = ser /\ s_nid (set_sel st c ser nid) = nid.
Proof. unfold set_sel, sel, other. destruct (s_cur st) eqn:E; cbn; rewrite ?E; auto. Qed.

Lemma Inv_set_sel k st c ser nid :
  PInv c (other st) ser nid -> shape k c -> shape k (other st) -> Inv k (set_sel st c ser nid).
Proof.
  intros H1 H2 H3. unfold set_sel, other in *. destruct (s_cur st); constructor; cbn; auto. apply PInv_sym. exact H1.
Qed.

Lemma PInv_mono c o ser nid ser' nid' : PInv c o ser nid -> (ser <= ser')%nat -> (nid <= nid')%nat -> PInv c o ser' nid'.
Proof.
  intros [H1 H2 H3 H4] Hs Hn. constructor; auto.
  - apply (Forall_lt_mono (fun i => i) nid nid'); auto.
  - apply (Forall_lt_mono fst ser ser'); auto.
Qed.

Definition cont_op (o : op) : bool := match o with OSel _ | OSwap => false | _ => true end.

(* the facts about one step *)
Record StepFacts (k : kind) (st : state) (o : op) (st' : state) (ev : list event) : Prop := mkFacts {
  sf_inv : Inv k st';
  sf_ser : (s_ser st <= s_ser st')%nat;
  sf_nid : (s_nid st <= s_nid st')%nat;
  sf_des : Forall (des_ok (elems (sel st))) ev;
  sf_pool : is_pool k = true -> Forall pool_ok ev;
  sf_free : o <> ODestroy -> Forall not_free ev;
  sf_cur : cont_op o = true -> s_cur st' = s_cur st;
  sf_other : cont_op o = true -> other st' = other st;
  sf_nodes : cont_op o = true -> node_step k (may_assign k o) (s_nid st) ev (elems (sel st)) (elems (sel st'));
  sf_lost : cont_op o = true -> removed_ok k o (elems (sel st)) (elems (other st)) (elems (sel st')) = true }.

Lemma facts_set_sel k st o c' ser' nid' ev :
  Inv k st -> 
  PInv c' (other st) ser' nid' -> shape k c' -> (s_ser st <= ser')%nat -> (s_nid st <= nid')%nat ->
  Forall (des_ok (elems (sel st))) ev -> (is_pool k = true -> Forall pool_ok ev) -> (o <> ODestroy -> Forall not_free ev) ->
  node_step k (may_assign k o) (s_nid st) ev (elems (sel st)) (elems c') ->
  removed_ok k o (elems (sel st)) (elems (other st)) (elems c') = true ->
  StepFacts k st o (set_sel st c' ser' nid') ev.
Proof.
  intros HI Hp Hs Hser Hnid Hd Hpool Hfree Hns Hlost.
  destruct (set_sel_facts st c' ser' nid') as (F1 & F2 & F3 & F4 & F5).
  destruct (Inv_sel _ _ HI) as (_ & _ & Hso).
  constructor; rewrite ?F1, ?F2, ?F3, ?F4, ?F5; auto.
  apply Inv_set_sel; auto.
Qed.

Lemma facts_noop k st o : Inv k st -> StepFacts k st o st [].
Proof.
  intros HI. constructor; auto.
  - intros _. apply node_step_same.
  - intros _. unfold removed_ok. rewrite missing_refl. destruct (removal_budget o); [reflexivity|destruct o; reflexivity].
Qed.

Lemma facts_ins_eff k st o key val c' ser' nid' ev :
  Inv k st -> (forall x, may_assign k o x = key_assign k key x) -> removal_budget o = Some O ->
  InsEff k key val (sel st) (s_ser st) (s_nid st) c' ser' nid' ev ->
  StepFacts k st o (set_sel st c' ser' nid') ev.
Proof.
  intros HI HA Hb E. destruct (Inv_sel _ _ HI) as (Hp & Hs & Hso).
  destruct (PInv_ins_eff _ _ _ _ _ _ _ _ _ _ _ Hp E) as (Hp' & Hser & Hnid).
  pose proof E as (Hs' & Hev & _).
  apply facts_set_sel; auto.
  - eapply Forall_impl; [|exact Hev]. intros e. apply des_ok_ins.
  - intros Hpool. eapply Forall_impl; [|exact Hev]. intros e. apply ins_ev_pool. exact Hpool.
  - intros _. eapply Forall_impl; [|exact Hev]. intros e. apply ins_ev_not_free.
  - eapply node_step_ext; [|eapply node_step_ins_eff; eauto]. intros x Hx. rewrite HA. exact Hx.
  - unfold removed_ok. rewrite Hb, (missing_none _ _ (kept_ins_eff _ _ _ _ _ _ _ _ _ _ E)). reflexivity.
Qed.

Lemma facts_insert k st o pos key val c' ser' nid' ev :
  Inv k st -> (forall x, may_assign k o x = key_assign k key x) -> removal_budget o = Some O ->
  c_insert k pos key val (sel st) (s_ser st) (s_nid st) = (c', ser', nid', ev) ->
  StepFacts k st o (set_sel st c' ser' nid') ev.
Proof.
  intros HI HA Hb E. eapply facts_ins_eff; eauto. eapply c_insert_eff; eauto. apply (Inv_sel _ _ HI).
Qed.

Lemma c_remove_at_elems pos c c' ev nd :
  nth_error (elems c) pos = Some nd -> c_remove_at pos c = (c', ev) -> elems c' = remove_at pos (elems c).
Proof.
  intros En E. unfold c_remove_at in E. rewrite En in E. injection E as <- _. unfold elems. cbn [c_body].
  destruct (c_body c) as [l|t|l hd]; cbn [elems_of]; auto. apply remove_rank_inorder.
Qed.

Lemma missing_mid_sub l1 nd l2 m : In m (missing (l1 ++ nd :: l2) (l1 ++ l2)) -> m = nd.
Proof.
  rewrite missing_app. change (nd :: l2) with ([nd] ++ l2). rewrite missing_app.
  rewrite (missing_none l1), (missing_none l2).
  - cbn [app]. rewrite app_nil_r. unfold missing. cbn [filter]. destruct (negb _); cbn; intuition.
  - intros p Hp. exists p. split; auto. apply in_or_app. auto.
  - intros p Hp. exists p. split; auto. apply in_or_app. auto.
Qed.

Lemma facts_remove k st o pos c' ev :
  Inv k st -> o <> ODestroy -> removal_budget o = Some 1%nat ->
  (forall nd, nth_error (elems (sel st)) pos = Some nd -> takes k o (elems (sel st)) nd = true) ->
  c_remove_at pos (sel st) = (c', ev) ->
  StepFacts k st o (set_sel st c' (s_ser st) (s_nid st)) ev.
Proof.
  intros HI Hno Hb Htk E. destruct (Inv_sel _ _ HI) as (Hp & Hs & Hso).
  pose proof (PInv_remove _ _ _ _ _ _ _ _ Hs Hp E) as Hp'.
  destruct (c_remove_at_effect _ _ _ _ _ Hs E) as (Hs' & Hev).
  assert (Hev' : ev = [] \/ exists nd, In nd (elems (sel st)) /\ ev = [EDestroy (n_id nd) (n_slot nd)]).
  { destruct Hev as [(_ & ->)|(nd & l1 & l2 & E1 & _ & _ & ->)]; auto. right. exists nd. split; auto.
    rewrite E1. apply in_or_app. cbn. auto. }
  apply facts_set_sel; auto.
  - destruct Hev' as [->|(nd & Hin & ->)]; repeat constructor. cbn. exists nd. auto.
  - intros _. destruct Hev' as [->|(nd & Hin & ->)]; repeat constructor.
  - intros _. destruct Hev' as [->|(nd & Hin & ->)]; repeat constructor.
  - eapply node_step_remove; eauto.
  - unfold removed_ok. rewrite Hb. apply andb_true_iff. split; [apply Nat.leb_le; eapply lost_remove; eauto|].
    destruct (nth_error (elems (sel st)) pos) as [nd|] eqn:En.
    + rewrite (c_remove_at_elems _ _ _ _ _ En E). destruct (remove_at_split pos nd _ En) as (l1 & l2 & E1 & E2 & _).
      rewrite E2. apply forallb_forall. intros m Hm. rewrite E1 in Hm at 1. apply missing_mid_sub in Hm. subst m. apply Htk. reflexivity.
    + unfold c_remove_at in E. rewrite En in E. injection E as <- _. rewrite missing_refl. reflexivity.
Qed.

Lemma c_assign_eq k src c ser nid :
  c_assign k src c ser nid = let '(c0, ev0) := c_clear c in fold_left (ins_fold k None) src (c0, ser, nid, ev0).
Proof. reflexivity. Qed.

Lemma may_assign_insert k key v x :
  may_assign k (OApp key v) x = key_assign k key x /\ may_assign k (OPre key v) x = key_assign k key x /\
  (forall p, may_assign k (OInsAt p key v) x = key_assign k key x) /\
  (forall p, may_assign k (OHint p key v) x = key_assign k key x).
Proof. unfold key_assign. destruct k; cbn; auto. Qed.

Theorem step_facts k cap st o st' ev :
  Inv k st -> step k cap st o = (st', ev) -> StepFacts k st o st' ev.
Proof.
  intros HI E. destruct (Inv_sel _ _ HI) as (Hp & Hs & Hso).
  unfold step in E. destruct o as [b|key v|key v|pos key v|pos| | |key| | | | |ipos| |hpos key v].
  - (* sel *) injection E as <- <-. destruct HI as [H1 H2 H3].
    constructor; cbn [s_a s_b s_ser s_nid s_cur cont_op]; try discriminate; auto; try constructor; auto.
  - destruct (c_insert k (length (elems (sel st))) key v (sel st) (s_ser st) (s_nid st)) as [[[c' ser'] nid'] ev'] eqn:Ei.
    injection E as <- <-. eapply facts_insert; eauto. intros x. apply may_assign_insert.
  - destruct (c_insert k 0 key v (sel st) (s_ser st) (s_nid st)) as [[[c' ser'] nid'] ev'] eqn:Ei.
    injection E as <- <-. eapply facts_insert; eauto. intros x. apply may_assign_insert.
  - destruct (c_insert k pos key v (sel st) (s_ser st) (s_nid st)) as [[[c' ser'] nid'] ev'] eqn:Ei.
    injection E as <- <-. eapply facts_insert; eauto. intros x. apply may_assign_insert.
  - destruct (c_remove_at pos (sel st)) as [c' ev'] eqn:Er. injection E as <- <-. eapply facts_remove; eauto; [discriminate|].
    intros nd En. cbn [takes]. rewrite En. apply Nat.eqb_refl.
  - destruct (c_remove_at 0 (sel st)) as [c' ev'] eqn:Er. injection E as <- <-. eapply facts_remove; eauto; [discriminate|].
    intros nd En. cbn [takes]. destruct (elems (sel st)); [discriminate En|]. injection En as ->. apply Nat.eqb_refl.
  - destruct (c_remove_at (length (elems (sel st)) - 1) (sel st)) as [c' ev'] eqn:Er. injection E as <- <-. eapply facts_remove; eauto; [discriminate|].
    intros nd En. cbn [takes]. rewrite En. apply Nat.eqb_refl.
  - destruct (find_pos k key (sel st)) as [i|] eqn:Efp.
    + destruct (c_remove_at i (sel st)) as [c' ev'] eqn:Er. injection E as <- <-. eapply facts_remove; eauto; [discriminate|].
      intros nd En. cbn [takes]. unfold find_pos, shape, elems in *. destruct (c_body (sel st)) as [l|t|l hd]; cbn [elems_of] in En.
      * destruct Hs as [-> | ->]; cbn [is_pool] in Efp; [|discriminate Efp].
        destruct (find_index_nth _ _ _ Efp) as (x & Hx & Hfx). rewrite En in Hx. injection Hx as <-. exact Hfx.
      * destruct (find_rank_some _ _ _ _ Efp) as (x & Hx & Hkx). rewrite En in Hx. injection Hx as <-.
        destruct Hs as [-> | ->]; apply Z.eqb_eq; exact Hkx.
      * destruct (h_find_some _ _ _ _ Efp) as (x & Hx & Hkx). rewrite En in Hx. injection Hx as <-.
        destruct Hs as [-> |[-> | ->]]; apply Z.eqb_eq; exact Hkx.
    + injection E as <- <-. apply facts_noop. exact HI.
  - (* clear *)
    destruct (c_clear (sel st)) as [c' ev'] eqn:Ec. injection E as <- <-.
    pose proof (PInv_clear _ _ _ _ _ _ _ Hs Hp Ec) as Hp'.
    destruct (c_clear_effect _ _ _ _ Hs Ec) as (Hs' & E1 & -> & _).
    apply facts_set_sel; auto.
    + apply des_ok_destroy_events.
    + intros _. apply destroy_events_pool.
    + intros _. apply destroy_events_not_free.
    + rewrite E1. apply node_step_nil.
  - (* swap *)
    destruct (has_swap k).
    + injection E as <- <-. destruct HI as [H1 H2 H3].
      constructor; cbn [s_a s_b s_ser s_nid s_cur cont_op]; try discriminate; auto; try constructor; auto.
      apply PInv_sym. exact H1.
    + injection E as <- <-. constructor; cbn [cont_op]; try discriminate; auto; constructor.
  - (* assign *)
    destruct (has_assign k); [|injection E as <- <-; apply facts_noop; exact HI].
    destruct (c_assign k (elems (other st)) (sel st) (s_ser st) (s_nid st)) as [[[c' ser'] nid'] ev'] eqn:Ea.
    injection E as <- <-. rewrite c_assign_eq in Ea.
    destruct (c_clear (sel st)) as [c0 ev0] eqn:Ec.
    pose proof (PInv_clear _ _ _ _ _ _ _ Hs Hp Ec) as Hp0.
    destruct (c_clear_effect _ _ _ _ Hs Ec) as (Hs0 & E0 & -> & _).
    assert (Hb0 : node_step k (any_assign k) (s_nid st) (destroy_events (elems (sel st))) [] (elems c0)).
    { rewrite E0. apply node_step_nil. }
    destruct (ins_fold_facts k (other st) None (elems (other st)) _ _ _ _ _ _ _ _ [] (s_nid st) Hs0 Hp0 (le_n _) Hb0 ltac:(intros p []) Ea)
      as (K1 & K2 & K3 & K4 & K5 & _ & (ev2 & -> & K7)).
    apply facts_set_sel; auto.
    + apply Forall_app. split; [apply des_ok_destroy_events|]. eapply Forall_impl; [|exact K7]. intros e. apply des_ok_ins.
    + intros Hpool. apply Forall_app. split; [apply destroy_events_pool|].
      eapply Forall_impl; [|exact K7]. intros e. apply ins_ev_pool. exact Hpool.
    + intros _. apply Forall_app. split; [apply destroy_events_not_free|].
      eapply Forall_impl; [|exact K7]. intros e. apply ins_ev_not_free.
    + intros n' Hn'. destruct (K5 n' Hn') as [G|(n & [] & _)]. left. exact G.
  - (* destroy *)
    unfold c_destroy in E. injection E as <- <-.
    apply facts_set_sel; auto.
    + eapply PInv_destroy. exact Hp.
    + apply shape_init.
    + apply Forall_app. split; [destruct (c_body (sel st)) as [?|?|? hd]; try constructor; destruct (h_data hd); repeat constructor|].
      apply Forall_app. split; [apply des_ok_destroy_events|]. apply Forall_forall. intros e He. apply in_map_iff in He.
      destruct He as (x & <- & _). exact I.
    + intros _. apply Forall_app. split; [destruct (c_body (sel st)) as [?|?|? hd]; try constructor; destruct (h_data hd); repeat constructor|].
      apply Forall_app. split; [apply destroy_events_pool|]. apply Forall_forall. intros e He. apply in_map_iff in He.
      destruct He as (x & <- & _). exact I.
    + intros Hne. contradiction.
    + rewrite elems_init. apply node_step_nil.
  - (* insert all the elements of the other container *)
    destruct (has_insall k) eqn:Hia; [|injection E as <- <-; apply facts_noop; exact HI].
    destruct (c_insert_all k ipos (elems (other st)) (sel st) (s_ser st) (s_nid st)) as [[[c' ser'] nid'] ev'] eqn:Ea.
    injection E as <- <-. unfold c_insert_all in Ea.
    destruct (ins_fold_facts k (other st) _ (elems (other st)) _ _ _ _ _ _ _ _ (elems (sel st)) (s_nid st) Hs Hp (le_n _)
                (node_step_same _ _ _ _ _) (fun p Hp0 => ex_intro _ p (conj Hp0 eq_refl)) Ea)
      as (K1 & K2 & K3 & K4 & K5 & K6 & (ev2 & E2 & K7)).
    cbn [app] in E2. subst ev'.
    apply facts_set_sel; auto.
    + eapply Forall_impl; [|exact K7]. intros e. apply des_ok_ins.
    + intros Hpool. eapply Forall_impl; [|exact K7]. intros e. apply ins_ev_pool. exact Hpool.
    + intros _. eapply Forall_impl; [|exact K7]. intros e. apply ins_ev_not_free.
    + eapply node_step_ext; [|exact K5]. intros x Hx. unfold any_assign in Hx.
      destruct k; try discriminate Hia; try discriminate Hx. reflexivity.
    + unfold removed_ok. cbn [removal_budget]. rewrite (missing_none _ _ K6). reflexivity.
  - (* remove every key of the other container *)
    destruct (has_remall k) eqn:Hra; [|injection E as <- <-; apply facts_noop; exact HI].
    destruct (c_remove_all k (elems (other st)) (sel st)) as [c' ev'] eqn:Er. injection E as <- <-. unfold c_remove_all in Er.
    destruct (rem_fold_facts k (other st) _ _ (s_ser st) (s_nid st) [] _ _ (elems (sel st)) Hs Hp (incl_refl _)
                (Forall_nil _) (Forall_nil _) (Forall_nil _) Er) as (K1 & K2 & K3 & K4 & K5 & K6 & K7).
    apply facts_set_sel; auto.
    + intros n' Hn'. right. exists n'. split; [apply K3; exact Hn'|apply survives_refl].
    + unfold removed_ok. cbn [removal_budget]. apply forallb_forall. intros m Hm. unfold missing in Hm. apply filter_In in Hm.
      destruct Hm as (Hm & Hno). destruct (K7 Hra m Hm) as [Hin|(e & He & Ek)].
      * exfalso. apply negb_true_iff in Hno. apply not_true_iff_false in Hno. apply Hno. apply existsb_exists. exists m. split; auto. apply Nat.eqb_refl.
      * unfold key_in. apply existsb_exists. exists e. split; auto. apply Z.eqb_eq. exact Ek.
  - (* insertion with a position hint *)
    destruct (has_hint k) eqn:Hh; [|injection E as <- <-; apply facts_noop; exact HI].
    destruct (c_insert_hint k hpos key v (sel st) (s_ser st) (s_nid st)) as [[[c' ser'] nid'] ev'] eqn:Ei.
    injection E as <- <-. eapply facts_ins_eff; eauto; [intros x; apply may_assign_insert|]. eapply c_insert_hint_eff; eauto.
Qed.
