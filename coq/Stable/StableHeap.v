(* The cell machine: a second, lower-level executable model of List, PoolList, HashMap, HashSet and
   PoolMap in which the operations are the POINTER UPDATES the code performs.  No proofs in this file.

   heap      = a map from slots (allocation serial, index) to cells.  A cell has the fields of an
               Item: the stored object (identity, key, payload) or nothing, prev, next, and for the
               hash containers cell (a pointer to an Item pointer) and nextCell.  A bucket data[b] of the array with
               allocation serial d is the cell (d, b) of which only nextCell is used, so that such a
               pointer is a slot: the address of data[b] or the address of an item's nextCell.
   hdr       = the container object itself: _begin.item, endItem.prev, _size, freeItem (the free
               list is threaded through Item::prev), blocks, capacity, data.
   ptr       = 0, the address of container A's / B's endItem, or the address of an item.

   In this machine a payload CAN be moved: [set_obj] writes the object field of any cell.  That
   the operations below never do so for a live object is a theorem (StableHeapProofs.v), and so is
   that walking the next pointers from _begin yields exactly the node sequence of StableModel.v.

   Loops of the code that only read next (clear, the destructor, operator=, iteration) are written
   as a walk that collects the items first, bounded by _size. *)
From Coq Require Import ZArith List Bool Arith.
From Stable Require Import Gen_Stable StableSpec StableModel.
Import ListNotations.
Local Open Scope Z_scope.

Inductive ptr := PNull | PEnd (side : bool) | PItem (s : slot).

Record obj := mkObj { o_id : nat; o_key : Z; o_val : Z }.
Record cell := mkCell { c_obj : option obj; c_prev : ptr; c_next : ptr; c_cell : slot; c_nextcell : ptr }.
Definition cell0 : cell := mkCell None PNull PNull (O, O) PNull.

(* ---- the heap ---------------------------------------------------------------------------------- *)
Definition heap := list (slot * cell).
Fixpoint hget (H : heap) (s : slot) : cell :=
  match H with
  | [] => cell0
  | (s', c) :: r => if slot_eqb s' s then c else hget r s
  end.
Fixpoint hdel (H : heap) (s : slot) : heap :=
  match H with
  | [] => []
  | (s', c) :: r => if slot_eqb s' s then hdel r s else (s', c) :: hdel r s
  end.
Definition hset (H : heap) (s : slot) (c : cell) : heap := (s, c) :: hdel H s.

Definition set_obj (H : heap) (s : slot) (v : option obj) : heap :=
  let c := hget H s in hset H s (mkCell v (c_prev c) (c_next c) (c_cell c) (c_nextcell c)).
Definition set_prev (H : heap) (s : slot) (v : ptr) : heap :=
  let c := hget H s in hset H s (mkCell (c_obj c) v (c_next c) (c_cell c) (c_nextcell c)).
Definition set_next (H : heap) (s : slot) (v : ptr) : heap :=
  let c := hget H s in hset H s (mkCell (c_obj c) (c_prev c) v (c_cell c) (c_nextcell c)).
Definition set_cell (H : heap) (s : slot) (v : slot) : heap :=
  let c := hget H s in hset H s (mkCell (c_obj c) (c_prev c) (c_next c) v (c_nextcell c)).
Definition set_nextcell (H : heap) (s : slot) (v : ptr) : heap :=
  let c := hget H s in hset H s (mkCell (c_obj c) (c_prev c) (c_next c) (c_cell c) v).

(* ---- the container object ---------------------------------------------------------------------- *)
Record hdr := mkHdr { hd_begin : ptr; hd_last : ptr; hd_size : nat; hd_free : ptr; hd_blocks : list nat;
                      hd_cap : nat; hd_data : option nat }.
Definition hdr_init (side : bool) (cap : nat) : hdr := mkHdr (PEnd side) PNull O PNull [] (norm_cap cap) None.
Definition set_begin (h : hdr) (v : ptr) : hdr := mkHdr v (hd_last h) (hd_size h) (hd_free h) (hd_blocks h) (hd_cap h) (hd_data h).
Definition set_last (h : hdr) (v : ptr) : hdr := mkHdr (hd_begin h) v (hd_size h) (hd_free h) (hd_blocks h) (hd_cap h) (hd_data h).
Definition set_size (h : hdr) (v : nat) : hdr := mkHdr (hd_begin h) (hd_last h) v (hd_free h) (hd_blocks h) (hd_cap h) (hd_data h).
Definition set_free (h : hdr) (v : ptr) : hdr := mkHdr (hd_begin h) (hd_last h) (hd_size h) v (hd_blocks h) (hd_cap h) (hd_data h).
Definition set_blocks (h : hdr) (v : list nat) : hdr := mkHdr (hd_begin h) (hd_last h) (hd_size h) (hd_free h) v (hd_cap h) (hd_data h).
Definition set_data (h : hdr) (v : option nat) : hdr := mkHdr (hd_begin h) (hd_last h) (hd_size h) (hd_free h) (hd_blocks h) (hd_cap h) v.

(* p->prev and p->next where p may be the address of the container's endItem *)
Definition rd_prev (H : heap) (h : hdr) (p : ptr) : ptr :=
  match p with PItem s => c_prev (hget H s) | PEnd _ => hd_last h | PNull => PNull end.
Definition wr_prev (H : heap) (h : hdr) (p : ptr) (v : ptr) : heap * hdr :=
  match p with PItem s => (set_prev H s v, h) | PEnd _ => (H, set_last h v) | PNull => (H, h) end.
Definition wr_next (H : heap) (p : ptr) (v : ptr) : heap :=
  match p with PItem s => set_next H s v | _ => H end.

(* ---- walks --------------------------------------------------------------------------------------- *)
Fixpoint walk (H : heap) (fuel : nat) (p : ptr) : list slot :=
  match fuel, p with
  | S f, PItem s => s :: walk H f (c_next (hget H s))
  | _, _ => []
  end.
Definition items (H : heap) (h : hdr) : list slot := walk H (hd_size h) (hd_begin h).
(* Iterator i = begin(); pos times ++i unless i == end() *)
Fixpoint iter_at (H : heap) (pos : nat) (p : ptr) : ptr :=
  match pos, p with
  | S n, PItem s => iter_at H n (c_next (hget H s))
  | _, _ => p
  end.
Definition node_at (H : heap) (s : slot) : node :=
  match c_obj (hget H s) with
  | Some o => mkNode (o_id o) s (o_key o) (o_val o)
  | None => mkNode O s 0 0
  end.
Definition lelems (H : heap) (h : hdr) : list node := map (node_at H) (items H h).

(* ---- item blocks and the free list (threaded through prev) ---------------------------------------- *)
(* for(i = first .. ) { i->prev = freeItem; freeItem = i; } over the given indices of block ser *)
Definition thread (ser : nat) (idxs : list nat) (H : heap) (h : hdr) : heap * hdr :=
  fold_left (fun (a : heap * hdr) i => let '(H1, h1) := a in (set_prev H1 (ser, i) (hd_free h1), set_free h1 (PItem (ser, i))))
            idxs (H, h).
(* take an item off the free list, allocating a block when it is empty *)
Definition l_take (k : kind) (H : heap) (h : hdr) (ser : nat) : slot * heap * hdr * nat * list event :=
  match hd_free h with
  | PItem s => (s, H, set_free h (c_prev (hget H s)), ser, [])
  | _ =>
      let h1 := set_blocks h (ser :: hd_blocks h) in
      if first_direct k then
        let '(H2, h2) := thread ser (seq 1 (block_items k - 1)) H h1 in
        ((ser, O), H2, h2, S ser, [EAlloc ser])
      else
        let '(H2, h2) := thread ser (seq 0 (block_items k)) H h1 in
        match hd_free h2 with
        | PItem s => (s, H2, set_free h2 (c_prev (hget H2 s)), S ser, [EAlloc ser])
        | _ => ((ser, O), H2, h2, S ser, [EAlloc ser])
        end
  end.
(* item->prev = freeItem; freeItem = item *)
Definition push_free (H : heap) (h : hdr) (s : slot) : heap * hdr :=
  (set_prev H s (hd_free h), set_free h (PItem s)).

(* ---- the doubly linked list ------------------------------------------------------------------------ *)
Definition link_before (H : heap) (h : hdr) (item : slot) (pos : ptr) : heap * hdr :=
  let pv := rd_prev H h pos in
  let H1 := set_prev H item pv in                                   (* item->prev = insertPos->prev *)
  let '(H2, h2) := match pv with
                   | PNull => (H1, set_begin h (PItem item))          (* _begin.item = item *)
                   | _ => (wr_next H1 pv (PItem item), h)             (* insertPos->prev->next = item *)
                   end in
  let H3 := set_next H2 item pos in                                 (* item->next = insertPos *)
  let '(H4, h4) := wr_prev H3 h2 pos (PItem item) in                (* insertPos->prev = item *)
  (H4, set_size h4 (S (hd_size h4))).

Definition unlink (H : heap) (h : hdr) (item : slot) : heap * hdr :=
  let pv := c_prev (hget H item) in
  let nx := c_next (hget H item) in
  let '(H2, h2) := match pv with
                   | PNull => wr_prev H (set_begin h nx) nx PNull     (* (_begin.item = item->next)->prev = 0 *)
                   | _ => wr_prev (wr_next H pv nx) h nx pv            (* (item->prev->next = item->next)->prev = item->prev *)
                   end in
  (H2, set_size h2 (pred (hd_size h2))).

(* ---- hash chains ------------------------------------------------------------------------------------ *)
Definition is_hashk (k : kind) : bool := match k with KHashMap | KHashSet | KPoolMap => true | _ => false end.
Definition heap_kind (k : kind) : bool := match k with KMap | KMulti => false | _ => true end.

(* item->cell = cell; if(item->nextCell = [*cell]) item->nextCell->cell = &item->nextCell; [*cell] = item *)
Definition chain_link (H : heap) (item : slot) (cr : slot) : heap :=
  let H1 := set_cell H item cr in
  let nc := c_nextcell (hget H1 cr) in
  let H2 := set_nextcell H1 item nc in
  let H3 := match nc with PItem t => set_cell H2 t item | _ => H2 end in
  set_nextcell H3 cr (PItem item).
(* if([*item->cell] = item->nextCell) item->nextCell->cell = item->cell *)
Definition chain_unlink (H : heap) (item : slot) : heap :=
  let cr := c_cell (hget H item) in
  let nc := c_nextcell (hget H item) in
  let H1 := set_nextcell H cr nc in
  match nc with PItem t => set_cell H1 t cr | _ => H1 end.
Fixpoint chain_walk (H : heap) (fuel : nat) (p : ptr) (key : Z) : option slot :=
  match fuel, p with
  | S f, PItem s =>
      match c_obj (hget H s) with
      | Some o => if o_key o =? key then Some s else chain_walk H f (c_nextcell (hget H s)) key
      | None => chain_walk H f (c_nextcell (hget H s)) key
      end
  | _, _ => None
  end.
Definition l_find (H : heap) (h : hdr) (key : Z) : option slot :=
  match hd_data h with
  | None => None
  | Some d => chain_walk H (hd_size h) (c_nextcell (hget H (d, bucket (hd_cap h) key))) key
  end.

(* ---- container operations: heap, header, counters, events ------------------------------------------- *)
Definition set_val_at (H : heap) (s : slot) (v : Z) : heap :=
  match c_obj (hget H s) with
  | Some o => set_obj H s (Some (mkObj (o_id o) (o_key o) v))
  | None => H
  end.

(* insert(position, ..) / append / prepend; [posp] is the position iterator *)
Definition l_insert (k : kind) (posp : ptr) (key val : Z) (H : heap) (h : hdr) (ser nid : nat)
  : heap * hdr * nat * nat * list event :=
  if is_hashk k then
    match l_find H h key with
    | Some s =>
        match k with
        | KHashSet => (H, h, ser, nid, [])
        | KPoolMap => (set_val_at H s val, h, ser, nid, [])                          (* the harness writes the payload *)
        | _ => (set_val_at H s val, h, ser, nid,
                match c_obj (hget H s) with Some o => [EAssign (o_id o)] | None => [] end)   (* [*it] = value *)
        end
    | None =>
        let '(h1, ser1, ev1) :=
          match hd_data h with
          | Some _ => (h, ser, [])
          | None => (set_data h (Some ser), S ser, [EAlloc ser])       (* data = new char[..]; Memory::zero *)
          end in
        let '(s, H2, h2, ser2, ev2) := l_take k H h1 ser1 in
        let H3 := set_obj H2 s (Some (mkObj nid key (match k with KHashSet => 0 | _ => val end))) in   (* new(item) Item(..) *)
        let d := match hd_data h2 with Some d => d | None => O end in
        let H4 := chain_link H3 s (d, bucket (hd_cap h2) key) in
        let '(H5, h5) := link_before H4 h2 s posp in
        (H5, h5, ser2, S nid, ev1 ++ ev2 ++ [birth k nid s])
    end
  else
    let '(s, H2, h2, ser2, ev2) := l_take k H h ser in
    let H3 := set_obj H2 s (Some (mkObj nid 0 val)) in
    let '(H5, h5) := link_before H3 h2 s posp in
    (H5, h5, ser2, S nid, ev2 ++ [birth k nid s]).

(* remove(iterator): the item is given by its address *)
Definition l_remove_item (k : kind) (s : slot) (H : heap) (h : hdr) : heap * hdr * list event :=
  let H1 := if is_hashk k then chain_unlink H s else H in
  let '(H2, h2) := unlink H1 h s in
  let ev := match c_obj (hget H2 s) with Some o => [EDestroy (o_id o) s] | None => [] end in
  let H3 := set_obj H2 s None in                                               (* item->~Item() *)
  let '(H4, h4) := push_free H3 h2 s in
  (H4, h4, ev).
Definition l_remove_ptr (k : kind) (p : ptr) (H : heap) (h : hdr) : heap * hdr * list event :=
  match p with PItem s => l_remove_item k s H h | _ => (H, h, []) end.

Definition destroy_at (H : heap) (s : slot) : list event :=
  match c_obj (hget H s) with Some o => [EDestroy (o_id o) s] | None => [] end.

Definition l_clear (k : kind) (side : bool) (H : heap) (h : hdr) : heap * hdr * list event :=
  let its := items H h in
  let '(H1, h1, ev) :=
    fold_left (fun (a : heap * hdr * list event) s =>
                 let '(H0, h0, ev0) := a in
                 let e := destroy_at H0 s in
                 let H1 := set_obj H0 s None in                                          (* i->~Item() *)
                 let H2 := if is_hashk k then set_nextcell H1 (c_cell (hget H1 s)) PNull else H1 in   (* [*i->cell] = 0 *)
                 let '(H3, h3) := push_free H2 h0 s in
                 (H3, h3, ev0 ++ e))
              its (H, h, []) in
  (H1, set_size (set_last (set_begin h1 (PEnd side)) PNull) O, ev).

(* destructor, then a fresh container is constructed in the same place *)
Definition l_destroy (side : bool) (cap : nat) (H : heap) (h : hdr) : heap * hdr * list event :=
  let its := items H h in
  let ev := flat_map (destroy_at H) its in
  let H1 := fold_left (fun H0 s => set_obj H0 s None) its H in
  (H1, hdr_init side cap,
   match hd_data h with Some d => [EFree d] | None => [] end ++ ev ++ map EFree (hd_blocks h)).

(* the first item whose payload equals v (List::find) *)
Fixpoint find_val (H : heap) (v : Z) (l : list slot) : option slot :=
  match l with
  | [] => None
  | s :: r => match c_obj (hget H s) with
              | Some o => if o_val o =? v then Some s else find_val H v r
              | None => find_val H v r
              end
  end.
Definition l_find_pos (k : kind) (key : Z) (H : heap) (h : hdr) : option slot :=
  if is_hashk k then l_find H h key
  else if is_pool k then None else find_val H key (items H h).

(* a run of insertions of the elements of [src]; [off] as in StableModel.ins_fold.  At the end (None) the position is
   the container's own endItem; for List::insert(position, const List&) the position iterator is re-obtained by walking
   to index p + (number of items inserted so far) - it is the same item the code's `pos` keeps designating *)
Definition l_ins_ptr (k : kind) (side : bool) (off : option (nat * nat)) (H : heap) (h : hdr) : ptr :=
  match off with
  | None => PEnd side
  | Some (p, n0) =>
      if is_pool k && negb (is_hashk k) then PEnd side else iter_at H (p + (hd_size h - n0)) (hd_begin h)
  end.
Definition lins_f (k : kind) (side : bool) (off : option (nat * nat)) :=
  fun (acc : heap * hdr * nat * nat * list event) (e : node) =>
    let '(H1, h1, ser1, nid1, ev1) := acc in
    let '(H2, h2, ser2, nid2, ev2) := l_insert k (l_ins_ptr k side off H1 h1) (n_key e) (n_val e) H1 h1 ser1 nid1 in
    (H2, h2, ser2, nid2, ev1 ++ ev2).

(* operator=(other): clear, then append every (key, payload) of the other container *)
Definition l_assign (k : kind) (side : bool) (src : list node) (H : heap) (h : hdr) (ser nid : nat)
  : heap * hdr * nat * nat * list event :=
  let '(H0, h0, ev0) := l_clear k side H h in
  fold_left (lins_f k side None) src (H0, h0, ser, nid, ev0).

(* List::append / prepend / insert(position, ..) (const List&), HashSet::append(const HashSet&) *)
Definition l_insert_all (k : kind) (side : bool) (pos : option nat) (src : list node) (H : heap) (h : hdr) (ser nid : nat)
  : heap * hdr * nat * nat * list event :=
  fold_left (lins_f k side (match k with KList => option_map (fun p => (p, hd_size h)) pos | _ => None end)) src (H, h, ser, nid, []).

(* HashSet::remove(const HashSet&): find + remove(iterator) for every key of the other set *)
Definition lrem_f (k : kind) :=
  fun (acc : heap * hdr * list event) (e : node) =>
    let '(H1, h1, ev1) := acc in
    match l_find_pos k (n_key e) H1 h1 with
    | Some s => let '(H2, h2, ev2) := l_remove_item k s H1 h1 in (H2, h2, ev1 ++ ev2)
    | None => acc
    end.
Definition l_remove_all (k : kind) (src : list node) (H : heap) (h : hdr) : heap * hdr * list event :=
  fold_left (lrem_f k) src (H, h, []).

(* a.swap(b): exchange of the header fields, the last items are re-anchored to the other endItem *)
Definition l_swap (H : heap) (ha hb : hdr) : heap * hdr * hdr :=
  let tmpFirst := hd_begin ha in
  let tmpLast := hd_last ha in
  let '(H1, bega) := match hd_last hb with
                     | PNull => (H, PEnd false)
                     | p => (wr_next H p (PEnd false), hd_begin hb)
                     end in
  let ha' := mkHdr bega (hd_last hb) (hd_size hb) (hd_free hb) (hd_blocks hb) (hd_cap hb) (hd_data hb) in
  let '(H2, begb) := match tmpLast with
                     | PNull => (H1, PEnd true)
                     | p => (wr_next H1 p (PEnd true), tmpFirst)
                     end in
  let hb' := mkHdr begb tmpLast (hd_size ha) (hd_free ha) (hd_blocks ha) (hd_cap ha) (hd_data ha) in
  (H2, ha', hb').

(* ---- the state machine ------------------------------------------------------------------------------- *)
Record lstate := mkL { l_heap : heap; l_a : hdr; l_b : hdr; l_cur : bool; l_ser : nat; l_nid : nat }.
Definition linit (cap : nat) : lstate := mkL [] (hdr_init false cap) (hdr_init true cap) false O O.
Definition lsel (L : lstate) : hdr := if l_cur L then l_b L else l_a L.
Definition lother (L : lstate) : hdr := if l_cur L then l_a L else l_b L.
Definition lset (L : lstate) (H : heap) (h : hdr) (ser nid : nat) : lstate :=
  if l_cur L then mkL H (l_a L) h true ser nid else mkL H h (l_b L) false ser nid.

Definition lstep (k : kind) (cap : nat) (L : lstate) (o : op) : lstate * list event :=
  let H := l_heap L in
  let h := lsel L in
  let side := l_cur L in
  let ins posp key val :=
    let '(H', h', ser', nid', ev) := l_insert k posp key val H h (l_ser L) (l_nid L) in (lset L H' h' ser' nid', ev) in
  let rem p := let '(H', h', ev) := l_remove_ptr k p H h in (lset L H' h' (l_ser L) (l_nid L), ev) in
  match o with
  | OSel b => (mkL H (l_a L) (l_b L) b (l_ser L) (l_nid L), [])
  | OApp key val => ins (PEnd side) key val
  | OPre key val => ins (if is_pool k && negb (is_hashk k) then PEnd side else hd_begin h) key val
  | OInsAt pos key val => ins (if is_pool k && negb (is_hashk k) then PEnd side else iter_at H pos (hd_begin h)) key val
  | ORemAt pos => if (pos <? hd_size h)%nat then rem (iter_at H pos (hd_begin h)) else (L, [])
  | ORemFront => if (hd_size h =? 0)%nat then (L, []) else rem (hd_begin h)
  | ORemBack => if (hd_size h =? 0)%nat then (L, []) else rem (hd_last h)
  | ORemKey key => match l_find_pos k key H h with Some s => rem (PItem s) | None => (L, []) end
  | OClear => let '(H', h', ev) := l_clear k side H h in (lset L H' h' (l_ser L) (l_nid L), ev)
  | OSwap =>
      if has_swap k then
        let '(H', ha, hb) := l_swap H (l_a L) (l_b L) in (mkL H' ha hb (l_cur L) (l_ser L) (l_nid L), [])
      else (L, [])
  | OAssign =>
      if has_assign k then
        let '(H', h', ser', nid', ev) := l_assign k side (lelems H (lother L)) H h (l_ser L) (l_nid L) in (lset L H' h' ser' nid', ev)
      else (L, [])
  | ODestroy => let '(H', h', ev) := l_destroy side cap H h in (lset L H' h' (l_ser L) (l_nid L), ev)
  | OInsAll pos =>
      if has_insall k then
        let '(H', h', ser', nid', ev) := l_insert_all k side pos (lelems H (lother L)) H h (l_ser L) (l_nid L) in (lset L H' h' ser' nid', ev)
      else (L, [])
  | ORemAll =>
      if has_remall k then
        let '(H', h', ev) := l_remove_all k (lelems H (lother L)) H h in (lset L H' h' (l_ser L) (l_nid L), ev)
      else (L, [])
  | OHint _ _ _ => (L, [])          (* only Map has it; Map / MultiMap are not in this machine *)
  end.

Fixpoint lrun (k : kind) (cap : nat) (L : lstate) (ops : list op) : lstate :=
  match ops with [] => L | o :: rest => lrun k cap (fst (lstep k cap L o)) rest end.

Definition lobserve (L : lstate) : obs := mkObs (lelems (l_heap L) (l_a L)) (lelems (l_heap L) (l_b L)).
Fixpoint ltrace (k : kind) (cap : nat) (L : lstate) (ops : list op) : list (op * obs * list event) :=
  match ops with
  | [] => []
  | o :: rest => let '(L', ev) := lstep k cap L o in (o, lobserve L', ev) :: ltrace k cap L' rest
  end.

(* the free list as the sequence of item addresses (for the comparison with the implementation) *)
Fixpoint free_walk (H : heap) (fuel : nat) (p : ptr) : list slot :=
  match fuel, p with
  | S f, PItem s => s :: free_walk H f (c_prev (hget H s))
  | _, _ => []
  end.
