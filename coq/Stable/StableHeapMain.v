(* Theorems about the cell machine for all histories: it refines the node-level model, every
   object stays in the cell it was constructed in, no cell outside the lists holds an object, and
   the lists are well formed (sentinels re-anchored). *)
From Coq Require Import ZArith List Bool Arith Lia.
From Stable Require Import Gen_Stable StableSpec StableModel StableTree StableInv StableProofs StableTheorems StableRefine StableBlocks
  StableHeap StableHeapBase StableHeapSeg StableHeapRep StableHeapStep StableHeapSeq StableHeapHash.
Import ListNotations.

Section MAIN.
Variable k : kind.
Hypothesis Hk : heap_kind k = true.
Hypothesis HIns : InsertOK k.
Hypothesis HRem : RemoveOK k.
Hypothesis HClr : ClearOK k.
Hypothesis HFind : FindOK k.

Lemma reach_rep cap ops : Rep k (lrun k cap (linit cap) ops) (run k cap (init k cap) ops).
Proof. apply run_refine; auto. apply Rep_init. exact Hk. Qed.

Lemma reach_trace cap ops : ltrace k cap (linit cap) ops = trace k cap (init k cap) ops.
Proof. apply trace_refine; auto. apply Rep_init. exact Hk. Qed.

Lemma lrun_app cap L a b : lrun k cap L (a ++ b) = lrun k cap (lrun k cap L a) b.
Proof. revert L. induction a as [|o a IH]; intros L; cbn [app lrun]; auto. Qed.

(* a cell that holds an object is the item of a live node with exactly that object *)
Lemma obj_is_live L S s o :
  Rep k L S -> c_obj (hget (l_heap L) s) = Some o ->
  exists n, In n (all_elems S) /\ n_slot n = s /\ obj_of n = o.
Proof.
  intros R Ho. assert (Hin : In s (slots (all_elems S))) by (apply (rp_obj _ _ _ R); rewrite Ho; discriminate).
  unfold slots in Hin. apply in_map_iff in Hin. destruct Hin as (n & Es & Hn). exists n. split; auto. split; auto.
  unfold all_elems in Hn. apply in_app_or in Hn.
  assert (Hobj : c_obj (hget (l_heap L) (n_slot n)) = Some (obj_of n)).
  { destruct Hn as [Hn|Hn]; [eapply dll_objs; [apply (cr_dll _ _ _ _ (rp_a _ _ _ R))|exact Hn]|eapply dll_objs; [apply (cr_dll _ _ _ _ (rp_b _ _ _ R))|exact Hn]]. }
  rewrite Es, Ho in Hobj. congruence.
Qed.

Lemma heap_stable cap ops1 ops2 s s' o o' :
  let L1 := lrun k cap (linit cap) ops1 in
  let L2 := lrun k cap L1 ops2 in
  c_obj (hget (l_heap L1) s) = Some o -> c_obj (hget (l_heap L2) s') = Some o' -> o_id o = o_id o' ->
  s' = s /\ o_key o' = o_key o.
Proof.
  intros L1 L2 H1 H2 Eid.
  pose proof (reach_rep cap ops1) as R1. fold L1 in R1.
  assert (R2 : Rep k L2 (run k cap (run k cap (init k cap) ops1) ops2)) by (apply run_refine; auto).
  destruct (obj_is_live _ _ _ _ R1 H1) as (n & Hn & <- & <-). destruct (obj_is_live _ _ _ _ R2 H2) as (n' & Hn' & <- & <-).
  cbn [obj_of o_id o_key] in *. eapply slots_stable_all; eauto.
Qed.

Lemma heap_objects_on_lists cap ops s o :
  let L := lrun k cap (linit cap) ops in
  c_obj (hget (l_heap L) s) = Some o ->
  In (mkNode (o_id o) s (o_key o) (o_val o)) (lelems (l_heap L) (l_a L) ++ lelems (l_heap L) (l_b L)).
Proof.
  intros L Ho. pose proof (reach_rep cap ops) as R. fold L in R.
  rewrite (lelems_rep _ _ _ _ (rp_a _ _ _ R)), (lelems_rep _ _ _ _ (rp_b _ _ _ R)).
  destruct (obj_is_live _ _ _ _ R Ho) as (n & Hn & <- & <-). destruct n; exact Hn.
Qed.

Lemma heap_lists_wf cap ops :
  let L := lrun k cap (linit cap) ops in
  dll (l_heap L) (hd_begin (l_a L)) PNull (lelems (l_heap L) (l_a L)) (hd_last (l_a L)) (PEnd false) /\
  dll (l_heap L) (hd_begin (l_b L)) PNull (lelems (l_heap L) (l_b L)) (hd_last (l_b L)) (PEnd true) /\
  hd_size (l_a L) = length (lelems (l_heap L) (l_a L)) /\ hd_size (l_b L) = length (lelems (l_heap L) (l_b L)).
Proof.
  intros L. pose proof (reach_rep cap ops) as R. fold L in R.
  rewrite (lelems_rep _ _ _ _ (rp_a _ _ _ R)), (lelems_rep _ _ _ _ (rp_b _ _ _ R)).
  split; [apply (cr_dll _ _ _ _ (rp_a _ _ _ R))|]. split; [apply (cr_dll _ _ _ _ (rp_b _ _ _ R))|].
  split; [apply (cr_size _ _ _ _ (rp_a _ _ _ R))|apply (cr_size _ _ _ _ (rp_b _ _ _ R))].
Qed.

Lemma heap_spec cap ops : check_trace k ss_init (ltrace k cap (linit cap) ops) 0 = None.
Proof. rewrite reach_trace. apply model_satisfies_spec_all. Qed.
End MAIN.

(* ---- all five kinds ------------------------------------------------------------------------------------------ *)
Lemma heap_kind_cases k : heap_kind k = true -> seq_kind k = true \/ is_hashk k = true.
Proof. destruct k; cbn; auto; discriminate. Qed.

Lemma insert_ok k : heap_kind k = true -> InsertOK k.
Proof. intros H. destruct (heap_kind_cases k H); [apply insert_ok_seq|apply insert_ok_hash]; auto. Qed.
Lemma remove_ok k : heap_kind k = true -> RemoveOK k.
Proof. intros H. destruct (heap_kind_cases k H); [apply remove_ok_seq|apply remove_ok_hash]; auto. Qed.
Lemma clear_ok k : heap_kind k = true -> ClearOK k.
Proof. intros H. destruct (heap_kind_cases k H); [apply clear_ok_seq|apply clear_ok_hash]; auto. Qed.
Lemma find_ok k : heap_kind k = true -> FindOK k.
Proof. intros H. destruct (heap_kind_cases k H); [apply find_ok_seq|apply find_ok_hash]; auto. Qed.

Theorem heap_step_refines k cap L S o :
  heap_kind k = true -> Rep k L S ->
  Rep k (fst (lstep k cap L o)) (fst (step k cap S o)) /\ snd (lstep k cap L o) = snd (step k cap S o).
Proof. intros H. apply step_refine; auto using insert_ok, remove_ok, clear_ok, find_ok. Qed.

Theorem heap_refines_all k cap ops :
  heap_kind k = true -> Rep k (lrun k cap (linit cap) ops) (run k cap (init k cap) ops).
Proof. intros H. apply reach_rep; auto using insert_ok, remove_ok, clear_ok, find_ok. Qed.

Theorem heap_trace_all k cap ops :
  heap_kind k = true -> ltrace k cap (linit cap) ops = trace k cap (init k cap) ops.
Proof. intros H. apply reach_trace; auto using insert_ok, remove_ok, clear_ok, find_ok. Qed.

Theorem heap_stable_all k cap ops1 ops2 s s' o o' :
  heap_kind k = true ->
  let L1 := lrun k cap (linit cap) ops1 in
  let L2 := lrun k cap L1 ops2 in
  c_obj (hget (l_heap L1) s) = Some o -> c_obj (hget (l_heap L2) s') = Some o' -> o_id o = o_id o' ->
  s' = s /\ o_key o' = o_key o.
Proof. intros H. apply heap_stable; auto using insert_ok, remove_ok, clear_ok, find_ok. Qed.

Theorem heap_objects_on_lists_all k cap ops s o :
  heap_kind k = true ->
  let L := lrun k cap (linit cap) ops in
  c_obj (hget (l_heap L) s) = Some o ->
  In (mkNode (o_id o) s (o_key o) (o_val o)) (lelems (l_heap L) (l_a L) ++ lelems (l_heap L) (l_b L)).
Proof. intros H. apply heap_objects_on_lists; auto using insert_ok, remove_ok, clear_ok, find_ok. Qed.

Theorem heap_lists_wf_all k cap ops :
  heap_kind k = true ->
  let L := lrun k cap (linit cap) ops in
  dll (l_heap L) (hd_begin (l_a L)) PNull (lelems (l_heap L) (l_a L)) (hd_last (l_a L)) (PEnd false) /\
  dll (l_heap L) (hd_begin (l_b L)) PNull (lelems (l_heap L) (l_b L)) (hd_last (l_b L)) (PEnd true) /\
  hd_size (l_a L) = length (lelems (l_heap L) (l_a L)) /\ hd_size (l_b L) = length (lelems (l_heap L) (l_b L)).
Proof. intros H. apply heap_lists_wf; auto using insert_ok, remove_ok, clear_ok, find_ok. Qed.

Theorem heap_spec_all k cap ops :
  heap_kind k = true -> check_trace k ss_init (ltrace k cap (linit cap) ops) 0 = None.
Proof. intros H. apply heap_spec; auto using insert_ok, remove_ok, clear_ok, find_ok. Qed.

(* the free lists and the hash chains of a reachable state are the model's *)
Theorem heap_pools_all k cap ops :
  heap_kind k = true ->
  let L := lrun k cap (linit cap) ops in let S := run k cap (init k cap) ops in
  fl (l_heap L) (hd_free (l_a L)) (p_free (c_pool (s_a S))) /\ fl (l_heap L) (hd_free (l_b L)) (p_free (c_pool (s_b S))) /\
  hd_blocks (l_a L) = p_blocks (c_pool (s_a S)) /\ hd_blocks (l_b L) = p_blocks (c_pool (s_b S)) /\
  hrep (l_heap L) (l_a L) (c_body (s_a S)) /\ hrep (l_heap L) (l_b L) (c_body (s_b S)).
Proof.
  intros H L S. pose proof (heap_refines_all k cap ops H) as R. fold L S in R.
  destruct (rp_a _ _ _ R) as [_ A2 A3 _ A5]. destruct (rp_b _ _ _ R) as [_ B2 B3 _ B5]. auto 10.
Qed.
