(* Property C05 - "Elements of node and pool containers never move while they live".
   Only statements closed by `exact`, each followed by Print Assumptions, plus non-vacuity Examples.

   Clause of the property text                                   -> theorem
   -----------------------------------------------------------------------------------------------
   address of a stored element stays the same / keeps designating
   that same element until the element itself is removed,
   whatever is inserted or removed meanwhile (all 7 containers)   -> slots_stable, live_between
   (an iterator is the address of the element's item: same slot)
   an insertion - of one element, of all the elements of another
   container (List::append/prepend/insert(const List&),
   HashSet::append(const HashSet&), Map::insert(const Map&)), with
   a position hint (Map) - takes no element away                  -> insertion_removes_no_element
   swap hands the elements over without relocating them          -> swap_hands_over_slots
   PoolList / PoolMap construct in place, never copy or move     -> pool_containers_emit_no_copy,
                                                                     elements_born_in_place
   (mechanism) free-list reuse never hands out a live item       -> live_slots_distinct,
                                                                     free_list_reuse_never_hands_out_live_slot
   (mechanism, model only: the reference checker demands just that
   no allocation holding a live element is released)
   item blocks are only released by the destructor                -> blocks_released_only_by_destructor,
                                                                     blocks_kept_until_destructor,
                                                                     live_elements_in_owned_blocks
   the model meets the reference checker the harness
   observations are judged with                                   -> model_satisfies_spec

   The theorems above are about the node-level model (StableModel.v), in which a node record carries
   its slot: several of them (slots_stable, swap_hands_over_slots, pool_containers_emit_no_copy,
   elements_born_in_place, blocks_released_only_by_destructor) hold by the way that model is written.
   Their content comes from the second half of this file: the CELL MACHINE (StableHeap.v) for List,
   PoolList, HashMap, HashSet and PoolMap, a heap of cells with object / prev / next / cell / nextCell
   fields in which every operation is the sequence of pointer writes of the header file and in which
   a payload CAN be written into another cell (payload_move_is_expressible).

   (mechanism) relinking instead of moving payloads: list link /
   unlink, hash chain link / unlink with back-pointer fix-up,
   free-list push / pop / threading of a fresh block, clear and
   destructor loops, swap = exchange of the header fields and
   re-anchoring of the last items to the other endItem             -> cell_machine_refines_model (one step),
                                                                     cell_machine_represents, cell_machine_trace
   an object stays in the cell it was constructed in               -> cell_objects_never_move
   no stale copy: a cell holds an object only while it is linked   -> cell_objects_only_on_lists
   iteration from _begin ends at the container's own endItem,
   prev of the first item is 0, _size is the length                -> cell_lists_well_formed
   free list (through prev), block list, bucket array and chains   -> cell_pools_and_chains
   the cell machine's observations pass the reference checker      -> cell_machine_satisfies_spec
   Map / MultiMap (Map.hpp:470-540): rotr, rotl, shiftr, shiftl and
   rebal as rewrites of the parent / left / right / height / slope
   fields of a heap of tree cells implement the rotations of the
   node-level AVL model on the subtree they are applied to, leave
   every other cell alone and write no object field                -> tree_rotr_relinks, tree_rotl_relinks,
                                                                     tree_rebal_relinks, tree_rebal_moves_no_object
   (insert / remove of Map / MultiMap, i.e. the descent, the two-child removal and the walk up the
   parent chain, exist only in the node-level model; see level_note of checks/C05.py) *)
From Coq Require Import ZArith List Bool Arith.
From Stable Require Import Gen_Stable StableSpec StableModel StableTree StableInv StableProofs StableTheorems StableRefine StableBlocks.
From Stable Require Import StableHeap StableHeapBase StableHeapSeg StableHeapRep StableHeapStep StableHeapSeq StableHeapHash StableHeapMain.
From Stable Require Import StableHeapTree StableHeapTreeProofs.
Import ListNotations.
Local Open Scope Z_scope.

Theorem slots_stable : forall k cap ops1 ops2 n n',
  In n (all_elems (run k cap (init k cap) ops1)) ->
  In n' (all_elems (run k cap (run k cap (init k cap) ops1) ops2)) ->
  n_id n = n_id n' -> n_slot n' = n_slot n /\ n_key n' = n_key n.
Proof. exact slots_stable_all. Qed.
Print Assumptions slots_stable.

Theorem live_between : forall k cap ops1 ops2 ops3 n n',
  In n (all_elems (run k cap (init k cap) ops1)) ->
  In n' (all_elems (run k cap (init k cap) (ops1 ++ ops2 ++ ops3))) ->
  n_id n = n_id n' ->
  exists m, In m (all_elems (run k cap (init k cap) (ops1 ++ ops2))) /\ n_id m = n_id n /\ n_slot m = n_slot n.
Proof. exact live_between_all. Qed.
Print Assumptions live_between.

Theorem swap_hands_over_slots : forall k cap st st' ev,
  has_swap k = true -> step k cap st OSwap = (st', ev) ->
  elems (s_a st') = elems (s_b st) /\ elems (s_b st') = elems (s_a st) /\
  c_pool (s_a st') = c_pool (s_b st) /\ c_pool (s_b st') = c_pool (s_a st) /\ ev = [].
Proof. exact swap_hands_over. Qed.
Print Assumptions swap_hands_over_slots.

Theorem pool_containers_emit_no_copy : forall k cap ops,
  is_pool k = true -> Forall pool_ok (run_events k cap (init k cap) ops).
Proof. exact pool_no_copy_all. Qed.
Print Assumptions pool_containers_emit_no_copy.

Theorem elements_born_in_place : forall k cap ops o st' ev n',
  step k cap (run k cap (init k cap) ops) o = (st', ev) ->
  In n' (all_elems st') -> (s_nid (run k cap (init k cap) ops) <= n_id n')%nat ->
  In (birth k (n_id n') (n_slot n')) ev.
Proof. exact (fun k cap ops o st' ev n' => born_in_place_step k cap _ o st' ev n' (reachable_inv k cap ops)). Qed.
Print Assumptions elements_born_in_place.

Theorem insertion_removes_no_element : forall k cap ops o st' ev n,
  let st := run k cap (init k cap) ops in
  removal_budget o = Some O -> step k cap st o = (st', ev) -> In n (all_elems st) ->
  exists n', In n' (all_elems st') /\ n_id n' = n_id n /\ n_slot n' = n_slot n /\ n_key n' = n_key n.
Proof. exact no_removal_all. Qed.
Print Assumptions insertion_removes_no_element.

Theorem live_slots_distinct : forall k cap ops,
  let st := run k cap (init k cap) ops in
  NoDup (slots (all_elems st)) /\
  forall s, In s (p_free (c_pool (s_a st)) ++ p_free (c_pool (s_b st))) -> ~ In s (slots (all_elems st)).
Proof. exact live_slots_distinct_all. Qed.
Print Assumptions live_slots_distinct.

Theorem free_list_reuse_never_hands_out_live_slot : forall k cap ops o st' ev n',
  let st := run k cap (init k cap) ops in
  is_insert o = true -> step k cap st o = (st', ev) ->
  In n' (all_elems st') -> (s_nid st <= n_id n')%nat ->
  ~ In (n_slot n') (slots (all_elems st)) /\
  (In (n_slot n') (p_free (c_pool (sel st))) \/ (s_ser st <= fst (n_slot n'))%nat).
Proof. exact (fun k cap ops o st' ev n' => alloc_never_live_step k cap _ o st' ev n' (reachable_inv k cap ops)). Qed.
Print Assumptions free_list_reuse_never_hands_out_live_slot.

Theorem blocks_released_only_by_destructor : forall k cap ops o st' ev,
  step k cap (run k cap (init k cap) ops) o = (st', ev) -> o <> ODestroy -> Forall not_free ev.
Proof. exact (fun k cap ops o st' ev => no_free_outside_destroy k cap _ o st' ev (reachable_inv k cap ops)). Qed.
Print Assumptions blocks_released_only_by_destructor.

Theorem live_elements_in_owned_blocks : forall k cap ops n,
  let st := run k cap (init k cap) ops in
  (In n (elems (s_a st)) -> In (fst (n_slot n)) (blocks (s_a st)) /\ ~ In (fst (n_slot n)) (blocks (s_b st))) /\
  (In n (elems (s_b st)) -> In (fst (n_slot n)) (blocks (s_b st)) /\ ~ In (fst (n_slot n)) (blocks (s_a st))).
Proof. exact live_in_owned_block_all. Qed.
Print Assumptions live_elements_in_owned_blocks.

Theorem blocks_kept_until_destructor : forall k cap ops o st' ev,
  let st := run k cap (init k cap) ops in
  step k cap st o = (st', ev) -> keeps_blocks o = true ->
  incl (blocks (s_a st)) (blocks (s_a st')) /\ incl (blocks (s_b st)) (blocks (s_b st')).
Proof. exact blocks_kept_all. Qed.
Print Assumptions blocks_kept_until_destructor.

Theorem model_satisfies_spec : forall k cap ops,
  check_trace k ss_init (trace k cap (init k cap) ops) 0 = None.
Proof. exact model_satisfies_spec_all. Qed.
Print Assumptions model_satisfies_spec.

(* ---- non-vacuity: concrete histories (stated without the regenerated block constants) ----------- *)
Definition ex1 : list op := [OApp 1 10; OApp 2 20; OApp 3 30].                         (* third insert rotates *)
Definition ex2 : list op := [OApp 4 40; OApp 5 50; ORemKey 2; OApp 6 60; ORemKey 4].  (* two-child removals *)
Definition slot_of (l : list node) (id : nat) : option slot := option_map n_slot (lookup_id l id).
Definition some_eqb (a b : option slot) : bool :=
  match a, b with Some x, Some y => slot_eqb x y | _, _ => false end.

Example slots_stable_nonvacuous :
  let st := run KMap 0 (init KMap 0) ex1 in
  let st' := run KMap 0 st ex2 in
  map n_id (all_elems st) = [0; 1; 2]%nat /\ map n_id (all_elems st') = [0; 2; 4; 5]%nat /\
  some_eqb (slot_of (all_elems st) 0) (slot_of (all_elems st') 0) = true /\
  some_eqb (slot_of (all_elems st) 2) (slot_of (all_elems st') 2) = true.
Proof. vm_compute. auto. Qed.

Example rotation_happens :
  (match c_body (s_a (run KMap 0 (init KMap 0) ex1)) with BTree (Node _ n _ _) => n_key n | _ => 0 end) = 2.
Proof. reflexivity. Qed.

Example swap_nonvacuous :
  let st := run KHashMap 3 (init KHashMap 3) [OApp 1 10; OApp 4 40; OSel true; OApp 7 70; OSel false] in
  let st' := fst (step KHashMap 3 st OSwap) in
  map n_id (elems (s_a st)) = [0; 1]%nat /\ map n_id (elems (s_b st)) = [2]%nat /\
  map n_id (elems (s_a st')) = [2]%nat /\ map n_id (elems (s_b st')) = [0; 1]%nat /\
  some_eqb (slot_of (all_elems st) 1) (slot_of (all_elems st') 1) = true.
Proof. vm_compute. auto. Qed.

(* whole-container insertions: b = [7; 8] inserted into a = [1; 2] before position 1 (List::insert(position, const List&)) *)
Example whole_insertion_nonvacuous :
  let st := run KList 0 (init KList 0) [OApp 0 1; OApp 0 2; OSel true; OApp 0 7; OApp 0 8; OSel false] in
  let st' := fst (step KList 0 st (OInsAll (Some 1%nat))) in
  map n_val (elems (s_a st')) = [1; 7; 8; 2] /\ map n_id (elems (s_a st')) = [0; 4; 5; 1]%nat /\
  some_eqb (slot_of (all_elems st) 0) (slot_of (all_elems st') 0) = true /\
  some_eqb (slot_of (all_elems st) 1) (slot_of (all_elems st') 1) = true /\
  removal_budget (OInsAll (Some 1%nat)) = Some O.
Proof. vm_compute. auto 10. Qed.

(* Map::insert(const Map&): {1,2,3} gets {3,4,5}: key 3 is assigned (same object, same item), 4 and 5 are inserted and the
   tree rotates; HashSet::remove(const HashSet&) takes exactly the common keys *)
Example bulk_nonvacuous :
  let st := run KMap 0 (init KMap 0) (ex1 ++ [OSel true; OApp 3 33; OApp 4 40; OApp 5 50; OSel false]) in
  let st' := fst (step KMap 0 st (OInsAll None)) in
  map n_key (elems (s_a st')) = [1; 2; 3; 4; 5] /\ map n_val (elems (s_a st')) = [10; 20; 33; 40; 50] /\
  map n_id (elems (s_a st')) = [0; 1; 2; 6; 7]%nat /\
  some_eqb (slot_of (all_elems st) 2) (slot_of (all_elems st') 2) = true.
Proof. vm_compute. auto 10. Qed.

Example remove_all_nonvacuous :
  let st := run KHashSet 2 (init KHashSet 2) [OApp 1 0; OApp 2 0; OApp 3 0; OSel true; OApp 2 0; OApp 9 0; OSel false] in
  let st' := fst (step KHashSet 2 st ORemAll) in
  map n_key (elems (s_a st')) = [1; 3] /\ map n_key (elems (s_b st')) = [2; 9] /\
  some_eqb (slot_of (all_elems st) 2) (slot_of (all_elems st') 2) = true.
Proof. vm_compute. auto 10. Qed.

Example pool_events_nonvacuous :
  let evs := run_events KPoolList 0 (init KPoolList 0) [OApp 0 1; OApp 0 2; ORemFront; OApp 0 3] in
  length (filter (fun e => match e with ECons _ _ => true | _ => false end) evs) = 3%nat /\
  length (filter (fun e => match e with EDestroy _ _ => true | _ => false end) evs) = 1%nat.
Proof. vm_compute. auto. Qed.

Example reuse_nonvacuous :      (* the freed item is handed out again (LIFO), to a new element, after it was freed *)
  let st := run KList 0 (init KList 0) [OApp 0 1; OApp 0 2; OApp 0 3] in
  let st' := run KList 0 st [ORemAt 1; OApp 0 4] in
  some_eqb (slot_of (all_elems st) 1) (slot_of (all_elems st') 3) = true /\ slot_of (all_elems st') 1 = None.
Proof. vm_compute. auto. Qed.

Example destroy_frees_nonvacuous :
  existsb is_free
    (snd (step KHashSet 2 (run KHashSet 2 (init KHashSet 2) [OApp 1 0; OApp 2 0; OApp 3 0; OApp 4 0; OApp 5 0]) ODestroy)) = true.
Proof. reflexivity. Qed.

(* the reference checker is not vacuous: it rejects an observation in which an element has moved,
   one in which swap rebuilt the elements, and a copy event in a pool container *)
Definition seen2 : sstate := mkS (mkObs [mkNode 0 (0, 3)%nat 1 10; mkNode 1 (0, 2)%nat 2 20] []) false 2.
Example spec_accepts_a_step :
  check_step KMap seen2 (ORemKey 2) (mkObs [mkNode 0 (0, 3)%nat 1 10] []) [EDestroy 1 (0, 2)%nat] = true.
Proof. reflexivity. Qed.
Example spec_rejects_a_move :
  check_step KMap seen2 (ORemKey 2) (mkObs [mkNode 0 (0, 2)%nat 1 10] []) [EDestroy 1 (0, 2)%nat] = false.
Proof. reflexivity. Qed.
Example spec_rejects_a_wrong_removal :      (* remove(position 0) took the element at position 1 *)
  check_step KMap seen2 (ORemAt 0) (mkObs [mkNode 0 (0, 3)%nat 1 10] []) [EDestroy 1 (0, 2)%nat] = false.
Proof. reflexivity. Qed.
Example spec_rejects_a_payload_swap :
  check_step KMap seen2 (ORemKey 5) (mkObs [mkNode 0 (0, 3)%nat 1 20; mkNode 1 (0, 2)%nat 2 10] []) [] = false.
Proof. reflexivity. Qed.
Example spec_rejects_a_copying_swap :
  check_step KList seen2 OSwap (mkObs [] [mkNode 2 (1, 3)%nat 1 10; mkNode 3 (1, 2)%nat 2 20])
             [EAlloc 1; ECopy 2 (1, 3)%nat; ECopy 3 (1, 2)%nat; EDestroy 0 (0, 3)%nat; EDestroy 1 (0, 2)%nat] = false.
Proof. reflexivity. Qed.
Example spec_rejects_a_pool_copy :
  check_step KPoolList seen2 (OApp 0 5) (mkObs [mkNode 0 (0, 3)%nat 1 10; mkNode 1 (0, 2)%nat 2 20; mkNode 2 (0, 1)%nat 0 5] [])
             [ECopy 2 (0, 1)%nat] = false.
Proof. reflexivity. Qed.

Example spec_rejects_a_rebuilding_insertion :      (* append(other) that re-creates the container's own elements in new items *)
  check_step KList seen2 (OInsAll None) (mkObs [mkNode 2 (1, 3)%nat 1 10; mkNode 3 (1, 2)%nat 2 20] [])
             [EAlloc 1; ECopy 2 (1, 3)%nat; ECopy 3 (1, 2)%nat; EDestroy 0 (0, 3)%nat; EDestroy 1 (0, 2)%nat] = false.
Proof. reflexivity. Qed.
(* what the statement leaves open is accepted: a new List element that is default-constructed in place and then assigned;
   a clear() that also gives the (now empty) block back.  A block that still holds a live element may not be released. *)
Example spec_accepts_construct_then_assign :
  check_step KList seen2 (OApp 0 5) (mkObs [mkNode 0 (0, 3)%nat 1 10; mkNode 1 (0, 2)%nat 2 20; mkNode 2 (0, 1)%nat 0 5] [])
             [ECons 2 (0, 1)%nat; EAssign 2] = true.
Proof. reflexivity. Qed.
Example spec_accepts_release_of_an_empty_block :
  check_step KList seen2 OClear (mkObs [] []) [EDestroy 0 (0, 3)%nat; EDestroy 1 (0, 2)%nat; EFree 0] = true.
Proof. reflexivity. Qed.
Example spec_rejects_release_of_a_live_block :
  check_step KList seen2 (ORemAt 1) (mkObs [mkNode 0 (0, 3)%nat 1 10] []) [EDestroy 1 (0, 2)%nat] = true /\
  check_step KList seen2 (ORemAt 1) (mkObs [mkNode 0 (0, 3)%nat 1 10] []) [EDestroy 1 (0, 2)%nat; EFree 0] = false.
Proof. split; reflexivity. Qed.

(* HashSet::remove(const HashSet&) may only take elements whose key the other set contains *)
Definition seen3 : sstate :=
  mkS (mkObs [mkNode 0 (0, 3)%nat 1 0; mkNode 1 (0, 2)%nat 2 0] [mkNode 2 (1, 3)%nat 2 0]) false 3.
Example spec_judges_remove_all :
  check_step KHashSet seen3 ORemAll (mkObs [mkNode 0 (0, 3)%nat 1 0] [mkNode 2 (1, 3)%nat 2 0]) [EDestroy 1 (0, 2)%nat] = true /\
  check_step KHashSet seen3 ORemAll (mkObs [mkNode 1 (0, 2)%nat 2 0] [mkNode 2 (1, 3)%nat 2 0]) [EDestroy 0 (0, 3)%nat] = false.
Proof. split; reflexivity. Qed.

Example blocks_nonvacuous :
  let st := run KMap 0 (init KMap 0) [OApp 1 1; OApp 2 2; OApp 3 3; OApp 4 4; OApp 5 5; OApp 6 6; OApp 7 7; OApp 8 8; OApp 9 9; ORemKey 3; OClear; OApp 1 1] in
  (2 <=? length (blocks (s_a st)))%nat = true /\ length (elems (s_a st)) = 1%nat.
Proof. vm_compute. auto. Qed.

(* ==== the cell machine (List, PoolList, HashMap, HashSet, PoolMap) =================================== *)
Theorem cell_machine_refines_model : forall k cap L S o,
  heap_kind k = true -> Rep k L S ->
  Rep k (fst (lstep k cap L o)) (fst (step k cap S o)) /\ snd (lstep k cap L o) = snd (step k cap S o).
Proof. exact heap_step_refines. Qed.
Print Assumptions cell_machine_refines_model.

Theorem cell_machine_represents : forall k cap ops,
  heap_kind k = true -> Rep k (lrun k cap (linit cap) ops) (run k cap (init k cap) ops).
Proof. exact heap_refines_all. Qed.
Print Assumptions cell_machine_represents.

Theorem cell_machine_trace : forall k cap ops,
  heap_kind k = true -> ltrace k cap (linit cap) ops = trace k cap (init k cap) ops.
Proof. exact heap_trace_all. Qed.
Print Assumptions cell_machine_trace.

Theorem cell_objects_never_move : forall k cap ops1 ops2 s s' o o',
  heap_kind k = true ->
  let L1 := lrun k cap (linit cap) ops1 in
  let L2 := lrun k cap L1 ops2 in
  c_obj (hget (l_heap L1) s) = Some o -> c_obj (hget (l_heap L2) s') = Some o' -> o_id o = o_id o' ->
  s' = s /\ o_key o' = o_key o.
Proof. exact heap_stable_all. Qed.
Print Assumptions cell_objects_never_move.

Theorem cell_objects_only_on_lists : forall k cap ops s o,
  heap_kind k = true ->
  let L := lrun k cap (linit cap) ops in
  c_obj (hget (l_heap L) s) = Some o ->
  In (mkNode (o_id o) s (o_key o) (o_val o)) (lelems (l_heap L) (l_a L) ++ lelems (l_heap L) (l_b L)).
Proof. exact heap_objects_on_lists_all. Qed.
Print Assumptions cell_objects_only_on_lists.

Theorem cell_lists_well_formed : forall k cap ops,
  heap_kind k = true ->
  let L := lrun k cap (linit cap) ops in
  dll (l_heap L) (hd_begin (l_a L)) PNull (lelems (l_heap L) (l_a L)) (hd_last (l_a L)) (PEnd false) /\
  dll (l_heap L) (hd_begin (l_b L)) PNull (lelems (l_heap L) (l_b L)) (hd_last (l_b L)) (PEnd true) /\
  hd_size (l_a L) = length (lelems (l_heap L) (l_a L)) /\ hd_size (l_b L) = length (lelems (l_heap L) (l_b L)).
Proof. exact heap_lists_wf_all. Qed.
Print Assumptions cell_lists_well_formed.

Theorem cell_pools_and_chains : forall k cap ops,
  heap_kind k = true ->
  let L := lrun k cap (linit cap) ops in let S := run k cap (init k cap) ops in
  fl (l_heap L) (hd_free (l_a L)) (p_free (c_pool (s_a S))) /\ fl (l_heap L) (hd_free (l_b L)) (p_free (c_pool (s_b S))) /\
  hd_blocks (l_a L) = p_blocks (c_pool (s_a S)) /\ hd_blocks (l_b L) = p_blocks (c_pool (s_b S)) /\
  hrep (l_heap L) (l_a L) (c_body (s_a S)) /\ hrep (l_heap L) (l_b L) (c_body (s_b S)).
Proof. exact heap_pools_all. Qed.
Print Assumptions cell_pools_and_chains.

Theorem cell_machine_satisfies_spec : forall k cap ops,
  heap_kind k = true -> check_trace k ss_init (ltrace k cap (linit cap) ops) 0 = None.
Proof. exact heap_spec_all. Qed.
Print Assumptions cell_machine_satisfies_spec.

(* ---- non-vacuity of the cell machine ------------------------------------------------------------------ *)
Definition cm_ops : list op :=
  [OApp 0 1; OApp 0 2; OApp 0 3; OApp 0 4; OApp 0 5; ORemAt 1; OSel true; OApp 0 6; OSel false; OSwap; OApp 0 7; OInsAt 1 0 8].
Example cell_machine_runs :        (* five items (two blocks), a removal in the middle, swap, insertion at a position *)
  let L := lrun KList 0 (linit 0) cm_ops in
  map n_id (lelems (l_heap L) (l_a L)) = [5; 7; 6]%nat /\ map n_id (lelems (l_heap L) (l_b L)) = [0; 2; 3; 4]%nat /\
  map n_slot (lelems (l_heap L) (l_b L)) = [(0, 3); (0, 1); (0, 0); (1, 3)]%nat /\
  hd_last (l_a L) = PItem (2, 2)%nat /\ c_next (hget (l_heap L) (2, 2)%nat) = PEnd false /\
  c_next (hget (l_heap L) (1, 3)%nat) = PEnd true.
Proof. vm_compute. auto 10. Qed.

Example cell_machine_hash_runs :   (* one bucket: chain of three, the middle one removed, back pointers fixed up *)
  let L := lrun KHashMap 1 (linit 1) [OApp 1 10; OApp 2 20; OApp 3 30; ORemKey 2; OApp 4 40] in
  map n_key (lelems (l_heap L) (l_a L)) = [1; 3; 4] /\ hd_data (l_a L) = Some O /\
  c_nextcell (hget (l_heap L) (0, 0)%nat) = PItem (1, 3)%nat /\            (* data[0] -> item of key 4 (reuses the freed item) *)
  c_nextcell (hget (l_heap L) (1, 3)%nat) = PItem (1, 2)%nat /\            (* -> item of key 3 *)
  c_cell (hget (l_heap L) (1, 2)%nat) = (1, 3)%nat /\                      (* its back pointer: the nextCell of key 4's item *)
  c_nextcell (hget (l_heap L) (1, 2)%nat) = PItem (1, 0)%nat /\            (* -> item of key 1 *)
  c_nextcell (hget (l_heap L) (1, 0)%nat) = PNull.
Proof. vm_compute. auto 10. Qed.

(* In this machine a payload can be moved: the classic "copy the successor's payload into the
   removed cell and unlink the successor" is two set_obj writes; after it the object 1 is in
   another cell, which is what cell_objects_never_move excludes for every history of lstep. *)
Example payload_move_is_expressible :
  let L := lrun KList 0 (linit 0) [OApp 0 10; OApp 0 20] in
  let H := l_heap L in
  let H' := set_obj (set_obj H (0, 3)%nat (c_obj (hget H (0, 2)%nat))) (0, 2)%nat None in
  option_map o_id (c_obj (hget H (0, 2)%nat)) = Some 1%nat /\ option_map o_id (c_obj (hget H' (0, 3)%nat)) = Some 1%nat /\
  c_obj (hget H' (0, 2)%nat) = None.
Proof. vm_compute. auto. Qed.

(* ==== Map / MultiMap: the rotations on a heap of tree cells ============================================ *)
Theorem tree_rotr_relinks : forall st cell a n1 h1 b n2 h2 c par,
  let t := Node (Node a n1 h1 b) n2 h2 c in
  NoDup (slots (inorder t)) -> trep_kids (th st) t (rd_tcref st cell) par ->
  (forall q, owner cell = Some q -> ~ In q (slots (inorder t))) ->
  trep (th (t_rotr st cell)) (rotr t) (rd_tcref (t_rotr st cell) cell) par /\ rot_frame st (t_rotr st cell) cell t.
Proof. exact rotr_refines. Qed.
Print Assumptions tree_rotr_relinks.

Theorem tree_rotl_relinks : forall st cell a n1 h1 b n2 h2 c par,
  let t := Node c n2 h2 (Node b n1 h1 a) in
  NoDup (slots (inorder t)) -> trep_kids (th st) t (rd_tcref st cell) par ->
  (forall q, owner cell = Some q -> ~ In q (slots (inorder t))) ->
  trep (th (t_rotl st cell)) (rotl t) (rd_tcref (t_rotl st cell) cell) par /\ rot_frame st (t_rotl st cell) cell t.
Proof. exact rotl_refines. Qed.
Print Assumptions tree_rotl_relinks.

Theorem tree_rebal_relinks : forall st item t par,
  NoDup (slots (inorder t)) -> trep (th st) t (Some item) par ->
  rd_tcref st (cref_of (th st) item) = Some item ->
  (forall q, owner (cref_of (th st) item) = Some q -> ~ In q (slots (inorder t))) ->
  let cell := cref_of (th st) item in
  trep (th (t_rebal st item)) (rebal t) (rd_tcref (t_rebal st item) cell) par /\ rot_frame st (t_rebal st item) cell t.
Proof. exact rebal_refines. Qed.
Print Assumptions tree_rebal_relinks.

Theorem tree_rebal_moves_no_object : forall st item t par x,
  NoDup (slots (inorder t)) -> trep (th st) t (Some item) par ->
  rd_tcref st (cref_of (th st) item) = Some item ->
  (forall q, owner (cref_of (th st) item) = Some q -> ~ In q (slots (inorder t))) ->
  t_obj (tget (th (t_rebal st item)) x) = t_obj (tget (th st) x).
Proof. exact rebal_moves_no_object. Qed.
Print Assumptions tree_rebal_moves_no_object.

(* non-vacuity: the left chain 3 <- 2 <- 1 (slope 2 at the top) hanging in the root pointer; rebal rotates
   right: item (0,1) becomes the root, (0,2) its right child, parent fields and heights rewritten *)
Definition tc (id : nat) (key : Z) (par l r : option slot) (h : nat) (sl : Z) : tcell := mkT (Some (mkObj id key 0)) par l r h sl.
Definition th3 : theap :=
  [((0, 2)%nat, tc 0 3 None (Some (0, 1)%nat) None 3 2);
   ((0, 1)%nat, tc 1 2 (Some (0, 2)%nat) (Some (0, 0)%nat) None 2 1);
   ((0, 0)%nat, tc 2 1 (Some (0, 1)%nat) None None 1 0)].
Definition t3 : tree :=
  Node (Node (Node Leaf (mkNode 2 (0, 0)%nat 1 0) 1 Leaf) (mkNode 1 (0, 1)%nat 2 0) 2 Leaf) (mkNode 0 (0, 2)%nat 3 0) 3 Leaf.
Example tree_rep_nonvacuous : trep th3 t3 (Some (0, 2)%nat) None /\ NoDup (slots (inorder t3)).
Proof. split; [cbn; auto 20|]. repeat constructor; cbn; intuition discriminate. Qed.
Example tree_rebal_nonvacuous :
  let st' := t_rebal (mkTS th3 (Some (0, 2)%nat)) (0, 2)%nat in
  troot st' = Some (0, 1)%nat /\ t_parent (tget (th st') (0, 1)%nat) = None /\
  t_left (tget (th st') (0, 1)%nat) = Some (0, 0)%nat /\ t_right (tget (th st') (0, 1)%nat) = Some (0, 2)%nat /\
  t_parent (tget (th st') (0, 2)%nat) = Some (0, 1)%nat /\ t_left (tget (th st') (0, 2)%nat) = None /\
  t_height (tget (th st') (0, 1)%nat) = 2%nat /\ t_height (tget (th st') (0, 2)%nat) = 1%nat /\
  option_map o_id (t_obj (tget (th st') (0, 2)%nat)) = Some 0%nat.
Proof. vm_compute. auto 10. Qed.

(* ==== Map / MultiMap: the full cell machine of coq/Avl (property C01, imported unchanged) ================== *)
(* AvlHeapModel.hstep performs every Item field write of Map.hpp / MultiMap.hpp (descent, link into the tree and the
   threaded list, rotations, the walk up the parent chain with its early exit, the two-child removal that relinks the
   neighbour Item into the removed one's place, clear, operator=, insert(const Map&), hinted insert) on a heap of cells
   addressed by the Item's allocation number; Properties_C01.cell_machine_refines_tree proves that it refines the AVL
   model.  The consequence for C05: while an Item stays in its container, its key field is never rewritten and its
   value field only by an assignment to that key - no operation moves a payload from one Item to another.  [b] selects
   the container of the pair, T1 / T2 are its cell heaps after ops1 and after ops1 ++ ops2. *)
From Avl Require AvlSpec AvlModel AvlHeapModel AvlHeapRep.
From Stable Require StableAvlCells.

Theorem map_cells_keep_their_payload :
  forall (f : AvlSpec.flavour) (ops1 ops2 : list AvlSpec.op) (hst1 hst2 : AvlHeapModel.hstate) (b : bool) (s : nat),
  AvlHeapModel.hrun f AvlHeapModel.h_init ops1 = Some hst1 ->
  AvlHeapModel.hrun f AvlHeapModel.h_init (ops1 ++ ops2) = Some hst2 ->
  In s (AvlHeapRep.tslots (AvlModel.tr (StableAvlCells.mside b (AvlModel.run f AvlModel.m_init ops1)))) ->
  In s (AvlHeapRep.tslots (AvlModel.tr (StableAvlCells.mside b (AvlModel.run f AvlModel.m_init (ops1 ++ ops2))))) ->
  let T1 := fst (AvlHeapModel.ts (StableAvlCells.hside b hst1)) in
  let T2 := fst (AvlHeapModel.ts (StableAvlCells.hside b hst2)) in
  AvlHeapModel.ckey (T2 s) = AvlHeapModel.ckey (T1 s) /\
  (existsb (StableAvlCells.touches (AvlHeapModel.ckey (T1 s))) ops2 = false -> AvlHeapModel.cval (T2 s) = AvlHeapModel.cval (T1 s)).
Proof. exact StableAvlCells.tree_cell_payload_stays. Qed.
Print Assumptions map_cells_keep_their_payload.

Theorem map_cell_machine_runs : forall (f : AvlSpec.flavour) (ops : list AvlSpec.op),
  exists hst, AvlHeapModel.hrun f AvlHeapModel.h_init ops = Some hst.
Proof. exact StableAvlCells.tree_cells_exist. Qed.
Print Assumptions map_cell_machine_runs.

(* non-vacuity: keys 50 30 70 20 40 (Items 0..4); then 10 (rotation at the root), the two-child removal of 30 (its
   neighbour Item is relinked into its place), 35: Item 4 (key 40) is in the tree before and after and its cell still
   holds key 40 / value 5, while it has moved up in the tree (child of Item 1 before, the root afterwards) *)
Definition avl_ops1 : list AvlSpec.op :=
  [AvlSpec.OIns 50 1; AvlSpec.OIns 30 2; AvlSpec.OIns 70 3; AvlSpec.OIns 20 4; AvlSpec.OIns 40 5].
Definition avl_ops2 : list AvlSpec.op := [AvlSpec.OIns 10 6; AvlSpec.ORemKey 30; AvlSpec.OIns 35 7].
Definition cell_of (ops : list AvlSpec.op) (s : nat) : option (Z * Z * option nat) :=
  match AvlHeapModel.hrun AvlSpec.FMap AvlHeapModel.h_init ops with
  | Some h => let c := fst (AvlHeapModel.ts (AvlHeapModel.h_a h)) s in
              Some (AvlHeapModel.ckey c, AvlHeapModel.cval c, AvlHeapModel.cpar c)
  | None => None
  end.
Example map_cells_nonvacuous :
  cell_of avl_ops1 4 = Some (40, 5, Some 1%nat) /\ cell_of (avl_ops1 ++ avl_ops2) 4 = Some (40, 5, None) /\
  AvlHeapRep.tslots (AvlModel.tr (AvlModel.m_a (AvlModel.run AvlSpec.FMap AvlModel.m_init avl_ops1))) = [3; 1; 4; 0; 2]%nat /\
  AvlHeapRep.tslots (AvlModel.tr (AvlModel.m_a (AvlModel.run AvlSpec.FMap AvlModel.m_init (avl_ops1 ++ avl_ops2)))) = [5; 3; 6; 4; 0; 2]%nat.
Proof. vm_compute. auto 10. Qed.
