From Coq Require Extraction ExtrOcamlBasic.
From Common Require Import Words.
From Stable Require Import StableSpec StableModel StableHeap.
Extraction Language OCaml.
Extraction "model.ml" anchor init step observe ss_init check_step next_sstate check_trace
  elems sel other order inorder
  linit lstep lobserve lelems items free_walk hget lsel heap_kind is_hashk.
