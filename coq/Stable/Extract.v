From Coq Require Extraction ExtrOcamlBasic.
From Common Require Import Words.
From Stable Require Import StableSpec StableModel.
Extraction Language OCaml.
Extraction "model.ml" anchor init step observe ss_init check_step next_sstate check_trace
  elems sel other order inorder.
