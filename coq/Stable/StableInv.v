(* The pool discipline: effect of every micro-operation on the element sequence and on the pool,
   and the invariant "identities are unique and below the object counter; free items and live
   items of both containers are pairwise distinct and belong to blocks older than the
   allocation counter". *)
From Coq Require Import ZArith List Bool Arith Lia.
From Stable Require Import Gen_Stable StableSpec StableModel StableTree.
Import ListNotations.

Definition slots (l : list node) : list slot := map n_slot l.
Definition ids (l : list node) : list nat := map n_id l.
Definition cslots (c : cont) : list slot := p_free (c_pool c) ++ slots (elems c).

Definition sdec : forall a b : slot, {a = b} + {a <> b}.
Proof. decide equality; apply Nat.eq_dec. Defined.

Lemma slot_eqb_eq a b : slot_eqb a b = true <-> a = b.
Proof.
  destruct a as [a1 a2], b as [b1 b2]. unfold slot_eqb. cbn [fst snd].
  rewrite andb_true_iff, !Nat.eqb_eq. split; [intros [-> ->]; auto|intros H; inversion H; auto].
Qed.

(* ---- order of a fresh block ------------------------------------------------------------------ *)
Lemma NoDup_mk_order n d : NoDup (mk_order n d).
Proof.
  unfold mk_order. destruct d.
  - constructor.
    + intro H. apply in_rev in H. apply in_seq in H. lia.
    + apply NoDup_rev, seq_NoDup.
  - apply NoDup_rev, seq_NoDup.
Qed.

Lemma fresh_block_fst k ser s : In s (fresh_block k ser) -> fst s = ser.
Proof. unfold fresh_block. rewrite in_map_iff. intros (i & <- & _). reflexivity. Qed.

Lemma fresh_block_NoDup k ser : NoDup (fresh_block k ser).
Proof.
  unfold fresh_block. generalize (NoDup_mk_order (block_items k) (first_direct k)). fold (order k).
  induction (order k) as [|i l IH]; intros H; cbn [map]; constructor.
  - inversion H; subst. rewrite in_map_iff. intros (j & E & Hj). inversion E; subst. contradiction.
  - apply IH. inversion H; auto.
Qed.

(* ---- alloc -------------------------------------------------------------------------------------- *)
Lemma alloc_effect k p ser s p' ser' ev :
  alloc k p ser = (s, p', ser', ev) ->
  (p_free p = s :: p_free p' /\ p_blocks p' = p_blocks p /\ ser' = ser /\ ev = [])
  \/ (p_free p = [] /\ NoDup (s :: p_free p') /\ (forall x, In x (s :: p_free p') -> fst x = ser)
      /\ p_blocks p' = ser :: p_blocks p /\ ser' = S ser /\ ev = [EAlloc ser]).
Proof.
  unfold alloc. destruct (p_free p) as [|s0 f] eqn:Ef.
  - destruct (fresh_block k ser) as [|s1 f1] eqn:Eb; intros H; inversion H; subst; right; cbn [p_free p_blocks].
    + repeat split; auto. { constructor; [intros []|constructor]. } intros x [<-|[]]. reflexivity.
    + repeat split; auto.
      * rewrite <- Eb. apply fresh_block_NoDup.
      * intros x Hx. apply (fresh_block_fst k). rewrite Eb. exact Hx.
  - intros H; inversion H; subst. left. cbn [p_free p_blocks]. auto.
Qed.

(* ---- shapes and event classes ------------------------------------------------------------------ *)
Definition assigns (k : kind) : bool := match k with KMap | KHashMap | KPoolMap => true | _ => false end.

Definition shape (k : kind) (c : cont) : Prop :=
  match c_body c with
  | BSeq _ => k = KList \/ k = KPoolList
  | BTree _ => k = KMap \/ k = KMulti
  | BHash _ _ => k = KHashMap \/ k = KHashSet \/ k = KPoolMap
  end.

Definition ins_ev_ok (k : kind) (e : event) : Prop :=
  match e with
  | EAlloc _ => True
  | ECons _ _ => is_pool k = true
  | ECopy _ _ => is_pool k = false
  | EAssign _ => is_pool k = false
  | _ => False
  end.

Lemma birth_ok k id s : ins_ev_ok k (birth k id s).
Proof. unfold birth. destruct (is_pool k) eqn:E; cbn [ins_ev_ok]; auto. Qed.

Lemma shape_init k cap : shape k (init_cont k cap).
Proof. destruct k; cbn; auto. Qed.

(* ---- hash find ------------------------------------------------------------------------------------ *)
Lemma chain_find_some l k ch i :
  chain_find l k ch = Some i -> exists n, nth_error l i = Some n /\ n_key n = k.
Proof.
  induction ch as [|s r IH]; cbn [chain_find]; [discriminate|].
  destruct (find_index (fun n => slot_eqb (n_slot n) s) l) as [j|]; auto.
  destruct (nth_error l j) as [n|] eqn:En; auto.
  destruct (Z.eqb_spec (n_key n) k) as [E|E]; auto.
  intros H. inversion H; subst. exists n. auto.
Qed.

Lemma h_find_some l hd k i : h_find l hd k = Some i -> exists n, nth_error l i = Some n /\ n_key n = k.
Proof. unfold h_find. destruct (h_data hd); [apply chain_find_some|discriminate]. Qed.

(* ---- insert --------------------------------------------------------------------------------------- *)
Lemma c_insert_effect k pos key val c ser nid c' ser' nid' ev :
  shape k c ->
  c_insert k pos key val c ser nid = (c', ser', nid', ev) ->
  shape k c' /\ Forall (ins_ev_ok k) ev /\
  ((nid' = nid /\ ser' = ser /\ c_pool c' = c_pool c /\
    (elems c' = elems c \/
     (assigns k = true /\ exists l1 x l2, elems c = l1 ++ x :: l2 /\ elems c' = l1 ++ set_val x val :: l2 /\ n_key x = key)))
   \/
   (nid' = S nid /\ exists nd l1 l2 ser1 ev1 ev2,
       elems c = l1 ++ l2 /\ elems c' = l1 ++ nd :: l2 /\ n_id nd = nid /\
       (ser <= ser1)%nat /\ alloc k (c_pool c) ser1 = (n_slot nd, c_pool c', ser', ev2) /\
       ev = ev1 ++ ev2 ++ [birth k nid (n_slot nd)])).
Proof.
  intros Hs. unfold c_insert, shape, elems in *. destruct (c_body c) as [l|t|l hd] eqn:Eb.
  - (* sequence *)
    destruct (alloc k (c_pool c) ser) as [[[s p'] ser2] ev2] eqn:Ea. intros H; injection H as E1' E2' E3' E4'; subst c' ser' nid' ev.
    cbn [c_body c_pool elems_of]. split; [exact Hs|]. split.
    { apply Forall_app. split.
      - apply alloc_effect in Ea. destruct Ea as [(_ & _ & _ & ->)|(_ & _ & _ & _ & _ & ->)]; repeat constructor.
      - repeat constructor. apply birth_ok. }
    right. split; auto.
    destruct (insert_at_split (if is_pool k then length l else pos) (mkNode nid s 0%Z val) l) as (l1 & l2 & E1 & E2).
    exists (mkNode nid s 0%Z val), l1, l2, ser, [], ev2. cbn [n_id n_slot app]. repeat split; auto.
  - (* tree *)
    destruct (ins_new (is_multi k) key t) eqn:En.
    + destruct (alloc k (c_pool c) ser) as [[[s p'] ser2] ev2] eqn:Ea. intros H; injection H as E1' E2' E3' E4'; subst c' ser' nid' ev.
      cbn [c_body c_pool elems_of]. split; [exact Hs|]. split.
      { apply Forall_app. split.
        - apply alloc_effect in Ea. destruct Ea as [(_ & _ & _ & ->)|(_ & _ & _ & _ & _ & ->)]; repeat constructor.
        - repeat constructor. apply birth_ok. }
      right. split; auto.
      destruct (ins_new_split (is_multi k) (mkNode nid s key val) t En) as (l1 & l2 & E1 & E2).
      exists (mkNode nid s key val), l1, l2, ser, [], ev2. cbn [n_id n_slot app]. repeat split; auto.
    + intros H; injection H as E1' E2' E3' E4'; subst c' ser' nid' ev. cbn [c_body c_pool elems_of].
      assert (Hk : k = KMap).
      { destruct Hs as [->| ->]; auto. cbn [is_multi] in En. rewrite ins_new_multi in En. discriminate. }
      subst k. cbn [is_multi] in *. split; [left; reflexivity|].
      destruct (ins_old_split (mkNode nid (O, O) key val) t En) as (l1 & x & l2 & F1 & F2 & F3 & F4).
      cbn [n_key n_val] in *. split.
      { rewrite F3. repeat constructor. }
      left. repeat split; auto. right. split; [reflexivity|]. exists l1, x, l2. auto.
  - (* hash *)
    destruct (h_find l hd key) as [i|] eqn:Ef.
    + destruct (h_find_some _ _ _ _ Ef) as (n & Hn & Hk).
      destruct (assign_at_split i val n l Hn) as (l1 & l2 & E1 & E2).
      destruct k; try (destruct Hs as [Hs|[Hs|Hs]]; discriminate); intros H; injection H as E1' E2' E3' E4'; subst c' ser' nid' ev;
        cbn [c_body c_pool elems_of]; unfold shape; try rewrite Eb; cbn [c_body].
      * (* HashMap *) split; [auto|]. split. { rewrite Hn. repeat constructor. }
        left. repeat split; auto. right. split; [reflexivity|]. exists l1, n, l2. try rewrite Eb. cbn [elems_of]. auto.
      * (* HashSet *) split; [auto|]. split; [constructor|]. left. repeat split; auto.
      * (* PoolMap *) split; [auto|]. split; [constructor|].
        left. repeat split; auto. right. split; [reflexivity|]. exists l1, n, l2. try rewrite Eb. cbn [elems_of]. auto.
    + destruct (match h_data hd with
                | Some _ => (hd, ser, [])
                | None => (mkHash (h_cap hd) (Some ser) (repeat [] (h_cap hd)), S ser, [EAlloc ser])
                end) as [[hd1 ser1] ev1] eqn:Ed.
      destruct (alloc k (c_pool c) ser1) as [[[s p'] ser2] ev2] eqn:Ea. intros H; injection H as E1' E2' E3' E4'; subst c' ser' nid' ev.
      cbn [c_body c_pool elems_of]. split; [exact Hs|].
      assert (Hd : (ser <= ser1)%nat /\ Forall (ins_ev_ok k) ev1).
      { destruct (h_data hd); inversion Ed; subst; split; auto; repeat constructor. }
      destruct Hd as [Hle Hev1]. split.
      { apply Forall_app. split; [exact Hev1|]. apply Forall_app. split.
        - apply alloc_effect in Ea. destruct Ea as [(_ & _ & _ & ->)|(_ & _ & _ & _ & _ & ->)]; repeat constructor.
        - repeat constructor. apply birth_ok. }
      right. split; auto.
      set (nd := mkNode nid s key (match k with KHashSet => 0%Z | _ => val end)).
      destruct (insert_at_split pos nd l) as (l1 & l2 & E1 & E2).
      exists nd, l1, l2, ser1, ev1, ev2. cbn [n_id n_slot nd]. repeat split; auto.
Qed.

(* the effect of an insertion as a predicate, so that the facts below hold for every operation that has it (the plain
   insert above, the hinted insert of Map / MultiMap) *)
Definition InsEff (k : kind) (key val : Z) (c : cont) (ser nid : nat) (c' : cont) (ser' nid' : nat) (ev : list event) : Prop :=
  shape k c' /\ Forall (ins_ev_ok k) ev /\
  ((nid' = nid /\ ser' = ser /\ c_pool c' = c_pool c /\
    (elems c' = elems c \/
     (assigns k = true /\ exists l1 x l2, elems c = l1 ++ x :: l2 /\ elems c' = l1 ++ set_val x val :: l2 /\ n_key x = key)))
   \/
   (nid' = S nid /\ exists nd l1 l2 ser1 ev1 ev2,
       elems c = l1 ++ l2 /\ elems c' = l1 ++ nd :: l2 /\ n_id nd = nid /\
       (ser <= ser1)%nat /\ alloc k (c_pool c) ser1 = (n_slot nd, c_pool c', ser', ev2) /\
       ev = ev1 ++ ev2 ++ [birth k nid (n_slot nd)])).

Lemma c_insert_eff k pos key val c ser nid c' ser' nid' ev :
  shape k c -> c_insert k pos key val c ser nid = (c', ser', nid', ev) -> InsEff k key val c ser nid c' ser' nid' ev.
Proof. intros Hs E. exact (c_insert_effect _ _ _ _ _ _ _ _ _ _ _ Hs E). Qed.

Lemma c_insert_hint_eff k pos key val c ser nid c' ser' nid' ev :
  shape k c -> c_insert_hint k pos key val c ser nid = (c', ser', nid', ev) -> InsEff k key val c ser nid c' ser' nid' ev.
Proof.
  intros Hs. unfold c_insert_hint. destruct (c_body c) as [l|t|l hd] eqn:Eb; try (apply c_insert_eff; exact Hs).
  destruct (is_multi k) eqn:Em; [|apply c_insert_eff; exact Hs].
  destruct (alloc k (c_pool c) ser) as [[[s p'] ser2] ev2] eqn:Ea. intros H; injection H as E1' E2' E3' E4'; subst c' ser' nid' ev.
  unfold InsEff, shape, elems in *. rewrite Eb in *. cbn [c_body c_pool elems_of]. split; [exact Hs|]. split.
  { apply Forall_app. split.
    - apply alloc_effect in Ea. destruct Ea as [(_ & _ & _ & ->)|(_ & _ & _ & _ & _ & ->)]; repeat constructor.
    - repeat constructor. apply birth_ok. }
  right. split; auto.
  destruct (hint_ins_split pos (mkNode nid s key val) t) as (l1 & l2 & E1 & E2).
  exists (mkNode nid s key val), l1, l2, ser, [], ev2. cbn [n_id n_slot app]. repeat split; auto.
Qed.

(* ---- remove --------------------------------------------------------------------------------------- *)
Lemma c_remove_at_effect k pos c c' ev :
  shape k c ->
  c_remove_at pos c = (c', ev) ->
  shape k c' /\
  ((c' = c /\ ev = []) \/
   (exists nd l1 l2, elems c = l1 ++ nd :: l2 /\ elems c' = l1 ++ l2 /\
                     c_pool c' = release (n_slot nd) (c_pool c) /\ ev = [EDestroy (n_id nd) (n_slot nd)])).
Proof.
  intros Hs. unfold c_remove_at. destruct (nth_error (elems c) pos) as [nd|] eqn:En; intros H; inversion H; subst; clear H.
  - destruct (remove_at_split pos nd (elems c) En) as (l1 & l2 & E1 & E2 & _).
    split.
    + unfold shape in *. cbn [c_body]. destruct (c_body c); exact Hs.
    + right. exists nd, l1, l2. cbn [c_pool]. repeat split; auto.
      unfold elems in *. cbn [c_body]. destruct (c_body c) as [l|t|l hd]; cbn [elems_of] in *; auto.
      rewrite remove_rank_inorder. exact E2.
  - split; auto.
Qed.

(* ---- clear / destroy ---------------------------------------------------------------------------- *)
Lemma c_clear_effect k c c' ev :
  shape k c -> c_clear c = (c', ev) ->
  shape k c' /\ elems c' = [] /\ ev = destroy_events (elems c) /\
  p_free (c_pool c') = rev (slots (elems c)) ++ p_free (c_pool c) /\ p_blocks (c_pool c') = p_blocks (c_pool c).
Proof.
  intros Hs H. unfold c_clear in H. inversion H; subst; clear H. cbn [c_pool p_free p_blocks]. split.
  - unfold shape in *. cbn [c_body]. destruct (c_body c); exact Hs.
  - repeat split; auto. unfold elems. cbn [c_body]. destruct (c_body c); reflexivity.
Qed.
