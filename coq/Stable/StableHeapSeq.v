(* The sequence kinds (List, PoolList) meet the obligations of StableHeapStep.v. *)
From Coq Require Import ZArith List Bool Arith Lia.
From Stable Require Import Gen_Stable StableSpec StableModel StableTree StableInv StableProofs StableTheorems StableBlocks
  StableHeap StableHeapBase StableHeapSeg StableHeapRep StableHeapStep.
Import ListNotations.

Definition seq_kind (k : kind) : bool := match k with KList | KPoolList => true | _ => false end.

Lemma seq_kind_facts k : seq_kind k = true -> is_hashk k = false /\ heap_kind k = true.
Proof. destruct k; cbn; intros; try discriminate; auto. Qed.

Lemma seq_body k c : seq_kind k = true -> shape k c -> exists l, c_body c = BSeq l.
Proof.
  intros Hk Hs. unfold shape in Hs. destruct (c_body c) as [l|t|l hd]; [eauto| |];
    destruct k; cbn in Hk; try discriminate; repeat (destruct Hs as [Hs|Hs]; try discriminate).
Qed.

Lemma seq_dser k c : seq_kind k = true -> shape k c -> dser c = [] /\ bcells c = [] /\ ChInv c.
Proof. intros Hk Hs. destruct (seq_body _ _ Hk Hs) as (l & Eb). unfold bcells, dser, ChInv. rewrite Eb. auto. Qed.

Lemma DInv_seq k c o ser : seq_kind k = true -> shape k c -> shape k o -> BInv c o ser -> DInv c o ser.
Proof.
  intros Hk Hc Ho [_ _ B3 _]. destruct (seq_dser _ _ Hk Hc) as (E1 & _). destruct (seq_dser _ _ Hk Ho) as (E2 & _).
  constructor; rewrite E1, E2; cbn [app]; auto.
Qed.

Lemma CInv_seq k c o ser nid : seq_kind k = true -> shape k c -> shape k o -> PInv c o ser nid -> BInv c o ser -> CInv k c o ser nid.
Proof.
  intros Hk Hc Ho P B. unfold CInv. split; auto. split; auto. split; auto. split; auto. split; [eapply DInv_seq; eauto|].
  split; [apply (seq_dser _ _ Hk Hc)|apply (seq_dser _ _ Hk Ho)].
Qed.

Lemma cfoot_seq k c : seq_kind k = true -> shape k c -> forall x, In x (cfoot c) <-> In x (cslots c).
Proof. intros Hk Hs x. destruct (seq_dser _ _ Hk Hs) as (_ & E & _). unfold cfoot. rewrite E, app_nil_r. tauto. Qed.

Lemma insert_ok_seq k : seq_kind k = true -> InsertOK k.
Proof.
  intros Hk side H h c o ser nid pos posp key val c' ser' nid' ev (Sc & So & P & B & D & Chc & Cho) R Hfr Hpos E.
  destruct (seq_kind_facts _ Hk) as (Hh & Hhk). destruct (seq_body _ _ Hk Sc) as (l & Eb).
  assert (El : elems c = l) by (unfold elems; rewrite Eb; reflexivity).
  destruct (c_insert_effect _ _ _ _ _ _ _ _ _ _ _ Sc E) as (Sc' & _ & Heff).
  destruct (PInv_insert _ _ _ _ _ _ _ _ _ _ _ _ Sc P E) as (P' & Ls & Ln).
  destruct (BInv_insert _ _ _ _ _ _ _ _ _ _ _ _ Sc B E) as (B' & _).
  split; [apply CInv_seq; auto|]. split; [exact Ls|]. split; [exact Ln|]. split.
  - intros x Hx. rewrite (cfoot_seq _ _ Hk Sc') in Hx. rewrite (cfoot_seq _ _ Hk Sc).
    destruct Heff as [(_ & _ & Ep & Hel)|(_ & nd & l1 & l2 & ser1 & ev1 & ev2 & E1 & E2 & E3 & Hle & Ea & _)].
    + left. unfold cslots in *. rewrite Ep in Hx. destruct Hel as [Hel|(_ & l1 & y & l2 & F1 & F2 & _)]; [rewrite Hel in Hx; exact Hx|].
      rewrite F1. rewrite F2 in Hx. unfold slots in *. rewrite !map_app in *. cbn [map set_val n_slot] in *. exact Hx.
    + pose proof Ea as Ea'. apply alloc_effect in Ea'. unfold cslots in *. rewrite E2 in Hx. rewrite E1.
      unfold slots in *. rewrite !map_app in *. cbn [map] in Hx. rewrite !in_app_iff in *. cbn [In] in Hx.
      destruct Ea' as [(Ef & _ & -> & _)|(Ef & _ & Hfst & _ & -> & _)].
      * left. rewrite Ef. cbn [In]. tauto.
      * destruct Hx as [Hx|[Hx|[Hx|Hx]]]; auto.
        -- right. rewrite (Hfst x) by (right; exact Hx). lia.
        -- right. rewrite (Hfst x) by (left; exact Hx). lia.
  - rewrite Hh in *. cbn [negb andb] in Hpos. rewrite andb_true_r in Hpos. rewrite El in Hpos.
    eapply insert_seq_refine; eauto.
Qed.

Lemma remove_ok_seq k : seq_kind k = true -> RemoveOK k.
Proof.
  intros Hk side H h c o ser nid pos nd c' ev (Sc & So & P & B & D & Chc & Cho) R Hn E.
  destruct (seq_kind_facts _ Hk) as (Hh & Hhk). destruct (seq_body _ _ Hk Sc) as (l & Eb).
  destruct (c_remove_at_effect _ _ _ _ _ Sc E) as (Sc' & Heff).
  pose proof (PInv_remove _ _ _ _ _ _ _ _ Sc P E) as P'. destruct (BInv_remove _ _ _ _ _ _ _ Sc B E) as (B' & _).
  split; [apply CInv_seq; auto|]. split.
  - intros x Hx. rewrite (cfoot_seq _ _ Hk Sc') in Hx. rewrite (cfoot_seq _ _ Hk Sc).
    destruct Heff as [(-> & _)|(nd' & l1 & l2 & E1 & E2 & Ep & _)]; auto.
    unfold cslots in *. rewrite E2, Ep in Hx. rewrite E1. cbn [release p_free] in Hx. unfold slots in *. rewrite !map_app in *. cbn [map].
    rewrite !in_app_iff in *. cbn [In] in *. tauto.
  - eapply remove_seq_refine; eauto. eapply NoDup_cslots; eauto.
Qed.

Lemma clear_ok_seq k : seq_kind k = true -> ClearOK k.
Proof.
  intros Hk side H h c o ser nid c' ev (Sc & So & P & B & D & Chc & Cho) R E.
  destruct (seq_kind_facts _ Hk) as (Hh & Hhk). destruct (seq_body _ _ Hk Sc) as (l & Eb).
  destruct (c_clear_effect _ _ _ _ Sc E) as (Sc' & E1 & _ & Ef & _).
  pose proof (PInv_clear _ _ _ _ _ _ _ Sc P E) as P'. destruct (BInv_clear _ _ _ _ _ _ Sc B E) as (B' & _).
  split; [apply CInv_seq; auto|]. split.
  - intros x Hx. rewrite (cfoot_seq _ _ Hk Sc') in Hx. rewrite (cfoot_seq _ _ Hk Sc).
    unfold cslots in *. rewrite E1, Ef in Hx. cbn [slots map] in Hx. rewrite app_nil_r in Hx. rewrite !in_app_iff in *. rewrite <- in_rev in Hx. tauto.
  - eapply clear_seq_refine; eauto. eapply NoDup_cslots; eauto.
Qed.

Lemma find_ok_seq k : seq_kind k = true -> FindOK k.
Proof.
  intros Hk side H h c o ser nid key (Sc & _) R.
  destruct (seq_kind_facts _ Hk) as (Hh & Hhk). destruct (seq_body _ _ Hk Sc) as (l & Eb).
  unfold find_pos, l_find_pos. rewrite Eb, Hh. destruct (is_pool k); auto.
  rewrite (items_rep _ _ _ _ R). assert (El : elems c = l) by (unfold elems; rewrite Eb; reflexivity). rewrite El.
  destruct R as [R1 _ _ _ _]. rewrite El in R1. apply find_val_spec. eapply dll_objs; eauto.
Qed.
