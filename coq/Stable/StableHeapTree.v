(* The AVL rotations of Map.hpp / MultiMap.hpp (rotr, rotl, shiftr, shiftl, rebal: Map.hpp:470-540) as
   rewrites of the parent / left / right / height / slope fields of a heap of tree cells.  No proofs in
   this file.  As in StableHeap.v the object field of a cell can be written ([set_tobj]); the
   rotations do not write it. *)
From Coq Require Import ZArith List Bool Arith.
From Stable Require Import Gen_Stable StableSpec StableModel StableHeap.
Import ListNotations.
Local Open Scope Z_scope.

Record tcell := mkT { t_obj : option obj; t_parent : option slot; t_left : option slot; t_right : option slot;
                      t_height : nat; t_slope : Z }.
Definition tcell0 : tcell := mkT None None None None O 0.

Definition theap := list (slot * tcell).
Fixpoint tget (H : theap) (s : slot) : tcell :=
  match H with
  | [] => tcell0
  | (s', c) :: r => if slot_eqb s' s then c else tget r s
  end.
Fixpoint tdel (H : theap) (s : slot) : theap :=
  match H with
  | [] => []
  | (s', c) :: r => if slot_eqb s' s then tdel r s else (s', c) :: tdel r s
  end.
Definition tset (H : theap) (s : slot) (c : tcell) : theap := (s, c) :: tdel H s.

Definition set_tobj (H : theap) (s : slot) (v : option obj) : theap :=
  let c := tget H s in tset H s (mkT v (t_parent c) (t_left c) (t_right c) (t_height c) (t_slope c)).
Definition set_tparent (H : theap) (s : slot) (v : option slot) : theap :=
  let c := tget H s in tset H s (mkT (t_obj c) v (t_left c) (t_right c) (t_height c) (t_slope c)).
Definition set_tleft (H : theap) (s : slot) (v : option slot) : theap :=
  let c := tget H s in tset H s (mkT (t_obj c) (t_parent c) v (t_right c) (t_height c) (t_slope c)).
Definition set_tright (H : theap) (s : slot) (v : option slot) : theap :=
  let c := tget H s in tset H s (mkT (t_obj c) (t_parent c) (t_left c) v (t_height c) (t_slope c)).
Definition set_theight (H : theap) (s : slot) (v : nat) : theap :=
  let c := tget H s in tset H s (mkT (t_obj c) (t_parent c) (t_left c) (t_right c) v (t_slope c)).
Definition set_tslope (H : theap) (s : slot) (v : Z) : theap :=
  let c := tget H s in tset H s (mkT (t_obj c) (t_parent c) (t_left c) (t_right c) (t_height c) v).

(* Item*& cell: the root pointer of the container, or the left / right field of an item *)
Inductive tcref := TRoot | TLeft (s : slot) | TRight (s : slot).
Record tstate := mkTS { th : theap; troot : option slot }.
Definition rd_tcref (st : tstate) (c : tcref) : option slot :=
  match c with TRoot => troot st | TLeft s => t_left (tget (th st) s) | TRight s => t_right (tget (th st) s) end.
Definition wr_tcref (st : tstate) (c : tcref) (v : option slot) : tstate :=
  match c with
  | TRoot => mkTS (th st) v
  | TLeft s => mkTS (set_tleft (th st) s v) (troot st)
  | TRight s => mkTS (set_tright (th st) s v) (troot st)
  end.

Definition height_of (H : theap) (p : option slot) : nat := match p with Some s => t_height (tget H s) | None => O end.
(* Item::updateHeightAndSlope *)
Definition upd_hs (H : theap) (x : slot) : theap :=
  let lh := height_of H (t_left (tget H x)) in
  let rh := height_of H (t_right (tget H x)) in
  set_theight (set_tslope H x (Z.of_nat lh - Z.of_nat rh)) x (S (Nat.max lh rh)).

Definition t_rotr (st : tstate) (cell : tcref) : tstate :=
  match rd_tcref st cell with
  | Some oldTop =>
      let H := th st in
      match t_left (tget H oldTop) with
      | Some result =>
          let tmp := t_right (tget H result) in
          let H1 := set_tparent H result (t_parent (tget H oldTop)) in       (* result->parent = oldTop->parent *)
          let H2 := set_tright H1 result (Some oldTop) in                     (* result->right = oldTop *)
          let H3 := set_tleft H2 oldTop tmp in                                (* oldTop->left = tmp *)
          let H4 := match tmp with Some t => set_tparent H3 t (Some oldTop) | None => H3 end in
          let H5 := set_tparent H4 oldTop (Some result) in                    (* oldTop->parent = result *)
          let st6 := wr_tcref (mkTS H5 (troot st)) cell (Some result) in      (* cell = result *)
          let H7 := upd_hs (th st6) oldTop in
          mkTS (upd_hs H7 result) (troot st6)
      | None => st
      end
  | None => st
  end.

Definition t_rotl (st : tstate) (cell : tcref) : tstate :=
  match rd_tcref st cell with
  | Some oldTop =>
      let H := th st in
      match t_right (tget H oldTop) with
      | Some result =>
          let tmp := t_left (tget H result) in
          let H1 := set_tparent H result (t_parent (tget H oldTop)) in
          let H2 := set_tleft H1 result (Some oldTop) in
          let H3 := set_tright H2 oldTop tmp in
          let H4 := match tmp with Some t => set_tparent H3 t (Some oldTop) | None => H3 end in
          let H5 := set_tparent H4 oldTop (Some result) in
          let st6 := wr_tcref (mkTS H5 (troot st)) cell (Some result) in
          let H7 := upd_hs (th st6) oldTop in
          mkTS (upd_hs H7 result) (troot st6)
      | None => st
      end
  | None => st
  end.

(* if(oldTop->left->slope == -1) rotl(oldTop->left); rotr(cell) *)
Definition t_shiftr (st : tstate) (cell : tcref) : tstate :=
  match rd_tcref st cell with
  | Some oldTop =>
      let st1 := match t_left (tget (th st) oldTop) with
                 | Some l => if t_slope (tget (th st) l) =? -1 then t_rotl st (TLeft oldTop) else st
                 | None => st
                 end in
      t_rotr st1 cell
  | None => st
  end.
Definition t_shiftl (st : tstate) (cell : tcref) : tstate :=
  match rd_tcref st cell with
  | Some oldTop =>
      let st1 := match t_right (tget (th st) oldTop) with
                 | Some r => if t_slope (tget (th st) r) =? 1 then t_rotr st (TRight oldTop) else st
                 | None => st
                 end in
      t_rotl st1 cell
  | None => st
  end.

(* the cell an item hangs in: parent ? (parent->left == item ? parent->left : parent->right) : root *)
Definition cref_of (H : theap) (item : slot) : tcref :=
  match t_parent (tget H item) with
  | None => TRoot
  | Some p => match t_left (tget H p) with
              | Some x => if slot_eqb x item then TLeft p else TRight p
              | None => TRight p
              end
  end.
Definition t_rebal (st : tstate) (item : slot) : tstate :=
  let c := tget (th st) item in
  if t_slope c >? 1 then t_shiftr st (cref_of (th st) item)
  else if t_slope c <? -1 then t_shiftl st (cref_of (th st) item)
  else st.
