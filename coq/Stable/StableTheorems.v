(* The C05 theorems about the model, for all histories. *)
From Coq Require Import ZArith List Bool Arith Lia.
From Stable Require Import Gen_Stable StableSpec StableModel StableTree StableInv StableProofs.
Import ListNotations.

(* ---- reachability --------------------------------------------------------------------------------- *)
Lemma run_app k cap st a b : run k cap st (a ++ b) = run k cap (run k cap st a) b.
Proof. revert st. induction a as [|o a IH]; intros st; cbn [app run]; auto. Qed.

Lemma step_inv k cap st o : Inv k st -> Inv k (fst (step k cap st o)) /\ (s_nid st <= s_nid (fst (step k cap st o)))%nat
                                       /\ (s_ser st <= s_ser (fst (step k cap st o)))%nat.
Proof.
  intros HI. destruct (step k cap st o) as [st' ev] eqn:E. cbn [fst].
  destruct (step_facts _ _ _ _ _ _ HI E). auto.
Qed.

Lemma run_inv k cap ops : forall st, Inv k st -> Inv k (run k cap st ops) /\ (s_nid st <= s_nid (run k cap st ops))%nat.
Proof.
  induction ops as [|o ops IH]; intros st HI; cbn [run]; [auto|].
  destruct (step_inv k cap st o HI) as (H1 & H2 & _). destruct (IH _ H1) as (H3 & H4). split; auto. lia.
Qed.

Lemma reachable_inv k cap ops : Inv k (run k cap (init k cap) ops).
Proof. apply run_inv. apply Inv_init. Qed.

(* ---- elements are carried over: same identity => same place and key ---------------------------------- *)
Definition carried (l l' : list node) (nid : nat) : Prop :=
  forall n', In n' l' ->
    (nid <= n_id n')%nat \/ exists n, In n l /\ n_id n = n_id n' /\ n_slot n = n_slot n' /\ n_key n = n_key n'.

Lemma all_elems_in st n : In n (all_elems st) <-> In n (elems (sel st)) \/ In n (elems (other st)).
Proof. unfold all_elems, sel, other. rewrite in_app_iff. destruct (s_cur st); tauto. Qed.

Lemma carried_refl l nid : carried l l nid.
Proof. intros n' H. right. exists n'. auto. Qed.

Lemma carried_trans l l1 l2 nid nid1 :
  (nid <= nid1)%nat -> carried l l1 nid -> carried l1 l2 nid1 -> carried l l2 nid.
Proof.
  intros Hle H1 H2 n2 Hn2. destruct (H2 n2 Hn2) as [H|(n1 & Hn1 & E1 & E2 & E3)]; [left; lia|].
  destruct (H1 n1 Hn1) as [H|(n & Hn & F1 & F2 & F3)]; [left; lia|].
  right. exists n. repeat split; auto; congruence.
Qed.

Lemma step_carried k cap st o st' ev :
  Inv k st -> step k cap st o = (st', ev) -> carried (all_elems st) (all_elems st') (s_nid st).
Proof.
  intros HI E. pose proof (step_facts _ _ _ _ _ _ HI E) as F.
  destruct (cont_op o) eqn:Eo.
  - intros n' Hn'. apply all_elems_in in Hn'. destruct Hn' as [Hn'|Hn'].
    + destruct (sf_nodes _ _ _ _ _ F Eo n' Hn') as [(H1 & _)|(n & Hn & (F1 & F2 & F3 & _))]; [left; exact H1|].
      right. exists n. split; [apply all_elems_in; auto|auto].
    + rewrite (sf_other _ _ _ _ _ F Eo) in Hn'. right. exists n'. split; [apply all_elems_in; auto|auto].
  - unfold step in E. destruct o; try discriminate.
    + injection E as <- <-. unfold all_elems. cbn [s_a s_b]. apply carried_refl.
    + destruct (has_swap k); injection E as <- <-; [|apply carried_refl].
      intros n' Hn'. right. exists n'. unfold all_elems in *. cbn [s_a s_b] in *. rewrite in_app_iff in *. tauto.
Qed.

Lemma run_carried k cap ops : forall st,
  Inv k st -> carried (all_elems st) (all_elems (run k cap st ops)) (s_nid st).
Proof.
  induction ops as [|o ops IH]; intros st HI; cbn [run]; [apply carried_refl|].
  destruct (step k cap st o) as [st' ev] eqn:E. cbn [fst].
  pose proof (step_facts _ _ _ _ _ _ HI E) as F.
  eapply carried_trans; [apply (sf_nid _ _ _ _ _ F)|eapply step_carried; eauto|apply IH; apply (sf_inv _ _ _ _ _ F)].
Qed.

Lemma NoDup_ids_inj l a b : NoDup (ids l) -> In a l -> In b l -> n_id a = n_id b -> a = b.
Proof.
  induction l as [|x l IH]; intros Hnd Ha Hb E; [destruct Ha|].
  cbn [ids map] in Hnd. inversion Hnd as [|? ? Hx Hl]; subst.
  destruct Ha as [<-|Ha], Hb as [<-|Hb]; auto.
  - exfalso. apply Hx. rewrite E. apply in_map. exact Hb.
  - exfalso. apply Hx. rewrite <- E. apply in_map. exact Ha.
Qed.

Lemma Inv_ids k st : Inv k st -> NoDup (ids (all_elems st)) /\ forall n, In n (all_elems st) -> (n_id n < s_nid st)%nat.
Proof.
  intros [[H1 H2 _ _] _ _]. unfold all_elems, ids in *. rewrite map_app. split; auto.
  intros n Hn. rewrite Forall_forall in H2. apply H2. rewrite <- map_app. apply in_map. exact Hn.
Qed.

(* slots_stable: from any reachable state on, whatever operations follow, an element that is still
   there (same identity) is at the same place and has the same key *)
Lemma slots_stable_from k cap st ops n n' :
  Inv k st ->
  In n (all_elems st) -> In n' (all_elems (run k cap st ops)) -> n_id n = n_id n' ->
  n_slot n' = n_slot n /\ n_key n' = n_key n.
Proof.
  intros HI Hn Hn' E. destruct (Inv_ids _ _ HI) as (Hnd & Hlt).
  destruct (run_carried k cap ops st HI n' Hn') as [H|(n0 & Hn0 & F1 & F2 & F3)].
  - specialize (Hlt n Hn). lia.
  - assert (n0 = n) by (eapply NoDup_ids_inj; eauto; congruence). subst n0. auto.
Qed.

Lemma slots_stable_all k cap ops1 ops2 n n' :
  In n (all_elems (run k cap (init k cap) ops1)) ->
  In n' (all_elems (run k cap (run k cap (init k cap) ops1) ops2)) ->
  n_id n = n_id n' -> n_slot n' = n_slot n /\ n_key n' = n_key n.
Proof. apply slots_stable_from. apply reachable_inv. Qed.

(* identities are never reused: an element present at two moments was present all the time between *)
Lemma live_between_all k cap ops1 ops2 ops3 n n' :
  In n (all_elems (run k cap (init k cap) ops1)) ->
  In n' (all_elems (run k cap (init k cap) (ops1 ++ ops2 ++ ops3))) ->
  n_id n = n_id n' ->
  exists m, In m (all_elems (run k cap (init k cap) (ops1 ++ ops2))) /\ n_id m = n_id n /\ n_slot m = n_slot n.
Proof.
  intros Hn Hn' E. rewrite !run_app in *.
  set (st1 := run k cap (init k cap) ops1) in *. set (st2 := run k cap st1 ops2) in *.
  assert (HI1 : Inv k st1) by apply reachable_inv.
  destruct (run_inv k cap ops2 st1 HI1) as (HI2 & Hle). fold st2 in HI2, Hle.
  destruct (Inv_ids _ _ HI1) as (_ & Hlt).
  destruct (run_carried k cap ops3 st2 HI2 n' Hn') as [H|(m & Hm & F1 & F2 & F3)].
  - specialize (Hlt n Hn). lia.
  - exists m. split; auto. split; [congruence|].
    destruct (slots_stable_from k cap st1 ops2 n m HI1 Hn Hm ltac:(congruence)). auto.
Qed.

(* ---- swap --------------------------------------------------------------------------------------------- *)
Lemma swap_hands_over k cap st st' ev :
  has_swap k = true -> step k cap st OSwap = (st', ev) ->
  elems (s_a st') = elems (s_b st) /\ elems (s_b st') = elems (s_a st) /\
  c_pool (s_a st') = c_pool (s_b st) /\ c_pool (s_b st') = c_pool (s_a st) /\ ev = [].
Proof. intros H E. cbn [step] in E. rewrite H in E. injection E as <- <-. cbn. auto. Qed.

(* ---- events of a whole history ------------------------------------------------------------------------ *)
Fixpoint run_events (k : kind) (cap : nat) (st : state) (ops : list op) : list event :=
  match ops with
  | [] => []
  | o :: rest => snd (step k cap st o) ++ run_events k cap (fst (step k cap st o)) rest
  end.

Lemma pool_no_copy_from k cap ops : forall st,
  is_pool k = true -> Inv k st -> Forall pool_ok (run_events k cap st ops).
Proof.
  induction ops as [|o ops IH]; intros st Hp HI; cbn [run_events]; [constructor|].
  destruct (step k cap st o) as [st' ev] eqn:E. cbn [fst snd].
  pose proof (step_facts _ _ _ _ _ _ HI E) as F.
  apply Forall_app. split; [apply (sf_pool _ _ _ _ _ F Hp)|apply IH; auto; apply (sf_inv _ _ _ _ _ F)].
Qed.

Lemma pool_no_copy_all k cap ops :
  is_pool k = true -> Forall pool_ok (run_events k cap (init k cap) ops).
Proof. intros H. apply pool_no_copy_from; auto. apply Inv_init. Qed.

(* an element that appears in a step was born in that step, at the place where it is (and stays) *)
Lemma born_in_place_step k cap st o st' ev n' :
  Inv k st -> step k cap st o = (st', ev) ->
  In n' (all_elems st') -> (s_nid st <= n_id n')%nat -> In (birth k (n_id n') (n_slot n')) ev.
Proof.
  intros HI E Hn' Hnew. pose proof (step_facts _ _ _ _ _ _ HI E) as F.
  destruct (Inv_ids _ _ HI) as (_ & Hlt).
  destruct (cont_op o) eqn:Eo.
  - apply all_elems_in in Hn'. destruct Hn' as [Hn'|Hn'].
    + destruct (sf_nodes _ _ _ _ _ F Eo n' Hn') as [(_ & H2)|(n & Hn & (F1 & _))]; [exact H2|].
      assert (n_id n < s_nid st)%nat by (apply Hlt; apply all_elems_in; auto). lia.
    + rewrite (sf_other _ _ _ _ _ F Eo) in Hn'.
      assert (n_id n' < s_nid st)%nat by (apply Hlt; apply all_elems_in; auto). lia.
  - assert (Hin : In n' (all_elems st)).
    { unfold step in E. destruct o; try discriminate.
      - injection E as <- <-. exact Hn'.
      - destruct (has_swap k); injection E as <- <-; auto.
        unfold all_elems in *. cbn [s_a s_b] in *. rewrite in_app_iff in *. tauto. }
    specialize (Hlt n' Hin). lia.
Qed.

(* an operation that is not a removal (an insertion of one element, of all the elements of the other container, with a
   position hint; select; swap) takes no element away: every element present before is present after it, at the same
   place, with the same key *)
Lemma missing_nil_inv l l' : missing l l' = [] -> forall p, In p l -> exists n, In n l' /\ n_id n = n_id p.
Proof.
  unfold missing. intros H p Hp. destruct (existsb (fun n => (n_id n =? n_id p)%nat) l') eqn:E.
  - apply existsb_exists in E. destruct E as (n & Hn & En). exists n. split; auto. apply Nat.eqb_eq. exact En.
  - exfalso. assert (Hin : In p (filter (fun p0 => negb (existsb (fun n => (n_id n =? n_id p0)%nat) l')) l)).
    { apply filter_In. split; auto. rewrite E. reflexivity. }
    rewrite H in Hin. destruct Hin.
Qed.

Lemma no_removal_step k cap st o st' ev n :
  Inv k st -> removal_budget o = Some O -> step k cap st o = (st', ev) -> In n (all_elems st) ->
  exists n', In n' (all_elems st') /\ n_id n' = n_id n /\ n_slot n' = n_slot n /\ n_key n' = n_key n.
Proof.
  intros HI Hb E Hn. pose proof (step_facts _ _ _ _ _ _ HI E) as F.
  destruct (Inv_ids _ _ HI) as (Hnd & Hlt).
  destruct (cont_op o) eqn:Eo.
  - apply all_elems_in in Hn. destruct Hn as [Hn|Hn].
    + pose proof (sf_lost _ _ _ _ _ F Eo) as Hl. unfold removed_ok in Hl. rewrite Hb in Hl.
      apply andb_true_iff in Hl. destruct Hl as (Hl & _). apply Nat.leb_le in Hl.
      assert (Hm : missing (elems (sel st)) (elems (sel st')) = []) by (destruct (missing _ _); [reflexivity|cbn in Hl; lia]).
      destruct (missing_nil_inv _ _ Hm n Hn) as (n' & Hn' & En').
      exists n'. split; [apply all_elems_in; auto|]. split; [exact En'|].
      destruct (sf_nodes _ _ _ _ _ F Eo n' Hn') as [(H1 & _)|(n0 & Hn0 & (F1 & F2 & F3 & _))].
      * assert (n_id n < s_nid st)%nat by (apply Hlt; apply all_elems_in; auto). lia.
      * assert (n0 = n).
        { apply (NoDup_ids_inj (all_elems st)); auto; [apply all_elems_in; auto|apply all_elems_in; auto|congruence]. }
        subst n0. auto.
    + exists n. split; [apply all_elems_in; right; rewrite (sf_other _ _ _ _ _ F Eo); exact Hn|auto].
  - exists n. split; [|auto]. unfold step in E. destruct o; try discriminate.
    + injection E as <- <-. exact Hn.
    + destruct (has_swap k); injection E as <- <-; auto.
      unfold all_elems in *. cbn [s_a s_b] in *. rewrite in_app_iff in *. tauto.
Qed.

Lemma no_removal_all k cap ops o st' ev n :
  let st := run k cap (init k cap) ops in
  removal_budget o = Some O -> step k cap st o = (st', ev) -> In n (all_elems st) ->
  exists n', In n' (all_elems st') /\ n_id n' = n_id n /\ n_slot n' = n_slot n /\ n_key n' = n_key n.
Proof. intros st. apply no_removal_step. apply reachable_inv. Qed.

(* blocks are released only by the destructor *)
Lemma no_free_outside_destroy k cap st o st' ev :
  Inv k st -> step k cap st o = (st', ev) -> o <> ODestroy -> Forall not_free ev.
Proof. intros HI E Hne. exact (sf_free _ _ _ _ _ (step_facts _ _ _ _ _ _ HI E) Hne). Qed.

(* ---- the free list never hands out a live item ----------------------------------------------------------- *)
Lemma Inv_slots k st :
  Inv k st ->
  NoDup ((p_free (c_pool (s_a st)) ++ p_free (c_pool (s_b st))) ++ slots (all_elems st)).
Proof.
  intros [[_ _ H3 _] _ _]. unfold cslots, all_elems, slots in *. rewrite map_app.
  rewrite (NoDup_count_occ sdec) in *. intro x. specialize (H3 x). rewrite !count_occ_app in *. lia.
Qed.

Lemma live_slots_distinct_all k cap ops :
  let st := run k cap (init k cap) ops in
  NoDup (slots (all_elems st)) /\
  forall s, In s (p_free (c_pool (s_a st)) ++ p_free (c_pool (s_b st))) -> ~ In s (slots (all_elems st)).
Proof.
  intros st. pose proof (Inv_slots k st (reachable_inv k cap ops)) as H.
  rewrite (NoDup_count_occ sdec) in H. split.
  - rewrite (NoDup_count_occ sdec). intro x. specialize (H x). rewrite count_occ_app in H. lia.
  - intros s Hs Hin. specialize (H s). rewrite count_occ_app in H.
    apply (count_occ_In sdec) in Hs. apply (count_occ_In sdec) in Hin. lia.
Qed.

Definition is_insert (o : op) : bool := match o with OApp _ _ | OPre _ _ | OInsAt _ _ _ | OHint _ _ _ => true | _ => false end.

Lemma ins_eff_slot_fresh k key val c o ser nid c' ser' nid' ev n' :
  PInv c o ser nid -> InsEff k key val c ser nid c' ser' nid' ev ->
  In n' (elems c') -> (nid <= n_id n')%nat ->
  ~ In (n_slot n') (slots (elems c) ++ slots (elems o)) /\
  (In (n_slot n') (p_free (c_pool c)) \/ (ser <= fst (n_slot n'))%nat).
Proof.
  intros [H1 H2 H3 H4] E Hn' Hnew.
  destruct E
    as (_ & _ & [(-> & -> & Ep & Hel)|(-> & nd & l1 & l2 & ser1 & ev1 & ev2 & E1 & E2 & E3 & Hle & Ea & _)]).
  - exfalso. rewrite Forall_forall in H2.
    assert (Hid : In (n_id n') (ids (elems c) ++ ids (elems o))).
    { apply in_or_app. left. destruct Hel as [<-|(_ & l1 & x & l2 & F1 & F2 & _)]; [apply in_map; auto|].
      rewrite F1. rewrite F2 in Hn'. unfold ids. rewrite map_app. cbn [map].
      apply in_app_or in Hn'. apply in_or_app. destruct Hn' as [Hn'|[<-|Hn']]; [left; apply in_map; auto|right; left; reflexivity|right; right; apply in_map; auto]. }
    specialize (H2 _ Hid). cbn in H2. lia.
  - assert (n' = nd).
    { rewrite E2 in Hn'. apply in_app_or in Hn'. destruct Hn' as [Hn'|[<-|Hn']]; auto; exfalso;
        rewrite Forall_forall in H2;
        (assert (Hid : In (n_id n') (ids (elems c) ++ ids (elems o)));
         [apply in_or_app; left; rewrite E1; apply in_map; apply in_or_app; auto|specialize (H2 _ Hid); cbn in H2; lia]). }
    subst n'. apply alloc_effect in Ea.
    destruct Ea as [(Ef & _)|(Ef & _ & Hfst & _)].
    + split; [|left; rewrite Ef; cbn; auto].
      rewrite (NoDup_count_occ sdec) in H3. specialize (H3 (n_slot nd)). unfold cslots in H3. rewrite Ef in H3.
      rewrite !count_occ_app in H3. cbn [count_occ] in H3. destruct (sdec (n_slot nd) (n_slot nd)); [|congruence].
      intro Hin. apply in_app_or in Hin. destruct Hin as [Hin|Hin]; apply (count_occ_In sdec) in Hin; lia.
    + assert (Hf : fst (n_slot nd) = ser1) by (apply Hfst; cbn; auto).
      split; [|right; lia]. intro Hin. rewrite Forall_forall in H4.
      assert (Hc : In (n_slot nd) (cslots c ++ cslots o)).
      { unfold cslots. rewrite !in_app_iff in *. tauto. }
      specialize (H4 _ Hc). cbn in H4. lia.
Qed.

Lemma insert_slot_fresh k pos key val c o ser nid c' ser' nid' ev n' :
  shape k c -> PInv c o ser nid -> c_insert k pos key val c ser nid = (c', ser', nid', ev) ->
  In n' (elems c') -> (nid <= n_id n')%nat ->
  ~ In (n_slot n') (slots (elems c) ++ slots (elems o)) /\
  (In (n_slot n') (p_free (c_pool c)) \/ (ser <= fst (n_slot n'))%nat).
Proof. intros Hs Hp E. eapply ins_eff_slot_fresh; eauto. eapply c_insert_eff; eauto. Qed.

Lemma alloc_never_live_step k cap st o st' ev n' :
  Inv k st -> is_insert o = true -> step k cap st o = (st', ev) ->
  In n' (all_elems st') -> (s_nid st <= n_id n')%nat ->
  ~ In (n_slot n') (slots (all_elems st)) /\
  (In (n_slot n') (p_free (c_pool (sel st))) \/ (s_ser st <= fst (n_slot n'))%nat).
Proof.
  intros HI Hio E Hn' Hnew. destruct (Inv_sel _ _ HI) as (Hp & Hs & Hso).
  destruct (Inv_ids _ _ HI) as (_ & Hlt).
  assert (Hsl : forall s, In s (slots (all_elems st)) <-> In s (slots (elems (sel st)) ++ slots (elems (other st)))).
  { intros s. unfold all_elems, slots, sel, other. rewrite map_app, !in_app_iff. destruct (s_cur st); tauto. }
  assert (G0 : forall key val c' ser' nid' ev',
             InsEff k key val (sel st) (s_ser st) (s_nid st) c' ser' nid' ev' ->
             st' = set_sel st c' ser' nid' ->
             ~ In (n_slot n') (slots (all_elems st)) /\
             (In (n_slot n') (p_free (c_pool (sel st))) \/ (s_ser st <= fst (n_slot n'))%nat)).
  { intros key val c' ser' nid' ev' Ei ->.
    destruct (set_sel_facts st c' ser' nid') as (F1 & F2 & _).
    apply all_elems_in in Hn'. rewrite F1, F2 in Hn'. destruct Hn' as [Hn'|Hn'].
    - destruct (ins_eff_slot_fresh _ _ _ _ _ _ _ _ _ _ _ _ Hp Ei Hn' Hnew) as (G1 & G2). split; auto.
      rewrite Hsl. exact G1.
    - assert (n_id n' < s_nid st)%nat by (apply Hlt; apply all_elems_in; auto). lia. }
  assert (G : forall pos key val c' ser' nid' ev',
             c_insert k pos key val (sel st) (s_ser st) (s_nid st) = (c', ser', nid', ev') ->
             st' = set_sel st c' ser' nid' ->
             ~ In (n_slot n') (slots (all_elems st)) /\
             (In (n_slot n') (p_free (c_pool (sel st))) \/ (s_ser st <= fst (n_slot n'))%nat)).
  { intros pos key val c' ser' nid' ev' Ei ->.
    destruct (set_sel_facts st c' ser' nid') as (F1 & F2 & _).
    apply all_elems_in in Hn'. rewrite F1, F2 in Hn'. destruct Hn' as [Hn'|Hn'].
    - destruct (insert_slot_fresh _ _ _ _ _ _ _ _ _ _ _ _ _ Hs Hp Ei Hn' Hnew) as (G1 & G2). split; auto.
      rewrite Hsl. exact G1.
    - assert (n_id n' < s_nid st)%nat by (apply Hlt; apply all_elems_in; auto). lia. }
  unfold step in E. destruct o; try discriminate.
  - destruct (c_insert k (length (elems (sel st))) k0 v (sel st) (s_ser st) (s_nid st)) as [[[c' ser'] nid'] ev'] eqn:Ei.
    injection E as <- <-. eapply G; eauto.
  - destruct (c_insert k 0 k0 v (sel st) (s_ser st) (s_nid st)) as [[[c' ser'] nid'] ev'] eqn:Ei.
    injection E as <- <-. eapply G; eauto.
  - destruct (c_insert k pos k0 v (sel st) (s_ser st) (s_nid st)) as [[[c' ser'] nid'] ev'] eqn:Ei.
    injection E as <- <-. eapply G; eauto.
  - destruct (has_hint k).
    + destruct (c_insert_hint k pos k0 v (sel st) (s_ser st) (s_nid st)) as [[[c' ser'] nid'] ev'] eqn:Ei.
      injection E as <- <-. eapply G0; eauto. eapply c_insert_hint_eff; eauto.
    + injection E as <- <-. destruct (Inv_ids _ _ HI) as (_ & Hlt2). specialize (Hlt2 n' Hn'). lia.
Qed.
