(* Reference object for property C05: what "elements never move while they live" means on the
   observations of a history.  This file does not look at the code.

   An observation of a pair of containers (A, B of the same kind) lists, in iteration order, the
   elements stored in each: the identity of the object (the serial number of the construction
   that created it), the place where it is stored (allocation serial, index in the block), its key
   and its payload.  [check_step] says what every operation of a history has to respect:

     - an element that is present before and after the operation is at the same place, has the
       same key and (unless the operation is an assignment to exactly that key) the same
       payload, and is in the same container;
     - swap hands the two element sequences over unchanged (same objects, same places, same keys and
       payloads); that the model's swap performs no construction / copy / destruction / allocation at
       all is a theorem about the model (swap_hands_over_slots), not a demand on observations;
     - an element that appears was born in this operation, at the place where it now is
       (some constructor ran there: the statement fixes the KIND of construction only for the pool
       containers, which never copy or move);
     - a destructor event of an element names the place the element had (temporaries that are created and destroyed
       inside one operation are not elements);
     - an element disappears only through a removal: insertions - of one element or of all the
       elements of the other container - take nothing away, a remove operation at most one
       element, and that one is the element the operation names (by position, front, back, key
       or payload);
     - no two live elements share a place;  the other container is not touched;
     - PoolList / PoolMap never copy, move or assign an element;
     - an allocation that holds a live element is not released (the statement protects elements
       "while they live"; that the model releases blocks only in the destructor is a theorem
       about the model, blocks_released_only_by_destructor, not a demand on observations). *)
From Coq Require Import ZArith List Bool Arith.
Import ListNotations.
Local Open Scope Z_scope.

Definition slot := (nat * nat)%type.                 (* allocation serial, index within the block *)
Definition slot_eqb (a b : slot) : bool := (fst a =? fst b)%nat && (snd a =? snd b)%nat.

Record node := mkNode { n_id : nat; n_slot : slot; n_key : Z; n_val : Z }.
Definition set_val (n : node) (v : Z) : node := mkNode (n_id n) (n_slot n) (n_key n) v.
Definition node_eqb (a b : node) : bool :=
  (n_id a =? n_id b)%nat && slot_eqb (n_slot a) (n_slot b) && (n_key a =? n_key b) && (n_val a =? n_val b).

Inductive kind := KList | KMap | KMulti | KHashMap | KHashSet | KPoolList | KPoolMap.
Definition is_pool (k : kind) : bool := match k with KPoolList | KPoolMap => true | _ => false end.
Definition has_swap (k : kind) : bool :=
  match k with KList | KHashMap | KHashSet | KPoolList | KPoolMap => true | _ => false end.
Definition has_assign (k : kind) : bool :=
  match k with KList | KMap | KMulti | KHashMap | KHashSet => true | _ => false end.

Inductive event :=
| ECons (id : nat) (s : slot)       (* constructed in place (default / argument constructor) *)
| ECopy (id : nat) (s : slot)       (* copy-constructed at s *)
| EMove (id : nat) (s : slot)       (* move-constructed at s *)
| EAssign (id : nat)                (* operator= onto the object id *)
| EDestroy (id : nat) (s : slot)    (* destructor of the object id, which is at s *)
| EAlloc (serial : nat)             (* operator new[]: the allocation gets this serial *)
| EFree (serial : nat).             (* operator delete[] of that allocation *)

Inductive op :=
| OSel (b : bool)                   (* select container A (false) / B (true) *)
| OApp (k v : Z) | OPre (k v : Z) | OInsAt (pos : nat) (k v : Z)
| ORemAt (pos : nat) | ORemFront | ORemBack | ORemKey (k : Z)
| OClear | OSwap | OAssign | ODestroy
(* whole-container operations: the argument is the OTHER container of the pair *)
| OInsAll (pos : option nat)        (* List::append (None) / prepend (Some 0) / insert(position, ..) (const List&),
                                       HashSet::append(const HashSet&), Map::insert(const Map&) *)
| ORemAll                           (* HashSet::remove(const HashSet&) *)
| OHint (pos : nat) (k v : Z).      (* Map / MultiMap ::insert(position, key, value): insertion with a position hint *)
Definition has_insall (k : kind) : bool := match k with KList | KHashSet | KMap => true | _ => false end.
Definition has_remall (k : kind) : bool := match k with KHashSet => true | _ => false end.
Definition has_hint (k : kind) : bool := match k with KMap | KMulti => true | _ => false end.

(* ---- the checker -------------------------------------------------------------------------- *)
Record obs := mkObs { ob_a : list node; ob_b : list node }.
Record sstate := mkS { ss_obs : obs; ss_cur : bool; ss_next : nat }.   (* ids seen so far are < ss_next *)
Definition ss_init : sstate := mkS (mkObs [] []) false O.

Definition lookup_id (l : list node) (id : nat) : option node := find (fun n => (n_id n =? id)%nat) l.

Fixpoint nodup_nat (l : list nat) : bool :=
  match l with [] => true | x :: r => negb (existsb (Nat.eqb x) r) && nodup_nat r end.
Fixpoint nodup_slot (l : list slot) : bool :=
  match l with [] => true | x :: r => negb (existsb (slot_eqb x) r) && nodup_slot r end.
Fixpoint nodes_eqb (a b : list node) : bool :=
  match a, b with
  | [], [] => true
  | x :: a', y :: b' => node_eqb x y && nodes_eqb a' b'
  | _, _ => false
  end.

Definition may_assign (kd : kind) (o : op) (k : Z) : bool :=
  match kd with
  | KMap | KHashMap | KPoolMap =>
      match o with
      | OApp k' _ | OPre k' _ | OInsAt _ k' _ | OHint _ k' _ => k =? k'
      | OInsAll _ => match kd with KMap => true | _ => false end      (* Map::insert(const Map&) assigns the payloads of the keys both maps have *)
      | _ => false
      end
  | _ => false
  end.

Definition event_eqb (a b : event) : bool :=
  match a, b with
  | ECons i s, ECons j t | ECopy i s, ECopy j t | EMove i s, EMove j t | EDestroy i s, EDestroy j t =>
      (i =? j)%nat && slot_eqb s t
  | EAssign i, EAssign j | EAlloc i, EAlloc j | EFree i, EFree j => (i =? j)%nat
  | _, _ => false
  end.

(* the construction event the MODEL emits for a new element (it mirrors the code: the pool containers construct in
   place, the others copy-construct from the argument) ... *)
Definition birth (kd : kind) (id : nat) (s : slot) : event := if is_pool kd then ECons id s else ECopy id s.
(* ... and what the property demands of an observation: SOME constructor created the object id at the place s in this
   operation; a copy or move constructor only outside the pool containers *)
Definition born (kd : kind) (id : nat) (s : slot) (e : event) : bool :=
  match e with
  | ECons i t => (i =? id)%nat && slot_eqb t s
  | ECopy i t | EMove i t => negb (is_pool kd) && (i =? id)%nat && slot_eqb t s
  | _ => false
  end.

(* one element of the selected / other side after the operation *)
Definition elem_ok (kd : kind) (o : op) (assignable : bool) (next : nat) (ev : list event)
           (prev_same prev_other : list node) (n : node) : bool :=
  match lookup_id prev_same (n_id n) with
  | Some p =>
      slot_eqb (n_slot n) (n_slot p) && (n_key n =? n_key p) &&
      ((n_val n =? n_val p) || (assignable && may_assign kd o (n_key p)))
  | None =>
      match lookup_id prev_other (n_id n) with
      | Some _ => false                                           (* changed container *)
      | None => (next <=? n_id n)%nat && existsb (born kd (n_id n) (n_slot n)) ev
      end
  end.

(* a destructor event of an element names the place the element had; the destructor of an object that was created in
   this very operation and never was an element (a temporary) is no concern of the property *)
Definition destroy_ok (prev : list node) (next : nat) (e : event) : bool :=
  match e with
  | EDestroy id s => match lookup_id prev id with Some p => slot_eqb s (n_slot p) | None => (next <=? id)%nat end
  | _ => true
  end.

Definition pool_event_ok (e : event) : bool :=
  match e with ECopy _ _ | EMove _ _ | EAssign _ => false | _ => true end.
Definition is_free (e : event) : bool := match e with EFree _ => true | _ => false end.
Definition is_destroy_op (o : op) : bool := match o with ODestroy => true | _ => false end.
(* outside the destructor an allocation may only be released when no element that is live after the operation lies in it *)
Definition free_ok (o : op) (all_now : list node) (e : event) : bool :=
  match e with
  | EFree ser => is_destroy_op o || negb (existsb (fun n => (fst (n_slot n) =? ser)%nat) all_now)
  | _ => true
  end.

(* an element only disappears through a removal: how many elements of the selected container an
   operation may take away (None = any number: clear, operator=, destructor) *)
Definition removal_budget (o : op) : option nat :=
  match o with
  | OSel _ | OApp _ _ | OPre _ _ | OInsAt _ _ _ | OSwap | OInsAll _ | OHint _ _ _ => Some O
  | ORemAt _ | ORemFront | ORemBack | ORemKey _ => Some 1%nat
  | OClear | OAssign | ODestroy | ORemAll => None
  end.
Definition missing (prev now : list node) : list node :=
  filter (fun p => negb (existsb (fun n => (n_id n =? n_id p)%nat) now)) prev.
(* ... and WHICH element a removal takes: the one at the given position, the first, the last, one with
   the given key (the given payload for List::remove(const T&)) *)
Definition takes (kd : kind) (o : op) (prev_sel : list node) (m : node) : bool :=
  match o with
  | ORemAt pos => match nth_error prev_sel pos with Some p => (n_id m =? n_id p)%nat | None => false end
  | ORemFront => match prev_sel with p :: _ => (n_id m =? n_id p)%nat | [] => false end
  | ORemBack => match nth_error prev_sel (length prev_sel - 1) with Some p => (n_id m =? n_id p)%nat | None => false end
  | ORemKey k => match kd with KList => n_val m =? k | KPoolList => false | _ => n_key m =? k end
  | _ => true
  end.
(* HashSet::remove(const HashSet&) takes only elements whose key the other set contains *)
Definition key_in (l : list node) (m : node) : bool := existsb (fun p => n_key p =? n_key m) l.
Definition removed_ok (kd : kind) (o : op) (prev_sel prev_oth now_sel : list node) : bool :=
  match removal_budget o with
  | None => match o with ORemAll => forallb (key_in prev_oth) (missing prev_sel now_sel) | _ => true end
  | Some b => (length (missing prev_sel now_sel) <=? b)%nat && forallb (takes kd o prev_sel) (missing prev_sel now_sel)
  end.

Definition max_id (l : list node) : nat := fold_right (fun n m => Nat.max (S (n_id n)) m) O l.

Definition check_step (kd : kind) (st : sstate) (o : op) (now : obs) (ev : list event) : bool :=
  let prev := ss_obs st in
  let sel := ss_cur st in
  let all_now := ob_a now ++ ob_b now in
  nodup_nat (map n_id all_now) && nodup_slot (map n_slot all_now) &&
  (if is_pool kd then forallb pool_event_ok ev else true) &&
  forallb (free_ok o all_now) ev &&
  forallb (destroy_ok (ob_a prev ++ ob_b prev) (ss_next st)) ev &&
  match o with
  | OSwap =>
      if has_swap kd
      then nodes_eqb (ob_a now) (ob_b prev) && nodes_eqb (ob_b now) (ob_a prev)
      else nodes_eqb (ob_a now) (ob_a prev) && nodes_eqb (ob_b now) (ob_b prev)
  | _ =>
      (if sel then nodes_eqb (ob_a now) (ob_a prev) else nodes_eqb (ob_b now) (ob_b prev)) &&
      forallb (elem_ok kd o (negb sel) (ss_next st) ev (ob_a prev) (ob_b prev)) (ob_a now) &&
      forallb (elem_ok kd o sel (ss_next st) ev (ob_b prev) (ob_a prev)) (ob_b now) &&
      (if sel then removed_ok kd o (ob_b prev) (ob_a prev) (ob_b now) else removed_ok kd o (ob_a prev) (ob_b prev) (ob_a now))
  end.

Definition next_sstate (st : sstate) (o : op) (now : obs) : sstate :=
  mkS now (match o with OSel b => b | _ => ss_cur st end)
      (Nat.max (ss_next st) (max_id (ob_a now ++ ob_b now))).

(* whole trace: index of the first operation whose observation breaks the property, if any *)
Fixpoint check_trace (kd : kind) (st : sstate) (tr : list (op * obs * list event)) (i : nat) : option nat :=
  match tr with
  | [] => None
  | (o, now, ev) :: rest =>
      if check_step kd st o now ev then check_trace kd (next_sstate st o now) rest (S i) else Some i
  end.
