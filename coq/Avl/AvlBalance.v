(* Balance part of the AVL invariant: stored heights are the real heights, the two subtrees of
   every node differ by at most one in height; preserved by rebal, ins, ins_at, set_val_at and
   the removal functions; rebal preserves the in-order sequence. *)
From Coq Require Import ZArith List Bool Arith Lia ZifyBool.
From Avl Require Import AvlSpec AvlModel.
Import ListNotations.
Local Open Scope Z_scope.

Arguments Nat.max : simpl never.
Arguments Z.of_nat : simpl never.
Arguments Z.sub : simpl never.

Fixpoint height (t : tree) : nat :=
  match t with Leaf => O | Node l _ _ _ _ r => S (Nat.max (height l) (height r)) end.

Fixpoint bal (t : tree) : Prop :=
  match t with
  | Leaf => True
  | Node l _ _ _ h r =>
      bal l /\ bal r /\ h = S (Nat.max (ht l) (ht r)) /\ (ht l <= S (ht r))%nat /\ (ht r <= S (ht l))%nat
  end.

Lemma bal_ht_height t : bal t -> ht t = height t.
Proof.
  induction t as [|l IHl k v s h r IHr]; cbn [bal ht height]; auto.
  intros (Hl & Hr & Hh & _). rewrite <- IHl, <- IHr by assumption. exact Hh.
Qed.

Lemma ht_zero_leaf t : bal t -> ht t = O -> t = Leaf.
Proof. destruct t; cbn [bal ht]; auto. intros (_ & _ & Hh & _) E. lia. Qed.

Lemma bal_mk l k v s r :
  bal l -> bal r -> (ht l <= S (ht r))%nat -> (ht r <= S (ht l))%nat -> bal (mk l k v s r).
Proof. intros. cbn [mk bal]. auto. Qed.

Lemma ht_mk l k v s r : ht (mk l k v s r) = S (Nat.max (ht l) (ht r)).
Proof. reflexivity. Qed.

Lemma inorder_mk l k v s r : inorder (mk l k v s r) = inorder l ++ (k, v, s) :: inorder r.
Proof. reflexivity. Qed.

Lemma size_inorder t : size t = length (inorder t).
Proof.
  induction t as [|l IHl k v s h r IHr]; cbn [size inorder]; auto.
  rewrite app_length. cbn [length]. lia.
Qed.

Ltac fin := repeat match goal with |- _ /\ _ => split end; try assumption; try reflexivity; try lia;
  try (repeat (first [rewrite <- app_assoc | progress cbn [app]]); reflexivity).

(* the central lemma: re-balancing a node whose subtrees are balanced and differ by at most 2 *)
Lemma rebal_spec l k v s r :
  bal l -> bal r -> (ht l <= ht r + 2)%nat -> (ht r <= ht l + 2)%nat ->
  let t' := rebal (mk l k v s r) in
  bal t' /\ inorder t' = inorder l ++ (k, v, s) :: inorder r /\
  (ht t' <= S (Nat.max (ht l) (ht r)))%nat /\ (Nat.max (ht l) (ht r) <= ht t')%nat /\
  ((ht l <= S (ht r))%nat -> (ht r <= S (ht l))%nat -> t' = mk l k v s r).
Proof.
  intros Hl Hr H1 H2. cbv zeta. unfold rebal, mk. cbn [slope].
  destruct (Z.of_nat (ht l) - Z.of_nat (ht r) >? 1) eqn:E1.
  - (* shiftr *)
    assert (Hh : ht l = (ht r + 2)%nat) by lia.
    destruct l as [|ll lk lv ls lh lr]; [cbn [ht] in Hh; lia|].
    cbn [bal ht] in Hl, Hh. destruct Hl as (Hll & Hlr & Hlh & Hb1 & Hb2).
    cbn [shiftr slope mk].
    destruct (Z.of_nat (ht ll) - Z.of_nat (ht lr) =? -1) eqn:E2.
    + destruct lr as [|a ak av as_ ah b]; [cbn [ht] in *; lia|].
      cbn [bal ht] in Hlr. destruct Hlr as (Ha & Hb & Hah & Hb3 & Hb4).
      cbn [rotl rotr mk ht bal inorder] in *. fin.
    + cbn [rotr mk ht bal inorder] in *. fin.
  - destruct (Z.of_nat (ht l) - Z.of_nat (ht r) <? -1) eqn:E3.
    + assert (Hh : ht r = (ht l + 2)%nat) by lia.
      destruct r as [|rl rk rv rs rh rr]; [cbn [ht] in Hh; lia|].
      cbn [bal ht] in Hr, Hh. destruct Hr as (Hrl & Hrr & Hrh & Hb1 & Hb2).
      cbn [shiftl slope mk].
      destruct (Z.of_nat (ht rl) - Z.of_nat (ht rr) =? 1) eqn:E2.
      * destruct rl as [|a ak av as_ ah b]; [cbn [ht] in *; lia|].
        cbn [bal ht] in Hrl. destruct Hrl as (Ha & Hb & Hah & Hb3 & Hb4).
        cbn [rotl rotr mk ht bal inorder] in *. fin.
      * cbn [rotl mk ht bal inorder] in *. fin.
    + cbn [mk ht bal inorder] in *. fin.
Qed.

(* rebal never changes the in-order sequence, whatever the tree *)
Lemma inorder_rotr t : inorder (rotr t) = inorder t.
Proof.
  destruct t as [|[|a k1 v1 s1 h1 b] k2 v2 s2 h2 c]; cbn [rotr mk inorder]; auto.
  rewrite <- app_assoc. reflexivity.
Qed.
Lemma inorder_rotl t : inorder (rotl t) = inorder t.
Proof.
  destruct t as [|a k1 v1 s1 h1 [|b k2 v2 s2 h2 c]]; cbn [rotl mk inorder]; auto.
  rewrite <- app_assoc. reflexivity.
Qed.
Lemma inorder_rebal t : inorder (rebal t) = inorder t.
Proof.
  unfold rebal. destruct (slope t >? 1).
  - destruct t as [|l k v s h r]; auto. cbn [shiftr]. rewrite inorder_rotr.
    destruct (slope l =? -1); cbn [inorder]; auto. rewrite inorder_rotl. reflexivity.
  - destruct (slope t <? -1); auto.
    destruct t as [|l k v s h r]; auto. cbn [shiftl]. rewrite inorder_rotl.
    destruct (slope r =? 1); cbn [inorder]; auto. rewrite inorder_rotr. reflexivity.
Qed.
Lemma inorder_rebal_mk l k v s r : inorder (rebal (mk l k v s r)) = inorder l ++ (k, v, s) :: inorder r.
Proof. rewrite inorder_rebal. reflexivity. Qed.

Lemma size_rebal t : size (rebal t) = size t.
Proof. rewrite !size_inorder, inorder_rebal. reflexivity. Qed.

(* ---- one subtree replaced by a taller / shorter one ------------------------------------------ *)
Lemma rebal_grow_l l l' r k v s :
  bal l' -> bal r -> (ht l <= S (ht r))%nat -> (ht r <= S (ht l))%nat ->
  (ht l' = ht l \/ ht l' = S (ht l)) ->
  bal (rebal (mk l' k v s r)) /\
  (ht (rebal (mk l' k v s r)) = S (Nat.max (ht l) (ht r)) \/ ht (rebal (mk l' k v s r)) = S (S (Nat.max (ht l) (ht r)))).
Proof.
  intros Hl' Hr B1 B2 Hg.
  destruct (rebal_spec l' k v s r Hl' Hr ltac:(lia) ltac:(lia)) as (Hb & _ & Hle & Hge & Hid).
  split; auto. destruct (le_gt_dec (ht l') (S (ht r))) as [Hc|Hc].
  - rewrite Hid by lia. cbn [mk ht]. lia.
  - lia.
Qed.

Lemma rebal_grow_r l r r' k v s :
  bal l -> bal r' -> (ht l <= S (ht r))%nat -> (ht r <= S (ht l))%nat ->
  (ht r' = ht r \/ ht r' = S (ht r)) ->
  bal (rebal (mk l k v s r')) /\
  (ht (rebal (mk l k v s r')) = S (Nat.max (ht l) (ht r)) \/ ht (rebal (mk l k v s r')) = S (S (Nat.max (ht l) (ht r)))).
Proof.
  intros Hl Hr' B1 B2 Hg.
  destruct (rebal_spec l k v s r' Hl Hr' ltac:(lia) ltac:(lia)) as (Hb & _ & Hle & Hge & Hid).
  split; auto. destruct (le_gt_dec (ht r') (S (ht l))) as [Hc|Hc].
  - rewrite Hid by lia. cbn [mk ht]. lia.
  - lia.
Qed.

Lemma rebal_shrink_l l l' r k v s :
  bal l' -> bal r -> (ht l <= S (ht r))%nat -> (ht r <= S (ht l))%nat ->
  (ht l' = ht l \/ S (ht l') = ht l) ->
  bal (rebal (mk l' k v s r)) /\
  (ht (rebal (mk l' k v s r)) = S (Nat.max (ht l) (ht r)) \/ S (ht (rebal (mk l' k v s r))) = S (Nat.max (ht l) (ht r))).
Proof.
  intros Hl' Hr B1 B2 Hg.
  destruct (rebal_spec l' k v s r Hl' Hr ltac:(lia) ltac:(lia)) as (Hb & _ & Hle & Hge & Hid).
  split; auto. destruct (le_gt_dec (ht r) (S (ht l'))) as [Hc|Hc].
  - rewrite Hid by lia. cbn [mk ht]. lia.
  - lia.
Qed.

Lemma rebal_shrink_r l r r' k v s :
  bal l -> bal r' -> (ht l <= S (ht r))%nat -> (ht r <= S (ht l))%nat ->
  (ht r' = ht r \/ S (ht r') = ht r) ->
  bal (rebal (mk l k v s r')) /\
  (ht (rebal (mk l k v s r')) = S (Nat.max (ht l) (ht r)) \/ S (ht (rebal (mk l k v s r'))) = S (Nat.max (ht l) (ht r))).
Proof.
  intros Hl Hr' B1 B2 Hg.
  destruct (rebal_spec l k v s r' Hl Hr' ltac:(lia) ltac:(lia)) as (Hb & _ & Hle & Hge & Hid).
  split; auto. destruct (le_gt_dec (ht l) (S (ht r'))) as [Hc|Hc].
  - rewrite Hid by lia. cbn [mk ht]. lia.
  - lia.
Qed.

(* ---- insertion ------------------------------------------------------------------------------ *)
Lemma ins_bal f k v s t :
  bal t -> bal (ins f k v s t) /\ (ht (ins f k v s t) = ht t \/ ht (ins f k v s t) = S (ht t)).
Proof.
  induction t as [|l IHl k' v' s' h r IHr]; intros Hb.
  - cbn [ins bal ht]. repeat split; auto.
  - cbn [bal] in Hb. destruct Hb as (Hl & Hr & Hh & B1 & B2). specialize (IHl Hl). specialize (IHr Hr).
    destruct IHl as (IHl1 & IHl2), IHr as (IHr1 & IHr2). cbn [ins ht]. subst h.
    destruct f.
    + destruct (k >? k').
      * apply rebal_grow_r; auto.
      * destruct (k <? k').
        -- apply rebal_grow_l; auto.
        -- cbn [bal ht]. auto 8.
    + destruct (k <? k').
      * apply rebal_grow_l; auto.
      * apply rebal_grow_r; auto.
Qed.

Lemma ins_at_bal f rank side k v s t :
  bal t -> bal (ins_at f rank side k v s t) /\
           (ht (ins_at f rank side k v s t) = ht t \/ ht (ins_at f rank side k v s t) = S (ht t)).
Proof.
  revert rank. induction t as [|l IHl k' v' s' h r IHr]; intros rank Hb.
  - cbn [ins_at bal ht]. auto.
  - cbn [bal] in Hb. destruct Hb as (Hl & Hr & Hh & B1 & B2). cbn [ins_at ht]. subst h.
    destruct (rank <? size l)%nat.
    + destruct (IHl rank Hl). apply rebal_grow_l; auto.
    + destruct (rank =? size l)%nat.
      * destruct side.
        -- destruct (ins_bal f k v s r Hr). apply rebal_grow_r; auto.
        -- destruct (ins_bal f k v s l Hl). apply rebal_grow_l; auto.
      * destruct (IHr (rank - size l - 1)%nat Hr). apply rebal_grow_r; auto.
Qed.

Lemma set_val_at_bal rank v t : bal t -> bal (set_val_at rank v t) /\ ht (set_val_at rank v t) = ht t.
Proof.
  revert rank. induction t as [|l IHl k' v' s' h r IHr]; intros rank Hb; cbn [set_val_at]; auto.
  cbn [bal] in Hb. destruct Hb as (Hl & Hr & Hh & B1 & B2).
  destruct (rank <? size l)%nat; [|destruct (rank =? size l)%nat].
  - destruct (IHl rank Hl) as (H1 & H2). cbn [bal ht]. rewrite H2. auto 8.
  - cbn [bal ht]. auto 8.
  - destruct (IHr (rank - size l - 1)%nat Hr) as (H1 & H2). cbn [bal ht]. rewrite H2. auto 8.
Qed.

(* ---- removal -------------------------------------------------------------------------------- *)
Lemma pop_min_bal l : forall k v s r h,
  bal (Node l k v s h r) ->
  bal (snd (pop_min l k v s r)) /\ (ht (snd (pop_min l k v s r)) = h \/ S (ht (snd (pop_min l k v s r))) = h).
Proof.
  induction l as [|ll IHll lk lv ls lh lr _]; intros k v s r h Hb.
  - cbn [bal ht] in Hb. destruct Hb as (_ & Hr & Hh & B1 & B2). cbn [pop_min snd]. split; auto; lia.
  - cbn [bal] in Hb. destruct Hb as (Hl & Hr & Hh & B1 & B2). cbn [pop_min].
    specialize (IHll lk lv ls lr lh Hl).
    destruct (pop_min ll lk lv ls lr) as [e l'] eqn:E. cbn [snd] in *. destruct IHll as (Hl' & Hd).
    subst h. apply rebal_shrink_l; auto; cbn [ht]; lia.
Qed.

Lemma pop_max_bal r : forall l k v s h,
  bal (Node l k v s h r) ->
  bal (snd (pop_max l k v s r)) /\ (ht (snd (pop_max l k v s r)) = h \/ S (ht (snd (pop_max l k v s r))) = h).
Proof.
  induction r as [|rl _ rk rv rs rh rr IHrr]; intros l k v s h Hb.
  - cbn [bal ht] in Hb. destruct Hb as (Hl & _ & Hh & B1 & B2). cbn [pop_max snd]. split; auto; lia.
  - cbn [bal] in Hb. destruct Hb as (Hl & Hr & Hh & B1 & B2). cbn [pop_max].
    specialize (IHrr rl rk rv rs rh Hr).
    destruct (pop_max rl rk rv rs rr) as [e r'] eqn:E. cbn [snd] in *. destruct IHrr as (Hr' & Hd).
    subst h. apply rebal_shrink_r; auto; cbn [ht]; lia.
Qed.

Lemma remove_root_bal l k v s h r :
  bal (Node l k v s h r) ->
  bal (remove_root l r) /\ (ht (remove_root l r) = h \/ S (ht (remove_root l r)) = h).
Proof.
  intros Hb. pose proof Hb as Hb0. cbn [bal] in Hb. destruct Hb as (Hl & Hr & Hh & B1 & B2).
  destruct l as [|ll lk lv ls lh lr], r as [|rl rk rv rs rh rr]; cbn [remove_root].
  - cbn [bal ht] in *. split; auto; lia.
  - cbn [ht] in *. split; auto; lia.
  - cbn [ht] in *. split; auto; lia.
  - destruct (ht (Node ll lk lv ls lh lr) <? ht (Node rl rk rv rs rh rr))%nat.
    + pose proof (pop_min_bal rl rk rv rs rr rh Hr) as Hp.
      destruct (pop_min rl rk rv rs rr) as [e r'] eqn:E. cbn [snd] in Hp. destruct Hp as (Hr' & Hd).
      subst h. apply rebal_shrink_r; auto; cbn [ht]; lia.
    + pose proof (pop_max_bal lr ll lk lv ls lh Hl) as Hp.
      destruct (pop_max ll lk lv ls lr) as [e l'] eqn:E. cbn [snd] in Hp. destruct Hp as (Hl' & Hd).
      subst h. apply rebal_shrink_l; auto; cbn [ht]; lia.
Qed.

Lemma remove_rank_bal i t :
  bal t -> bal (remove_rank i t) /\ (ht (remove_rank i t) = ht t \/ S (ht (remove_rank i t)) = ht t).
Proof.
  revert i. induction t as [|l IHl k v s h r IHr]; intros i Hb.
  - cbn [remove_rank bal ht]. auto.
  - pose proof Hb as Hb0. cbn [bal] in Hb. destruct Hb as (Hl & Hr & Hh & B1 & B2). cbn [remove_rank ht].
    destruct (i <? size l)%nat.
    + destruct (IHl i Hl). subst h. apply rebal_shrink_l; auto.
    + destruct (i =? size l)%nat.
      * apply (remove_root_bal l k v s h r Hb0).
      * destruct (IHr (i - size l - 1)%nat Hr). subst h. apply rebal_shrink_r; auto.
Qed.

(* ---- cost of find ---------------------------------------------------------------------------- *)
Lemma find_cmps_height f k t : (find_cmps f k t <= 2 * height t)%nat.
Proof.
  induction t as [|l IHl k' v' s' h r IHr]; cbn [find_cmps height]; [lia|].
  destruct (k >? k'); [lia|]. destruct (k <? k'); [lia|]. destruct f; lia.
Qed.

(* ---- Fibonacci lower bound on the size -------------------------------------------------------- *)
Fixpoint fib (n : nat) : nat :=
  match n with
  | O => O
  | S m => match m with O => 1%nat | S p => (fib p + fib m)%nat end
  end.

Lemma fib_SS n : fib (S (S n)) = (fib n + fib (S n))%nat.
Proof. reflexivity. Qed.

Lemma fib_mono_S n : (fib n <= fib (S n))%nat.
Proof. destruct n as [|n]; [cbn; lia|]. rewrite fib_SS. lia. Qed.

Lemma fib_mono n m : (n <= m)%nat -> (fib n <= fib m)%nat.
Proof. induction 1 as [|m _ IH]; [lia|]. pose proof (fib_mono_S m). lia. Qed.

Lemma size_lower_bound t : bal t -> (fib (ht t + 2) <= size t + 1)%nat.
Proof.
  induction t as [|l IHl k v s h r IHr]; intros Hb.
  - cbn. lia.
  - cbn [bal] in Hb. destruct Hb as (Hl & Hr & Hh & B1 & B2). specialize (IHl Hl). specialize (IHr Hr).
    cbn [ht size]. subst h.
    destruct (le_gt_dec (ht r) (ht l)) as [Hc|Hc].
    + replace (Nat.max (ht l) (ht r)) with (ht l) by lia.
      replace (S (ht l) + 2)%nat with (S (S (ht l + 1))) by lia. rewrite fib_SS.
      replace (S (ht l + 1)) with (ht l + 2)%nat by lia.
      pose proof (fib_mono (ht l + 1) (ht r + 2) ltac:(lia)). lia.
    + replace (Nat.max (ht l) (ht r)) with (ht r) by lia.
      replace (S (ht r) + 2)%nat with (S (S (ht r + 1))) by lia. rewrite fib_SS.
      replace (S (ht r + 1)) with (ht r + 2)%nat by lia.
      pose proof (fib_mono (ht r + 1) (ht l + 2) ltac:(lia)). lia.
Qed.
