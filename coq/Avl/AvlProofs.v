From Coq Require Import ZArith List Bool Arith Lia.
From Avl Require Import AvlSpec AvlModel.
Import ListNotations.
Local Open Scope Z_scope.

Lemma inorder_rotr t : inorder (rotr t) = inorder t.
Proof.
  destruct t as [|[|a k1 v1 s1 h1 b] k2 v2 s2 h2 c]; cbn [rotr mk inorder]; auto.
  rewrite <- app_assoc. reflexivity.
Qed.
