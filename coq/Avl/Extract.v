From Coq Require Extraction ExtrOcamlBasic.
From Common Require Import Words.
From Avl Require Import AvlSpec AvlModel AvlHeapModel.
Extraction Language OCaml.
Extraction "model.ml" anchor m_init s_init step spec_step choice_of m_sel s_sel m_other s_other inorder size
  h_init hstep h_sel h_other.
